(* L3, part 2: event delivery, connection loss and the non-receive operations *)
From Coq Require Import List Bool Ascii Arith NArith ZArith Lia.
From TxVerif Require Import Lib.Bytes Spec.Ctl Spec.CtlOracle Model.CtlTypes Gen.CtlFsmTable Model.Framing Model.CtlProto
  Proofs.CtlParse Proofs.CtlRefine.
Import ListNotations.
Open Scope N_scope.

(* pairs (state, observations) without a success flag *)
Definition agree2 (r : pstate * list obs) (ra : astate * list obs) (k : pstate -> astate -> Prop) : Prop :=
  let '(p', o) := r in let '(a', o') := ra in o = o' /\ k p' a'.

Lemma frame_ev_refl p a : qrel p a -> erel p a -> frame_ev p a p a.
Proof. intros R E. split; [split; [exact R|split; [apply lines_same_refl|apply todo_same_refl]]|exact E]. Qed.

Lemma rem_raises_iff p a n l c : qrel p a -> erel p a ->
  snd (rem_listener submit0 p n l c) = existsb (N.eqb l) (lookup (a_listeners a) n).
Proof.
  intros R E. unfold erel in E. rewrite <- E. unfold rem_listener.
  destruct (find_ev (p_events p) n) as [ls|] eqn:F.
  - rewrite (find_ev_lookup _ _ _ F). rewrite remove_first_rm1.
    destruct (existsb (N.eqb l) ls); [|reflexivity].
    destruct (rm1 l ls) as [|x l']; [|reflexivity].
    (* the SETEVENTS submission cannot fail under qrel *)
    set (e := del_ev (p_events p) n).
    assert (R' : qrel (upd_ev p e) (al a e)) by (destruct R; constructor; assumption).
    destruct R' as [Ri Rq Rl Rw Rid Rlq]. unfold submit0, submit. cbn [upd_ev p_lost p_inflight p_queue] in *.
    destruct (p_lost p) eqn:L.
    + rewrite (Rlq eq_refl), (Rid (Rlq eq_refl)). reflexivity.
    + unfold maybe_issue. cbn [p_inflight upd_q p_queue p_lost upd_ev]. destruct (p_inflight p) eqn:I; [reflexivity|].
      rewrite (Rid eq_refl). cbn [app]. rewrite L. reflexivity.
  - unfold lookup, find_ev in *. destruct (find _ (p_events p)); [discriminate|]. reflexivity.
Qed.

Section Deliver.
  Variable lbehs : list (N * lbeh).

  Lemma beh_same l : beh lbehs l = abeh lbehs l.
  Proof. reflexivity. Qed.

  Lemma removes_agree rs : forall p a, qrel p a -> erel p a ->
    agree2 (run_removes p rs) (a_removes a rs) (frame_ev p a).
  Proof.
    induction rs as [|[[n l] c] rs IH]; intros p a R E; cbn [run_removes a_removes].
    - unfold agree2. split; [reflexivity|now apply frame_ev_refl].
    - pose proof (rem_raises_iff p a n l c R E) as Hok.
      pose proof (rem_agree p a n l c R E) as A.
      destruct (rem_listener submit0 p n l c) as [[p1 o1] ok1]. cbn [snd] in Hok. rewrite <- Hok.
      destruct ok1; cbn [negb].
      + destruct (a_rem a n l c) as [a1 o1']. unfold agree in A. destruct (A eq_refl) as (-> & F1).
        destruct F1 as ((Q1 & L1 & T1) & E1). specialize (IH p1 a1 Q1 E1).
        destruct (run_removes p1 rs) as [p2 o2]. destruct (a_removes a1 rs) as [a2 o2'].
        unfold agree2 in *. destruct IH as (-> & F2). split; [reflexivity|].
        eapply frame_ev_trans; [|exact F2]. split; [split; [exact Q1|split; assumption]|exact E1].
      + unfold agree2. split; [reflexivity|now apply frame_ev_refl].
  Qed.

  Lemma deliver_agree lids payload : forall p a, qrel p a -> erel p a ->
    agree2 (got_update lbehs p lids payload) (a_deliver lbehs a lids payload) (frame_ev p a).
  Proof.
    induction lids as [|l ls IH]; intros p a R E; cbn [got_update a_deliver].
    - unfold agree2. split; [reflexivity|now apply frame_ev_refl].
    - rewrite beh_same.
      assert (A1 : agree2 (match abeh lbehs l with LRemoves rs => run_removes p rs | _ => (p, []) end)
                          (match abeh lbehs l with LRemoves rs => a_removes a rs | _ => (a, []) end) (frame_ev p a)).
      { destruct (abeh lbehs l); try (unfold agree2; split; [reflexivity|now apply frame_ev_refl]).
        now apply removes_agree. }
      destruct (match abeh lbehs l with LRemoves rs => run_removes p rs | _ => (p, []) end) as [p1 o1].
      destruct (match abeh lbehs l with LRemoves rs => a_removes a rs | _ => (a, []) end) as [a1 o1'].
      unfold agree2 in A1. destruct A1 as (-> & F1). destruct F1 as ((Q1 & L1 & T1) & E1).
      specialize (IH p1 a1 Q1 E1).
      destruct (got_update lbehs p1 ls payload) as [p2 o2]. destruct (a_deliver lbehs a1 ls payload) as [a2 o2'].
      unfold agree2 in *. destruct IH as (-> & F2). split; [reflexivity|].
      eapply frame_ev_trans; [|exact F2]. split; [split; [exact Q1|split; assumption]|exact E1].
  Qed.

  (* connection loss *)
  Lemma fail_all_agree cs : forall p a, qrel p a -> erel p a ->
    agree (fail_all p cs) (a_fail_all a cs) (frame_ev p a).
  Proof.
    induction cs as [|c cs IH]; intros p a R E; cbn [fail_all a_fail_all].
    - unfold ret, agree. intros _. split; [reflexivity|now apply frame_ev_refl].
    - change (let '(s1, o1) := a_resolve a c RDisc in let '(s2, o2) := a_fail_all s1 cs in (s2, o1 ++ o2))
        with (aseq (a_resolve a c RDisc) (fun a1 => a_fail_all a1 cs)).
      eapply agree_seq; [now apply resolve1_agree|].
      intros p1 a1 ((Q1 & L1 & T1) & E1). pose proof (IH p1 a1 Q1 E1) as A.
      destruct (fail_all p1 cs) as [[p2 o2] ok2]. destruct (a_fail_all a1 cs) as [a2 o2'].
      unfold agree in *. intros Hok. destruct (A Hok) as (-> & F2). split; [reflexivity|].
      eapply frame_ev_trans; [|exact F2]. split; [split; [exact Q1|split; assumption]|exact E1].
  Qed.
End Deliver.
