(* C05 refinement, part 5: how Spec.status_of evolves when more bytes arrive *)
From Coq Require Import String List Bool Ascii Arith NArith ZArith Lia.
From TxVerif Require Import Lib.Bytes Spec.Rfc1928 Spec.C06 Spec.C05.
From TxVerif Require Import Proofs.C05Status.
Import ListNotations.
Open Scope N_scope.

Definition complete_of (at_ : ascii) (more : bytes) : option N :=
  match reply_len (code at_) (byte_at more 0) with
  | Some n => Some n
  | None => if (code at_ =? 3) then None else Some 10
  end.

Lemma reply_status_eq ty rv rr x0 at_ more :
  reply_status ty (rv :: rr :: x0 :: at_ :: more) =
  let rep := rv :: rr :: x0 :: at_ :: more in
  let is_complete := match complete_of at_ more with Some n => n <=? nlen rep | None => false end in
  if negb (code rv =? 5) then (if is_complete then SFailed generic_err else SFailing generic_err)
  else if negb (code rr =? 0) then
    let r := RErr (error_class (code rr)) (Some (code rr)) in
    if is_complete then SFailed r else SFailing r
  else if negb ((code at_ =? 1) || (code at_ =? 3) || (code at_ =? 4)) then
    (if is_complete then SFailed generic_err else SFailing generic_err)
  else if negb is_complete then SPending
  else
    let n := match complete_of at_ more with Some n => N.to_nat n | None => O end in
    let body := firstn n rep in
    let rest := skipn n rep in
    match ty with
    | RConnect => SConnected rest
    | _ =>
        if code at_ =? 1 then SResolved (RName true (firstn 4 (skipn 4 body)))
        else if code at_ =? 4 then SResolved (RName true (firstn 16 (skipn 4 body)))
        else SResolved (RName false (firstn (length body - 7) (skipn 5 body)))
    end.
Proof. reflexivity. Qed.

Lemma complete_of_app at_ more x n : complete_of at_ more = Some n -> complete_of at_ (more ++ x) = Some n.
Proof.
  unfold complete_of, reply_len. destruct more as [|l more']; cbn [app]; [|auto].
  unfold byte_at at 1. cbn [nth_error option_map].
  destruct (code at_ =? 1); [auto|]. destruct (code at_ =? 4); [auto|].
  destruct (code at_ =? 3); [discriminate|auto].
Qed.

Lemma reply_status_conn_app ty d r x :
  reply_status ty d = SConnected r -> reply_status ty (d ++ x) = SConnected (r ++ x).
Proof.
  destruct d as [|rv [|rr [|x0 [|at_ more]]]]; try discriminate.
  cbn [app]. rewrite !reply_status_eq. cbv zeta.
  destruct (complete_of at_ more) as [n|] eqn:Ec.
  2:{ cbn [negb]. intros H.
      repeat match type of H with context[if ?t then _ else _] => destruct t end; discriminate H. }
  rewrite (complete_of_app _ _ x n Ec).
  destruct (negb (code rv =? 5)); [destruct (n <=? _); intros H; discriminate H|].
  destruct (negb (code rr =? 0)); [destruct (n <=? _); intros H; discriminate H|].
  destruct (negb _); [destruct (n <=? _); intros H; discriminate H|].
  destruct (N.leb_spec n (nlen (rv :: rr :: x0 :: at_ :: more))) as [Hle|Hgt]; [|intros H; discriminate H].
  cbn [negb].
  assert (Hle2 : (n <=? nlen (rv :: rr :: x0 :: at_ :: more ++ x)) = true).
  { apply N.leb_le. change (rv :: rr :: x0 :: at_ :: more ++ x) with ((rv :: rr :: x0 :: at_ :: more) ++ x).
    rewrite nlen_app. lia. }
  rewrite Hle2. cbn [negb].
  destruct ty.
  - intros H. injection H as <-. f_equal.
    change (rv :: rr :: x0 :: at_ :: more ++ x) with ((rv :: rr :: x0 :: at_ :: more) ++ x).
    rewrite skipn_app.
    replace (N.to_nat n - length (rv :: rr :: x0 :: at_ :: more))%nat with 0%nat; [reflexivity|].
    rewrite <- nlen_length. lia.
  - intros H. repeat match type of H with context[if ?t then _ else _] => destruct t end; discriminate H.
  - intros H. repeat match type of H with context[if ?t then _ else _] => destruct t end; discriminate H.
Qed.

Lemma reply_status_failing_app ty d r x :
  reply_status ty d = SFailing r ->
  reply_status ty (d ++ x) = SFailing r \/ reply_status ty (d ++ x) = SFailed r.
Proof.
  destruct d as [|rv [|rr [|x0 [|at_ more]]]]; try discriminate.
  cbn [app]. rewrite !reply_status_eq. cbv zeta.
  generalize (match complete_of at_ (more ++ x) with
              | Some n => n <=? nlen (rv :: rr :: x0 :: at_ :: more ++ x) | None => false end).
  generalize (match complete_of at_ more with
              | Some n => n <=? nlen (rv :: rr :: x0 :: at_ :: more) | None => false end).
  intros ic ic'.
  destruct (negb (code rv =? 5)).
  { destruct ic; [intros H; discriminate H|]. intros H; injection H as <-. destruct ic'; auto. }
  destruct (negb (code rr =? 0)).
  { destruct ic; [intros H; discriminate H|]. intros H; injection H as <-. destruct ic'; auto. }
  destruct (negb _).
  { destruct ic; [intros H; discriminate H|]. intros H; injection H as <-. destruct ic'; auto. }
  destruct ic; cbn [negb]; intros H; [|discriminate H].
  destruct ty; [discriminate H| |];
    repeat match type of H with context[if ?t then _ else _] => destruct t end; discriminate H.
Qed.

(* the input class of C05-F1 as a predicate on the stream *)
Definition dom_succ (s : bytes) : bool :=
  match s with
  | v :: m :: rv :: rr :: _ :: at_ :: _ =>
      (code v =? 5) && (code m =? 0) && (code rv =? 5) && (code rr =? 0) && (code at_ =? 3)
  | _ => false
  end.

Lemma stream_has_domain_success_eq chunks : stream_has_domain_success chunks = dom_succ (concat chunks).
Proof. reflexivity. Qed.

Lemma dom_succ_app p q : dom_succ p = true -> dom_succ (p ++ q) = true.
Proof.
  destruct p as [|v [|m [|rv [|rr [|x0 [|at_ more]]]]]]; try discriminate. cbn [app]. auto.
Qed.

Lemma dom_succ_app_false p q : dom_succ (p ++ q) = false -> dom_succ p = false.
Proof. intros H. destruct (dom_succ p) eqn:E; [|reflexivity]. now rewrite (dom_succ_app p q E) in H. Qed.

Definition sel (s : bytes) : bool :=
  match s with v :: m :: _ => (code v =? 5) && (code m =? 0) | _ => false end.

Lemma sel_app s x : (2 <= length s)%nat -> sel (s ++ x) = sel s.
Proof. destruct s as [|a [|b s]]; cbn [length]; intros H; try lia. reflexivity. Qed.

Lemma sel_short s : (length s < 2)%nat -> sel s = false.
Proof. destruct s as [|a [|b s]]; cbn [length]; intros H; try lia; reflexivity. Qed.
