(* C04 simulation, part 3: every stimulus in every phase except the two reply cases proved in
   C04Sim2 (PROTOCOLINFO answered) and C04Sim4 (AUTHCHALLENGE answered, bootstrap). *)
From Coq Require Import List Bool Ascii Arith NArith Lia String.
From TxVerif Require Import Lib.Bytes Lib.Hex Spec.C04 Spec.C04Oracle Gen.AuthConsts Model.Auth
  Proofs.C04Unescape Proofs.C04Parse Proofs.C04Auth Proofs.C04Sim Proofs.C04Sim2.
Import ListNotations.
Open Scope N_scope.

Local Opaque expected good_cookie may_give_up cookie_advertised parse_line bs hex hex_lower hex_upper.

Ltac go := cbv -[nlen N.eqb N.leb beqb pi_auth pi_methods pi_cookiefile e_pi e_fs e_provider e_nonce e_cmpkey
                 app CR LF]; cbn [app].
Ltac pl := rewrite ?pl_chal, ?pl_auth_lower, ?pl_auth_upper, ?pl_null, ?beqb_refl.
Ltac hyps := repeat match goal with H : ?x = _ |- context[?x] => rewrite H end.
Ltac fin := repeat split; eauto 6; try reflexivity.
Ltac crunch := repeat (progress (go; pl; hyps; rewrite ?may_give_up_eq)).

Section Sim.
  Variable hmac : bytes -> bytes -> bytes.
  Variable e : env.
  Hypothesis Hwf : wf e.

  (* connection loss in any phase *)
  Lemma sim_lose s m s' evs : R e s m ->
    Auth.step hmac e s OLose = Some (s', evs) -> good e s' (C04Oracle.step hmac e m OLose evs).
  Proof.
    destruct s as [p l]. unfold R. cbn [ph lost Auth.step].
    destruct l; [discriminate|].
    destruct p as [|c| | |k|]; cbn [in_flight]; intros HR [= <- <-].
    - destruct HR as [-> _]. crunch. fin.
    - destruct HR as (-> & _). crunch. fin.
    - destruct HR as (-> & Hexp & Hprov). cbn [lost] in *. crunch. fin.
    - destruct HR as [[a ->] _]. crunch. fin.
    - destruct HR as (Hk & -> & _). destruct k as [|[|[|[|k]]]]; try lia; crunch; fin.
    - destruct m as [out pi lo se ac at_ pww pw pr dn]. cbn [m_settled] in HR. subst se.
      destruct lo; crunch; fin.
  Qed.

  (* the deferred password arrives *)
  Lemma sim_pwfire s m s' evs : R e s m ->
    Auth.step hmac e s OPwFire = Some (s', evs) -> good e s' (C04Oracle.step hmac e m OPwFire evs).
  Proof.
    destruct s as [p l]. unfold R. cbn [ph lost Auth.step].
    destruct p; try discriminate.
    intros (-> & Hexp & _).
    destruct (e_provider e) as [| | |pw| |] eqn:Ep; try discriminate.
    unfold do_password, auth_line.
    destruct pw as [[|a pw]|]; destruct l; intros [= <- <-]; crunch; fin.
  Qed.

  (* a 5xx reply before the bootstrap *)
  Lemma sim_err_pre s m c s' evs : R e s m ->
    match ph s with PhBoot _ => False | _ => True end ->
    Auth.step hmac e s (OErr c) = Some (s', evs) -> good e s' (C04Oracle.step hmac e m (OErr c) evs).
  Proof.
    destruct s as [p l]. unfold R. cbn [ph lost Auth.step].
    destruct l; [discriminate|].
    destruct p as [|ck| | |k|]; cbn [in_flight orb negb]; intros HR Hb; try discriminate; try tauto;
      destruct ((500 <=? c) && (c <=? 599)); try discriminate; cbn [negb Auth.on_reply fail];
      intros [= <- <-].
    - destruct HR as [-> _]. crunch. fin.
    - destruct HR as (-> & _). crunch. fin.
    - destruct HR as [[a ->] _]. crunch. fin.
  Qed.

  (* PROTOCOLINFO answered by something that has no AUTH line *)
  Lemma sim_proto_other d s' evs :
    (d <> DProto \/ pi_auth (e_pi e) = false) ->
    Auth.step hmac e {| ph := PhProto; lost := false |} (OOk d) = Some (s', evs) ->
    good e s' (C04Oracle.step hmac e mon_proto (OOk d) evs).
  Proof.
    cbn [ph lost Auth.step in_flight orb negb Auth.on_reply].
    intros Hd. destruct d as [| |ch|k]; try (intros [= <- <-]; crunch; fin).
    destruct Hd as [Hd|Hd]; [congruence|].
    unfold do_authenticate. rewrite Hd. cbn [negb]. intros [= <- <-]. crunch. fin.
  Qed.

  (* AUTHENTICATE accepted: the bootstrap starts *)
  Lemma sim_auth_ok a d s' evs :
    Auth.step hmac e {| ph := PhAuth; lost := false |} (OOk d) = Some (s', evs) ->
    good e s' (C04Oracle.step hmac e (mon_auth a) (OOk d) evs).
  Proof.
    cbn [ph lost Auth.step in_flight orb negb Auth.on_reply]. intros [= <- <-].
    Transparent bs parse_line. destruct a, d; vm_compute; repeat split; auto. Opaque bs parse_line.
  Qed.

  (* AUTHCHALLENGE answered by something that is not a challenge reply *)
  Lemma sim_chal_other ck d s' evs :
    (forall ch, d <> DChal ch) ->
    Auth.step hmac e {| ph := PhChal ck; lost := false |} (OOk d) = Some (s', evs) ->
    good e s' (C04Oracle.step hmac e (mon_chal e) (OOk d) evs).
  Proof.
    cbn [ph lost Auth.step in_flight orb negb Auth.on_reply]. intros Hd.
    destruct d as [| |ch|k]; try (intros [= <- <-]; crunch; fin).
    exfalso. eapply Hd. reflexivity.
  Qed.
End Sim.
