(* what one event changes in the base state of Model/State.v, in the form the C08 refinement needs:
   the dicts, the number of objects, and for every object its Tor id and status *)
From Coq Require Import List Bool Arith NArith Lia.
From TxVerif Require Import Lib.Bytes Lib.NList Spec.C07 Model.State Proofs.NListProofs Proofs.C07Proofs.
Import ListNotations.
Open Scope N_scope.

Definition cattr (c : ccell) : N * option cstatus * list (N * N) := (c_id c, c_state c, c_path c).

(* ---- a CIRC event ---- *)
Lemma circ_event_shape s id st path kw s' : WF s -> circ_event s id st path kw = Some s' ->
  let first := match kfind fst id (circuits s) with Some _ => false | None => true end in
  let o := match kfind fst id (circuits s) with Some p => snd p | None => N.of_nat (length (cheap s)) end in
  sheap s' = sheap s /\ streams s' = streams s /\
  circuits s' = (let d1 := if first then circuits s ++ [(id, o)] else circuits s in
                 if c_terminal st then kdel fst id d1 else d1) /\
  length (cheap s') = (if first then S (length (cheap s)) else length (cheap s)) /\
  (exists c', get_c o s' = Some c' /\ c_id c' = id /\ c_state c' = Some st) /\
  (forall o', o' <> o -> get_c o' s' = get_c o' s).
Proof.
  intros W. unfold circ_event, ensure_circ.
  destruct (kfind fst id (circuits s)) as [p|] eqn:F.
  - destruct (kfind_Some fst _ _ _ F) as [Ep Hp]. destruct (wf_clive _ W p Hp) as [c [G I]].
    rewrite G. destruct (upd_circ (routers s) c st path kw) as [rt c'] eqn:EU.
    destruct (upd_circ_same _ _ _ _ _ _ _ EU) as [Ho [Hi [Hs Hst]]]. destruct (get_c_oid _ _ _ G) as [Hco Hcin].
    intros [= <-].
    assert (Hin : In (c_oid c') (map c_oid (cheap s))) by (rewrite Ho; now apply in_map).
    destruct (c_terminal st); cbn [sheap streams circuits cheap with_circuits with_routers put_c with_cheap];
      (split; [reflexivity|]; split; [reflexivity|]; split; [reflexivity|]; split; [now apply kset_length_in|]; split;
       [exists c'; split; [|split; [congruence | exact Hst]];
        change (get_c (snd p) (put_c c' s) = Some c'); rewrite get_c_put_c, Ho, Hco; now rewrite N.eqb_refl
       | intros o' Hne; change (get_c o' (put_c c' s) = get_c o' s); rewrite get_c_put_c, Ho, Hco;
         destruct (N.eqb_spec (snd p) o'); [congruence | reflexivity]]).
  - set (oid := N.of_nat (length (cheap s))).
    change (with_circuits (with_cheap s (cheap s ++ [new_ccell oid id])) (circuits s ++ [(id, oid)])) with (grow_c s id).
    pose proof (get_c_grow_new s id W) as Gn. fold oid in Gn. rewrite Gn.
    destruct (upd_circ (routers (grow_c s id)) (new_ccell oid id) st path kw) as [rt c'] eqn:EU.
    destruct (upd_circ_same _ _ _ _ _ _ _ EU) as [Ho [Hi [Hs Hst]]]. cbn [new_ccell c_oid c_id] in Ho, Hi.
    intros [= <-].
    assert (Hlen : length (kset c_oid c' (cheap s ++ [new_ccell oid id])) = S (length (cheap s))).
    { rewrite kset_length_in; [rewrite app_length; cbn; lia|]. rewrite map_app, Ho. apply in_or_app. right. now left. }
    assert (Gnew : forall o', get_c o' (put_c c' (grow_c s id)) = if oid =? o' then Some c' else get_c o' s).
    { intros o'. rewrite get_c_put_c, Ho. destruct (N.eqb_spec oid o') as [E|E]; [reflexivity|].
      unfold get_c, grow_c; cbn [cheap with_circuits with_cheap]. rewrite kfind_app.
      destruct (kfind c_oid o' (cheap s)); [reflexivity|]. cbn [kfind new_ccell c_oid]. fold oid.
      destruct (N.eqb_spec oid o'); [congruence | reflexivity]. }
    destruct (c_terminal st); cbn [sheap streams circuits cheap with_circuits with_routers put_c with_cheap grow_c];
      (split; [reflexivity|]; split; [reflexivity|]; split; [reflexivity|]; split; [exact Hlen|]; split;
       [exists c'; split; [|split; [exact Hi | exact Hst]];
        change (get_c oid (put_c c' (grow_c s id)) = Some c'); rewrite Gnew; now rewrite N.eqb_refl
       | intros o' Hne; change (get_c o' (put_c c' (grow_c s id)) = get_c o' s); rewrite Gnew;
         destruct (N.eqb_spec oid o'); [congruence | reflexivity]]).
Qed.

(* ---- a STREAM event: Circuit objects keep their identity, status and path (only .streams changes) ---- *)
Definition Fc (s s' : mstate) : Prop :=
  circuits s' = circuits s /\ length (cheap s') = length (cheap s) /\
  forall o, option_map cattr (get_c o s') = option_map cattr (get_c o s).

Lemma Fc_refl s : Fc s s.
Proof. repeat split. Qed.
Lemma Fc_trans a b c : Fc a b -> Fc b c -> Fc a c.
Proof.
  intros [A1 [A2 A3]] [B1 [B2 B3]]. split; [congruence|]. split; [congruence|]. intros o. now rewrite B3, A3.
Qed.
Lemma Fc_put_s x s : Fc s (put_s x s).
Proof. repeat split. Qed.
Lemma Fc_with_streams s d : Fc s (with_streams s d).
Proof. repeat split. Qed.
Lemma Fc_put_streams s c l : get_c (c_oid c) s = Some c -> Fc s (put_c (set_streams c l) s).
Proof.
  intros G. destruct (get_c_oid _ _ _ G) as [_ Hin]. split; [reflexivity|]. split.
  - cbn [cheap put_c with_cheap]. apply kset_length_in. cbn [set_streams c_oid]. now apply in_map.
  - intros o. rewrite get_c_put_c. cbn [set_streams c_oid]. destruct (N.eqb_spec (c_oid c) o) as [<-|E]; [|reflexivity].
    now rewrite G.
Qed.

(* ... and Stream objects other than the event's own are untouched *)
Definition Fs (soid : N) (s s' : mstate) : Prop :=
  streams s' = streams s /\ length (sheap s') = length (sheap s) /\
  (forall o, o <> soid -> get_s o s' = get_s o s) /\
  (forall x, get_s soid s = Some x -> exists x', get_s soid s' = Some x' /\ s_id x' = s_id x).

Lemma Fs_refl soid s : Fs soid s s.
Proof. repeat split. eauto. Qed.
Lemma Fs_trans soid a b c : Fs soid a b -> Fs soid b c -> Fs soid a c.
Proof.
  intros [A1 [A2 [A3 A4]]] [B1 [B2 [B3 B4]]]. split; [congruence|]. split; [congruence|]. split.
  - intros o Ho. now rewrite B3, A3.
  - intros x G. destruct (A4 x G) as [x1 [G1 I1]]. destruct (B4 x1 G1) as [x2 [G2 I2]]. exists x2. split; congruence.
Qed.
Lemma Fs_put_c soid c s : Fs soid s (put_c c s).
Proof. repeat split. eauto. Qed.
Lemma Fs_put_s soid x x' s : get_s soid s = Some x -> s_oid x' = soid -> s_id x' = s_id x -> Fs soid s (put_s x' s).
Proof.
  intros G Ho Hi. destruct (get_s_oid _ _ _ G) as [Hso Hin]. split; [reflexivity|]. split; [|split].
  - cbn [sheap put_s with_sheap]. apply kset_length_in. rewrite Ho, <- Hso. now apply in_map.
  - intros o Hne. rewrite get_s_put_s, Ho. destruct (N.eqb_spec soid o); [congruence | reflexivity].
  - intros x0 G0. exists x'. rewrite get_s_put_s, Ho, N.eqb_refl. split; congruence.
Qed.

Lemma unlist_shape s coid soid s' : unlist s coid soid = Some s' -> Fc s s' /\ Fs soid s s'.
Proof.
  unfold unlist. destruct (get_c coid s) as [c|] eqn:G; [|discriminate].
  destruct (memN soid (c_streams c)); [|discriminate]. intros [= <-]. destruct (get_c_oid _ _ _ G) as [E _].
  split; [apply Fc_put_streams; now rewrite E | apply Fs_put_c].
Qed.

Lemma detach_shape s soid s' : detach s soid = Some s' -> Fc s s' /\ Fs soid s s'.
Proof.
  unfold detach. destruct (get_s soid s) as [x|] eqn:G; [|discriminate].
  destruct (s_circ x) as [coid|]; [|intros [= <-]; split; [apply Fc_refl | apply Fs_refl]].
  destruct (unlist s coid soid) as [s1|] eqn:U; [|discriminate]. intros [= <-].
  destruct (unlist_shape _ _ _ _ U) as [A B]. destruct (get_s_oid _ _ _ G) as [Hso _].
  split; [eapply Fc_trans; [exact A | apply Fc_put_s]|].
  eapply Fs_trans; [exact B|]. destruct B as [_ [_ [_ B4]]]. destruct (B4 x G) as [x1 [G1 I1]].
  apply (Fs_put_s soid x1); [exact G1 | exact Hso | cbn; congruence].
Qed.

Lemma detach_soft_shape s soid s' : detach_soft s soid = Some s' -> Fc s s' /\ Fs soid s s'.
Proof.
  unfold detach_soft. destruct (get_s soid s) as [x|] eqn:G; [|discriminate].
  destruct (s_circ x) as [coid|]; [|intros [= <-]; split; [apply Fc_refl | apply Fs_refl]].
  destruct (get_c coid s) as [c|] eqn:Gc; [|discriminate]. intros [= <-].
  destruct (get_s_oid _ _ _ G) as [Hso _]. destruct (get_c_oid _ _ _ Gc) as [Hco _].
  destruct (memN soid (c_streams c)).
  - split.
    + eapply Fc_trans; [apply Fc_put_streams; now rewrite Hco | apply Fc_put_s].
    + eapply Fs_trans; [apply Fs_put_c|]. apply (Fs_put_s soid x); [exact G | exact Hso | reflexivity].
  - split; [apply Fc_put_s | apply (Fs_put_s soid x); [exact G | exact Hso | reflexivity]].
Qed.

Lemma attach_shape s soid cid s' : attach s soid cid = Some s' -> Fc s s' /\ Fs soid s s'.
Proof.
  unfold attach. destruct (get_s soid s) as [x|] eqn:G; [|discriminate].
  destruct (s_circ x) as [c0|]; [intros [= <-]; split; [apply Fc_refl | apply Fs_refl]|].
  destruct (kfind fst cid (circuits s)) as [p|]; [|discriminate].
  destruct (get_c (snd p) s) as [c|] eqn:Gc; [|discriminate]. intros [= <-].
  destruct (get_s_oid _ _ _ G) as [Hso _]. destruct (get_c_oid _ _ _ Gc) as [Hco _].
  destruct (memN soid (c_streams c)).
  - split; [apply Fc_put_s | apply (Fs_put_s soid x); [exact G | exact Hso | reflexivity]].
  - split.
    + eapply Fc_trans; [apply Fc_put_streams; now rewrite Hco | apply Fc_put_s].
    + eapply Fs_trans; [apply Fs_put_c|]. apply (Fs_put_s soid x); [exact G | exact Hso | reflexivity].
Qed.

(* the part of stream_event after ensure_stream *)
Definition stream_tail (s1 : mstate) (soid id : N) (st : sstatus) (cid host port : N) (kw : kws) : option mstate :=
  match get_s soid s1 with
  | None => None
  | Some x =>
      let s2 := put_s (upd_stream x st host port kw) s1 in
      match st with
      | SClosed | SFailed =>
          match detach s2 soid with
          | Some s3 => Some (with_streams s3 (kdel fst id (streams s3)))
          | None => None
          end
      | SDetached => detach s2 soid
      | _ => if cid =? 0 then detach_soft s2 soid else attach s2 soid cid
      end
  end.

Lemma stream_tail_shape s1 x o id st cid host port kw s' :
  get_s o s1 = Some x -> s_id x = id -> stream_tail s1 o id st cid host port kw = Some s' ->
  Fc s1 s' /\
  streams s' = (if s_terminal st then kdel fst id (streams s1) else streams s1) /\
  length (sheap s') = length (sheap s1) /\
  (exists x', get_s o s' = Some x' /\ s_id x' = id) /\
  (forall o', o' <> o -> get_s o' s' = get_s o' s1).
Proof.
  intros G I. unfold stream_tail. rewrite G.
  set (x1 := upd_stream x st host port kw).
  destruct (upd_stream_same x st host port kw) as [Ho [Hi Hci]]. fold x1 in Ho, Hi, Hci.
  destruct (get_s_oid _ _ _ G) as [Hso _].
  assert (A2 : Fc s1 (put_s x1 s1)) by apply Fc_put_s.
  assert (B2 : Fs o s1 (put_s x1 s1)) by (apply (Fs_put_s o x); [exact G | congruence | exact Hi]).
  assert (Fin : forall s2 s3, Fc (put_s x1 s1) s2 -> Fs o (put_s x1 s1) s2 ->
                s3 = (if s_terminal st then with_streams s2 (kdel fst id (streams s2)) else s2) ->
                Fc s1 s3 /\
                streams s3 = (if s_terminal st then kdel fst id (streams s1) else streams s1) /\
                length (sheap s3) = length (sheap s1) /\
                (exists x', get_s o s3 = Some x' /\ s_id x' = id) /\
                (forall o', o' <> o -> get_s o' s3 = get_s o' s1)).
  { intros s2 s3 C2 D2 ->.
    pose proof (Fs_trans o _ _ _ B2 D2) as [T1 [T2 [T3 T4]]]. destruct (T4 x G) as [x' [G' I']].
    assert (C3 : Fc s1 s2) by (apply (Fc_trans s1 (put_s x1 s1) s2 A2 C2)).
    destruct (s_terminal st).
    - split; [eapply Fc_trans; [exact C3 | apply Fc_with_streams]|].
      cbn [streams sheap with_streams]. split; [now rewrite T1|]. split; [exact T2|].
      split; [exists x'; split; [exact G' | congruence]|]. intros o' Hne. change (get_s o' s2 = get_s o' s1). now apply T3.
    - split; [exact C3|]. split; [exact T1|]. split; [exact T2|].
      split; [exists x'; split; [exact G' | congruence]|]. exact T3. }
  destruct st; cbn [s_terminal] in Fin |- *.
  - destruct (cid =? 0).
    + intros D. destruct (detach_soft_shape _ _ _ D). now apply (Fin s' s').
    + intros D. destruct (attach_shape _ _ _ _ D). now apply (Fin s' s').
  - destruct (cid =? 0).
    + intros D. destruct (detach_soft_shape _ _ _ D). now apply (Fin s' s').
    + intros D. destruct (attach_shape _ _ _ _ D). now apply (Fin s' s').
  - destruct (cid =? 0).
    + intros D. destruct (detach_soft_shape _ _ _ D). now apply (Fin s' s').
    + intros D. destruct (attach_shape _ _ _ _ D). now apply (Fin s' s').
  - destruct (cid =? 0).
    + intros D. destruct (detach_soft_shape _ _ _ D). now apply (Fin s' s').
    + intros D. destruct (attach_shape _ _ _ _ D). now apply (Fin s' s').
  - intros D. destruct (detach_shape _ _ _ D). now apply (Fin s' s').
  - destruct (detach (put_s x1 s1) o) as [s2|] eqn:D; [|discriminate]. intros [= <-].
    destruct (detach_shape _ _ _ D). now apply (Fin s2 (with_streams s2 (kdel fst id (streams s2)))).
  - destruct (detach (put_s x1 s1) o) as [s2|] eqn:D; [|discriminate]. intros [= <-].
    destruct (detach_shape _ _ _ D). now apply (Fin s2 (with_streams s2 (kdel fst id (streams s2)))).
  - destruct (cid =? 0).
    + intros D. destruct (detach_soft_shape _ _ _ D). now apply (Fin s' s').
    + intros D. destruct (attach_shape _ _ _ _ D). now apply (Fin s' s').
  - destruct (cid =? 0).
    + intros D. destruct (detach_soft_shape _ _ _ D). now apply (Fin s' s').
    + intros D. destruct (attach_shape _ _ _ _ D). now apply (Fin s' s').
Qed.

Lemma stream_event_tail s id st cid host port kw :
  stream_event s id st cid host port kw =
  let '(s1, soid) := ensure_stream s id in stream_tail s1 soid id st cid host port kw.
Proof. reflexivity. Qed.

Lemma stream_event_shape s id st cid host port kw s' : WF s -> stream_event s id st cid host port kw = Some s' ->
  let first := match kfind fst id (streams s) with Some _ => false | None => true end in
  let o := match kfind fst id (streams s) with Some p => snd p | None => N.of_nat (length (sheap s)) end in
  Fc s s' /\
  streams s' = (let d1 := if first then streams s ++ [(id, o)] else streams s in
                if s_terminal st then kdel fst id d1 else d1) /\
  length (sheap s') = (if first then S (length (sheap s)) else length (sheap s)) /\
  (exists x', get_s o s' = Some x' /\ s_id x' = id) /\
  (forall o', o' <> o -> get_s o' s' = get_s o' s).
Proof.
  intros W. rewrite stream_event_tail. unfold ensure_stream.
  destruct (kfind fst id (streams s)) as [p|] eqn:F; cbv zeta.
  - destruct (kfind_Some fst _ _ _ F) as [Ep Hp]. destruct (wf_slive _ W p Hp) as [x [G I]].
    intros T. apply (stream_tail_shape s x (snd p) id st cid host port kw s' G); [congruence | exact T].
  - change (with_streams (with_sheap s (sheap s ++ [new_scell (N.of_nat (length (sheap s))) id]))
                         (streams s ++ [(id, N.of_nat (length (sheap s)))])) with (grow_s s id).
    set (o := N.of_nat (length (sheap s))). intros T.
    pose proof (get_s_grow_new s id W) as Gn. fold o in Gn.
    destruct (stream_tail_shape (grow_s s id) _ o id st cid host port kw s' Gn eq_refl T) as [A [B [C [D E]]]].
    assert (Fg : Fc s (grow_s s id)) by (repeat split).
    split; [eapply Fc_trans; eauto|]. split; [exact B|].
    split; [rewrite C; cbn [sheap grow_s with_streams with_sheap]; rewrite app_length; cbn; lia|].
    split; [exact D|]. intros o' Hne. rewrite (E o' Hne).
    unfold get_s, grow_s; cbn [sheap with_streams with_sheap]. rewrite kfind_app.
    destruct (kfind s_oid o' (sheap s)); [reflexivity|]. cbn [kfind new_scell s_oid]. fold o.
    destruct (N.eqb_spec o o'); [congruence | reflexivity].
Qed.

(* ---- the event's own Stream object records the reported status ---- *)
Definition Ss (soid : N) (s s' : mstate) : Prop :=
  forall x, get_s soid s = Some x -> exists x', get_s soid s' = Some x' /\ s_state x' = s_state x.

Lemma Ss_refl soid s : Ss soid s s.
Proof. intros x G. eauto. Qed.
Lemma Ss_trans soid a b c : Ss soid a b -> Ss soid b c -> Ss soid a c.
Proof. intros A B x G. destruct (A x G) as [x1 [G1 E1]]. destruct (B x1 G1) as [x2 [G2 E2]]. exists x2. split; congruence. Qed.
Lemma Ss_put_c soid c s : Ss soid s (put_c c s).
Proof. intros x G. eauto. Qed.
Lemma Ss_put_circ soid x ci s : get_s soid s = Some x -> Ss soid s (put_s (set_circ x ci) s).
Proof.
  intros G x0 G0. destruct (get_s_oid _ _ _ G) as [Hso _]. exists (set_circ x ci).
  rewrite get_s_put_s. cbn [set_circ s_oid]. rewrite Hso, N.eqb_refl. split; [reflexivity|]. cbn. congruence.
Qed.

Lemma unlist_Ss s coid soid s' : unlist s coid soid = Some s' -> Ss soid s s'.
Proof.
  unfold unlist. destruct (get_c coid s) as [c|]; [|discriminate].
  destruct (memN soid (c_streams c)); [|discriminate]. intros [= <-]. apply Ss_put_c.
Qed.
Lemma detach_Ss s soid s' : detach s soid = Some s' -> Ss soid s s'.
Proof.
  unfold detach. destruct (get_s soid s) as [x|] eqn:G; [|discriminate].
  destruct (s_circ x) as [coid|]; [|intros [= <-]; apply Ss_refl].
  destruct (unlist s coid soid) as [s1|] eqn:U; [|discriminate]. intros [= <-].
  intros x0 G0. rewrite G in G0. injection G0 as <-. destruct (get_s_oid _ _ _ G) as [Hso _].
  exists (set_circ x None). rewrite get_s_put_s. cbn [set_circ s_oid]. rewrite Hso, N.eqb_refl. split; reflexivity.
Qed.
Lemma detach_soft_Ss s soid s' : detach_soft s soid = Some s' -> Ss soid s s'.
Proof.
  unfold detach_soft. destruct (get_s soid s) as [x|] eqn:G; [|discriminate].
  destruct (s_circ x) as [coid|]; [|intros [= <-]; apply Ss_refl].
  destruct (get_c coid s) as [c|]; [|discriminate]. intros [= <-].
  intros x0 G0. rewrite G in G0. injection G0 as <-. destruct (get_s_oid _ _ _ G) as [Hso _].
  exists (set_circ x None). rewrite get_s_put_s. cbn [set_circ s_oid]. rewrite Hso, N.eqb_refl. split; reflexivity.
Qed.
Lemma attach_Ss s soid cid s' : attach s soid cid = Some s' -> Ss soid s s'.
Proof.
  unfold attach. destruct (get_s soid s) as [x|] eqn:G; [|discriminate].
  destruct (s_circ x) as [c0|]; [intros [= <-]; apply Ss_refl|].
  destruct (kfind fst cid (circuits s)) as [p|]; [|discriminate].
  destruct (get_c (snd p) s) as [c|]; [|discriminate]. intros [= <-].
  intros x0 G0. rewrite G in G0. injection G0 as <-. destruct (get_s_oid _ _ _ G) as [Hso _].
  exists (set_circ x (Some (snd p))). rewrite get_s_put_s. cbn [set_circ s_oid]. rewrite Hso, N.eqb_refl. split; reflexivity.
Qed.

Lemma stream_tail_state s1 x o id st cid host port kw s' :
  get_s o s1 = Some x -> stream_tail s1 o id st cid host port kw = Some s' ->
  exists x', get_s o s' = Some x' /\ s_state x' = Some st.
Proof.
  intros G. unfold stream_tail. rewrite G. set (x1 := upd_stream x st host port kw).
  destruct (upd_stream_same x st host port kw) as [Ho _]. fold x1 in Ho. destruct (get_s_oid _ _ _ G) as [Hso _].
  assert (G1 : get_s o (put_s x1 s1) = Some x1) by (rewrite get_s_put_s, Ho, Hso; now rewrite N.eqb_refl).
  assert (E1 : s_state x1 = Some st).
  { unfold x1, upd_stream. destruct (kw_get K_SOURCE_ADDR kw); destruct (s_host x); reflexivity. }
  assert (Fin : forall s2, Ss o (put_s x1 s1) s2 -> exists x', get_s o s2 = Some x' /\ s_state x' = Some st).
  { intros s2 H. destruct (H x1 G1) as [x' [A B]]. exists x'. split; congruence. }
  destruct st.
  - destruct (cid =? 0); intros D; apply Fin; [eapply detach_soft_Ss | eapply attach_Ss]; eauto.
  - destruct (cid =? 0); intros D; apply Fin; [eapply detach_soft_Ss | eapply attach_Ss]; eauto.
  - destruct (cid =? 0); intros D; apply Fin; [eapply detach_soft_Ss | eapply attach_Ss]; eauto.
  - destruct (cid =? 0); intros D; apply Fin; [eapply detach_soft_Ss | eapply attach_Ss]; eauto.
  - intros D. apply Fin. eapply detach_Ss; eauto.
  - destruct (detach (put_s x1 s1) o) as [s2|] eqn:D; [|discriminate]. intros [= <-].
    change (get_s o (with_streams s2 (kdel fst id (streams s2)))) with (get_s o s2). apply Fin. eapply detach_Ss; eauto.
  - destruct (detach (put_s x1 s1) o) as [s2|] eqn:D; [|discriminate]. intros [= <-].
    change (get_s o (with_streams s2 (kdel fst id (streams s2)))) with (get_s o s2). apply Fin. eapply detach_Ss; eauto.
  - destruct (cid =? 0); intros D; apply Fin; [eapply detach_soft_Ss | eapply attach_Ss]; eauto.
  - destruct (cid =? 0); intros D; apply Fin; [eapply detach_soft_Ss | eapply attach_Ss]; eauto.
Qed.

Lemma stream_event_state s id st cid host port kw s' : WF s -> stream_event s id st cid host port kw = Some s' ->
  let o := match kfind fst id (streams s) with Some p => snd p | None => N.of_nat (length (sheap s)) end in
  exists x', get_s o s' = Some x' /\ s_state x' = Some st.
Proof.
  intros W. rewrite stream_event_tail. unfold ensure_stream.
  destruct (kfind fst id (streams s)) as [p|] eqn:F; cbv zeta.
  - destruct (kfind_Some fst _ _ _ F) as [Ep Hp]. destruct (wf_slive _ W p Hp) as [x [G I]].
    intros T. exact (stream_tail_state s x (snd p) id st cid host port kw s' G T).
  - change (with_streams (with_sheap s (sheap s ++ [new_scell (N.of_nat (length (sheap s))) id]))
                         (streams s ++ [(id, N.of_nat (length (sheap s)))])) with (grow_s s id).
    intros T. exact (stream_tail_state (grow_s s id) _ _ id st cid host port kw s' (get_s_grow_new s id W) T).
Qed.
