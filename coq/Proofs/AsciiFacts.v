(* facts about all 256 characters are decided by computation *)
From Coq Require Import List Bool Ascii Arith Lia.
Import ListNotations.

Definition all_ascii : list ascii := map ascii_of_nat (seq 0 256).

Lemma forall_ascii (P : ascii -> bool) : forallb P all_ascii = true -> forall c, P c = true.
Proof.
  intros H c. unfold all_ascii in H. rewrite forallb_forall in H. apply H.
  rewrite <- (ascii_nat_embedding c). apply in_map. apply in_seq.
  pose proof (nat_ascii_bounded c). lia.
Qed.

Lemma ascii_impl (f g : ascii -> bool) :
  forallb (fun c => implb (f c) (g c)) all_ascii = true -> forall c, f c = true -> g c = true.
Proof.
  intros H c Hf. pose proof (forall_ascii _ H c) as Hc. cbv beta in Hc. rewrite Hf in Hc. exact Hc.
Qed.

Lemma ascii_ext (f g : ascii -> bool) :
  forallb (fun c => Bool.eqb (f c) (g c)) all_ascii = true -> forall c, f c = g c.
Proof.
  intros H c. pose proof (forall_ascii _ H c) as Hc. cbv beta in Hc. now apply eqb_prop.
Qed.
