(* C07: the model of Model/State.v refines Tor's own view (Spec/C07.v tor_view) on every legal history,
   and every observation of it satisfies the Spec oracle.
   Method: a structural invariant WF on the heap model (distinct objects, both directions of the
   stream <-> circuit bookkeeping agree, with multiplicity one), an abstraction function abs from model
   states to Tor views, and a simulation lemma per sub-operation of the two event handlers. *)
From Coq Require Import List Bool Arith NArith Lia.
From TxVerif Require Import Lib.Bytes Lib.NList Spec.C07 Model.State Proofs.NListProofs.
Import ListNotations.
Open Scope N_scope.

(* ---------------------------------------------------------------- heap access *)
Lemma get_c_put_c c s oid : get_c oid (put_c c s) = if c_oid c =? oid then Some c else get_c oid s.
Proof. unfold get_c, put_c, with_cheap. cbn [cheap]. apply kfind_kset. Qed.
Lemma get_s_put_s x s oid : get_s oid (put_s x s) = if s_oid x =? oid then Some x else get_s oid s.
Proof. unfold get_s, put_s, with_sheap. cbn [sheap]. apply kfind_kset. Qed.
Lemma get_c_put_s x s oid : get_c oid (put_s x s) = get_c oid s.
Proof. reflexivity. Qed.
Lemma get_s_put_c c s oid : get_s oid (put_c c s) = get_s oid s.
Proof. reflexivity. Qed.

Lemma get_c_oid oid s c : get_c oid s = Some c -> c_oid c = oid /\ In c (cheap s).
Proof. apply kfind_Some. Qed.
Lemma get_s_oid oid s x : get_s oid s = Some x -> s_oid x = oid /\ In x (sheap s).
Proof. apply kfind_Some. Qed.

(* ---------------------------------------------------------------- abstraction *)
Definition tc_of (id : N) (c : ccell) : tcirc :=
  {| tc_id := id; tc_status := match c_state c with Some x => x | None => CLaunched end;
     tc_purpose := c_purpose c; tc_bflags := c_bflags c; tc_flags := c_flags c; tc_path := map fst (c_path c) |}.
Definition blank_c (id : N) : tcirc :=
  {| tc_id := id; tc_status := CLaunched; tc_purpose := None; tc_bflags := []; tc_flags := []; tc_path := [] |}.
Definition abs_c (s : mstate) (p : N * N) : tcirc :=
  match get_c (snd p) s with Some c => tc_of (fst p) c | None => blank_c (fst p) end.

Definition abs_att (d : list (N * N)) (ci : option N) : att :=
  match ci with
  | None => ANone
  | Some coid => match kfind snd coid d with Some p => AOn (fst p) | None => ADangling end
  end.

Definition abs_src (x : scell) : option (N * N) :=
  match s_src x with Some a => Some (a, s_sport x) | None => None end.

Definition ts_of (d : list (N * N)) (id : N) (x : scell) : tstream :=
  {| ts_id := id; ts_status := match s_state x with Some y => y | None => SNew end;
     ts_host := match s_host x with Some h => h | None => 0 end; ts_port := s_port x;
     ts_addr := s_addr x; ts_src := abs_src x; ts_att := abs_att d (s_circ x) |}.
Definition blank_s (id : N) : tstream :=
  {| ts_id := id; ts_status := SNew; ts_host := 0; ts_port := 0; ts_addr := None; ts_src := None; ts_att := ANone |}.
Definition abs_s (s : mstate) (p : N * N) : tstream :=
  match get_s (snd p) s with Some x => ts_of (circuits s) (fst p) x | None => blank_s (fst p) end.

Definition abs (s : mstate) : tview :=
  {| tcs := map (abs_c s) (circuits s); tss := map (abs_s s) (streams s) |}.

Lemma abs_c_id s p : tc_id (abs_c s p) = fst p.
Proof. unfold abs_c. destruct (get_c (snd p) s); reflexivity. Qed.
Lemma abs_s_id s p : ts_id (abs_s s p) = fst p.
Proof. unfold abs_s. destruct (get_s (snd p) s); reflexivity. Qed.

Lemma map_abs_c_ids s d : map tc_id (map (abs_c s) d) = map fst d.
Proof. rewrite map_map. apply map_ext. apply abs_c_id. Qed.
Lemma map_abs_s_ids s d : map ts_id (map (abs_s s) d) = map fst d.
Proof. rewrite map_map. apply map_ext. apply abs_s_id. Qed.

(* ---------------------------------------------------------------- the structural invariant *)
Record WF (s : mstate) : Prop := {
  wf_cids : NoDup (map fst (circuits s));
  wf_coids : NoDup (map snd (circuits s));
  wf_cpos : forall p, In p (circuits s) -> fst p <> 0;
  wf_clive : forall p, In p (circuits s) -> exists c, get_c (snd p) s = Some c /\ c_id c = fst p;
  wf_cheap : NoDup (map c_oid (cheap s));
  wf_cbound : forall c, In c (cheap s) -> c_oid c < N.of_nat (length (cheap s));
  wf_sids : NoDup (map fst (streams s));
  wf_soids : NoDup (map snd (streams s));
  wf_slive : forall p, In p (streams s) -> exists x, get_s (snd p) s = Some x /\ s_id x = fst p;
  wf_sheap : NoDup (map s_oid (sheap s));
  wf_sbound : forall x, In x (sheap s) -> s_oid x < N.of_nat (length (sheap s));
  (* a Circuit object lists only live streams, and those point back to it *)
  wf_listed : forall c soid, In c (cheap s) -> In soid (c_streams c) ->
              exists p x, In p (streams s) /\ snd p = soid /\ get_s soid s = Some x /\ s_circ x = Some (c_oid c);
  (* a live stream that points to a Circuit object is listed there exactly once *)
  wf_points : forall p x coid, In p (streams s) -> get_s (snd p) s = Some x -> s_circ x = Some coid ->
              exists c, get_c coid s = Some c /\ countN (snd p) (c_streams c) = 1%nat
}.

(* attributes Tor always reports are present on every listed object *)
Definition cgood (c : ccell) : Prop := c_state c <> None.
Definition sgood (x : scell) : Prop := s_state x <> None /\ s_host x <> None /\ (s_src x = None -> s_sport x = 0).
Definition Complete (s : mstate) : Prop :=
  (forall p c, In p (circuits s) -> get_c (snd p) s = Some c -> cgood c) /\
  (forall p x, In p (streams s) -> get_s (snd p) s = Some x -> sgood x).

Lemma WF_init rts : WF (init rts).
Proof.
  constructor; cbn; try constructor; try tauto; intros; try tauto.
Qed.
Lemma Complete_init rts : Complete (init rts).
Proof. split; cbn; tauto. Qed.
Lemma abs_init rts : abs (init rts) = tv0.
Proof. reflexivity. Qed.

(* ---------------------------------------------------------------- frame facts *)
Lemma WF_with_routers s r : WF s -> WF (with_routers s r).
Proof. intros [H1 H2 H0 H3 H4 H5 H6 H7 H8 H9 H10 H11 H12]. constructor; assumption. Qed.
Lemma abs_with_routers s r : abs (with_routers s r) = abs s.
Proof. reflexivity. Qed.
Lemma Complete_with_routers s r : Complete s -> Complete (with_routers s r).
Proof. intros H. exact H. Qed.

(* replacing a Circuit cell by one with the same identity and the same .streams *)
Lemma put_c_attrs_WF s oid c c' :
  WF s -> get_c oid s = Some c -> c_oid c' = oid -> c_id c' = c_id c -> c_streams c' = c_streams c ->
  WF (put_c c' s).
Proof.
  intros W Hget Hoid Hid Hstr.
  destruct (get_c_oid _ _ _ Hget) as [Hco Hcin].
  assert (Hin : In (c_oid c') (map c_oid (cheap s))) by (rewrite Hoid, <- Hco; now apply in_map).
  constructor; try exact (wf_cids _ W); try exact (wf_coids _ W); try exact (wf_cpos _ W); try exact (wf_sids _ W);
    try exact (wf_soids _ W); try exact (wf_slive _ W); try exact (wf_sheap _ W); try exact (wf_sbound _ W).
  - intros p Hp. destruct (wf_clive _ W p Hp) as [c0 [G I]].
    rewrite get_c_put_c. destruct (N.eqb_spec (c_oid c') (snd p)) as [E|E].
    + exists c'. split; [reflexivity|]. rewrite Hid. rewrite <- E, Hoid in G. congruence.
    + eauto.
  - unfold put_c, with_cheap; cbn [cheap]. rewrite kset_in by exact Hin. exact (wf_cheap _ W).
  - unfold put_c, with_cheap; cbn [cheap]. rewrite kset_length_in by exact Hin.
    intros c0 H0. apply kset_In_inv in H0 as [->|H0]; [|now apply (wf_cbound _ W)].
    rewrite Hoid, <- Hco. now apply (wf_cbound _ W).
  - intros c0 soid H0 Hs. unfold put_c, with_cheap in H0; cbn [cheap] in H0.
    apply kset_In_inv in H0 as [->|H0].
    + rewrite Hstr in Hs. destruct (wf_listed _ W c soid Hcin Hs) as [p [x [A [B [C D]]]]].
      exists p, x. repeat split; try assumption. rewrite D. f_equal. congruence.
    + exact (wf_listed _ W c0 soid H0 Hs).
  - intros p x coid Hp Hg Hc. destruct (wf_points _ W p x coid Hp Hg Hc) as [c2 [G Cn]].
    rewrite get_c_put_c. destruct (N.eqb_spec (c_oid c') coid) as [E|E].
    + exists c'. split; [reflexivity|]. rewrite Hstr. rewrite <- E, Hoid in G. congruence.
    + eauto.
Qed.

Lemma put_c_attrs_abs s id oid c c' :
  WF s -> In (id, oid) (circuits s) -> get_c oid s = Some c -> c_oid c' = oid ->
  abs (put_c c' s) = {| tcs := kset tc_id (tc_of id c') (tcs (abs s)); tss := tss (abs s) |}.
Proof.
  intros W Hin Hget Hoid. unfold abs at 1. f_equal.
  cbn [circuits put_c with_cheap]. unfold abs; cbn [tcs].
  {
    apply (map_kset_pointwise tc_id (circuits s) (abs_c s) (abs_c (put_c c' s)) id oid (tc_of id c'));
      try exact Hin; try exact (wf_cids _ W); try reflexivity.
    + intros p Hp. unfold abs_c. rewrite get_c_put_c.
      destruct (N.eqb_spec (fst p) id) as [E|E].
      * assert (p = (id, oid)).
        { pose proof (kfind_NoDup_In fst _ _ (wf_cids _ W) Hp) as A.
          pose proof (kfind_NoDup_In fst _ _ (wf_cids _ W) Hin) as B. cbn [fst] in B. rewrite E in A. congruence. }
        subst p. cbn [snd fst]. now rewrite Hoid, N.eqb_refl.
      * destruct (N.eqb_spec (c_oid c') (snd p)) as [E2|E2]; [|reflexivity].
        exfalso. apply E.
        pose proof (kfind_NoDup_In snd _ _ (wf_coids _ W) Hp) as A.
        pose proof (kfind_NoDup_In snd _ _ (wf_coids _ W) Hin) as B. cbn [snd] in B.
        rewrite <- E2, Hoid in A. rewrite A in B. now injection B as ->.
    + intros p. apply abs_c_id. }
Qed.

(* ---------------------------------------------------------------- ensure_circ *)
Lemma get_c_fresh s : WF s -> get_c (N.of_nat (length (cheap s))) s = None.
Proof.
  intros W. apply kfind_None. intros H. apply in_map_iff in H as [c [E Hc]].
  pose proof (wf_cbound _ W c Hc). lia.
Qed.
Lemma get_s_fresh s : WF s -> get_s (N.of_nat (length (sheap s))) s = None.
Proof.
  intros W. apply kfind_None. intros H. apply in_map_iff in H as [c [E Hc]].
  pose proof (wf_sbound _ W c Hc). lia.
Qed.

Lemma get_c_bound s oid c : WF s -> get_c oid s = Some c -> oid < N.of_nat (length (cheap s)).
Proof. intros W H. destruct (get_c_oid _ _ _ H) as [<- Hin]. now apply (wf_cbound _ W). Qed.
Lemma get_s_bound s oid x : WF s -> get_s oid s = Some x -> oid < N.of_nat (length (sheap s)).
Proof. intros W H. destruct (get_s_oid _ _ _ H) as [<- Hin]. now apply (wf_sbound _ W). Qed.

Lemma abs_att_app_fresh d id oid ci :
  (forall coid, ci = Some coid -> coid <> oid) -> abs_att (d ++ [(id, oid)]) ci = abs_att d ci.
Proof.
  intros H. destruct ci as [coid|]; [|reflexivity]. cbn [abs_att]. rewrite kfind_app.
  destruct (kfind snd coid d); [reflexivity|]. cbn [kfind snd].
  destruct (N.eqb_spec oid coid) as [E|E]; [|reflexivity]. exfalso. now apply (H coid eq_refl).
Qed.

Definition grow_c (s : mstate) (id : N) : mstate :=
  let oid := N.of_nat (length (cheap s)) in
  with_circuits (with_cheap s (cheap s ++ [new_ccell oid id])) (circuits s ++ [(id, oid)]).

Lemma get_c_grow_old s id oid c : get_c oid s = Some c -> get_c oid (grow_c s id) = Some c.
Proof. intros H. unfold get_c, grow_c; cbn [cheap with_circuits with_cheap]. rewrite kfind_app. unfold get_c in H. now rewrite H. Qed.

Lemma get_c_grow_new s id : WF s ->
  get_c (N.of_nat (length (cheap s))) (grow_c s id) = Some (new_ccell (N.of_nat (length (cheap s))) id).
Proof.
  intros W. unfold get_c, grow_c; cbn [cheap with_circuits with_cheap]. rewrite kfind_app.
  pose proof (get_c_fresh s W) as F. unfold get_c in F. rewrite F. cbn [kfind new_ccell c_oid]. now rewrite N.eqb_refl.
Qed.

Lemma grow_c_WF s id : WF s -> id <> 0 -> kfind fst id (circuits s) = None -> WF (grow_c s id).
Proof.
  intros W Hpos Hnone. set (oid := N.of_nat (length (cheap s))).
  assert (Hfresh_d : ~ In oid (map snd (circuits s))).
  { intros H. apply in_map_iff in H as [p [E Hp]]. destruct (wf_clive _ W p Hp) as [c [G _]].
    pose proof (get_c_bound _ _ _ W G). subst oid. lia. }
  constructor; unfold grow_c; cbn [circuits cheap streams sheap with_circuits with_cheap]; fold oid.
  - rewrite map_app. cbn [map fst]. apply NoDup_app_end; [exact (wf_cids _ W) | now apply kfind_None].
  - rewrite map_app. cbn [map snd]. apply NoDup_app_end; [exact (wf_coids _ W) | exact Hfresh_d].
  - intros p Hp. apply in_app_or in Hp as [Hp|[<-|[]]]; [now apply (wf_cpos _ W) | exact Hpos].
  - intros p Hp. apply in_app_or in Hp as [Hp|[<-|[]]].
    + destruct (wf_clive _ W p Hp) as [c [G I]]. exists c. split; [|exact I].
      now apply (get_c_grow_old s id).
    + cbn [snd fst]. exists (new_ccell oid id). split; [apply (get_c_grow_new s id W) | reflexivity].
  - rewrite map_app. cbn [map new_ccell c_oid]. apply NoDup_app_end; [exact (wf_cheap _ W)|].
    intros H. apply in_map_iff in H as [c [E Hc]]. pose proof (wf_cbound _ W c Hc). subst oid. lia.
  - intros c Hc. rewrite app_length. cbn [length]. apply in_app_or in Hc as [Hc|[<-|[]]].
    + pose proof (wf_cbound _ W c Hc). lia.
    + cbn [new_ccell c_oid]. subst oid. lia.
  - exact (wf_sids _ W).
  - exact (wf_soids _ W).
  - exact (wf_slive _ W).
  - exact (wf_sheap _ W).
  - exact (wf_sbound _ W).
  - intros c soid Hc Hs. apply in_app_or in Hc as [Hc|[<-|[]]].
    + exact (wf_listed _ W c soid Hc Hs).
    + cbn in Hs. destruct Hs.
  - intros p x coid Hp Hg Hc. destruct (wf_points _ W p x coid Hp Hg Hc) as [c [G Cn]].
    exists c. split; [|exact Cn]. now apply (get_c_grow_old s id).
Qed.

Lemma grow_c_abs s id : WF s -> kfind fst id (circuits s) = None ->
  abs (grow_c s id) = {| tcs := tcs (abs s) ++ [blank_c id]; tss := tss (abs s) |}.
Proof.
  intros W Hnone. unfold abs at 1. f_equal.
  - unfold grow_c at 2; cbn [circuits with_circuits]. rewrite map_app. cbn [map]. f_equal.
    + apply map_ext_in. intros p Hp. unfold abs_c. destruct (wf_clive _ W p Hp) as [c [G _]].
      now rewrite (get_c_grow_old s id _ _ G), G.
    + unfold abs_c. cbn [snd fst]. now rewrite (get_c_grow_new s id W).
  - unfold abs; cbn [tss]. apply map_ext_in. intros p Hp. unfold abs_s.
    change (get_s (snd p) (grow_c s id)) with (get_s (snd p) s).
    destruct (get_s (snd p) s) as [x|] eqn:G; [|reflexivity].
    unfold ts_of. f_equal. unfold grow_c; cbn [circuits with_circuits]. apply abs_att_app_fresh.
    intros coid Hc. destruct (wf_points _ W p x coid Hp G Hc) as [c [G2 _]].
    pose proof (get_c_bound _ _ _ W G2). lia.
Qed.

(* ---------------------------------------------------------------- circuit_destroy: del circuits[id] *)
Definition del_c (s : mstate) (id : N) : mstate := with_circuits s (kdel fst id (circuits s)).

Lemma del_c_WF s id : WF s -> WF (del_c s id).
Proof.
  intros W. constructor; unfold del_c; cbn [circuits cheap streams sheap with_circuits].
  - rewrite map_key_kdel. apply NoDup_remove1. exact (wf_cids _ W).
  - apply kdel_NoDup_map. exact (wf_coids _ W).
  - intros p Hp. apply kdel_In in Hp. exact (wf_cpos _ W p Hp).
  - intros p Hp. apply kdel_In in Hp. exact (wf_clive _ W p Hp).
  - exact (wf_cheap _ W).
  - exact (wf_cbound _ W).
  - exact (wf_sids _ W).
  - exact (wf_soids _ W).
  - exact (wf_slive _ W).
  - exact (wf_sheap _ W).
  - exact (wf_sbound _ W).
  - exact (wf_listed _ W).
  - exact (wf_points _ W).
Qed.

Lemma del_c_abs_att s id oid ci :
  WF s -> In (id, oid) (circuits s) ->
  abs_att (kdel fst id (circuits s)) ci =
  match abs_att (circuits s) ci with AOn c => if c =? id then ADangling else AOn c | a => a end.
Proof.
  intros W Hin. destruct ci as [coid|]; [|reflexivity]. cbn [abs_att].
  destruct (kfind snd coid (circuits s)) as [q|] eqn:F.
  - destruct (kfind_Some snd _ _ _ F) as [Eq Hq].
    destruct (N.eqb_spec (fst q) id) as [E|E].
    + assert (q = (id, oid)).
      { pose proof (kfind_NoDup_In fst _ _ (wf_cids _ W) Hq) as A.
        pose proof (kfind_NoDup_In fst _ _ (wf_cids _ W) Hin) as B. cbn [fst] in B. rewrite E in A. congruence. }
      subst q. cbn [snd] in Eq. subst coid.
      assert (N0 : kfind snd oid (kdel fst id (circuits s)) = None).
      { apply kfind_None. apply kdel_fst_snd_notin; [exact (wf_cids _ W) | exact (wf_coids _ W) | exact Hin]. }
      now rewrite N0.
    + assert (coid <> oid).
      { intros ->. apply E.
        pose proof (kfind_NoDup_In snd _ _ (wf_coids _ W) Hq) as A.
        pose proof (kfind_NoDup_In snd _ _ (wf_coids _ W) Hin) as B. cbn [snd] in B. rewrite Eq in A.
        rewrite A in B. now injection B as ->. }
      rewrite (kfind_snd_kdel_fst _ id oid coid (wf_cids _ W) Hin H), F. reflexivity.
  - assert (N0 : kfind snd coid (kdel fst id (circuits s)) = None).
    { apply kfind_None. intros Hi. apply kdel_map_In in Hi. now apply kfind_None in F. }
    now rewrite N0.
Qed.

Lemma del_c_abs s id oid : WF s -> In (id, oid) (circuits s) ->
  abs (del_c s id) = {| tcs := kdel tc_id id (tcs (abs s)); tss := map (dangle id) (tss (abs s)) |}.
Proof.
  intros W Hin. unfold abs at 1. f_equal.
  - unfold del_c at 2; cbn [circuits with_circuits]. unfold abs; cbn [tcs].
    apply (map_kdel_pointwise tc_id); [exact (wf_cids _ W) | reflexivity | apply abs_c_id].
  - unfold abs; cbn [tss]. rewrite map_map. apply map_ext. intros p. unfold abs_s.
    change (get_s (snd p) (del_c s id)) with (get_s (snd p) s).
    destruct (get_s (snd p) s) as [x|]; [|reflexivity].
    unfold del_c; cbn [circuits with_circuits]. unfold ts_of, dangle; cbn [ts_att ts_id ts_status ts_host ts_port ts_addr ts_src].
    rewrite (del_c_abs_att s id oid (s_circ x) W Hin).
    destruct (abs_att (circuits s) (s_circ x)) as [|c|]; try reflexivity.
    destruct (c =? id); reflexivity.
Qed.

(* ---------------------------------------------------------------- the CIRC event *)
Lemma resolve_path_ids rt path : map fst (snd (resolve_path rt path)) = map h_rid path.
Proof.
  revert rt. induction path as [|h t IH]; intros rt; cbn [resolve_path]; [reflexivity|].
  destruct (kfind fst (h_rid h) rt) as [[a n]|].
  - specialize (IH rt). destruct (resolve_path rt t) as [rt2 rest]. cbn [snd map fst] in *. now rewrite IH.
  - specialize (IH (rt ++ [(h_rid h, h_nick h)])). destruct (resolve_path (rt ++ [(h_rid h, h_nick h)]) t) as [rt2 rest].
    cbn [snd map fst] in *. now rewrite IH.
Qed.

Definition old_c (tv : tview) (id : N) : tcirc :=
  match kfind tc_id id (tcs tv) with Some o => o | None => blank_c id end.

Definition spec_c (o : tcirc) (id : N) (st : cstatus) (path : list hop) (kw : kws) : tcirc :=
  {| tc_id := id; tc_status := st;
     tc_purpose := or_else (kw_get K_PURPOSE kw) (tc_purpose o);
     tc_bflags := match kw_get K_BUILD_FLAGS kw with Some v => build_flags_of v | None => tc_bflags o end;
     tc_flags := kw; tc_path := map h_rid path |}.

Lemma tor_step_circ tv id st path kw :
  tor_step tv (ECirc id st path kw) =
  if c_terminal st then {| tcs := kdel tc_id id (tcs tv); tss := map (dangle id) (tss tv) |}
  else {| tcs := kset tc_id (spec_c (old_c tv id) id st path kw) (tcs tv); tss := tss tv |}.
Proof.
  cbn [tor_step]. destruct (c_terminal st); [reflexivity|]. unfold old_c, spec_c.
  destruct (kfind tc_id id (tcs tv)); reflexivity.
Qed.

Lemma upd_circ_same rt c st path kw rt' c' :
  upd_circ rt c st path kw = (rt', c') -> c_oid c' = c_oid c /\ c_id c' = c_id c /\ c_streams c' = c_streams c /\ c_state c' = Some st.
Proof.
  unfold upd_circ. destruct (match st with CLaunched => _ | _ => _ end) as [r np]. intros [= <- <-]. cbn. auto.
Qed.

Lemma upd_circ_tc rt c st path kw rt' c' id :
  upd_circ rt c st path kw = (rt', c') -> c_terminal st = false ->
  (st = CLaunched -> path = []) ->
  (st <> CLaunched -> path = [] -> map fst (c_path c) = []) ->
  tc_of id c' = spec_c (tc_of id c) id st path kw.
Proof.
  unfold upd_circ. intros H Hterm Hl Hp.
  destruct (match st with CLaunched => _ | _ => _ end) as [r np] eqn:E.
  injection H as <- <-. unfold tc_of, spec_c; cbn [c_state c_purpose c_bflags c_flags c_path tc_purpose tc_bflags].
  f_equal.
  - destruct (kw_get K_PURPOSE kw); reflexivity.
  - assert (G : forall r0 np0, (match path, kw with [], [] => (rt, c_path c) | _, _ => resolve_path rt path end) = (r0, np0) ->
              st <> CLaunched -> map fst np0 = map h_rid path).
    { intros r0 np0 H0 Hne. destruct path as [|h t].
      - destruct kw; injection H0 as <- <-; [now apply Hp | reflexivity].
      - rewrite <- (resolve_path_ids rt (h :: t)). now rewrite H0. }
    destruct st; try discriminate Hterm.
    + injection E as <- <-. now rewrite (Hl eq_refl).
    + apply (G r np E). discriminate.
    + apply (G r np E). discriminate.
    + apply (G r np E). discriminate.
Qed.

Lemma ensure_circ_ok s id : WF s -> id <> 0 ->
  exists s1 oid c, ensure_circ s id = (s1, oid) /\ WF s1 /\ In (id, oid) (circuits s1) /\
    get_c oid s1 = Some c /\ tc_of id c = old_c (abs s) id /\
    (forall X, tc_id X = id -> kset tc_id X (tcs (abs s1)) = kset tc_id X (tcs (abs s))) /\
    kdel tc_id id (tcs (abs s1)) = kdel tc_id id (tcs (abs s)) /\
    tss (abs s1) = tss (abs s) /\ routers s1 = routers s /\
    (Complete s -> forall c1, cgood c1 -> c_oid c1 = oid -> Complete (put_c c1 s1)).
Proof.
  intros W Hpos. unfold ensure_circ, old_c.
  assert (KF : kfind tc_id id (tcs (abs s)) = option_map (abs_c s) (kfind fst id (circuits s))).
  { unfold abs; cbn [tcs]. apply kfind_map. apply abs_c_id. }
  destruct (kfind fst id (circuits s)) as [p|] eqn:F.
  - destruct (kfind_Some fst _ _ _ F) as [E Hin]. destruct p as [a oid]. cbn [fst snd] in *. subst a.
    destruct (wf_clive _ W _ Hin) as [c [G I]]. cbn [snd fst] in *.
    exists s, oid, c.
    split; [reflexivity|]. split; [exact W|]. split; [exact Hin|]. split; [exact G|].
    split; [rewrite KF; cbn [option_map]; unfold abs_c; cbn [snd fst]; now rewrite G|].
    split; [reflexivity|]. split; [reflexivity|]. split; [reflexivity|]. split; [reflexivity|].
    intros [C1 C2] c1 Hg Ho. split; [|exact C2].
    intros p c0 Hp. rewrite get_c_put_c. destruct (c_oid c1 =? snd p); [now intros [= <-] | now apply C1].
  - exists (grow_c s id), (N.of_nat (length (cheap s))), (new_ccell (N.of_nat (length (cheap s))) id).
    assert (Hn : ~ In id (map tc_id (tcs (abs s)))).
    { unfold abs; cbn [tcs]. rewrite map_abs_c_ids. now apply kfind_None. }
    split; [reflexivity|]. split; [now apply grow_c_WF|].
    split; [unfold grow_c; cbn [circuits with_circuits]; apply in_or_app; right; now left|].
    split; [now apply get_c_grow_new|].
    split; [rewrite KF; reflexivity|].
    rewrite (grow_c_abs s id W F). cbn [tcs tss].
    split; [|split; [|split; [reflexivity | split; [reflexivity|]]]].
    + intros X HX. rewrite (kset_app_blank tc_id X (blank_c id)); [| now rewrite HX | now rewrite HX].
      symmetry. apply kset_notin. now rewrite HX.
    + change id with (tc_id (blank_c id)) at 1. rewrite kdel_app_last by exact Hn.
      symmetry. now apply kdel_notin.
    + intros [C1 C2] c1 Hg Ho. split; [|exact C2].
      intros p c0 Hp. rewrite get_c_put_c. destruct (N.eqb_spec (c_oid c1) (snd p)) as [E|E]; [now intros [= <-]|].
      unfold grow_c in Hp; cbn [circuits with_circuits put_c with_cheap] in Hp.
      apply in_app_or in Hp as [Hp|[<-|[]]]; [|cbn [snd] in E; congruence].
      destruct (wf_clive _ W p Hp) as [c2 [G2 _]]. rewrite (get_c_grow_old s id _ _ G2). intros [= <-]. now apply (C1 p).
Qed.

Lemma Complete_del_c s id : Complete s -> Complete (del_c s id).
Proof.
  intros [C1 C2]. split; [|exact C2]. intros p c Hp. unfold del_c in Hp; cbn [circuits with_circuits] in Hp.
  apply kdel_In in Hp. now apply C1.
Qed.

Lemma circ_event_ok s id st path kw :
  WF s -> Complete s -> ev_legal (abs s) (ECirc id st path kw) = true ->
  exists s', circ_event s id st path kw = Some s' /\ WF s' /\ Complete s' /\
             abs s' = tor_step (abs s) (ECirc id st path kw).
Proof.
  intros W CP L. unfold circ_event.
  assert (Hpos : id <> 0).
  { cbn [ev_legal] in L. rewrite !andb_true_iff in L. destruct L as [[L _] _]. apply N.leb_le in L. lia. }
  destruct (ensure_circ_ok s id W Hpos) as [s1 [oid [c [E1 [W1 [Hin [G [Hold [Hks [Hkd [Hts [Hrt HC]]]]]]]]]]]].
  rewrite E1, G.
  destruct (upd_circ (routers s1) c st path kw) as [rt c'] eqn:EU.
  destruct (upd_circ_same _ _ _ _ _ _ _ EU) as [Ho [Hi [Hs Hst]]].
  assert (C2 : Complete (with_routers (put_c c' s1) rt)).
  { apply Complete_with_routers. apply (HC CP); [unfold cgood; rewrite Hst; discriminate|].
    destruct (get_c_oid _ _ _ G) as [Hco0 _]. congruence. }
  destruct (get_c_oid _ _ _ G) as [Hco _].
  assert (W2 : WF (with_routers (put_c c' s1) rt)).
  { apply WF_with_routers. apply (put_c_attrs_WF s1 oid c c'); auto. congruence. }
  assert (A2 : abs (with_routers (put_c c' s1) rt) =
               {| tcs := kset tc_id (tc_of id c') (tcs (abs s1)); tss := tss (abs s1) |}).
  { rewrite abs_with_routers. apply (put_c_attrs_abs s1 id oid c c'); auto. congruence. }
  rewrite tor_step_circ.
  destruct (c_terminal st) eqn:T.
  - eexists. split; [reflexivity|]. split; [|split].
    + apply (del_c_WF _ id W2).
    + apply (Complete_del_c _ id C2).
    + change (with_circuits ?s (kdel fst id (circuits ?s))) with (del_c s id).
      rewrite (del_c_abs _ id oid W2 Hin), A2. cbn [tcs tss]. f_equal.
      * change id with (tc_id (tc_of id c')) at 1. rewrite kdel_kset. exact Hkd.
      * now rewrite Hts.
  - eexists. split; [reflexivity|]. split; [exact W2|]. split; [exact C2|]. rewrite A2. f_equal; [|exact Hts].
    rewrite Hks by reflexivity. f_equal.
    rewrite <- Hold. apply (upd_circ_tc _ _ _ _ _ _ _ id EU T).
    + intros ->. cbn [ev_legal] in L. destruct path; [reflexivity|].
      rewrite !andb_true_iff in L. destruct L as [_ L]. discriminate.
    + intros Hne ->. cbn [ev_legal] in L. rewrite !andb_true_iff in L. destruct L as [_ L].
      assert (P : match kfind tc_id id (tcs (abs s)) with Some o => prefixN (tc_path o) (map h_rid []) | None => true end = true).
      { destruct st; try exact L; try congruence; discriminate T. }
      unfold old_c in Hold. destruct (kfind tc_id id (tcs (abs s))) as [o|].
      * apply prefixN_nil in P. rewrite <- Hold in P. exact P.
      * assert (Q : tc_path (tc_of id c) = tc_path (blank_c id)) by now rewrite Hold. exact Q.
Qed.

(* ================================================================ streams *)
(* ---------------------------------------------------------------- ensure_stream *)
Definition grow_s (s : mstate) (id : N) : mstate :=
  let oid := N.of_nat (length (sheap s)) in
  with_streams (with_sheap s (sheap s ++ [new_scell oid id])) (streams s ++ [(id, oid)]).

Lemma get_s_grow_old s id oid x : get_s oid s = Some x -> get_s oid (grow_s s id) = Some x.
Proof. intros H. unfold get_s, grow_s; cbn [sheap with_streams with_sheap]. rewrite kfind_app. unfold get_s in H. now rewrite H. Qed.

Lemma get_s_grow_new s id : WF s ->
  get_s (N.of_nat (length (sheap s))) (grow_s s id) = Some (new_scell (N.of_nat (length (sheap s))) id).
Proof.
  intros W. unfold get_s, grow_s; cbn [sheap with_streams with_sheap]. rewrite kfind_app.
  pose proof (get_s_fresh s W) as F. unfold get_s in F. rewrite F. cbn [kfind new_scell s_oid]. now rewrite N.eqb_refl.
Qed.

Lemma grow_s_WF s id : WF s -> kfind fst id (streams s) = None -> WF (grow_s s id).
Proof.
  intros W Hnone. set (oid := N.of_nat (length (sheap s))).
  assert (Hfresh_d : ~ In oid (map snd (streams s))).
  { intros H. apply in_map_iff in H as [p [E Hp]]. destruct (wf_slive _ W p Hp) as [c [G _]].
    pose proof (get_s_bound _ _ _ W G). subst oid. lia. }
  constructor; unfold grow_s; cbn [circuits cheap streams sheap with_streams with_sheap]; fold oid.
  - exact (wf_cids _ W).
  - exact (wf_coids _ W).
  - exact (wf_cpos _ W).
  - exact (wf_clive _ W).
  - exact (wf_cheap _ W).
  - exact (wf_cbound _ W).
  - rewrite map_app. cbn [map fst]. apply NoDup_app_end; [exact (wf_sids _ W) | now apply kfind_None].
  - rewrite map_app. cbn [map snd]. apply NoDup_app_end; [exact (wf_soids _ W) | exact Hfresh_d].
  - intros p Hp. apply in_app_or in Hp as [Hp|[<-|[]]].
    + destruct (wf_slive _ W p Hp) as [c [G I]]. exists c. split; [|exact I].
      now apply (get_s_grow_old s id).
    + cbn [snd fst]. exists (new_scell oid id). split; [apply (get_s_grow_new s id W) | reflexivity].
  - rewrite map_app. cbn [map new_scell s_oid]. apply NoDup_app_end; [exact (wf_sheap _ W)|].
    intros H. apply in_map_iff in H as [c [E Hc]]. pose proof (wf_sbound _ W c Hc). subst oid. lia.
  - intros c Hc. rewrite app_length. cbn [length]. apply in_app_or in Hc as [Hc|[<-|[]]].
    + pose proof (wf_sbound _ W c Hc). lia.
    + cbn [new_scell s_oid]. subst oid. lia.
  - intros c soid Hc Hs. destruct (wf_listed _ W c soid Hc Hs) as [p [x [A [B [C D]]]]].
    exists p, x. split; [apply in_or_app; now left|]. split; [exact B|]. split; [|exact D].
    now apply (get_s_grow_old s id).
  - intros p x coid Hp Hg Hc. apply in_app_or in Hp as [Hp|[<-|[]]].
    + destruct (wf_slive _ W p Hp) as [x0 [G0 _]].
      change (get_s (snd p) (grow_s s id) = Some x) in Hg. rewrite (get_s_grow_old s id _ _ G0) in Hg.
      injection Hg as <-. exact (wf_points _ W p x0 coid Hp G0 Hc).
    + cbn [snd] in Hg. change (get_s oid (grow_s s id) = Some x) in Hg.
      unfold oid in Hg. rewrite (get_s_grow_new s id W) in Hg. injection Hg as <-. discriminate Hc.
Qed.

Lemma grow_s_abs s id : WF s -> kfind fst id (streams s) = None ->
  abs (grow_s s id) = {| tcs := tcs (abs s); tss := tss (abs s) ++ [blank_s id] |}.
Proof.
  intros W Hnone. unfold abs at 1. f_equal.
  unfold grow_s at 2; cbn [streams with_streams]. unfold abs; cbn [tss]. rewrite map_app. cbn [map]. f_equal.
  - apply map_ext_in. intros p Hp. unfold abs_s. destruct (wf_slive _ W p Hp) as [c [G _]].
    now rewrite (get_s_grow_old s id _ _ G), G.
  - unfold abs_s. cbn [snd fst]. now rewrite (get_s_grow_new s id W).
Qed.

(* ---------------------------------------------------------------- replacing a Stream cell *)
(* generic: the cell of the live stream (id, soid) is replaced by x', the cell coid (if any) by c' with the
   same attributes; everything the invariant says about the pair is supplied by the caller *)
Lemma unique_by_fst (d : list (N * N)) p q : NoDup (map fst d) -> In p d -> In q d -> fst p = fst q -> p = q.
Proof.
  intros Hnd Hp Hq E.
  pose proof (kfind_NoDup_In fst _ _ Hnd Hp) as A. pose proof (kfind_NoDup_In fst _ _ Hnd Hq) as B.
  rewrite E in A. congruence.
Qed.
Lemma unique_by_snd (d : list (N * N)) p q : NoDup (map snd d) -> In p d -> In q d -> snd p = snd q -> p = q.
Proof.
  intros Hnd Hp Hq E.
  pose proof (kfind_NoDup_In snd _ _ Hnd Hp) as A. pose proof (kfind_NoDup_In snd _ _ Hnd Hq) as B.
  rewrite E in A. congruence.
Qed.

Lemma put_s_attrs_WF s soid x x' :
  WF s -> get_s soid s = Some x -> s_oid x' = soid -> s_id x' = s_id x -> s_circ x' = s_circ x ->
  WF (put_s x' s).
Proof.
  intros W Hget Hoid Hid Hci.
  destruct (get_s_oid _ _ _ Hget) as [Hso Hsin].
  assert (Hin : In (s_oid x') (map s_oid (sheap s))) by (rewrite Hoid, <- Hso; now apply in_map).
  constructor; try exact (wf_cids _ W); try exact (wf_coids _ W); try exact (wf_cpos _ W); try exact (wf_clive _ W);
    try exact (wf_cheap _ W); try exact (wf_cbound _ W); try exact (wf_sids _ W); try exact (wf_soids _ W).
  - intros p Hp. destruct (wf_slive _ W p Hp) as [x0 [G I]].
    rewrite get_s_put_s. destruct (N.eqb_spec (s_oid x') (snd p)) as [E|E].
    + exists x'. split; [reflexivity|]. rewrite Hid. rewrite <- E, Hoid in G. congruence.
    + eauto.
  - unfold put_s, with_sheap; cbn [sheap]. rewrite kset_in by exact Hin. exact (wf_sheap _ W).
  - unfold put_s, with_sheap; cbn [sheap]. rewrite kset_length_in by exact Hin.
    intros c0 H0. apply kset_In_inv in H0 as [->|H0]; [|now apply (wf_sbound _ W)].
    rewrite Hoid, <- Hso. now apply (wf_sbound _ W).
  - intros c soid0 Hc Hs. destruct (wf_listed _ W c soid0 Hc Hs) as [p [x0 [A [B [C D]]]]].
    rewrite get_s_put_s. destruct (N.eqb_spec (s_oid x') soid0) as [E|E].
    + exists p, x'. repeat split; try assumption. rewrite Hci. rewrite <- E, Hoid in C. congruence.
    + exists p, x0. auto.
  - intros p x0 coid Hp Hg Hc. rewrite get_s_put_s in Hg.
    destruct (N.eqb_spec (s_oid x') (snd p)) as [E|E].
    + injection Hg as <-. rewrite Hci in Hc. rewrite Hoid in E. rewrite E in Hget.
      exact (wf_points _ W p x coid Hp Hget Hc).
    + exact (wf_points _ W p x0 coid Hp Hg Hc).
Qed.

(* the abstraction after replacing the cell of a live stream, circuits dict and circuit attributes unchanged *)
Lemma put_s_abs s s' id soid x' :
  WF s -> In (id, soid) (streams s) ->
  circuits s' = circuits s -> streams s' = streams s ->
  (forall p, In p (circuits s) -> abs_c s' p = abs_c s p) ->
  get_s soid s' = Some x' ->
  (forall o, o <> soid -> get_s o s' = get_s o s) ->
  abs s' = {| tcs := tcs (abs s); tss := kset ts_id (ts_of (circuits s) id x') (tss (abs s)) |}.
Proof.
  intros W Hin Hc Hs Hac Hget Hoth. unfold abs at 1. rewrite Hc, Hs. f_equal.
  - unfold abs; cbn [tcs]. apply map_ext_in. exact Hac.
  - unfold abs; cbn [tss].
    apply (map_kset_pointwise ts_id (streams s) (abs_s s) (abs_s s') id soid (ts_of (circuits s) id x'));
      try exact Hin; try exact (wf_sids _ W); try reflexivity.
    + intros p Hp. unfold abs_s. rewrite Hc. destruct (N.eqb_spec (fst p) id) as [E|E].
      * assert (p = (id, soid)) by (apply (unique_by_fst (streams s)); auto; exact (wf_sids _ W)).
        subst p. cbn [snd fst]. now rewrite Hget.
      * rewrite Hoth; [reflexivity|]. intros E2. apply E.
        assert (p = (id, soid)) by (apply (unique_by_snd (streams s)); auto; exact (wf_soids _ W)).
        now subst p.
    + intros p. apply abs_s_id.
Qed.

(* ---------------------------------------------------------------- relinking a stream and a circuit *)
Section Relink.
  Variables (s : mstate) (id soid coid : N) (x : scell) (c : ccell) (x' : scell) (c' : ccell).
  Hypothesis W : WF s.
  Hypothesis Hin : In (id, soid) (streams s).
  Hypothesis Gx : get_s soid s = Some x.
  Hypothesis Gc : get_c coid s = Some c.
  Hypothesis Hx' : s_oid x' = soid /\ s_id x' = s_id x.
  Hypothesis Hc' : c_oid c' = coid /\ c_id c' = c_id c.
  Let s' := put_s x' (put_c c' s).

  Lemma relink_get_c o : get_c o s' = if coid =? o then Some c' else get_c o s.
  Proof. unfold s'. rewrite get_c_put_s, get_c_put_c. now destruct Hc' as [-> _]. Qed.
  Lemma relink_get_s o : get_s o s' = if soid =? o then Some x' else get_s o s.
  Proof. unfold s'. rewrite get_s_put_s, get_s_put_c. now destruct Hx' as [-> _]. Qed.

  (* the two facts that tie the new cells together are supplied by the caller *)
  Hypothesis Hlisted_new : forall soid0, In soid0 (c_streams c') ->
      (In soid0 (c_streams c) /\ soid0 <> soid) \/ (soid0 = soid /\ s_circ x' = Some coid).
  Hypothesis Hother_cells : forall c0, In c0 (cheap s) -> c_oid c0 <> coid -> ~ In soid (c_streams c0).
  Hypothesis Hpoints_new : forall coid0, s_circ x' = Some coid0 -> coid0 = coid /\ countN soid (c_streams c') = 1%nat.
  Hypothesis Hcount_other : forall o, o <> soid -> countN o (c_streams c') = countN o (c_streams c).

  Lemma relink_WF : WF s'.
  Proof.
    destruct Hx' as [Hxo Hxi]. destruct Hc' as [Hco Hci].
    destruct (get_s_oid _ _ _ Gx) as [Hso Hsin]. destruct (get_c_oid _ _ _ Gc) as [Hcoo Hcin].
    assert (HinS : In (s_oid x') (map s_oid (sheap s))) by (rewrite Hxo, <- Hso; now apply in_map).
    assert (HinC : In (c_oid c') (map c_oid (cheap s))) by (rewrite Hco, <- Hcoo; now apply in_map).
    constructor; try exact (wf_cids _ W); try exact (wf_coids _ W); try exact (wf_cpos _ W);
      try exact (wf_sids _ W); try exact (wf_soids _ W).
    - intros p Hp. destruct (wf_clive _ W p Hp) as [c0 [G I]]. rewrite relink_get_c.
      destruct (N.eqb_spec coid (snd p)) as [E|E]; [|eauto].
      exists c'. split; [reflexivity|]. rewrite Hci. rewrite <- E in G. congruence.
    - unfold s', put_s, put_c, with_sheap, with_cheap; cbn [cheap]. rewrite kset_in by exact HinC. exact (wf_cheap _ W).
    - unfold s', put_s, put_c, with_sheap, with_cheap; cbn [cheap]. rewrite kset_length_in by exact HinC.
      intros c0 H0. apply kset_In_inv in H0 as [->|H0]; [|now apply (wf_cbound _ W)].
      rewrite Hco, <- Hcoo. now apply (wf_cbound _ W).
    - intros p Hp. destruct (wf_slive _ W p Hp) as [x0 [G I]]. rewrite relink_get_s.
      destruct (N.eqb_spec soid (snd p)) as [E|E]; [|eauto].
      exists x'. split; [reflexivity|]. rewrite Hxi. rewrite <- E in G. congruence.
    - unfold s', put_s, put_c, with_sheap, with_cheap; cbn [sheap]. rewrite kset_in by exact HinS. exact (wf_sheap _ W).
    - unfold s', put_s, put_c, with_sheap, with_cheap; cbn [sheap]. rewrite kset_length_in by exact HinS.
      intros c0 H0. apply kset_In_inv in H0 as [->|H0]; [|now apply (wf_sbound _ W)].
      rewrite Hxo, <- Hso. now apply (wf_sbound _ W).
    - intros c0 soid0 H0 Hs0.
      unfold s', put_s, put_c, with_sheap, with_cheap in H0; cbn [cheap] in H0.
      apply (kset_In_inv_strong c_oid) in H0; [|exact (wf_cheap _ W)].
      destruct H0 as [->|[H0 Hne]].
      + destruct (Hlisted_new soid0 Hs0) as [[Hold Hnes]|[-> Hci']].
        * destruct (wf_listed _ W c soid0 Hcin Hold) as [p [x0 [A [B [C D]]]]].
          exists p, x0. repeat split; try assumption.
          -- rewrite relink_get_s. destruct (N.eqb_spec soid soid0); [congruence | exact C].
          -- rewrite D. f_equal. congruence.
        * exists (id, soid), x'. repeat split; try assumption.
          -- rewrite relink_get_s. now rewrite N.eqb_refl.
          -- rewrite Hci'. f_equal. congruence.
      + rewrite Hco in Hne. destruct (wf_listed _ W c0 soid0 H0 Hs0) as [p [x0 [A [B [C D]]]]].
        exists p, x0. repeat split; try assumption.
        rewrite relink_get_s. destruct (N.eqb_spec soid soid0) as [E|E]; [|exact C].
        exfalso. rewrite <- E in Hs0. now apply (Hother_cells c0 H0 Hne).
    - intros p x0 coid0 Hp Hg Hc. rewrite relink_get_s in Hg.
      destruct (N.eqb_spec soid (snd p)) as [E|E].
      + injection Hg as <-. destruct (Hpoints_new coid0 Hc) as [-> Cn].
        exists c'. split.
        { rewrite relink_get_c. rewrite N.eqb_refl. reflexivity. }
        { rewrite <- E. exact Cn. }
      + destruct (wf_points _ W p x0 coid0 Hp Hg Hc) as [c2 [G Cn]]. rewrite relink_get_c.
        destruct (N.eqb_spec coid coid0) as [E2|E2]; [|eauto].
        exists c'. split; [reflexivity|]. rewrite Hcount_other by congruence. rewrite <- E2 in G. congruence.
  Qed.

  Lemma relink_abs_c p : c_state c' = c_state c -> c_purpose c' = c_purpose c -> c_bflags c' = c_bflags c ->
    c_flags c' = c_flags c -> c_path c' = c_path c -> abs_c s' p = abs_c s p.
  Proof.
    intros H1 H2 H3 H4 H5. unfold abs_c. rewrite relink_get_c.
    destruct (N.eqb_spec coid (snd p)) as [E|E]; [|reflexivity].
    rewrite <- E, Gc. unfold tc_of. now rewrite H1, H2, H3, H4, H5.
  Qed.
End Relink.

Lemma set_circ_same x : set_circ x (s_circ x) = x.
Proof. destruct x; reflexivity. Qed.

Lemma not_listed_elsewhere s soid x coid c0 :
  WF s -> get_s soid s = Some x -> s_circ x = coid -> In c0 (cheap s) -> Some (c_oid c0) <> coid -> ~ In soid (c_streams c0).
Proof.
  intros W Gx Hc H0 Hne Hi. destruct (wf_listed _ W c0 soid H0 Hi) as [p [x0 [A [B [C D]]]]].
  rewrite Gx in C. injection C as <-. congruence.
Qed.

(* ---------------------------------------------------------------- detach *)
Lemma detach_sim s id soid x :
  WF s -> In (id, soid) (streams s) -> get_s soid s = Some x ->
  exists s', detach s soid = Some s' /\ WF s' /\ circuits s' = circuits s /\ streams s' = streams s /\
    get_s soid s' = Some (set_circ x None) /\
    abs s' = {| tcs := tcs (abs s); tss := kset ts_id (ts_of (circuits s) id (set_circ x None)) (tss (abs s)) |} /\
    (forall o, o <> soid -> get_s o s' = get_s o s) /\
    (forall o c', get_c o s' = Some c' -> exists c, get_c o s = Some c /\ c_state c' = c_state c).
Proof.
  intros W Hin Gx. unfold detach. rewrite Gx.
  destruct (s_circ x) as [coid|] eqn:Hc.
  - destruct (wf_points _ W (id, soid) x coid Hin Gx Hc) as [c [Gc Cn]]. cbn [snd] in Cn.
    unfold unlist. rewrite Gc.
    assert (M : memN soid (c_streams c) = true) by (apply memN_In; apply countN_pos_In; lia).
    rewrite M.
    set (c' := set_streams c (remove1 soid (c_streams c))). set (x' := set_circ x None).
    destruct (get_s_oid _ _ _ Gx) as [Hso _]. destruct (get_c_oid _ _ _ Gc) as [Hco _].
    assert (Hx' : s_oid x' = soid /\ s_id x' = s_id x) by (split; [exact Hso | reflexivity]).
    assert (Hc' : c_oid c' = coid /\ c_id c' = c_id c) by (split; [exact Hco | reflexivity]).
    exists (put_s x' (put_c c' s)). split; [reflexivity|].
    split; [|split; [reflexivity|split; [reflexivity|split; [|split; [|split]]]]].
    + apply (relink_WF s id soid coid x c x' c' W Hin Gx Gc Hx' Hc').
      * intros soid0 H0. left. cbn [c' set_streams c_streams] in H0. split; [eapply remove1_In; eauto|].
        intros ->. assert (countN soid (remove1 soid (c_streams c)) = O) by (rewrite countN_remove1_same; lia).
        pose proof (countN_In_pos _ _ H0). lia.
      * intros c0 H0 Hne. apply (not_listed_elsewhere s soid x (Some coid) c0 W Gx Hc H0). congruence.
      * intros coid0 H0. discriminate H0.
      * intros o Ho. cbn [c' set_streams c_streams]. now apply countN_remove1_other.
    + rewrite (relink_get_s s soid x x' c' Hx'). now rewrite N.eqb_refl.
    + apply (put_s_abs s (put_s x' (put_c c' s)) id soid x' W Hin); try reflexivity.
      * intros p _. now apply (relink_abs_c s coid c x' c' Gc Hc').
      * rewrite (relink_get_s s soid x x' c' Hx'). now rewrite N.eqb_refl.
      * intros o Ho. rewrite (relink_get_s s soid x x' c' Hx'). destruct (N.eqb_spec soid o); [congruence | reflexivity].
    + intros o Ho. rewrite (relink_get_s s soid x x' c' Hx'). destruct (N.eqb_spec soid o); [congruence | reflexivity].
    + intros o c0. rewrite (relink_get_c s coid c x' c' Hc'). destruct (N.eqb_spec coid o) as [E|E].
      * intros [= <-]. exists c. split; [now rewrite <- E | reflexivity].
      * intros H. exists c0. auto.
  - exists s. split; [reflexivity|]. split; [exact W|]. split; [reflexivity|]. split; [reflexivity|].
    assert (E : set_circ x None = x) by (rewrite <- Hc; apply set_circ_same). rewrite E. split; [exact Gx|].
    split; [apply (put_s_abs s s id soid x W Hin); auto|]. split; [reflexivity|]. intros o c0 H. exists c0. auto.
Qed.

(* ---------------------------------------------------------------- attach *)
Lemma attach_sim s id soid x cid coid :
  WF s -> In (id, soid) (streams s) -> get_s soid s = Some x -> s_circ x = None -> In (cid, coid) (circuits s) ->
  exists s', attach s soid cid = Some s' /\ WF s' /\ circuits s' = circuits s /\ streams s' = streams s /\
    abs s' = {| tcs := tcs (abs s); tss := kset ts_id (ts_of (circuits s) id (set_circ x (Some coid))) (tss (abs s)) |} /\
    get_s soid s' = Some (set_circ x (Some coid)) /\
    (forall o, o <> soid -> get_s o s' = get_s o s) /\
    (forall o c', get_c o s' = Some c' -> exists c, get_c o s = Some c /\ c_state c' = c_state c).
Proof.
  intros W Hin Gx Hc Hcin. unfold attach. rewrite Gx, Hc.
  rewrite (kfind_NoDup_In fst _ _ (wf_cids _ W) Hcin : kfind fst cid (circuits s) = Some (cid, coid)). cbn [snd].
  destruct (wf_clive _ W _ Hcin) as [c [Gc _]]. cbn [snd] in Gc. rewrite Gc.
  destruct (get_s_oid _ _ _ Gx) as [Hso _]. destruct (get_c_oid _ _ _ Gc) as [Hco Hcheap].
  assert (Hnot : ~ In soid (c_streams c)).
  { apply (not_listed_elsewhere s soid x None c W Gx Hc Hcheap). discriminate. }
  assert (M : memN soid (c_streams c) = false) by now apply memN_false.
  rewrite M.
  set (c' := set_streams c (c_streams c ++ [soid])). set (x' := set_circ x (Some coid)).
  assert (Hx' : s_oid x' = soid /\ s_id x' = s_id x) by (split; [exact Hso | reflexivity]).
  assert (Hc' : c_oid c' = coid /\ c_id c' = c_id c) by (split; [exact Hco | reflexivity]).
  exists (put_s x' (put_c c' s)). split; [reflexivity|].
  split; [|split; [reflexivity|split; [reflexivity|split; [|split; [|split]]]]].
  - apply (relink_WF s id soid coid x c x' c' W Hin Gx Gc Hx' Hc').
    + intros soid0 H0. cbn [c' set_streams c_streams] in H0. apply in_app_or in H0 as [H0|[<-|[]]].
      * left. split; [exact H0|]. intros ->. tauto.
      * right. split; reflexivity.
    + intros c0 H0 Hne. apply (not_listed_elsewhere s soid x None c0 W Gx Hc H0). discriminate.
    + intros coid0 H0. cbn [x' set_circ s_circ] in H0. injection H0 as <-. split; [reflexivity|].
      cbn [c' set_streams c_streams]. rewrite countN_app, (countN_notin _ _ Hnot). cbn [countN]. now rewrite N.eqb_refl.
    + intros o Ho. cbn [c' set_streams c_streams]. rewrite countN_app. cbn [countN].
      destruct (N.eqb_spec o soid); [congruence | lia].
  - apply (put_s_abs s (put_s x' (put_c c' s)) id soid x' W Hin); try reflexivity.
    + intros p _. now apply (relink_abs_c s coid c x' c' Gc Hc').
    + rewrite (relink_get_s s soid x x' c' Hx'). now rewrite N.eqb_refl.
    + intros o Ho. rewrite (relink_get_s s soid x x' c' Hx'). destruct (N.eqb_spec soid o); [congruence | reflexivity].
  - rewrite (relink_get_s s soid x x' c' Hx'). now rewrite N.eqb_refl.
  - intros o Ho. rewrite (relink_get_s s soid x x' c' Hx'). destruct (N.eqb_spec soid o); [congruence | reflexivity].
  - intros o c0. rewrite (relink_get_c s coid c x' c' Hc'). destruct (N.eqb_spec coid o) as [E|E].
    + intros [= <-]. exists c. split; [now rewrite <- E | reflexivity].
    + intros H. exists c0. auto.
Qed.

(* ---------------------------------------------------------------- del streams[id] *)
Definition del_s (s : mstate) (id : N) : mstate := with_streams s (kdel fst id (streams s)).

Lemma del_s_WF s id soid x :
  WF s -> In (id, soid) (streams s) -> get_s soid s = Some x -> s_circ x = None -> WF (del_s s id).
Proof.
  intros W Hin Gx Hc. constructor; unfold del_s; cbn [circuits cheap streams sheap with_streams].
  - exact (wf_cids _ W).
  - exact (wf_coids _ W).
  - exact (wf_cpos _ W).
  - exact (wf_clive _ W).
  - exact (wf_cheap _ W).
  - exact (wf_cbound _ W).
  - rewrite map_key_kdel. apply NoDup_remove1. exact (wf_sids _ W).
  - apply kdel_NoDup_map. exact (wf_soids _ W).
  - intros p Hp. apply kdel_In in Hp. exact (wf_slive _ W p Hp).
  - exact (wf_sheap _ W).
  - exact (wf_sbound _ W).
  - intros c soid0 H0 Hs0. destruct (wf_listed _ W c soid0 H0 Hs0) as [p [x0 [A [B [C D]]]]].
    exists p, x0. split; [|auto]. apply kdel_In_other; [|exact A].
    intros E. assert (p = (id, soid)) by (apply (unique_by_fst (streams s)); auto; exact (wf_sids _ W)).
    subst p. cbn [snd] in B. subst soid0. change (get_s soid s = Some x0) in C. rewrite Gx in C. injection C as <-. congruence.
  - intros p x0 coid Hp Hg Hc0. apply kdel_In in Hp. exact (wf_points _ W p x0 coid Hp Hg Hc0).
Qed.

Lemma del_s_abs s id : WF s ->
  abs (del_s s id) = {| tcs := tcs (abs s); tss := kdel ts_id id (tss (abs s)) |}.
Proof.
  intros W. unfold abs at 1. f_equal.
  unfold del_s at 2; cbn [streams with_streams]. unfold abs; cbn [tss].
  apply (map_kdel_pointwise ts_id); [exact (wf_sids _ W) | reflexivity | apply abs_s_id].
Qed.

(* ---------------------------------------------------------------- the STREAM event *)
Definition spec_att (oatt : option att) (st : sstatus) (cid : N) : att :=
  match st with
  | SDetached => ANone
  | _ => if cid =? 0 then ANone
         else match oatt with Some ADangling => ADangling | _ => AOn cid end
  end.

Definition spec_s (old : option tstream) (id : N) (st : sstatus) (cid host port : N) (kw : kws) : tstream :=
  {| ts_id := id; ts_status := st;
     ts_host := match old with Some o => ts_host o | None => host end;
     ts_port := match old with Some o => ts_port o | None => port end;
     ts_addr := match st with SRemap => Some host | _ => match old with Some o => ts_addr o | None => None end end;
     ts_src := or_else (option_map (fun v => (v / 65536, v mod 65536)) (kw_get K_SOURCE_ADDR kw))
                       (match old with Some o => ts_src o | None => None end);
     ts_att := spec_att (option_map ts_att old) st cid |}.

Lemma tor_step_stream tv id st cid host port kw :
  tor_step tv (EStream id st cid host port kw) =
  if s_terminal st then {| tcs := tcs tv; tss := kdel ts_id id (tss tv) |}
  else {| tcs := tcs tv; tss := kset ts_id (spec_s (kfind ts_id id (tss tv)) id st cid host port kw) (tss tv) |}.
Proof.
  cbn [tor_step]. destruct (s_terminal st); [reflexivity|]. unfold spec_s, spec_att.
  destruct (kfind ts_id id (tss tv)) as [o|]; cbn [option_map]; [|destruct st; reflexivity].
  destruct st; try reflexivity; destruct (cid =? 0); try reflexivity; destruct (ts_att o); reflexivity.
Qed.

Lemma upd_stream_same x st host port kw :
  s_oid (upd_stream x st host port kw) = s_oid x /\ s_id (upd_stream x st host port kw) = s_id x /\
  s_circ (upd_stream x st host port kw) = s_circ x.
Proof.
  unfold upd_stream. destruct (kw_get K_SOURCE_ADDR kw); destruct (s_host x); cbn; auto.
Qed.

Lemma upd_stream_good x st host port kw :
  (s_src x = None -> s_sport x = 0) -> sgood (upd_stream x st host port kw).
Proof.
  intros H. unfold upd_stream, sgood.
  destruct (kw_get K_SOURCE_ADDR kw); destruct (s_host x); cbn; repeat split; try discriminate; auto.
Qed.

(* the Tor-view entry of the updated cell, for a stream that existed (its attributes complete) *)
Lemma upd_stream_ts_old d id x st cid host port kw ci :
  sgood x ->
  ts_att (spec_s (Some (ts_of d id x)) id st cid host port kw) = abs_att d ci ->
  ts_of d id (set_circ (upd_stream x st host port kw) ci) = spec_s (Some (ts_of d id x)) id st cid host port kw.
Proof.
  intros [G1 [G2 G3]] Hatt. unfold spec_s in *. cbn [ts_att] in Hatt. rewrite Hatt.
  unfold ts_of, upd_stream, set_circ, abs_src.
  destruct (s_host x) as [h|] eqn:Eh; [|congruence].
  destruct (kw_get K_SOURCE_ADDR kw) as [v|]; cbn; f_equal; destruct st; reflexivity.
Qed.

Lemma upd_stream_ts_new d id soid st cid host port kw ci :
  ts_att (spec_s None id st cid host port kw) = abs_att d ci ->
  ts_of d id (set_circ (upd_stream (new_scell soid id) st host port kw) ci) = spec_s None id st cid host port kw.
Proof.
  intros Hatt. unfold spec_s in *. cbn [ts_att] in Hatt. rewrite Hatt.
  unfold ts_of, upd_stream, set_circ, abs_src, new_scell.
  destruct (kw_get K_SOURCE_ADDR kw) as [v|]; cbn; f_equal; destruct st; reflexivity.
Qed.

Lemma ensure_stream_ok s id : WF s ->
  exists s1 soid x, ensure_stream s id = (s1, soid) /\ WF s1 /\ In (id, soid) (streams s1) /\
    get_s soid s1 = Some x /\ (circuits s1 = circuits s /\ kdel fst id (streams s1) = kdel fst id (streams s)) /\
    tcs (abs s1) = tcs (abs s) /\
    (forall X, ts_id X = id -> kset ts_id X (tss (abs s1)) = kset ts_id X (tss (abs s))) /\
    kdel ts_id id (tss (abs s1)) = kdel ts_id id (tss (abs s)) /\
    ((kfind ts_id id (tss (abs s)) = Some (ts_of (circuits s) id x) /\ (Complete s -> sgood x))
     \/ (kfind ts_id id (tss (abs s)) = None /\ x = new_scell soid id)) /\
    (Complete s -> forall x1, sgood x1 -> s_oid x1 = soid -> Complete (put_s x1 s1)).
Proof.
  intros W. unfold ensure_stream.
  assert (KF : kfind ts_id id (tss (abs s)) = option_map (abs_s s) (kfind fst id (streams s))).
  { unfold abs; cbn [tss]. apply kfind_map. apply abs_s_id. }
  destruct (kfind fst id (streams s)) as [p|] eqn:F.
  - destruct (kfind_Some fst _ _ _ F) as [E Hin]. destruct p as [a soid]. cbn [fst snd] in *. subst a.
    destruct (wf_slive _ W _ Hin) as [x [G I]]. cbn [snd fst] in *.
    exists s, soid, x.
    split; [reflexivity|]. split; [exact W|]. split; [exact Hin|]. split; [exact G|].
    split; [split; reflexivity|]. split; [reflexivity|]. split; [reflexivity|]. split; [reflexivity|].
    split.
    + left. split.
      * rewrite KF. cbn [option_map]. unfold abs_s. cbn [snd fst]. now rewrite G.
      * intros [_ C2]. exact (C2 (id, soid) x Hin G).
    + intros [C1 C2] x1 Hg Ho. split; [exact C1|].
      intros p x0 Hp. rewrite get_s_put_s. destruct (s_oid x1 =? snd p); [now intros [= <-] | now apply C2].
  - exists (grow_s s id), (N.of_nat (length (sheap s))), (new_scell (N.of_nat (length (sheap s))) id).
    assert (Hn : ~ In id (map ts_id (tss (abs s)))).
    { unfold abs; cbn [tss]. rewrite map_abs_s_ids. now apply kfind_None. }
    split; [reflexivity|]. split; [now apply grow_s_WF|].
    split; [unfold grow_s; cbn [streams with_streams]; apply in_or_app; right; now left|].
    split; [now apply get_s_grow_new|].
    split; [split; [reflexivity|]|].
    { unfold grow_s; cbn [streams with_streams]. change id with (fst (id, N.of_nat (length (sheap s)))) at 1.
      rewrite kdel_app_last by (now apply kfind_None). symmetry. apply kdel_notin. now apply kfind_None. }
    rewrite (grow_s_abs s id W F). cbn [tcs tss].
    split; [reflexivity|]. split; [|split; [|split]].
    + intros X HX. rewrite (kset_app_blank ts_id X (blank_s id)); [| now rewrite HX | now rewrite HX].
      symmetry. apply kset_notin. now rewrite HX.
    + change id with (ts_id (blank_s id)) at 1. rewrite kdel_app_last by exact Hn.
      symmetry. now apply kdel_notin.
    + right. split; [rewrite KF; reflexivity | reflexivity].
    + intros [C1 C2] x1 Hg Ho. split; [exact C1|].
      intros p x0 Hp. rewrite get_s_put_s. destruct (N.eqb_spec (s_oid x1) (snd p)) as [E|E]; [now intros [= <-]|].
      unfold grow_s in Hp; cbn [streams with_streams put_s with_sheap] in Hp.
      apply in_app_or in Hp as [Hp|[<-|[]]]; [|cbn [snd] in E; congruence].
      destruct (wf_slive _ W p Hp) as [x2 [G2 _]]. rewrite (get_s_grow_old s id _ _ G2). intros [= <-]. now apply (C2 p).
Qed.

Lemma Complete_del_s s id : Complete s -> Complete (del_s s id).
Proof.
  intros [C1 C2]. split; [exact C1|]. intros p c Hp. unfold del_s in Hp; cbn [streams with_streams] in Hp.
  apply kdel_In in Hp. now apply C2.
Qed.

Lemma Complete_frame_s s2 s3 soid x3 :
  Complete s2 -> circuits s3 = circuits s2 -> streams s3 = streams s2 ->
  get_s soid s3 = Some x3 -> sgood x3 ->
  (forall o, o <> soid -> get_s o s3 = get_s o s2) ->
  (forall o c', get_c o s3 = Some c' -> exists c, get_c o s2 = Some c /\ c_state c' = c_state c) ->
  Complete s3.
Proof.
  intros [C1 C2] Hc Hs G Hg F1 F2. split.
  - intros p c' Hp Gc. rewrite Hc in Hp. destruct (F2 _ _ Gc) as [c [Gc2 E]]. unfold cgood. rewrite E. now apply (C1 p c).
  - intros p x0 Hp Gx. rewrite Hs in Hp. destruct (N.eq_dec (snd p) soid) as [E|E].
    + rewrite E, G in Gx. now injection Gx as <-.
    + rewrite (F1 _ E) in Gx. now apply (C2 p).
Qed.

Lemma sgood_set_circ x ci : sgood x -> sgood (set_circ x ci).
Proof. intros H. exact H. Qed.

Lemma kdel_kset_id {A} (key : A -> N) X id l : key X = id -> kdel key id (kset key X l) = kdel key id l.
Proof. intros <-. apply kdel_kset. Qed.

Lemma abs_att_none d ci : abs_att d ci = ANone -> ci = None.
Proof. destruct ci as [c|]; [|reflexivity]. cbn. destruct (kfind snd c d); discriminate. Qed.

Lemma abs_att_on s ci c : WF s -> abs_att (circuits s) ci = AOn c ->
  c <> 0 /\ exists coid, ci = Some coid /\ In (c, coid) (circuits s).
Proof.
  intros W H. destruct ci as [coid|]; [|discriminate]. cbn in H.
  destruct (kfind snd coid (circuits s)) as [q|] eqn:F; [|discriminate]. injection H as <-.
  destruct (kfind_Some snd _ _ _ F) as [E Hq]. split; [now apply (wf_cpos _ W q)|].
  exists coid. split; [reflexivity|]. destruct q as [a b]. cbn [snd fst] in *. now subst b.
Qed.

Lemma abs_att_live s cid coid : WF s -> In (cid, coid) (circuits s) -> abs_att (circuits s) (Some coid) = AOn cid.
Proof.
  intros W H. cbn. rewrite (kfind_NoDup_In snd _ _ (wf_coids _ W) H : kfind snd coid (circuits s) = Some (cid, coid)).
  reflexivity.
Qed.

Lemma spec_att_other o st cid : s_terminal st = false -> st <> SDetached ->
  spec_att o st cid = if cid =? 0 then ANone else match o with Some ADangling => ADangling | _ => AOn cid end.
Proof. intros T D. destruct st; try reflexivity; try discriminate; congruence. Qed.

(* circuit id 0 in a non-terminal event: on a well-formed heap the two ways of unlinking do the same *)
Lemma detach_soft_detach s id soid x : WF s -> In (id, soid) (streams s) -> get_s soid s = Some x ->
  detach_soft s soid = detach s soid.
Proof.
  intros W Hin Gx. unfold detach_soft, detach. rewrite Gx. destruct (s_circ x) as [coid|] eqn:Hc; [|reflexivity].
  destruct (wf_points _ W (id, soid) x coid Hin Gx Hc) as [c [Gc Cn]]. cbn [snd] in Cn. unfold unlist. rewrite Gc.
  assert (M : memN soid (c_streams c) = true) by (apply memN_In; apply countN_pos_In; lia).
  now rewrite M.
Qed.

Lemma legal_att tv id st cid host port kw :
  ev_legal tv (EStream id st cid host port kw) = true -> s_terminal st = false -> st <> SDetached ->
  match (match kfind ts_id id (tss tv) with Some o => ts_att o | None => ANone end) with
  | ANone => (cid =? 0) || kmem tc_id cid (tcs tv)
  | AOn c => (cid =? c) || (cid =? 0)
  | ADangling => cid =? 0
  end = true.
Proof.
  intros L T D. cbn [ev_legal] in L. rewrite T in L. rewrite !andb_true_iff in L.
  destruct L as [_ [_ L]]. destruct st; try discriminate; try congruence; exact L.
Qed.

Lemma stream_event_ok s id st cid host port kw :
  WF s -> Complete s -> ev_legal (abs s) (EStream id st cid host port kw) = true ->
  exists s', stream_event s id st cid host port kw = Some s' /\ WF s' /\ Complete s' /\
             abs s' = tor_step (abs s) (EStream id st cid host port kw) /\
             (s_terminal st = true -> streams s' = kdel fst id (streams s)).
Proof.
  intros W CP L. unfold stream_event.
  destruct (ensure_stream_ok s id W) as [s1 [soid [x [E1 [W1 [Hin [G [[Hcirc Hkds] [Htcs [Hks [Hkd [Hcase HC]]]]]]]]]]]].
  rewrite E1, G.
  set (x1 := upd_stream x st host port kw).
  destruct (upd_stream_same x st host port kw) as [Ho [Hi Hci]]. fold x1 in Ho, Hi, Hci.
  destruct (get_s_oid _ _ _ G) as [Hso _].
  assert (Hx1o : s_oid x1 = soid) by congruence.
  assert (Good1 : sgood x1).
  { apply upd_stream_good. destruct Hcase as [[_ Hg]|[_ ->]]; [|reflexivity]. now destruct (Hg CP) as [_ [_ H3]]. }
  set (s2 := put_s x1 s1).
  assert (W2 : WF s2) by (apply (put_s_attrs_WF s1 soid x x1 W1 G Hx1o Hi Hci)).
  assert (C2 : Complete s2) by (apply (HC CP x1 Good1 Hx1o)).
  assert (G2 : get_s soid s2 = Some x1) by (unfold s2; rewrite get_s_put_s, Hx1o; now rewrite N.eqb_refl).
  assert (Hin2 : In (id, soid) (streams s2)) by exact Hin.
  assert (Hcirc2 : circuits s2 = circuits s) by exact Hcirc.
  assert (A2 : abs s2 = {| tcs := tcs (abs s1); tss := kset ts_id (ts_of (circuits s1) id x1) (tss (abs s1)) |}).
  { apply (put_s_abs s1 s2 id soid x1 W1 Hin); try reflexivity; [exact G2|].
    intros o Hne. unfold s2. rewrite get_s_put_s, Hx1o. destruct (N.eqb_spec soid o); [congruence | reflexivity]. }
  set (old := kfind ts_id id (tss (abs s))).
  assert (Hentry : forall ci, ts_att (spec_s old id st cid host port kw) = abs_att (circuits s) ci ->
                   ts_of (circuits s) id (set_circ x1 ci) = spec_s old id st cid host port kw).
  { intros ci Hatt. unfold old in *. destruct Hcase as [[Hold Hg]|[Hold ->]]; rewrite Hold in *.
    - apply upd_stream_ts_old; [now apply Hg | exact Hatt].
    - apply upd_stream_ts_new. exact Hatt. }
  assert (Holdatt : option_map ts_att old = Some (abs_att (circuits s) (s_circ x)) \/
                    (option_map ts_att old = None /\ s_circ x = None)).
  { unfold old. destruct Hcase as [[Hold _]|[Hold ->]]; rewrite Hold; [left; reflexivity | right; split; reflexivity]. }
  rewrite tor_step_stream. fold old.
  (* --- CLOSED / FAILED --- *)
  assert (RT : s_terminal st = true ->
    exists s', match detach s2 soid with Some s3 => Some (with_streams s3 (kdel fst id (streams s3))) | None => None end = Some s'
               /\ WF s' /\ Complete s' /\ abs s' = {| tcs := tcs (abs s); tss := kdel ts_id id (tss (abs s)) |}
               /\ streams s' = kdel fst id (streams s)).
  { intros _. destruct (detach_sim s2 id soid x1 W2 Hin2 G2) as [s3 [Dt [W3 [Hc3 [Hs3 [G3 [A3 [F1 F2]]]]]]]].
    rewrite Dt. eexists. split; [reflexivity|].
    change (with_streams s3 (kdel fst id (streams s3))) with (del_s s3 id).
    assert (Hin3 : In (id, soid) (streams s3)) by (rewrite Hs3; exact Hin2).
    split; [apply (del_s_WF s3 id soid (set_circ x1 None) W3 Hin3 G3 eq_refl)|].
    split; [apply Complete_del_s; apply (Complete_frame_s s2 s3 soid (set_circ x1 None) C2 Hc3 Hs3 G3 Good1 F1 F2)|].
    split.
    - rewrite (del_s_abs s3 id W3), A3, A2. cbn [tcs tss]. f_equal; [exact Htcs|].
      rewrite !kdel_kset_id by reflexivity. exact Hkd.
    - unfold del_s; cbn [streams with_streams]. rewrite Hs3. exact Hkds. }
  (* --- DETACHED --- *)
  assert (RD : st = SDetached ->
    exists s', detach s2 soid = Some s' /\ WF s' /\ Complete s' /\
               abs s' = {| tcs := tcs (abs s); tss := kset ts_id (spec_s old id st cid host port kw) (tss (abs s)) |}).
  { intros Est. destruct (detach_sim s2 id soid x1 W2 Hin2 G2) as [s3 [Dt [W3 [Hc3 [Hs3 [G3 [A3 [F1 F2]]]]]]]].
    exists s3. split; [exact Dt|]. split; [exact W3|].
    split; [apply (Complete_frame_s s2 s3 soid (set_circ x1 None) C2 Hc3 Hs3 G3 Good1 F1 F2)|].
    rewrite A3, A2. cbn [tcs tss]. f_equal; [exact Htcs|].
    rewrite kset_kset by reflexivity. rewrite Hks by reflexivity. f_equal.
    rewrite Hcirc2. apply Hentry. rewrite Est. reflexivity. }
  (* --- NEW / REMAP / SENTCONNECT / SUCCEEDED --- *)
  assert (RO : s_terminal st = false -> st <> SDetached ->
    exists s', (if cid =? 0 then detach_soft s2 soid else attach s2 soid cid) = Some s' /\ WF s' /\ Complete s' /\
               abs s' = {| tcs := tcs (abs s); tss := kset ts_id (spec_s old id st cid host port kw) (tss (abs s)) |}).
  { intros T D. pose proof (legal_att _ _ _ _ _ _ _ L T D) as La. fold old in La.
    assert (Eoa : match old with Some o => ts_att o | None => ANone end = abs_att (circuits s) (s_circ x)).
    { destruct Holdatt as [H|[H Hn]]; destruct old; cbn [option_map] in H; try discriminate.
      - now injection H. - now rewrite Hn. }
    rewrite Eoa in La.
    (* the state s2 itself is the answer whenever nothing is relinked *)
    assert (Stay : ts_att (spec_s old id st cid host port kw) = abs_att (circuits s) (s_circ x) ->
       abs s2 = {| tcs := tcs (abs s); tss := kset ts_id (spec_s old id st cid host port kw) (tss (abs s)) |}).
    { intros Hatt. rewrite A2. f_equal; [exact Htcs|]. rewrite Hks by reflexivity. f_equal.
      rewrite Hcirc. rewrite <- (set_circ_same x1) at 1. rewrite Hci. now apply Hentry. }
    cbn [spec_s ts_att] in Stay. rewrite (spec_att_other _ _ _ T D) in Stay.
    destruct (N.eqb_spec cid 0) as [E0|E0].
    - (* circuit id 0: the stream is on no circuit afterwards, wherever it was *)
      rewrite (detach_soft_detach s2 id soid x1 W2 Hin2 G2).
      destruct (detach_sim s2 id soid x1 W2 Hin2 G2) as [s3 [Dt [W3 [Hc3 [Hs3 [G3 [A3 [F1 F2]]]]]]]].
      exists s3. split; [exact Dt|]. split; [exact W3|].
      split; [apply (Complete_frame_s s2 s3 soid (set_circ x1 None) C2 Hc3 Hs3 G3 Good1 F1 F2)|].
      rewrite A3, A2. cbn [tcs tss]. f_equal; [exact Htcs|].
      rewrite kset_kset by reflexivity. rewrite Hks by reflexivity. f_equal.
      rewrite Hcirc2. apply Hentry. cbn [spec_s ts_att]. rewrite (spec_att_other _ _ _ T D), E0. reflexivity.
    - destruct (abs_att (circuits s) (s_circ x)) as [|c|] eqn:Ea;
        [| |discriminate La].
      + (* not on a circuit: attach to the live circuit cid *)
        apply abs_att_none in Ea as Hn.
        assert (Hk : kmem tc_id cid (tcs (abs s)) = true).
        { destruct (N.eqb_spec cid 0); [congruence | exact La]. }
        unfold kmem in Hk. unfold abs in Hk; cbn [tcs] in Hk.
        rewrite (kfind_map fst tc_id (abs_c s) cid (circuits s) (abs_c_id s)) in Hk.
        destruct (kfind fst cid (circuits s)) as [q|] eqn:Fq; [|discriminate Hk].
        destruct (kfind_Some fst _ _ _ Fq) as [Eq Hq]. destruct q as [a coid]. cbn [fst] in Eq. subst a.
        assert (Hq2 : In (cid, coid) (circuits s2)) by (rewrite Hcirc2; exact Hq).
        assert (Hn1 : s_circ x1 = None) by congruence.
        destruct (attach_sim s2 id soid x1 cid coid W2 Hin2 G2 Hn1 Hq2) as [s3 [Dt [W3 [Hc3 [Hs3 [A3 [G3 [F1 F2]]]]]]]].
        exists s3. split; [exact Dt|]. split; [exact W3|].
        split; [apply (Complete_frame_s s2 s3 soid (set_circ x1 (Some coid)) C2 Hc3 Hs3 G3 Good1 F1 F2)|].
        rewrite A3, A2. cbn [tcs tss]. f_equal; [exact Htcs|].
        rewrite kset_kset by reflexivity. rewrite Hks by reflexivity. f_equal.
        rewrite Hcirc2. apply Hentry. cbn [spec_s ts_att]. rewrite (spec_att_other _ _ _ T D).
        destruct (N.eqb_spec cid 0); [congruence|]. rewrite (abs_att_live s cid coid W Hq).
        destruct Holdatt as [H|[H _]]; rewrite H; reflexivity.
      + (* already on circuit c = cid: nothing changes *)
        rewrite orb_false_r in La. apply N.eqb_eq in La. subst c.
        destruct (abs_att_on s _ _ W Ea) as [_ [coid0 [Hs0 _]]].
        unfold attach. rewrite G2, Hci, Hs0.
        exists s2. split; [reflexivity|]. split; [exact W2|]. split; [exact C2|]. apply Stay.
        destruct (N.eqb_spec cid 0); [congruence|].
        destruct Holdatt as [H|[H Hn]]; [rewrite H; reflexivity | congruence]. }
  assert (Fin : forall r, s_terminal st = false ->
            (exists s', r = Some s' /\ WF s' /\ Complete s' /\
                        abs s' = {| tcs := tcs (abs s); tss := kset ts_id (spec_s old id st cid host port kw) (tss (abs s)) |}) ->
            exists s', r = Some s' /\ WF s' /\ Complete s' /\
                       abs s' = {| tcs := tcs (abs s); tss := kset ts_id (spec_s old id st cid host port kw) (tss (abs s)) |} /\
                       (s_terminal st = true -> streams s' = kdel fst id (streams s))).
  { intros r T [s' [A [B [C D]]]]. exists s'. split; [exact A|]. split; [exact B|]. split; [exact C|]. split; [exact D|].
    intros H. congruence. }
  destruct st; cbn [s_terminal].
  - apply Fin; [reflexivity|]. apply RO; [reflexivity | discriminate].
  - apply Fin; [reflexivity|]. apply RO; [reflexivity | discriminate].
  - apply Fin; [reflexivity|]. apply RO; [reflexivity | discriminate].
  - apply Fin; [reflexivity|]. apply RO; [reflexivity | discriminate].
  - apply Fin; [reflexivity|]. apply RD; reflexivity.
  - destruct (RT eq_refl) as [s' [A [B [C [D E]]]]]. exists s'. auto.
  - destruct (RT eq_refl) as [s' [A [B [C [D E]]]]]. exists s'. auto.
  - apply Fin; [reflexivity|]. apply RO; [reflexivity | discriminate].
  - apply Fin; [reflexivity|]. apply RO; [reflexivity | discriminate].
Qed.

(* ================================================================ every observation satisfies the oracle *)
Definition cellc (s : mstate) (p : N * N) : ccell :=
  match get_c (snd p) s with Some c => c | None => new_ccell (snd p) (fst p) end.
Definition cells (s : mstate) (p : N * N) : scell :=
  match get_s (snd p) s with Some x => x | None => new_scell (snd p) (fst p) end.

Lemma live_circs_map s : WF s -> live_circs s = map (cellc s) (circuits s).
Proof.
  intros W. unfold live_circs. pose proof (wf_clive _ W) as H. induction (circuits s) as [|p t IH]; [reflexivity|].
  cbn [map concat]. destruct (H p (or_introl eq_refl)) as [c [G _]]. unfold cellc at 1. rewrite G. cbn [app].
  f_equal. apply IH. intros q Hq. apply H. now right.
Qed.
Lemma live_streams_map s : WF s -> live_streams s = map (cells s) (streams s).
Proof.
  intros W. unfold live_streams. pose proof (wf_slive _ W) as H. induction (streams s) as [|p t IH]; [reflexivity|].
  cbn [map concat]. destruct (H p (or_introl eq_refl)) as [c [G _]]. unfold cells at 1. rewrite G. cbn [app].
  f_equal. apply IH. intros q Hq. apply H. now right.
Qed.

Lemma cellc_facts s p : WF s -> In p (circuits s) ->
  get_c (snd p) s = Some (cellc s p) /\ c_id (cellc s p) = fst p /\ c_oid (cellc s p) = snd p /\ In (cellc s p) (cheap s).
Proof.
  intros W Hp. destruct (wf_clive _ W p Hp) as [c [G I]]. unfold cellc. rewrite G.
  destruct (get_c_oid _ _ _ G). auto.
Qed.
Lemma cells_facts s p : WF s -> In p (streams s) ->
  get_s (snd p) s = Some (cells s p) /\ s_id (cells s p) = fst p /\ s_oid (cells s p) = snd p.
Proof.
  intros W Hp. destruct (wf_slive _ W p Hp) as [c [G I]]. unfold cells. rewrite G.
  destruct (get_s_oid _ _ _ G). auto.
Qed.

Lemma cstatus_eqb_refl x : cstatus_eqb x x = true.
Proof. apply N.eqb_refl. Qed.
Lemma sstatus_eqb_refl x : sstatus_eqb x x = true.
Proof. apply N.eqb_refl. Qed.

Lemma occurrences_zero soid cs : (forall cell, In cell cs -> ~ In soid (snd cell)) -> occurrences soid cs = O.
Proof.
  unfold occurrences. induction cs as [|c t IH]; intros H; [reflexivity|]. cbn [map sum_nat fold_right].
  rewrite (countN_notin _ _ (H c (or_introl eq_refl))). cbn. apply IH. intros cell Hc. apply H. now right.
Qed.

Lemma occurrences_single soid coid cs cell :
  NoDup (map fst cs) -> kfind fst coid cs = Some cell ->
  (forall cell', In cell' cs -> fst cell' <> coid -> ~ In soid (snd cell')) ->
  occurrences soid cs = countN soid (snd cell).
Proof.
  unfold occurrences. induction cs as [|c t IH]; intros Hnd Hk H; [discriminate|].
  cbn [map] in Hnd. inversion Hnd as [|? ? Hn Hd]; subst.
  cbn [kfind] in Hk. cbn [map sum_nat fold_right].
  destruct (N.eqb_spec (fst c) coid) as [E|E].
  - injection Hk as <-.
    assert (Z : occurrences soid t = O).
    { apply occurrences_zero. intros cell' Hc. apply H; [now right|]. intros E2. apply Hn. rewrite E, <- E2. now apply in_map. }
    unfold occurrences, sum_nat in Z. rewrite Z. lia.
  - rewrite (countN_notin _ _ (H c (or_introl eq_refl) E)). cbn. apply IH; auto.
    intros cell' Hc. apply H. now right.
Qed.

Lemma heap_obs_find s c : WF s -> In c (cheap s) -> keep_cell s c = true ->
  kfind fst (c_oid c) (heap_obs s) = Some (c_oid c, c_streams c).
Proof.
  intros W Hc Hk. unfold heap_obs.
  rewrite (kfind_map_in c_oid fst (fun c => (c_oid c, c_streams c)) (c_oid c)) by reflexivity.
  assert (F : kfind c_oid (c_oid c) (filter (keep_cell s) (cheap s)) = Some c).
  { apply kfind_NoDup_In; [apply NoDup_map_filter; exact (wf_cheap _ W)|]. apply filter_In. auto. }
  now rewrite F.
Qed.

Lemma heap_obs_In s cell : In cell (heap_obs s) -> exists c, In c (cheap s) /\ cell = (c_oid c, c_streams c).
Proof.
  unfold heap_obs. intros H. apply in_map_iff in H as [c [E Hc]]. apply filter_In in Hc as [Hc _]. eauto.
Qed.

Lemma observe_ok s : WF s -> Complete s -> check_obs (abs s) (observe s) = true.
Proof.
  intros W [C1 C2]. unfold check_obs, observe. cbn [o_raised o_circs o_streams o_heap].
  rewrite (live_circs_map s W), (live_streams_map s W). unfold abs; cbn [tcs tss].
  rewrite !map_length, !map_map.
  set (gc := fun p => obs_circ (cellc s p)). set (gs := fun p => obs_stream (cells s p)).
  assert (Ids_c : map (fun p => co_id (obs_circ (cellc s p))) (circuits s) = map fst (circuits s)).
  { apply map_ext_in. intros p Hp. cbn. now destruct (cellc_facts s p W Hp) as [_ [I _]]. }
  assert (Oids_c : map (fun p => co_oid (obs_circ (cellc s p))) (circuits s) = map snd (circuits s)).
  { apply map_ext_in. intros p Hp. cbn. now destruct (cellc_facts s p W Hp) as [_ [_ [I _]]]. }
  assert (Ids_s : map (fun p => so_id (obs_stream (cells s p))) (streams s) = map fst (streams s)).
  { apply map_ext_in. intros p Hp. cbn. now destruct (cells_facts s p W Hp) as [_ [I _]]. }
  assert (Oids_s : map (fun p => so_oid (obs_stream (cells s p))) (streams s) = map snd (streams s)).
  { apply map_ext_in. intros p Hp. cbn. now destruct (cells_facts s p W Hp) as [_ [_ I]]. }
  assert (Find_c : forall p, In p (circuits s) -> kfind co_id (fst p) (map gc (circuits s)) = Some (gc p)).
  { intros p Hp. rewrite (kfind_map_in fst co_id gc).
    - now rewrite (kfind_NoDup_In fst _ _ (wf_cids _ W) Hp).
    - intros q Hq. unfold gc. cbn. now destruct (cellc_facts s q W Hq) as [_ [I _]]. }
  assert (Find_s : forall p, In p (streams s) -> kfind so_id (fst p) (map gs (streams s)) = Some (gs p)).
  { intros p Hp. rewrite (kfind_map_in fst so_id gs).
    - now rewrite (kfind_NoDup_In fst _ _ (wf_sids _ W) Hp).
    - intros q Hq. unfold gs. cbn. now destruct (cells_facts s q W Hq) as [_ [I _]]. }
  repeat (apply andb_true_iff; split).
  - reflexivity.
  - apply Nat.eqb_refl.
  - rewrite Ids_c. apply nodupN_NoDup. exact (wf_cids _ W).
  - apply forallb_forall. intros t Ht. apply in_map_iff in Ht as [p [<- Hp]].
    rewrite abs_c_id. change (map (fun x => obs_circ (cellc s x)) (circuits s)) with (map gc (circuits s)).
    rewrite (Find_c p Hp). unfold gc, circ_match, abs_c.
    destruct (cellc_facts s p W Hp) as [G _]. rewrite G. cbn [obs_circ co_status co_purpose co_bflags co_flags co_path tc_of
      tc_status tc_purpose tc_bflags tc_flags tc_path].
    destruct (c_state (cellc s p)) as [st|] eqn:Est; [|exfalso; now apply (C1 p _ Hp G)].
    rewrite cstatus_eqb_refl. unfold optN_eqb, listN_eqb, kws_eqb.
    now rewrite optN_eqb_refl, !listN_eqb_refl, pairs_eqb_refl.
  - apply Nat.eqb_refl.
  - rewrite Ids_s. apply nodupN_NoDup. exact (wf_sids _ W).
  - apply forallb_forall. intros t Ht. apply in_map_iff in Ht as [p [<- Hp]].
    rewrite abs_s_id. change (map (fun x => obs_stream (cells s x)) (streams s)) with (map gs (streams s)).
    rewrite (Find_s p Hp). unfold gs, stream_match, abs_s.
    destruct (cells_facts s p W Hp) as [G _]. rewrite G.
    destruct (C2 p _ Hp G) as [G1 [G2 G3]].
    cbn [obs_stream so_status so_host so_port so_addr so_src so_sport ts_of ts_status ts_host ts_port ts_addr ts_src].
    destruct (s_state (cells s p)) as [st|]; [|congruence].
    destruct (s_host (cells s p)) as [h|]; [|congruence].
    rewrite sstatus_eqb_refl, N.eqb_refl. unfold optN_eqb. rewrite !optN_eqb_refl. unfold abs_src.
    destruct (s_src (cells s p)) as [a|]; cbn; [now rewrite !N.eqb_refl | now rewrite (G3 eq_refl)].
  - apply nodupN_NoDup. unfold heap_obs. rewrite map_map. cbn [fst]. apply NoDup_map_filter. exact (wf_cheap _ W).
  - rewrite Oids_c. apply nodupN_NoDup. exact (wf_coids _ W).
  - rewrite Oids_s. apply nodupN_NoDup. exact (wf_soids _ W).
  - apply forallb_forall. intros c Hc. apply in_map_iff in Hc as [p [<- Hp]]. apply memN_In.
    destruct (cellc_facts s p W Hp) as [_ [_ [Ho Hin]]]. cbn [obs_circ co_oid].
    assert (K : keep_cell s (cellc s p) = true).
    { unfold keep_cell. apply orb_true_iff. left. apply memN_In. rewrite Ho. now apply in_map. }
    pose proof (heap_obs_find s _ W Hin K) as F. apply kfind_Some in F as [_ F].
    apply in_map_iff. exists (c_oid (cellc s p), c_streams (cellc s p)). split; [reflexivity | exact F].
  - apply forallb_forall. intros cell Hcell. apply forallb_forall. intros soid Hs. apply memN_In.
    destruct (heap_obs_In s cell Hcell) as [c [Hc ->]]. cbn [snd] in Hs.
    destruct (wf_listed _ W c soid Hc Hs) as [p [x [A [B _]]]]. rewrite Oids_s, <- B. now apply in_map.
  - apply forallb_forall. intros t Ht. apply in_map_iff in Ht as [p [<- Hp]].
    rewrite abs_s_id. change (map (fun x => obs_stream (cells s x)) (streams s)) with (map gs (streams s)).
    rewrite (Find_s p Hp). unfold attach_ok. cbn [o_heap o_circs].
    change (map (fun x => obs_circ (cellc s x)) (circuits s)) with (map gc (circuits s)).
    destruct (cells_facts s p W Hp) as [G [_ Ho]]. unfold abs_s. rewrite G. cbn [ts_of ts_att].
    assert (Esoid : so_oid (gs p) = snd p) by (unfold gs; cbn [obs_stream so_oid]; exact Ho).
    assert (Ecirc : so_circ (gs p) = s_circ (cells s p)) by reflexivity.
    rewrite !Esoid, !Ecirc.
    (* only the cell the stream points to lists it *)
    assert (Only : forall cell', In cell' (heap_obs s) -> Some (fst cell') <> s_circ (cells s p) -> ~ In (snd p) (snd cell')).
    { intros cell' Hc' Hne. destruct (heap_obs_In s cell' Hc') as [c [Hc ->]]. cbn [fst snd] in *.
      now apply (not_listed_elsewhere s (snd p) (cells s p) (s_circ (cells s p)) c W G eq_refl Hc). }
    destruct (s_circ (cells s p)) as [coid|] eqn:Ec; cbn [abs_att].
    + destruct (wf_points _ W p _ coid Hp G Ec) as [c [Gc Cn]].
      destruct (get_c_oid _ _ _ Gc) as [Hco Hcin].
      assert (K : keep_cell s c = true).
      { unfold keep_cell. apply orb_true_iff. right. destruct (c_streams c); [discriminate Cn | reflexivity]. }
      pose proof (heap_obs_find s c W Hcin K) as F. rewrite Hco in F.
      assert (Tot : occurrences (snd p) (heap_obs s) = 1%nat).
      { rewrite (occurrences_single (snd p) coid (heap_obs s) (coid, c_streams c)); [exact Cn | | exact F |].
        - unfold heap_obs. rewrite map_map. cbn [fst]. apply NoDup_map_filter. exact (wf_cheap _ W).
        - intros cell' Hc' Hne. apply (Only cell' Hc'). congruence. }
      assert (CC : cell_count coid (snd p) (heap_obs s) = 1%nat) by (unfold cell_count; rewrite F; exact Cn).
      destruct (kfind snd coid (circuits s)) as [q|] eqn:Fq.
      * destruct (kfind_Some snd _ _ _ Fq) as [Eq Hq]. cbn [fst]. rewrite (Find_c q Hq).
        assert (Eoid : co_oid (gc q) = coid).
        { unfold gc. cbn [obs_circ co_oid]. destruct (cellc_facts s q W Hq) as [_ [_ [Hoq _]]]. congruence. }
        rewrite Eoid. unfold optN_eqb. rewrite optN_eqb_refl. rewrite CC, Tot. reflexivity.
      * change (map co_oid (map gc (circuits s))) with (map co_oid (map (fun x => obs_circ (cellc s x)) (circuits s))).
        rewrite map_map, Oids_c.
        assert (M : memN coid (map snd (circuits s)) = false) by (apply memN_false; now apply kfind_None).
        rewrite M, CC, Tot. reflexivity.
    + unfold optN_eqb. cbn [option_eqb]. rewrite occurrences_zero; [reflexivity|].
      intros cell' Hc'. apply (Only cell' Hc'). discriminate.
Qed.

(* ================================================================ histories *)
Lemma step_ok s e : WF s -> Complete s -> ev_legal (abs s) e = true ->
  exists s', step s e = Some s' /\ WF s' /\ Complete s' /\ abs s' = tor_step (abs s) e.
Proof.
  intros W C L. destruct e as [id st path kw | id st cid host port kw]; cbn [step].
  - now apply circ_event_ok.
  - destruct (stream_event_ok s id st cid host port kw W C L) as [s' [A [B [D [E _]]]]]. exists s'. auto.
Qed.

Lemma steps_ok evs : forall s, WF s -> Complete s -> legal_from (abs s) evs = true ->
  exists s', steps s evs = Some s' /\ WF s' /\ Complete s' /\ abs s' = fold_left tor_step evs (abs s).
Proof.
  induction evs as [|e t IH]; intros s W C L; cbn [steps fold_left].
  - exists s. auto.
  - cbn [legal_from] in L. apply andb_true_iff in L as [L1 L2].
    destruct (step_ok s e W C L1) as [s1 [E [W1 [C1 A1]]]]. rewrite E.
    rewrite <- A1 in L2 |- *. now apply IH.
Qed.

Lemma run_from_ok evs : forall s, WF s -> Complete s -> legal_from (abs s) evs = true ->
  exists tr, run_from s evs = Some tr /\ oracle_from (abs s) evs tr = true.
Proof.
  induction evs as [|e t IH]; intros s W C L; cbn [run_from].
  - exists []. auto.
  - cbn [legal_from] in L. apply andb_true_iff in L as [L1 L2].
    destruct (step_ok s e W C L1) as [s1 [E [W1 [C1 A1]]]]. rewrite E.
    rewrite <- A1 in L2. destruct (IH s1 W1 C1 L2) as [tr [R O]]. rewrite R.
    exists (observe s1 :: tr). split; [reflexivity|]. cbn [oracle_from]. rewrite <- A1.
    now rewrite (observe_ok s1 W1 C1), O.
Qed.

Lemma legal_from_app a : forall tv b, legal_from tv (a ++ b) = legal_from tv a && legal_from (fold_left tor_step a tv) b.
Proof.
  induction a as [|e t IH]; intros tv b; cbn [app legal_from fold_left]; [reflexivity|].
  now rewrite IH, andb_assoc.
Qed.

(* C07, all clauses at once: on every history Tor can emit (any snapshot, any events, any relay table) the
   model processes every event without an exception and every observation satisfies the Spec oracle *)
Lemma run_satisfies_oracle rts snap evs : legal snap evs = true ->
  exists tr, run rts snap evs = Some tr /\ oracle snap evs tr = true.
Proof.
  unfold legal. intros L. apply andb_true_iff in L as [_ L]. rewrite legal_from_app in L.
  apply andb_true_iff in L as [L1 L2]. unfold run, oracle, tor_view.
  destruct (steps_ok snap (init rts) (WF_init rts) (Complete_init rts) L1) as [s [E [W [C A]]]].
  rewrite E. rewrite abs_init in A. rewrite <- A in L2 |- *.
  destruct (run_from_ok evs s W C L2) as [tr [R O]]. rewrite R.
  exists (observe s :: tr). split; [reflexivity|]. now rewrite (observe_ok s W C), O.
Qed.

(* the state reached by a legal history and its relation to Tor's view *)
Definition reach (rts : list (N * N)) (evs : list event) (s : mstate) : Prop := steps (init rts) evs = Some s.

Lemma reach_refines rts evs : legal_from tv0 evs = true ->
  exists s, reach rts evs s /\ WF s /\ Complete s /\ abs s = tor_view evs.
Proof.
  intros L. destruct (steps_ok evs (init rts) (WF_init rts) (Complete_init rts) L) as [s [E [W [C A]]]].
  exists s. unfold reach, tor_view. rewrite abs_init in A. auto.
Qed.

(* ================================================================ the clauses as statements about states *)
(* both directions of the attachment bookkeeping agree, each stream once (any Circuit object, live or not) *)
Lemma attachment_bidirectional s : WF s ->
  forall coid c, get_c coid s = Some c ->
    NoDup (c_streams c) /\
    (forall soid, In soid (c_streams c) <->
                  exists id x, In (id, soid) (streams s) /\ get_s soid s = Some x /\ s_circ x = Some coid).
Proof.
  intros W coid c Gc. destruct (get_c_oid _ _ _ Gc) as [Hco Hcin].
  assert (Fwd : forall soid, In soid (c_streams c) ->
            exists id x, In (id, soid) (streams s) /\ get_s soid s = Some x /\ s_circ x = Some coid).
  { intros soid Hs. destruct (wf_listed _ W c soid Hcin Hs) as [[id o] [x [A [B [C D]]]]]. cbn [snd] in B. subst o.
    exists id, x. rewrite Hco in D. auto. }
  assert (Bwd : forall soid id x, In (id, soid) (streams s) -> get_s soid s = Some x -> s_circ x = Some coid ->
            countN soid (c_streams c) = 1%nat).
  { intros soid id x Hp Gx Hc. destruct (wf_points _ W (id, soid) x coid Hp Gx Hc) as [c2 [G2 Cn]]. cbn [snd] in Cn. congruence. }
  split.
  - apply NoDup_of_count. intros soid Hs. destruct (Fwd soid Hs) as [id [x [A [B C]]]]. eapply Bwd; eauto.
  - intros soid. split; [apply Fwd|]. intros [id [x [A [B C]]]]. apply countN_pos_In. rewrite (Bwd soid id x A B C). discriminate.
Qed.

(* a stream points to a Circuit object or to none; the object exists even when its circuit is closed *)
Lemma stream_points_to_cell s : WF s ->
  forall id soid x coid, In (id, soid) (streams s) -> get_s soid s = Some x -> s_circ x = Some coid ->
  exists c, get_c coid s = Some c /\ In soid (c_streams c).
Proof.
  intros W id soid x coid Hp Gx Hc. destruct (wf_points _ W (id, soid) x coid Hp Gx Hc) as [c [Gc Cn]].
  exists c. split; [exact Gc|]. apply countN_pos_In. cbn [snd] in Cn. rewrite Cn. discriminate.
Qed.

(* CLOSED / FAILED of a stream: its id leaves TorState.streams and no Circuit object, live or closed earlier,
   lists its Stream object any more *)
Lemma stream_terminal_removes s id soid st cid host port kw :
  WF s -> Complete s -> ev_legal (abs s) (EStream id st cid host port kw) = true -> s_terminal st = true ->
  In (id, soid) (streams s) ->
  exists s', step s (EStream id st cid host port kw) = Some s' /\
             ~ In id (map fst (streams s')) /\ ~ In soid (map snd (streams s')) /\
             (forall c, In c (cheap s') -> ~ In soid (c_streams c)).
Proof.
  intros W C L T Hin. cbn [step].
  destruct (stream_event_ok s id st cid host port kw W C L) as [s' [E [W' [_ [_ Hstr]]]]].
  exists s'. split; [exact E|]. rewrite (Hstr T).
  assert (N1 : ~ In id (map fst (kdel fst id (streams s)))).
  { rewrite map_key_kdel. apply NoDup_remove1_notin. exact (wf_sids _ W). }
  assert (N2 : ~ In soid (map snd (kdel fst id (streams s)))).
  { apply kdel_fst_snd_notin; [exact (wf_sids _ W) | exact (wf_soids _ W) | exact Hin]. }
  split; [exact N1|]. split; [exact N2|].
  intros c Hc Hs. destruct (wf_listed _ W' c soid Hc Hs) as [p [x [A [B _]]]].
  rewrite (Hstr T) in A. apply N2. rewrite <- B. now apply in_map.
Qed.

(* CLOSED / FAILED of a circuit: its id leaves TorState.circuits *)
Lemma circuit_terminal_removes s id st path kw :
  WF s -> Complete s -> ev_legal (abs s) (ECirc id st path kw) = true -> c_terminal st = true ->
  exists s', step s (ECirc id st path kw) = Some s' /\ ~ In id (map fst (circuits s')).
Proof.
  intros W C L T. cbn [step].
  destruct (circ_event_ok s id st path kw W C L) as [s' [E [W' [_ A]]]].
  exists s'. split; [exact E|].
  rewrite <- (map_abs_c_ids s' (circuits s')). change (map (abs_c s') (circuits s')) with (tcs (abs s')).
  rewrite A, tor_step_circ, T. cbn [tcs]. rewrite map_key_kdel. apply NoDup_remove1_notin.
  unfold abs; cbn [tcs]. rewrite map_abs_c_ids. exact (wf_cids _ W).
Qed.

Lemma reach_inv rts evs s : legal_from tv0 evs = true -> steps (init rts) evs = Some s ->
  WF s /\ Complete s /\ abs s = tor_view evs.
Proof.
  intros L E. destruct (reach_refines rts evs L) as [s' [R H]]. unfold reach in R. rewrite E in R. now injection R as <-.
Qed.

Lemma thm_state_is_tor_view rts evs : legal_from tv0 evs = true ->
  exists s, steps (init rts) evs = Some s /\ abs s = tor_view evs.
Proof. intros L. destruct (reach_refines rts evs L) as [s [R [_ [_ A]]]]. exists s. auto. Qed.

Lemma thm_bidirectional rts evs s : legal_from tv0 evs = true -> steps (init rts) evs = Some s ->
  forall coid c, get_c coid s = Some c ->
    NoDup (c_streams c) /\
    (forall soid, In soid (c_streams c) <->
                  exists id x, In (id, soid) (streams s) /\ get_s soid s = Some x /\ s_circ x = Some coid).
Proof. intros L E. destruct (reach_inv rts evs s L E) as [W _]. now apply attachment_bidirectional. Qed.

Lemma thm_stream_terminal rts evs s id soid st cid host port kw :
  legal_from tv0 (evs ++ [EStream id st cid host port kw]) = true -> s_terminal st = true ->
  steps (init rts) evs = Some s -> In (id, soid) (streams s) ->
  exists s', step s (EStream id st cid host port kw) = Some s' /\
             ~ In id (map fst (streams s')) /\ ~ In soid (map snd (streams s')) /\
             (forall c, In c (cheap s') -> ~ In soid (c_streams c)).
Proof.
  intros L T E Hin. rewrite legal_from_app in L. apply andb_true_iff in L as [L1 L2].
  destruct (reach_inv rts evs s L1 E) as [W [C A]]. cbn [legal_from] in L2. rewrite andb_true_r in L2.
  unfold tor_view in A. rewrite <- A in L2. now apply stream_terminal_removes.
Qed.

Lemma thm_circuit_terminal rts evs s id st path kw :
  legal_from tv0 (evs ++ [ECirc id st path kw]) = true -> c_terminal st = true ->
  steps (init rts) evs = Some s ->
  exists s', step s (ECirc id st path kw) = Some s' /\ ~ In id (map fst (circuits s')).
Proof.
  intros L T E. rewrite legal_from_app in L. apply andb_true_iff in L as [L1 L2].
  destruct (reach_inv rts evs s L1 E) as [W [C A]]. cbn [legal_from] in L2. rewrite andb_true_r in L2.
  unfold tor_view in A. rewrite <- A in L2. now apply circuit_terminal_removes.
Qed.
