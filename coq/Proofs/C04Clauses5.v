(* C04 clauses, part 5: under SAFECOOKIE, in every history, the only AUTHENTICATE argument
   the client ever writes is hmac(client key, cookie ++ client nonce ++ server nonce):
   never the raw cookie, whatever the server answers. *)
From Coq Require Import List Bool Ascii Arith NArith Lia String.
From TxVerif Require Import Lib.Bytes Lib.Hex Spec.C04 Spec.C04Oracle Gen.AuthConsts Model.Auth
  Proofs.C04Unescape Proofs.C04Parse Proofs.C04Auth Proofs.C04Sim Proofs.C04Sim2 Proofs.C04Sim4
  Proofs.C04Clauses3.
Import ListNotations.
Open Scope N_scope.

Local Opaque bs hex hex_lower hex_upper parse_line.

Section Safe.
  Variable hmac : bytes -> bytes -> bytes.
  Variable e : env.
  Variable ck : bytes.
  Hypothesis Hwf : wf e.
  Hypothesis Hexp : expected e = Some MSafe.
  Hypothesis Hgc : good_cookie e = Some ck.

  Definition safe_writes (evs : list ev) : Prop :=
    forall b a, In (EWrote b) evs -> parse_line b = CAuth (Some a) ->
    exists sn, a = hmac CLIENT_KEY (ck ++ e_nonce e ++ sn).

  Definition inv (s : st) : Prop :=
    match ph s with PhPw => False | PhChal c => c = ck | _ => True end.

  Lemma sw_nil : safe_writes [].
  Proof. intros b a []. Qed.
  Lemma sw_ready o : safe_writes [EReady o].
  Proof. intros b a [H|[]]. discriminate. Qed.
  Lemma sw_line x : (forall a, parse_line (x ++ [CR; LF]) <> CAuth (Some a)) -> safe_writes [line x].
  Proof. intros H b a [[= <-]|[]] Hp. exfalso. eapply H; eauto. Qed.

  Lemma sw_start_boot k : safe_writes (snd (start_boot k)).
  Proof.
    Transparent bs parse_line.
    destruct k as [|[|[|[|[|k]]]]]; cbn [start_boot nth_error bootstrap_seq snd];
      try apply sw_ready; apply sw_line; intros a; vm_compute; discriminate.
    Opaque bs parse_line.
  Qed.

  Lemma inv_start_boot k l : inv {| ph := fst (start_boot k); lost := l |}.
  Proof. destruct k as [|[|[|[|[|k]]]]]; exact I. Qed.

  Lemma chal_phase c ch :
    fst (do_challenge hmac e c ch) = PhAuth \/ fst (do_challenge hmac e c ch) = PhIdle.
  Proof.
    unfold do_challenge.
    destruct (ch_hash ch); [|auto]. destruct (b16decode _); [|auto].
    destruct (ch_nonce ch); [|auto]. destruct (b16decode _); [|auto].
    match goal with |- context[if ?b then _ else _] => destruct b end; auto.
  Qed.

  Lemma step_safe s o s' evs : inv s ->
    Auth.step hmac e s o = Some (s', evs) -> inv s' /\ safe_writes evs.
  Proof.
    destruct s as [p l]. unfold inv at 1. cbn [ph]. intros Hi Hs.
    destruct o as [d|c| |]; cbn [Auth.step ph lost] in Hs.
    - destruct l; [discriminate|]. cbn [orb] in Hs. destruct (in_flight p) eqn:Ef; [|discriminate].
      cbn [negb] in Hs.
      destruct p as [|c| | |k|]; try discriminate; cbn [Auth.on_reply] in Hs.
      + destruct d; try (injection Hs as <- <-; split; [exact I|apply sw_ready]).
        destruct (pi_auth (e_pi e)) eqn:Hauth.
        * rewrite (do_authenticate_spec e Hwf Hauth) in Hs. unfold authenticate_spec in Hs.
          rewrite Hexp, Hgc in Hs. injection Hs as <- <-. split; [reflexivity|].
          apply sw_line. intros a. unfold chal_line. rewrite pl_chal. discriminate.
        * unfold do_authenticate in Hs. rewrite Hauth in Hs. injection Hs as <- <-.
          split; [exact I|apply sw_ready].
      + subst c. destruct d as [| |ch|k']; try (injection Hs as <- <-; split; [exact I|apply sw_ready]).
        assert (Hst : Auth.step hmac e {| ph := PhChal ck; lost := false |} (OOk (DChal ch))
                      = Some (s', evs)).
        { cbn [Auth.step ph lost in_flight orb negb Auth.on_reply].
          destruct (do_challenge hmac e ck ch). injection Hs as <- <-. reflexivity. }
        split.
        * destruct (chal_phase ck ch) as [H|H]; destruct (do_challenge hmac e ck ch) as [p' evs'];
            cbn [fst] in H; subst p'; injection Hs as <- <-; exact I.
        * intros b a Hin Hp.
          destruct (proof_after_check hmac e ck _ _ _ Hwf Hst b Hin)
            as (ch' & ht & nt & sh & sn & _ & _ & _ & _ & _ & _ & Hevs).
          rewrite Hevs in Hin. destruct Hin as [[= <-]|[]].
          rewrite pl_auth_upper in Hp. injection Hp as <-. eauto.
      + pose proof (sw_start_boot 0) as H. pose proof (inv_start_boot 0 false) as H2.
        destruct (start_boot 0). injection Hs as <- <-. auto.
      + destruct (nth_error bootstrap_seq k) as [[[c key] t]|]; [|discriminate].
        pose proof (sw_start_boot (S k)) as H. pose proof (inv_start_boot (S k) false) as H2.
        destruct (start_boot (S k)) as [p' evs'].
        destruct key; [injection Hs as <- <-; auto|].
        destruct d; try (injection Hs as <- <-; split; [exact I|apply sw_ready]).
        match type of Hs with context[if ?b then _ else _] => destruct b end;
          injection Hs as <- <-; auto. split; [exact I|apply sw_ready].
    - destruct l; [discriminate|]. cbn [orb] in Hs. destruct (in_flight p) eqn:Ef; [|discriminate].
      cbn [negb orb] in Hs. destruct (negb _); [discriminate|].
      destruct p as [|c'| | |k|]; try discriminate; cbn [Auth.on_reply] in Hs;
        try (injection Hs as <- <-; split; [exact I|apply sw_ready]).
      pose proof (sw_start_boot (S k)) as H. pose proof (inv_start_boot (S k) false) as H2.
      destruct (start_boot (S k)) as [p' evs'].
      destruct (nth_error bootstrap_seq k) as [[[c' key] [|]]|]; try discriminate;
        injection Hs as <- <-; auto. split; [exact I|apply sw_ready].
    - destruct l; [discriminate|]. destruct (in_flight p); injection Hs as <- <-.
      + split; [exact I|apply sw_ready].
      + split; [exact Hi|apply sw_nil].
    - destruct p; try discriminate. tauto.
  Qed.

  Lemma run_ops_safe : forall ops s tr, inv s ->
    run_ops hmac e s ops = Some tr -> Forall safe_writes tr.
  Proof.
    induction ops as [|o ops IH]; intros s tr Hi; cbn [run_ops].
    - intros [= <-]. constructor.
    - destruct (Auth.step hmac e s o) as [[s' evs]|] eqn:Es; [|discriminate].
      destruct (run_ops hmac e s' ops) as [tr'|] eqn:Er; [|discriminate].
      cbn [omap]. intros [= <-].
      destruct (step_safe s o s' evs Hi Es) as [Hi' Hw]. constructor; eauto.
  Qed.

  Theorem safecookie_only_proof ops tr : run hmac e ops = Some tr -> Forall safe_writes tr.
  Proof.
    unfold run.
    destruct (run_ops hmac e {| ph := PhProto; lost := false |} ops) as [tr'|] eqn:Er; [|discriminate].
    cbn [omap]. intros [= <-]. constructor.
    - apply sw_line. intros a. Transparent bs parse_line. vm_compute. discriminate.
    - eapply run_ops_safe; eauto. exact I.
  Qed.
End Safe.
