(* L3: the protocol model refines the item-level reference machine of Spec/CtlOracle.v.
   Part 1: the queue / listener operations (everything except receiving bytes). *)
From Coq Require Import List Bool Ascii Arith NArith ZArith Lia.
From TxVerif Require Import Lib.Bytes Spec.Ctl Spec.CtlOracle Model.CtlTypes Gen.CtlFsmTable Model.Framing Model.CtlProto
  Proofs.CtlParse.
Import ListNotations.
Open Scope N_scope.

(* the queue part of the protocol state, as the reference machine sees it *)
Record qrel (p : pstate) (a : astate) : Prop := {
  r_inflight : p_inflight p = a_inflight a;
  r_queue : p_queue p = a_queue a;
  r_lost : p_lost p = a_lost a;
  r_waiters : p_waiters p = a_waiters a;
  r_idle : p_inflight p = None -> p_queue p = [];
  r_lostq : p_lost p = true -> p_inflight p = None
}.
Definition erel (p : pstate) (a : astate) : Prop := p_events p = a_listeners a.

Definition lines_same (p p' : pstate) : Prop :=
  p_fsm p' = p_fsm p /\ p_code p' = p_code p /\ p_resp p' = p_resp p /\ p_buf p' = p_buf p /\ p_disc p' = p_disc p.
Definition todo_same (a a' : astate) : Prop :=
  a_todo a' = a_todo a /\ a_off a' = a_off a /\ a_cum a' = a_cum a /\ a_bad a' = a_bad a.

(* what every queue/listener call preserves *)
Definition frame (p : pstate) (a : astate) (p' : pstate) (a' : astate) : Prop :=
  qrel p' a' /\ lines_same p p' /\ todo_same a a'.

(* a model call and a reference call agree: unless an exception escapes the model call (which ends
   the run), same observations, and [k] afterwards *)
Definition agree (r : res) (ra : astate * list obs) (k : pstate -> astate -> Prop) : Prop :=
  let '(p', o, ok) := r in let '(a', o') := ra in ok = true -> (o = o' /\ k p' a').

Lemma agree_raise p k ra K : agree (raise p k) ra K.
Proof. unfold agree, raise. destruct ra. intros Hx. discriminate Hx. Qed.

Lemma lines_same_refl p : lines_same p p. Proof. unfold lines_same; auto. Qed.
Lemma todo_same_refl a : todo_same a a. Proof. unfold todo_same; auto. Qed.
Lemma lines_same_trans p1 p2 p3 : lines_same p1 p2 -> lines_same p2 p3 -> lines_same p1 p3.
Proof. unfold lines_same. intuition congruence. Qed.
Lemma todo_same_trans a1 a2 a3 : todo_same a1 a2 -> todo_same a2 a3 -> todo_same a1 a3.
Proof. unfold todo_same. intuition congruence. Qed.

(* sequencing *)
Definition aseq (ra : astate * list obs) (g : astate -> astate * list obs) : astate * list obs :=
  let '(a1, o1) := ra in let '(a2, o2) := g a1 in (a2, o1 ++ o2).

Lemma agree_seq r f ra g (k k' : pstate -> astate -> Prop) :
  agree r ra k -> (forall p1 a1, k p1 a1 -> agree (f p1) (g a1) k') ->
  agree (andthen r f) (aseq ra g) k'.
Proof.
  unfold agree, andthen, aseq. destruct r as [[p1 o1] ok1]. destruct ra as [a1 o1'].
  intros A H. destruct ok1; [|destruct (g a1); intros Hx; discriminate Hx].
  destruct (A eq_refl) as (-> & K). specialize (H p1 a1 K).
  destruct (f p1) as [[p2 o2] ok2]. destruct (g a1) as [a2 o2']. intros Hok.
  destruct (H Hok) as (-> & K'). auto.
Qed.

(* ---- submitting a leaf command: events are not touched on either side ---- *)
Definition frame_e (p : pstate) (a : astate) (p' : pstate) (a' : astate) : Prop :=
  frame p a p' a' /\ p_events p' = p_events p /\ a_listeners a' = a_listeners a.

Lemma submit0_agree p a c : qrel p a -> cscript c = [] ->
  agree (submit0 p c) (a_submit_leaf a c) (frame_e p a).
Proof.
  intros R Hs. destruct R as [Ri Rq Rl Rw Rid Rlq].
  unfold submit0, submit, a_submit_leaf. rewrite <- Rl.
  destruct (p_lost p) eqn:L.
  - rewrite (Rlq eq_refl). rewrite (Rid (Rlq eq_refl)).
    unfold resolve, no_script. rewrite Hs. unfold andthen, emit, ret, agree, frame_e, frame. cbn. intros _.
    repeat split; auto using lines_same_refl, todo_same_refl; try congruence.
  - unfold maybe_issue. cbn [p_inflight upd_q p_queue p_lost]. rewrite <- Ri.
    destruct (p_inflight p) eqn:I.
    + unfold ret, agree, frame_e, frame. rewrite <- Rq. intros _.
      repeat split; cbn; auto using lines_same_refl, todo_same_refl; try congruence; try discriminate.
    + rewrite (Rid eq_refl). cbn [app]. rewrite L. unfold emit, agree, frame_e, frame. intros _.
      repeat split; cbn; auto using lines_same_refl, todo_same_refl; try congruence; try discriminate.
      rewrite <- Rq. now rewrite (Rid eq_refl).
Qed.

(* ---- listener tables ---- *)
Definition evtab := list (bytes * list N).

Lemma find_ev_has (e : evtab) n : has_name e n = match find_ev e n with Some _ => true | None => false end.
Proof.
  unfold has_name, find_ev. induction e as [|[k l] e IH]; [reflexivity|]. cbn [existsb find fst].
  destruct (beqb k n); [reflexivity|]. exact IH.
Qed.

Lemma find_ev_lookup (e : evtab) n l : find_ev e n = Some l -> lookup e n = l.
Proof.
  unfold find_ev, lookup. destruct (find (fun p => beqb (fst p) n) e) as [[k l']|]; [|discriminate].
  now intros [= ->].
Qed.

Lemma set_ev_fresh (e : evtab) n x y : find_ev e n = None -> set_ev (e ++ [(n, x)]) n y = e ++ [(n, y)].
Proof.
  unfold find_ev, set_ev. induction e as [|[k l] e IH]; cbn [app find map fst snd]; intros H.
  - now rewrite beqb_refl.
  - destruct (beqb k n) eqn:E; [discriminate|]. now rewrite IH.
Qed.

Lemma set_ev_setl (e : evtab) n v : set_ev e n v = setl e n v.
Proof.
  unfold set_ev, setl. apply map_ext. intros [k l]. cbn [fst]. destruct (beqb k n) eqn:E; [|reflexivity].
  apply beqb_eq in E. now subst.
Qed.

Lemma remove_first_rm1 lid l : remove_first lid l =
  if existsb (N.eqb lid) l then Some (rm1 lid l) else None.
Proof.
  induction l as [|y l IH]; [reflexivity|]. cbn [remove_first existsb rm1].
  destruct (lid =? y); [reflexivity|]. cbn [orb]. rewrite IH. now destruct (existsb (N.eqb lid) l).
Qed.

(* ---- add / remove a listener ---- *)
Definition frame_ev (p : pstate) (a : astate) (p' : pstate) (a' : astate) : Prop :=
  frame p a p' a' /\ erel p' a'.

Lemma add_agree p a n lid c : qrel p a -> erel p a ->
  agree (add_listener submit0 p n lid c) (a_add a n lid c) (frame_ev p a).
Proof.
  intros R E. unfold add_listener, a_add. unfold erel in E. rewrite <- E. rewrite find_ev_has.
  destruct (find_ev (p_events p) n) as [l|] eqn:F.
  - rewrite (find_ev_lookup _ _ _ F). unfold ret, agree, frame_ev, frame, erel. cbn. intros _.
    rewrite set_ev_setl. destruct R. repeat split; auto using lines_same_refl, todo_same_refl.
  - set (e := p_events p ++ [(n, [])]). set (l := p_events p ++ [(n, [lid])]).
    assert (Hc : setevents_cmd c e = setev c l).
    { unfold setevents_cmd, setev, leaf, leafc, names_joined, e, l. rewrite !map_app. reflexivity. }
    assert (R' : qrel (upd_ev p e) (al a l)) by (destruct R; constructor; assumption).
    pose proof (submit0_agree (upd_ev p e) (al a l) (setevents_cmd c e) R' eq_refl) as S.
    rewrite Hc in S at 2.
    destruct (submit0 (upd_ev p e) (setevents_cmd c e)) as [[p1 o1] ok1].
    destruct (a_submit_leaf (al a l) (setev c l)) as [a1 o1'].
    unfold andthen, ret, agree. destruct ok1; [|cbn; intros Hx; discriminate Hx]. cbn. intros _.
    destruct (S eq_refl) as (-> & (Fr & Ep & Ea)). cbn [upd_ev p_events al a_listeners] in Ep, Ea.
    rewrite app_nil_r. split; [reflexivity|].
    unfold frame_ev, erel. cbn [upd_ev p_events]. rewrite Ep, Ea. unfold e. rewrite set_ev_fresh by exact F.
    split; [|reflexivity].
    destruct Fr as (Q & L & T). split; [|split].
    + destruct Q; constructor; assumption.
    + exact L.
    + exact T.
Qed.

Lemma rem_agree p a n lid c : qrel p a -> erel p a ->
  agree (rem_listener submit0 p n lid c) (a_rem a n lid c) (frame_ev p a).
Proof.
  intros R E. unfold rem_listener, a_rem. unfold erel in E. rewrite <- E.
  destruct (find_ev (p_events p) n) as [l|] eqn:F; [|apply agree_raise].
  rewrite (find_ev_lookup _ _ _ F). rewrite remove_first_rm1.
  destruct (existsb (N.eqb lid) l); [|apply agree_raise]. cbn [negb].
  destruct (rm1 lid l) as [|x l'] eqn:Erm.
  - set (e := del_ev (p_events p) n).
    assert (R' : qrel (upd_ev p e) (al a e)) by (destruct R; constructor; assumption).
    pose proof (submit0_agree (upd_ev p e) (al a e) (setevents_cmd c e) R' eq_refl) as S.
    change (filter (fun p0 : bytes * list N => negb (beqb (fst p0) n)) (p_events p)) with e.
    change (setev c e) with (setevents_cmd c e).
    destruct (submit0 (upd_ev p e) (setevents_cmd c e)) as [[p1 o1] ok1].
    destruct (a_submit_leaf (al a e) (setevents_cmd c e)) as [a1 o1'].
    unfold agree in *. intros Hok. destruct (S Hok) as (-> & (Fr & Ep & Ea)).
    cbn [upd_ev p_events al a_listeners] in Ep, Ea. split; [reflexivity|].
    unfold frame_ev, erel. rewrite Ep, Ea. split; [|reflexivity].
    destruct Fr as (Q & L & T). split; [|split]; [destruct Q; constructor; assumption|exact L|exact T].
  - unfold ret, agree, frame_ev, frame, erel. cbn. intros _. rewrite set_ev_setl.
    destruct R. repeat split; auto using lines_same_refl, todo_same_refl.
Qed.

(* ---- scripts ---- *)
Lemma frame_ev_trans p a p1 a1 p2 a2 : frame_ev p a p1 a1 -> frame_ev p1 a1 p2 a2 -> frame_ev p a p2 a2.
Proof.
  intros ((Q1 & L1 & T1) & E1) ((Q2 & L2 & T2) & E2). split; [|exact E2].
  split; [exact Q2|]. split; [eapply lines_same_trans; eassumption|eapply todo_same_trans; eassumption].
Qed.

Lemma sop_agree p a o : qrel p a -> erel p a -> agree (run_sop0 p o) (a_sop a o) (frame_ev p a).
Proof.
  intros R E. destruct o as [c|n l c|n l c]; cbn [run_sop0 a_sop].
  - pose proof (submit0_agree p a (leaf c) R eq_refl) as S. change (leafc c) with (leaf c).
    destruct (submit0 p (leaf c)) as [[p1 o1] ok1]. destruct (a_submit_leaf a (leaf c)) as [a1 o1'].
    unfold agree in *. intros Hok. destruct (S Hok) as (-> & (Fr & Ep & Ea)). split; [reflexivity|].
    split; [exact Fr|]. unfold erel in *. congruence.
  - now apply add_agree.
  - now apply rem_agree.
Qed.

Lemma script_agree sc : forall p a, qrel p a -> erel p a ->
  agree (run_script1 p sc) (a_script a sc) (frame_ev p a).
Proof.
  induction sc as [|o sc IH]; intros p a R E; cbn [run_script1 a_script].
  - unfold ret, agree, frame_ev, frame. intros _. split; [reflexivity|].
    split; [split; [exact R|split; [apply lines_same_refl|apply todo_same_refl]]|exact E].
  - change (let '(s1, o1) := a_sop a o in let '(s2, o2) := a_script s1 sc in (s2, o1 ++ o2))
      with (aseq (a_sop a o) (fun a1 => a_script a1 sc)).
    eapply agree_seq; [now apply sop_agree|].
    intros p1 a1 F1. destruct F1 as ((Q1 & L1 & T1) & E1).
    pose proof (IH p1 a1 Q1 E1) as A.
    destruct (run_script1 p1 sc) as [[p2 o2] ok2]. destruct (a_script a1 sc) as [a2 o2'].
    unfold agree in *. intros Hok. destruct (A Hok) as (-> & F2). split; [reflexivity|].
    eapply frame_ev_trans; [|exact F2]. split; [split; [exact Q1|split; assumption]|exact E1].
Qed.

Lemma resolve1_agree p a c o : qrel p a -> erel p a ->
  agree (resolve1 p c o) (a_resolve a c o) (frame_ev p a).
Proof.
  intros R E. unfold resolve1, resolve, a_resolve.
  pose proof (script_agree (cscript c) p a R E) as A.
  unfold andthen, emit. destruct (run_script1 p (cscript c)) as [[p1 o1] ok1].
  destruct (a_script a (cscript c)) as [a1 o1']. unfold agree in *. intros Hok.
  destruct (A Hok) as (-> & F). split; [reflexivity|exact F].
Qed.
