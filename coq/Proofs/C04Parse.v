(* C04: the oracle's command reader reads back every line the model writes. *)
From Coq Require Import List Bool Ascii Arith NArith Lia String.
From TxVerif Require Import Lib.Bytes Lib.Hex Spec.C04 Spec.C04Oracle Gen.AuthConsts Model.Auth.
Import ListNotations.
Open Scope N_scope.

Lemma strip_crlf_app x : strip_crlf (x ++ [CR; LF]) = Some x.
Proof.
  unfold strip_crlf. rewrite rev_app_distr. cbn [rev app].
  change (Ascii.eqb CR CR && Ascii.eqb LF LF) with true. cbn iota. now rewrite rev_involutive.
Qed.

Lemma parse_line_crlf b : parse_line (b ++ [CR; LF]) = parse_body b.
Proof. unfold parse_line. now rewrite strip_crlf_app. Qed.

Lemma prefixb_app p x : prefixb p (p ++ x) = true.
Proof. induction p as [|a p IH]; [reflexivity|]. cbn. now rewrite Ascii.eqb_refl, IH. Qed.

Lemma strip_prefix_app p x : strip_prefix p (p ++ x) = Some x.
Proof.
  unfold strip_prefix. rewrite prefixb_app. f_equal.
  induction p as [|a p IH]; [reflexivity|]. exact IH.
Qed.

(* strict (upper-case) decoding succeeds => decoding in either case gives the same bytes *)
Lemma unhexdig_strict_ci a n : unhexdig true a = Some n -> unhexdig false a = Some n.
Proof.
  unfold unhexdig. cbn [negb andb].
  destruct ((48 <=? code a) && (code a <=? 57)); [auto|].
  destruct ((65 <=? code a) && (code a <=? 70)); [auto|]. discriminate.
Qed.

Lemma b16decode_unhex_ci : forall t b, b16decode t = Some b -> unhex_ci t = Some b.
Proof.
  unfold b16decode, unhex_ci.
  fix IH 1. intros [|h [|l t]] b H; cbn [unhex] in *; try exact H.
  destruct (unhexdig true h) as [x|] eqn:Ex; [|discriminate].
  destruct (unhexdig true l) as [y|] eqn:Ey; [|discriminate].
  destruct (unhex true t) as [r|] eqn:Er; [|discriminate].
  rewrite (unhexdig_strict_ci _ _ Ex), (unhexdig_strict_ci _ _ Ey), (IH t r Er). exact H.
Qed.

(* ---- the lines of the model ---- *)
Lemma parse_protocolinfo : parse_body (bs protocolinfo_cmd) = CProtoInfo.
Proof. vm_compute. reflexivity. Qed.

Lemma parse_challenge n :
  parse_body (bs "AUTHCHALLENGE SAFECOOKIE " ++ hex_lower n) = CChal n.
Proof.
  unfold parse_body.
  change (bs "AUTHCHALLENGE SAFECOOKIE ") with W_AUTHCHALLENGE.
  replace (beqb (W_AUTHCHALLENGE ++ hex_lower n) W_PROTOCOLINFO) with false by reflexivity.
  replace (beqb (W_AUTHCHALLENGE ++ hex_lower n) (W_PROTOCOLINFO ++ s " 1")) with false by reflexivity.
  cbn [orb]. rewrite strip_prefix_app, unhex_ci_lower. reflexivity.
Qed.

Lemma parse_authenticate_arg u a :
  parse_body (bs "AUTHENTICATE " ++ hex u a) = CAuth (Some a).
Proof.
  unfold parse_body.
  change (bs "AUTHENTICATE ") with (W_AUTHENTICATE ++ [SP]).
  rewrite <- app_assoc.
  replace (beqb (W_AUTHENTICATE ++ [SP] ++ hex u a) W_PROTOCOLINFO) with false by reflexivity.
  replace (beqb (W_AUTHENTICATE ++ [SP] ++ hex u a) (W_PROTOCOLINFO ++ s " 1")) with false by reflexivity.
  cbn [orb].
  replace (strip_prefix W_AUTHCHALLENGE (W_AUTHENTICATE ++ [SP] ++ hex u a)) with (@None bytes) by reflexivity.
  rewrite strip_prefix_app. cbn [app]. change (Ascii.eqb SP SP) with true. cbn iota.
  unfold unhex_ci. rewrite unhex_hex; [reflexivity|discriminate].
Qed.

Lemma parse_authenticate_null : parse_body (bs "AUTHENTICATE") = CAuth None.
Proof. vm_compute. reflexivity. Qed.

Lemma parse_auth_line a : parse_line (match auth_line a with EWrote b => b | _ => [] end) = CAuth (Some a).
Proof. cbn [auth_line line]. rewrite parse_line_crlf. apply parse_authenticate_arg. Qed.
