(* C16, parser: MicrodescriptorParser (interpreted over Gen/MicrodescTable.v) reads back every
   well-formed rendered document: the relays handed to create_relay are exactly the document's
   entries, in order, whatever state (waiting_r / waiting_w / waiting_p) the previous document left. *)
From Coq Require Import List Bool Ascii Arith NArith ZArith Lia String.
From TxVerif Require Import Lib.Bytes Spec.C16 Model.MicrodescTypes Gen.MicrodescTable Model.Microdesc
  Model.IdCodec Proofs.C16Codec.
Import ListNotations.
Open Scope list_scope.
Open Scope N_scope.

(* ---- whitespace, strip, split ---- *)
Lemma printable_not_ws a : printable a = true -> py_ws a = false.
Proof.
  unfold printable, py_ws. intros H. apply andb_true_iff in H as [H1 H2].
  apply N.leb_le in H1, H2.
  destruct (9 <=? code a) eqn:E1, (code a <=? 13) eqn:E2, (28 <=? code a) eqn:E3, (code a <=? 32) eqn:E4;
    cbn; try reflexivity;
    repeat match goal with
           | H : (_ <=? _) = true |- _ => apply N.leb_le in H
           | H : (_ <=? _) = false |- _ => apply N.leb_gt in H
           end; lia.
Qed.

Lemma token_nonempty t : token t = true -> t <> [].
Proof. unfold token. destruct t; cbn; [discriminate|congruence]. Qed.

Lemma token_printable t : token t = true -> forallb printable t = true.
Proof. unfold token. intros H. now apply andb_true_iff in H as [_ H]. Qed.

Lemma split_go_word cur t rest :
  forallb printable t = true -> split_go cur (t ++ rest) = split_go (cur ++ t) rest.
Proof.
  revert cur. induction t as [|a t IH]; intros cur H.
  - now rewrite app_nil_r.
  - cbn [forallb] in H. apply andb_true_iff in H as [Ha Ht].
    cbn [app split_go]. rewrite (printable_not_ws a Ha). rewrite IH by assumption.
    now rewrite <- app_assoc.
Qed.

Lemma split_go_sp cur rest : cur <> [] -> split_go cur (SP :: rest) = cur :: split_go [] rest.
Proof.
  intros H. cbn [split_go]. replace (py_ws SP) with true by reflexivity.
  destruct cur; [congruence|reflexivity].
Qed.

Lemma split_join ts : forallb token ts = true -> split_ws (sp_join ts) = ts.
Proof.
  unfold split_ws, sp_join.
  induction ts as [|x ts IH]; intros H; [reflexivity|].
  cbn [forallb] in H. apply andb_true_iff in H as [Hx Hts].
  destruct ts as [|y ts].
  - cbn [join]. rewrite <- (app_nil_r x) at 1. rewrite split_go_word by now apply token_printable.
    cbn [app split_go]. destruct x; [now apply token_nonempty in Hx|reflexivity].
  - change (join [SP] (x :: y :: ts)) with (x ++ [SP] ++ join [SP] (y :: ts)).
    rewrite split_go_word by now apply token_printable.
    cbn [app]. rewrite split_go_sp by now apply token_nonempty.
    now rewrite IH.
Qed.

Lemma lstrip_snoc l c : py_ws c = false -> exists l', lstrip (l ++ [c]) = l' ++ [c].
Proof.
  intros Hc. induction l as [|a l [l' IH]].
  - exists []. cbn. now rewrite Hc.
  - cbn [app lstrip]. destruct (py_ws a).
    + now exists l'.
    + now exists (a :: l).
Qed.

Lemma strip_head c rest : py_ws c = false -> exists s, strip (c :: rest) = c :: s.
Proof.
  intros Hc. unfold strip. cbn [lstrip]. rewrite Hc. cbn [rev].
  destruct (lstrip_snoc (rev rest) c Hc) as [l' E]. rewrite E.
  rewrite rev_app_distr. cbn. now eexists.
Qed.

(* a line that starts with one of the keyword letters is not ignorable *)
Lemma ignorable_kw c rest :
  py_ws c = false -> Ascii.eqb c DOT = false -> Ascii.eqb c (ch 79) = false -> Ascii.eqb c (ch 110) = false ->
  ignorable (c :: rest) = false.
Proof.
  intros Hws Hd HO Hn. unfold ignorable.
  destruct (strip_head c rest Hws) as [s E]. rewrite E.
  unfold md_ignorable_exact, md_ignorable_prefix.
  cbn [existsb beqb bs list_ascii_of_string prefixb orb].
  change "."%char with DOT. change "O"%char with (ch 79). change "n"%char with (ch 110).
  rewrite (Ascii.eqb_sym (ch 110) c). rewrite Hd, HO, Hn. reflexivity.
Qed.

(* ---- what the document says about one relay, as the keyword record of the parser ---- *)
Definition kw_of (e : entry) : kw :=
  {| k_nick := e_nick e; k_idhash := identity_text (e_id e); k_orhash := e_digest e;
     k_modified := e_date e ++ [SP] ++ e_time e; k_ip := e_ip e; k_orport := e_orport e; k_dirport := e_dirport e;
     k_flags := Some (e_flags e);
     k_v6 := match e_v6 e with [] => None | l => Some l end;
     k_bw := e_bw e |}.

Definition good_state (q : pst) : bool :=
  match q with waiting_r | waiting_w | waiting_p => true | waiting_s => false end.

(* state after the lines of an entry *)
Definition end_state (e : entry) : pst :=
  match e_bw e, e_policy e with
  | None, None => waiting_w
  | Some _, None => waiting_p
  | _, Some _ => waiting_r
  end.

(* ---- tokens of a well-formed entry ---- *)
Lemma alnum_printable a : is_alnum a = true -> printable a = true.
Proof.
  unfold is_alnum, is_digit, printable. intros H.
  repeat match type of H with
         | (_ || _) = true => apply orb_true_iff in H as [H|H]
         | (_ && _) = true => apply andb_true_iff in H as [? ?]
         end;
    repeat match goal with
           | H : (_ <=? _) = true |- _ => apply N.leb_le in H
           | H : (_ && _) = true |- _ => apply andb_true_iff in H as [? ?]
           end;
    apply andb_true_iff; split; apply N.leb_le; lia.
Qed.

Lemma b64char_printable i : i < 64 -> printable (b64char i) = true.
Proof. revert i. apply (below_forall 64). vm_compute. reflexivity. Qed.

Ltac Zify.zify_post_hook ::= Z.to_euclidean_division_equations.

Lemma b64enc_printable d : forallb printable (b64enc d) = true.
Proof.
  induction d using list_ind3.
  - reflexivity.
  - pose proof (code_lt a). cbn [b64enc forallb]. rewrite !b64char_printable by lia. reflexivity.
  - pose proof (code_lt a). pose proof (code_lt b). cbn [b64enc forallb].
    rewrite !b64char_printable by lia. reflexivity.
  - pose proof (code_lt a). pose proof (code_lt b). pose proof (code_lt c). cbn [b64enc forallb].
    rewrite !b64char_printable by lia. rewrite IHd. reflexivity.
Qed.

Lemma forallb_removelast {A} (f : A -> bool) l : forallb f l = true -> forallb f (removelast l) = true.
Proof.
  induction l as [|a l IH]; [auto|]. cbn [forallb]. intros H. apply andb_true_iff in H as [Ha Hl].
  destruct l as [|b l]; [reflexivity|].
  change (removelast (a :: b :: l)) with (a :: removelast (b :: l)). cbn [forallb]. rewrite Ha. now apply IH.
Qed.

Lemma identity_token d : List.length d = 20%nat -> token (identity_text d) = true.
Proof.
  intros H. unfold token. apply andb_true_iff. split.
  - unfold identity_text. destruct d as [|a [|b [|c r]]]; try discriminate. reflexivity.
  - unfold identity_text. apply forallb_removelast, b64enc_printable.
Qed.

Lemma nick_token n : negb (beqb n []) = true -> forallb is_alnum n = true -> token n = true.
Proof.
  intros H1 H2. unfold token. rewrite H1. cbn [andb].
  rewrite forallb_forall in *. intros x Hx. apply alnum_printable. now apply H2.
Qed.

Record wf_parts (e : entry) : Prop := {
  wp_nick : token (e_nick e) = true;
  wp_id : token (identity_text (e_id e)) = true;
  wp_digest : token (e_digest e) = true;
  wp_date : token (e_date e) = true;
  wp_time : token (e_time e) = true;
  wp_ip : token (e_ip e) = true;
  wp_orport : token (e_orport e) = true;
  wp_dirport : token (e_dirport e) = true;
  wp_v6 : forallb token (e_v6 e) = true;
  wp_flags_ne : e_flags e <> [];
  wp_flags : forallb token (e_flags e) = true;
  wp_bw : match e_bw e with Some d => forallb printable d = true | None => e_wextra e = [] end;
  wp_wextra : forallb wextra_ok (e_wextra e) = true;
  wp_policy : match e_policy e with Some p => p <> [] /\ forallb token p = true | None => True end }.

Lemma digit_printable a : is_digit a = true -> printable a = true.
Proof.
  unfold is_digit, printable. intros H. apply andb_true_iff in H as [H1 H2]. apply N.leb_le in H1, H2.
  apply andb_true_iff; split; apply N.leb_le; lia.
Qed.

Lemma wf_entry_parts e : wf_entry e = true -> wf_parts e.
Proof.
  unfold wf_entry. intros H.
  repeat match type of H with (_ && _) = true => let H' := fresh "W" in apply andb_true_iff in H as [H H'] end.
  constructor; try assumption.
  - now apply nick_token.
  - apply identity_token. now apply Nat.eqb_eq.
  - destruct (e_flags e); [discriminate|congruence].
  - rewrite forallb_forall in *. intros f Hf. specialize (W3 f Hf). unfold flag_ok in W3.
    now repeat match type of W3 with (_ && _) = true => apply andb_true_iff in W3 as [W3 _] end.
  - destruct (e_bw e) as [d|].
    + apply andb_true_iff in W2 as [_ W2]. rewrite forallb_forall in *. intros x Hx. apply digit_printable. auto.
    + destruct (e_wextra e); [reflexivity|discriminate].
  - destruct (e_policy e) as [p|]; [|exact I].
    apply andb_true_iff in W as [Wa Wb]. split; [|assumption]. destruct p; [discriminate|congruence].
Qed.

(* ---- one step of the FSM on each kind of line ---- *)
Lemma kwline c t ts : sp_join ([c] :: t :: ts) = c :: SP :: sp_join (t :: ts).
Proof. reflexivity. Qed.

Lemma tokens_r e : wf_parts e ->
  forallb token [str "r"; e_nick e; identity_text (e_id e); e_digest e; e_date e; e_time e; e_ip e; e_orport e; e_dirport e] = true.
Proof.
  intros W. cbn [forallb]. rewrite (wp_nick e W), (wp_id e W), (wp_digest e W), (wp_date e W), (wp_time e W),
    (wp_ip e W), (wp_orport e W), (wp_dirport e W). reflexivity.
Qed.

Definition r_line (e : entry) : bytes :=
  sp_join [str "r"; e_nick e; identity_text (e_id e); e_digest e; e_date e; e_time e; e_ip e; e_orport e; e_dirport e].

Definition begun (e : entry) : kw :=
  {| k_nick := e_nick e; k_idhash := identity_text (e_id e); k_orhash := e_digest e;
     k_modified := e_date e ++ [SP] ++ e_time e; k_ip := e_ip e; k_orport := e_orport e; k_dirport := e_dirport e;
     k_flags := None; k_v6 := None; k_bw := None |}.

Lemma step_r q pa e : wf_parts e -> good_state q = true ->
  step {| ps := q; attrs := pa |} (r_line e) = ({| ps := waiting_s; attrs := Some (begun e) |}, emit_pending pa, None).
Proof.
  intros W Hq.
  assert (Hsplit : split_ws (r_line e) = [str "r"; e_nick e; identity_text (e_id e); e_digest e; e_date e; e_time e; e_ip e; e_orport e; e_dirport e])
    by (apply split_join, tokens_r, W).
  assert (Hline : r_line e = "r"%char :: " "%char :: sp_join [e_nick e; identity_text (e_id e); e_digest e; e_date e; e_time e; e_ip e; e_orport e; e_dirport e])
    by reflexivity.
  assert (Hign : ignorable (r_line e) = false) by (rewrite Hline; apply ignorable_kw; reflexivity).
  unfold step. cbn [ps attrs].
  destruct q; try discriminate; cbn [find md_table pst_eqb p_from p_match mmatch andb];
    rewrite ?Hign; rewrite Hline; cbn [prefixb bs list_ascii_of_string Ascii.eqb Bool.eqb andb forallb negb];
    rewrite <- Hline; cbn [p_handle p_to run_handler]; rewrite Hsplit; cbn [tl]; reflexivity.
Qed.

(* "a" line *)
Definition a_line (t : bytes) : bytes := sp_join [str "a"; t].
Lemma step_a k t : token t = true ->
  step {| ps := waiting_s; attrs := Some k |} (a_line t) = ({| ps := waiting_s; attrs := Some (add_v6 k [t]) |}, [], None).
Proof.
  intros Ht.
  assert (Hsplit : split_ws (a_line t) = [str "a"; t]) by (apply split_join; cbn [forallb]; now rewrite Ht).
  assert (Hline : a_line t = "a"%char :: " "%char :: sp_join [t]) by reflexivity.
  unfold step. cbn [ps attrs find md_table pst_eqb p_from p_match mmatch andb].
  rewrite Hline; cbn [prefixb bs list_ascii_of_string Ascii.eqb Bool.eqb andb forallb negb].
  rewrite <- Hline; cbn [p_handle p_to run_handler]. rewrite Hsplit. reflexivity.
Qed.

(* "s" line *)
Definition s_line (fl : list bytes) : bytes := sp_join (str "s" :: fl).
Lemma step_s k fl : fl <> [] -> forallb token fl = true ->
  step {| ps := waiting_s; attrs := Some k |} (s_line fl) = ({| ps := waiting_w; attrs := Some (set_flags k fl) |}, [], None).
Proof.
  intros Hne Hfl.
  assert (Hsplit : split_ws (s_line fl) = str "s" :: fl) by (apply split_join; cbn [forallb]; now rewrite Hfl).
  destruct fl as [|f fl]; [congruence|].
  assert (Hline : s_line (f :: fl) = "s"%char :: " "%char :: sp_join (f :: fl)) by reflexivity.
  unfold step. cbn [ps attrs find md_table pst_eqb p_from p_match mmatch andb].
  rewrite Hline; cbn [prefixb bs list_ascii_of_string Ascii.eqb Bool.eqb andb forallb negb].
  rewrite <- Hline; cbn [p_handle p_to run_handler]. rewrite Hsplit. reflexivity.
Qed.

(* "w" line *)
Definition BW : bytes := str "Bandwidth=".
Definition w_line (d : bytes) (extra : list bytes) : bytes := sp_join (str "w" :: (BW ++ d) :: extra).

Lemma split_eq_spec t : forall cur k v, split_eq cur t = Some (k, v) -> cur ++ t = k ++ [EQC] ++ v.
Proof.
  induction t as [|a t IH]; intros cur k v H; [discriminate|].
  cbn [split_eq] in H. destruct (Ascii.eqb a EQC) eqn:E.
  - apply Ascii.eqb_eq in E. subst a. now injection H as <- <-.
  - apply IH in H. rewrite <- app_assoc in H. exact H.
Qed.

Lemma prefixb_app p r : prefixb p (p ++ r) = true.
Proof. induction p as [|a p IH]; [reflexivity|]. cbn. now rewrite Ascii.eqb_refl. Qed.

Lemma kw_lookup_extra extra : forall acc, forallb wextra_ok extra = true ->
  fold_left (fun acc x => match split_eq [] x with
                          | Some (k, v) => if prefixb [ch 36] k then acc else if beqb k (bs "Bandwidth") then Some v else acc
                          | None => acc
                          end) extra acc = acc.
Proof.
  induction extra as [|x extra IH]; intros acc H; [reflexivity|].
  cbn [forallb] in H. apply andb_true_iff in H as [Hx He].
  cbn [fold_left]. rewrite IH by assumption.
  destruct (split_eq [] x) as [[k v]|] eqn:E; [|reflexivity].
  destruct (prefixb [ch 36] k); [reflexivity|].
  destruct (beqb k (bs "Bandwidth")) eqn:Ek; [|reflexivity].
  apply beqb_eq in Ek. apply split_eq_spec in E. cbn [app] in E. subst.
  unfold wextra_ok in Hx. apply andb_true_iff in Hx as [_ Hx].
  change (bs "Bandwidth" ++ EQC :: v) with (str "Bandwidth=" ++ v) in Hx.
  rewrite prefixb_app in Hx. discriminate.
Qed.

Lemma kw_lookup_w d extra : forallb wextra_ok extra = true ->
  kw_lookup (bs "Bandwidth") ((BW ++ d) :: extra) = Some d.
Proof.
  intros H. unfold kw_lookup. cbn [fold_left].
  assert (E : split_eq [] (BW ++ d) = Some (bs "Bandwidth", d)) by reflexivity.
  rewrite E. cbn [prefixb bs list_ascii_of_string Ascii.eqb Bool.eqb andb].
  replace (beqb _ _) with true by (symmetry; apply beqb_refl).
  now apply kw_lookup_extra.
Qed.

Lemma wextra_token x : wextra_ok x = true -> token x = true.
Proof. unfold wextra_ok. intros H. now apply andb_true_iff in H as [H _]. Qed.

Lemma step_w k d extra : forallb printable d = true -> forallb wextra_ok extra = true ->
  step {| ps := waiting_w; attrs := Some k |} (w_line d extra) = ({| ps := waiting_p; attrs := Some (set_bw k d) |}, [], None).
Proof.
  intros Hd He.
  assert (Htok : token (BW ++ d) = true).
  { unfold token. apply andb_true_iff. split; [reflexivity|]. rewrite forallb_app, Hd. reflexivity. }
  assert (Hsplit : split_ws (w_line d extra) = str "w" :: (BW ++ d) :: extra).
  { apply split_join. cbn [forallb]. rewrite Htok. cbn [andb].
    apply forallb_forall. intros x Hx. apply wextra_token.
    rewrite forallb_forall in He. auto. }
  assert (Hline : w_line d extra = "w"%char :: " "%char :: sp_join ((BW ++ d) :: extra)) by reflexivity.
  unfold step. cbn [ps attrs find md_table pst_eqb p_from p_match mmatch andb].
  rewrite Hline; cbn [prefixb bs list_ascii_of_string Ascii.eqb Bool.eqb andb forallb negb].
  rewrite <- Hline; cbn [p_handle p_to run_handler]. rewrite Hsplit. cbn [tl].
  rewrite kw_lookup_w by assumption. reflexivity.
Qed.

(* "p" line *)
Definition p_line (p : list bytes) : bytes := sp_join (str "p" :: p).
(* after the "w" line (waiting_p) and, since the repair of C16-F1, directly after the "s" line (waiting_w) *)
Lemma step_p q a p : p <> [] -> q = waiting_p \/ q = waiting_w ->
  step {| ps := q; attrs := a |} (p_line p) = ({| ps := waiting_r; attrs := a |}, [], None).
Proof.
  intros Hne Hq. destruct p as [|t p]; [congruence|].
  assert (Hline : p_line (t :: p) = "p"%char :: " "%char :: sp_join (t :: p)) by reflexivity.
  assert (Hign : ignorable (p_line (t :: p)) = false) by (rewrite Hline; apply ignorable_kw; reflexivity).
  unfold step. destruct Hq as [-> | ->]; cbn [ps attrs find md_table pst_eqb p_from p_match mmatch andb];
    rewrite ?Hign; rewrite Hline; cbn [prefixb bs list_ascii_of_string Ascii.eqb Bool.eqb andb forallb negb];
    rewrite <- Hline; cbn [p_handle p_to run_handler]; reflexivity.
Qed.

(* the first line of the GETINFO reply and the last line of the event *)
Lemma step_nsall q a : step {| ps := q; attrs := a |} (bs "ns/all=") = ({| ps := waiting_r; attrs := a |}, [], None).
Proof. destruct q; reflexivity. Qed.
Lemma step_ok q a : step {| ps := q; attrs := a |} (bs "OK") = ({| ps := waiting_r; attrs := a |}, [], None).
Proof. destruct q; reflexivity. Qed.

(* ---- feeding lists of lines ---- *)
Lemma feed_cons_ok s x r s1 o1 : step s x = (s1, o1, None) ->
  feed s (x :: r) = let '(s2, o2, e2) := feed s1 r in (s2, o1 ++ o2, e2).
Proof. intros H. cbn [feed]. rewrite H. reflexivity. Qed.

Definition with_v6 (k : kw) (l : list bytes) : kw := fold_left (fun k a => add_v6 k [a]) l k.

Lemma feed_a_lines l : forall k rest, forallb token l = true ->
  feed {| ps := waiting_s; attrs := Some k |} (map a_line l ++ rest)
  = feed {| ps := waiting_s; attrs := Some (with_v6 k l) |} rest.
Proof.
  induction l as [|t l IH]; intros k rest H; [reflexivity|].
  cbn [forallb] in H. apply andb_true_iff in H as [Ht Hl].
  cbn [map app]. rewrite (feed_cons_ok _ _ _ _ _ (step_a k t Ht)).
  rewrite IH by assumption. cbn [with_v6 fold_left]. destruct (feed _ rest) as [[s2 o2] e2]. reflexivity.
Qed.

Lemma with_v6_eq l : forall k,
  with_v6 k l = match l with
                | [] => k
                | _ => {| k_nick := k_nick k; k_idhash := k_idhash k; k_orhash := k_orhash k; k_modified := k_modified k;
                          k_ip := k_ip k; k_orport := k_orport k; k_dirport := k_dirport k; k_flags := k_flags k;
                          k_v6 := Some (match k_v6 k with Some x => x ++ l | None => l end); k_bw := k_bw k |}
                end.
Proof.
  induction l as [|a l IH]; intros k; [reflexivity|].
  change (with_v6 k (a :: l)) with (with_v6 (add_v6 k [a]) l). rewrite IH.
  destruct l as [|b l]; [reflexivity|].
  cbn [add_v6 k_nick k_idhash k_orhash k_modified k_ip k_orport k_dirport k_flags k_v6 k_bw].
  destruct (k_v6 k); cbn [app]; try rewrite <- app_assoc; reflexivity.
Qed.

Lemma entry_kw e fl d0 :
  set_flags (with_v6 (begun e) (e_v6 e)) fl = 
  {| k_nick := e_nick e; k_idhash := identity_text (e_id e); k_orhash := e_digest e;
     k_modified := e_date e ++ [SP] ++ e_time e; k_ip := e_ip e; k_orport := e_orport e; k_dirport := e_dirport e;
     k_flags := Some fl; k_v6 := match e_v6 e with [] => None | l => Some l end; k_bw := None |}
  /\ set_bw (set_flags (with_v6 (begun e) (e_v6 e)) fl) d0 =
  {| k_nick := e_nick e; k_idhash := identity_text (e_id e); k_orhash := e_digest e;
     k_modified := e_date e ++ [SP] ++ e_time e; k_ip := e_ip e; k_orport := e_orport e; k_dirport := e_dirport e;
     k_flags := Some fl; k_v6 := match e_v6 e with [] => None | l => Some l end; k_bw := Some d0 |}.
Proof. rewrite with_v6_eq. destruct (e_v6 e); split; reflexivity. Qed.

Lemma render_entry_eq e :
  render_entry e = r_line e :: map a_line (e_v6 e) ++ s_line (e_flags e)
     :: match e_bw e with Some d => [w_line d (e_wextra e)] | None => [] end
     ++ match e_policy e with Some p => [p_line p] | None => [] end.
Proof. reflexivity. Qed.

Lemma feed_entry q pa e rest : wf_parts e -> good_state q = true ->
  feed {| ps := q; attrs := pa |} (render_entry e ++ rest) =
  let '(s2, o2, e2) := feed {| ps := end_state e; attrs := Some (kw_of e) |} rest in (s2, emit_pending pa ++ o2, e2).
Proof.
  intros W Hq. rewrite render_entry_eq.
  pose proof (wp_bw e W) as Hbw. pose proof (wp_policy e W) as Hpol.
  pose proof (wp_wextra e W) as Hwx.
  assert (Hk : kw_of e = match e_bw e with
                         | Some d => set_bw (set_flags (with_v6 (begun e) (e_v6 e)) (e_flags e)) d
                         | None => set_flags (with_v6 (begun e) (e_v6 e)) (e_flags e)
                         end).
  { destruct (entry_kw e (e_flags e) []) as [K1 _]. unfold kw_of.
    destruct (e_bw e) as [d|]; [|now rewrite K1].
    destruct (entry_kw e (e_flags e) d) as [_ K2]. now rewrite K2. }
  unfold end_state. rewrite Hk. clear Hk.
  destruct (e_bw e) as [d|]; destruct (e_policy e) as [p|];
    cbn [app]; rewrite <- app_assoc; cbn [app];
    rewrite (feed_cons_ok _ _ _ _ _ (step_r q pa e W Hq));
    rewrite feed_a_lines by apply (wp_v6 e W);
    rewrite (feed_cons_ok _ _ _ _ _ (step_s _ (e_flags e) (wp_flags_ne e W) (wp_flags e W))).
  - rewrite (feed_cons_ok _ _ _ _ _ (step_w _ d (e_wextra e) Hbw Hwx)).
    rewrite (feed_cons_ok _ _ _ _ _ (step_p waiting_p _ p (proj1 Hpol) (or_introl eq_refl))).
    destruct (feed _ rest) as [[s2 o2] e2]. reflexivity.
  - rewrite (feed_cons_ok _ _ _ _ _ (step_w _ d (e_wextra e) Hbw Hwx)).
    destruct (feed _ rest) as [[s2 o2] e2]. reflexivity.
  - rewrite (feed_cons_ok _ _ _ _ _ (step_p waiting_w _ p (proj1 Hpol) (or_intror eq_refl))).
    destruct (feed _ rest) as [[s2 o2] e2]. reflexivity.
  - destruct (feed _ rest) as [[s2 o2] e2]. reflexivity.
Qed.

Lemma end_state_good e : good_state (end_state e) = true.
Proof. unfold end_state. destruct (e_bw e), (e_policy e); reflexivity. Qed.

(* a whole document *)
Fixpoint doc_out (pa : option kw) (d : doc) : list kw :=
  match d with [] => [] | e :: r => emit_pending pa ++ doc_out (Some (kw_of e)) r end.
Fixpoint doc_end (s : pstate) (d : doc) : pstate :=
  match d with [] => s | e :: r => doc_end {| ps := end_state e; attrs := Some (kw_of e) |} r end.

Lemma feed_doc d : forall q pa rest,
  Forall wf_parts d -> good_state q = true ->
  feed {| ps := q; attrs := pa |} (render_doc d ++ rest) =
  let '(s2, o2, e2) := feed (doc_end {| ps := q; attrs := pa |} d) rest in (s2, doc_out pa d ++ o2, e2).
Proof.
  induction d as [|e d IH]; intros q pa rest W Hq.
  - cbn [render_doc flat_map app doc_end doc_out]. destruct (feed _ rest) as [[s2 o2] e2]. reflexivity.
  - inversion W as [|? ? We Wd]; subst.
    cbn [render_doc flat_map]. rewrite <- app_assoc. rewrite feed_entry by assumption.
    change (flat_map render_entry d) with (render_doc d).
    rewrite (IH (end_state e) (Some (kw_of e)) rest Wd (end_state_good e)).
    cbn [doc_end doc_out]. destruct (feed _ rest) as [[s2 o2] e2]. now rewrite app_assoc.
Qed.

Lemma doc_end_good d : forall s, good_state (ps s) = true -> good_state (ps (doc_end s d)) = true.
Proof. induction d as [|e d IH]; intros s H; [exact H|]. cbn [doc_end]. apply IH. apply end_state_good. Qed.

Lemma doc_out_all d : forall s, doc_out (attrs s) d ++ emit_pending (attrs (doc_end s d)) = emit_pending (attrs s) ++ map kw_of d.
Proof.
  induction d as [|e d IH]; intros s.
  - cbn. now rewrite app_nil_r.
  - cbn [doc_out doc_end map]. rewrite <- app_assoc.
    pose proof (IH {| ps := end_state e; attrs := Some (kw_of e) |}) as E. cbn [attrs] in E. rewrite E.
    reflexivity.
Qed.
