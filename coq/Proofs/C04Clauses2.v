(* C04 clauses, part 2: exactly-once over whole histories; step-level clause statements. *)
From Coq Require Import List Bool Ascii Arith NArith Lia String.
From TxVerif Require Import Lib.Bytes Lib.Hex Spec.C04 Spec.C04Oracle Gen.AuthConsts Model.Auth
  Proofs.C04Unescape Proofs.C04Parse Proofs.C04Auth Proofs.C04Clauses.
Import ListNotations.
Open Scope N_scope.

(* the state after a history *)
Fixpoint end_state (hmac : bytes -> bytes -> bytes) (e : env) (s : st) (ops : list op) : st :=
  match ops with
  | [] => s
  | o :: ops' => match Auth.step hmac e s o with
                 | Some (s', _) => end_state hmac e s' ops'
                 | None => s
                 end
  end.

Lemma n_ready_app a b : n_ready (a ++ b) = (n_ready a + n_ready b)%nat.
Proof. unfold n_ready, readys. rewrite flat_map_app, app_length. reflexivity. Qed.

Lemma run_ops_ready hmac e : forall ops s tr, run_ops hmac e s ops = Some tr ->
  match ph s with
  | PhIdle => n_ready (List.concat tr) = 0%nat /\ ph (end_state hmac e s ops) = PhIdle
  | _ => match ph (end_state hmac e s ops) with
         | PhIdle => n_ready (List.concat tr) = 1%nat
         | _ => n_ready (List.concat tr) = 0%nat
         end
  end.
Proof.
  induction ops as [|o ops IH]; intros s tr; cbn [run_ops end_state].
  - intros [= <-]. destruct (ph s); cbn; auto.
  - destruct (Auth.step hmac e s o) as [[s' evs]|] eqn:Es; [|discriminate].
    destruct (run_ops hmac e s' ops) as [tr'|] eqn:Er; [|discriminate].
    cbn [omap]. intros [= <-]. cbn [List.concat]. rewrite n_ready_app.
    pose proof (step_ready hmac e s o s' evs Es) as Hs.
    pose proof (IH s' tr' Er) as Hi.
    destruct (ph s) eqn:Ep.
    all: try (unfold shape in Hs; cbn [fst snd] in Hs; destruct (ph s') eqn:Ep';
              try (destruct Hi as [Hi1 Hi2]; rewrite Hs, Hi1, Hi2; reflexivity);
              rewrite Hs; destruct (ph (end_state hmac e s' ops)); rewrite Hi; reflexivity).
    destruct Hs as [Hs1 Hs2]. rewrite Hs1 in Hi. destruct Hi as [Hi1 Hi2]. rewrite Hs2, Hi1. auto.
Qed.

Definition all_events (tr : list (list ev)) : list ev := List.concat tr.

(* the ready notification fires at most once in every history, and exactly once in every
   history after which nothing is in flight and no password is awaited (phase Idle) *)
Theorem ready_once hmac e ops tr : run hmac e ops = Some tr ->
  (n_ready (all_events tr) <= 1)%nat /\
  (n_ready (all_events tr) = 1%nat <->
   ph (end_state hmac e {| ph := PhProto; lost := false |} ops) = PhIdle).
Proof.
  unfold run.
  destruct (run_ops hmac e {| ph := PhProto; lost := false |} ops) as [tr'|] eqn:Er; [|discriminate].
  cbn [omap]. intros [= <-].
  pose proof (run_ops_ready hmac e ops _ tr' Er) as H. cbn [ph] in H.
  unfold all_events. cbn [List.concat]. rewrite n_ready_app.
  match goal with |- context[n_ready [?x]] => change (n_ready [x]) with 0%nat end. cbn [Nat.add].
  destruct (ph (end_state hmac e {| ph := PhProto; lost := false |} ops)); rewrite H;
    (split; [lia|split; intros; try reflexivity; try discriminate]).
Qed.

(* success is notified only by the step that answers the last bootstrap command with 250 *)
Definition nook (r : res) : Prop := ~ In (EReady ROk) (snd r).
Ltac nk := unfold nook; cbn; intuition discriminate.

Lemma nook_password pw l : nook (do_password pw l).
Proof. destruct pw as [[|a pw]|]; destruct l; nk. Qed.

Lemma nook_challenge hmac e ck ch : nook (do_challenge hmac e ck ch).
Proof.
  unfold do_challenge.
  destruct (ch_hash ch); [|nk]. destruct (b16decode _); [|nk].
  destruct (ch_nonce ch); [|nk]. destruct (b16decode _); [|nk].
  match goal with |- context[if ?b then _ else _] => destruct b end; nk.
Qed.

Lemma nook_authenticate e r : do_authenticate e = Some r -> nook r.
Proof.
  unfold do_authenticate.
  destruct (negb (pi_auth (e_pi e))); [intros [= <-]; nk|].
  destruct (read_cookie e) as [| | |d]; try discriminate; try (intros [= <-]; nk);
    destruct (select e auth_order _) as [[| | |]|]; try (intros [= <-]; nk);
    (destruct (e_provider e) as [| |pw|pw|pw|]; unfold do_password; try destruct pw as [|a pw];
     intros [= <-]; nk).
Qed.

Lemma nook_start_boot k : (k < 4)%nat -> nook (start_boot k).
Proof. destruct k as [|[|[|[|k]]]]; try lia; intros _; nk. Qed.

Lemma on_reply_ok hmac e p o r : Auth.on_reply hmac e p o = Some r -> In (EReady ROk) (snd r) ->
  p = PhBoot 3 /\ exists d, o = OOk d.
Proof.
  intros Hr Hin.
  assert (H : nook r -> False) by (intros H; exact (H Hin)). clear Hin.
  destruct p as [|ck| | |k|], o as [d|c| |]; cbn [Auth.on_reply] in Hr; try discriminate.
  - destruct d; try (injection Hr as <-; exfalso; apply H; nk).
    exfalso. apply H. eapply nook_authenticate; eauto.
  - injection Hr as <-. exfalso; apply H; nk.
  - destruct d; injection Hr as <-; exfalso; apply H; try nk. apply nook_challenge.
  - injection Hr as <-. exfalso; apply H; nk.
  - injection Hr as <-. exfalso; apply H. apply nook_start_boot. lia.
  - injection Hr as <-. exfalso; apply H; nk.
  - destruct k as [|[|[|[|k]]]]; cbn [nth_error bootstrap_seq] in Hr; [| | | |destruct k; discriminate].
    4:{ split; eauto. }
    all: exfalso; apply H; destruct d; try (injection Hr as <-; nk);
      match type of Hr with context[if ?b then _ else _] => destruct b end;
      injection Hr as <-; try nk; apply nook_start_boot; lia.
  - destruct k as [|[|[|[|k]]]]; cbn [nth_error bootstrap_seq] in Hr; [| | | |destruct k; discriminate];
      injection Hr as <-; exfalso; apply H; try nk; apply nook_start_boot; lia.
Qed.

Theorem ready_ok_only_after_bootstrap hmac e s o s' evs :
  Auth.step hmac e s o = Some (s', evs) -> In (EReady ROk) evs ->
  ph s = PhBoot 3 /\ exists d, o = OOk d.
Proof.
  destruct s as [p l]. destruct o as [d|c| |]; cbn [Auth.step ph lost].
  - destruct l; [discriminate|]. cbn [orb]. destruct (in_flight p); [|discriminate]. cbn [negb].
    destruct (Auth.on_reply hmac e p (OOk d)) as [[p' evs']|] eqn:Er; [|discriminate].
    intros [= <- <-] Hin. eapply on_reply_ok; eauto.
  - destruct l; [discriminate|]. cbn [orb]. destruct (in_flight p); [|discriminate]. cbn [negb orb].
    destruct (negb _); [discriminate|].
    destruct (Auth.on_reply hmac e p (OErr c)) as [[p' evs']|] eqn:Er; [|discriminate].
    intros [= <- <-] Hin. destruct (on_reply_ok hmac e p (OErr c) _ Er Hin) as [_ [d Hd]]. discriminate.
  - destruct l; [discriminate|]. destruct (in_flight p); intros [= <- <-] Hin; cbn in Hin; intuition discriminate.
  - destruct p; try discriminate. destruct (e_provider e); try discriminate.
    pose proof (nook_password pw l) as Hn. destruct (do_password pw l) as [p' evs'].
    intros [= <- <-] Hin. exfalso. exact (Hn Hin).
Qed.
