(* C08: a close request never completes successfully before its object has left TorState.circuits /
   TorState.streams (which, by C07, is exactly when Tor reported it CLOSED or FAILED) -- on every legal
   history, whatever the order of acknowledgements and events, including the input classes of the two
   open findings *)
From Coq Require Import List Bool Arith NArith Lia.
From TxVerif Require Import Lib.Bytes Lib.NList Spec.C07 Spec.C08 Model.State Model.StateNotify
  Proofs.NListProofs Proofs.C07Proofs Proofs.StateShape Proofs.C08Proofs Proofs.C08Refine Proofs.C08Waits Proofs.C08Tables Proofs.C08Full.
Import ListNotations.
Open Scope N_scope.

Definition is_ok (r : wres) : bool := match r with WFail _ _ _ => false | _ => true end.
(* the operations of the close machinery proper; build_circuit() and its answers are composed from them below *)
Definition oldop (o : op) : bool := match o with OBuild _ _ | OExtended _ | OBuildErr => false | _ => true end.
Definition gone_c (xs : xstate) (ob : N) : Prop := ~ In ob (map snd (circuits (base xs))).
Definition gone_s (xs : xstate) (ob : N) : Prop := ~ In ob (map snd (streams (base xs))).

(* w is a close wait of the circuit (stream) object ob: requested now, or still held for it *)
Definition cwait_c (xs : xstate) (o : op) (w ob : N) : Prop :=
  o = OCClose ob w \/ In w (items_holders (tget [] (cclosing xs) ob)) \/ exists ok, In (CmdC ob w ok) (cmds xs).
Definition cwait_s (xs : xstate) (o : op) (w ob : N) : Prop :=
  o = OSClose ob w \/ In w (items_holders (tget [] (sclosing xs) ob)).

(* objects listed in TorState.circuits are not CLOSED / FAILED *)
Definition listed_live (b : mstate) : Prop :=
  forall p c, In p (circuits b) -> get_c (snd p) b = Some c -> c_state c <> Some CClosed /\ c_state c <> Some CFailed.

Definition listed_slive (b : mstate) : Prop :=
  forall p x, In p (streams b) -> get_s (snd p) b = Some x -> s_state x <> Some SClosed /\ s_state x <> Some SFailed.

Record Inv3 (ls : lstate) (xs : xstate) : Prop := {
  i_rel : Rel ls xs;
  i_live : listed_live (base xs);
  i_slive : listed_slive (base xs);
  i_cnt : forall w, (countN w (holders xs) <= 1)%nat;
  i_used : forall w, In w (holders xs) -> In w (l_used ls);
  (* an unanswered CLOSECIRCUIT whose _closing_deferred is gone: the circuit has left TorState.circuits *)
  i_cmd : forall ob w ok, In (CmdC ob w ok) (cmds xs) -> tfind (cclosing xs) ob <> None \/ gone_c xs ob;
  i_cmd_ex : forall ob w ok, In (CmdC ob w ok) (cmds xs) -> ob < l_nc ls;
  i_cc_ex : forall ob, tfind (cclosing xs) ob <> None -> ob < l_nc ls
}.

Lemma Inv3_init rts : Inv3 ls0 (xinit rts).
Proof.
  constructor.
  - apply Rel_init.
  - intros p c [].
  - intros p c [].
  - intros w. cbn. lia.
  - intros w [].
  - intros ob w ok [].
  - intros ob w ok [].
  - intros ob H. now cbn in H.
Qed.

(* an object that has left the dict never comes back: new entries get a fresh object number *)
Lemma gone_c_stable ls xs o ls' xs' es ob : oldop o = true -> Rel ls xs -> lstep ls o = Some ls' -> x_op xs o = Some (xs', es) ->
  ob < l_nc ls -> gone_c xs ob -> gone_c xs' ob.
Proof.
  intros Ho R L X Hlt G. destruct (rel_pres ls xs o ls' xs' es R L X) as [R' _].
  unfold gone_c in *. rewrite (r_cdict _ _ R'). rewrite (r_cdict _ _ R) in G.
  destruct o as [e|l|l|o1 l|o1 l|o1 l|o1 l|o1 wt|o1 wt|o1 wt|o1 wt| |rs wt|id|]; try discriminate Ho; cbn [lstep] in L; unfold lstep_ev in L.
  - destruct (negb (ev_legal (l_tv ls) e)); [discriminate|]. destruct e as [id st path kw|id st cid host port kw].
    + unfold locate in L. destruct (kfind fst id (l_cdict ls)) as [p|] eqn:F; injection L as <-; cbn [l_cdict].
      * destruct (c_terminal st); [|exact G]. intros H. apply G. eapply kdel_map_In; eauto.
      * assert (G2 : ~ In ob (map snd (l_cdict ls ++ [(id, l_nc ls)]))).
        { rewrite map_app. cbn [map snd]. intros H. apply in_app_or in H as [H|[H|[]]]; [tauto | lia]. }
        destruct (c_terminal st); [|exact G2]. intros H. apply G2. eapply kdel_map_In; eauto.
    + destruct (locate id (l_sdict ls) (l_ns ls)). injection L as <-. exact G.
  - injection L as <-. exact G.
  - injection L as <-. exact G.
  - destruct (o1 <? l_nc ls); [|discriminate]. injection L as <-. exact G.
  - destruct ((o1 <? l_nc ls) && _); [|discriminate]. injection L as <-. exact G.
  - destruct (o1 <? l_ns ls); [|discriminate]. injection L as <-. exact G.
  - destruct ((o1 <? l_ns ls) && _); [|discriminate]. injection L as <-. exact G.
  - destruct ((o1 <? l_nc ls) && _); [|discriminate]. injection L as <-. exact G.
  - destruct ((o1 <? l_nc ls) && _); [|discriminate]. injection L as <-. exact G.
  - destruct (_ && _ && _); [|discriminate]. injection L as <-. exact G.
  - destruct (_ && _ && _); [|discriminate]. injection L as <-. exact G.
  - destruct (l_nb ls =? 0); [|discriminate]. injection L as <-. exact G.
Qed.

(* ---------------------------------------------------------------- how the close containers evolve *)
(* a wait id stays in the callback list of its object's _closing_deferred unless that object ends *)
Lemma items_kept (t t' : list (N * list cbitem)) ob (w : N) :
  In w (items_holders (tget [] t ob)) ->
  (forall items, tfind t ob = Some items -> exists extra, tfind t' ob = Some (items ++ extra)) ->
  In w (items_holders (tget [] t' ob)).
Proof.
  intros H K. destruct (tfind t ob) as [items|] eqn:F.
  - destruct (K items eq_refl) as [extra F']. rewrite (tget_of_tfind [] t ob items F) in H.
    rewrite (tget_of_tfind [] t' ob _ F'), items_holders_app. apply in_or_app. now left.
  - exfalso. rewrite (tfind_tget [] t ob), F in H. destruct H.
Qed.

Lemma close_tables_step xs o xs' es : oldop o = true -> x_op xs o = Some (xs', es) ->
  (forall ob items, tfind (cclosing xs) ob = Some items ->
     (exists extra, tfind (cclosing xs') ob = Some (items ++ extra)) \/ term_circ_on xs o ob) /\
  (forall ob items, tfind (sclosing xs) ob = Some items ->
     (exists extra, tfind (sclosing xs') ob = Some (items ++ extra)) \/ term_stream_on xs o ob) /\
  (forall c, In c (cmds xs) -> In c (cmds xs') \/ (o = OAck /\ exists q, cmds xs = c :: q)) /\
  (forall ob w ok, In (CmdC ob w ok) (cmds xs') ->
     In (CmdC ob w ok) (cmds xs) \/ (o = OCClose ob w /\ tfind (cclosing xs') ob <> None /\ get_c ob (base xs) <> None)) /\
  (forall ob, tfind (cclosing xs') ob <> None ->
     tfind (cclosing xs) ob <> None \/ (exists w, o = OCClose ob w /\ get_c ob (base xs) <> None)).
Proof.
  assert (Same : forall (t : list (N * list cbitem)) ob items, tfind t ob = Some items -> exists extra, tfind t ob = Some (items ++ extra)).
  { intros t ob items H. exists []. now rewrite app_nil_r. }
  intros Ho. destruct o as [e|l|l|o1 l|o1 l|o1 l|o1 l|o1 wt|o1 wt|o1 wt|o1 wt| |rs wt|id|]; try discriminate Ho; cbn [x_op].
  - destruct e as [id st path kw|id st cid host port kw]; intros X.
    + destruct (x_circ_tables _ _ _ _ _ _ _ X) as [A [B C]]. rewrite A, B, C.
      split; [|split; [|split; [|split]]]; [| intros ob items H; left; now apply Same | auto | auto |].
      * intros ob items H. destruct (c_terminal st) eqn:T; [|left; now apply Same].
        destruct (N.eq_dec (xc_obj xs id) ob) as [E|E].
        -- right. exists id, st, path, kw. auto.
        -- left. rewrite (tfind_tdel_other _ _ _ E). now apply Same.
      * intros ob H. left. destruct (c_terminal st); [|exact H].
        intros Hn. apply H. unfold tfind, tdel in *. destruct (kfind fst ob (kdel fst (xc_obj xs id) (cclosing xs))) as [p|] eqn:F; [|reflexivity].
        apply kfind_Some in F as [Ek Hin]. apply kdel_In in Hin.
        exfalso. destruct (kfind fst ob (cclosing xs)) eqn:F2; [discriminate|]. apply kfind_None in F2. apply F2. rewrite <- Ek. now apply in_map.
    + destruct (x_stream_tables _ _ _ _ _ _ _ _ _ X) as [A [B C]]. rewrite A, B, C.
      split; [|split; [|split; [|split]]]; [intros ob items H; left; now apply Same | | auto | auto | auto].
      * intros ob items H. destruct (s_terminal st) eqn:T; [|left; now apply Same].
        destruct (N.eq_dec (xs_obj xs id) ob) as [E|E].
        -- right. exists id, st, cid, host, port, kw. auto.
        -- left. rewrite (tfind_tdel_other _ _ _ E). now apply Same.
  - intros [= <- <-]. cbn [cclosing sclosing cmds]. repeat split; auto.
  - intros [= <- <-]. cbn [cclosing sclosing cmds]. repeat split; auto.
  - destruct (get_c o1 (base xs)); [|discriminate]. intros [= <- <-]. cbn [cclosing sclosing cmds]. repeat split; auto.
  - destruct (get_c o1 (base xs)); [|discriminate]. destruct (memN l _); [|discriminate]. intros [= <- <-]. cbn [cclosing sclosing cmds]. repeat split; auto.
  - destruct (get_s o1 (base xs)); [|discriminate]. intros [= <- <-]. cbn [cclosing sclosing cmds]. repeat split; auto.
  - destruct (get_s o1 (base xs)); [|discriminate]. destruct (memN l _); [|discriminate]. intros [= <- <-]. cbn [cclosing sclosing cmds]. repeat split; auto.
  - destruct (get_c o1 (base xs)) as [c|]; [|discriminate].
    assert (G : forall r, r = Some (xs', es) -> (exists e0, r = Some (xs, e0)) \/ (exists t, r = Some ({| base := base xs; cls := cls xs; sls := sls xs; gcl := gcl xs; gsl := gsl xs; wbs := t; wcs := wcs xs; cclosing := cclosing xs; sclosing := sclosing xs; cmds := cmds xs |}, [])) ->
                cclosing xs' = cclosing xs /\ sclosing xs' = sclosing xs /\ cmds xs' = cmds xs).
    { intros r Hr [[e0 H]|[t H]]; rewrite H in Hr; injection Hr as <- <-; repeat split. }
    intros X. assert (K : cclosing xs' = cclosing xs /\ sclosing xs' = sclosing xs /\ cmds xs' = cmds xs).
    { apply (G _ X). destruct (c_state c) as [[]|]; try (left; eexists; reflexivity);
        destruct (tget (OSPending []) (wbs xs) o1); [right | left | right | left | right | left | right | left | right | left | right | left]; eexists; reflexivity. }
    destruct K as [K1 [K2 K3]]. rewrite K1, K2, K3. repeat split; auto.
  - destruct (get_c o1 (base xs)) as [c|]; [|discriminate].
    assert (G : forall r, r = Some (xs', es) -> (exists e0, r = Some (xs, e0)) \/ (exists t, r = Some ({| base := base xs; cls := cls xs; sls := sls xs; gcl := gcl xs; gsl := gsl xs; wbs := wbs xs; wcs := t; cclosing := cclosing xs; sclosing := sclosing xs; cmds := cmds xs |}, [])) ->
                cclosing xs' = cclosing xs /\ sclosing xs' = sclosing xs /\ cmds xs' = cmds xs).
    { intros r Hr [[e0 H]|[t H]]; rewrite H in Hr; injection Hr as <- <-; repeat split. }
    intros X. assert (K : cclosing xs' = cclosing xs /\ sclosing xs' = sclosing xs /\ cmds xs' = cmds xs).
    { apply (G _ X). destruct (c_state c) as [[]|]; try (left; eexists; reflexivity);
        destruct (tget (OSPending []) (wcs xs) o1); [right | left | right | left | right | left | right | left | right | left]; eexists; reflexivity. }
    destruct K as [K1 [K2 K3]]. rewrite K1, K2, K3. repeat split; auto.
  - (* circuit close *)
    destruct (get_c o1 (base xs)) as [c|] eqn:Gc; [|discriminate].
    destruct (c_state c) as [[]|];
      try (intros [= <- <-]; cbn [cclosing sclosing cmds]; repeat split; auto; fail);
      (destruct (tfind (cclosing xs) o1) as [items0|] eqn:F; intros [= <- <-]; cbn [cclosing sclosing cmds];
       [ split; [|split; [|split; [|split]]]; [| intros ob items H; left; now apply Same | auto | auto |];
         [ intros ob items H; left; rewrite tfind_tset; destruct (N.eqb_spec o1 ob) as [E|E]; [subst ob|now apply Same];
           rewrite F in H; injection H as <-; eexists; reflexivity
         | intros ob H; rewrite tfind_tset in H; destruct (N.eqb_spec o1 ob) as [E|E]; [subst ob; left; rewrite F; discriminate | now left] ]
       | split; [|split; [|split; [|split]]]; [| intros ob items H; left; now apply Same | | |];
         [ intros ob items H; left; rewrite tfind_tset; destruct (N.eqb_spec o1 ob) as [E|E]; [congruence | now apply Same]
         | intros c0 H; left; apply in_or_app; now left
         | intros ob w ok H; apply in_app_or in H as [H|[H|[]]]; [now left|]; injection H as <- <- <-; right;
           split; [reflexivity|]; split; [rewrite tfind_tset, N.eqb_refl; discriminate | rewrite Gc; discriminate]
         | intros ob H; rewrite tfind_tset in H; destruct (N.eqb_spec o1 ob) as [E|E]; [subst ob|now left];
           right; exists wt; split; [reflexivity | rewrite Gc; discriminate] ] ]).
  - (* stream close *)
    destruct (get_s o1 (base xs)) as [x|]; [|discriminate].
    destruct (s_state x) as [[]|];
      try (intros [= <- <-]; cbn [cclosing sclosing cmds]; repeat split; auto; fail);
      (destruct (tfind (sclosing xs) o1) as [items0|] eqn:F; intros [= <- <-]; cbn [cclosing sclosing cmds];
       [ split; [|split; [|split; [|split]]]; auto;
         intros ob items H; left; rewrite tfind_tset; destruct (N.eqb_spec o1 ob) as [E|E]; [subst ob|now apply Same];
         rewrite F in H; injection H as <-; eexists; reflexivity
       | split; [|split; [|split; [|split]]]; auto;
         [ intros ob items H; left; rewrite tfind_tset; destruct (N.eqb_spec o1 ob) as [E|E]; [congruence | now apply Same]
         | intros c0 H; left; apply in_or_app; now left
         | intros ob w ok H; apply in_app_or in H as [H|[H|[]]]; [now left | discriminate H] ] ]).
  - (* acknowledgement *)
    destruct (cmds xs) as [|[ob wt ok|ob wt ok|wt] q] eqn:Ec; [| | |discriminate].
    + intros [= <- <-]. rewrite Ec. repeat split; auto.
    + assert (Pop : forall c0, In c0 (CmdC ob wt ok :: q) -> In c0 q \/ (OAck = OAck /\ exists q0, CmdC ob wt ok :: q = c0 :: q0)).
      { intros c0 [<-|H]; [right; split; [reflexivity | eexists; reflexivity] | now left]. }
      destruct ok.
      * destruct (tfind (cclosing xs) ob) as [items0|] eqn:F; intros [= <- <-]; cbn [cclosing sclosing cmds].
        -- split; [|split; [|split; [|split]]]; auto.
           ++ intros ob' items H. left. rewrite tfind_tset. destruct (N.eqb_spec ob ob') as [E|E]; [subst ob'|now apply Same].
              rewrite F in H. injection H as <-. eexists; reflexivity.
           ++ intros ob' w ok H. left. now right.
           ++ intros ob' H. rewrite tfind_tset in H. destruct (N.eqb_spec ob ob') as [E|E]; [subst ob'; left; rewrite F; discriminate | now left].
        -- split; [|split; [|split; [|split]]]; auto. intros ob' w ok H. left. now right.
      * intros [= <- <-]; cbn [cclosing sclosing cmds]. split; [|split; [|split; [|split]]]; auto. intros ob' w ok' H. left. now right.
    + assert (Pop : forall c0, In c0 (CmdS ob wt ok :: q) -> In c0 q \/ (OAck = OAck /\ exists q0, CmdS ob wt ok :: q = c0 :: q0)).
      { intros c0 [<-|H]; [right; split; [reflexivity | eexists; reflexivity] | now left]. }
      intros [= <- <-]; cbn [cclosing sclosing cmds]. split; [|split; [|split; [|split]]]; auto.
      * intros ob' items H. left. destruct ok; [|now apply Same].
        destruct (tfind (sclosing xs) ob) as [items0|] eqn:F; [|now apply Same].
        rewrite tfind_tset. destruct (N.eqb_spec ob ob') as [E|E]; [subst ob'|now apply Same].
        rewrite F in H. injection H as <-. eexists; reflexivity.
      * intros ob' w ok' H. left. now right.
Qed.

(* ---------------------------------------------------------------- facts about one step *)
Lemma x_op_det xs o a b : x_op xs o = Some a -> x_op xs o = Some b -> a = b.
Proof. congruence. Qed.

Lemma ev_legal_of_lstep ls e ls' : lstep ls (OEv e) = Some ls' -> ev_legal (l_tv ls) e = true.
Proof. cbn [lstep]; unfold lstep_ev. destruct (ev_legal (l_tv ls) e); [reflexivity | discriminate]. Qed.

Lemma nc_mono_ev ls e ls' : lstep_ev ls e = Some ls' -> l_nc ls <= l_nc ls' /\ l_ns ls <= l_ns ls'.
Proof.
  unfold lstep_ev. destruct (negb (ev_legal (l_tv ls) e)); [discriminate|]. destruct e as [id st path kw|id st cid host port kw].
  - destruct (locate id (l_cdict ls) (l_nc ls)) as [f n]. intros [= <-]. cbn. destruct f; lia.
  - destruct (locate id (l_sdict ls) (l_ns ls)) as [f n]. intros [= <-]. cbn. destruct f; lia.
Qed.

Lemma nc_mono ls o ls' : lstep ls o = Some ls' -> l_nc ls <= l_nc ls' /\ l_ns ls <= l_ns ls'.
Proof.
  destruct o as [e|l|l|o1 l|o1 l|o1 l|o1 l|o1 wt|o1 wt|o1 wt|o1 wt| |rs wt|id|]; cbn [lstep].
  - apply nc_mono_ev.
  - intros [= <-]. cbn. lia.
  - intros [= <-]. cbn. lia.
  - destruct (o1 <? l_nc ls); [|discriminate]. intros [= <-]. cbn. lia.
  - destruct ((o1 <? l_nc ls) && _); [|discriminate]. intros [= <-]. cbn. lia.
  - destruct (o1 <? l_ns ls); [|discriminate]. intros [= <-]. cbn. lia.
  - destruct ((o1 <? l_ns ls) && _); [|discriminate]. intros [= <-]. cbn. lia.
  - destruct ((o1 <? l_nc ls) && _); [|discriminate]. intros [= <-]. cbn. lia.
  - destruct ((o1 <? l_nc ls) && _); [|discriminate]. intros [= <-]. cbn. lia.
  - destruct (_ && _ && _); [|discriminate]. intros [= <-]. cbn. lia.
  - destruct (_ && _ && _); [|discriminate]. intros [= <-]. cbn. lia.
  - destruct (l_nb ls =? 0); [|discriminate]. intros [= <-]. cbn. lia.
  - destruct (_ && _); [|discriminate]. intros [= <-]. cbn. lia.
  - destruct (_ && _); [|discriminate]. destruct (lstep_ev ls (ext_event id)) as [l1|] eqn:E; [|discriminate].
    intros [= <-]. cbn [with_q l_nc l_ns]. now apply (nc_mono_ev ls (ext_event id)).
  - destruct (0 <? l_nb ls); [|discriminate]. intros [= <-]. cbn. lia.
Qed.

Lemma base_same xs o xs' es : oldop o = true -> x_op xs o = Some (xs', es) -> (forall e, o <> OEv e) -> base xs' = base xs.
Proof.
  intros Ho X Hne. destruct o as [e|l|l|o1 l|o1 l|o1 l|o1 l|o1 wt|o1 wt|o1 wt|o1 wt| |rs wt|id|]; try discriminate Ho; [exfalso; now apply (Hne e)| | | | | | | | | | |];
    cbn [x_op] in X.
  - now injection X as <- <-.
  - now injection X as <- <-.
  - destruct (get_c o1 (base xs)); [|discriminate]. now injection X as <- <-.
  - destruct (get_c o1 (base xs)); [|discriminate]. destruct (memN l _); [|discriminate]. now injection X as <- <-.
  - destruct (get_s o1 (base xs)); [|discriminate]. now injection X as <- <-.
  - destruct (get_s o1 (base xs)); [|discriminate]. destruct (memN l _); [|discriminate]. now injection X as <- <-.
  - destruct (get_c o1 (base xs)) as [c|]; [|discriminate].
    destruct (c_state c) as [[]|]; try (now injection X as <- <-); destruct (tget (OSPending []) (wbs xs) o1); now injection X as <- <-.
  - destruct (get_c o1 (base xs)) as [c|]; [|discriminate].
    destruct (c_state c) as [[]|]; try (now injection X as <- <-); destruct (tget (OSPending []) (wcs xs) o1); now injection X as <- <-.
  - destruct (get_c o1 (base xs)) as [c|]; [|discriminate].
    destruct (c_state c) as [[]|]; try (now injection X as <- <-); destruct (tfind (cclosing xs) o1); now injection X as <- <-.
  - destruct (get_s o1 (base xs)) as [x|]; [|discriminate].
    destruct (s_state x) as [[]|]; try (now injection X as <- <-); destruct (tfind (sclosing xs) o1); now injection X as <- <-.
  - destruct (cmds xs) as [|[ob wt ok|ob wt ok|wt] q]; [now injection X as <- <-| |now injection X as <- <-|discriminate].
    destruct ok; [destruct (tfind (cclosing xs) ob)|]; now injection X as <- <-.
Qed.

(* a terminal CIRC event: the object's cell records the status, and the object has left the dict *)
Lemma listed_live_step ls xs o ls' xs' es : oldop o = true -> Rel ls xs -> listed_live (base xs) ->
  lstep ls o = Some ls' -> x_op xs o = Some (xs', es) -> listed_live (base xs').
Proof.
  intros Ho R LL L X. pose proof (r_wf _ _ R) as W.
  destruct o as [e|l|l|o1 l|o1 l|o1 l|o1 l|o1 wt|o1 wt|o1 wt|o1 wt| |rs wt|id|]; try discriminate Ho;
    try (rewrite (base_same xs _ xs' es Ho X); [exact LL | intros e; discriminate]).
  pose proof (ev_legal_of_lstep _ _ _ L) as Lg. rewrite <- (r_tv _ _ R) in Lg.
  destruct e as [id st path kw|id st cid host port kw]; cbn [x_op] in X.
  - destruct (x_circ_told _ _ _ _ _ _ _ X) as [Eb _].
    destruct (circ_event_shape (base xs) id st path kw (base xs') W Eb) as [_ [_ [Sh3 [_ [[c' [Gc' [Ic' Sc']]] Sh6]]]]].
    intros p c Hp G.
    set (o := match kfind fst id (circuits (base xs)) with Some p => snd p | None => N.of_nat (length (cheap (base xs))) end) in *.
    destruct (N.eq_dec (snd p) o) as [E|E].
    + rewrite E, Gc' in G. injection G as <-. rewrite Sc'.
      destruct (c_terminal st) eqn:T; [|destruct st; cbn in T; try discriminate T; split; discriminate].
      (* terminal: the id is gone, so nothing lists the object *)
      exfalso. destruct (circuit_terminal_removes (base xs) id st path kw W (r_cp _ _ R) Lg T) as [s2 [E2 Hn]].
      cbn [step] in E2, Eb. rewrite Eb in E2. injection E2 as <-.
      destruct (wf_clive _ (r_wf _ _ (proj1 (rel_pres ls xs _ ls' xs' es R L X))) p Hp) as [c2 [G2 I2]].
      rewrite E, Gc' in G2. injection G2 as <-. apply Hn. rewrite <- Ic', I2. now apply in_map.
    + rewrite (Sh6 _ E) in G. apply (LL p c); [|exact G].
      rewrite Sh3 in Hp. cbv zeta in Hp.
      assert (Hd1 : In p (if match kfind fst id (circuits (base xs)) with Some _ => false | None => true end
                         then circuits (base xs) ++ [(id, o)] else circuits (base xs))).
      { destruct (c_terminal st); [eapply kdel_In; eauto | exact Hp]. }
      destruct (kfind fst id (circuits (base xs))); [exact Hd1|].
      apply in_app_or in Hd1 as [H|[H|[]]]; [exact H | subst p; cbn in E; congruence].
  - destruct (x_stream_told _ _ _ _ _ _ _ _ _ X) as [Eb _].
    destruct (stream_event_shape (base xs) id st cid host port kw (base xs') W Eb) as [[Sc1 [Sc2 Sc3]] _].
    intros p c Hp G. rewrite Sc1 in Hp. pose proof (Sc3 (snd p)) as S3. rewrite G in S3. cbn [option_map] in S3.
    destruct (get_c (snd p) (base xs)) as [c0|] eqn:G0; [|discriminate]. cbn [option_map] in S3. injection S3 as _ S3 _.
    rewrite S3. now apply (LL p c0).
Qed.

Lemma stream_terminal_gone xs id st cid host port kw s' : WF (base xs) -> Complete (base xs) ->
  ev_legal (abs (base xs)) (EStream id st cid host port kw) = true -> s_terminal st = true ->
  step (base xs) (EStream id st cid host port kw) = Some s' -> ~ In (xs_obj xs id) (map snd (streams s')).
Proof.
  intros W C Lg T E. unfold xs_obj. destruct (kfind fst id (streams (base xs))) as [p|] eqn:F.
  - destruct (kfind_Some fst _ _ _ F) as [Ep Hp]. destruct p as [a soid]. cbn [fst snd] in *. subst a.
    destruct (stream_terminal_removes (base xs) id soid st cid host port kw W C Lg T Hp) as [s2 [E2 [_ [H _]]]].
    rewrite E in E2. now injection E2 as <-.
  - cbn [step] in E. destruct (stream_event_shape (base xs) id st cid host port kw s' W E) as [_ [Sh _]].
    rewrite F, T in Sh. cbv zeta in Sh. rewrite Sh.
    change id with (fst (id, N.of_nat (length (sheap (base xs))))) at 1. rewrite kdel_app_last by (now apply kfind_None).
    intros Hi. apply in_map_iff in Hi as [q [Eq Hq]]. destruct (wf_slive _ W q Hq) as [x [G _]].
    pose proof (get_s_bound _ _ _ W G). lia.
Qed.

Lemma listed_slive_step ls xs o ls' xs' es : oldop o = true -> Rel ls xs -> listed_slive (base xs) ->
  lstep ls o = Some ls' -> x_op xs o = Some (xs', es) -> listed_slive (base xs').
Proof.
  intros Ho R LL L X. pose proof (r_wf _ _ R) as W.
  destruct o as [e|l|l|o1 l|o1 l|o1 l|o1 l|o1 wt|o1 wt|o1 wt|o1 wt| |rs wt|id|]; try discriminate Ho;
    try (rewrite (base_same xs _ xs' es Ho X); [exact LL | intros e; discriminate]).
  pose proof (ev_legal_of_lstep _ _ _ L) as Lg. rewrite <- (r_tv _ _ R) in Lg.
  destruct e as [id st path kw|id st cid host port kw]; cbn [x_op] in X.
  - destruct (x_circ_told _ _ _ _ _ _ _ X) as [Eb _].
    destruct (circ_event_shape (base xs) id st path kw (base xs') W Eb) as [Sh1 [Sh2 _]].
    intros p x Hp G. rewrite Sh2 in Hp. unfold get_s in G. rewrite Sh1 in G. exact (LL p x Hp G).
  - destruct (x_stream_told _ _ _ _ _ _ _ _ _ X) as [Eb _].
    destruct (stream_event_shape (base xs) id st cid host port kw (base xs') W Eb) as [_ [Sh3 [_ [_ Sh6]]]].
    destruct (stream_event_state (base xs) id st cid host port kw (base xs') W Eb) as [x' [Gx' Sx']].
    set (o := match kfind fst id (streams (base xs)) with Some p => snd p | None => N.of_nat (length (sheap (base xs))) end) in *.
    intros p x Hp G. destruct (N.eq_dec (snd p) o) as [E|E].
    + rewrite E, Gx' in G. injection G as <-. rewrite Sx'.
      destruct (s_terminal st) eqn:T; [|destruct st; cbn in T; try discriminate T; split; discriminate].
      exfalso. apply (stream_terminal_gone xs id st cid host port kw (base xs') W (r_cp _ _ R) Lg T Eb).
      change (xs_obj xs id) with o. rewrite <- E. now apply in_map.
    + rewrite (Sh6 _ E) in G. apply (LL p x); [|exact G].
      rewrite Sh3 in Hp. cbv zeta in Hp.
      assert (Hd1 : In p (if match kfind fst id (streams (base xs)) with Some _ => false | None => true end
                         then streams (base xs) ++ [(id, o)] else streams (base xs))).
      { destruct (s_terminal st); [eapply kdel_In; eauto | exact Hp]. }
      destruct (kfind fst id (streams (base xs))); [exact Hd1|].
      apply in_app_or in Hd1 as [H|[H|[]]]; [exact H | subst p; cbn in E; congruence].
Qed.

Lemma held_cc xs ob (w : N) : In w (items_holders (tget [] (cclosing xs) ob)) -> In w (holders xs).
Proof.
  intros H. apply countN_pos_In. rewrite holders_count. unfold hcount.
  pose proof (count_tget_le items_holders [] w (cclosing xs) ob eq_refl). pose proof (countN_In_pos _ _ H). lia.
Qed.
Lemma held_sc xs ob (w : N) : In w (items_holders (tget [] (sclosing xs) ob)) -> In w (holders xs).
Proof.
  intros H. apply countN_pos_In. rewrite holders_count. unfold hcount.
  pose proof (count_tget_le items_holders [] w (sclosing xs) ob eq_refl). pose proof (countN_In_pos _ _ H). lia.
Qed.
Lemma held_cmd xs ob (w : N) ok : In (CmdC ob w ok) (cmds xs) -> In w (holders xs).
Proof.
  intros H. unfold holders. repeat (apply in_or_app; right). apply in_concat. exists [w]. split; [|now left].
  apply in_map_iff. exists (CmdC ob w ok). auto.
Qed.

Lemma done_not_held xs o xs' es (w : N) r (used : list N) : x_op xs o = Some (xs', es) ->
  (forall w, (countN w (holders xs) <= 1)%nat) -> (forall w, In w (holders xs) -> In w used) ->
  (forall w, In w (req_id o) -> ~ In w used) ->
  In (NDone w r) es -> ~ In w (holders xs').
Proof.
  intros X Hc Hu Hf Hd Hh.
  pose proof (conservation xs o xs' es w X) as K. pose proof (countN_In_pos _ _ Hh) as K1.
  assert (K2 : (1 <= countN w (done_ids es))%nat).
  { apply countN_In_pos. unfold done_ids, dones. apply in_map_iff. exists (w, r). split; [reflexivity|].
    apply in_concat. exists [(w, r)]. split; [|now left]. apply in_map_iff. exists (NDone w r). auto. }
  assert (R1 : (countN w (req_id o) <= 1)%nat) by (destruct o; cbn; try lia; destruct (w =? _); lia).
  destruct (in_dec N.eq_dec w (req_id o)) as [i|n].
  - assert (countN w (holders xs) = O) by (apply countN_notin; intros H; apply (Hf w i); now apply Hu). lia.
  - rewrite (countN_notin _ _ n) in K. specialize (Hc w). lia.
Qed.

Lemma items_nonempty_found (t : list (N * list cbitem)) ob (w : N) :
  In w (items_holders (tget [] t ob)) -> exists items, tfind t ob = Some items.
Proof.
  intros H. destruct (tfind t ob) as [items|] eqn:F; [eauto|]. rewrite (tfind_tget [] t ob), F in H. destruct H.
Qed.

(* a terminal CIRC event on an object takes it out of TorState.circuits *)
Lemma term_circ_gone ls xs o ls' xs' es ob : Rel ls xs -> listed_live (base xs') ->
  lstep ls o = Some ls' -> x_op xs o = Some (xs', es) -> term_circ_on xs o ob -> gone_c xs' ob.
Proof.
  intros R LL' L X [id [st [path [kw [-> [T ->]]]]]]. cbn [x_op] in X.
  destruct (x_circ_told _ _ _ _ _ _ _ X) as [Eb _].
  destruct (circ_event_shape (base xs) id st path kw (base xs') (r_wf _ _ R) Eb) as [_ [_ [_ [_ [[c' [Gc' [_ Sc']]] _]]]]].
  change (get_c (xc_obj xs id) (base xs') = Some c') in Gc'.
  intros Hi. apply in_map_iff in Hi as [p [Ep Hp]]. rewrite <- Ep in Gc'.
  destruct (LL' p c' Hp Gc') as [A B]. rewrite Sc' in A, B. destruct st; try discriminate T; congruence.
Qed.

Lemma inv3_step_old ls xs o ls' xs' es : oldop o = true -> Inv3 ls xs -> lstep ls o = Some ls' -> x_op xs o = Some (xs', es) ->
  Inv3 ls' xs' /\
  (forall w r ob, In (NDone w r) es -> is_ok r = true -> cwait_c xs o w ob -> gone_c xs' ob) /\
  (forall w r ob, In (NDone w r) es -> is_ok r = true -> cwait_s xs o w ob -> gone_s xs' ob).
Proof.
  intros Ho I L X. pose proof (i_rel _ _ I) as R.
  assert (R' : Rel ls' xs') by (exact (proj1 (rel_pres ls xs o ls' xs' es R L X))).
  destruct (lstep_used ls o ls' L) as [Hused Hfresh].
  destruct (hold_step xs o xs' es (l_used ls) X (i_cnt _ _ I) (i_used _ _ I) Hfresh) as [HC HU].
  pose proof (listed_live_step ls xs o ls' xs' es Ho R (i_live _ _ I) L X) as LL'.
  pose proof (listed_slive_step ls xs o ls' xs' es Ho R (i_slive _ _ I) L X) as SL'.
  destruct (close_tables_step xs o xs' es Ho X) as [T1 [T2 [T3 [T4 T5]]]].
  destruct (nc_mono ls o ls' L) as [Mc Ms].
  assert (NotHeld : forall w r, In (NDone w r) es -> ~ In w (holders xs')).
  { intros w r. apply (done_not_held xs o xs' es w r (l_used ls) X (i_cnt _ _ I) (i_used _ _ I) Hfresh). }
  assert (Bound : forall ob, get_c ob (base xs) <> None -> ob < l_nc ls).
  { intros ob H. destruct (get_c ob (base xs)) as [c|] eqn:G; [|congruence]. rewrite <- (r_nc _ _ R). eapply get_c_bound; eauto. exact (r_wf _ _ R). }
  split; [|split].
  - constructor.
    + exact R'.
    + exact LL'.
    + exact SL'.
    + exact HC.
    + intros w H. rewrite Hused. now apply HU.
    + intros ob w ok H. destruct (T4 ob w ok H) as [Hold|[_ [Hnew _]]]; [|now left].
      destruct (i_cmd _ _ I ob w ok Hold) as [Hp|Hg].
      * destruct (tfind (cclosing xs) ob) as [items|] eqn:F; [|congruence].
        destruct (T1 ob items F) as [[extra F']|Ht]; [left; rewrite F'; discriminate|].
        right. exact (term_circ_gone ls xs o ls' xs' es ob R LL' L X Ht).
      * right. exact (gone_c_stable ls xs o ls' xs' es ob Ho R L X (i_cmd_ex _ _ I ob w ok Hold) Hg).
    + intros ob w ok H. destruct (T4 ob w ok H) as [Hold|[_ [_ Hnew]]].
      * pose proof (i_cmd_ex _ _ I ob w ok Hold). lia.
      * pose proof (Bound ob Hnew). lia.
    + intros ob H. destruct (T5 ob H) as [Hold|[w [_ Hnew]]].
      * pose proof (i_cc_ex _ _ I ob Hold). lia.
      * pose proof (Bound ob Hnew). lia.
  - (* circuit close waits *)
    intros w r ob Hd Hok [Hreq|[Hit|[ok Hcmd]]].
    + (* answered at once: only when the state is CLOSED *)
      subst o. cbn [x_op] in X. destruct (get_c ob (base xs)) as [c|] eqn:G; [|discriminate].
      assert (Cl : c_state c = Some CClosed \/ c_state c = Some CFailed).
      { destruct (c_state c) as [[]|] eqn:Ec; auto;
          (destruct (tfind (cclosing xs) ob); injection X as <- <-; exfalso; cbn in Hd; intuition discriminate). }
      assert (Bs : base xs' = base xs) by (destruct Cl as [Cl|Cl]; rewrite Cl in X; now injection X as <- <-).
      unfold gone_c. rewrite Bs. intros Hi. apply in_map_iff in Hi as [p [Ep Hp]].
      rewrite <- Ep in G. destruct (i_live _ _ I p c Hp G) as [A B]. destruct Cl; congruence.
    + destruct (items_nonempty_found _ _ _ Hit) as [items F].
      destruct (T1 ob items F) as [[extra F']|Ht]; [|exact (term_circ_gone ls xs o ls' xs' es ob R LL' L X Ht)].
      exfalso. apply (NotHeld w r Hd). apply (held_cc xs' ob). rewrite (tget_of_tfind [] _ _ _ F'), items_holders_app.
      apply in_or_app. left. now rewrite (tget_of_tfind [] _ _ _ F) in Hit.
    + destruct (T3 _ Hcmd) as [Hstill|[-> [q Hq]]]; [exfalso; apply (NotHeld w r Hd); eapply held_cmd; eauto|].
      cbn [x_op] in X. rewrite Hq in X.
      assert (Bs : base xs' = base xs).
      { destruct ok; [destruct (tfind (cclosing xs) ob)|]; now injection X as <- <-. }
      unfold gone_c. rewrite Bs.
      destruct (i_cmd _ _ I ob w ok Hcmd) as [Hp|Hg]; [|exact Hg].
      exfalso. destruct ok.
      * destruct (tfind (cclosing xs) ob); [|congruence]. injection X as <- <-. destruct Hd.
      * injection X as <- <-. destruct Hd as [Hd|[]]. injection Hd as <-. discriminate Hok.
  - (* stream close waits *)
    intros w r ob Hd Hok [Hreq|Hit].
    + subst o. cbn [x_op] in X. destruct (get_s ob (base xs)) as [x|] eqn:G; [|discriminate].
      assert (Cl : s_state x = Some SClosed \/ s_state x = Some SFailed).
      { destruct (s_state x) as [[]|] eqn:Ec; auto;
          (destruct (tfind (sclosing xs) ob); injection X as <- <-; exfalso; cbn in Hd; intuition discriminate). }
      assert (Bs : base xs' = base xs) by (destruct Cl as [Cl|Cl]; rewrite Cl in X; now injection X as <- <-).
      unfold gone_s. rewrite Bs. intros Hi. apply in_map_iff in Hi as [p [Ep Hp]].
      rewrite <- Ep in G. destruct (i_slive _ _ I p x Hp G) as [A B]. destruct Cl; congruence.
    + destruct (items_nonempty_found _ _ _ Hit) as [items F].
      destruct (T2 ob items F) as [[extra F']|Ht].
      * exfalso. apply (NotHeld w r Hd). apply (held_sc xs' ob). rewrite (tget_of_tfind [] _ _ _ F'), items_holders_app.
        apply in_or_app. left. now rewrite (tget_of_tfind [] _ _ _ F) in Hit.
      * destruct Ht as [id [st [cid [host [port [kw [-> [T ->]]]]]]]]. cbn [x_op] in X.
        destruct (x_stream_told _ _ _ _ _ _ _ _ _ X) as [Eb _].
        pose proof (ev_legal_of_lstep _ _ _ L) as Lg. rewrite <- (r_tv _ _ R) in Lg.
        unfold gone_s. eapply stream_terminal_gone; eauto; [exact (r_wf _ _ R) | exact (r_cp _ _ R)].
Qed.

(* build_circuit() and its answers: a frame step, resp. the event "id EXTENDED" followed by a frame step *)
Lemma inv3_step ls xs o ls' xs' es : Inv3 ls xs -> lstep ls o = Some ls' -> x_op xs o = Some (xs', es) ->
  Inv3 ls' xs' /\
  (forall w r ob, In (NDone w r) es -> is_ok r = true -> cwait_c xs o w ob -> gone_c xs' ob) /\
  (forall w r ob, In (NDone w r) es -> is_ok r = true -> cwait_s xs o w ob -> gone_s xs' ob).
Proof.
  intros I L X. destruct (oldop o) eqn:Ho; [now apply (inv3_step_old ls xs o ls' xs' es)|].
  pose proof (i_rel _ _ I) as R.
  destruct (rel_pres ls xs o ls' xs' es R L X) as [R' _].
  destruct (lstep_used ls o ls' L) as [Hused Hfresh].
  destruct (hold_step xs o xs' es (l_used ls) X (i_cnt _ _ I) (i_used _ _ I) Hfresh) as [HC HU].
  assert (HU' : forall w, In w (holders xs') -> In w (l_used ls')) by (intros w H; rewrite Hused; now apply HU).
  destruct (nc_mono ls o ls' L) as [Mc Ms].
  destruct o as [e|l|l|o1 l|o1 l|o1 l|o1 l|o1 wt|o1 wt|o1 wt|o1 wt| |rs wt|id|]; try discriminate Ho; cbn [x_op] in X.
  - (* build_circuit *)
    injection X as <- <-. split; [|split].
    + constructor; cbn [base cmds cclosing]; auto.
      * exact (i_live _ _ I).
      * exact (i_slive _ _ I).
      * intros ob w ok H. apply in_app_or in H as [H|[H|[]]]; [|discriminate]. exact (i_cmd _ _ I ob w ok H).
      * intros ob w ok H. apply in_app_or in H as [H|[H|[]]]; [|discriminate]. pose proof (i_cmd_ex _ _ I ob w ok H). lia.
      * intros ob H. pose proof (i_cc_ex _ _ I ob H). lia.
    + intros w r ob Hd. exfalso. cbn [In] in Hd. destruct Hd as [Hd|Hd]; [discriminate|].
      apply in_map_iff in Hd as [x [Hx _]]. discriminate.
    + intros w r ob Hd. exfalso. cbn [In] in Hd. destruct Hd as [Hd|Hd]; [discriminate|].
      apply in_map_iff in Hd as [x [Hx _]]. discriminate.
  - (* 250 EXTENDED id *)
    destruct (cmds xs) as [|[ob0 w0 ok0|ob0 w0 ok0|w0] q] eqn:Ec; try discriminate.
    destruct (x_circ xs id CExtended [] []) as [[xs1 es1]|] eqn:X1; [|discriminate]. injection X as <- <-.
    cbn [lstep] in L. destruct (_ && _) in L; [|discriminate].
    destruct (lstep_ev ls (ext_event id)) as [l1|] eqn:L1; [|discriminate]. injection L as <-.
    destruct (inv3_step_old ls xs (OEv (ext_event id)) l1 xs1 es1 eq_refl I L1 X1) as [I1 [Pc Ps]].
    destruct (x_circ_tables _ _ _ _ _ _ _ X1) as [T1 [T2 T3]].
    assert (Wslot : In w0 (slot_ids xs SlCmd)) by (cbn [slot_ids]; rewrite Ec; now left).
    split; [|split].
    + constructor; cbn [base cmds cclosing with_q l_nc]; auto.
      * exact (i_live _ _ I1).
      * exact (i_slive _ _ I1).
      * intros ob w ok H. apply (i_cmd _ _ I1 ob w ok). rewrite T2, Ec. now right.
      * intros ob w ok H. apply (i_cmd_ex _ _ I1 ob w ok). rewrite T2, Ec. now right.
      * exact (i_cc_ex _ _ I1).
    + intros w r ob Hd Hok Hw. apply in_app_or in Hd as [Hd|[Hd|[]]].
      * apply (Pc w r ob Hd Hok). destruct Hw as [Hw|Hw]; [discriminate | right; exact Hw].
      * injection Hd as <- <-. exfalso. destruct Hw as [Hw|[Hw|[ok Hw]]]; [discriminate| |].
        -- discriminate (slot_unique xs (i_cnt _ _ I) w0 (SlCC ob) SlCmd Hw Wslot).
        -- pose proof (slot_nodup xs (i_cnt _ _ I) SlCmd) as Nd. cbn [slot_ids] in Nd. rewrite Ec in Nd, Hw.
           cbn [map concat cmd_holders app] in Nd. inversion Nd as [|? ? Hn _]; subst. apply Hn.
           destruct Hw as [Hw|Hw]; [discriminate|]. apply in_concat. exists [w0]. split; [|now left].
           apply in_map_iff. exists (CmdC ob w0 ok). auto.
    + intros w r ob Hd Hok Hw. apply in_app_or in Hd as [Hd|[Hd|[]]].
      * apply (Ps w r ob Hd Hok). destruct Hw as [Hw|Hw]; [discriminate | right; exact Hw].
      * injection Hd as <- <-. exfalso. destruct Hw as [Hw|Hw]; [discriminate|].
        discriminate (slot_unique xs (i_cnt _ _ I) w0 (SlSC ob) SlCmd Hw Wslot).
  - (* 5xx *)
    destruct (cmds xs) as [|[ob0 w0 ok0|ob0 w0 ok0|w0] q] eqn:Ec; try discriminate. injection X as <- <-.
    split; [|split].
    + constructor; cbn [base cmds cclosing]; auto.
      * exact (i_live _ _ I).
      * exact (i_slive _ _ I).
      * intros ob w ok H. apply (i_cmd _ _ I ob w ok). rewrite Ec. now right.
      * intros ob w ok H. pose proof (i_cmd_ex _ _ I ob w ok). rewrite Ec in H0. specialize (H0 (or_intror H)). lia.
      * intros ob H. pose proof (i_cc_ex _ _ I ob H). lia.
    + intros w r ob [Hd|[]] Hok. injection Hd as <- <-. discriminate Hok.
    + intros w r ob [Hd|[]] Hok. injection Hd as <- <-. discriminate Hok.
Qed.

(* along a run: whenever a close wait of object ob completes successfully in an operation, ob is no longer
   listed in TorState.circuits / TorState.streams after that operation *)
Fixpoint close_sound_from (xs : xstate) (ops : list op) : Prop :=
  match ops with
  | [] => True
  | o :: t =>
      match x_op xs o with
      | Some (xs', es) =>
          (forall w r ob, In (NDone w r) es -> is_ok r = true ->
             (cwait_c xs o w ob -> gone_c xs' ob) /\ (cwait_s xs o w ob -> gone_s xs' ob))
          /\ close_sound_from xs' t
      | None => True
      end
  end.

Lemma close_sound_run ops : forall ls xs, Inv3 ls xs -> legal8_from ls ops = true -> close_sound_from xs ops.
Proof.
  induction ops as [|o t IH]; intros ls xs I L; cbn [close_sound_from legal8_from] in *; [exact Logic.I|].
  destruct (lstep ls o) as [ls'|] eqn:E; [|discriminate].
  destruct (x_op xs o) as [[xs' es]|] eqn:X; [|exact Logic.I].
  destruct (inv3_step ls xs o ls' xs' es I E X) as [I' [Pc Ps]].
  split; [|now apply (IH ls' xs')].
  intros w r ob Hd Hok. split; [now apply (Pc w r ob) | now apply (Ps w r ob)].
Qed.

Lemma close_waits_for_event rts ops : legal8 ops = true -> close_sound_from (xinit rts) ops.
Proof. intros L. exact (close_sound_run ops ls0 (xinit rts) (Inv3_init rts) L). Qed.
