(* C17: lemmas about Model/Listen.v against Spec/C17.v *)
From Coq Require Import List Bool Arith NArith Lia.
From TxVerif Require Import Lib.ListSet Spec.C15 Spec.C17 Model.DescUpload Model.Listen Proofs.C15Proofs.
Import ListNotations.
Open Scope N_scope.

Definition plain_ctor : ctor_args :=
  {| a_eph := TNone; a_hsdir := false; a_auth := ANone; a_stealth_kw := false; a_key := KNone; a_ver := VNone; a_single := TNone |}.
Definition cfg_of (r : route) : cfg := {| g_route := r; g_pub := 80; g_bound := 45017; g_pending := false; g_bind_ok := true; g_two_clients := false; g_same_dir := false |}.

(* ---- regression anchors: the witnesses of the repaired findings C17-F1 (64ae05b) and C17-F2 (d08dcab) ---- *)
Definition refused_only : list lrec := [{| l_evs := [ORefused]; l_open := 0 |}].

Lemma late_refusal_now_accepted :
  let c := cfg_of (RCtor {| a_eph := TNone; a_hsdir := false; a_auth := ANone; a_stealth_kw := false; a_key := KRsa;
                            a_ver := V3; a_single := TNone |}) in
  let cs := cfg_of (RStr {| s_hsd := false; s_key := KRsa; s_keyfile := KFNone; s_ver := SV3; s_hop := SHNone;
                            s_control := false |}) in
  let cf := cfg_of (RStr {| s_hsd := false; s_key := KNone; s_keyfile := KFPem; s_ver := SV3; s_hop := SHNone;
                            s_control := true |}) in
  lrun c [] = refused_only /\ oracle c [] (lrun c []) = true
  /\ lrun cs [] = refused_only /\ oracle cs [] (lrun cs []) = true
  /\ lrun cf [] = refused_only /\ oracle cf [] (lrun cf []) = true.
Proof. vm_compute. repeat split; reflexivity. Qed.

Lemma string_started_tor_now_accepted :
  let c := cfg_of (RStr {| s_hsd := true; s_key := KNone; s_keyfile := KFNone; s_ver := SVNone; s_hop := SHtrue;
                           s_control := false |}) in
  lrun c [] = refused_only /\ oracle c [] (lrun c []) = true.
Proof. vm_compute. repeat split; reflexivity. Qed.

Lemma disconnect_in_wait_refuted :
  exists c ops, wf c ops = true /\ oracle c ops (lrun c ops) = false.
Proof.
  exists (cfg_of (RCtor plain_ctor)), [LDesc Reply; LDesc (Ev KUpload 1 1); LDisconnect; LStop].
  vm_compute. auto.
Qed.

(* ====================================================================================== *)
(* No local listener stays open after listen() has failed: every configuration, every history *)
(* ====================================================================================== *)
Definition Kinv (s : lst) : Prop := p_ph s = POver false -> p_open s = false /\ p_port s = false.

Lemma fail_now_facts k w : p_ph (fst (fail_now k w)) = POver false /\ p_open (fst (fail_now k w)) = false
                           /\ p_port (fst (fail_now k w)) = false.
Proof. cbn. auto. Qed.

Lemma on_done_noleak hok s m' evs s' out :
  on_done hok s m' evs = (s', out) -> p_ph s <> POver false ->
  Kinv s' /\ (has_failure out = true -> p_ph s' = POver false).
Proof.
  unfold on_done. intros H Hs. destruct (dones evs) as [|[h| | |k] rest]; inversion H; subst; clear H; unfold Kinv; cbn;
    split; intros; try discriminate; auto.
Qed.

Lemma config_ready_kinv c q s evs :
  config_ready c q = (s, evs) ->
  Kinv s /\ (has_failure evs = true -> p_ph s = POver false).
Proof.
  unfold config_ready. intros H.
  destruct (negb (g_bind_ok c)); [|destruct (negb (q_eph q) && q_hsdir q && g_same_dir c)];
    inversion H; subst; unfold Kinv; cbn; split; intros; try discriminate; auto.
Qed.

Lemma lstep_noleak c q s o s' evs :
  lstep_model c q s o = (s', evs) -> Kinv s ->
  Kinv s' /\ (has_failure evs = true -> p_ph s' = POver false) /\ (p_ph s = POver false -> p_ph s' = POver false).
Proof.
  intros H HK. unfold lstep_model in H.
  destruct (p_ph s) as [|m|ok] eqn:Ph.
  - (* awaiting config *)
    destruct o as [| | |d| |]; try (inversion H; subst; unfold Kinv; cbn; rewrite ?Ph; repeat split; intros; try discriminate; auto; fail).
    destruct (config_ready_kinv _ _ _ _ H) as (K1 & K2). refine (conj K1 (conj K2 _)). intros X; discriminate X.
  - destruct o as [| | |d| |]; try (inversion H; subst; unfold Kinv; cbn; rewrite ?Ph; repeat split; intros; try discriminate; auto; fail).
    + (* HS_DESC / answer *)
      assert (G : forall hok m' e15, on_done hok s m' e15 = (s', evs) ->
                  Kinv s' /\ (has_failure evs = true -> p_ph s' = POver false) /\ (PCreate m = POver false -> p_ph s' = POver false)).
      { intros hok m' e15 E. apply on_done_noleak in E; [|rewrite Ph; discriminate]. destruct E as [E1 E2].
        refine (conj E1 (conj E2 _)). intros X. discriminate X. }
      destruct d as [k a dd| |]; destruct (m_rep m) eqn:R;
        try (destruct (DescUpload.step c15cfg m _) as [m' e15] eqn:E; exact (G _ _ _ H));
        inversion H; subst; unfold Kinv; cbn; rewrite ?Ph; repeat split; intros; try discriminate; auto.
    + destruct (m_rep m); inversion H; subst; unfold Kinv; cbn; rewrite ?Ph; repeat split; intros; try discriminate; auto.
  - assert (Same : forall out, has_failure out = false ->
                   Kinv s /\ (has_failure out = true -> p_ph s = POver false) /\ (POver ok = POver false -> p_ph s = POver false)).
    { intros out Ho. refine (conj HK (conj _ (fun X => eq_trans Ph X))). rewrite Ho. discriminate. }
    destruct o as [| | |d| |].
    + inversion H; subst. exact (Same [] eq_refl).
    + inversion H; subst. exact (Same [] eq_refl).
    + inversion H; subst. exact (Same [] eq_refl).
    + destruct d as [k a dd| |]; inversion H; subst; now apply Same.
    + inversion H; subst. now apply Same.
    + destruct (p_port s) eqn:Pp; inversion H; subst; [|now apply Same].
      unfold Kinv. cbn. refine (conj _ (conj _ (fun X => X))); [auto | discriminate].
Qed.

Lemma lrun_from_noleak c q ops : forall s failed,
  Kinv s -> (failed = true -> p_ph s = POver false) -> no_leak failed (lrun_from c q s ops) = true.
Proof.
  induction ops as [|o ops IH]; intros s failed HK Hf; [reflexivity|].
  cbn [lrun_from]. destruct (lstep_model c q s o) as [s' evs] eqn:E.
  destruct (lstep_noleak _ _ _ _ _ _ E HK) as (HK' & Hfail & Hstay).
  cbn [no_leak lsnap l_evs l_open].
  assert (Hf' : failed || has_failure evs = true -> p_ph s' = POver false).
  { intros H. apply orb_true_iff in H as [H|H]; auto. }
  apply andb_true_iff. split; [|now apply IH].
  destruct (failed || has_failure evs) eqn:F; [|reflexivity]. cbn [negb orb].
  destruct (HK' (Hf' eq_refl)) as (Ho & _). now rewrite Ho.
Qed.

Lemma lrun_noleak c ops : no_leak false (lrun c ops) = true.
Proof.
  unfold lrun, construct_rec. destruct (build (g_route c)) as [st|st q].
  - cbn. destruct st; reflexivity.
  - cbn [no_leak l_evs l_open].
    assert (E0 : has_failure ((if st then [OStartedTor] else []) ++
                   (if negb (q_eph q) && negb (q_hsdir q) then [OMkdtemp; OTrigger] else []) ++ [OConstructed]) = false).
    { destruct st, (negb (q_eph q) && negb (q_hsdir q)); reflexivity. }
    rewrite E0. cbn [orb negb andb].
    destruct (listen_call c q) as [s evs] eqn:E. cbn [no_leak lsnap l_evs l_open].
    assert (G : Kinv s /\ (has_failure evs = true -> p_ph s = POver false)).
    { unfold listen_call in E. destruct (g_pending c); [|exact (config_ready_kinv _ _ _ _ E)].
      inversion E; subst; unfold Kinv; cbn; split; intros; try discriminate; auto. }
    destruct G as (HK & Hf). apply andb_true_iff. split.
    + destruct (has_failure evs) eqn:F; [|reflexivity]. cbn. destruct (HK (Hf eq_refl)) as (Ho & _). now rewrite Ho.
    + apply lrun_from_noleak; auto.
Qed.

(* ====================================================================================== *)
(* One bind, on loopback; one command, with exactly the mapping: every configuration/history *)
(* ====================================================================================== *)
Definition quiet (evs : list lobs) : bool :=
  forallb (fun e => match e with OListen _ _ _ | OCmd _ _ => false | _ => true end) evs.

Lemma lm_quiet c evs : forall nl nc b, (nl <= 1)%nat -> (nc <= 1)%nat -> quiet evs = true ->
  loopback_and_mapping_evs c nl nc b evs = ((nl, nc, b), true).
Proof.
  induction evs as [|e evs IH]; intros nl nc b Hl Hc Hq; [reflexivity|].
  cbn [quiet forallb] in Hq. apply andb_true_iff in Hq as [He Hq]. cbn [loopback_and_mapping_evs].
  destruct e; try discriminate; rewrite (IH nl nc b Hl Hc Hq); cbn [good_obs andb];
    rewrite (proj2 (Nat.leb_le _ _) Hl), (proj2 (Nat.leb_le _ _) Hc); reflexivity.
Qed.

Lemma on_done_quiet hok s m' e15 s' out : on_done hok s m' e15 = (s', out) -> quiet out = true /\ p_ph s' <> PCfg.
Proof.
  unfold on_done. destruct (dones e15) as [|[h| | |k] rest]; intros H; inversion H; subst; cbn; split; auto; discriminate.
Qed.

Lemma lstep_quiet c q s o s' evs :
  lstep_model c q s o = (s', evs) -> p_ph s <> PCfg -> quiet evs = true /\ p_ph s' <> PCfg.
Proof.
  intros H Hp. unfold lstep_model in H. destruct (p_ph s) as [|m|ok] eqn:Ph; [congruence| |].
  - destruct o as [| | |d| |]; try (inversion H; subst; cbn; rewrite ?Ph; split; [reflexivity | discriminate]).
    + destruct d as [k a dd| |]; destruct (m_rep m);
        try (destruct (DescUpload.step c15cfg m _) as [m' e15]; now apply on_done_quiet in H);
        inversion H; subst; cbn; rewrite ?Ph; split; auto; discriminate.
    + destruct (m_rep m); inversion H; subst; cbn; rewrite ?Ph; split; auto; discriminate.
  - destruct o as [| | |d| |]; try (inversion H; subst; cbn; rewrite ?Ph; split; [reflexivity | discriminate]).
    + destruct d as [k a dd| |]; inversion H; subst; cbn; rewrite ?Ph; split; auto; discriminate.
    + destruct (p_port s); inversion H; subst; cbn; rewrite ?Ph; split; auto; discriminate.
Qed.

Lemma lrun_from_quiet c q ops : forall s nl nc b, (nl <= 1)%nat -> (nc <= 1)%nat -> p_ph s <> PCfg ->
  loopback_and_mapping c nl nc b (lrun_from c q s ops) = true.
Proof.
  induction ops as [|o ops IH]; intros s nl nc b Hl Hc Hp; [reflexivity|].
  cbn [lrun_from]. destruct (lstep_model c q s o) as [s' evs] eqn:E.
  destruct (lstep_quiet _ _ _ _ _ _ E Hp) as (Hq & Hp').
  cbn [loopback_and_mapping lsnap l_evs]. rewrite (lm_quiet c evs nl nc b Hl Hc Hq). cbn [andb]. now apply IH.
Qed.

Lemma config_ready_lm c q s evs :
  config_ready c q = (s, evs) ->
  exists nl nc b, loopback_and_mapping_evs c 0 0 false evs = ((nl, nc, b), true) /\ (nl <= 1)%nat /\ (nc <= 1)%nat
                  /\ p_ph s <> PCfg.
Proof.
  unfold config_ready. destruct (negb (g_bind_ok c)); [|destruct (negb (q_eph q) && q_hsdir q && g_same_dir c)];
    intros H; inversion H; subst; cbn.
  - exists 1%nat, 0%nat, false. repeat split; auto; discriminate.
  - exists 1%nat, 0%nat, true. repeat split; auto; discriminate.
  - rewrite !N.eqb_refl. cbn. exists 1%nat, 1%nat, true. repeat split; auto; discriminate.
Qed.

Lemma lrun_from_cfg c q ops : forall s, p_ph s = PCfg ->
  loopback_and_mapping c 0 0 false (lrun_from c q s ops) = true.
Proof.
  induction ops as [|o ops IH]; intros s Hp; [reflexivity|].
  cbn [lrun_from]. destruct (lstep_model c q s o) as [s' evs] eqn:E. cbn [loopback_and_mapping lsnap l_evs].
  unfold lstep_model in E. rewrite Hp in E. destruct o as [| | |d| |].
  - destruct (config_ready_lm _ _ _ _ E) as (nl & nc & b & E1 & Hl & Hc & Hp'). rewrite E1. cbn [andb].
    now apply lrun_from_quiet.
  - inversion E; subst. cbn. apply lrun_from_quiet; [lia | lia | cbn; discriminate].
  - inversion E; subst. cbn. apply lrun_from_quiet; [lia | lia | cbn; discriminate].
  - inversion E; subst. cbn. now apply IH.
  - inversion E; subst. cbn. now apply IH.
  - inversion E; subst. cbn. now apply IH.
Qed.

Lemma lrun_loopback_and_mapping c ops : loopback_and_mapping c 0 0 false (lrun c ops) = true.
Proof.
  unfold lrun, construct_rec. destruct (build (g_route c)) as [st|st q].
  - destruct st; reflexivity.
  - cbn [loopback_and_mapping l_evs].
    rewrite (lm_quiet c _ 0 0 false) by (try lia; destruct st, (negb (q_eph q) && negb (q_hsdir q)); reflexivity).
    cbn [andb]. destruct (listen_call c q) as [s evs] eqn:E. cbn [loopback_and_mapping lsnap l_evs].
    unfold listen_call in E. destruct (g_pending c).
    + inversion E; subst. cbn. now apply lrun_from_cfg.
    + destruct (config_ready_lm _ _ _ _ E) as (nl & nc & b & E1 & Hl & Hc & Hp'). rewrite E1. cbn [andb].
      now apply lrun_from_quiet.
Qed.

(* ====================================================================================== *)
(* listen() fires exactly where create() fires, with the corresponding outcome (composition   *)
(* with C15): every configuration, every history of events and answers                         *)
(* ====================================================================================== *)
(* outcomes compared up to the detail flags of Ok (whether the address is reported is C17's own clause) *)
Definition norm15 (d : Spec.C15.result) : Spec.C15.result :=
  match d with ROk _ => ROk true | ROther _ => ROther 0 | x => x end.
Definition res15 (r : lrec) : list Spec.C15.result := map (fun x => norm15 (to15 x)) (results (l_evs r)).
Definition dones15 (r : Spec.C15.rec) : list Spec.C15.result := map norm15 (dones (r_evs r)).

Lemma all_quiet_after c ops : forall m, J m -> m_created m = true ->
  map dones15 (run_from c m ops) = map (fun _ => []) ops.
Proof.
  induction ops as [|o ops IH]; intros m HJ Hc; [reflexivity|].
  cbn [run_from]. destruct (step c m o) as [m' evs] eqn:E.
  destruct (step_once _ _ _ _ _ E HJ) as (HJ' & Hcnt). rewrite Hc in Hcnt. cbn in Hcnt.
  assert (m_created m' = true) by (destruct (m_created m'); [reflexivity | cbn in Hcnt; lia]).
  rewrite H in Hcnt. cbn in Hcnt. cbn [map]. rewrite (IH m' HJ' H). f_equal.
  unfold dones15, snap. cbn [r_evs]. destruct (dones evs); [reflexivity | cbn in Hcnt; lia].
Qed.

Lemma over_silent c q ok ops : forall s, p_ph s = POver ok ->
  map res15 (lrun_from c q s (map LDesc ops)) = map (fun _ => []) ops.
Proof.
  induction ops as [|o ops IH]; intros s Hp; [reflexivity|].
  cbn [map lrun_from]. destruct (lstep_model c q s (LDesc o)) as [s' evs] eqn:E.
  unfold lstep_model in E. rewrite Hp in E.
  destruct o as [k a d| |]; inversion E; subst; cbn [map]; rewrite (IH _ Hp); reflexivity.
Qed.

Lemma lstep_desc c q m op pp oo o m' evs :
  step c15cfg m o = (m', evs) ->
  let s0 := {| p_ph := PCreate m; p_open := op; p_port := pp; p_oos := oo |} in
  lstep_model c q s0 (LDesc o) = on_done (host_reported c q) s0 m' evs
  \/ (lstep_model c q s0 (LDesc o) = ({| p_ph := PCreate m'; p_open := op; p_port := pp; p_oos := oo |}, [ONoop])
      /\ evs = [] /\ m_created m' = m_created m).
Proof.
  intros E s0. unfold lstep_model. cbn [p_ph s0].
  destruct o as [k a d| |].
  - left. now rewrite E.
  - destruct (m_rep m) eqn:R; [right | left; now rewrite E].
    rewrite E. cbn [step] in E. rewrite R in E. inversion E; subst. cbn. auto.
  - destruct (m_rep m) eqn:R; [right | left; now rewrite E].
    rewrite E. cbn [step] in E. rewrite R in E. inversion E; subst. cbn. auto.
Qed.

Lemma listen_follows_create c q ops : forall m op pp oo,
  J m -> m_created m = false ->
  map res15 (lrun_from c q {| p_ph := PCreate m; p_open := op; p_port := pp; p_oos := oo |} (map LDesc ops))
  = map dones15 (run_from c15cfg m ops).
Proof.
  induction ops as [|o ops IH]; intros m op pp oo HJ Hc; [reflexivity|].
  cbn [map lrun_from run_from].
  destruct (step c15cfg m o) as [m' evs] eqn:E.
  destruct (step_once _ _ _ _ _ E HJ) as (HJ' & Hcnt). rewrite Hc in Hcnt. cbn in Hcnt.
  destruct (lstep_desc c q m op pp oo o m' evs E) as [St|(St & -> & Hc')]; rewrite St.
  - unfold on_done. destruct (dones evs) as [|r rest] eqn:D.
    + cbn [lsnap map]. assert (Hc' : m_created m' = false) by (destruct (m_created m'); [cbn in Hcnt; lia | reflexivity]).
      rewrite (IH m' _ _ _ HJ' Hc'). f_equal. unfold res15, dones15, snap, lsnap. cbn [l_evs r_evs]. now rewrite D.
    + assert (rest = []) by (destruct rest; [reflexivity | cbn in Hcnt; destruct (m_created m'); cbn in Hcnt; lia]). subst rest.
      assert (Hc' : m_created m' = true) by (destruct (m_created m'); [reflexivity | cbn in Hcnt; lia]).
      destruct r as [h| | |k]; cbn [fail_now map]; rewrite (all_quiet_after c15cfg ops m' HJ' Hc');
        (erewrite over_silent by reflexivity); f_equal; unfold res15, dones15, snap, lsnap; cbn [l_evs r_evs];
        rewrite D; reflexivity.
  - cbn [lsnap map]. rewrite Hc in Hc'. rewrite (IH m' _ _ _ HJ' Hc'). f_equal.
Qed.

(* ====================================================================================== *)
(* Invalid combinations are refused by the constructing call, nothing started: the whole      *)
(* (finite) option space of the three routes, any ports, any script                            *)
(* ====================================================================================== *)
Ltac all_fields :=
  repeat match goal with
         | x : ctor_args |- _ => destruct x
         | x : tor_args |- _ => destruct x
         | x : str_args |- _ => destruct x
         | x : tri |- _ => destruct x
         | x : authk |- _ => destruct x
         | x : keyk |- _ => destruct x
         | x : verk |- _ => destruct x
         | x : sver |- _ => destruct x
         | x : shop |- _ => destruct x
         | x : keyfile |- _ => destruct x
         | x : tor_method |- _ => destruct x
         | x : bool |- _ => destruct x
         end.

Definition refused_ok (r : route) : bool :=
  match request r with
  | Some _ => true
  | None => match build r with BRefused false => true | _ => false end
  end.

Lemma refused_ok_all r : refused_ok r = true.
Proof. destruct r as [a|t|s]; all_fields; vm_compute; reflexivity. Qed.

Lemma invalid_refused_early r pub bound pend bind two same ops :
  let c := {| g_route := r; g_pub := pub; g_bound := bound; g_pending := pend; g_bind_ok := bind; g_two_clients := two; g_same_dir := same |} in
  valid c = false -> lrun c ops = [{| l_evs := [ORefused]; l_open := 0 |}].
Proof.
  intros c Hv. pose proof (refused_ok_all r) as H. unfold refused_ok in H.
  unfold valid in Hv. cbn [g_route c] in Hv. destruct (request r); [discriminate|].
  unfold lrun, construct_rec. cbn [g_route c].
  destruct (build r) as [[|]|]; try discriminate. reflexivity.
Qed.

(* the converse: what the documentation calls valid is constructed *)
Definition accepted_ok (r : route) : bool :=
  match request r with
  | Some _ => match build r with BOk _ _ => true | _ => false end
  | None => true
  end.

Lemma accepted_ok_all r : accepted_ok r = true.
Proof. destruct r as [a|t|s]; all_fields; vm_compute; reflexivity. Qed.

(* ====================================================================================== *)
(* The oracle on the whole configuration x fault-script product (finite; bounds stated)       *)
(* ====================================================================================== *)
Definition ev15 (k : kind) (a d : N) : lop := LDesc (Ev k a d).
Definition fault_scripts : list (list lop) :=
  [ [];
    [LDesc Reply; ev15 KUpload 1 1; ev15 KUpload 1 2; ev15 KUploaded 1 2; LStop];
    [LCfgOk; LDesc Reply; ev15 KUpload 1 1; ev15 KUpload 1 2; ev15 KUploaded 1 2; LStop];
    [LCfgFail]; [LCfgWrong]; [LCfgOk];
    [LDesc Reject; LStop]; [LCfgOk; LDesc Reject; LStop];
    [LDisconnect; LStop]; [LCfgOk; LDisconnect];
    [LDesc Reply; ev15 KUpload 1 1; ev15 KUpload 1 2; ev15 KFailed 1 2; ev15 KFailed 2 1; ev15 KFailed 1 1; ev15 KUploaded 1 1; LStop];
    [LCfgOk; LDesc Reply; ev15 KUpload 1 1; ev15 KFailed 1 1; LStop];
    [LDesc Reply; ev15 KUpload 1 1; LDisconnect; LStop];
    [LDesc Reply; ev15 KUpload 1 1; ev15 KUploaded 1 1; LDisconnect; LStop];
    [ev15 KUpload 2 1; LDesc Reply; ev15 KUpload 1 1; ev15 KFailed 2 1; ev15 KUpload 1 2; ev15 KFailed 1 1];
    [LDesc Reply; LStop];
    [LDesc Reply; ev15 KFailed 1 1; ev15 KUpload 1 1; ev15 KUpload 1 2; ev15 KUploaded 1 2; LStop] ].

Definition known_finding (c : cfg) (ops : list lop) : bool :=
  disconnect_while_waiting c ops || stealth_several_clients c || directory_already_configured c.

Definition product_ok (r : route) : bool :=
  forallb (fun same => forallb (fun two => forallb (fun pend => forallb (fun bind => forallb (fun ops =>
    let c := {| g_route := r; g_pub := 80; g_bound := 45017; g_pending := pend; g_bind_ok := bind;
                g_two_clients := two; g_same_dir := same |} in
    negb (wf c ops) || known_finding c ops || oracle c ops (lrun c ops))
    fault_scripts) [false; true]) [false; true]) [false; true]) [false; true].

Lemma product_ok_all r : product_ok r = true.
Proof. destruct r as [a|t|s]; all_fields; vm_compute; reflexivity. Qed.

Lemma oracle_on_product r pend bind two same ops :
  In ops fault_scripts ->
  let c := {| g_route := r; g_pub := 80; g_bound := 45017; g_pending := pend; g_bind_ok := bind; g_two_clients := two; g_same_dir := same |} in
  wf c ops = true -> disconnect_while_waiting c ops = false -> stealth_several_clients c = false ->
  directory_already_configured c = false ->
  oracle c ops (lrun c ops) = true.
Proof.
  intros Hin c Hw H3 H4 H5. pose proof (product_ok_all r) as H. unfold product_ok in H.
  assert (Hb2 : forall b : bool, In b [false; true]) by (intros []; cbn; auto).
  rewrite forallb_forall in H. specialize (H same (Hb2 same)).
  rewrite forallb_forall in H. specialize (H two (Hb2 two)).
  rewrite forallb_forall in H. specialize (H pend (Hb2 pend)).
  rewrite forallb_forall in H. specialize (H bind (Hb2 bind)).
  rewrite forallb_forall in H. specialize (H ops Hin). cbn beta zeta in H.
  fold c in H. unfold known_finding in H. rewrite Hw, H3, H4, H5 in H. exact H.
Qed.

Lemma stealth_two_clients_refuted :
  exists c ops, wf c ops = true /\ disconnect_while_waiting c ops = false /\ oracle c ops (lrun c ops) = false.
Proof.
  exists {| g_route := RCtor {| a_eph := TNone; a_hsdir := true; a_auth := AStealth; a_stealth_kw := false;
                                a_key := KNone; a_ver := V2; a_single := TNone |};
            g_pub := 80; g_bound := 45017; g_pending := false; g_bind_ok := true; g_two_clients := true; g_same_dir := false |},
         [LDesc Reply; LDesc (Ev KUpload 1 1); LDesc (Ev KUploaded 1 1)].
  vm_compute. auto.
Qed.

(* basic authentication with two clients: they share the one hostname, which the address reports *)
Lemma basic_two_clients_reported :
  let c := {| g_route := RCtor {| a_eph := TNone; a_hsdir := false; a_auth := ABasic; a_stealth_kw := false;
                                  a_key := KNone; a_ver := V2; a_single := TNone |};
              g_pub := 80; g_bound := 45017; g_pending := false; g_bind_ok := true; g_two_clients := true; g_same_dir := false |} in
  let ops := [LDesc Reply; LDesc (Ev KUpload 1 1); LDesc (Ev KUploaded 1 1)] in
  oracle c ops (lrun c ops) = true
  /\ flat_map (fun r => results (l_evs r)) (lrun c ops) = [LOk true true true].
Proof. vm_compute. auto. Qed.

Lemma already_configured_refuted :
  exists c ops, wf c ops = true /\ disconnect_while_waiting c ops = false /\ stealth_several_clients c = false
    /\ oracle c ops (lrun c ops) = false.
Proof.
  exists {| g_route := RCtor {| a_eph := TNone; a_hsdir := true; a_auth := ANone; a_stealth_kw := false;
                                a_key := KNone; a_ver := VNone; a_single := TNone |};
            g_pub := 80; g_bound := 45017; g_pending := false; g_bind_ok := true; g_two_clients := false;
            g_same_dir := true |}, [LStop].
  vm_compute. auto.
Qed.

(* regression anchor for the repaired C17-F6 (fix 0104264): the already-configured directory next to an
   authenticated service no longer raises; what remains is C17-F5 (nothing is sent to Tor) *)
Lemma already_configured_no_leak_now_accepted :
  let c := {| g_route := RCtor {| a_eph := TNone; a_hsdir := true; a_auth := ANone; a_stealth_kw := false;
                                  a_key := KNone; a_ver := VNone; a_single := TNone |};
              g_pub := 80; g_bound := 45017; g_pending := false; g_bind_ok := true; g_two_clients := false;
              g_same_dir := true |} in
  no_leak false (lrun c []) = true /\ flat_map (fun r => results (l_evs r)) (lrun c []) = [LOk true true true].
Proof. vm_compute. auto. Qed.
