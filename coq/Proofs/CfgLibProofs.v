(* Lemmas about Lib/CfgLib.v: dictionaries, case folding, decimal round trip. *)
From Coq Require Import List Bool Ascii Arith NArith ZArith Lia.
From Coq Require Decimal DecimalN.
From TxVerif Require Import Lib.Bytes Lib.CfgLib.
Import ListNotations.
Open Scope N_scope.

Lemma beqb_false_neq a b : beqb a b = false -> a <> b.
Proof. intros H E. subst. rewrite beqb_refl in H. discriminate. Qed.

Lemma beqb_neq_false a b : a <> b -> beqb a b = false.
Proof. intros H. destruct (beqb a b) eqn:E; [apply beqb_eq in E; contradiction|reflexivity]. Qed.

Lemma beqb_sym a b : beqb a b = beqb b a.
Proof.
  destruct (beqb a b) eqn:E.
  - apply beqb_eq in E. subst. now rewrite beqb_refl.
  - symmetry. apply beqb_neq_false. intros X. subst. rewrite beqb_refl in E. discriminate.
Qed.

Lemma NoDup_snoc {B} (l : list B) x : NoDup l -> ~ In x l -> NoDup (l ++ [x]).
Proof.
  induction l as [|y l IH]; cbn; intros Hnd Hnot.
  - constructor; [tauto|constructor].
  - inversion Hnd as [|? ? Hy Hl]. subst. constructor.
    + rewrite in_app_iff. cbn. intros [H|[H|[]]]; [tauto|]. subst. apply Hnot. now left.
    + apply IH; [assumption|]. intros H. apply Hnot. now right.
Qed.

Section DictLemmas.
  Context {A : Type}.
  Implicit Types (d : list (bytes * A)) (k : bytes) (v : A).

  Lemma dget_dset_same k v d : dget k (dset k v d) = Some v.
  Proof.
    induction d as [|[k' v'] d IH]; cbn.
    - now rewrite beqb_refl.
    - destruct (beqb k' k) eqn:E; cbn; rewrite E; [reflexivity|apply IH].
  Qed.

  Lemma dget_dset_other k k' v d : k <> k' -> dget k' (dset k v d) = dget k' d.
  Proof.
    intros Hne. induction d as [|[k0 v0] d IH]; cbn.
    - now rewrite (beqb_neq_false k k' Hne).
    - destruct (beqb k0 k) eqn:E; cbn.
      + apply beqb_eq in E. subst k0. now rewrite (beqb_neq_false k k' Hne).
      + destruct (beqb k0 k'); [reflexivity|apply IH].
  Qed.

  Lemma keys_dset_mem k v d : dmem k d = true -> map fst (dset k v d) = map fst d.
  Proof.
    unfold dmem. induction d as [|[k0 v0] d IH]; cbn; [discriminate|].
    destruct (beqb k0 k) eqn:E; cbn; [reflexivity|].
    intros H. now rewrite IH.
  Qed.

  Lemma keys_dset_new k v d : dget k d = None -> map fst (dset k v d) = map fst d ++ [k].
  Proof.
    induction d as [|[k0 v0] d IH]; cbn; [reflexivity|].
    destruct (beqb k0 k) eqn:E; [discriminate|]. cbn. intros H. now rewrite IH.
  Qed.

  Lemma dget_In k v d : dget k d = Some v -> In (k, v) d.
  Proof.
    induction d as [|[k0 v0] d IH]; cbn; [discriminate|].
    destruct (beqb k0 k) eqn:E.
    - apply beqb_eq in E. subst. intros H. inversion H. now left.
    - intros H. right. now apply IH.
  Qed.

  Lemma dget_mem_keys k d : dmem k d = true <-> In k (map fst d).
  Proof.
    unfold dmem. induction d as [|[k0 v0] d IH]; cbn.
    - split; [discriminate|tauto].
    - destruct (beqb k0 k) eqn:E.
      + apply beqb_eq in E. subst. split; auto.
      + rewrite IH. split; [auto|]. intros [H|H]; [|assumption].
        subst. rewrite beqb_refl in E. discriminate.
  Qed.

  Lemma dget_first k v d : NoDup (map fst d) -> In (k, v) d -> dget k d = Some v.
  Proof.
    induction d as [|[k0 v0] d IH]; cbn; [tauto|].
    intros Hnd [H|H].
    - inversion H. subst. now rewrite beqb_refl.
    - inversion Hnd as [|? ? Hnot Hnd']. subst.
      destruct (beqb k0 k) eqn:E.
      + apply beqb_eq in E. subst k0. exfalso. apply Hnot. now apply (in_map fst) in H.
      + now apply IH.
  Qed.

  Lemma NoDup_keys_dset k v d : NoDup (map fst d) -> NoDup (map fst (dset k v d)).
  Proof.
    intros H. destruct (dget k d) eqn:E.
    - rewrite keys_dset_mem; [assumption|]. unfold dmem. now rewrite E.
    - rewrite keys_dset_new by assumption. apply NoDup_snoc; [assumption|].
      intros Hin. apply dget_mem_keys in Hin. unfold dmem in Hin. rewrite E in Hin. discriminate.
  Qed.
End DictLemmas.

Lemma In_dset {A} (k : bytes) (v : A) d k' v' :
  In (k', v') (dset k v d) -> (k' = k /\ v' = v) \/ In (k', v') d.
Proof.
  induction d as [|[k0 v0] d IH]; cbn.
  - intros [H|[]]. inversion H. auto.
  - destruct (beqb k0 k) eqn:E; cbn.
    + apply beqb_eq in E. subst k0. intros [H|H]; [inversion H; auto|auto].
    + intros [H|H]; [auto|]. destruct (IH H) as [X|X]; auto.
Qed.

Lemma dset_new_app {A} (k : bytes) (v : A) d : dget k d = None -> dset k v d = d ++ [(k, v)].
Proof.
  induction d as [|[k0 v0] d IH]; cbn; [reflexivity|].
  destruct (beqb k0 k); [discriminate|]. intros H. now rewrite IH.
Qed.

Lemma keys_dset_both {A B} k (v1 : A) (v2 : B) : forall d1 d2,
  map fst d1 = map fst d2 -> map fst (dset k v1 d1) = map fst (dset k v2 d2).
Proof.
  induction d1 as [|[k1 x1] d1 IH]; intros [|[k2 x2] d2] H; cbn in H; try discriminate; [reflexivity|].
  inversion H as [[Hk Ht]]. subst k2. cbn. destruct (beqb k1 k); cbn; [now rewrite Ht|now rewrite (IH d2 Ht)].
Qed.

Lemma dmem_false_dget {A} k (d : list (bytes * A)) : dmem k d = false <-> dget k d = None.
Proof. unfold dmem. destruct (dget k d); split; intros; congruence. Qed.

Lemma existsb_false_forall {A} (f : A -> bool) l : existsb f l = false <-> forall x, In x l -> f x = false.
Proof.
  induction l as [|y l IH]; cbn; [split; [intros _ x []|reflexivity]|].
  rewrite orb_false_iff, IH. split.
  - intros [H1 H2] x [E|Hx]; [now subst|now apply H2].
  - intros H. split; [apply H; now left|intros x Hx; apply H; now right].
Qed.
