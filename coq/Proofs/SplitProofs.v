(* facts about Lib/Split.v, Lib/Decimal.v and the tokenizer of Spec/TorGrammar.v *)
From Coq Require Import List Bool Ascii Arith NArith Lia.
From TxVerif Require Import Lib.Bytes Lib.Split Lib.Decimal Spec.TorGrammar.
Import ListNotations.
Open Scope N_scope.

Lemma memb_In' a l : memb a l = true <-> In a l.
Proof.
  induction l as [|x l IH]; cbn [memb In]; [split; [discriminate|tauto]|].
  rewrite orb_true_iff, IH, Ascii.eqb_eq. split; intros [H|H]; auto.
Qed.

Lemma memb_app' a l1 l2 : memb a (l1 ++ l2) = memb a l1 || memb a l2.
Proof. induction l1 as [|x l1 IH]; cbn [memb app]; [reflexivity|]. now rewrite IH, orb_assoc. Qed.

Lemma code_ch n : n < 256 -> code (ch n) = n.
Proof. intros H. unfold code, ch. now apply N_ascii_embedding. Qed.

(* ---------------------------------------------------------------- split_first / split_all *)
Lemma split_first_app c a b : memb c a = false -> split_first c (a ++ c :: b) = Some (a, b).
Proof.
  induction a as [|x a IH]; intros H; cbn [app split_first].
  - now rewrite Ascii.eqb_refl.
  - cbn [memb] in H. apply orb_false_iff in H as [H1 H2]. rewrite Ascii.eqb_sym, H1. now rewrite IH.
Qed.

Lemma split_first_some c : forall s a b, split_first c s = Some (a, b) -> s = a ++ c :: b /\ memb c a = false.
Proof.
  induction s as [|x s IH]; intros a b H; cbn [split_first] in H; [discriminate|].
  destruct (Ascii.eqb x c) eqn:E.
  - injection H as <- <-. apply Ascii.eqb_eq in E. subst. auto.
  - destruct (split_first c s) as [[a' b']|] eqn:S; [|discriminate]. injection H as <- <-.
    destruct (IH a' b' eq_refl) as [-> M]. split; [reflexivity|].
    cbn [memb]. now rewrite Ascii.eqb_sym, E, M.
Qed.

Lemma split_first_none c : forall s, memb c s = false -> split_first c s = None.
Proof.
  induction s as [|x s IH]; intros H; [reflexivity|]. cbn [memb] in H. apply orb_false_iff in H as [H1 H2].
  cbn [split_first]. now rewrite Ascii.eqb_sym, H1, IH.
Qed.

Lemma split_all_nonnil c s : split_all c s <> [].
Proof.
  induction s as [|x s IH]; cbn [split_all]; [discriminate|].
  destruct (Ascii.eqb x c); [discriminate|]. destruct (split_all c s); discriminate.
Qed.

Lemma split_all_one c : forall s b, split_all c s = [b] -> s = b /\ memb c b = false.
Proof.
  induction s as [|x s IH]; intros b H; cbn [split_all] in H.
  - injection H as <-. auto.
  - destruct (Ascii.eqb x c) eqn:E.
    + injection H as _ H. now apply split_all_nonnil in H.
    + destruct (split_all c s) as [|h t] eqn:S; [now apply split_all_nonnil in S|].
      injection H as <- ->. destruct (IH h eq_refl) as [-> M]. split; [reflexivity|].
      cbn [memb]. now rewrite Ascii.eqb_sym, E, M.
Qed.

Lemma split_all_two c : forall s a b, split_all c s = [a; b] ->
  s = a ++ c :: b /\ memb c a = false /\ memb c b = false.
Proof.
  induction s as [|x s IH]; intros a b H; cbn [split_all] in H; [discriminate|].
  destruct (Ascii.eqb x c) eqn:E.
  - injection H as <- H. apply split_all_one in H as [-> M]. apply Ascii.eqb_eq in E. subst. auto.
  - destruct (split_all c s) as [|h t] eqn:S; [now apply split_all_nonnil in S|].
    injection H as <- ->. destruct (IH h b eq_refl) as (-> & M1 & M2). repeat split; [|exact M2].
    cbn [memb]. now rewrite Ascii.eqb_sym, E, M1.
Qed.

Lemma split_all_none c : forall s, memb c s = false -> split_all c s = [s].
Proof.
  induction s as [|x s IH]; intros H; [reflexivity|]. cbn [memb] in H. apply orb_false_iff in H as [H1 H2].
  cbn [split_all]. now rewrite Ascii.eqb_sym, H1, IH.
Qed.

Lemma split_all_app c a b : memb c a = false -> split_all c (a ++ c :: b) = a :: split_all c b.
Proof.
  induction a as [|x a IH]; intros H; cbn [app split_all].
  - now rewrite Ascii.eqb_refl.
  - cbn [memb] in H. apply orb_false_iff in H as [H1 H2]. rewrite Ascii.eqb_sym, H1. now rewrite IH.
Qed.

Lemma prefixb_app p r : prefixb p (p ++ r) = true.
Proof. induction p as [|x p IH]; cbn [prefixb app]; [reflexivity|]. now rewrite Ascii.eqb_refl. Qed.

Lemma prefixb_inv : forall p s, prefixb p s = true -> s = p ++ skipn (length p) s.
Proof.
  induction p as [|x p IH]; intros s H; [reflexivity|]. destruct s as [|y s]; [discriminate|].
  cbn [prefixb] in H. apply andb_true_iff in H as [H1 H2]. apply Ascii.eqb_eq in H1. subst.
  cbn [length skipn app]. f_equal. now apply IH.
Qed.

(* ---------------------------------------------------------------- decimal *)
Definition dval (l : bytes) : N := fold_left (fun a c => a * 10 + (code c - 48)) l 0.

Lemma parse_fold_digits : forall l a, forallb is_digit l = true ->
  fold_left (fun acc c => match acc with
                          | Some n => if is_digit c then Some (n * 10 + (code c - 48)) else None
                          | None => None
                          end) l (Some a)
  = Some (fold_left (fun a c => a * 10 + (code c - 48)) l a).
Proof.
  induction l as [|c l IH]; intros a H; [reflexivity|]. cbn [forallb] in H. apply andb_true_iff in H as [H1 H2].
  cbn [fold_left]. rewrite H1. now apply IH.
Qed.

Lemma parse_dec_digits l : l <> [] -> forallb is_digit l = true -> parse_dec l = Some (dval l).
Proof.
  intros Hne H. unfold parse_dec, dval. destruct l as [|c l]; [congruence|]. now apply parse_fold_digits.
Qed.

Lemma parse_dec_some : forall l n, parse_dec l = Some n -> l <> [] /\ forallb is_digit l = true.
Proof.
  intros l n H. destruct l as [|c l]; [discriminate|]. split; [discriminate|].
  unfold parse_dec in H.
  assert (G : forall l a, fold_left (fun acc c => match acc with
                          | Some n => if is_digit c then Some (n * 10 + (code c - 48)) else None
                          | None => None end) l a <> None -> a <> None /\ forallb is_digit l = true).
  { clear. induction l as [|c l IH]; intros a H; [split; [exact H|reflexivity]|].
    cbn [fold_left] in H. apply IH in H as [H1 H2].
    destruct a as [n|]; [|congruence]. destruct (is_digit c) eqn:D; [|congruence].
    cbn [forallb]. rewrite D. split; [discriminate|exact H2]. }
  apply (G (c :: l) (Some 0)). congruence.
Qed.

Lemma digit_ch d : d < 10 -> is_digit (ch (48 + d)) = true /\ code (ch (48 + d)) - 48 = d.
Proof.
  intros H. unfold is_digit. rewrite code_ch by lia. split; [|lia].
  apply andb_true_iff. split; apply N.leb_le; lia.
Qed.

Lemma dec_go_S f n acc : dec_go (S f) n acc =
  if n <? 10 then ch (48 + n mod 10) :: acc else dec_go f (n / 10) (ch (48 + n mod 10) :: acc).
Proof. reflexivity. Qed.

Lemma dec_go_spec : forall f n acc, n < 2 ^ N.of_nat f ->
  exists ds, dec_go (S f) n acc = ds ++ acc /\ ds <> [] /\ forallb is_digit ds = true /\ dval ds = n.
Proof.
  induction f as [|f IH]; intros n acc H.
  - cbn in H. assert (n = 0) by lia. subst. exists [ch 48]. repeat split; discriminate.
  - rewrite dec_go_S. destruct (n <? 10) eqn:L.
    + apply N.ltb_lt in L. exists [ch (48 + n mod 10)]. rewrite N.mod_small by exact L.
      destruct (digit_ch n L) as [D1 D2]. repeat split; [discriminate| cbn [forallb]; now rewrite D1 |].
      unfold dval. cbn [fold_left]. lia.
    + apply N.ltb_ge in L.
      assert (Hd : n / 10 < 2 ^ N.of_nat f).
      { apply N.div_lt_upper_bound; [lia|]. rewrite Nat2N.inj_succ, N.pow_succ_r' in H. lia. }
      destruct (IH (n / 10) (ch (48 + n mod 10) :: acc) Hd) as (ds & E & Hne & Hd' & Hv).
      exists (ds ++ [ch (48 + n mod 10)]). rewrite E, <- app_assoc. split; [reflexivity|].
      assert (M : n mod 10 < 10) by (apply N.mod_lt; lia).
      destruct (digit_ch _ M) as [D1 D2].
      split; [destruct ds; discriminate|]. split.
      * rewrite forallb_app, Hd'. cbn [forallb]. now rewrite D1.
      * unfold dval in *. rewrite fold_left_app. cbn [fold_left]. rewrite Hv, D2.
        pose proof (N.div_mod n 10). lia.
Qed.

Lemma dec_of_N_spec n : dec_of_N n <> [] /\ forallb is_digit (dec_of_N n) = true /\ parse_dec (dec_of_N n) = Some n.
Proof.
  unfold dec_of_N.
  destruct (dec_go_spec (N.to_nat (N.size n)) n []) as (ds & E & Hne & Hd & Hv).
  { rewrite N2Nat.id. apply N.size_gt. }
  rewrite E, app_nil_r. repeat split; [exact Hne|exact Hd|]. rewrite parse_dec_digits by assumption. now rewrite Hv.
Qed.

(* ---------------------------------------------------------------- tokens *)
Definition tok_ok (t : bytes) : Prop := t <> [] /\ forallb (fun c => negb (is_kws c)) t = true.

Lemma join_cons_flat (t0 : bytes) toks :
  join [SP] (t0 :: toks) = t0 ++ flat_map (fun t => SP :: t) toks.
Proof.
  revert t0. induction toks as [|t toks IH]; intros t0; cbn [join flat_map]; [now rewrite app_nil_r|].
  destruct toks as [|u toks].
  - cbn [join flat_map]. now rewrite app_nil_r.
  - specialize (IH t). cbn [app]. f_equal. f_equal. exact IH.
Qed.

Lemma wrun_tok : forall t acc cur, forallb (fun c => negb (is_kws c)) t = true ->
  fold_left wstep t (acc, cur) = (acc, rev t ++ cur).
Proof.
  induction t as [|c t IH]; intros acc cur H; [reflexivity|]. cbn [forallb] in H. apply andb_true_iff in H as [H1 H2].
  apply negb_true_iff in H1. cbn [fold_left]. unfold wstep at 2. rewrite H1, IH by assumption.
  cbn [rev]. now rewrite <- app_assoc.
Qed.

Definition wfinish (st : list bytes * bytes) : list bytes :=
  let '(toks, cur) := st in rev (match cur with [] => toks | _ => rev cur :: toks end).

Lemma split_ws_fold l : split_ws l = wfinish (fold_left wstep l ([], [])).
Proof. reflexivity. Qed.

Lemma wrun_join : forall toks t acc, tok_ok t -> Forall tok_ok toks ->
  wfinish (fold_left wstep (join [SP] (t :: toks)) (acc, [])) = rev acc ++ t :: toks.
Proof.
  induction toks as [|u toks IH]; intros t acc [Hne Ht] Hall.
  - cbn [join]. rewrite wrun_tok by exact Ht. rewrite app_nil_r. unfold wfinish.
    destruct (rev t) eqn:R.
    + apply (f_equal (@rev _)) in R. rewrite rev_involutive in R. cbn in R. congruence.
    + rewrite <- R, rev_involutive. cbn [rev]. reflexivity.
  - inversion Hall as [|? ? Hu Hrest]; subst.
    change (join [SP] (t :: u :: toks)) with (t ++ [SP] ++ join [SP] (u :: toks)).
    rewrite fold_left_app, wrun_tok by exact Ht. rewrite app_nil_r. cbn [app fold_left].
    assert (S : wstep (acc, rev t) SP = (t :: acc, [])).
    { unfold wstep. change (is_kws SP) with true. cbv iota. destruct (rev t) eqn:R.
      - apply (f_equal (@rev _)) in R. rewrite rev_involutive in R. cbn in R. congruence.
      - now rewrite <- R, rev_involutive. }
    rewrite S, IH by assumption. cbn [rev]. now rewrite <- app_assoc.
Qed.

Lemma split_ws_join t toks : tok_ok t -> Forall tok_ok toks -> split_ws (join [SP] (t :: toks)) = t :: toks.
Proof. intros H1 H2. rewrite split_ws_fold, wrun_join by assumption. reflexivity. Qed.
