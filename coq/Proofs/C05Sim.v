(* C05 refinement, part 6: the oracle accepts every trace of the machine (outside finding C05-F1) *)
From Coq Require Import String List Bool Ascii Arith NArith ZArith Lia.
From TxVerif Require Import Lib.Bytes Model.Struct Model.SocksTypes Gen.SocksTable Gen.SocksConsts
  Spec.Rfc1928 Spec.C06 Spec.C05 Model.SocksEnc Model.Socks Proofs.C05Proofs.
From TxVerif Require Import Proofs.C05Status Proofs.C05Parse Proofs.C05Dec Proofs.C05Ops Proofs.C05Mono.
Import ListNotations.
Open Scope N_scope.

Lemma result_eqb_refl r : result_eqb r r = true.
Proof.
  destruct r as [|i b|cl o]; cbn [result_eqb]; [reflexivity| |].
  - rewrite Bool.eqb_reflx, beqb_refl. reflexivity.
  - rewrite beqb_refl. cbn [andb]. destruct o as [n|]; cbn [option_eqb]; [apply N.eqb_refl|reflexivity].
Qed.

Lemma prefixb_app' p x : prefixb p (p ++ x) = true.
Proof. induction p as [|a p IH]; cbn [prefixb app]; [reflexivity|]. now rewrite Ascii.eqb_refl, IH. Qed.

Lemma strip_prefix_app p x : strip_prefix p (p ++ x) = Some x.
Proof.
  unfold strip_prefix. rewrite prefixb_app'. f_equal.
  induction p as [|a p IH]; [reflexivity|exact IH].
Qed.

Lemma parse_dec_pname_not_connect d r rest : parse_dec RConnect d <> PName r rest.
Proof.
  unfold parse_dec. destruct (nlen d <? c_MIN_REPLY); [discriminate|].
  destruct d as [|rv [|rr [|x0 [|at_ more]]]]; try discriminate.
  repeat match goal with |- context[if ?t then _ else _] => destruct t end; discriminate.
Qed.

Section Sim.
  Variable c : cfg.
  Variable req : bytes.
  Hypothesis Henc : encode (c_ty c) (c_target c) (c_port c) = Some req.
  Let ty := c_ty c.

  Notation mk s b h f := {| st := s; buf := b; has_sender := h; fired := f |} (only parsing).
  Notation K p r s := {| prev := p; reported := r; seen := s |} (only parsing).

  Inductive Sim : mstate -> chk -> Prop :=
  | Sim_version b : (length b < 2)%nat -> Sim (mk sent_version b false false) (K SPending false b)
  | Sim_request v m d : sel (v :: m :: d) = true -> parse_dec ty d = PWait ->
      Sim (mk sent_request d false false) (K (reply_status ty d) false (v :: m :: d))
  | Sim_relaying v m d r : sel (v :: m :: d) = true -> reply_status ty d = SConnected r ->
      Sim (mk relaying [] true true) (K (SConnected r) true (v :: m :: d))
  | Sim_failed b r sn : (2 <= length sn)%nat -> Sim (mk abort b false true) (K (SFailed r) true sn)
  | Sim_failing b r v m d : sel (v :: m :: d) = true -> reply_status ty d = SFailing r ->
      Sim (mk abort b false true) (K (SFailing r) true (v :: m :: d))
  | Sim_resolved b r sn : (2 <= length sn)%nat -> Sim (mk done b false true) (K (SResolved r) true sn).

  Definition wrote (es : list ev) : nat := count is_wrote es.

  (* the reply phase: the machine's reaction to buffer d' is what the oracle expects *)
  Lemma parse_sim k chunk v m d' :
    sel (v :: m :: d') = true -> seen k ++ chunk = v :: m :: d' -> reported k = false ->
    (prev k = SPending \/ exists r, prev k = SFailing r) ->
    exists k', chk_recv ty k chunk (snd (fst (after_parse c d'))) = Some k' /\
               seen k' = v :: m :: d' /\ Sim (fst (fst (after_parse c d'))) k' /\
               wrote (snd (fst (after_parse c d'))) = 0%nat.
  Proof.
    intros Hsel Hseen Hrep Hprev.
    unfold chk_recv. rewrite Hseen, Hrep. rewrite (status_of_selected ty v m d' Hsel).
    pose proof (dec_status ty d') as Hdec. unfold dec_matches in Hdec.
    unfold after_parse. fold ty. destruct (parse_dec ty d') as [|r|rest|r rest] eqn:Ed; cbn [fst snd].
    - (* still waiting *)
      destruct Hdec as [Hs|[r Hs]].
      + exists (K (reply_status ty d') false (v :: m :: d')).
        split; [|split; [reflexivity|split; [now apply Sim_request|reflexivity]]].
        rewrite Hs. destruct Hprev as [-> | [r0 ->]]; reflexivity.
      + exists (K (reply_status ty d') false (v :: m :: d')).
        split; [|split; [reflexivity|split; [now apply Sim_request|reflexivity]]].
        rewrite Hs. destruct Hprev as [-> | [r0 ->]]; reflexivity.
    - (* failure *)
      destruct Hdec as [Hs|Hs]; rewrite Hs.
      + exists (K (SFailed r) true (v :: m :: d')).
        split; [|split; [reflexivity|split; [apply Sim_failed; cbn [length]; lia|reflexivity]]].
        destruct Hprev as [-> | [r0 ->]]; cbn; rewrite result_eqb_refl; reflexivity.
      + exists (K (SFailing r) true (v :: m :: d')).
        split; [|split; [reflexivity|split; [now apply Sim_failing|reflexivity]]].
        destruct Hprev as [-> | [r0 ->]]; cbn; rewrite result_eqb_refl; reflexivity.
    - (* success, CONNECT *)
      rewrite Hdec. exists (K (SConnected rest) true (v :: m :: d')).
      split; [|split; [reflexivity|split; [now apply (Sim_relaying v m d' rest)|destruct rest; reflexivity]]].
      destruct Hprev as [-> | [r0 ->]]; destruct rest; cbn; rewrite ?app_nil_r, ?Ascii.eqb_refl, ?beqb_refl; reflexivity.
    - (* a name *)
      assert (Hty : ty <> RConnect).
      { intros E. rewrite E in Ed. exact (parse_dec_pname_not_connect _ _ _ Ed). }
      rewrite (Hdec Hty). exists (K (SResolved r) true (v :: m :: d')).
      split; [|split; [reflexivity|split; [apply Sim_resolved; cbn [length]; lia|reflexivity]]].
      destruct Hprev as [-> | [r0 ->]]; cbn; rewrite result_eqb_refl; reflexivity.
  Qed.

  Lemma chk_recv_wrote k chunk b es : chk_recv ty k chunk (EWrote b :: es) = chk_recv ty k chunk es.
  Proof.
    unfold chk_recv, no_app, dones, app_data, count.
    cbn [map filter concat app is_created is_created_ok is_applost is_appdata]. reflexivity.
  Qed.

  Definition wrote_expected (sn chunk : bytes) : nat :=
    if sel sn then 0%nat else if sel (sn ++ chunk) then 1%nat else 0%nat.

  Lemma sel_app_true s x : sel s = true -> sel (s ++ x) = true.
  Proof. destruct s as [|a [|b s]]; try discriminate. auto. Qed.

  Lemma step_sim s k chunk : Sim s k ->
    exists k', chk_recv ty k chunk (snd (fst (op_recv c s chunk))) = Some k' /\
               seen k' = seen k ++ chunk /\
               (snd (op_recv c s chunk) = true -> Sim (fst (fst (op_recv c s chunk))) k') /\
               wrote (snd (fst (op_recv c s chunk))) = wrote_expected (seen k) chunk.
  Proof.
    intros HS.
    destruct HS as [b Hb | v m d Hsel Hw | v m d r Hsel Hst | b r sn Hlen | b r v m d Hsel Hst | b r sn Hlen];
      cbn [seen] in *.
    - (* version phase *)
      destruct (Nat.ltb_spec (length (b ++ chunk)) 2) as [Hshort|Hlong].
      + rewrite (recv_version_short c b chunk Hshort). cbn [fst snd].
        exists (K SPending false (b ++ chunk)).
        split; [unfold chk_recv; cbn [prev seen reported]; rewrite (status_of_short ty _ Hshort); reflexivity|].
        split; [reflexivity|]. split; [intros _; now apply Sim_version|].
        unfold wrote_expected. rewrite (sel_short b Hb), (sel_short _ Hshort). reflexivity.
      + destruct (b ++ chunk) as [|v [|m rest]] eqn:E; cbn [length] in Hlong; try lia.
        destruct (sel (v :: m :: rest)) eqn:Hsel.
        * rewrite (recv_version_selected c req Henc b chunk v m rest E Hsel). cbn [fst snd].
          destruct (parse_sim (K SPending false b) chunk v m rest Hsel E eq_refl (or_introl eq_refl))
            as (k' & Hc & Hs & HS & Hw).
          exists k'. split; [now rewrite chk_recv_wrote|]. split; [exact Hs|]. split; [intros _; exact HS|].
          unfold wrote_expected. rewrite (sel_short b Hb), E, Hsel.
          unfold wrote, count in Hw |- *. cbn [filter is_wrote length]. now rewrite Hw.
        * assert (Hst : status_of ty (v :: m :: rest) = SFailed generic_err)
            by (apply status_of_not_selected; exact Hsel).
          assert (Hwe : wrote_expected b chunk = 0%nat).
          { unfold wrote_expected. rewrite (sel_short b Hb), E, Hsel. reflexivity. }
          rewrite Hwe. cbn [sel] in Hsel.
          destruct (code v =? 5) eqn:Ev; [destruct (code m =? 2) eqn:E2|].
          -- rewrite (recv_version_method2 c b chunk v m rest E Ev E2). cbn [fst snd].
             exists (K (SFailed generic_err) true (v :: m :: rest)).
             split; [unfold chk_recv; cbn [prev seen reported]; rewrite E, Hst; reflexivity|].
             split; [reflexivity|]. split; [intros H; discriminate H|reflexivity].
          -- rewrite (recv_version_refused c b chunk v m rest E)
               by (rewrite Ev, E2; cbn [andb] in Hsel |- *; rewrite Hsel; reflexivity).
             cbn [fst snd]. exists (K (SFailed generic_err) true (v :: m :: rest)).
             split; [unfold chk_recv; cbn [prev seen reported]; rewrite E, Hst; reflexivity|].
             split; [reflexivity|]. split; [intros _; apply Sim_failed; cbn [length]; lia|reflexivity].
          -- rewrite (recv_version_refused c b chunk v m rest E) by (rewrite Ev; reflexivity).
             cbn [fst snd]. exists (K (SFailed generic_err) true (v :: m :: rest)).
             split; [unfold chk_recv; cbn [prev seen reported]; rewrite E, Hst; reflexivity|].
             split; [reflexivity|]. split; [intros _; apply Sim_failed; cbn [length]; lia|reflexivity].
    - (* request phase *)
      rewrite (recv_request c d chunk). cbn [fst snd].
      assert (Hprev : reply_status ty d = SPending \/ exists r, reply_status ty d = SFailing r).
      { pose proof (dec_status ty d) as Hd. unfold dec_matches in Hd. now rewrite Hw in Hd. }
      destruct (parse_sim (K (reply_status ty d) false (v :: m :: d)) chunk v m (d ++ chunk) Hsel eq_refl eq_refl Hprev)
        as (k' & Hc & Hs & HS & Hwr).
      exists k'. split; [exact Hc|]. split; [exact Hs|]. split; [intros _; exact HS|].
      unfold wrote_expected. rewrite Hsel. exact Hwr.
    - (* relaying *)
      rewrite (recv_relaying c chunk). cbn [fst snd].
      exists (K (SConnected (r ++ chunk)) true (v :: m :: d ++ chunk)).
      split; [|split; [reflexivity|split; [intros _; apply (Sim_relaying v m (d ++ chunk)); [exact Hsel|now apply reply_status_conn_app]|]]].
      + unfold chk_recv. cbn [prev seen reported app]. rewrite (status_of_selected ty v m (d ++ chunk) Hsel).
        rewrite (reply_status_conn_app ty d r chunk Hst), strip_prefix_app.
        destruct chunk; cbn; rewrite ?app_nil_r, ?Ascii.eqb_refl, ?beqb_refl; reflexivity.
      + unfold wrote_expected. rewrite Hsel. destruct chunk; reflexivity.
    - (* failed *)
      rewrite (recv_abort c b chunk). cbn [fst snd].
      exists (K (SFailed r) true (sn ++ chunk)).
      split; [reflexivity|]. split; [reflexivity|].
      split; [intros _; apply Sim_failed; rewrite app_length; lia|].
      unfold wrote_expected. rewrite (sel_app sn chunk Hlen). destruct (sel sn); reflexivity.
    - (* failing, already reported *)
      rewrite (recv_abort c b chunk). cbn [fst snd].
      unfold chk_recv. cbn [prev seen reported app]. rewrite (status_of_selected ty v m (d ++ chunk) Hsel).
      unfold wrote_expected. rewrite Hsel.
      destruct (reply_status_failing_app ty d r chunk Hst) as [Hn|Hn]; rewrite Hn.
      + exists (K (SFailing r) true (v :: m :: d ++ chunk)).
        split; [reflexivity|]. split; [reflexivity|]. split; [intros _; now apply Sim_failing|reflexivity].
      + exists (K (SFailed r) true (v :: m :: d ++ chunk)).
        split; [reflexivity|]. split; [reflexivity|].
        split; [intros _; apply Sim_failed; cbn [length]; lia|reflexivity].
    - (* resolved: any further data is an error of the peer; nothing more is reported *)
      rewrite (recv_done c b chunk). cbn [fst snd].
      exists (K (SResolved r) true (sn ++ chunk)).
      split; [reflexivity|]. split; [reflexivity|]. split; [intros H; discriminate H|].
      unfold wrote_expected. rewrite (sel_app sn chunk Hlen). destruct (sel sn); reflexivity.
  Qed.

  Lemma lose_sim s k : Sim s k ->
    chk_lost k (snd (fst (lose c s))) = true /\ wrote (snd (fst (lose c s))) = 0%nat.
  Proof.
    intros HS.
    destruct HS as [b Hb | v m d Hsel Hw | v m d r Hsel Hst | b r sn Hlen | b r v m d Hsel Hst | b r sn Hlen].
    - rewrite lose_version. split; reflexivity.
    - rewrite lose_request. cbn [fst snd]. split; [|reflexivity].
      pose proof (dec_status ty d) as Hd. unfold dec_matches in Hd. rewrite Hw in Hd.
      unfold chk_lost. cbn [prev reported]. destruct Hd as [-> | [r ->]]; reflexivity.
    - rewrite lose_relaying. split; reflexivity.
    - rewrite lose_abort. split; reflexivity.
    - rewrite lose_abort. split; reflexivity.
    - rewrite lose_done. split; reflexivity.
  Qed.

  (* the chunks the connection actually delivers: nothing after an operation that raised *)
  Fixpoint consumed (s : mstate) (chunks : list bytes) : list bytes * bool :=
    match chunks with
    | [] => ([], false)
    | ch :: cs =>
        if snd (op_recv c s ch)
        then let '(f, r) := consumed (fst (fst (op_recv c s ch))) cs in (ch :: f, r)
        else ([ch], true)
    end.

  Lemma run_chunks_ok lost chunks : forall s k, Sim s k ->
    chk_recvs ty k (fst (consumed s chunks)) (run_chunks c s chunks lost)
              (lost && negb (snd (consumed s chunks))) = true
    /\ writes_ok (seen k) (fst (consumed s chunks)) (run_chunks c s chunks lost) (sel (seen k)) = true.
  Proof.
    induction chunks as [|ch cs IH]; intros s k HS.
    - cbn [consumed run_chunks fst snd negb]. rewrite andb_true_r.
      destruct (lose_sim s k HS) as [Hl Hw].
      destruct lost; [|split; reflexivity].
      destruct (lose c s) as [[s' e] ok]. cbn [fst snd] in Hl, Hw.
      cbn [chk_recvs writes_ok andb]. split; [exact Hl|]. unfold wrote in Hw. now rewrite Hw.
    - destruct (step_sim s k ch HS) as (k' & Hc & Hs & HS' & Hw).
      cbn [consumed run_chunks].
      destruct (op_recv c s ch) as [[s1 e1] ok]. cbn [fst snd] in *.
      assert (Hwr : forall tr' fs,
                 writes_ok (seen k') fs tr' (sel (seen k')) = true ->
                 writes_ok (seen k) (ch :: fs) (e1 :: tr') (sel (seen k)) = true).
      { intros tr' fs H. cbn [writes_ok]. fold (sel (seen k ++ ch)). fold (wrote e1). rewrite Hw.
        unfold wrote_expected. rewrite Hs in H.
        destruct (sel (seen k)) eqn:S0.
        - rewrite (sel_app_true _ ch S0) in H. now rewrite H.
        - destruct (sel (seen k ++ ch)); now rewrite H. }
      destruct ok.
      + specialize (HS' eq_refl).
        destruct (IH s1 k' HS') as [I1 I2].
        destruct (consumed s1 cs) as [f r]. cbn [fst snd] in *.
        split; [cbn [chk_recvs]; rewrite Hc; exact I1|].
        apply Hwr. exact I2.
      + cbn [fst snd negb]. rewrite andb_false_r.
        split; [cbn [chk_recvs]; rewrite Hc; reflexivity|].
        apply Hwr. destruct (sel (seen k')); reflexivity.
  Qed.

  Definition fed (chunks : list bytes) : list bytes :=
    fst (consumed {| st := sent_version; buf := []; has_sender := false; fired := false |} chunks).
  Definition raised (chunks : list bytes) : bool :=
    snd (consumed {| st := sent_version; buf := []; has_sender := false; fired := false |} chunks).

  Theorem oracle_run chunks lost :
    oracle ty (fed chunks) (lost && negb (raised chunks)) (run c chunks lost) = true.
  Proof.
    unfold run. rewrite connected.
    destruct (run_chunks_ok lost chunks _ _ (Sim_version [] ltac:(cbn; lia))) as [I1 I2].
    unfold oracle, fed, raised. cbn [count filter is_wrote length Nat.eqb andb].
    rewrite beqb_refl. cbn [andb]. cbn [seen sel] in I2. rewrite I1, I2. reflexivity.
  Qed.
End Sim.

Lemma consumed_not_raised c : forall chunks s,
  snd (consumed c s chunks) = false -> fst (consumed c s chunks) = chunks.
Proof.
  induction chunks as [|ch cs IH]; intros s; cbn [consumed]; [reflexivity|].
  destruct (snd (op_recv c s ch)); [|intros H; discriminate H].
  specialize (IH (fst (fst (op_recv c s ch)))).
  destruct (consumed c (fst (fst (op_recv c s ch))) cs) as [f r]. cbn [fst snd] in *.
  intros H. now rewrite (IH H).
Qed.

(* when no operation raises, the whole input is judged *)
Corollary oracle_run_no_raise c req chunks lost :
  encode (c_ty c) (c_target c) (c_port c) = Some req ->
  raised c chunks = false ->
  oracle (c_ty c) chunks lost (run c chunks lost) = true.
Proof.
  intros He Hr. pose proof (oracle_run c req He chunks lost) as H.
  unfold fed in H. unfold raised in Hr. rewrite (consumed_not_raised c chunks _ Hr) in H.
  unfold raised in H. rewrite Hr in H. cbn [negb] in H. now rewrite andb_true_r in H.
Qed.

(* former finding C05-F1 (CONNECT answered by a success reply with a domain-name bound address),
   repaired in /repo: its witness is accepted now *)
Lemma connect_domain_now_accepted :
  let c := {| c_ty := RConnect; c_target := {| t_text := map ch [97]; t_cls := CHost |}; c_port := 80 |} in
  let chunks := [map ch [5; 0]; map ch [5; 0; 0; 3; 1; 97; 0; 80; 72; 73]] in
  stream_has_domain_success chunks = true /\ raised c chunks = false /\
  List.concat (run c chunks false) =
    [EWrote (map ch [5; 1; 0]); EWrote (map ch [5; 1; 0; 3; 1; 97; 0; 80]);
     EAppCreated true; EDone RProto; EAppData (map ch [72; 73])] /\
  oracle RConnect chunks false (run c chunks false) = true.
Proof. vm_compute. repeat split; reflexivity. Qed.
