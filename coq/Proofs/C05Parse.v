(* C05 refinement, part 2: what the machine does with the bytes after the method reply, as a
   pure decision function *)
From Coq Require Import String List Bool Ascii Arith NArith ZArith Lia.
From TxVerif Require Import Lib.Bytes Model.Struct Model.SocksTypes Gen.SocksTable Gen.SocksConsts
  Spec.Rfc1928 Spec.C06 Spec.C05 Model.SocksEnc Model.Socks.
Import ListNotations.
Open Scope N_scope.

Inductive pdec :=
| PWait
| PErr (r : result)
| PConn (rest : bytes)
| PName (r : result) (rest : bytes).

(* _parse_request_reply on the buffered bytes d *)
Definition parse_dec (ty : rtype) (d : bytes) : pdec :=
  if nlen d <? c_MIN_REPLY then PWait else
  match d with
  | v :: rep :: _ :: typ :: _ =>
      if negb (code v =? 5) then PErr generic
      else if negb (code rep =? 0) then PErr (socks_error (code rep))
      else if code typ =? 1 then
        if 10 <=? nlen d then
          match ty with
          | RConnect => PConn (skipn 10 d)
          | _ => PName (RName true (firstn 4 (skipn 4 d))) (skipn 10 d)
          end
        else PWait
      else if code typ =? 3 then
        let l := match nth_error d 4 with Some x => code x | None => 0 end in
        if nlen d <? 5 + l + 2 then PWait
        else
          match ty with
          | RConnect => PConn (skipn (N.to_nat (5 + l + 2)) d)
          | _ => PName (RName false (firstn (N.to_nat l) (skipn 5 d))) (skipn (N.to_nat (5 + l + 2)) d)
          end
      else if code typ =? 4 then
        if 22 <=? nlen d then
          match ty with
          | RConnect => PConn (skipn 22 d)
          | _ => PName (RName true (firstn 16 (skipn 4 d))) (skipn 22 d)
          end
        else PWait
      else PErr generic
  | _ => PWait
  end.

Lemma andthen_ret_r' (r : res) : andthen r ret = r.
Proof. unfold andthen, ret. destruct r as [[s o] ok]. destruct ok; [now rewrite app_nil_r|reflexivity]. Qed.

Section Parse.
  Variable c : cfg.

  Notation mk s b h f := {| st := s; buf := b; has_sender := h; fired := f |} (only parsing).

  (* the result of got_data in sent_request with buffer d *)
  Definition after_parse (d : bytes) : res :=
    match parse_dec (c_ty c) d with
    | PWait => (mk sent_request d false false, [], true)
    | PErr r => (mk abort d false true, [ELoseConn; EDone r], true)
    | PConn rest => (mk relaying [] true true,
                     [EAppCreated true; EDone RProto] ++ match rest with [] => [] | _ => [EAppData rest] end, true)
    | PName r rest => (mk done rest false true, [EDone r], true)
    end.

  Lemma fire_reply_error n b r :
    fire c (S (S n)) (mk sent_request b false false) reply_error (AErr r) =
    (mk abort b false true, [ELoseConn; EDone r], true).
  Proof. reflexivity. Qed.

  Lemma fire_reply_conn n b i : i = reply_ipv4 \/ i = reply_ipv6 ->
    fire c (S (S n)) (mk sent_request b false false) i AConn =
    (mk relaying [] true true,
     [EAppCreated true; EDone RProto] ++ match b with [] => [] | _ => [EAppData b] end, true).
  Proof. intros [-> | ->]; destruct b; reflexivity. Qed.

  Lemma fire_reply_name n b r :
    fire c (S (S n)) (mk sent_request b false false) reply_domain_name (AName r) =
    (mk done b false true, [EDone r], true).
  Proof. reflexivity. Qed.

  Lemma got_data_sent_request n d :
    fire c (S (S (S n))) (mk sent_request d false false) got_data ANone = after_parse d.
  Proof.
    change (fire c (S (S (S n))) ?s got_data ANone) with
      (outputs (output_body c (fire c (S (S n)))) (set_st s sent_request) [_parse_request_reply] ANone).
    cbn [outputs]. rewrite andthen_ret_r'. unfold set_st. cbn [st buf has_sender fired].
    unfold output_body, after_parse, parse_dec. cbn [buf st has_sender fired].
    change c_SUCCEEDED with 0. change c_REPLY_IPV4 with 1. change c_REPLY_HOST with 3. change c_REPLY_IPV6 with 4.
    destruct (nlen d <? c_MIN_REPLY); [reflexivity|].
    destruct d as [|v [|rep [|x [|typ tl]]]]; try reflexivity.
    set (d := v :: rep :: x :: typ :: tl).
    unfold set_buf. cbn [st buf has_sender fired].
    destruct (negb (code v =? 5)); [now rewrite fire_reply_error|].
    destruct (negb (code rep =? 0)); [now rewrite fire_reply_error|].
    destruct (code typ =? 1).
    { destruct (10 <=? nlen d); [|reflexivity].
      destruct (c_ty c); rewrite ?fire_reply_conn by auto; rewrite ?fire_reply_name; reflexivity. }
    destruct (code typ =? 3).
    { match goal with |- context[if ?t then _ else _] => destruct t end; [reflexivity|].
      destruct (c_ty c); rewrite ?fire_reply_conn by auto; rewrite ?fire_reply_name; reflexivity. }
    destruct (code typ =? 4).
    { destruct (22 <=? nlen d); [|reflexivity].
      destruct (c_ty c); rewrite ?fire_reply_conn by auto; rewrite ?fire_reply_name; reflexivity. }
    now rewrite fire_reply_error.
  Qed.
End Parse.
