(* Lemmas for C10 (all the proof work; Properties/C10.v only restates them). *)
From Coq Require Import String.
From Coq Require Import List Bool Ascii Arith NArith ZArith Lia.
From TxVerif Require Import Lib.Bytes Lib.CfgLib Spec.CfgTypes Spec.TorStore Spec.CfgOracle Spec.C10
  Model.ConfigKinds Gen.ConfigTypes Model.Config.
Import ListNotations.
Open Scope N_scope.

Definition is_save (o : op) : bool := match o with OpSave _ | OpSaveDuring _ _ => true | _ => false end.

(* ---- silent until save: one step ---- *)
Lemma step_silent names st o st' ob :
  m_step names st o = Some (st', ob) -> is_save o = false -> o_wrote ob = [].
Proof.
  intros H Hs. destruct o; cbn [is_save] in Hs; try discriminate; cbn [m_step m_step_gen] in H.
  - destruct (m_setattr st name v) as [s1|k|]; inversion H; reflexivity.
  - destruct (m_listop st name o) as [[s1 [k|]]|k|]; inversion H; reflexivity.
  - destruct (m_read st name) as [[s1 [v|k]]|]; inversion H; reflexivity.
  - inversion H; reflexivity.
  - destruct (m_conf_changed st items) as [s1|k|]; try discriminate.
    destruct (m_snapshot s1 names) as [[s2 snap]|]; inversion H; reflexivity.
  - destruct (m_socks st) as [[s1 r]|]; inversion H; reflexivity.
  - destruct (m_getattr st src) as [[[s1 rn] g]|k|]; [|inversion H; reflexivity|discriminate].
    match type of H with match ?r with _ => _ end = _ => destruct r as [s2|k|] end; inversion H; reflexivity.
Qed.

Lemma run_silent names : forall ops st tr,
  m_run names st ops = Some tr ->
  Forall2 (fun o ob => is_save o = false -> o_wrote ob = []) ops tr.
Proof.
  induction ops as [|o ops IH]; intros st tr H; cbn [m_run] in H.
  - inversion H. constructor.
  - destruct (m_step names st o) as [[st1 ob]|] eqn:E; [|discriminate].
    destruct (m_run names st1 ops) as [tr'|] eqn:E2; [|discriminate].
    inversion H. subst. constructor; [|eapply IH; eassumption].
    intros Hs. eapply step_silent; eassumption.
Qed.

(* ================================================================== save() *)
From TxVerif Require Import Proofs.CfgLibProofs Proofs.CfgWire.

Definition resolve (st : mst) (key : bytes) (uv : uval) : option cval :=
  match uv with UAlias => dget key (m_config st) | UVal v => Some v end.

(* scalar: once, with str(value); list: once per element, in list order *)
Definition args_of (key : bytes) (v : cval) : list (bytes * bytes) :=
  match v with
  | CList _ l => map (fun x => (key, atom_text x)) l
  | CAtom a => [(key, atom_text a)]
  end.

Definition item_args (st : mst) (it : bytes * uval) : list (bytes * bytes) :=
  match resolve st (fst it) (snd it) with Some v => args_of (fst it) v | None => [] end.

(* what is pending, as SETCONF arguments: every pending option, in the order it became pending *)
Definition pending_args (st : mst) : list (bytes * bytes) := concat (map (item_args st) (m_unsaved st)).

Definition unsaved_wf (st : mst) : Prop := NoDup (map fst (m_unsaved st)).

(* ---- set_config ---- *)
Lemma set_config_config st k v : m_config (set_config st k v) = dset k v (m_config st).
Proof. reflexivity. Qed.

Lemma set_config_unsaved_keys st k v : map fst (m_unsaved (set_config st k v)) = map fst (m_unsaved st).
Proof.
  unfold set_config. cbn [m_unsaved].
  destruct (dget k (m_unsaved st)) as [[|v0]|] eqn:E; try reflexivity.
  destruct (dget k (m_config st)) as [old|]; [|reflexivity].
  apply keys_dset_mem. unfold dmem. now rewrite E.
Qed.

Lemma set_config_unsaved_other st k v k' : k <> k' ->
  dget k' (m_unsaved (set_config st k v)) = dget k' (m_unsaved st).
Proof.
  intros Hne. unfold set_config. cbn [m_unsaved].
  destruct (dget k (m_unsaved st)) as [[|v0]|]; try reflexivity.
  destruct (dget k (m_config st)) as [old|]; [|reflexivity].
  now apply dget_dset_other.
Qed.

(* the pending entry of k still denotes the same value after config[k] was overwritten *)
Lemma set_config_unsaved_same st k v u val :
  dget k (m_unsaved st) = Some u -> resolve st k u = Some val ->
  exists u', dget k (m_unsaved (set_config st k v)) = Some u' /\ u' = UVal val.
Proof.
  intros Hu Hr. unfold set_config. cbn [m_unsaved]. rewrite Hu.
  destruct u as [|v0]; cbn [resolve] in Hr.
  - rewrite Hr. exists (UVal val). split; [apply dget_dset_same|reflexivity].
  - inversion Hr. subst. exists (UVal val). split; [assumption|reflexivity].
Qed.

Lemma NoDup_keys_unique {A} (d : list (bytes * A)) k a b :
  NoDup (map fst d) -> In (k, a) d -> In (k, b) d -> a = b.
Proof.
  intros Hnd Ha Hb. apply (dget_first k a d Hnd) in Ha. apply (dget_first k b d Hnd) in Hb. congruence.
Qed.

(* ---- the loop of save() ---- *)
Section Loop.
  Variable st0 : mst.
  Let U0 := m_unsaved st0.

  (* every originally pending entry is still pending, in the same order, denoting the same value *)
  Definition keeps (st : mst) : Prop :=
    map fst (m_unsaved st) = map fst U0 /\
    forall k u, In (k, u) U0 ->
      exists u', dget k (m_unsaved st) = Some u' /\ resolve st k u' = resolve st0 k u.

  Lemma save_loop_spec : forall items st acc st' args,
    NoDup (map fst U0) ->
    save_loop st items acc = Ok (st', args) ->
    NoDup (map fst items) ->
    (forall it, In it items -> In it U0) ->
    (forall it, In it items -> resolve st (fst it) (snd it) = resolve st0 (fst it) (snd it)) ->
    keeps st ->
    args = acc ++ concat (map (item_args st0) items) /\ keeps st'.
  Proof.
    induction items as [|[key uv] rest IH]; intros st acc st' args HndU H Hnd Hin Hq Hk.
    - cbn in H. inversion H. subst. cbn. split; [now rewrite app_nil_r|assumption].
    - cbn [save_loop] in H.
      destruct (beqb key (bs "HiddenServices")); [discriminate|].
      pose proof (Hq (key, uv) (or_introl eq_refl)) as Hres. cbn [fst snd] in Hres.
      assert (match uv with UAlias => dget key (m_config st) | UVal v => Some v end = resolve st key uv) as Hm by reflexivity.
      rewrite Hm, Hres in H.
      destruct (resolve st0 key uv) as [value|] eqn:Hv; [|discriminate].
      destruct (negb (beqb (find_real_name st key) key)) eqn:Hrn; [discriminate|].
      apply negb_false_iff, beqb_eq in Hrn.
      inversion Hnd as [|? ? Hnotin Hnd']. subst.
      assert (forall it, In it rest -> fst it <> key) as Hother.
      { intros it Hi E. apply Hnotin. rewrite <- E. now apply in_map. }
      assert (In (key, uv) U0) as HinU by (apply Hin; now left).
      destruct Hk as [Hkeys Hk].
      destruct (Hk key uv HinU) as [u' [Hu' Hru']].
      destruct value as [a|w l].
      + (* scalar *)
        set (args' := acc ++ [(key, atom_text a)]) in *.
        assert (forall newv, keeps (set_config st key newv) /\
                  (forall it, In it rest -> resolve (set_config st key newv) (fst it) (snd it) = resolve st0 (fst it) (snd it))) as Hstep.
        { intros newv. split; [split|].
          - now rewrite set_config_unsaved_keys.
          - intros k u Hku. destruct (Hk k u Hku) as [u2 [Hu2 Hru2]].
            destruct (list_eq_dec ascii_dec key k) as [E|E].
            + subst k. assert (u = uv) by (exact (NoDup_keys_unique U0 key u uv HndU Hku HinU)). subst u.
              rewrite Hv in Hru'. rewrite Hres in *.
              destruct (set_config_unsaved_same st key newv u' (CAtom a) Hu') as [u3 [H3 E3]].
              { rewrite Hru'. reflexivity. }
              exists u3. split; [assumption|]. subst u3. cbn [resolve]. now rewrite Hv.
            + exists u2. split; [now rewrite set_config_unsaved_other|].
              rewrite <- Hru2. destruct u2; cbn [resolve]; [|reflexivity].
              rewrite set_config_config. now apply dget_dset_other.
          - intros it Hi. rewrite <- (Hq it (or_intror Hi)).
            destruct it as [k u]. cbn [fst snd]. destruct u; cbn [resolve]; [|reflexivity].
            rewrite set_config_config. apply dget_dset_other. intros E. apply (Hother (k, UAlias) Hi). now symmetry.
        }
        rewrite Hrn in H.
        assert (forall st1, keeps st1 ->
                  (forall it, In it rest -> resolve st1 (fst it) (snd it) = resolve st0 (fst it) (snd it)) ->
                  save_loop st1 rest args' = Ok (st', args) ->
                  args = acc ++ concat (map (item_args st0) ((key, uv) :: rest)) /\ keeps st') as Hgo.
        { intros st1 Hk1 Hq1 Hl.
          destruct (IH st1 args' st' args HndU Hl Hnd' (fun it Hi => Hin it (or_intror Hi)) Hq1 Hk1) as [Ha Hk'].
          split; [|assumption]. rewrite Ha. unfold args'. cbn [map concat]. unfold item_args at 2. cbn [fst snd].
          rewrite Hv. cbn [args_of]. now rewrite <- app_assoc. }
        destruct (dget key (m_parsers st)) as [[[pk vk] il]|].
        * destruct (parse pk (PAtom a)) as [pv|e|]; cbn [bind] in H; try discriminate.
          destruct (Hstep (cval_of_pyval true pv)) as [Hk1 Hq1]. now apply (Hgo _ Hk1 Hq1).
        * destruct (Hstep (CAtom a)) as [Hk1 Hq1]. now apply (Hgo _ Hk1 Hq1).
      + (* list *)
        destruct (existsb (fun x => match x with AStr s => beqb s DEFAULT_VALUE | _ => false end) l); [discriminate|].
        set (st1 := {| m_parsers := m_parsers st; m_listp := m_listp st; m_defaults := m_defaults st;
                       m_config := dset key (CList w l) (m_config st);
                       m_unsaved := dset key UAlias (m_unsaved st) |}) in *.
        assert (keeps st1) as Hk1.
        { split.
          - cbn [st1 m_unsaved]. rewrite keys_dset_mem; [assumption|]. unfold dmem. now rewrite Hu'.
          - intros k u Hku. destruct (Hk k u Hku) as [u2 [Hu2 Hru2]].
            destruct (list_eq_dec ascii_dec key k) as [E|E].
            + subst k. assert (u = uv) by (exact (NoDup_keys_unique U0 key u uv HndU Hku HinU)). subst u.
              exists UAlias. split; [cbn [st1 m_unsaved]; apply dget_dset_same|].
              cbn [resolve st1 m_config]. rewrite dget_dset_same. now rewrite Hv.
            + exists u2. split; [cbn [st1 m_unsaved]; now rewrite dget_dset_other|].
              rewrite <- Hru2. destruct u2; cbn [resolve]; [|reflexivity].
              cbn [st1 m_config]. now apply dget_dset_other. }
        assert (forall it, In it rest -> resolve st1 (fst it) (snd it) = resolve st0 (fst it) (snd it)) as Hq1.
        { intros it Hi. rewrite <- (Hq it (or_intror Hi)).
          destruct it as [k u]. cbn [fst snd]. destruct u; cbn [resolve]; [|reflexivity].
          cbn [st1 m_config]. apply dget_dset_other. intros E. apply (Hother (k, UAlias) Hi). now symmetry. }
        destruct (IH st1 _ st' args HndU H Hnd' (fun it Hi => Hin it (or_intror Hi)) Hq1 Hk1) as [Ha Hk'].
        split; [|assumption]. rewrite Ha. cbn [map concat]. unfold item_args at 2. cbn [fst snd].
        rewrite Hv. cbn [args_of]. now rewrite <- app_assoc.
  Qed.
End Loop.

Lemma keeps_refl st : unsaved_wf st -> keeps st st.
Proof.
  intros Hnd. split; [reflexivity|]. intros k u Hin. exists u. split; [|reflexivity].
  now apply dget_first.
Qed.

Lemma save_loop_whole st st' args :
  unsaved_wf st -> save_loop st (m_unsaved st) [] = Ok (st', args) ->
  args = pending_args st /\ keeps st st'.
Proof.
  intros Hnd H.
  destruct (save_loop_spec st (m_unsaved st) st [] st' args Hnd H Hnd (fun it Hi => Hi) (fun it Hi => eq_refl)
                           (keeps_refl st Hnd)) as [Ha Hk].
  split; assumption.
Qed.

(* pending_args only depends on what `keeps` preserves *)
Lemma keeps_pending_args st st' : unsaved_wf st -> keeps st st' -> pending_args st' = pending_args st.
Proof.
  intros Hnd [Hkeys Hk]. unfold pending_args.
  (* walk both lists in lock step *)
  assert (forall (l1 l2 : list (bytes * uval)),
             map fst l2 = map fst l1 ->
             (forall k u u', In (k, u) l1 -> In (k, u') l2 ->
                             dget k (m_unsaved st') = Some u' -> resolve st' k u' = resolve st k u) ->
             NoDup (map fst l1) ->
             (forall k u', In (k, u') l2 -> dget k (m_unsaved st') = Some u') ->
             concat (map (item_args st') l2) = concat (map (item_args st) l1)) as Hwalk.
  { induction l1 as [|[k1 u1] l1 IH]; intros [|[k2 u2] l2] Hm Hr Hnd1 Hg; cbn in Hm; try discriminate; [reflexivity|].
    inversion Hm as [[Hk12 Hm']]. subst k2. cbn [map concat]. f_equal.
    - unfold item_args. cbn [fst snd].
      rewrite (Hr k1 u1 u2 (or_introl eq_refl) (or_introl eq_refl) (Hg k1 u2 (or_introl eq_refl))). reflexivity.
    - inversion Hnd1 as [|? ? Hx Hnd1']. subst. apply IH; auto.
      + intros k u u' Ha Hb Hc. apply (Hr k u u'); [now right|now right|assumption].
      + intros k u' Ha. apply Hg. now right. }
  apply Hwalk; try assumption.
  - intros k u u' Hin1 Hin2 Hg. destruct (Hk k u Hin1) as [u2 [Hu2 Hr2]]. congruence.
  - intros k u' Hin. apply dget_first; [|assumption]. rewrite Hkeys. exact Hnd.
Qed.

(* ---- save(): what is written ---- *)
Theorem save_writes_exactly_pending st rej st' wrote r :
  unsaved_wf st -> m_save st rej = Some (st', wrote, r) ->
  match m_unsaved st with
  | [] => wrote = [] /\ r = SOk /\ st' = st
  | _ =>
      (wrote = [] /\ r = SErr E_Value) \/
      (exists line, wrote = [line] /\ parse_setconf line = Some (map entry_of (pending_args st))
                    /\ r = match rej with None => SOk | Some c => SFail c end)
  end.
Proof.
  intros Hnd H. unfold m_save in H.
  destruct (m_unsaved st) as [|it items] eqn:EU.
  - inversion H. auto.
  - rewrite <- EU in H.
    destruct (save_loop st (m_unsaved st) []) as [[st1 args]|k|] eqn:EL; try discriminate.
    destruct (save_loop_whole st st1 args Hnd EL) as [Ha Hk]. subst args.
    destruct (existsb (fun kv : bytes * bytes => key_refused (fst kv)) (pending_args st)) eqn:EK.
    + inversion H. left. auto.
    + right. exists (setconf_line (pending_args st)).
      destruct rej; inversion H; subst; (split; [reflexivity|split; [now apply setconf_line_parses|reflexivity]]).
Qed.

(* ---- acknowledged: nothing is pending, a further save writes nothing ---- *)
Theorem save_accept_clears st st' wrote :
  m_save st None = Some (st', wrote, SOk) -> m_unsaved st' = [] /\
  forall rej, m_save st' rej = Some (st', [], SOk).
Proof.
  intros H. unfold m_save in H.
  assert (m_unsaved st' = []) as E.
  { destruct (m_unsaved st) as [|it items] eqn:EU.
    - inversion H. subst. assumption.
    - destruct (save_loop st (it :: items) []) as [[st1 args]|k|]; try discriminate.
      destruct (existsb (fun kv : bytes * bytes => key_refused (fst kv)) args); inversion H. reflexivity. }
  split; [assumption|]. intros rej. unfold m_save. now rewrite E.
Qed.

(* ---- rejected: the same options stay pending, in the same order, with the same values;
        the next save sends the same arguments ---- *)
Theorem save_reject_keeps st c st' wrote r :
  unsaved_wf st -> m_save st (Some c) = Some (st', wrote, r) ->
  map fst (m_unsaved st') = map fst (m_unsaved st) /\ pending_args st' = pending_args st.
Proof.
  intros Hnd H. unfold m_save in H.
  destruct (m_unsaved st) as [|it items] eqn:EU.
  - inversion H. subst. rewrite EU. auto.
  - rewrite <- EU in H.
    destruct (save_loop st (m_unsaved st) []) as [[st1 args]|k|] eqn:EL; try discriminate.
    destruct (save_loop_whole st st1 args Hnd EL) as [Ha Hk].
    assert (st' = st1) by (destruct (existsb (fun kv : bytes * bytes => key_refused (fst kv)) args); inversion H; reflexivity).
    subst st'. rewrite <- EU. split; [exact (proj1 Hk)|]. now apply keeps_pending_args.
Qed.

(* ================================================================== unsaved_wf is an invariant *)
Lemma with_config_unsaved st c : m_unsaved (with_config st c) = m_unsaved st.
Proof. reflexivity. Qed.

Lemma getattr_unsaved st name st1 rn g :
  m_getattr st name = Ok (st1, rn, g) -> m_unsaved st1 = m_unsaved st.
Proof.
  unfold m_getattr.
  set (rn0 := find_real_name st name).
  set (stx := if mem_bytes (lower rn0) (m_listp st) && negb (dmem rn0 (m_config st))
              then with_config st (dset rn0 (CList true []) (m_config st)) else st).
  assert (m_unsaved stx = m_unsaved st) as Hx
    by (unfold stx; destruct (mem_bytes (lower rn0) (m_listp st) && negb (dmem rn0 (m_config st))); reflexivity).
  destruct (dget rn0 (m_config stx)) as [v|]; [|discriminate].
  destruct v as [[s|z|b|t]|w l]; try (intros H; inversion H; subst; exact Hx).
  destruct (beqb s DEFAULT_VALUE); [destruct (dget rn0 (m_defaults stx))|]; intros H; inversion H; subst; exact Hx.
Qed.

Lemma read_unsaved st name st1 r : m_read st name = Some (st1, r) -> m_unsaved st1 = m_unsaved st.
Proof.
  unfold m_read. destruct (m_getattr st name) as [[[s1 rn] g]|k|] eqn:E; intros H; inversion H; subst.
  - eapply getattr_unsaved; eassumption.
  - reflexivity.
Qed.

Lemma snapshot_unsaved names : forall st st1 rs, m_snapshot st names = Some (st1, rs) -> m_unsaved st1 = m_unsaved st.
Proof.
  induction names as [|n names IH]; intros st st1 rs H; cbn [m_snapshot] in H.
  - inversion H. reflexivity.
  - destruct (m_read st n) as [[s1 r]|] eqn:E; [|discriminate].
    destruct (m_snapshot s1 names) as [[s2 rs']|] eqn:E2; [|discriminate].
    inversion H. subst. rewrite (IH _ _ _ E2). eapply read_unsaved; eassumption.
Qed.

Lemma mark_unsaved_wf st name st1 : mark_unsaved st name = Ok st1 -> unsaved_wf st -> unsaved_wf st1.
Proof.
  intros E H. unfold mark_unsaved in E.
  destruct (negb (beqb (find_real_name st name) name)); [discriminate|].
  destruct (dmem (find_real_name st name) (m_config st) && negb (dmem (find_real_name st name) (m_unsaved st)));
    inversion E; subst; [|assumption].
  unfold unsaved_wf. cbn [with_unsaved m_unsaved]. now apply NoDup_keys_dset.
Qed.

Lemma conf_changed_items_keys : forall kvs st st1,
  conf_changed_items st kvs = Ok st1 -> map fst (m_unsaved st1) = map fst (m_unsaved st).
Proof.
  induction kvs as [|kv kvs IH]; intros st st1 H; cbn [conf_changed_items] in H.
  - inversion H. reflexivity.
  - destruct (conf_changed_item st kv) as [s1|k|] eqn:E; cbn [bind] in H; try discriminate.
    rewrite (IH _ _ H).
    unfold conf_changed_item in E. destruct kv as [k v0].
    destruct (dget (find_real_name st k) (m_parsers st)) as [[[pk vk] il]|].
    + match type of E with (match ?r with _ => _ end) = _ => destruct r as [cv|k'|] end.
      * inversion E. apply set_config_unsaved_keys.
      * destruct ((k' =? E_Value) || (k' =? E_Type)); inversion E. reflexivity.
      * discriminate.
    + inversion E. apply set_config_unsaved_keys.
Qed.

Lemma setattr_wf st name v st1 : m_setattr st name v = Ok st1 -> unsaved_wf st -> unsaved_wf st1.
Proof.
  intros E Hwf. unfold m_setattr in E.
  destruct (ci_eqb (find_real_name st name) hiddenservices_lc); [discriminate|].
  destruct (dget (find_real_name st name) (m_parsers st)) as [[[pk vk] il]|]; [|discriminate].
  destruct (validate vk v) as [v1|k|]; cbn [bind] in E; inversion E.
  unfold unsaved_wf. cbn [with_unsaved m_unsaved]. now apply NoDup_keys_dset.
Qed.

Lemma step_wf_base names st o st' ob :
  m_step_base names st o = Some (st', ob) -> unsaved_wf st -> unsaved_wf st'.
Proof.
  intros H Hwf. destruct o; cbn [m_step_base m_step_gen] in H; [| | | | | | | |discriminate].
  - (* assign *)
    destruct (m_setattr st name v) as [s1|k|] eqn:E; inversion H; subst; [|assumption].
    eapply setattr_wf; eassumption.
  - (* list op *)
    destruct (m_listop st name o) as [[s1 ex]|k|] eqn:E; [|discriminate|discriminate].
    assert (unsaved_wf s1) as Hs1.
    { unfold m_listop in E.
      destruct (m_getattr st name) as [[[sg rn] g]|k|] eqn:EG; [|inversion E; subst; assumption|discriminate].
      pose proof (getattr_unsaved _ _ _ _ _ EG) as Hu.
      assert (unsaved_wf sg) as Hsg by (unfold unsaved_wf; now rewrite Hu).
      destruct g as [[a|w l]|[ds|dl]]; try discriminate; try (inversion E; subst; assumption).
      change on_modify_before_op with false in E. cbv iota in E.
      destruct (py_list_op o l) as [l'|k]; [|inversion E; subst; assumption].
      cbv zeta in E.
      match type of E with bind ?r _ = _ => destruct r as [s3|k|] eqn:EM end; cbn [bind] in E; try discriminate.
      inversion E; subst.
      destruct (w && is_wrapped o); [|inversion EM; subst; unfold unsaved_wf; now rewrite with_config_unsaved].
      eapply mark_unsaved_wf; [exact EM|]. unfold unsaved_wf. now rewrite with_config_unsaved. }
    destruct ex; inversion H; subst; assumption.
  - (* save *)
    destruct (m_save st reject) as [[[s1 wrote] r]|] eqn:E; [|discriminate].
    destruct (m_snapshot s1 names) as [[s2 snap]|] eqn:ES; [|discriminate].
    inversion H. subst. unfold unsaved_wf. rewrite (snapshot_unsaved _ _ _ _ ES).
    unfold m_save in E. destruct (m_unsaved st) as [|it items] eqn:EU.
    + inversion E. subst. rewrite EU. constructor.
    + rewrite <- EU in E.
      destruct (save_loop st (m_unsaved st) []) as [[sl args]|k|] eqn:EL; try discriminate.
      destruct (save_loop_whole st sl args Hwf EL) as [_ [Hkeys _]].
      destruct (existsb (fun kv : bytes * bytes => key_refused (fst kv)) args).
      * inversion E. subst. rewrite Hkeys. exact Hwf.
      * destruct reject; inversion E; subst; [rewrite Hkeys; exact Hwf|constructor].
  - (* read *)
    destruct (m_read st name) as [[s1 [v|k]]|] eqn:E; inversion H; subst;
      unfold unsaved_wf; rewrite (read_unsaved _ _ _ _ E); exact Hwf.
  - inversion H. subst. assumption.
  - (* event *)
    destruct (m_conf_changed st items) as [s1|k|] eqn:E; try discriminate.
    destruct (m_snapshot s1 names) as [[s2 snap]|] eqn:ES; [|discriminate].
    inversion H. subst. unfold unsaved_wf. rewrite (snapshot_unsaved _ _ _ _ ES).
    unfold m_conf_changed in E. rewrite (conf_changed_items_keys _ _ _ E). exact Hwf.
  - (* socks *)
    destruct (m_socks st) as [[s1 r]|] eqn:E; [|discriminate]. inversion H. subst.
    unfold m_socks in E.
    destruct (m_getattr st (bs "SocksPort")) as [[[sg rn] g]|k|] eqn:EG; [|inversion E; subst; assumption|discriminate].
    pose proof (getattr_unsaved _ _ _ _ _ EG) as Hu.
    assert (unsaved_wf sg) as Hsg by (unfold unsaved_wf; now rewrite Hu).
    destruct g as [[[[|c0 s0]|z0|b0|t0]|w [|x l]]|[[|c0 s0]|[|x l]]]; try discriminate; try (inversion E; subst; assumption);
      match type of E with option_map _ ?r = _ => destruct r as [r0|]; cbn [option_map] in E; inversion E; subst; assumption end.
  - (* copy *)
    destruct (m_getattr st src) as [[[sg rn] g]|k|] eqn:EG; [|inversion H; subst; assumption|discriminate].
    pose proof (getattr_unsaved _ _ _ _ _ EG) as Hu.
    assert (unsaved_wf sg) as Hsg by (unfold unsaved_wf; now rewrite Hu).
    match type of H with match ?r with _ => _ end = _ => destruct r as [s2|k|] eqn:E end; inversion H; subst; [|assumption].
    eapply setattr_wf; eassumption.
Qed.

(* ---- operations while a save is unanswered: an invariant of the ordinary operations, of the
        save loop and of "unsaved = {}" is an invariant of OpSaveDuring ---- *)
Lemma m_inner_inv (P : mst -> Prop) names :
  (forall st o st' ob, m_step_base names st o = Some (st', ob) -> P st -> P st') ->
  (forall st st' c, m_send st = Some (st', c) -> P st -> P st') ->
  forall ds st out st' rs cs out', m_inner names st out ds = Some (st', rs, cs, out') -> P st -> P st'.
Proof.
  intros Hop Hsend. induction ds as [|d ds IH]; intros st out st' rs cs out' H HP; cbn [m_inner] in H.
  - inversion H. subst. exact HP.
  - destruct (op_of_dop d) as [o|].
    + destruct (m_step_base names st o) as [[st1 ob]|] eqn:E; [|discriminate].
      destruct (o_wrote ob); [|discriminate]. destruct (ires_of_ores (o_res ob)); [|discriminate].
      match type of H with match m_inner names st1 ?o1 ds with _ => _ end = _ =>
        destruct (m_inner names st1 o1 ds) as [[[[st2 rs2] cs2] out2]|] eqn:E2 end; [|discriminate]. inversion H. subst.
      eapply IH; [exact E2|]. eapply Hop; eassumption.
    + destruct (m_send st) as [[st1 c]|] eqn:E; [|discriminate].
      match type of H with match m_inner names st1 ?o1 ds with _ => _ end = _ =>
        destruct (m_inner names st1 o1 ds) as [[[[st2 rs2] cs2] out2]|] eqn:E2 end; [|discriminate]. inversion H. subst.
      eapply IH; [exact E2|]. eapply Hsend; eassumption.
Qed.

(* the acknowledgement only removes entries of `unsaved` *)
Lemma m_ack_inv (P : mst -> Prop) :
  (forall st f, P st -> P (with_unsaved st (filter f (m_unsaved st)))) ->
  forall outs st, P st -> P (fold_left m_ack outs st).
Proof.
  intros Hdel. induction outs as [|o outs IH]; intros st HP; [exact HP|]. cbn [fold_left]. apply IH.
  unfold m_ack. now apply Hdel.
Qed.

Lemma m_flight_inv (P : mst -> Prop) names :
  (forall st o st' ob, m_step_base names st o = Some (st', ob) -> P st -> P st') ->
  (forall st st' c, m_send st = Some (st', c) -> P st -> P st') ->
  (forall st f, P st -> P (with_unsaved st (filter f (m_unsaved st)))) ->
  (forall st st' rs, m_snapshot st names = Some (st', rs) -> P st -> P st') ->
  forall st rej ds st' ob, m_flight names st rej ds = Some (st', ob) -> P st -> P st'.
Proof.
  intros Hop Hsend Hdel Hsnap st rej ds st' ob H HP. unfold m_flight in H.
  destruct (m_send st) as [[st0 c0]|] eqn:E0; [|discriminate].
  match type of H with match m_inner names st0 ?o0 ds with _ => _ end = _ =>
    destruct (m_inner names st0 o0 ds) as [[[[st1 rs] cs] out]|] eqn:E1 end; [|discriminate].
  assert (P st1) as H1 by (eapply m_inner_inv; [exact Hop|exact Hsend|exact E1|eapply Hsend; eassumption]).
  match type of H with match m_snapshot ?s _ with _ => _ end = _ => assert (P s) as H2 end.
  { destruct rej; [exact H1|]. now apply m_ack_inv. }
  match type of H with match m_snapshot ?s ?n with _ => _ end = _ => destruct (m_snapshot s n) as [[st3 snap]|] eqn:E3 end; [|discriminate].
  inversion H. subst. eapply Hsnap; eassumption.
Qed.

Lemma NoDup_keys_filter {A} (f : bytes * A -> bool) (d : list (bytes * A)) : NoDup (map fst d) -> NoDup (map fst (filter f d)).
Proof.
  induction d as [|[k0 v0] d IH]; cbn [filter map fst]; [auto|]. intros H. inversion H as [|? ? Hn Hd]. subst.
  destruct (f (k0, v0)); [|now apply IH]. cbn [map fst]. constructor; [|now apply IH].
  intros Hin. apply Hn. apply in_map_iff in Hin as [[k1 v1] [E Hin]]. apply filter_In in Hin as [Hin _].
  cbn [fst] in E. subst k1. now apply (in_map fst) in Hin.
Qed.

Lemma m_send_wf st st' c : m_send st = Some (st', c) -> unsaved_wf st -> unsaved_wf st'.
Proof.
  intros H Hwf. unfold m_send in H. destruct (m_unsaved st) as [|it items] eqn:EU; [inversion H; subst; exact Hwf|].
  rewrite <- EU in H. destruct (save_loop st (m_unsaved st) []) as [[sl args]|k|] eqn:EL; try discriminate.
  destruct (save_loop_whole st sl args Hwf EL) as [_ [Hkeys _]].
  destruct (existsb (fun kv : bytes * bytes => key_refused (fst kv)) args); [discriminate|].
  inversion H. subst. unfold unsaved_wf. rewrite Hkeys. exact Hwf.
Qed.

Lemma step_wf names st o st' ob :
  m_step names st o = Some (st', ob) -> unsaved_wf st -> unsaved_wf st'.
Proof.
  intros H Hwf. destruct o as [? ?|? ?|?|?| |?| |? ?|rj dz];
    try (match type of H with m_step _ _ ?o = _ => exact (step_wf_base names st o st' ob H Hwf) end).
  cbn [m_step m_step_gen] in H.
  refine (m_flight_inv unsaved_wf names _ _ _ _ st rj dz st' ob H Hwf).
  - intros s o s' ob'. apply step_wf_base.
  - intros s s' c. apply m_send_wf.
  - intros s f Hw. unfold unsaved_wf. cbn [with_unsaved m_unsaved]. now apply NoDup_keys_filter.
  - intros s s' rs Hs Hw. unfold unsaved_wf. now rewrite (snapshot_unsaved _ _ _ _ Hs).
Qed.

(* after bootstrap nothing is pending *)
Lemma setup_row_unsaved store st row st1 :
  setup_row store st row = Ok st1 -> m_unsaved st = [] -> m_unsaved st1 = [].
Proof.
  intros H HU. unfold setup_row in H. destruct row as [name value].
  destruct (beqb name (bs "HiddenServiceOptions")); [discriminate|].
  match type of H with bind ?r _ = _ => destruct r as [sx|k|] eqn:E1 end; cbn [bind] in H; try discriminate.
  unfold setup_ports in E1. unfold setup_own in H.
  assert (m_unsaved sx = []) as HX.
  { destruct (suffixb PortLines_sfx name); [|inversion E1; subst; assumption].
    destruct (lookup_type (bs "String")) as [sty|]; [|discriminate].
    inversion E1. unfold set_config. cbn [m_unsaved]. rewrite HU. reflexivity. }
  destruct (mem_bytes value skip_types); [inversion H; subst; assumption|].
  destruct (lookup_type (plus_to_underscore value)) as [[[pk vk] il]|]; [|discriminate].
  destruct il.
  - match type of H with bind ?r _ = _ => destruct r as [parsed|k|] end; cbn [bind] in H; try discriminate.
    destruct parsed as [a|l]; [discriminate|].
    match type of H with bind ?r _ = _ => destruct r as [l'|k|] end; cbn [bind] in H; try discriminate.
    inversion H. unfold set_config. cbn [m_unsaved]. rewrite HX. reflexivity.
  - match type of H with bind ?r _ = _ => destruct r as [parsed|k|] end; cbn [bind] in H; try discriminate.
    inversion H. unfold set_config. cbn [m_unsaved]. rewrite HX. reflexivity.
Qed.

Lemma bootstrap_unsaved i st : m_bootstrap i = Ok st -> m_unsaved st = [].
Proof.
  unfold m_bootstrap.
  set (st0 := {| m_parsers := []; m_listp := _; m_defaults := _; m_config := _; m_unsaved := [] |}).
  assert (forall rows s s1, setup_rows (i_store i) s rows = Ok s1 -> m_unsaved s = [] -> m_unsaved s1 = []) as Hrows.
  { induction rows as [|r rows IH]; intros s s1 H HU; cbn [setup_rows] in H.
    - inversion H. subst. assumption.
    - destruct (setup_row (i_store i) s r) as [sx|k|] eqn:E; cbn [bind] in H; try discriminate.
      eapply IH; [eassumption|]. eapply setup_row_unsaved; eassumption. }
  destruct (setup_rows (i_store i) st0 (i_table i)) as [s1|k|] eqn:E; cbn [bind]; try discriminate.
  intros H. inversion H. unfold set_config. cbn [m_unsaved].
  rewrite (Hrows _ _ _ E eq_refl). reflexivity.
Qed.

(* every state a history reaches has well-formed pending entries *)
Inductive reaches (names : list bytes) : mst -> list op -> mst -> Prop :=
| reach_nil st : reaches names st [] st
| reach_cons st o st1 ob ops st2 :
    m_step names st o = Some (st1, ob) -> reaches names st1 ops st2 -> reaches names st (o :: ops) st2.

Lemma reaches_wf names st ops st' : reaches names st ops st' -> unsaved_wf st -> unsaved_wf st'.
Proof. induction 1; intros Hwf; [assumption|]. apply IHreaches. eapply step_wf; eassumption. Qed.

(* ================================================================== witnesses of the open findings *)
Definition w_store : list (bytes * list bytes) :=
  [(bs "Log", [bs "notice stdout"]); (bs "ExitNodes", [bs "a,b"]); (bs "NumCPUs", [bs "2"])].
Definition w_table : list (bytes * bytes) :=
  [(bs "Log", bs "LineList"); (bs "ExitNodes", bs "RouterList"); (bs "NumCPUs", bs "Integer")].
Definition w_input (ops : list op) : cfg_input :=
  {| i_table := w_table; i_store := w_store; i_defaults := Some []; i_pre := None; i_ops := ops |}.

(* F1: pop the only element, save *)
Definition w_f1 := w_input [OpListOp (bs "Log") (LPop None); OpSave None; OpRead (bs "Log")].
(* former F2: remove a missing element, save *)
Definition w_f2 := w_input [OpListOp (bs "ExitNodes") (LRemove (AStr (bs "zz"))); OpNeedsSave; OpSave None].
(* F3: assign, then edit in place, save *)
Definition w_f3 := w_input [OpAssign (bs "ExitNodes") (PList [AStr (bs "x")]);
                            OpListOp (bs "exitnodes") (LAppend (AStr (bs "y"))); OpSave None; OpRead (bs "ExitNodes")].
(* F4: a list holding the integer 0 is saved (SETCONF Log=0 goes out, Tor holds the text "0"), but the view
   keeps the int: removing the line "0" that Tor holds raises ValueError *)
Definition w_f4 := w_input [OpAssign (bs "Log") (PList [AInt 0%Z]); OpSave None; OpListOp (bs "Log") (LRemove (AStr (bs "0")))].
(* ... and an empty string stays in the view although Tor does not hold it *)
Definition w_f4e := w_input [OpListOp (bs "Log") (LAppend (AStr [])); OpSave None].
(* a history outside the open classes that exercises every clause *)
Definition w_ok := w_input [OpAssign (bs "numcpus") (PAtom (AStr (bs "007")));
                            OpListOp (bs "Log") (LAppend (AStr (bs "info file /tmp/x")));
                            OpNeedsSave; OpSave (Some 552); OpNeedsSave; OpRead (bs "Log");
                            OpListOp (bs "LOG") (LInsert 0 (AStr (bs "q""uote")));
                            OpSave None; OpNeedsSave; OpRead (bs "NumCPUs"); OpRead (bs "Log"); OpSave None].

Definition refutes (i : cfg_input) : Prop :=
  c10_scope i = true /\
  exists snap tr, model_run i = Some (true, snap, tr) /\ oracle i tr = false.

Lemma f1_refuted : refutes w_f1 /\ emptied_list_saved w_f1 = true.
Proof. split; [split; [vm_compute; reflexivity|]|vm_compute; reflexivity].
       eexists _, _. split; vm_compute; reflexivity. Qed.
(* the former finding F2 (repaired in the source): the same witness is accepted, and the failed
   operation leaves nothing pending and the save writes nothing *)
Lemma f2_now_accepted :
  c10_scope w_f2 = true /\ c10_known w_f2 = false /\
  exists snap tr, model_run w_f2 = Some (true, snap, tr) /\ oracle w_f2 tr = true
    /\ nth_error (map o_res tr) 1 = Some (XBool false) /\ map o_wrote tr = [[]; []; []].
Proof. split; [vm_compute; reflexivity|]. split; [vm_compute; reflexivity|].
       eexists _, _. split; [vm_compute; reflexivity|]. split; [vm_compute; reflexivity|]. split; vm_compute; reflexivity. Qed.
Lemma f4_refuted : refutes w_f4 /\ odd_element_saved w_f4 = true /\ refutes w_f4e /\ odd_element_saved w_f4e = true.
Proof. split; [split; [vm_compute; reflexivity|eexists _, _; split; vm_compute; reflexivity]|].
       split; [vm_compute; reflexivity|]. split; [|vm_compute; reflexivity].
       split; [vm_compute; reflexivity|eexists _, _; split; vm_compute; reflexivity]. Qed.
(* falsy elements are sent like any other: the rejected save of [0; ""; "x"] writes all three entries *)
Definition w_falsy := w_input [OpAssign (bs "Log") (PList [AInt 0%Z; AStr []; AStr (bs "x")]); OpSave (Some 552); OpNeedsSave].
Lemma falsy_example :
  c10_scope w_falsy = true /\ c10_known w_falsy = false /\
  exists snap tr, model_run w_falsy = Some (true, snap, tr) /\ oracle w_falsy tr = true
    /\ concat (map o_wrote tr) = [bs "SETCONF Log=0 Log= Log=x"].
Proof. split; [vm_compute; reflexivity|]. split; [vm_compute; reflexivity|].
       eexists _, _. split; [vm_compute; reflexivity|]. split; vm_compute; reflexivity. Qed.

(* former F5 (repaired by df54f2d): NumCPUs = 4; save() sends it; NumCPUs = 8 while the SETCONF is unanswered;
   Tor acknowledges: the 8 is still pending and the next save sends it *)
Definition w_f5 := w_input [OpAssign (bs "NumCPUs") (PAtom (AInt 4%Z)); OpSaveDuring None [DAssign (bs "NumCPUs") (PAtom (AInt 8%Z))];
                            OpNeedsSave; OpSave None].
Lemma f5_now_accepted :
  c10_scope w_f5 = true /\ c10_known w_f5 = false /\
  exists snap tr, model_run w_f5 = Some (true, snap, tr) /\ oracle w_f5 tr = true
    /\ concat (map o_wrote tr) = [bs "SETCONF NumCPUs=4"; bs "SETCONF NumCPUs=8"]
    /\ nth_error (map o_res tr) 2 = Some (XBool true).
Proof. split; [vm_compute; reflexivity|]. split; [vm_compute; reflexivity|].
       eexists _, _. split; [vm_compute; reflexivity|]. repeat split; vm_compute; reflexivity. Qed.
(* ... and an in-place edit in that window is pending afterwards as well *)
Definition w_f5l := w_input [OpListOp (bs "Log") (LAppend (AStr (bs "a")));
                             OpSaveDuring None [DListOp (bs "Log") (LAppend (AStr (bs "b"))); DAssign (bs "NumCPUs") (PAtom (AInt 8%Z))];
                             OpNeedsSave; OpSave None].
Lemma f5l_now_accepted :
  c10_scope w_f5l = true /\ c10_known w_f5l = false /\
  exists snap tr, model_run w_f5l = Some (true, snap, tr) /\ oracle w_f5l tr = true
    /\ concat (map o_wrote tr) = [bs "SETCONF Log=""notice stdout"" Log=a"; bs "SETCONF Log=""notice stdout"" Log=a Log=b NumCPUs=8"].
Proof. split; [vm_compute; reflexivity|]. split; [vm_compute; reflexivity|].
       eexists _, _. split; [vm_compute; reflexivity|]. repeat split; vm_compute; reflexivity. Qed.
(* the same with a rejected answer, plus an in-place edit and a second save() before the answer: everything
   stays pending; the second SETCONF (written once the first is answered) and the next save carry it all *)
Definition w_flight_rej := w_input [OpAssign (bs "NumCPUs") (PAtom (AInt 4%Z));
                                    OpSaveDuring (Some 552) [DAssign (bs "NumCPUs") (PAtom (AInt 8%Z));
                                                             DListOp (bs "Log") (LAppend (AStr (bs "x"))); DSave; DNeedsSave];
                                    OpNeedsSave; OpSave None; OpNeedsSave].
Lemma flight_rej_example :
  c10_scope w_flight_rej = true /\ c10_known w_flight_rej = false /\
  exists snap tr, model_run w_flight_rej = Some (true, snap, tr) /\ oracle w_flight_rej tr = true
    /\ concat (map o_wrote tr) = [bs "SETCONF NumCPUs=4"; bs "SETCONF NumCPUs=8 Log=""notice stdout"" Log=x";
                                  bs "SETCONF NumCPUs=8 Log=""notice stdout"" Log=x"].
Proof. split; [vm_compute; reflexivity|]. split; [vm_compute; reflexivity|].
       eexists _, _. split; [vm_compute; reflexivity|]. split; vm_compute; reflexivity. Qed.
(* an acknowledged save with only reads / needs_save() / a second save() in between *)
Definition w_flight_ack := w_input [OpAssign (bs "NumCPUs") (PAtom (AInt 4%Z));
                                    OpSaveDuring None [DNeedsSave; DRead (bs "numcpus"); DSave]; OpNeedsSave; OpSave None].
Lemma flight_ack_example :
  c10_scope w_flight_ack = true /\ c10_known w_flight_ack = false /\
  exists snap tr, model_run w_flight_ack = Some (true, snap, tr) /\ oracle w_flight_ack tr = true
    /\ concat (map o_wrote tr) = [bs "SETCONF NumCPUs=4"; bs "SETCONF NumCPUs=4"]
    /\ nth_error (map o_res tr) 2 = Some (XBool false).
Proof. split; [vm_compute; reflexivity|]. split; [vm_compute; reflexivity|].
       eexists _, _. split; [vm_compute; reflexivity|]. repeat split; vm_compute; reflexivity. Qed.

Lemma f3_refuted : refutes w_f3 /\ edit_while_detached w_f3 = true.
Proof. split; [split; [vm_compute; reflexivity|]|vm_compute; reflexivity].
       eexists _, _. split; vm_compute; reflexivity. Qed.

Lemma ok_example :
  c10_scope w_ok = true /\ c10_known w_ok = false /\
  exists snap tr, model_run w_ok = Some (true, snap, tr) /\ oracle w_ok tr = true
    /\ map o_wrote tr = [[]; []; []; [bs "SETCONF NumCPUs=7 Log=""notice stdout"" Log=""info file /tmp/x"""]; []; []; [];
                         [bs "SETCONF NumCPUs=7 Log=""q\""uote"" Log=""notice stdout"" Log=""info file /tmp/x"""]; []; []; []; []].
Proof. split; [vm_compute; reflexivity|]. split; [vm_compute; reflexivity|].
       eexists _, _. split; [vm_compute; reflexivity|]. split; vm_compute; reflexivity. Qed.

(* config.A = config.B: A takes the list read from B; afterwards the two are independent options --
   an in-place edit of A names A only, B reads as before; assigning an option its own view re-sends it *)
Definition w_copy := w_input [OpCopy (bs "Log") (bs "exitnodes"); OpSave None;
                              OpListOp (bs "Log") (LAppend (AStr (bs "x"))); OpNeedsSave; OpSave None;
                              OpRead (bs "ExitNodes"); OpListOp (bs "ExitNodes") (LPop None); OpSave None;
                              OpRead (bs "Log"); OpCopy (bs "ExitNodes") (bs "ExitNodes"); OpSave None].
Lemma copy_example :
  c10_scope w_copy = true /\ c10_known w_copy = false /\
  exists snap tr, model_run w_copy = Some (true, snap, tr) /\ oracle w_copy tr = true
    /\ concat (map o_wrote tr) = [bs "SETCONF Log=a Log=b"; bs "SETCONF Log=a Log=b Log=x"; bs "SETCONF ExitNodes=a";
                                  bs "SETCONF ExitNodes=a"]
    /\ nth_error (map o_res tr) 5 = Some (XVal (RList true [bs "a"; bs "b"]))
    /\ nth_error (map o_res tr) 8 = Some (XVal (RList true [bs "a"; bs "b"; bs "x"])).
Proof. split; [vm_compute; reflexivity|]. split; [vm_compute; reflexivity|].
       eexists _, _. split; [vm_compute; reflexivity|]. repeat split; vm_compute; reflexivity. Qed.

(* ================================================================== what the loop of save() leaves in config / unsaved *)
(* config[key] after `self.config[real_name] = value` *)
Definition saved_value (st : mst) (key : bytes) (value : cval) : option cval :=
  match value with
  | CList w l => Some (CList w l)
  | CAtom a =>
      match dget key (m_parsers st) with
      | Some (pk, _, _) => match parse pk (PAtom a) with Ok pv => Some (cval_of_pyval true pv) | _ => None end
      | None => Some (CAtom a)
      end
  end.

Definition pending_after (value : cval) : uval :=
  match value with CList _ _ => UAlias | CAtom a => UVal (CAtom a) end.

Section LoopEffect.
  Variable st0 : mst.

  Lemma save_loop_effect : forall items st acc st' args,
    save_loop st items acc = Ok (st', args) ->
    NoDup (map fst items) ->
    m_parsers st = m_parsers st0 ->
    (forall it, In it items -> resolve st (fst it) (snd it) = resolve st0 (fst it) (snd it)) ->
    (forall it, In it items -> exists u, dget (fst it) (m_unsaved st) = Some u /\ resolve st (fst it) u = resolve st (fst it) (snd it)) ->
    (forall k u, In (k, u) items ->
       exists value nv, resolve st0 k u = Some value /\ saved_value st0 k value = Some nv /\
                        dget k (m_config st') = Some nv /\ dget k (m_unsaved st') = Some (pending_after value)) /\
    (forall k, ~ In k (map fst items) ->
       dget k (m_config st') = dget k (m_config st) /\ dget k (m_unsaved st') = dget k (m_unsaved st)) /\
    m_parsers st' = m_parsers st0 /\ m_defaults st' = m_defaults st /\ m_listp st' = m_listp st.
  Proof.
    induction items as [|[key uv] rest IH]; intros st acc st' args H Hnd HP Hq Hu.
    - cbn in H. inversion H. subst. repeat split; auto. intros k u [].
    - cbn [save_loop] in H.
      destruct (beqb key (bs "HiddenServices")); [discriminate|].
      pose proof (Hq (key, uv) (or_introl eq_refl)) as Hres. cbn [fst snd] in Hres.
      assert (match uv with UAlias => dget key (m_config st) | UVal v => Some v end = resolve st key uv) as Hm by reflexivity.
      rewrite Hm, Hres in H.
      destruct (resolve st0 key uv) as [value|] eqn:Hv; [|discriminate].
      destruct (negb (beqb (find_real_name st key) key)) eqn:Hrn; [discriminate|].
      apply negb_false_iff, beqb_eq in Hrn.
      inversion Hnd as [|? ? Hnotin Hnd']. subst.
      assert (forall it, In it rest -> fst it <> key) as Hother.
      { intros it Hi E. apply Hnotin. rewrite <- E. now apply in_map. }
      (* what one iteration does, for both kinds of value: st1 with config[key] = nv *)
      assert (forall st1 nv acc1,
                saved_value st0 key value = Some nv ->
                m_config st1 = dset key nv (m_config st) ->
                m_parsers st1 = m_parsers st -> m_defaults st1 = m_defaults st -> m_listp st1 = m_listp st ->
                dget key (m_unsaved st1) = Some (pending_after value) ->
                (forall k, k <> key -> dget k (m_unsaved st1) = dget k (m_unsaved st)) ->
                save_loop st1 rest acc1 = Ok (st', args) ->
                (forall k u, In (k, u) ((key, uv) :: rest) ->
                   exists value0 nv0, resolve st0 k u = Some value0 /\ saved_value st0 k value0 = Some nv0 /\
                                      dget k (m_config st') = Some nv0 /\ dget k (m_unsaved st') = Some (pending_after value0)) /\
                (forall k, ~ In k (map fst ((key, uv) :: rest)) ->
                   dget k (m_config st') = dget k (m_config st) /\ dget k (m_unsaved st') = dget k (m_unsaved st)) /\
                m_parsers st' = m_parsers st0 /\ m_defaults st' = m_defaults st /\ m_listp st' = m_listp st) as Hgo.
      { intros st1 nv acc1 Hsv Hcfg HP1 HD1 HL1 Hukey Huother Hl.
        assert (forall it, In it rest -> resolve st1 (fst it) (snd it) = resolve st0 (fst it) (snd it)) as Hq1.
        { intros it Hi. rewrite <- (Hq it (or_intror Hi)). destruct it as [k u]. cbn [fst snd].
          destruct u; cbn [resolve]; [|reflexivity]. rewrite Hcfg. apply dget_dset_other.
          intros E. apply (Hother (k, UAlias) Hi). now symmetry. }
        assert (forall it, In it rest -> exists u, dget (fst it) (m_unsaved st1) = Some u /\ resolve st1 (fst it) u = resolve st1 (fst it) (snd it)) as Hu1.
        { intros it Hi. destruct (Hu it (or_intror Hi)) as [u [Hu1 Hu2]]. exists u.
          rewrite (Huother (fst it) (Hother it Hi)). split; [assumption|].
          rewrite (Hq1 it Hi), <- (Hq it (or_intror Hi)), <- Hu2.
          destruct u; cbn [resolve]; [|reflexivity]. rewrite Hcfg. apply dget_dset_other.
          intros E. apply (Hother it Hi). now symmetry. }
        destruct (IH st1 acc1 st' args Hl Hnd' (eq_trans HP1 HP) Hq1 Hu1) as [A [B [C [D E0]]]].
        split; [|split; [|split; [assumption|split; congruence]]].
        - intros k u [Hku|Hku].
          + inversion Hku. subst k u. exists value, nv. split; [assumption|]. split; [assumption|].
            destruct (B key Hnotin) as [B1 B2]. rewrite B1, B2, Hcfg, dget_dset_same. auto.
          + apply A. assumption.
        - intros k Hk. cbn [map fst] in Hk.
          assert (k <> key) as Hne by (intros E; apply Hk; left; now symmetry).
          assert (~ In k (map fst rest)) as Hnr by (intros E; apply Hk; now right).
          destruct (B k Hnr) as [B1 B2]. rewrite B1, B2, Hcfg. split; [apply dget_dset_other; congruence|now apply Huother]. }
      destruct (Hu (key, uv) (or_introl eq_refl)) as [u0 [Hu0 Hru0]]. cbn [fst snd] in Hu0, Hru0.
      rewrite Hres in Hru0.
      destruct value as [a|w l].
      + rewrite Hrn in H.
        assert (forall newv, dget key (m_unsaved (set_config st key newv)) = Some (UVal (CAtom a))) as Hsame.
        { intros newv. destruct (set_config_unsaved_same st key newv u0 (CAtom a) Hu0 Hru0) as [u3 [H3 E3]]. now subst u3. }
        destruct (dget key (m_parsers st)) as [[[pk vk] il]|] eqn:EP.
        * destruct (parse pk (PAtom a)) as [pv|e|] eqn:EPa; cbn [bind] in H; try discriminate.
          refine (Hgo (set_config st key (cval_of_pyval true pv)) (cval_of_pyval true pv) _ _ eq_refl eq_refl eq_refl eq_refl (Hsame _) _ H).
          -- cbn [saved_value]. rewrite <- HP, EP, EPa. reflexivity.
          -- intros k Hne. apply set_config_unsaved_other. congruence.
        * refine (Hgo (set_config st key (CAtom a)) (CAtom a) _ _ eq_refl eq_refl eq_refl eq_refl (Hsame _) _ H).
          -- cbn [saved_value]. rewrite <- HP, EP. reflexivity.
          -- intros k Hne. apply set_config_unsaved_other. congruence.
      + destruct (existsb (fun x => match x with AStr s => beqb s DEFAULT_VALUE | _ => false end) l); [discriminate|].
        match type of H with save_loop ?s _ _ = _ => refine (Hgo s (CList w l) _ eq_refl eq_refl eq_refl eq_refl eq_refl _ _ H) end.
        * cbn [m_unsaved]. apply dget_dset_same.
        * intros k Hne. cbn [m_unsaved]. apply dget_dset_other. congruence.
  Qed.
End LoopEffect.

Lemma save_loop_effect_whole st st' args :
  unsaved_wf st -> save_loop st (m_unsaved st) [] = Ok (st', args) ->
  (forall k u, In (k, u) (m_unsaved st) ->
     exists value nv, resolve st k u = Some value /\ saved_value st k value = Some nv /\
                      dget k (m_config st') = Some nv /\ dget k (m_unsaved st') = Some (pending_after value)) /\
  (forall k, ~ In k (map fst (m_unsaved st)) -> dget k (m_config st') = dget k (m_config st)) /\
  m_parsers st' = m_parsers st /\ m_defaults st' = m_defaults st /\ m_listp st' = m_listp st.
Proof.
  intros Hnd H.
  destruct (save_loop_effect st (m_unsaved st) st [] st' args H Hnd eq_refl (fun it Hi => eq_refl)) as [A [B [C [D E]]]].
  - intros [k u] Hi. exists u. split; [|reflexivity]. cbn [fst]. now apply dget_first.
  - split; [exact A|]. split; [|auto]. intros k Hk. exact (proj1 (B k Hk)).
Qed.
