(* C08: the whole oracle on every legal history (close requests included) *)
From Coq Require Import List Bool Arith NArith Lia.
From TxVerif Require Import Lib.Bytes Lib.NList Spec.C07 Spec.C08 Model.State Model.StateNotify
  Proofs.NListProofs Proofs.C07Proofs Proofs.StateShape Proofs.C08Proofs Proofs.C08Refine Proofs.C08Waits Proofs.C08Tables.
Import ListNotations.
Open Scope N_scope.

(* ---------------------------------------------------------------- where a wait id can be held *)
Definition cmd_pair (c : cmdrec) : N * bool := match c with CmdC _ w ok | CmdS _ w ok => (w, ok) | CmdB w => (w, true) end.
Definition cmd_w (c : cmdrec) : N := fst (cmd_pair c).
Definition citems (xs : xstate) (o : N) : list N := items_holders (tget [] (cclosing xs) o).
Definition sitems (xs : xstate) (o : N) : list N := items_holders (tget [] (sclosing xs) o).
Definition cpres (xs : xstate) (o : N) : bool := match tfind (cclosing xs) o with Some _ => true | None => false end.

Inductive slot := SlB (o : N) | SlC (o : N) | SlCC (o : N) | SlSC (o : N) | SlCmd.
Definition slot_ids (xs : xstate) (sl : slot) : list N :=
  match sl with
  | SlB o => pend (wbs xs) o
  | SlC o => pend (wcs xs) o
  | SlCC o => citems xs o
  | SlSC o => sitems xs o
  | SlCmd => concat (map cmd_holders (cmds xs))
  end.

Lemma slot_eq_dec (a b : slot) : {a = b} + {a <> b}.
Proof. decide equality; apply N.eq_dec. Qed.

Lemma slot_pair xs (w : N) a b : a <> b -> (countN w (slot_ids xs a) + countN w (slot_ids xs b) <= hcount w xs)%nat.
Proof.
  intros Hne. unfold hcount.
  pose proof (fun o => count_tget_le os_holders P0 w (wbs xs) o eq_refl) as B1.
  pose proof (fun o => count_tget_le os_holders P0 w (wcs xs) o eq_refl) as C1.
  pose proof (fun o => count_tget_le items_holders [] w (cclosing xs) o eq_refl) as D1.
  pose proof (fun o => count_tget_le items_holders [] w (sclosing xs) o eq_refl) as E1.
  pose proof (fun o o' => count_tget_two os_holders P0 w (wbs xs) o o' eq_refl) as B2.
  pose proof (fun o o' => count_tget_two os_holders P0 w (wcs xs) o o' eq_refl) as C2.
  pose proof (fun o o' => count_tget_two items_holders [] w (cclosing xs) o o' eq_refl) as D2.
  pose proof (fun o o' => count_tget_two items_holders [] w (sclosing xs) o o' eq_refl) as E2.
  destruct a as [o|o|o|o|]; destruct b as [o'|o'|o'|o'|]; cbn [slot_ids]; unfold pend, citems, sitems;
    try (assert (Ho : o <> o') by congruence);
    try specialize (B1 o); try specialize (C1 o); try specialize (D1 o); try specialize (E1 o);
    try (pose proof (fun o => count_tget_le os_holders P0 w (wbs xs) o eq_refl) as B1');
    try (pose proof (fun o => count_tget_le os_holders P0 w (wcs xs) o eq_refl) as C1');
    try (pose proof (fun o => count_tget_le items_holders [] w (cclosing xs) o eq_refl) as D1');
    try (pose proof (fun o => count_tget_le items_holders [] w (sclosing xs) o eq_refl) as E1');
    try specialize (B1' o'); try specialize (C1' o'); try specialize (D1' o'); try specialize (E1' o');
    try specialize (B2 o o' Ho); try specialize (C2 o o' Ho); try specialize (D2 o o' Ho); try specialize (E2 o o' Ho);
    try lia.
  congruence.
Qed.

Lemma slot_one xs (w : N) a : (countN w (slot_ids xs a) <= hcount w xs)%nat.
Proof.
  destruct a as [o|o|o|o|].
  - pose proof (slot_pair xs w (SlB o) SlCmd ltac:(discriminate)). lia.
  - pose proof (slot_pair xs w (SlC o) SlCmd ltac:(discriminate)). lia.
  - pose proof (slot_pair xs w (SlCC o) SlCmd ltac:(discriminate)). lia.
  - pose proof (slot_pair xs w (SlSC o) SlCmd ltac:(discriminate)). lia.
  - pose proof (slot_pair xs w SlCmd (SlB 0) ltac:(discriminate)). lia.
Qed.

Section Slots.
  Variable xs : xstate.
  Hypothesis Hcnt : forall w, (countN w (holders xs) <= 1)%nat.

  Lemma slot_unique w a b : In w (slot_ids xs a) -> In w (slot_ids xs b) -> a = b.
  Proof.
    intros A B. destruct (slot_eq_dec a b) as [E|E]; [exact E|exfalso].
    pose proof (countN_In_pos _ _ A). pose proof (countN_In_pos _ _ B).
    pose proof (slot_pair xs w a b E). pose proof (Hcnt w). rewrite holders_count in *. lia.
  Qed.
  Lemma slot_nodup a : NoDup (slot_ids xs a).
  Proof.
    apply NoDup_of_count. intros w H. pose proof (countN_In_pos _ _ H).
    pose proof (slot_one xs w a). pose proof (Hcnt w). rewrite holders_count in *. lia.
  Qed.
  Lemma slot_held w a : In w (slot_ids xs a) -> In w (holders xs).
  Proof.
    intros H. apply countN_pos_In. rewrite holders_count. pose proof (countN_In_pos _ _ H). pose proof (slot_one xs w a). lia.
  Qed.
End Slots.

(* ---------------------------------------------------------------- what the events do to the waits, in general *)
Lemma run_items_ids v items : map fst (dones (run_items v items)) = items_holders items.
Proof.
  revert v. unfold items_holders. induction items as [|i t IH]; intros v; [reflexivity|].
  destruct i; cbn [run_items map concat item_holders app]; unfold dones in *; cbn [map concat app fst]; now rewrite ?IH.
Qed.
Lemma run_items_res v items w r : In (w, r) (dones (run_items v items)) -> r = v \/ r = WOkNone.
Proof.
  revert v. induction items as [|i t IH]; intros v; [intros []|].
  destruct i; cbn [run_items]; unfold dones in *; cbn [map concat app In].
  - intros [[= _ <-]|H]; [now left | now apply IH].
  - intros [[= _ <-]|H]; [now left|]. right. destruct (IH _ H); auto.
  - intros H. right. destruct (IH _ H); auto.
Qed.

Definition cl_out (s : xstate) (o : N) : list nev :=
  match tfind (cclosing s) o with Some items => run_items (WOkC o) items | None => [] end.
Definition sl_out (s : xstate) (o : N) : list nev :=
  match tfind (sclosing s) o with Some items => run_items (WOkS o) items | None => [] end.

Lemma cl_out_ids s o : map fst (dones (cl_out s o)) = citems s o.
Proof. unfold cl_out, citems. rewrite (tfind_tget []). destruct (tfind (cclosing s) o); [apply run_items_ids | reflexivity]. Qed.
Lemma sl_out_ids s o : map fst (dones (sl_out s o)) = sitems s o.
Proof. unfold sl_out, sitems. rewrite (tfind_tget []). destruct (tfind (sclosing s) o); [apply run_items_ids | reflexivity]. Qed.
Lemma cl_out_res s o w r : In (w, r) (dones (cl_out s o)) -> res_ok WantOk r = true.
Proof. unfold cl_out. destruct (tfind (cclosing s) o); [|intros []]. intros H. destruct (run_items_res _ _ _ _ H) as [->| ->]; reflexivity. Qed.
Lemma sl_out_res s o w r : In (w, r) (dones (sl_out s o)) -> res_ok WantOk r = true.
Proof. unfold sl_out. destruct (tfind (sclosing s) o); [|intros []]. intros H. destruct (run_items_res _ _ _ _ H) as [->| ->]; reflexivity. Qed.

Lemma x_circ_waits_g s id st path kw s' es :
  x_circ s id st path kw = Some (s', es) ->
  let o := xc_obj s id in
  match st with
  | CBuilt =>
      wcs s' = wcs s /\
      (forall o', tget P0 (wbs s') o' = if o =? o' then match tget P0 (wbs s) o with OSPending _ => OSFired (WOkC o) | f => f end
                                        else tget P0 (wbs s) o') /\
      dones es = match tget P0 (wbs s) o with OSPending ws => map (fun w => (w, WOkC o)) ws | OSFired _ => [] end
  | CClosed | CFailed =>
      exists cls r1 r2,
      (forall o', tget P0 (wcs s') o' = if o =? o' then match tget P0 (wcs s) o with OSPending _ => OSFired (WOkC o) | f => f end
                                        else tget P0 (wcs s) o') /\
      (forall o', tget P0 (wbs s') o' = if o =? o' then match tget P0 (wbs s) o with OSPending _ => OSFired (WFail cls r1 r2) | f => f end
                                        else tget P0 (wbs s) o') /\
      dones es = dones (cl_out s o)
                 ++ (match tget P0 (wcs s) o with OSPending ws => map (fun w => (w, WOkC o)) ws | OSFired _ => [] end)
                 ++ (match tget P0 (wbs s) o with OSPending ws => map (fun w => (w, WFail cls r1 r2)) ws | OSFired _ => [] end)
  | _ => wbs s' = wbs s /\ wcs s' = wcs s /\ dones es = []
  end.
Proof.
  unfold x_circ, xc_obj, cl_out.
  destruct (step (base s) (ECirc id st path kw)) as [post|]; [|discriminate].
  set (o := match kfind fst id (circuits (base s)) with Some p => snd p | None => N.of_nat (length (cheap (base s))) end).
  assert (E : exists first oldpath, match kfind fst id (circuits (base s)) with
              | Some p => (false, snd p, match get_c (snd p) (base s) with Some c => c_path c | None => [] end)
              | None => (true, N.of_nat (length (cheap (base s))), [])
              end = (first, o, oldpath)).
  { unfold o. destruct (kfind fst id (circuits (base s))); eexists; eexists; reflexivity. }
  destruct E as [first [oldpath E]]. rewrite E. clear E.
  destruct st; cbv iota beta.
  - intros [= <- <-]. cbn [wbs wcs]. repeat split; auto. now dq.
  - destruct (fire (wbs s) o (WOkC o)) as [wbs1 fired] eqn:F. intros [= <- <-]. cbn [wbs wcs].
    destruct (fire_spec _ _ _ _ _ F) as [F1 F2]. repeat split; auto. dq. exact F2.
  - intros [= <- <-]. cbn [wbs wcs]. repeat split; auto. now dq.
  - intros [= <- <-]. cbn [wbs wcs]. repeat split; auto. now dq.
  - destruct (fire (wcs s) o (WOkC o)) as [wcs1 o_wc] eqn:F1. destruct (reason_of kw) as [r1 r2].
    destruct (fire (wbs s) o (WFail 2 r1 r2)) as [wbs1 o_wb] eqn:F2. intros [= <- <-]. cbn [wbs wcs].
    destruct (fire_spec _ _ _ _ _ F1) as [A1 A2]. destruct (fire_spec _ _ _ _ _ F2) as [B1 B2].
    exists 2, r1, r2. split; [exact A1|]. split; [exact B1|]. dq. now rewrite A2, B2.
  - destruct (fire (wcs s) o (WOkC o)) as [wcs1 o_wc] eqn:F1. destruct (reason_of kw) as [r1 r2].
    destruct (fire (wbs s) o (WFail 1 r1 r2)) as [wbs1 o_wb] eqn:F2. intros [= <- <-]. cbn [wbs wcs].
    destruct (fire_spec _ _ _ _ _ F1) as [A1 A2]. destruct (fire_spec _ _ _ _ _ F2) as [B1 B2].
    exists 1, r1, r2. split; [exact A1|]. split; [exact B1|]. dq. now rewrite A2, B2.
Qed.

Lemma x_stream_waits_g s id st cid host port kw s' es :
  x_stream s id st cid host port kw = Some (s', es) ->
  wbs s' = wbs s /\ wcs s' = wcs s /\ dones es = if s_terminal st then dones (sl_out s (xs_obj s id)) else [].
Proof.
  unfold x_stream, xs_obj, sl_out.
  destruct (step (base s) (EStream id st cid host port kw)) as [post|]; [|discriminate].
  set (o := match kfind fst id (streams (base s)) with Some p => snd p | None => N.of_nat (length (sheap (base s))) end).
  assert (E : exists first pc, match kfind fst id (streams (base s)) with
              | Some p => (false, snd p, match get_s (snd p) (base s) with Some x => s_circ x | None => None end)
              | None => (true, N.of_nat (length (sheap (base s))), None)
              end = (first, o, pc)).
  { unfold o. destruct (kfind fst id (streams (base s))); eexists; eexists; reflexivity. }
  destruct E as [first [pc E]]. rewrite E. clear E.
  intros [= <- <-]. cbn [wbs wcs]. repeat split.
  rewrite dones_app.
  assert (A : dones (match st with
                     | SClosed | SFailed | SDetached => []
                     | _ => if cid =? 0 then [] else
                            match pc with
                            | Some _ => []
                            | None => match kfind fst cid (circuits (base s)) with
                                      | Some p => match get_c (snd p) (base s) with
                                                  | Some c => if memN o (c_streams c) then []
                                                              else tell_s (if first then dedupe (gsl s) else tget [] (sls s) o) MS_ATTACH o (snd p + 1) []
                                                  | None => []
                                                  end
                                      | None => []
                                      end
                            end
                     end) = []).
  { destruct st; try reflexivity; destruct (cid =? 0); try reflexivity; destruct pc; try reflexivity;
      destruct (kfind fst cid (circuits (base s))) as [p|]; try reflexivity; destruct (get_c (snd p) (base s)) as [c|]; try reflexivity;
      destruct (memN o (c_streams c)); try reflexivity; apply dones_tell_s. }
  rewrite A, app_nil_r. destruct st; cbn [s_terminal]; dq; reflexivity.
Qed.

(* ---------------------------------------------------------------- the refinement with all waits *)
Definition mkw (w : N) (k : wkind) (c : bool) (o : N) (g p : bool) : wait :=
  {| w_id := w; w_kind := k; w_circ := c; w_obj := o; w_gone_seen := g; w_pending_cmd := p |}.
Definition has_cmds (xs : xstate) (w : N) : bool :=
  existsb (fun c => match c with CmdS _ w' _ => w' =? w | _ => false end) (cmds xs).

(* the open waits of the specification are exactly these records *)
Inductive rec_of (xs : xstate) : wait -> Prop :=
  | RB w o : In w (pend (wbs xs) o) -> rec_of xs (mkw w KBuilt true o false false)
  | RC w o : In w (pend (wcs xs) o) -> rec_of xs (mkw w KClosed true o false false)
  | RA w o ok : In (CmdC o w ok) (cmds xs) -> rec_of xs (mkw w KClose true o (negb (cpres xs o)) true)
  | RD w o : In w (citems xs o) -> rec_of xs (mkw w KClose true o false false)
  | RS w o : In w (sitems xs o) -> rec_of xs (mkw w KClose false o false (has_cmds xs w)).

Definition term_c (c : ccell) : Prop := c_state c = Some CClosed \/ c_state c = Some CFailed.
Definition term_s (x : scell) : Prop := s_state x = Some SClosed \/ s_state x = Some SFailed.

Definition sinfo_ok (ss : sstate) (o : N) (x : scell) : Prop :=
  oi_id (tget (info0 0) (l_sinfo (s_l ss)) o) = s_id x /\
  (alive (l_sdict (s_l ss)) o = false <-> term_s x).

(* the control connection's queue is either all EXTENDCIRCUITs or all close commands (see Spec.C08.lstate) *)
Definition is_b (c : cmdrec) : bool := match c with CmdB _ => true | _ => false end.
Definition qinv (ls : lstate) (l : list cmdrec) : Prop :=
  N.of_nat (length (filter is_b l)) = l_nb ls /\
  N.of_nat (length (filter (fun c => negb (is_b c)) l)) <= l_ncl ls /\
  (0 < l_nb ls -> l_ncl ls = 0).

Lemma qinv_head_b ls l : qinv ls l -> 0 < l_nb ls -> exists w q, l = CmdB w :: q.
Proof.
  intros [A [B C]] H. specialize (C H). rewrite C in B. destruct l as [|c q]; [cbn in A; lia|].
  destruct c as [o w ok|o w ok|w]; [cbn in B; lia | cbn in B; lia | eauto].
Qed.
Lemma qinv_no_b ls l : qinv ls l -> l_nb ls = 0 -> forall c, In c l -> is_b c = false.
Proof.
  intros [A _] H c Hc. rewrite H in A. destruct (is_b c) eqn:E; [|reflexivity]. exfalso.
  assert (Hf : In c (filter is_b l)) by (apply filter_In; auto). destruct (filter is_b l); [destruct Hf | cbn in A; lia].
Qed.
Lemma qinv_pop_close ls c q : qinv ls (c :: q) -> is_b c = false -> qinv (with_q ls (l_nb ls) (l_ncl ls - 1)) q.
Proof.
  intros [A [B C]] H. unfold qinv. cbn [with_q l_nb l_ncl filter] in *. rewrite H in A, B. cbn [negb length] in B.
  split; [exact A|]. split; [lia|]. intros Hn. specialize (C Hn). lia.
Qed.
Lemma qinv_pop_build ls w q : qinv ls (CmdB w :: q) -> qinv (with_q ls (l_nb ls - 1) (l_ncl ls)) q.
Proof.
  intros [A [B C]]. unfold qinv. cbn [with_q l_nb l_ncl filter is_b negb length] in *.
  split; [lia|]. split; [exact B|]. intros Hn. apply C. lia.
Qed.
Lemma qinv_empty ls nb ncl : l_nb ls = 0 -> nb = 0 -> qinv (with_q ls nb ncl) [].
Proof. intros H ->. unfold qinv. cbn. split; [reflexivity|]. split; lia. Qed.
Lemma qinv_push_close ls l c w : qinv ls l -> is_b c = false -> l_nb ls = 0 -> qinv (use_q ls w (l_nb ls) (l_ncl ls + 1)) (l ++ [c]).
Proof.
  intros [A [B C]] H Hn. unfold qinv. cbn [use_q l_nb l_ncl]. rewrite !filter_app, !app_length. cbn [filter]. rewrite H. cbn [negb length].
  split; [lia|]. split; lia.
Qed.
Lemma qinv_more_close ls l w : qinv ls l -> l_nb ls = 0 -> qinv (use_q ls w (l_nb ls) (l_ncl ls + 1)) l.
Proof. intros [A [B C]] Hn. unfold qinv. cbn [use_q l_nb l_ncl]. split; [exact A|]. split; lia. Qed.
Lemma qinv_push_build ls l w' w : qinv ls l -> l_ncl ls = 0 -> qinv (use_q ls w' (l_nb ls + 1) (l_ncl ls)) (l ++ [CmdB w]).
Proof.
  intros [A [B C]] Hn. unfold qinv. cbn [use_q l_nb l_ncl]. rewrite !filter_app, !app_length. cbn [filter is_b negb length].
  split; [lia|]. split; [lia|]. intros _. exact Hn.
Qed.

Lemma qinv_same ls ls' l : l_nb ls' = l_nb ls -> l_ncl ls' = l_ncl ls -> qinv ls l -> qinv ls' l.
Proof. intros A B. unfold qinv. now rewrite A, B. Qed.

Record RelF (ss : sstate) (xs : xstate) : Prop := {
  f_q : qinv (s_l ss) (cmds xs);
  f_rel : Rel (s_l ss) xs;
  f_cmdq : s_cmdq ss = map cmd_pair (cmds xs);
  f_cmd_nd : NoDup (map cmd_w (cmds xs));
  f_cmd_used : forall c, In c (cmds xs) -> In (cmd_w c) (l_used (s_l ss));
  f_cmd_gone : forall o w ok, In (CmdC o w ok) (cmds xs) -> cpres xs o = true \/ alive (l_cdict (s_l ss)) o = false;
  f_cmd_ex : forall o w ok, In (CmdC o w ok) (cmds xs) -> o < l_nc (s_l ss);
  f_info : forall o c, get_c o (base xs) = Some c ->
           info_ok ss xs o c /\ oi_id (tget (info0 0) (l_cinfo (s_l ss)) o) = c_id c;
  f_sinfo : forall o x, get_s o (base xs) = Some x -> sinfo_ok ss o x;
  f_fresh : forall o, l_nc (s_l ss) <= o ->
            tget P0 (wbs xs) o = P0 /\ tget P0 (wcs xs) o = P0 /\ tget (info0 0) (l_cinfo (s_l ss)) o = info0 0;
  f_open : forall wr, In wr (s_open ss) <-> rec_of xs wr;
  f_open_nd : NoDup (map w_id (s_open ss));
  f_hold_cnt : forall w, (countN w (holders xs) <= 1)%nat;
  f_hold_used : forall w, In w (holders xs) -> In w (l_used (s_l ss))
}.

Lemma RelF_init rts : RelF ss0 (xinit rts).
Proof.
  constructor; try reflexivity.
  - split; [reflexivity | split; [cbn; lia | reflexivity]].
  - apply Rel_init.
  - constructor.
  - intros c [].
  - intros o w ok [].
  - intros o w ok [].
  - intros o c H. discriminate H.
  - intros o x H. discriminate H.
  - intros o _. repeat split.
  - intros wr. split; [intros [] |]. intros H. destruct H as [w o H|w o H|w o ok H|w o H|w o H]; cbn in H; tauto.
  - constructor.
  - intros w. cbn. lia.
  - intros w [].
Qed.

Lemma in_cmd_slot xs o w ok : In (CmdC o w ok) (cmds xs) -> In w (slot_ids xs SlCmd).
Proof.
  cbn [slot_ids]. intros H. apply in_concat. exists [w]. split; [|now left].
  apply in_map_iff. exists (CmdC o w ok). split; [reflexivity | exact H].
Qed.

Definition rec_slot (xs : xstate) (wr : wait) (sl : slot) : Prop := In (w_id wr) (slot_ids xs sl).

Lemma rec_has_slot xs wr : rec_of xs wr -> exists sl, In (w_id wr) (slot_ids xs sl).
Proof.
  intros H. destruct H as [w o H|w o H|w o ok H|w o H|w o H]; cbn [mkw w_id].
  - now exists (SlB o).
  - now exists (SlC o).
  - exists SlCmd. eapply in_cmd_slot; eauto.
  - now exists (SlCC o).
  - now exists (SlSC o).
Qed.

Lemma rec_ids_used ss xs wr : RelF ss xs -> In wr (s_open ss) -> In (w_id wr) (l_used (s_l ss)).
Proof.
  intros Q H. apply (f_open _ _ Q) in H. destruct (rec_has_slot xs wr H) as [sl Hs].
  apply (f_hold_used _ _ Q). eapply slot_held; eauto.
Qed.

Lemma rec_of_ext xs xs' wr : wbs xs' = wbs xs -> wcs xs' = wcs xs -> cclosing xs' = cclosing xs -> sclosing xs' = sclosing xs ->
  cmds xs' = cmds xs -> rec_of xs wr -> rec_of xs' wr.
Proof.
  intros A B C D E H. destruct H as [w o H|w o H|w o ok H|w o H|w o H].
  - apply RB. now rewrite A.
  - apply RC. now rewrite B.
  - replace (cpres xs o) with (cpres xs' o) by (unfold cpres; now rewrite C). apply (RA xs' w o ok). now rewrite E.
  - apply RD. unfold citems. now rewrite C.
  - replace (has_cmds xs w) with (has_cmds xs' w) by (unfold has_cmds; now rewrite E). apply RS. unfold sitems. now rewrite D.
Qed.

Lemma rec_of_ext_iff xs xs' wr : wbs xs' = wbs xs -> wcs xs' = wcs xs -> cclosing xs' = cclosing xs -> sclosing xs' = sclosing xs ->
  cmds xs' = cmds xs -> rec_of xs' wr <-> rec_of xs wr.
Proof. intros A B C D E. split; apply rec_of_ext; auto. Qed.

Lemma sinfo_ok_ext ss ss' o x : l_sinfo (s_l ss') = l_sinfo (s_l ss) -> l_sdict (s_l ss') = l_sdict (s_l ss) ->
  sinfo_ok ss o x -> sinfo_ok ss' o x.
Proof. intros A B. unfold sinfo_ok. now rewrite A, B. Qed.

(* ---------------------------------------------------------------- listener operations *)
Lemma relf_listener ss xs o ls' : RelF ss xs -> listener_op o = true -> lstep (s_l ss) o = Some ls' ->
  exists xs' es ss', x_op xs o = Some (xs', es) /\ spec_op ss o es = Some ss' /\ RelF ss' xs'.
Proof.
  intros Q Lo L.
  assert (Hq : qop o = false) by (destruct o; try discriminate Lo; reflexivity).
  destruct (rel_op _ xs o ls' (f_rel _ _ Q) L Hq) as [xs' [es [X [R' _]]]].
  destruct (x_op_listener xs o xs' es Lo X) as [Fb [F1 [F2 [F3 [F4 [F5 ->]]]]]].
  destruct (lstep_listener _ o ls' Lo L) as [E1 [E2 [E3 [E4 [E5 [E6 [E7 [E8 [E9 E10]]]]]]]]].
  exists xs', [], {| s_l := ls'; s_open := s_open ss; s_cmdq := s_cmdq ss |}.
  split; [exact X|]. split.
  - unfold spec_op. rewrite L. destruct o; try discriminate; reflexivity.
  - destruct Q. constructor; cbn [s_l s_open s_cmdq].
    + rewrite F5. now apply (qinv_same (s_l ss)).
    + exact R'.
    + now rewrite F5.
    + now rewrite F5.
    + intros c. rewrite F5, E8. apply f_cmd_used0.
    + intros ob w ok. rewrite F5, E2. unfold cpres. rewrite F3. apply f_cmd_gone0.
    + intros ob w ok. rewrite F5, E4. apply f_cmd_ex0.
    + intros o' c G. rewrite Fb in G. destruct (f_info0 o' c G) as [I J]. split.
      * apply (info_ok_ext ss _ xs xs'); auto.
      * cbn [s_l]. now rewrite E6.
    + intros o' x G. rewrite Fb in G. apply (sinfo_ok_ext ss); auto.
    + intros o' Ho. rewrite E4 in Ho. rewrite F1, F2, E6. now apply f_fresh0.
    + intros wr. rewrite (rec_of_ext_iff xs xs' wr F1 F2 F3 F4 F5). apply f_open0.
    + exact f_open_nd0.
    + intros w. unfold holders. rewrite F1, F2, F3, F4, F5. apply f_hold_cnt0.
    + intros w. unfold holders. rewrite F1, F2, F3, F4, F5, E8. apply f_hold_used0.
Qed.

(* ---------------------------------------------------------------- when_built / when_closed requests *)
Lemma relf_used ss xs w : RelF ss xs -> RelF {| s_l := use_w (s_l ss) w; s_open := s_open ss; s_cmdq := s_cmdq ss |} xs.
Proof.
  intros Q. destruct Q. constructor; cbn [s_l s_open s_cmdq use_w use_q l_nc l_cinfo l_cdict l_used]; auto.
  - apply (Rel_frame (s_l ss) _ xs xs f_rel0); reflexivity.
  - intros c H. right. now apply f_cmd_used0.
  - intros w' H. right. now apply f_hold_used0.
Qed.

Lemma relf_pending ss xs o w (built : bool) xs' ws :
  RelF ss xs -> o < l_nc (s_l ss) -> memN w (l_used (s_l ss)) = false ->
  x_op xs (if built then OWhenBuilt o w else OWhenClosed o w) = Some (xs', []) ->
  base xs' = base xs -> cls xs' = cls xs -> sls xs' = sls xs -> gcl xs' = gcl xs -> gsl xs' = gsl xs ->
  cclosing xs' = cclosing xs -> sclosing xs' = sclosing xs -> cmds xs' = cmds xs ->
  (if built then tget P0 (wbs xs) o = OSPending ws /\ wbs xs' = tset (wbs xs) o (OSPending (ws ++ [w])) /\ wcs xs' = wcs xs
   else tget P0 (wcs xs) o = OSPending ws /\ wcs xs' = tset (wcs xs) o (OSPending (ws ++ [w])) /\ wbs xs' = wbs xs) ->
  RelF {| s_l := use_w (s_l ss) w; s_open := s_open ss ++ [mkw w (if built then KBuilt else KClosed) true o false false]; s_cmdq := s_cmdq ss |} xs'.
Proof.
  intros Q Hlt Hfr X Fb F1 F2 F3 F4 F5 F6 F7 HT.
  assert (Hreq : req_id (if built then OWhenBuilt o w else OWhenClosed o w) = [w]) by (destruct built; reflexivity).
  destruct (hold_step xs _ xs' [] (l_used (s_l ss)) X (f_hold_cnt _ _ Q) (f_hold_used _ _ Q)) as [HC HU].
  { rewrite Hreq. intros w' [<-|[]]. now apply memN_false. }
  rewrite Hreq in HU.
  assert (TB : forall o', tget P0 (wbs xs') o' = if built && (o =? o') then OSPending (ws ++ [w]) else tget P0 (wbs xs) o').
  { intros o'. destruct built; cbn [andb]; destruct HT as [_ [E1 E2]]; [rewrite E1, tget_tset; reflexivity | now rewrite E2]. }
  assert (TC : forall o', tget P0 (wcs xs') o' = if negb built && (o =? o') then OSPending (ws ++ [w]) else tget P0 (wcs xs) o').
  { intros o'. destruct built; cbn [andb negb]; destruct HT as [_ [E1 E2]]; [now rewrite E2 | rewrite E1, tget_tset; reflexivity]. }
  assert (PB : forall o', pend (wbs xs') o' = if built && (o =? o') then pend (wbs xs) o' ++ [w] else pend (wbs xs) o').
  { intros o'. unfold pend. rewrite TB. destruct built; cbn [andb]; [|reflexivity]. destruct (N.eqb_spec o o') as [<-|]; [|reflexivity].
    destruct HT as [E0 _]. now rewrite E0. }
  assert (PC : forall o', pend (wcs xs') o' = if negb built && (o =? o') then pend (wcs xs) o' ++ [w] else pend (wcs xs) o').
  { intros o'. unfold pend. rewrite TC. destruct built; cbn [andb negb]; [reflexivity|]. destruct (N.eqb_spec o o') as [<-|]; [|reflexivity].
    destruct HT as [E0 _]. now rewrite E0. }
  destruct Q. constructor; cbn [s_l s_open s_cmdq use_w use_q l_nc l_cinfo l_cdict l_sdict l_sinfo l_used].
  - rewrite F7. exact f_q0.
  - apply (Rel_frame (s_l ss) _ xs xs' f_rel0); auto.
  - now rewrite F7.
  - now rewrite F7.
  - intros c. rewrite F7. intros H. right. now apply f_cmd_used0.
  - intros ob w0 ok. rewrite F7. unfold cpres. rewrite F5. apply f_cmd_gone0.
  - intros ob w0 ok. rewrite F7. apply f_cmd_ex0.
  - intros o' c' G. rewrite Fb in G. destruct (f_info0 o' c' G) as [[I1 [I2 [I3 I4]]] J]. split; [|exact J].
    unfold info_ok. cbn [s_l use_w use_q l_cinfo l_cdict]. split; [exact I1|]. split; [exact I2|]. rewrite TB, TC.
    destruct built; cbn [andb negb]; destruct (N.eqb_spec o o') as [<-|]; destruct HT as [E0 _]; rewrite ?E0 in *; auto.
  - intros o' x G. rewrite Fb in G. apply (f_sinfo0 o' x G).
  - intros o' Ho. rewrite TB, TC. assert (o =? o' = false) by (apply N.eqb_neq; lia). rewrite H, !andb_false_r. now apply f_fresh0.
  - intros wr. rewrite in_app_iff. cbn [In]. split.
    + intros [H|[<-|[]]].
      * apply f_open0 in H. destruct H as [w0 o0 H|w0 o0 H|w0 o0 ok H|w0 o0 H|w0 o0 H].
        -- apply RB. rewrite PB. destruct (built && (o =? o0)); [apply in_or_app; now left | exact H].
        -- apply RC. rewrite PC. destruct (negb built && (o =? o0)); [apply in_or_app; now left | exact H].
        -- replace (cpres xs o0) with (cpres xs' o0) by (unfold cpres; now rewrite F5). apply (RA xs' w0 o0 ok). now rewrite F7.
        -- apply RD. unfold citems. now rewrite F5.
        -- replace (has_cmds xs w0) with (has_cmds xs' w0) by (unfold has_cmds; now rewrite F7). apply RS. unfold sitems. now rewrite F6.
      * destruct built; [apply RB; rewrite PB | apply RC; rewrite PC]; cbn [andb negb]; rewrite N.eqb_refl; apply in_or_app; right; now left.
    + intros H. destruct H as [w0 o0 H|w0 o0 H|w0 o0 ok H|w0 o0 H|w0 o0 H].
      * rewrite PB in H. destruct built; cbn [andb] in H; [|left; apply f_open0; now apply RB].
        destruct (N.eqb_spec o o0) as [E|E]; [subst o0|left; apply f_open0; now apply RB].
        apply in_app_or in H as [H|[<-|[]]]; [left; apply f_open0; now apply RB | right; now left].
      * rewrite PC in H. destruct built; cbn [andb negb] in H; [left; apply f_open0; now apply RC|].
        destruct (N.eqb_spec o o0) as [E|E]; [subst o0|left; apply f_open0; now apply RC].
        apply in_app_or in H as [H|[<-|[]]]; [left; apply f_open0; now apply RC | right; now left].
      * left. apply f_open0. replace (cpres xs' o0) with (cpres xs o0) by (unfold cpres; now rewrite F5). apply (RA xs w0 o0 ok). now rewrite <- F7.
      * left. apply f_open0. apply RD. unfold citems in *. now rewrite <- F5.
      * left. apply f_open0. replace (has_cmds xs' w0) with (has_cmds xs w0) by (unfold has_cmds; now rewrite F7). apply RS. unfold sitems in *. now rewrite <- F6.
  - rewrite map_app. cbn [map mkw w_id]. apply NoDup_app_end; [exact f_open_nd0|].
    intros Hi. apply in_map_iff in Hi as [wr [E Hwr]]. apply memN_false in Hfr. apply Hfr. rewrite <- E.
    apply f_open0 in Hwr. destruct (rec_has_slot xs wr Hwr) as [sl Hs]. apply f_hold_used0. eapply slot_held; eauto.
  - exact HC.
  - intros w' H. apply HU in H. exact H.
Qed.

Lemma relf_when_built ss xs o w ls' : RelF ss xs -> lstep (s_l ss) (OWhenBuilt o w) = Some ls' ->
  exists xs' es ss', x_op xs (OWhenBuilt o w) = Some (xs', es) /\ spec_op ss (OWhenBuilt o w) es = Some ss' /\ RelF ss' xs'.
Proof.
  intros Q L. pose proof L as L0. cbn [lstep] in L; unfold lstep_ev in L.
  destruct (N.ltb_spec o (l_nc (s_l ss))) as [Hlt|]; cbn [andb] in L; [|discriminate].
  destruct (memN w (l_used (s_l ss))) eqn:Hfr; cbn [negb] in L; [discriminate|]. injection L as <-.
  fold (use_w (s_l ss) w) in L0 |- *.
  pose proof (f_rel _ _ Q) as R.
  destruct (get_c o (base xs)) as [c|] eqn:G; [|exfalso; now apply (r_cex _ _ R o Hlt)].
  destruct (f_info _ _ Q o c G) as [[I1 [I2 [I3 I4]]] J].
  unfold spec_op. rewrite L0. unfold spec_request.
  cbn [s_l]. set (info := tget (info0 0) (l_cinfo (s_l ss)) o) in *. set (al := alive (l_cdict (s_l ss)) o) in *.
  (* decided at once with result r *)
  assert (Now : forall r x, x_op xs (OWhenBuilt o w) = Some (xs, [NDone w r]) ->
                (if oi_built info then [(w, WantOkC o)] else if negb al then [(w, WantFail)] else []) = [(w, x)] ->
                res_ok x r = true ->
                exists xs' es ss', x_op xs (OWhenBuilt o w) = Some (xs', es) /\
                  (let '(ok, open', cmdq') :=
                     (no_notifs es && done_ok (if oi_built info then [(w, WantOkC o)] else if negb al then [(w, WantFail)] else []) [] es
                      && negb (has_cmd es) && negb (raised es),
                      if memN w (map fst (dones es)) then s_open ss
                      else s_open ss ++ [{| w_id := w; w_kind := KBuilt; w_circ := true; w_obj := o; w_gone_seen := negb al; w_pending_cmd := has_cmd es |}],
                      if has_cmd es then s_cmdq ss ++ [(w, kmem fst (oi_id info) (l_cdict (s_l ss)))] else s_cmdq ss) in
                   if ok then Some {| s_l := use_w (s_l ss) w; s_open := open'; s_cmdq := cmdq' |} else None) = Some ss' /\ RelF ss' xs').
  { intros r x X Hm Hr. exists xs, [NDone w r], {| s_l := use_w (s_l ss) w; s_open := s_open ss; s_cmdq := s_cmdq ss |}.
    split; [exact X|]. split; [|now apply relf_used].
    rewrite Hm, done_ok_single, Hr. cbn [no_notifs circ_listeners_called stream_listeners_called map concat has_cmd existsb raised
                                         negb andb dones fst memN app]. now rewrite N.eqb_refl. }
  fold P0 in I3.
  destruct (c_state c) as [[]|] eqn:Ec;
    try (apply (Now (WOkC o) (WantOkC o)); [cbn [x_op]; now rewrite G, Ec | rewrite (I1 eq_refl); reflexivity | cbn; apply N.eqb_refl]).
  all: destruct (tget P0 (wbs xs) o) as [ws|r] eqn:Ew.
  all: try (destruct r as [o'| | |cls r1 r2]; try contradiction;
            [destruct I3 as [-> Hb]; apply (Now (WOkC o) (WantOkC o)); [cbn [x_op]; rewrite G, Ec; fold P0; now rewrite Ew | now rewrite Hb | cbn; apply N.eqb_refl]
            |destruct I3 as [Hb Ha]; apply (Now (WFail cls r1 r2) WantFail); [cbn [x_op]; rewrite G, Ec; fold P0; now rewrite Ew | now rewrite Hb, Ha | reflexivity]]).
  all: destruct I3 as [Hb Ha]; rewrite Hb, Ha; cbn [negb].
  all: set (xs' := {| base := base xs; cls := cls xs; sls := sls xs; gcl := gcl xs; gsl := gsl xs;
                      wbs := tset (wbs xs) o (OSPending (ws ++ [w])); wcs := wcs xs; cclosing := cclosing xs;
                      sclosing := sclosing xs; cmds := cmds xs |}).
  all: assert (X : x_op xs (OWhenBuilt o w) = Some (xs', [])) by (cbn [x_op]; rewrite G, Ec; fold P0; now rewrite Ew).
  all: exists xs', [], {| s_l := use_w (s_l ss) w; s_open := s_open ss ++ [mkw w KBuilt true o false false]; s_cmdq := s_cmdq ss |}.
  all: split; [exact X|]; split; [reflexivity|].
  all: apply (relf_pending ss xs o w true xs' ws Q Hlt Hfr X); try reflexivity; repeat split; auto.
Qed.

Lemma relf_when_closed ss xs o w ls' : RelF ss xs -> lstep (s_l ss) (OWhenClosed o w) = Some ls' ->
  exists xs' es ss', x_op xs (OWhenClosed o w) = Some (xs', es) /\ spec_op ss (OWhenClosed o w) es = Some ss' /\ RelF ss' xs'.
Proof.
  intros Q L. pose proof L as L0. cbn [lstep] in L; unfold lstep_ev in L.
  destruct (N.ltb_spec o (l_nc (s_l ss))) as [Hlt|]; cbn [andb] in L; [|discriminate].
  destruct (memN w (l_used (s_l ss))) eqn:Hfr; cbn [negb] in L; [discriminate|]. injection L as <-.
  fold (use_w (s_l ss) w) in L0 |- *.
  pose proof (f_rel _ _ Q) as R.
  destruct (get_c o (base xs)) as [c|] eqn:G; [|exfalso; now apply (r_cex _ _ R o Hlt)].
  destruct (f_info _ _ Q o c G) as [[I1 [I2 [I3 I4]]] J].
  unfold spec_op. rewrite L0. unfold spec_request.
  cbn [s_l]. set (info := tget (info0 0) (l_cinfo (s_l ss)) o) in *. set (al := alive (l_cdict (s_l ss)) o) in *.
  assert (Now : x_op xs (OWhenClosed o w) = Some (xs, [NDone w (WOkC o)]) -> al = false ->
                exists xs' es ss', x_op xs (OWhenClosed o w) = Some (xs', es) /\
                  (let '(ok, open', cmdq') :=
                     (no_notifs es && done_ok (if negb al then [(w, WantOkC o)] else []) [] es
                      && negb (has_cmd es) && negb (raised es),
                      if memN w (map fst (dones es)) then s_open ss
                      else s_open ss ++ [{| w_id := w; w_kind := KClosed; w_circ := true; w_obj := o; w_gone_seen := negb al; w_pending_cmd := has_cmd es |}],
                      if has_cmd es then s_cmdq ss ++ [(w, kmem fst (oi_id info) (l_cdict (s_l ss)))] else s_cmdq ss) in
                   if ok then Some {| s_l := use_w (s_l ss) w; s_open := open'; s_cmdq := cmdq' |} else None) = Some ss' /\ RelF ss' xs').
  { intros X Ha. exists xs, [NDone w (WOkC o)], {| s_l := use_w (s_l ss) w; s_open := s_open ss; s_cmdq := s_cmdq ss |}.
    split; [exact X|]. split; [|now apply relf_used].
    rewrite Ha. cbn [negb]. rewrite done_ok_single. cbn [res_ok]. rewrite N.eqb_refl.
    cbn [no_notifs circ_listeners_called stream_listeners_called map concat has_cmd existsb raised negb andb dones fst memN app].
    now rewrite N.eqb_refl. }
  fold P0 in I4.
  destruct (c_state c) as [[]|] eqn:Ec;
    try (apply Now; [cbn [x_op]; now rewrite G, Ec | apply I2; auto]).
  all: destruct (tget P0 (wcs xs) o) as [ws|r] eqn:Ew.
  all: try (destruct I4 as [-> Ha]; apply Now; [cbn [x_op]; rewrite G, Ec; fold P0; now rewrite Ew | exact Ha]).
  all: rewrite I4; cbn [negb].
  all: set (xs' := {| base := base xs; cls := cls xs; sls := sls xs; gcl := gcl xs; gsl := gsl xs; wbs := wbs xs;
                      wcs := tset (wcs xs) o (OSPending (ws ++ [w])); cclosing := cclosing xs;
                      sclosing := sclosing xs; cmds := cmds xs |}).
  all: assert (X : x_op xs (OWhenClosed o w) = Some (xs', [])) by (cbn [x_op]; rewrite G, Ec; fold P0; now rewrite Ew).
  all: exists xs', [], {| s_l := use_w (s_l ss) w; s_open := s_open ss ++ [mkw w KClosed true o false false]; s_cmdq := s_cmdq ss |}.
  all: split; [exact X|]; split; [reflexivity|].
  all: apply (relf_pending ss xs o w false xs' ws Q Hlt Hfr X); try reflexivity; repeat split; auto.
Qed.


(* ---------------------------------------------------------------- operations that only touch the close machinery *)
Definition lsame (a b : lstate) : Prop := with_q a 0 0 = with_q b 0 0.
Lemma lsame_fields a b : lsame a b ->
  l_tv a = l_tv b /\ l_cdict a = l_cdict b /\ l_sdict a = l_sdict b /\ l_nc a = l_nc b /\ l_ns a = l_ns b /\
  l_cinfo a = l_cinfo b /\ l_sinfo a = l_sinfo b /\ l_cregs a = l_cregs b /\ l_sregs a = l_sregs b /\
  l_gcl a = l_gcl b /\ l_gsl a = l_gsl b /\ l_used a = l_used b.
Proof. unfold lsame, with_q. intros [= H1 H2 H3 H4 H5 H6 H7 H8 H9 H10 H11 H12]. repeat split; assumption. Qed.

Lemma relf_frame ss xs ss' xs' : RelF ss xs -> lsame (s_l ss') (s_l ss) ->
  base xs' = base xs -> cls xs' = cls xs -> sls xs' = sls xs -> gcl xs' = gcl xs -> gsl xs' = gsl xs ->
  wbs xs' = wbs xs -> wcs xs' = wcs xs ->
  s_cmdq ss' = map cmd_pair (cmds xs') -> NoDup (map cmd_w (cmds xs')) ->
  (forall c, In c (cmds xs') -> In (cmd_w c) (l_used (s_l ss))) ->
  (forall o w ok, In (CmdC o w ok) (cmds xs') -> cpres xs' o = true \/ alive (l_cdict (s_l ss)) o = false) ->
  (forall o w ok, In (CmdC o w ok) (cmds xs') -> o < l_nc (s_l ss)) ->
  (forall wr, In wr (s_open ss') <-> rec_of xs' wr) -> NoDup (map w_id (s_open ss')) ->
  (forall w, (countN w (holders xs') <= 1)%nat) -> (forall w, In w (holders xs') -> In w (l_used (s_l ss))) ->
  qinv (s_l ss') (cmds xs') ->
  RelF ss' xs'.
Proof.
  intros Q El Fb F1 F2 F3 F4 F5 F6 P1 P2 P3 P4 P5 P6 P7 P8 P9 P10. destruct Q.
  destruct (lsame_fields _ _ El) as [L1 [L2 [L3 [L4 [L5 [L6 [L7 [L8 [L9 [L10 [L11 L12]]]]]]]]]]].
  constructor; rewrite ?L2, ?L4, ?L12; auto.
  - apply (Rel_frame (s_l ss) _ xs xs' f_rel0); auto.
  - intros o c G. rewrite Fb in G. destruct (f_info0 o c G) as [I J]. split; [|now rewrite L6].
    apply (info_ok_ext ss ss' xs xs'); auto.
  - intros o x G. rewrite Fb in G. apply (sinfo_ok_ext ss ss'); auto.
  - intros o Ho. rewrite F5, F6, L6. now apply f_fresh0.
Qed.

Definition setp (x : wait) : wait := mkw (w_id x) (w_kind x) (w_circ x) (w_obj x) (w_gone_seen x) false.
Definition ack_open (ds : list (N * wres)) (w : N) (l : list wait) : list wait :=
  concat (map (fun x => if memN (w_id x) (map fst ds) then [] else if w_id x =? w then [setp x] else [x]) l).

Lemma ack_open_In ds w l wr : In wr (ack_open ds w l) <->
  exists x, In x l /\ ~ In (w_id x) (map fst ds) /\ wr = if w_id x =? w then setp x else x.
Proof.
  unfold ack_open. rewrite in_concat_map. split.
  - intros [x [H0 H1]]. exists x. split; [exact H0|].
    destruct (memN (w_id x) (map fst ds)) eqn:M; [destruct H1|]. apply memN_false in M. split; [exact M|].
    destruct (w_id x =? w); destruct H1 as [<-|[]]; reflexivity.
  - intros [x [H0 [H1 ->]]]. exists x. split; [exact H0|]. apply memN_false in H1. rewrite H1.
    destruct (w_id x =? w); now left.
Qed.

Lemma ack_open_ids ds w l : map w_id (ack_open ds w l) = map w_id (drop_done ds l).
Proof.
  unfold ack_open, drop_done. induction l as [|x t IH]; [reflexivity|]. cbn [map concat filter].
  destruct (memN (w_id x) (map fst ds)); cbn [negb]; [exact IH|].
  rewrite map_app, IH. destruct (w_id x =? w); reflexivity.
Qed.

Lemma setp_same x : w_pending_cmd x = false -> setp x = x.
Proof. destruct x; cbn. now intros ->. Qed.

Lemma filter_none {A} (f : A -> bool) l : (forall y, In y l -> f y = false) -> filter f l = [].
Proof. induction l as [|a t IH]; intros H; [reflexivity|]. cbn [filter]. rewrite (H a (or_introl eq_refl)). apply IH. intros y Hy. apply H. now right. Qed.

Lemma filter_id_single l x : NoDup (map w_id l) -> In x l -> filter (fun y => w_id y =? w_id x) l = [x].
Proof.
  induction l as [|a t IH]; intros Hnd Hin; [destruct Hin|]. cbn [map] in Hnd. inversion Hnd as [|? ? Hn Hd]; subst.
  cbn [filter]. destruct Hin as [->|Hin].
  - rewrite N.eqb_refl. f_equal. apply filter_none. intros y Hy. apply N.eqb_neq. intros E. apply Hn. rewrite <- E. now apply in_map.
  - destruct (N.eqb_spec (w_id a) (w_id x)) as [E|E]; [|now apply IH]. exfalso. apply Hn. rewrite E. now apply in_map.
Qed.

Lemma open_id_eq ss xs wr wr' : RelF ss xs -> In wr (s_open ss) -> In wr' (s_open ss) -> w_id wr = w_id wr' -> wr = wr'.
Proof.
  intros Q A B E. pose proof (f_open_nd _ _ Q) as Hnd. revert A B E. induction (s_open ss) as [|x t IH]; [intros []|].
  cbn [map] in Hnd. inversion Hnd as [|? ? Hn Hd]; subst. intros [A|A] [B|B] E.
  - congruence.
  - exfalso. subst x. apply Hn. rewrite E. now apply in_map.
  - exfalso. subst x. apply Hn. rewrite <- E. now apply in_map.
  - now apply IH.
Qed.

Lemma cmd_unique (l : list cmdrec) c c' : NoDup (map cmd_w l) -> In c l -> In c' l -> cmd_w c = cmd_w c' -> c = c'.
Proof.
  induction l as [|a t IH]; intros Hnd A B E; [destruct A|]. cbn [map] in Hnd. inversion Hnd as [|? ? Hn Hd]; subst.
  destruct A as [A|A]; destruct B as [B|B].
  - congruence.
  - exfalso. subst a. apply Hn. rewrite E. now apply in_map.
  - exfalso. subst a. apply Hn. rewrite <- E. now apply in_map.
  - now apply IH.
Qed.

Lemma done_ok_one_may w x r : res_ok x r = true -> done_ok [] [(w, x)] [NDone w r] = true.
Proof.
  intros H. unfold done_ok. cbn [dones map concat app fst snd nodupN memN negb andb forallb kfind].
  rewrite N.eqb_refl, H. reflexivity.
Qed.

Lemma cpres_tset xs' xs o v o' : cclosing xs' = tset (cclosing xs) o v -> cpres xs o = true -> cpres xs' o' = cpres xs o'.
Proof.
  intros E H. unfold cpres in *. rewrite E, tfind_tset. destruct (N.eqb_spec o o') as [<-|]; [|reflexivity].
  destruct (tfind (cclosing xs) o); [reflexivity | discriminate].
Qed.

Lemma citems_tset xs' xs o v o' : cclosing xs' = tset (cclosing xs) o v ->
  citems xs' o' = if o =? o' then items_holders v else citems xs o'.
Proof. intros E. unfold citems. rewrite E, tget_tset. now destruct (o =? o'). Qed.
Lemma sitems_tset xs' xs o v o' : sclosing xs' = tset (sclosing xs) o v ->
  sitems xs' o' = if o =? o' then items_holders v else sitems xs o'.
Proof. intros E. unfold sitems. rewrite E, tget_tset. now destruct (o =? o'). Qed.

Lemma relf_ack ss xs ls' : RelF ss xs -> lstep (s_l ss) OAck = Some ls' ->
  exists xs' es ss', x_op xs OAck = Some (xs', es) /\ spec_op ss OAck es = Some ss' /\ RelF ss' xs'.
Proof.
  intros Q L0. pose proof L0 as L. cbn [lstep] in L. destruct (l_nb (s_l ss) =? 0) eqn:Hnb; [|discriminate].
  apply N.eqb_eq in Hnb. injection L as <-. pose proof (f_q _ _ Q) as Fq.
  set (ls1 := with_q (s_l ss) (l_nb (s_l ss)) (l_ncl (s_l ss) - 1)) in *.
  pose proof (f_cmdq _ _ Q) as Eq. pose proof (f_cmd_nd _ _ Q) as Nd.
  destruct (cmds xs) as [|c q] eqn:Ec.
  - exists xs, [], {| s_l := ls1; s_open := s_open ss; s_cmdq := [] |}.
    split; [cbn [x_op]; now rewrite Ec|]. split.
    + unfold spec_op. rewrite L0. unfold spec_ack. now rewrite Eq.
    + apply (relf_frame ss xs _ xs Q); try reflexivity; cbn [s_l s_open s_cmdq]; rewrite ?Ec.
      * reflexivity.
      * constructor.
      * intros c [].
      * intros o w ok [].
      * intros o w ok [].
      * exact (f_open _ _ Q).
      * exact (f_open_nd _ _ Q).
      * exact (f_hold_cnt _ _ Q).
      * exact (f_hold_used _ _ Q).
      * now apply qinv_empty.
  - cbn [map] in Eq, Nd. inversion Nd as [|? ? Hn Hd]; subst.
    assert (NotQ : forall c', In c' q -> cmd_w c' <> cmd_w c).
    { intros c' Hc' E. apply Hn. rewrite <- E. now apply in_map. }
    assert (Hb : is_b c = false) by (apply (qinv_no_b _ _ Fq Hnb); now left).
    destruct c as [o w ok|o w ok|w]; cbn [cmd_pair cmd_w fst] in *; [| |discriminate Hb].
    + (* CLOSECIRCUIT answered *)
      set (wr0 := mkw w KClose true o (negb (cpres xs o)) true).
      assert (H0 : In wr0 (s_open ss)) by (apply (f_open _ _ Q); apply (RA xs w o ok); rewrite Ec; now left).
      assert (Mine : filter (fun x => w_id x =? w) (s_open ss) = [wr0]) by (apply (filter_id_single (s_open ss) wr0 (f_open_nd _ _ Q) H0)).
      assert (Wslot : In w (slot_ids xs SlCmd)) by (apply (in_cmd_slot xs o w ok); rewrite Ec; now left).
      set (xs2 := {| base := base xs; cls := cls xs; sls := sls xs; gcl := gcl xs; gsl := gsl xs; wbs := wbs xs; wcs := wcs xs;
                     cclosing := cclosing xs; sclosing := sclosing xs; cmds := q |}).
      assert (Fin : forall r, x_op xs OAck = Some (xs2, [NDone w r]) ->
                done_ok (concat (map (fun x => if w_gone_seen x then [(w, if ok then WantOk else WantAny)] else []) [wr0]))
                        (concat (map (fun x => if negb ok && negb (w_gone_seen x) then [(w, WantFail)] else []) [wr0])) [NDone w r] = true ->
                exists xs' es ss', x_op xs OAck = Some (xs', es) /\ spec_op ss OAck es = Some ss' /\ RelF ss' xs').
      { intros r X D.
        destruct (hold_step xs OAck xs2 [NDone w r] (l_used (s_l ss)) X (f_hold_cnt _ _ Q) (f_hold_used _ _ Q)) as [HC HU]; [intros ? []|].
        exists xs2, [NDone w r], {| s_l := ls1; s_open := ack_open [(w, r)] w (s_open ss); s_cmdq := map cmd_pair q |}.
        split; [exact X|]. split.
        - unfold spec_op. rewrite L0. unfold spec_ack. rewrite Eq, Mine, D. reflexivity.
        - apply (relf_frame ss xs _ xs2 Q); try reflexivity; cbn [s_l s_open s_cmdq xs2 cmds].
          + exact Hd.
          + intros c Hc. apply (f_cmd_used _ _ Q). rewrite Ec. now right.
          + intros o' w' ok' Hc. apply (f_cmd_gone _ _ Q o' w' ok'). rewrite Ec. now right.
          + intros o' w' ok' Hc. apply (f_cmd_ex _ _ Q o' w' ok'). rewrite Ec. now right.
          + intros wr. rewrite ack_open_In. cbn [map fst]. split.
            * intros [x [Hx [Hni ->]]]. assert (E : w_id x <> w) by (intros E; apply Hni; now left).
              apply N.eqb_neq in E. rewrite E. apply N.eqb_neq in E. apply (f_open _ _ Q) in Hx.
              destruct Hx as [w0 o0 H|w0 o0 H|w0 o0 ok0 H|w0 o0 H|w0 o0 H]; cbn [mkw w_id] in E.
              -- now apply RB.
              -- now apply RC.
              -- rewrite Ec in H. destruct H as [H|H]; [congruence|]. now apply (RA xs2 w0 o0 ok0).
              -- now apply RD.
              -- replace (has_cmds xs w0) with (has_cmds xs2 w0) by (unfold has_cmds; rewrite Ec; reflexivity). now apply RS.
            * intros H. destruct H as [w0 o0 H|w0 o0 H|w0 o0 ok0 H|w0 o0 H|w0 o0 H].
              -- assert (E : w0 <> w) by (intros ->; discriminate (slot_unique xs (f_hold_cnt _ _ Q) w (SlB o0) SlCmd H Wslot)).
                 exists (mkw w0 KBuilt true o0 false false). split; [apply (f_open _ _ Q); now apply RB|].
                 cbn [mkw w_id]. split; [intros [F|[]]; congruence|]. apply N.eqb_neq in E. now rewrite E.
              -- assert (E : w0 <> w) by (intros ->; discriminate (slot_unique xs (f_hold_cnt _ _ Q) w (SlC o0) SlCmd H Wslot)).
                 exists (mkw w0 KClosed true o0 false false). split; [apply (f_open _ _ Q); now apply RC|].
                 cbn [mkw w_id]. split; [intros [F|[]]; congruence|]. apply N.eqb_neq in E. now rewrite E.
              -- assert (E : w0 <> w) by (exact (NotQ _ H)).
                 exists (mkw w0 KClose true o0 (negb (cpres xs o0)) true). split; [apply (f_open _ _ Q); apply (RA xs w0 o0 ok0); rewrite Ec; now right|].
                 cbn [mkw w_id]. split; [intros [F|[]]; congruence|]. apply N.eqb_neq in E. now rewrite E.
              -- assert (E : w0 <> w) by (intros ->; discriminate (slot_unique xs (f_hold_cnt _ _ Q) w (SlCC o0) SlCmd H Wslot)).
                 exists (mkw w0 KClose true o0 false false). split; [apply (f_open _ _ Q); now apply RD|].
                 cbn [mkw w_id]. split; [intros [F|[]]; congruence|]. apply N.eqb_neq in E. now rewrite E.
              -- assert (E : w0 <> w) by (intros ->; discriminate (slot_unique xs (f_hold_cnt _ _ Q) w (SlSC o0) SlCmd H Wslot)).
                 exists (mkw w0 KClose false o0 false (has_cmds xs w0)). split; [apply (f_open _ _ Q); now apply RS|].
                 cbn [mkw w_id]. split; [intros [F|[]]; congruence|]. apply N.eqb_neq in E. rewrite E.
                 f_equal. unfold has_cmds. rewrite Ec. reflexivity.
          + rewrite ack_open_ids. apply drop_done_ids_nodup. exact (f_open_nd _ _ Q).
          + exact HC.
          + exact HU.
          + exact (qinv_pop_close _ _ _ Fq Hb). }
      destruct ok.
      * destruct (tfind (cclosing xs) o) as [items|] eqn:Ef.
        -- (* the command Deferred is chained to the _closing_deferred *)
           assert (Ep : cpres xs o = true) by (unfold cpres; now rewrite Ef).
           set (xs' := {| base := base xs; cls := cls xs; sls := sls xs; gcl := gcl xs; gsl := gsl xs; wbs := wbs xs; wcs := wcs xs;
                          cclosing := tset (cclosing xs) o (items ++ [CbChain w]); sclosing := sclosing xs; cmds := q |}).
           assert (X : x_op xs OAck = Some (xs', [])) by (cbn [x_op]; now rewrite Ec, Ef).
           destruct (hold_step xs OAck xs' [] (l_used (s_l ss)) X (f_hold_cnt _ _ Q) (f_hold_used _ _ Q)) as [HC HU]; [intros ? []|].
           exists xs', [], {| s_l := ls1; s_open := ack_open [] w (s_open ss); s_cmdq := map cmd_pair q |}.
           split; [exact X|]. split.
           ++ unfold spec_op. rewrite L0. unfold spec_ack. rewrite Eq, Mine. unfold wr0. cbn [map concat mkw w_gone_seen app]. rewrite Ep. reflexivity.
           ++ assert (CP : forall o', cpres xs' o' = cpres xs o') by (intros o'; apply (cpres_tset xs' xs o _ o' eq_refl Ep)).
              assert (CI : forall o', citems xs' o' = if o =? o' then citems xs o ++ [w] else citems xs o').
              { intros o'. rewrite (citems_tset xs' xs o _ o' eq_refl), items_holders_app.
                assert (Ei : citems xs o = items_holders items) by (unfold citems; now rewrite (tget_of_tfind [] _ _ _ Ef)).
                rewrite Ei. reflexivity. }
              apply (relf_frame ss xs _ xs' Q); try reflexivity; cbn [s_l s_open s_cmdq xs' cmds].
              ** exact Hd.
              ** intros c Hc. apply (f_cmd_used _ _ Q). rewrite Ec. now right.
              ** intros o' w' ok' Hc. rewrite CP. apply (f_cmd_gone _ _ Q o' w' ok'). rewrite Ec. now right.
              ** intros o' w' ok' Hc. apply (f_cmd_ex _ _ Q o' w' ok'). rewrite Ec. now right.
              ** intros wr. rewrite ack_open_In. cbn [map fst]. split.
                 --- intros [x [Hx [_ ->]]]. destruct (N.eqb_spec (w_id x) w) as [E|E].
                     +++ assert (Ex : x = wr0) by (apply (open_id_eq ss xs x wr0 Q Hx H0); exact E). subst x.
                         unfold setp, wr0. cbn [mkw w_id w_kind w_circ w_obj w_gone_seen]. rewrite Ep. cbn [negb].
                         apply RD. rewrite CI, N.eqb_refl. apply in_or_app. right. now left.
                     +++ apply (f_open _ _ Q) in Hx.
                         destruct Hx as [w0 o0 H|w0 o0 H|w0 o0 ok0 H|w0 o0 H|w0 o0 H]; cbn [mkw w_id] in E.
                         *** now apply RB.
                         *** now apply RC.
                         *** rewrite Ec in H. destruct H as [H|H]; [congruence|]. rewrite <- CP. now apply (RA xs' w0 o0 ok0).
                         *** apply RD. rewrite CI. destruct (N.eqb_spec o o0) as [E2|E2]; [subst o0; apply in_or_app; now left | exact H].
                         *** replace (has_cmds xs w0) with (has_cmds xs' w0) by (unfold has_cmds; rewrite Ec; reflexivity). now apply RS.
                 --- intros H. destruct H as [w0 o0 H|w0 o0 H|w0 o0 ok0 H|w0 o0 H|w0 o0 H].
                     +++ assert (E : w0 <> w) by (intros ->; discriminate (slot_unique xs (f_hold_cnt _ _ Q) w (SlB o0) SlCmd H Wslot)).
                         exists (mkw w0 KBuilt true o0 false false). split; [apply (f_open _ _ Q); now apply RB|].
                         cbn [mkw w_id]. split; [intros []|]. apply N.eqb_neq in E. now rewrite E.
                     +++ assert (E : w0 <> w) by (intros ->; discriminate (slot_unique xs (f_hold_cnt _ _ Q) w (SlC o0) SlCmd H Wslot)).
                         exists (mkw w0 KClosed true o0 false false). split; [apply (f_open _ _ Q); now apply RC|].
                         cbn [mkw w_id]. split; [intros []|]. apply N.eqb_neq in E. now rewrite E.
                     +++ assert (E : w0 <> w) by (exact (NotQ _ H)). rewrite CP.
                         exists (mkw w0 KClose true o0 (negb (cpres xs o0)) true). split; [apply (f_open _ _ Q); apply (RA xs w0 o0 ok0); rewrite Ec; now right|].
                         cbn [mkw w_id]. split; [intros []|]. apply N.eqb_neq in E. now rewrite E.
                     +++ rewrite CI in H.
                         assert (Old : In w0 (citems xs o0) -> exists x, In x (s_open ss) /\ ~ False /\
                                       mkw w0 KClose true o0 false false = (if w_id x =? w then setp x else x)).
                         { intros H1. assert (E : w0 <> w) by (intros ->; discriminate (slot_unique xs (f_hold_cnt _ _ Q) w (SlCC o0) SlCmd H1 Wslot)).
                           exists (mkw w0 KClose true o0 false false). split; [apply (f_open _ _ Q); now apply RD|].
                           cbn [mkw w_id]. split; [intros []|]. apply N.eqb_neq in E. now rewrite E. }
                         destruct (N.eqb_spec o o0) as [E2|E2]; [subst o0|now apply Old].
                         apply in_app_or in H as [H|[<-|[]]]; [now apply Old|].
                         exists wr0. split; [exact H0|]. split; [intros []|]. unfold wr0, setp. cbn [mkw w_id w_kind w_circ w_obj w_gone_seen].
                         rewrite N.eqb_refl, Ep. reflexivity.
                     +++ assert (E : w0 <> w) by (intros ->; discriminate (slot_unique xs (f_hold_cnt _ _ Q) w (SlSC o0) SlCmd H Wslot)).
                         exists (mkw w0 KClose false o0 false (has_cmds xs w0)). split; [apply (f_open _ _ Q); now apply RS|].
                         cbn [mkw w_id]. split; [intros []|]. apply N.eqb_neq in E. rewrite E.
                         f_equal. unfold has_cmds. rewrite Ec. reflexivity.
              ** rewrite ack_open_ids. apply drop_done_ids_nodup. exact (f_open_nd _ _ Q).
              ** exact HC.
              ** exact HU.
              ** exact (qinv_pop_close _ _ _ Fq Hb).
        -- (* the _closing_deferred is gone already: the command Deferred is what the caller has *)
           assert (Ep : cpres xs o = false) by (unfold cpres; now rewrite Ef).
           apply (Fin WOkNone); [cbn [x_op]; now rewrite Ec, Ef|].
           unfold wr0. cbn [map concat mkw w_gone_seen app]. rewrite Ep. cbn [negb andb app]. now rewrite done_ok_single.
      * apply (Fin (WFail 4 0 0)); [cbn [x_op]; now rewrite Ec|].
        unfold wr0. cbn [map concat mkw w_gone_seen app]. destruct (cpres xs o); cbn [negb andb app];
          [now apply done_ok_one_may | now rewrite done_ok_single].
    + (* CLOSESTREAM answered: nobody observes the command Deferred *)
      set (xs' := {| base := base xs; cls := cls xs; sls := sls xs; gcl := gcl xs; gsl := gsl xs; wbs := wbs xs; wcs := wcs xs;
                     cclosing := cclosing xs;
                     sclosing := if ok then match tfind (sclosing xs) o with
                                            | Some items => tset (sclosing xs) o (items ++ [CbChainSilent])
                                            | None => sclosing xs
                                            end
                                 else sclosing xs;
                     cmds := q |}).
      assert (X : x_op xs OAck = Some (xs', [])) by (cbn [x_op]; now rewrite Ec).
      destruct (hold_step xs OAck xs' [] (l_used (s_l ss)) X (f_hold_cnt _ _ Q) (f_hold_used _ _ Q)) as [HC HU]; [intros ? []|].
      assert (SI : forall o', sitems xs' o' = sitems xs o').
      { intros o'. unfold sitems. cbn [xs' sclosing]. destruct ok; [|reflexivity].
        destruct (tfind (sclosing xs) o) as [items|] eqn:Ef; [|reflexivity]. rewrite tget_tset.
        destruct (N.eqb_spec o o') as [E|E]; [subst o'|reflexivity].
        rewrite items_holders_app, (tget_of_tfind [] _ _ _ Ef). cbn. now rewrite app_nil_r. }
      assert (Hw : has_cmds xs' w = false).
      { unfold has_cmds. cbn [xs' cmds]. apply not_true_is_false. intros H. apply existsb_exists in H as [c' [Hc' Hm]].
        destruct c' as [? ? ?|o1 w1 ok1|?]; [discriminate| |discriminate]. apply N.eqb_eq in Hm. apply (NotQ _ Hc'). exact Hm. }
      assert (Hw' : forall w0, w0 <> w -> has_cmds xs w0 = has_cmds xs' w0).
      { intros w0 E. unfold has_cmds. rewrite Ec. cbn [existsb xs' cmds]. apply not_eq_sym in E. apply N.eqb_neq in E. now rewrite E. }
      assert (Must : concat (map (fun x : wait => if w_gone_seen x then [(w, if ok then WantOk else WantAny)] else [])
                                 (filter (fun x => w_id x =? w) (s_open ss))) = []).
      { apply concat_map_nil. intros x Hx. apply filter_In in Hx as [Hx Ex]. apply N.eqb_eq in Ex. apply (f_open _ _ Q) in Hx.
        destruct Hx as [w0 o0 H|w0 o0 H|w0 o0 ok0 H|w0 o0 H|w0 o0 H]; try reflexivity. cbn [mkw w_id] in Ex. subst w0.
        exfalso. rewrite Ec in H. destruct H as [H|H]; [discriminate|]. now apply (NotQ _ H). }
      exists xs', [], {| s_l := ls1; s_open := ack_open [] w (s_open ss); s_cmdq := map cmd_pair q |}.
      split; [exact X|]. split.
      * unfold spec_op. rewrite L0. unfold spec_ack. rewrite Eq, Must. reflexivity.
      * apply (relf_frame ss xs _ xs' Q); try reflexivity; cbn [s_l s_open s_cmdq xs' cmds].
        -- exact Hd.
        -- intros c Hc. apply (f_cmd_used _ _ Q). rewrite Ec. now right.
        -- intros o' w' ok' Hc. apply (f_cmd_gone _ _ Q o' w' ok'). rewrite Ec. now right.
        -- intros o' w' ok' Hc. apply (f_cmd_ex _ _ Q o' w' ok'). rewrite Ec. now right.
        -- intros wr. rewrite ack_open_In. cbn [map fst]. split.
           ++ intros [x [Hx [_ ->]]]. apply (f_open _ _ Q) in Hx.
              destruct Hx as [w0 o0 H|w0 o0 H|w0 o0 ok0 H|w0 o0 H|w0 o0 H]; cbn [mkw w_id].
              ** rewrite setp_same by reflexivity. destruct (w0 =? w); now apply RB.
              ** rewrite setp_same by reflexivity. destruct (w0 =? w); now apply RC.
              ** rewrite Ec in H. destruct H as [H|H]; [discriminate|]. pose proof (NotQ _ H) as E. cbn [cmd_w cmd_pair fst] in E.
                 apply N.eqb_neq in E. rewrite E. now apply (RA xs' w0 o0 ok0).
              ** rewrite setp_same by reflexivity. destruct (w0 =? w); now apply RD.
              ** destruct (N.eqb_spec w0 w) as [E|E].
                 --- subst w0. unfold setp. cbn [mkw w_id w_kind w_circ w_obj w_gone_seen]. pose proof (RS xs' w o0) as R0. rewrite Hw in R0. apply R0. now rewrite SI.
                 --- rewrite (Hw' w0 E). apply RS. now rewrite SI.
           ++ intros H. destruct H as [w0 o0 H|w0 o0 H|w0 o0 ok0 H|w0 o0 H|w0 o0 H].
              ** exists (mkw w0 KBuilt true o0 false false). split; [apply (f_open _ _ Q); now apply RB|]. split; [intros []|].
                 rewrite setp_same by reflexivity. now destruct (w_id _ =? w).
              ** exists (mkw w0 KClosed true o0 false false). split; [apply (f_open _ _ Q); now apply RC|]. split; [intros []|].
                 rewrite setp_same by reflexivity. now destruct (w_id _ =? w).
              ** exists (mkw w0 KClose true o0 (negb (cpres xs o0)) true).
                 split; [apply (f_open _ _ Q); apply (RA xs w0 o0 ok0); rewrite Ec; now right|]. split; [intros []|].
                 pose proof (NotQ _ H) as E. cbn [cmd_w cmd_pair fst mkw w_id] in *. apply N.eqb_neq in E. now rewrite E.
              ** exists (mkw w0 KClose true o0 false false). split; [apply (f_open _ _ Q); now apply RD|]. split; [intros []|].
                 rewrite setp_same by reflexivity. now destruct (w_id _ =? w).
              ** rewrite SI in H. exists (mkw w0 KClose false o0 false (has_cmds xs w0)).
                 split; [apply (f_open _ _ Q); now apply RS|]. split; [intros []|]. cbn [mkw w_id].
                 destruct (N.eqb_spec w0 w) as [E|E].
                 --- subst w0. unfold setp. cbn [mkw w_id w_kind w_circ w_obj w_gone_seen]. now rewrite Hw.
                 --- now rewrite (Hw' w0 E).
        -- rewrite ack_open_ids. apply drop_done_ids_nodup. exact (f_open_nd _ _ Q).
        -- exact HC.
        -- exact HU.
        -- exact (qinv_pop_close _ _ _ Fq Hb).
Qed.

(* ---------------------------------------------------------------- close requests *)
Lemma fresh_facts ss xs w : RelF ss xs -> memN w (l_used (s_l ss)) = false ->
  (forall wr, rec_of xs wr -> w_id wr <> w) /\ (forall c, In c (cmds xs) -> cmd_w c <> w) /\ has_cmds xs w = false /\
  ~ In w (map w_id (s_open ss)).
Proof.
  intros Q Hfr. apply memN_false in Hfr.
  assert (A : forall wr, rec_of xs wr -> w_id wr <> w).
  { intros wr H E. apply Hfr. rewrite <- E. destruct (rec_has_slot xs wr H) as [sl Hs].
    apply (f_hold_used _ _ Q). eapply slot_held; eauto. }
  assert (B : forall c, In c (cmds xs) -> cmd_w c <> w).
  { intros c Hc E. apply Hfr. rewrite <- E. now apply (f_cmd_used _ _ Q). }
  split; [exact A|]. split; [exact B|]. split.
  - unfold has_cmds. apply not_true_is_false. intros H. apply existsb_exists in H as [c [Hc Hm]].
    destruct c as [? ? ?|o1 w1 ok1|?]; [discriminate| |discriminate]. apply N.eqb_eq in Hm. apply (B _ Hc). exact Hm.
  - intros Hi. apply in_map_iff in Hi as [wr [E Hwr]]. apply (A wr); [now apply (f_open _ _ Q) | exact E].
Qed.

Lemma relf_used_close ss xs w : RelF ss xs -> l_nb (s_l ss) = 0 ->
  RelF {| s_l := use_q (s_l ss) w (l_nb (s_l ss)) (l_ncl (s_l ss) + 1); s_open := s_open ss; s_cmdq := s_cmdq ss |} xs.
Proof.
  intros Q Hnb. pose proof (qinv_more_close _ _ w (f_q _ _ Q) Hnb) as Fq.
  destruct Q. constructor; cbn [s_l s_open s_cmdq use_q l_nc l_cinfo l_cdict l_used]; auto.
  - apply (Rel_frame (s_l ss) _ xs xs f_rel0); reflexivity.
  - intros c H. right. now apply f_cmd_used0.
  - intros w' H. right. now apply f_hold_used0.
Qed.

Lemma cmds_ok_one k i : cmds_ok k i [NCmd k i] = true.
Proof. unfold cmds_ok. cbn. now rewrite !N.eqb_refl. Qed.

Lemma relf_cclose ss xs o w ls' : RelF ss xs -> lstep (s_l ss) (OCClose o w) = Some ls' ->
  exists xs' es ss', x_op xs (OCClose o w) = Some (xs', es) /\ spec_op ss (OCClose o w) es = Some ss' /\ RelF ss' xs'.
Proof.
  intros Q L. pose proof L as L0. cbn [lstep] in L; unfold lstep_ev in L.
  destruct (N.ltb_spec o (l_nc (s_l ss))) as [Hlt|]; cbn [andb] in L; [|discriminate].
  destruct (memN w (l_used (s_l ss))) eqn:Hfr; cbn [negb andb] in L; [discriminate|].
  destruct (l_nb (s_l ss) =? 0) eqn:Hnb; [|discriminate]. apply N.eqb_eq in Hnb. injection L as <-.
  set (lsc := use_q (s_l ss) w (l_nb (s_l ss)) (l_ncl (s_l ss) + 1)) in *.
  pose proof (f_rel _ _ Q) as R.
  destruct (get_c o (base xs)) as [c|] eqn:G; [|exfalso; now apply (r_cex _ _ R o Hlt)].
  destruct (f_info _ _ Q o c G) as [[I1 [I2 [I3 I4]]] J].
  destruct (fresh_facts ss xs w Q Hfr) as [FrR [FrC [FrH FrO]]].
  pose proof (relf_used_close ss xs w Q Hnb) as Qu. fold lsc in Qu.
  unfold spec_op. rewrite L0. unfold spec_request.
  cbn [s_l]. set (info := tget (info0 0) (l_cinfo (s_l ss)) o) in *. set (al := alive (l_cdict (s_l ss)) o) in *.
  assert (Now : term_c c -> exists xs' es ss', x_op xs (OCClose o w) = Some (xs', es) /\
                  (let '(ok, open', cmdq') :=
                     (no_notifs es && done_ok (if negb al && negb (has_cmd es) then [(w, WantOk)] else [])
                                              (if negb al && has_cmd es then [(w, WantAny)] else []) es
                      && cmds_ok 0 (oi_id info) es && negb (raised es),
                      if memN w (map fst (dones es)) then s_open ss
                      else s_open ss ++ [{| w_id := w; w_kind := KClose; w_circ := true; w_obj := o; w_gone_seen := negb al; w_pending_cmd := has_cmd es |}],
                      if has_cmd es then s_cmdq ss ++ [(w, kmem fst (oi_id info) (l_cdict (s_l ss)))] else s_cmdq ss) in
                   if ok then Some {| s_l := lsc; s_open := open'; s_cmdq := cmdq' |} else None) = Some ss' /\ RelF ss' xs').
  { intros T. assert (Ha : al = false) by (now apply I2).
    exists xs, [NDone w WOkNone], {| s_l := lsc; s_open := s_open ss; s_cmdq := s_cmdq ss |}.
    split; [cbn [x_op]; rewrite G; destruct T as [-> | ->]; reflexivity|]. split; [|exact Qu].
    rewrite Ha. cbn [has_cmd existsb negb andb orb]. rewrite done_ok_single.
    cbn [res_ok no_notifs circ_listeners_called stream_listeners_called map concat raised existsb negb andb orb dones fst memN app cmds_ok].
    now rewrite N.eqb_refl. }
  assert (Live : ~ term_c c -> al = true).
  { intros NT. destruct al eqn:Ea; [reflexivity|]. exfalso. apply NT. now apply I2. }
  assert (Dec : term_c c \/ ~ term_c c).
  { unfold term_c. destruct (c_state c) as [[]|]; auto; right; intros [H|H]; discriminate. }
  destruct Dec as [T|NT]; [now apply Now|].
  assert (Ha : al = true) by (now apply Live). rewrite Ha. cbn [negb andb].
  assert (XB : x_op xs (OCClose o w) =
               match tfind (cclosing xs) o with
               | Some items =>
                   Some ({| base := base xs; cls := cls xs; sls := sls xs; gcl := gcl xs; gsl := gsl xs; wbs := wbs xs; wcs := wcs xs;
                            cclosing := tset (cclosing xs) o (items ++ [CbWaiter w]); sclosing := sclosing xs; cmds := cmds xs |}, [])
               | None =>
                   Some ({| base := base xs; cls := cls xs; sls := sls xs; gcl := gcl xs; gsl := gsl xs; wbs := wbs xs; wcs := wcs xs;
                            cclosing := tset (cclosing xs) o []; sclosing := sclosing xs;
                            cmds := cmds xs ++ [CmdC o w (kmem fst (c_id c) (circuits (base xs)))] |}, [NCmd 0 (c_id c)])
               end).
  { cbn [x_op]. rewrite G. destruct (c_state c) as [[]|] eqn:Ec; try reflexivity; exfalso; apply NT; unfold term_c; rewrite Ec; auto. }
  destruct (tfind (cclosing xs) o) as [items|] eqn:Ef.
  - (* a close is under way: one more callback on the _closing_deferred *)
    assert (Ep : cpres xs o = true) by (unfold cpres; now rewrite Ef).
    set (xs' := {| base := base xs; cls := cls xs; sls := sls xs; gcl := gcl xs; gsl := gsl xs; wbs := wbs xs; wcs := wcs xs;
                   cclosing := tset (cclosing xs) o (items ++ [CbWaiter w]); sclosing := sclosing xs; cmds := cmds xs |}) in *.
    destruct (hold_step xs _ xs' [] (l_used (s_l ss)) XB (f_hold_cnt _ _ Q) (f_hold_used _ _ Q)) as [HC HU].
    { cbn [req_id]. intros w' [<-|[]]. now apply memN_false. }
    exists xs', [], {| s_l := lsc; s_open := s_open ss ++ [mkw w KClose true o false false]; s_cmdq := s_cmdq ss |}.
    split; [exact XB|]. split; [reflexivity|].
    assert (CP : forall o', cpres xs' o' = cpres xs o') by (intros o'; apply (cpres_tset xs' xs o _ o' eq_refl Ep)).
    assert (CI : forall o', citems xs' o' = if o =? o' then citems xs o ++ [w] else citems xs o').
    { intros o'. rewrite (citems_tset xs' xs o _ o' eq_refl), items_holders_app.
      assert (Ei : citems xs o = items_holders items) by (unfold citems; now rewrite (tget_of_tfind [] _ _ _ Ef)).
      rewrite Ei. reflexivity. }
    apply (relf_frame _ xs _ xs' Qu); try reflexivity; cbn [s_l s_open s_cmdq xs' cmds].
    + exact (f_cmdq _ _ Q).
    + exact (f_cmd_nd _ _ Q).
    + exact (f_cmd_used _ _ Qu).
    + intros o' w' ok' Hc. rewrite CP. exact (f_cmd_gone _ _ Qu o' w' ok' Hc).
    + exact (f_cmd_ex _ _ Qu).
    + intros wr. rewrite in_app_iff. cbn [In]. split.
      * intros [H|[<-|[]]].
        -- apply (f_open _ _ Q) in H. destruct H as [w0 o0 H|w0 o0 H|w0 o0 ok0 H|w0 o0 H|w0 o0 H].
           ++ now apply RB.
           ++ now apply RC.
           ++ rewrite <- CP. now apply (RA xs' w0 o0 ok0).
           ++ apply RD. rewrite CI. destruct (o =? o0) eqn:E2; [apply N.eqb_eq in E2; subst o0; apply in_or_app; now left | exact H].
           ++ now apply (RS xs' w0 o0).
        -- apply RD. rewrite CI, N.eqb_refl. apply in_or_app. right. now left.
      * intros H. destruct H as [w0 o0 H|w0 o0 H|w0 o0 ok0 H|w0 o0 H|w0 o0 H].
        -- left. apply (f_open _ _ Q). now apply RB.
        -- left. apply (f_open _ _ Q). now apply RC.
        -- left. apply (f_open _ _ Q). rewrite CP. now apply (RA xs w0 o0 ok0).
        -- rewrite CI in H. destruct (N.eqb_spec o o0) as [E2|E2]; [subst o0|left; apply (f_open _ _ Q); now apply RD].
           apply in_app_or in H as [H|[<-|[]]]; [left; apply (f_open _ _ Q); now apply RD | right; now left].
        -- left. apply (f_open _ _ Q). now apply (RS xs w0 o0).
    + rewrite map_app. cbn [map mkw w_id]. apply NoDup_app_end; [exact (f_open_nd _ _ Q) | exact FrO].
    + exact HC.
    + intros w' H. apply HU in H. exact H.
    + exact (f_q _ _ Qu).
  - (* the first close: CLOSECIRCUIT is submitted *)
    assert (Ep : cpres xs o = false) by (unfold cpres; now rewrite Ef).
    set (okm := kmem fst (c_id c) (circuits (base xs))) in *.
    set (xs' := {| base := base xs; cls := cls xs; sls := sls xs; gcl := gcl xs; gsl := gsl xs; wbs := wbs xs; wcs := wcs xs;
                   cclosing := tset (cclosing xs) o []; sclosing := sclosing xs; cmds := cmds xs ++ [CmdC o w okm] |}) in *.
    destruct (hold_step xs _ xs' _ (l_used (s_l ss)) XB (f_hold_cnt _ _ Q) (f_hold_used _ _ Q)) as [HC HU].
    { cbn [req_id]. intros w' [<-|[]]. now apply memN_false. }
    exists xs', [NCmd 0 (c_id c)],
      {| s_l := lsc; s_open := s_open ss ++ [mkw w KClose true o false true]; s_cmdq := s_cmdq ss ++ [(w, okm)] |}.
    split; [exact XB|]. split.
    { rewrite J, cmds_ok_one. unfold okm. rewrite (r_cdict _ _ R). reflexivity. }
    assert (CP : forall o', cpres xs' o' = (o =? o') || cpres xs o').
    { intros o'. unfold cpres. cbn [xs' cclosing]. rewrite tfind_tset. now destruct (o =? o'). }
    assert (CI : forall o', citems xs' o' = citems xs o').
    { intros o'. rewrite (citems_tset xs' xs o _ o' eq_refl). destruct (N.eqb_spec o o') as [E2|E2]; [subst o'|reflexivity].
      unfold citems. rewrite (tfind_tget []), Ef. reflexivity. }
    assert (NoCmd : forall w0 ok0, ~ In (CmdC o w0 ok0) (cmds xs)).
    { intros w0 ok0 Hc. destruct (f_cmd_gone _ _ Q o w0 ok0 Hc) as [F|F]; [congruence|]. fold al in F. congruence. }
    apply (relf_frame _ xs _ xs' Qu); try reflexivity; cbn [s_l s_open s_cmdq xs' cmds lsc use_w use_q l_used l_cdict l_nc].
    + rewrite map_app, (f_cmdq _ _ Q). reflexivity.
    + rewrite map_app. cbn [map cmd_w cmd_pair fst]. apply NoDup_app_end; [exact (f_cmd_nd _ _ Q)|].
      intros Hi. apply in_map_iff in Hi as [c0 [E0 H0]]. now apply (FrC c0 H0).
    + intros c0 Hc. apply in_app_or in Hc as [Hc|[<-|[]]]; [right; now apply (f_cmd_used _ _ Q) | now left].
    + intros o' w' ok' Hc. rewrite CP. apply in_app_or in Hc as [Hc|[[= <- <- <-]|[]]].
      * destruct (f_cmd_gone _ _ Q o' w' ok' Hc) as [F|F]; [left; rewrite F; apply orb_true_r | now right].
      * left. now rewrite N.eqb_refl.
    + intros o' w' ok' Hc. apply in_app_or in Hc as [Hc|[[= <- <- <-]|[]]]; [exact (f_cmd_ex _ _ Q o' w' ok' Hc) | exact Hlt].
    + intros wr. rewrite in_app_iff. cbn [In].
      assert (HS : forall w0, has_cmds xs' w0 = has_cmds xs w0).
      { intros w0. unfold has_cmds. cbn [xs' cmds]. rewrite existsb_app. cbn [existsb]. now rewrite !orb_false_r. }
      split.
      * intros [H|[<-|[]]].
        -- apply (f_open _ _ Q) in H. destruct H as [w0 o0 H|w0 o0 H|w0 o0 ok0 H|w0 o0 H|w0 o0 H].
           ++ now apply RB.
           ++ now apply RC.
           ++ assert (E2 : o =? o0 = false) by (apply N.eqb_neq; intros ->; exact (NoCmd _ _ H)).
              replace (cpres xs o0) with (cpres xs' o0) by (now rewrite CP, E2).
              apply (RA xs' w0 o0 ok0). apply in_or_app. now left.
           ++ apply RD. now rewrite CI.
           ++ rewrite <- HS. now apply (RS xs' w0 o0).
        -- replace false with (negb (cpres xs' o)) by (now rewrite CP, N.eqb_refl).
           apply (RA xs' w o okm). apply in_or_app. right. now left.
      * intros H. destruct H as [w0 o0 H|w0 o0 H|w0 o0 ok0 H|w0 o0 H|w0 o0 H].
        -- left. apply (f_open _ _ Q). now apply RB.
        -- left. apply (f_open _ _ Q). now apply RC.
        -- apply in_app_or in H as [H|[[= <- <- <-]|[]]].
           ++ left. apply (f_open _ _ Q).
              assert (E2 : o =? o0 = false) by (apply N.eqb_neq; intros ->; exact (NoCmd _ _ H)).
              rewrite CP, E2. cbn [orb]. now apply (RA xs w0 o0 ok0).
           ++ right. left. now rewrite CP, N.eqb_refl.
        -- left. apply (f_open _ _ Q). apply RD. now rewrite <- CI.
        -- left. apply (f_open _ _ Q). rewrite HS. now apply (RS xs w0 o0).
    + rewrite map_app. cbn [map mkw w_id]. apply NoDup_app_end; [exact (f_open_nd _ _ Q) | exact FrO].
    + exact HC.
    + intros w' H. apply HU in H. exact H.
    + apply (qinv_push_close _ _ _ _ (f_q _ _ Q)); [reflexivity | exact Hnb].
Qed.

Lemma relf_sclose ss xs o w ls' : RelF ss xs -> lstep (s_l ss) (OSClose o w) = Some ls' ->
  exists xs' es ss', x_op xs (OSClose o w) = Some (xs', es) /\ spec_op ss (OSClose o w) es = Some ss' /\ RelF ss' xs'.
Proof.
  intros Q L. pose proof L as L0. cbn [lstep] in L; unfold lstep_ev in L.
  destruct (N.ltb_spec o (l_ns (s_l ss))) as [Hlt|]; cbn [andb] in L; [|discriminate].
  destruct (memN w (l_used (s_l ss))) eqn:Hfr; cbn [negb andb] in L; [discriminate|].
  destruct (l_nb (s_l ss) =? 0) eqn:Hnb; [|discriminate]. apply N.eqb_eq in Hnb. injection L as <-.
  set (lsc := use_q (s_l ss) w (l_nb (s_l ss)) (l_ncl (s_l ss) + 1)) in *.
  pose proof (f_rel _ _ Q) as R.
  destruct (get_s o (base xs)) as [x|] eqn:G; [|exfalso; now apply (r_sex _ _ R o Hlt)].
  destruct (f_sinfo _ _ Q o x G) as [J I2].
  destruct (fresh_facts ss xs w Q Hfr) as [FrR [FrC [FrH FrO]]].
  pose proof (relf_used_close ss xs w Q Hnb) as Qu. fold lsc in Qu.
  unfold spec_op. rewrite L0. unfold spec_request.
  cbn [s_l]. set (info := tget (info0 0) (l_sinfo (s_l ss)) o) in *. set (al := alive (l_sdict (s_l ss)) o) in *.
  assert (Now : term_s x -> exists xs' es ss', x_op xs (OSClose o w) = Some (xs', es) /\
                  (let '(ok, open', cmdq') :=
                     (no_notifs es && done_ok (if negb al && negb (has_cmd es) then [(w, WantOk)] else [])
                                              (if negb al && has_cmd es then [(w, WantAny)] else []) es
                      && cmds_ok 1 (oi_id info) es && negb (raised es),
                      if memN w (map fst (dones es)) then s_open ss
                      else s_open ss ++ [{| w_id := w; w_kind := KClose; w_circ := false; w_obj := o; w_gone_seen := negb al; w_pending_cmd := has_cmd es |}],
                      if has_cmd es then s_cmdq ss ++ [(w, kmem fst (oi_id info) (l_sdict (s_l ss)))] else s_cmdq ss) in
                   if ok then Some {| s_l := lsc; s_open := open'; s_cmdq := cmdq' |} else None) = Some ss' /\ RelF ss' xs').
  { intros T. assert (Ha : al = false) by (now apply I2).
    exists xs, [NDone w (WOkS o)], {| s_l := lsc; s_open := s_open ss; s_cmdq := s_cmdq ss |}.
    split; [cbn [x_op]; rewrite G; destruct T as [-> | ->]; reflexivity|]. split; [|exact Qu].
    rewrite Ha. cbn [has_cmd existsb negb andb orb]. rewrite done_ok_single.
    cbn [res_ok no_notifs circ_listeners_called stream_listeners_called map concat raised existsb negb andb orb dones fst memN app cmds_ok].
    now rewrite N.eqb_refl. }
  assert (Live : ~ term_s x -> al = true).
  { intros NT. destruct al eqn:Ea; [reflexivity|]. exfalso. apply NT. now apply I2. }
  assert (Dec : term_s x \/ ~ term_s x).
  { unfold term_s. destruct (s_state x) as [[]|]; auto; right; intros [H|H]; discriminate. }
  destruct Dec as [T|NT]; [now apply Now|].
  assert (Ha : al = true) by (now apply Live). rewrite Ha. cbn [negb andb].
  assert (XB : x_op xs (OSClose o w) =
               match tfind (sclosing xs) o with
               | Some items =>
                   Some ({| base := base xs; cls := cls xs; sls := sls xs; gcl := gcl xs; gsl := gsl xs; wbs := wbs xs; wcs := wcs xs;
                            cclosing := cclosing xs; sclosing := tset (sclosing xs) o (items ++ [CbWaiter w]); cmds := cmds xs |}, [])
               | None =>
                   Some ({| base := base xs; cls := cls xs; sls := sls xs; gcl := gcl xs; gsl := gsl xs; wbs := wbs xs; wcs := wcs xs;
                            cclosing := cclosing xs; sclosing := tset (sclosing xs) o [CbWaiter w];
                            cmds := cmds xs ++ [CmdS o w (kmem fst (s_id x) (streams (base xs)))] |}, [NCmd 1 (s_id x)])
               end).
  { cbn [x_op]. rewrite G. destruct (s_state x) as [[]|] eqn:Ec; try reflexivity; exfalso; apply NT; unfold term_s; rewrite Ec; auto. }
  destruct (tfind (sclosing xs) o) as [items|] eqn:Ef.
  - set (xs' := {| base := base xs; cls := cls xs; sls := sls xs; gcl := gcl xs; gsl := gsl xs; wbs := wbs xs; wcs := wcs xs;
                   cclosing := cclosing xs; sclosing := tset (sclosing xs) o (items ++ [CbWaiter w]); cmds := cmds xs |}) in *.
    destruct (hold_step xs _ xs' [] (l_used (s_l ss)) XB (f_hold_cnt _ _ Q) (f_hold_used _ _ Q)) as [HC HU].
    { cbn [req_id]. intros w' [<-|[]]. now apply memN_false. }
    exists xs', [], {| s_l := lsc; s_open := s_open ss ++ [mkw w KClose false o false false]; s_cmdq := s_cmdq ss |}.
    split; [exact XB|]. split; [reflexivity|].
    assert (SI : forall o', sitems xs' o' = if o =? o' then sitems xs o ++ [w] else sitems xs o').
    { intros o'. rewrite (sitems_tset xs' xs o _ o' eq_refl), items_holders_app.
      assert (Ei : sitems xs o = items_holders items) by (unfold sitems; now rewrite (tget_of_tfind [] _ _ _ Ef)).
      rewrite Ei. reflexivity. }
    apply (relf_frame _ xs _ xs' Qu); try reflexivity; cbn [s_l s_open s_cmdq xs' cmds].
    + exact (f_cmdq _ _ Q).
    + exact (f_cmd_nd _ _ Q).
    + exact (f_cmd_used _ _ Qu).
    + exact (f_cmd_gone _ _ Qu).
    + exact (f_cmd_ex _ _ Qu).
    + intros wr. rewrite in_app_iff. cbn [In]. split.
      * intros [H|[<-|[]]].
        -- apply (f_open _ _ Q) in H. destruct H as [w0 o0 H|w0 o0 H|w0 o0 ok0 H|w0 o0 H|w0 o0 H].
           ++ now apply RB.
           ++ now apply RC.
           ++ now apply (RA xs' w0 o0 ok0).
           ++ now apply RD.
           ++ apply (RS xs' w0 o0). rewrite SI. destruct (o =? o0) eqn:E2; [apply N.eqb_eq in E2; subst o0; apply in_or_app; now left | exact H].
        -- pose proof (RS xs' w o) as R0. change (has_cmds xs' w) with (has_cmds xs w) in R0. rewrite FrH in R0. apply R0.
           rewrite SI, N.eqb_refl. apply in_or_app. right. now left.
      * intros H. destruct H as [w0 o0 H|w0 o0 H|w0 o0 ok0 H|w0 o0 H|w0 o0 H].
        -- left. apply (f_open _ _ Q). now apply RB.
        -- left. apply (f_open _ _ Q). now apply RC.
        -- left. apply (f_open _ _ Q). now apply (RA xs w0 o0 ok0).
        -- left. apply (f_open _ _ Q). now apply RD.
        -- rewrite SI in H. destruct (N.eqb_spec o o0) as [E2|E2]; [subst o0|left; apply (f_open _ _ Q); now apply (RS xs w0 o0)].
           apply in_app_or in H as [H|[<-|[]]]; [left; apply (f_open _ _ Q); now apply (RS xs w0 o)|].
           right. left. change (has_cmds xs' w) with (has_cmds xs w). now rewrite FrH.
    + rewrite map_app. cbn [map mkw w_id]. apply NoDup_app_end; [exact (f_open_nd _ _ Q) | exact FrO].
    + exact HC.
    + intros w' H. apply HU in H. exact H.
    + exact (f_q _ _ Qu).
  - set (okm := kmem fst (s_id x) (streams (base xs))) in *.
    set (xs' := {| base := base xs; cls := cls xs; sls := sls xs; gcl := gcl xs; gsl := gsl xs; wbs := wbs xs; wcs := wcs xs;
                   cclosing := cclosing xs; sclosing := tset (sclosing xs) o [CbWaiter w]; cmds := cmds xs ++ [CmdS o w okm] |}) in *.
    destruct (hold_step xs _ xs' _ (l_used (s_l ss)) XB (f_hold_cnt _ _ Q) (f_hold_used _ _ Q)) as [HC HU].
    { cbn [req_id]. intros w' [<-|[]]. now apply memN_false. }
    exists xs', [NCmd 1 (s_id x)],
      {| s_l := lsc; s_open := s_open ss ++ [mkw w KClose false o false true]; s_cmdq := s_cmdq ss ++ [(w, okm)] |}.
    split; [exact XB|]. split.
    { rewrite J, cmds_ok_one. unfold okm. rewrite (r_sdict _ _ R). reflexivity. }
    assert (SI : forall o', sitems xs' o' = if o =? o' then sitems xs o ++ [w] else sitems xs o').
    { intros o'. rewrite (sitems_tset xs' xs o _ o' eq_refl).
      assert (Ei : sitems xs o = []) by (unfold sitems; now rewrite (tfind_tget []), Ef).
      rewrite Ei. reflexivity. }
    assert (HS : forall w0, has_cmds xs' w0 = has_cmds xs w0 || (w =? w0)).
    { intros w0. unfold has_cmds. cbn [xs' cmds]. rewrite existsb_app. cbn [existsb]. now rewrite orb_false_r. }
    apply (relf_frame _ xs _ xs' Qu); try reflexivity; cbn [s_l s_open s_cmdq xs' cmds lsc use_w use_q l_used l_cdict l_nc].
    + rewrite map_app, (f_cmdq _ _ Q). reflexivity.
    + rewrite map_app. cbn [map cmd_w cmd_pair fst]. apply NoDup_app_end; [exact (f_cmd_nd _ _ Q)|].
      intros Hi. apply in_map_iff in Hi as [c0 [E0 H0]]. now apply (FrC c0 H0).
    + intros c0 Hc. apply in_app_or in Hc as [Hc|[<-|[]]]; [right; now apply (f_cmd_used _ _ Q) | now left].
    + intros o' w' ok' Hc. apply in_app_or in Hc as [Hc|[Hc|[]]]; [|discriminate]. exact (f_cmd_gone _ _ Q o' w' ok' Hc).
    + intros o' w' ok' Hc. apply in_app_or in Hc as [Hc|[Hc|[]]]; [|discriminate]. exact (f_cmd_ex _ _ Q o' w' ok' Hc).
    + intros wr. rewrite in_app_iff. cbn [In]. split.
      * intros [H|[<-|[]]].
        -- apply (f_open _ _ Q) in H. destruct H as [w0 o0 H|w0 o0 H|w0 o0 ok0 H|w0 o0 H|w0 o0 H].
           ++ now apply RB.
           ++ now apply RC.
           ++ apply (RA xs' w0 o0 ok0). apply in_or_app. now left.
           ++ now apply RD.
           ++ assert (E : w =? w0 = false) by (apply N.eqb_neq; intros <-; exact (FrR _ (RS xs w o0 H) eq_refl)).
              replace (has_cmds xs w0) with (has_cmds xs' w0) by (now rewrite HS, E, orb_false_r).
              apply (RS xs' w0 o0). rewrite SI. destruct (o =? o0) eqn:E2; [apply N.eqb_eq in E2; subst o0; apply in_or_app; now left | exact H].
        -- pose proof (RS xs' w o) as R0. rewrite HS, N.eqb_refl, orb_true_r in R0. apply R0.
           rewrite SI, N.eqb_refl. apply in_or_app. right. now left.
      * intros H. destruct H as [w0 o0 H|w0 o0 H|w0 o0 ok0 H|w0 o0 H|w0 o0 H].
        -- left. apply (f_open _ _ Q). now apply RB.
        -- left. apply (f_open _ _ Q). now apply RC.
        -- apply in_app_or in H as [H|[H|[]]]; [|discriminate]. left. apply (f_open _ _ Q). now apply (RA xs w0 o0 ok0).
        -- left. apply (f_open _ _ Q). now apply RD.
        -- rewrite SI in H.
           assert (Old : In w0 (sitems xs o0) -> In (mkw w0 KClose false o0 false (has_cmds xs' w0)) (s_open ss)).
           { intros H1. assert (E : w =? w0 = false) by (apply N.eqb_neq; intros <-; exact (FrR _ (RS xs w o0 H1) eq_refl)).
             rewrite HS, E, orb_false_r. apply (f_open _ _ Q). now apply (RS xs w0 o0). }
           destruct (N.eqb_spec o o0) as [E2|E2]; [subst o0|left; now apply Old].
           apply in_app_or in H as [H|[<-|[]]]; [left; now apply Old|].
           right. left. now rewrite HS, N.eqb_refl, orb_true_r.
    + rewrite map_app. cbn [map mkw w_id]. apply NoDup_app_end; [exact (f_open_nd _ _ Q) | exact FrO].
    + exact HC.
    + intros w' H. apply HU in H. exact H.
    + apply (qinv_push_close _ _ _ _ (f_q _ _ Q)); [reflexivity | exact Hnb].
Qed.

(* ---------------------------------------------------------------- the tables of _closing_deferred have one entry per object *)
Lemma in_keys_kset {A} (key : A -> N) x l k : In k (map key (kset key x l)) -> k = key x \/ In k (map key l).
Proof.
  induction l as [|y t IH]; cbn [kset map]; [intros [<-|[]]; now left|].
  destruct (N.eqb_spec (key y) (key x)) as [E|E]; cbn [map].
  - intros [<-|H]; [now left | right; now right].
  - intros [<-|H]; [right; now left|]. destruct (IH H); [now left | right; now right].
Qed.
Lemma kset_keys_NoDup {A} (key : A -> N) x l : NoDup (map key l) -> NoDup (map key (kset key x l)).
Proof.
  induction l as [|y t IH]; cbn [kset map]; intros H; [constructor; [intros [] | constructor]|].
  inversion H as [|? ? Hn Hd]; subst.
  destruct (N.eqb_spec (key y) (key x)) as [E|E]; cbn [map].
  - rewrite <- E. now constructor.
  - constructor; [|now apply IH]. intros Hi. destruct (in_keys_kset key x t _ Hi); [congruence | contradiction].
Qed.
Lemma tset_keys_NoDup {V} (t : list (N * V)) k v : NoDup (map fst t) -> NoDup (map fst (tset t k v)).
Proof. apply kset_keys_NoDup. Qed.
Lemma tdel_keys_NoDup {V} (t : list (N * V)) k : NoDup (map fst t) -> NoDup (map fst (tdel t k)).
Proof. unfold tdel. apply kdel_NoDup_map. Qed.

Definition KN (xs : xstate) : Prop := NoDup (map fst (cclosing xs)) /\ NoDup (map fst (sclosing xs)).

Lemma keys_step xs o xs' es : x_op xs o = Some (xs', es) -> KN xs -> KN xs'.
Proof.
  unfold KN. intros X [A B].
  destruct o as [e|l|l|o1 l|o1 l|o1 l|o1 l|o1 wt|o1 wt|o1 wt|o1 wt| |rs wt|id|]; cbn [x_op] in X.
  - destruct e as [id st path kw|id st cid host port kw].
    + destruct (x_circ_tables _ _ _ _ _ _ _ X) as [E1 [E2 E3]]. rewrite E1, E3. split; [|exact B].
      destruct (c_terminal st); [now apply tdel_keys_NoDup | exact A].
    + destruct (x_stream_tables _ _ _ _ _ _ _ _ _ X) as [E1 [E2 E3]]. rewrite E1, E3. split; [exact A|].
      destruct (s_terminal st); [now apply tdel_keys_NoDup | exact B].
  - injection X as <- <-. now split.
  - injection X as <- <-. now split.
  - destruct (get_c o1 (base xs)); [|discriminate]. injection X as <- <-. now split.
  - destruct (get_c o1 (base xs)); [|discriminate]. destruct (memN l (tget [] (cls xs) o1)); [|discriminate]. injection X as <- <-. now split.
  - destruct (get_s o1 (base xs)); [|discriminate]. injection X as <- <-. now split.
  - destruct (get_s o1 (base xs)); [|discriminate]. destruct (memN l (tget [] (sls xs) o1)); [|discriminate]. injection X as <- <-. now split.
  - destruct (get_c o1 (base xs)) as [c|]; [|discriminate].
    destruct (c_state c) as [[]|]; try (injection X as <- <-; now split);
      destruct (tget (OSPending []) (wbs xs) o1); injection X as <- <-; now split.
  - destruct (get_c o1 (base xs)) as [c|]; [|discriminate].
    destruct (c_state c) as [[]|]; try (injection X as <- <-; now split);
      destruct (tget (OSPending []) (wcs xs) o1); injection X as <- <-; now split.
  - destruct (get_c o1 (base xs)) as [c|]; [|discriminate].
    destruct (c_state c) as [[]|]; try (injection X as <- <-; now split);
      destruct (tfind (cclosing xs) o1); injection X as <- <-; cbn [cclosing sclosing]; (split; [now apply tset_keys_NoDup | exact B]).
  - destruct (get_s o1 (base xs)) as [x|]; [|discriminate].
    destruct (s_state x) as [[]|]; try (injection X as <- <-; now split);
      destruct (tfind (sclosing xs) o1); injection X as <- <-; cbn [cclosing sclosing]; (split; [exact A | now apply tset_keys_NoDup]).
  - destruct (cmds xs) as [|[o1 w ok|o1 w ok|w] q]; [injection X as <- <-; now split| | |discriminate].
    + destruct ok; [destruct (tfind (cclosing xs) o1)|]; injection X as <- <-; cbn [cclosing sclosing];
        (split; [try exact A; now apply tset_keys_NoDup | exact B]).
    + injection X as <- <-. cbn [cclosing sclosing]. split; [exact A|].
      destruct ok; [|exact B]. destruct (tfind (sclosing xs) o1); [now apply tset_keys_NoDup | exact B].
  - injection X as <- <-. now split.
  - destruct (cmds xs) as [|[o1 w ok|o1 w ok|w] q]; try discriminate.
    destruct (x_circ xs id CExtended [] []) as [[s1 es1]|] eqn:X1; [|discriminate]. injection X as <- <-.
    destruct (x_circ_tables _ _ _ _ _ _ _ X1) as [E1 [E2 E3]]. cbn [cclosing sclosing c_terminal] in *. rewrite E1, E3. now split.
  - destruct (cmds xs) as [|[o1 w ok|o1 w ok|w] q]; try discriminate. injection X as <- <-. now split.
Qed.

Lemma tfind_tdel_self {V} (t : list (N * V)) k : NoDup (map fst t) -> tfind (tdel t k) k = None.
Proof. intros H. unfold tfind, tdel. now rewrite kfind_kdel_same. Qed.
Lemma tget_tdel_self {V} (d : V) (t : list (N * V)) k : NoDup (map fst t) -> tget d (tdel t k) k = d.
Proof. intros H. unfold tget, tdel. now rewrite kfind_kdel_same. Qed.

(* ---------------------------------------------------------------- a STREAM event *)
Lemma done_ok_quiet may es : dones es = [] -> done_ok [] may es = true.
Proof. intros H. unfold done_ok. now rewrite H. Qed.

Lemma relf_stream ss xs id st cid host port kw ls' :
  RelF ss xs -> KN xs -> lstep (s_l ss) (OEv (EStream id st cid host port kw)) = Some ls' ->
  exists xs' es ss', x_op xs (OEv (EStream id st cid host port kw)) = Some (xs', es) /\
                     spec_op ss (OEv (EStream id st cid host port kw)) es = Some ss' /\ RelF ss' xs'.
Proof.
  intros Q [KC KS] L. pose proof (f_rel _ _ Q) as R. pose proof (r_wf _ _ R) as W.
  pose proof (f_hold_cnt _ _ Q) as Cnt.
  destruct (rel_stream _ xs id st cid host port kw ls' R L) as [xs' [es [X [R' Nk]]]].
  destruct (x_stream_waits_g _ _ _ _ _ _ _ _ _ X) as [F4 [F5 Dn]].
  destruct (x_stream_tables _ _ _ _ _ _ _ _ _ X) as [F2 [F3 F1]].
  destruct (x_stream_told _ _ _ _ _ _ _ _ _ X) as [Eb [T _]]. destruct (told_s_plain _ _ _ T) as [Hc Hr].
  set (o := xs_obj xs id) in *.
  assert (Eloc : locate id (l_sdict (s_l ss)) (l_ns (s_l ss)) = (xs_first xs id, o)).
  { unfold locate, xs_first, o, xs_obj. rewrite <- (r_sdict _ _ R), <- (r_ns _ _ R).
    destruct (kfind fst id (streams (base xs))); reflexivity. }
  assert (Hds : map fst (dones es) = if s_terminal st then sitems xs o else []).
  { rewrite Dn. destruct (s_terminal st); [apply sl_out_ids | reflexivity]. }
  set (mine := filter (fun w => negb (w_circ w) && (w_obj w =? o)) (s_open ss)).
  assert (MineIn : forall wr, In wr mine <-> exists w0, wr = mkw w0 KClose false o false (has_cmds xs w0) /\ In w0 (sitems xs o)).
  { intros wr. unfold mine. rewrite filter_In, (f_open _ _ Q). split.
    - intros [H Hf]. destruct H as [w0 o0 H|w0 o0 H|w0 o0 ok0 H|w0 o0 H|w0 o0 H]; cbn [mkw w_circ w_obj negb andb] in Hf; try discriminate.
      apply N.eqb_eq in Hf. subst o0. exists w0. auto.
    - intros [w0 [-> H]]. split; [now apply RS|]. cbn [mkw w_circ w_obj negb andb]. apply N.eqb_refl. }
  assert (DK : done_ok (concat (map (fun w => if s_terminal st && negb (w_pending_cmd w) then [(w_id w, WantOk)] else []) mine))
                       (concat (map (fun w => if s_terminal st && w_pending_cmd w then [(w_id w, WantOk)] else []) mine)) es = true).
  { destruct (s_terminal st) eqn:Tm; cbn [andb].
    - assert (AllOk : forall w x', In (w, x') (concat (map (fun w => if negb (w_pending_cmd w) then [(w_id w, WantOk)] else []) mine) ++
                                               concat (map (fun w => if w_pending_cmd w then [(w_id w, WantOk)] else []) mine)) ->
                                   x' = WantOk /\ In w (sitems xs o)).
      { intros w x' H. apply in_app_or in H as [H|H]; apply in_concat_map in H as [wr [Hm Hy]]; apply MineIn in Hm as [w0 [-> Hw0]];
          cbn [mkw w_pending_cmd w_id] in Hy; destruct (has_cmds xs w0); cbn [negb] in Hy; try destruct Hy as [[= <- <-]|[]]; try destruct Hy; auto. }
      apply done_ok_intro.
      + rewrite Hds. apply (slot_nodup xs Cnt (SlSC o)).
      + intros w r Hin. exists WantOk.
        assert (Hw : In w (sitems xs o)) by (rewrite <- Hds; change w with (fst (w, r)); now apply in_map).
        split; [|split].
        * apply in_or_app. destruct (has_cmds xs w) eqn:Ep; [right | left]; apply in_concat_map;
            exists (mkw w KClose false o false (has_cmds xs w)); (split; [apply MineIn; eauto|]);
            cbn [mkw w_pending_cmd w_id]; rewrite Ep; now left.
        * rewrite Dn in Hin. eapply sl_out_res; eauto.
        * intros x' Hx'. now destruct (AllOk w x' Hx').
      + intros w x Hin. rewrite Hds. apply (AllOk w x). apply in_or_app. now left.
    - rewrite (concat_map_nil (fun _ : wait => @nil (N * want))) by reflexivity. apply done_ok_quiet. rewrite Dn. reflexivity. }
  set (open' := if s_terminal st then mark_gone false o (dones es) (s_open ss) else drop_done (dones es) (s_open ss)).
  exists xs', es, {| s_l := ls'; s_open := open'; s_cmdq := s_cmdq ss |}.
  split; [exact X|]. split.
  - unfold spec_op. rewrite L. unfold spec_event. cbn [s_l]. rewrite Eloc. fold mine. rewrite Nk, DK, Hc, Hr. reflexivity.
  - cbn [lstep] in L; unfold lstep_ev in L. destruct (negb (ev_legal (l_tv (s_l ss)) (EStream id st cid host port kw))); [discriminate|].
    rewrite Eloc in L. injection L as <-.
    destruct (stream_event_shape (base xs) id st cid host port kw (base xs') W Eb) as [[Sc1 [Sc2 Sc3]] [Sh2 [Sh3 [[x' [Gx' Ix']] Sh6]]]].
    destruct (stream_event_state (base xs) id st cid host port kw (base xs') W Eb) as [x2 [Gx2 Sx2]].
    change (get_s o (base xs') = Some x') in Gx'. change (get_s o (base xs') = Some x2) in Gx2.
    change (forall o', o' <> o -> get_s o' (base xs') = get_s o' (base xs)) in Sh6.
    rewrite Gx' in Gx2. injection Gx2 as <-.
    set (d1 := if xs_first xs id then l_sdict (s_l ss) ++ [(id, o)] else l_sdict (s_l ss)) in *.
    assert (Hin1 : In (id, o) d1 /\ NoDup (map fst d1) /\ NoDup (map snd d1)).
    { unfold d1, o, xs_obj, xs_first. rewrite <- (r_sdict _ _ R).
      destruct (kfind fst id (streams (base xs))) as [p|] eqn:Fk.
      - destruct (kfind_Some fst _ _ _ Fk) as [Ep Hp]. destruct p as [a b]. cbn [fst snd] in *. subst a.
        split; [exact Hp|]. split; [exact (wf_sids _ W) | exact (wf_soids _ W)].
      - split; [apply in_or_app; right; now left|]. split.
        + rewrite map_app. cbn [map fst]. apply NoDup_app_end; [exact (wf_sids _ W) | now apply kfind_None].
        + rewrite map_app. cbn [map snd]. apply NoDup_app_end; [exact (wf_soids _ W)|].
          intros Hi. apply in_map_iff in Hi as [p [Ep Hp]]. destruct (wf_slive _ W p Hp) as [x0 [G0 _]].
          pose proof (get_s_bound _ _ _ W G0). lia. }
    destruct Hin1 as [Hin1 [Nf1 Ns1]].
    assert (Al' : alive (if s_terminal st then kdel fst id d1 else d1) o = negb (s_terminal st)).
    { destruct (s_terminal st); cbn [negb]; [now apply alive_kdel_self | now apply (alive_In d1 id o)]. }
    assert (AlO : forall o', o' <> o -> alive (if s_terminal st then kdel fst id d1 else d1) o' = alive (l_sdict (s_l ss)) o').
    { intros o' Hne. assert (A1 : alive d1 o' = alive (l_sdict (s_l ss)) o').
      { unfold d1. destruct (xs_first xs id); [|reflexivity]. rewrite alive_app. apply N.eqb_neq in Hne. now rewrite Hne, orb_false_r. }
      destruct (s_terminal st); [|exact A1]. now rewrite (alive_kdel_other d1 id o o' Nf1 Hin1 Hne). }
    destruct (hold_step xs (OEv (EStream id st cid host port kw)) xs' es (l_used (s_l ss)) X Cnt (f_hold_used _ _ Q))
      as [HC HU]; [intros w []|].
    assert (SI : forall o', sitems xs' o' = if s_terminal st && (o =? o') then [] else sitems xs o').
    { intros o'. unfold sitems. rewrite F1. destruct (s_terminal st); cbn [andb]; [|reflexivity].
      destruct (N.eqb_spec o o') as [E|E]; [subst o'; now rewrite tget_tdel_self | now rewrite tget_tdel_other]. }
    assert (HS : forall w0, has_cmds xs' w0 = has_cmds xs w0) by (intros w0; unfold has_cmds; now rewrite F3).
    assert (CP : forall o', cpres xs' o' = cpres xs o') by (intros o'; unfold cpres; now rewrite F2).
    constructor; cbn [s_l s_open s_cmdq l_nc l_cinfo l_cdict l_sdict l_sinfo l_used].
    + rewrite F3. exact (f_q _ _ Q).
    + exact R'.
    + rewrite F3. exact (f_cmdq _ _ Q).
    + rewrite F3. exact (f_cmd_nd _ _ Q).
    + rewrite F3. exact (f_cmd_used _ _ Q).
    + intros ob w ok. rewrite F3, CP. exact (f_cmd_gone _ _ Q ob w ok).
    + intros ob w ok. rewrite F3. exact (f_cmd_ex _ _ Q ob w ok).
    + intros o' c' G'. pose proof (Sc3 o') as S3. rewrite G' in S3. cbn [option_map] in S3.
      destruct (get_c o' (base xs)) as [c0|] eqn:G0; [|discriminate]. cbn [option_map] in S3. injection S3 as S3a S3b S3c.
      destruct (f_info _ _ Q o' c0 G0) as [[I1 [I2 [I3 I4]]] J]. split; [|now rewrite S3a].
      unfold info_ok. cbn [s_l l_cinfo l_cdict]. rewrite F4, F5, S3b. auto.
    + intros o' x0 G0. unfold sinfo_ok. cbn [s_l l_sinfo l_sdict]. rewrite tget_tset.
      destruct (N.eqb_spec o o') as [E|E].
      * subst o'. rewrite Gx' in G0. injection G0 as <-. cbn [info0 oi_id]. split; [now rewrite Ix'|].
        rewrite Al'. unfold term_s. rewrite Sx2. destruct st; cbn [s_terminal negb]; split; try discriminate; auto; intros [H|H]; discriminate.
      * rewrite (Sh6 o' (not_eq_sym E)) in G0. destruct (f_sinfo _ _ Q o' x0 G0) as [J I2].
        rewrite (AlO o' (not_eq_sym E)). split; [exact J | exact I2].
    + intros o' Ho. rewrite F4, F5. now apply (f_fresh _ _ Q).
    + (* the open waits *)
      assert (Keep : forall wr, rec_of xs wr -> ~ In (w_id wr) (map fst (dones es)) -> rec_of xs' wr).
      { intros wr H Hn. rewrite Hds in Hn. destruct H as [w0 o0 H|w0 o0 H|w0 o0 ok0 H|w0 o0 H|w0 o0 H]; cbn [mkw w_id] in Hn.
        - apply RB. now rewrite F4.
        - apply RC. now rewrite F5.
        - rewrite <- CP. apply (RA xs' w0 o0 ok0). now rewrite F3.
        - apply RD. unfold citems. now rewrite F2.
        - rewrite <- HS. apply RS. rewrite SI. destruct (s_terminal st); cbn [andb]; [|exact H].
          destruct (N.eqb_spec o o0) as [E|E]; [subst o0; contradiction | exact H]. }
      assert (Back : forall wr, rec_of xs' wr -> rec_of xs wr /\ ~ In (w_id wr) (map fst (dones es)) /\
                                                  (s_terminal st = true -> w_circ wr = false -> w_obj wr <> o)).
      { intros wr H. rewrite Hds.
        assert (NotDone : forall w0 sl, In w0 (slot_ids xs sl) -> sl <> SlSC o -> ~ In w0 (if s_terminal st then sitems xs o else [])).
        { intros w0 sl H1 Hne Hi. destruct (s_terminal st); [|destruct Hi]. apply Hne. exact (slot_unique xs Cnt w0 sl (SlSC o) H1 Hi). }
        destruct H as [w0 o0 H|w0 o0 H|w0 o0 ok0 H|w0 o0 H|w0 o0 H]; cbn [mkw w_id w_circ w_obj].
        - rewrite F4 in H. split; [now apply RB|]. split; [apply (NotDone w0 (SlB o0) H); discriminate | discriminate].
        - rewrite F5 in H. split; [now apply RC|]. split; [apply (NotDone w0 (SlC o0) H); discriminate | discriminate].
        - rewrite F3 in H. rewrite CP. split; [now apply (RA xs w0 o0 ok0)|].
          split; [apply (NotDone w0 SlCmd (in_cmd_slot xs o0 w0 ok0 H)); discriminate | discriminate].
        - unfold citems in H. rewrite F2 in H. split; [now apply RD|]. split; [apply (NotDone w0 (SlCC o0) H); discriminate | discriminate].
        - rewrite HS. rewrite SI in H. destruct (s_terminal st) eqn:Tm; cbn [andb] in H.
          + destruct (N.eqb_spec o o0) as [E|E]; [destruct H|]. split; [now apply RS|].
            split; [apply (NotDone w0 (SlSC o0) H); congruence | intros _ _; congruence].
          + split; [now apply RS|]. split; [intros [] | discriminate]. }
      intros wr. unfold open'. destruct (s_terminal st) eqn:Tm.
      * rewrite mark_gone_In. split.
        -- intros [w0 [H0 [H1 ->]]]. apply (f_open _ _ Q) in H0.
           assert (E : Bool.eqb (w_circ w0) false && (w_obj w0 =? o) = false).
           { destruct H0 as [w1 o1 H|w1 o1 H|w1 o1 ok1 H|w1 o1 H|w1 o1 H]; cbn [mkw w_circ w_obj Bool.eqb andb]; try reflexivity.
             apply N.eqb_neq. intros ->. apply H1. cbn [mkw w_id]. rewrite Hds. exact H. }
           rewrite E. now apply Keep.
        -- intros H. destruct (Back wr H) as [H1 [H2 H3]]. exists wr. split; [now apply (f_open _ _ Q)|]. split; [exact H2|].
           destruct (w_circ wr) eqn:Ew; cbn [Bool.eqb andb]; [reflexivity|].
           specialize (H3 eq_refl eq_refl). apply N.eqb_neq in H3. now rewrite H3.
      * rewrite drop_done_In. split.
        -- intros [H0 H1]. apply Keep; [now apply (f_open _ _ Q) | exact H1].
        -- intros H. destruct (Back wr H) as [H1 [H2 _]]. split; [now apply (f_open _ _ Q) | exact H2].
    + unfold open'. destruct (s_terminal st); [rewrite mark_gone_ids|]; apply drop_done_ids_nodup; exact (f_open_nd _ _ Q).
    + exact HC.
    + exact HU.
Qed.

(* ---------------------------------------------------------------- a CIRC event *)
Definition setg (x : wait) : wait := mkw (w_id x) (w_kind x) (w_circ x) (w_obj x) true (w_pending_cmd x).

Section CircF.
  Variables (ss : sstate) (xs : xstate) (o : N).
  Hypothesis Q : RelF ss xs.
  Let PB := pend (wbs xs) o.
  Let PC := pend (wcs xs) o.
  Let CI := citems xs o.
  Let Cnt := f_hold_cnt _ _ Q.

  Lemma mine_cF wr : In wr (filter (fun w => w_circ w && (w_obj w =? o)) (s_open ss)) <->
    (exists w, wr = mkw w KBuilt true o false false /\ In w PB) \/
    (exists w, wr = mkw w KClosed true o false false /\ In w PC) \/
    (exists w ok, wr = mkw w KClose true o (negb (cpres xs o)) true /\ In (CmdC o w ok) (cmds xs)) \/
    (exists w, wr = mkw w KClose true o false false /\ In w CI).
  Proof.
    rewrite filter_In, (f_open _ _ Q). split.
    - intros [H Hf]. destruct H as [w0 o0 H|w0 o0 H|w0 o0 ok0 H|w0 o0 H|w0 o0 H]; cbn [mkw w_circ w_obj andb] in Hf; try discriminate;
        apply N.eqb_eq in Hf; subst o0.
      + left. eauto.
      + right. left. eauto.
      + right. right. left. eauto.
      + right. right. right. eauto.
    - intros [[w [-> H]]|[[w [-> H]]|[[w [ok [-> H]]]|[w [-> H]]]]]; (split; [|cbn [mkw w_circ w_obj andb]; apply N.eqb_refl]).
      + now apply RB.
      + now apply RC.
      + now apply (RA xs w o ok).
      + now apply RD.
  Qed.

  Lemma must_cF st w x : In (w, x) (must_c st o (s_open ss)) <->
    (In w PB /\ ((st = CBuilt /\ x = WantOkC o) \/ (c_terminal st = true /\ x = WantFail))) \/
    (In w PC /\ c_terminal st = true /\ x = WantOkC o) \/
    (In w CI /\ c_terminal st = true /\ x = WantOk).
  Proof.
    unfold must_c. rewrite in_concat_map. split.
    - intros [wr [Hf Hin]]. apply mine_cF in Hf.
      destruct Hf as [[w0 [-> H]]|[[w0 [-> H]]|[[w0 [ok [-> H]]]|[w0 [-> H]]]]]; cbn [mkw w_kind w_id w_pending_cmd negb andb] in Hin.
      + left. destruct st; cbn [c_terminal] in Hin; try destruct Hin as [[= <- <-]|[]]; try destruct Hin; split; auto.
      + right. left. destruct st; cbn [c_terminal] in Hin; try destruct Hin as [[= <- <-]|[]]; try destruct Hin; split; auto.
      + rewrite andb_false_r in Hin. destruct Hin.
      + right. right. rewrite andb_true_r in Hin. destruct (c_terminal st); try destruct Hin as [[= <- <-]|[]]; try destruct Hin; auto.
    - intros [[Hp Hc]|[[Hp [Ht ->]]|[Hp [Ht ->]]]].
      + exists (mkw w KBuilt true o false false). split; [apply mine_cF; left; eauto|].
        cbn [mkw w_kind w_id]. destruct Hc as [[-> ->]|[Ht ->]]; [now left|]. destruct st; try discriminate Ht; now left.
      + exists (mkw w KClosed true o false false). split; [apply mine_cF; right; left; eauto|].
        cbn [mkw w_kind w_id]. rewrite Ht. now left.
      + exists (mkw w KClose true o false false). split; [apply mine_cF; right; right; right; eauto|].
        cbn [mkw w_kind w_id w_pending_cmd negb]. rewrite Ht. now left.
  Qed.

  Lemma may_cF st w x : In (w, x) (may_c st o (s_open ss)) -> x = WantOk /\ In w (slot_ids xs SlCmd).
  Proof.
    unfold may_c. rewrite in_concat_map. intros [wr [Hf Hin]]. apply mine_cF in Hf.
    destruct Hf as [[w0 [-> H]]|[[w0 [-> H]]|[[w0 [ok [-> H]]]|[w0 [-> H]]]]]; cbn [mkw w_kind w_id w_pending_cmd] in Hin;
      rewrite ?andb_false_r in Hin; try destruct Hin.
    rewrite andb_true_r in Hin. destruct (c_terminal st); [|destruct Hin]. destruct Hin as [[= <- <-]|[]].
    split; [reflexivity | eapply in_cmd_slot; eauto].
  Qed.

  Lemma circ_done_okF st es rfail :
    (match rfail with WFail _ _ _ => True | _ => False end) ->
    dones es = (if c_terminal st then dones (cl_out xs o) ++ map (fun w => (w, WOkC o)) PC ++ map (fun w => (w, rfail)) PB
                else match st with CBuilt => map (fun w => (w, WOkC o)) PB | _ => [] end) ->
    done_ok (must_c st o (s_open ss)) (may_c st o (s_open ss)) es = true.
  Proof.
    intros Hf Hd.
    assert (NB : NoDup PB) by (apply (slot_nodup xs Cnt (SlB o))).
    assert (NC : NoDup PC) by (apply (slot_nodup xs Cnt (SlC o))).
    assert (NI : NoDup CI) by (apply (slot_nodup xs Cnt (SlCC o))).
    assert (BC : forall w, In w PB -> In w PC -> False) by (intros w A B; discriminate (slot_unique xs Cnt w (SlB o) (SlC o) A B)).
    assert (BI : forall w, In w PB -> In w CI -> False) by (intros w A B; discriminate (slot_unique xs Cnt w (SlB o) (SlCC o) A B)).
    assert (CIx : forall w, In w PC -> In w CI -> False) by (intros w A B; discriminate (slot_unique xs Cnt w (SlC o) (SlCC o) A B)).
    assert (Uniq : forall w x x', In (w, x) (must_c st o (s_open ss)) ->
                     In (w, x') (must_c st o (s_open ss) ++ may_c st o (s_open ss)) -> x' = x).
    { intros w x x' A B. apply must_cF in A. apply in_app_or in B as [B|B].
      - apply must_cF in B.
        destruct A as [[A1 A2]|[[A1 [A2 ->]]|[A1 [A2 ->]]]]; destruct B as [[B1 B2]|[[B1 [B2 ->]]|[B1 [B2 ->]]]];
          try reflexivity; try (exfalso; eauto; fail).
        destruct A2 as [[-> ->]|[T ->]]; destruct B2 as [[E ->]|[T' ->]]; try reflexivity; try discriminate.
        subst st. discriminate T.
      - apply may_cF in B as [-> B]. exfalso.
        destruct A as [[A1 _]|[[A1 _]|[A1 _]]].
        + discriminate (slot_unique xs Cnt w (SlB o) SlCmd A1 B).
        + discriminate (slot_unique xs Cnt w (SlC o) SlCmd A1 B).
        + discriminate (slot_unique xs Cnt w (SlCC o) SlCmd A1 B). }
    apply done_ok_intro.
    - rewrite Hd. destruct (c_terminal st).
      + rewrite !map_app, !map_fst_pairs, cl_out_ids. fold CI.
        apply NoDup_app_intro; [exact NI | apply NoDup_app_intro; auto; intros w A B; eapply BC; eauto|].
        intros w A B. apply in_app_or in A as [A|A]; eauto.
      + destruct st; try constructor. now rewrite map_fst_pairs.
    - intros w r Hin. rewrite Hd in Hin. destruct (c_terminal st) eqn:T.
      + apply in_app_or in Hin as [Hin|Hin]; [|apply in_app_or in Hin as [Hin|Hin]].
        * assert (Hw : In w CI) by (unfold CI; rewrite <- cl_out_ids; change w with (fst (w, r)); now apply in_map).
          exists WantOk. split; [apply in_or_app; left; apply must_cF; right; right; auto|].
          split; [eapply cl_out_res; eauto|]. intros x' Hx'. eapply Uniq; [apply must_cF; right; right; eauto | exact Hx'].
        * apply in_map_iff in Hin as [w0 [[= <- <-] Hw]].
          exists (WantOkC o). split; [apply in_or_app; left; apply must_cF; right; left; auto|]. split; [cbn; apply N.eqb_refl|].
          intros x' Hx'. eapply Uniq; [apply must_cF; right; left; eauto | exact Hx'].
        * apply in_map_iff in Hin as [w0 [[= <- <-] Hw]].
          exists WantFail. split; [apply in_or_app; left; apply must_cF; left; auto|]. split; [destruct rfail; try contradiction; reflexivity|].
          intros x' Hx'. eapply Uniq; [apply must_cF; left; eauto | exact Hx'].
      + destruct st; try destruct Hin; try discriminate T.
        apply in_map_iff in Hin as [w0 [[= <- <-] Hw]].
        exists (WantOkC o). split; [apply in_or_app; left; apply must_cF; left; auto|]. split; [cbn; apply N.eqb_refl|].
        intros x' Hx'. eapply Uniq; [apply must_cF; left; eauto | exact Hx'].
    - intros w x Hin. apply must_cF in Hin. rewrite Hd.
      destruct Hin as [[Hp [[-> ->]|[T ->]]]|[[Hp [T ->]]|[Hp [T ->]]]].
      + cbn [c_terminal]. now rewrite map_fst_pairs.
      + rewrite T, !map_app, !map_fst_pairs. apply in_or_app. right. apply in_or_app. now right.
      + rewrite T, !map_app, !map_fst_pairs. apply in_or_app. right. apply in_or_app. now left.
      + rewrite T, !map_app, !map_fst_pairs, cl_out_ids. apply in_or_app. now left.
  Qed.
End CircF.

Lemma relf_circ ss xs id st path kw ls' :
  RelF ss xs -> KN xs -> lstep (s_l ss) (OEv (ECirc id st path kw)) = Some ls' ->
  exists xs' es ss', x_op xs (OEv (ECirc id st path kw)) = Some (xs', es) /\
                     spec_op ss (OEv (ECirc id st path kw)) es = Some ss' /\ RelF ss' xs'.
Proof.
  intros Q [KC KS] L. pose proof (f_rel _ _ Q) as R. pose proof (r_wf _ _ R) as W. pose proof (f_hold_cnt _ _ Q) as Cnt.
  destruct (rel_circ _ xs id st path kw ls' R L) as [xs' [es [X [R' Nk]]]].
  pose proof (x_circ_waits_g _ _ _ _ _ _ _ X) as Wst. cbv zeta in Wst.
  destruct (x_circ_tables _ _ _ _ _ _ _ X) as [F2 [F3 F1]].
  destruct (x_circ_told _ _ _ _ _ _ _ X) as [Eb [T _]]. destruct (told_c_plain _ _ _ T) as [Hc Hr].
  set (o := xc_obj xs id) in *.
  assert (Eloc : locate id (l_cdict (s_l ss)) (l_nc (s_l ss)) = (xc_first xs id, o)).
  { unfold locate, xc_first, o, xc_obj. rewrite <- (r_cdict _ _ R), <- (r_nc _ _ R).
    destruct (kfind fst id (circuits (base xs))); reflexivity. }
  assert (Tabs : exists rfail, match rfail with WFail _ _ _ => True | _ => False end /\
     (forall o', tget P0 (wbs xs') o' =
                 if o =? o' then match tget P0 (wbs xs) o with
                                 | OSPending ws => if c_terminal st then OSFired rfail else if is_built st then OSFired (WOkC o) else OSPending ws
                                 | f => f end
                 else tget P0 (wbs xs) o') /\
     (forall o', tget P0 (wcs xs') o' =
                 if o =? o' then match tget P0 (wcs xs) o with
                                 | OSPending ws => if c_terminal st then OSFired (WOkC o) else OSPending ws
                                 | f => f end
                 else tget P0 (wcs xs) o') /\
     dones es = (if c_terminal st then dones (cl_out xs o) ++ map (fun w => (w, WOkC o)) (pend (wcs xs) o) ++ map (fun w => (w, rfail)) (pend (wbs xs) o)
                 else match st with CBuilt => map (fun w => (w, WOkC o)) (pend (wbs xs) o) | _ => [] end)).
  { unfold pend.
    assert (Same : forall t, forall o', tget P0 t o' = if o =? o' then match tget P0 t o with OSPending ws => OSPending ws | f => f end else tget P0 t o').
    { intros t o'. destruct (N.eqb_spec o o') as [<-|]; [|reflexivity]. destruct (tget P0 t o); reflexivity. }
    destruct st; cbn [c_terminal is_built] in *.
    - destruct Wst as [A [B C]]. exists (WFail 0 0 0). split; [exact I|]. rewrite A, B. split; [apply Same|]. split; [apply Same | exact C].
    - destruct Wst as [A [B C]]. exists (WFail 0 0 0). split; [exact I|]. rewrite A. split; [|split; [apply Same|]].
      + intros o'. rewrite B. destruct (o =? o'); [|reflexivity]. destruct (tget P0 (wbs xs) o); reflexivity.
      + rewrite C. destruct (tget P0 (wbs xs) o); reflexivity.
    - destruct Wst as [A [B C]]. exists (WFail 0 0 0). split; [exact I|]. rewrite A, B. split; [apply Same|]. split; [apply Same | exact C].
    - destruct Wst as [A [B C]]. exists (WFail 0 0 0). split; [exact I|]. rewrite A, B. split; [apply Same|]. split; [apply Same | exact C].
    - destruct Wst as [cl [r1 [r2 [A [B C]]]]]. exists (WFail cl r1 r2). split; [exact I|]. split; [exact B|]. split; [exact A|].
      rewrite C. destruct (tget P0 (wcs xs) o); destruct (tget P0 (wbs xs) o); reflexivity.
    - destruct Wst as [cl [r1 [r2 [A [B C]]]]]. exists (WFail cl r1 r2). split; [exact I|]. split; [exact B|]. split; [exact A|].
      rewrite C. destruct (tget P0 (wcs xs) o); destruct (tget P0 (wbs xs) o); reflexivity. }
  destruct Tabs as [rfail [Hrf [TB [TC Hd]]]].
  assert (PBt : forall o', pend (wbs xs') o' = if (is_built st || c_terminal st) && (o =? o') then [] else pend (wbs xs) o').
  { intros o'. unfold pend. rewrite TB. destruct (N.eqb_spec o o') as [<-|]; [|now rewrite andb_false_r].
    rewrite andb_true_r. destruct (tget P0 (wbs xs) o); destruct (c_terminal st); destruct (is_built st); reflexivity. }
  assert (PCt : forall o', pend (wcs xs') o' = if c_terminal st && (o =? o') then [] else pend (wcs xs) o').
  { intros o'. unfold pend. rewrite TC. destruct (N.eqb_spec o o') as [<-|]; [|now rewrite andb_false_r].
    rewrite andb_true_r. destruct (tget P0 (wcs xs) o); destruct (c_terminal st); reflexivity. }
  assert (Hds : map fst (dones es) = (if c_terminal st then citems xs o ++ pend (wcs xs) o ++ pend (wbs xs) o
                                      else if is_built st then pend (wbs xs) o else [])).
  { rewrite Hd. destruct (c_terminal st); [now rewrite !map_app, !map_fst_pairs, cl_out_ids|]. destruct st; cbn [is_built]; try reflexivity. apply map_fst_pairs. }
  set (open' := if c_terminal st then mark_gone true o (dones es) (s_open ss) else drop_done (dones es) (s_open ss)).
  exists xs', es, {| s_l := ls'; s_open := open'; s_cmdq := s_cmdq ss |}.
  split; [exact X|]. split.
  - unfold spec_op. rewrite L. unfold spec_event. cbn [s_l]. rewrite Eloc.
    change (concat (map _ (filter (fun w => w_circ w && (w_obj w =? o)) (s_open ss)))) with (must_c st o (s_open ss)) at 1.
    change (concat (map _ (filter (fun w => w_circ w && (w_obj w =? o)) (s_open ss)))) with (may_c st o (s_open ss)).
    rewrite Nk, (circ_done_okF ss xs o Q st es rfail Hrf Hd), Hc, Hr. reflexivity.
  - destruct (circ_event_shape (base xs) id st path kw (base xs') W Eb) as [Sh1 [Sh2 [Sh3 [Sh4 [[c' [Gc' [Ic' Sc']]] Sh6]]]]].
    change (get_c o (base xs') = Some c') in Gc'.
    change (forall o', o' <> o -> get_c o' (base xs') = get_c o' (base xs)) in Sh6.
    pose proof L as L1. cbn [lstep] in L1; unfold lstep_ev in L1.
    destruct (negb (ev_legal (l_tv (s_l ss)) (ECirc id st path kw))); [discriminate|].
    rewrite Eloc in L1. injection L1 as <-.
    set (d1 := if xc_first xs id then l_cdict (s_l ss) ++ [(id, o)] else l_cdict (s_l ss)) in *.
    assert (Hin1 : In (id, o) d1 /\ NoDup (map fst d1) /\ NoDup (map snd d1) /\
                   (xc_first xs id = false -> In (id, o) (l_cdict (s_l ss))) /\
                   (xc_first xs id = true -> o = l_nc (s_l ss))).
    { unfold d1, o, xc_obj, xc_first. rewrite <- (r_cdict _ _ R), <- (r_nc _ _ R).
      destruct (kfind fst id (circuits (base xs))) as [p|] eqn:Fk.
      - destruct (kfind_Some fst _ _ _ Fk) as [Ep Hp]. destruct p as [a b]. cbn [fst snd] in *. subst a.
        split; [exact Hp|]. split; [exact (wf_cids _ W)|]. split; [exact (wf_coids _ W)|]. split; [auto | discriminate].
      - split; [apply in_or_app; right; now left|]. split; [|split; [|split; [discriminate | reflexivity]]].
        + rewrite map_app. cbn [map fst]. apply NoDup_app_end; [exact (wf_cids _ W) | now apply kfind_None].
        + rewrite map_app. cbn [map snd]. apply NoDup_app_end; [exact (wf_coids _ W)|].
          intros Hi. apply in_map_iff in Hi as [p [Ep Hp]]. destruct (wf_clive _ W p Hp) as [c0 [G0 _]].
          pose proof (get_c_bound _ _ _ W G0). lia. }
    destruct Hin1 as [Hin1 [Nf1 [Ns1 [Hex Hnew]]]].
    assert (Al' : alive (if c_terminal st then kdel fst id d1 else d1) o = negb (c_terminal st)).
    { destruct (c_terminal st); cbn [negb]; [now apply alive_kdel_self | now apply (alive_In d1 id o)]. }
    assert (AlO : forall o', o' <> o -> alive (if c_terminal st then kdel fst id d1 else d1) o' = alive (l_cdict (s_l ss)) o').
    { intros o' Hne. assert (A1 : alive d1 o' = alive (l_cdict (s_l ss)) o').
      { unfold d1. destruct (xc_first xs id); [|reflexivity]. rewrite alive_app. apply N.eqb_neq in Hne. now rewrite Hne, orb_false_r. }
      destruct (c_terminal st); [|exact A1]. now rewrite (alive_kdel_other d1 id o o' Nf1 Hin1 Hne). }
    assert (OldB : match tget P0 (wbs xs) o with
                   | OSPending _ => oi_built (tget (info0 id) (l_cinfo (s_l ss)) o) = false
                   | OSFired (WOkC o') => o' = o /\ oi_built (tget (info0 id) (l_cinfo (s_l ss)) o) = true
                   | OSFired _ => False
                   end /\
                   match tget P0 (wcs xs) o with OSPending _ => True | OSFired _ => False end).
    { rewrite (oi_built_default id 0). destruct (xc_first xs id) eqn:Ef.
      - destruct (f_fresh _ _ Q o) as [A [B C]]; [rewrite (Hnew eq_refl); lia|]. rewrite A, B, C. split; [reflexivity | exact I].
      - pose proof (Hex eq_refl) as Hdict. rewrite <- (r_cdict _ _ R) in Hdict.
        destruct (wf_clive _ W _ Hdict) as [c0 [G0 _]]. cbn [snd] in G0.
        destruct (f_info _ _ Q o c0 G0) as [[_ [_ [I3 I4]]] _]. rewrite (alive_In _ id o (Hex eq_refl)) in I3, I4.
        split.
        + destruct (tget P0 (wbs xs) o) as [ws|[o'| | |cl r1 r2]]; try tauto. destruct I3; discriminate.
        + destruct (tget P0 (wcs xs) o) as [ws|r]; [exact I | destruct I4; discriminate]. }
    destruct OldB as [OldB OldC].
    destruct (hold_step xs (OEv (ECirc id st path kw)) xs' es (l_used (s_l ss)) X Cnt (f_hold_used _ _ Q))
      as [HC HU]; [intros w []|].
    assert (CIt : forall o', citems xs' o' = if c_terminal st && (o =? o') then [] else citems xs o').
    { intros o'. unfold citems. rewrite F1. destruct (c_terminal st); cbn [andb]; [|reflexivity].
      destruct (N.eqb_spec o o') as [E|E]; [subst o'; now rewrite tget_tdel_self | now rewrite tget_tdel_other]. }
    assert (CP : forall o', cpres xs' o' = if c_terminal st && (o =? o') then false else cpres xs o').
    { intros o'. unfold cpres. rewrite F1. destruct (c_terminal st); cbn [andb]; [|reflexivity].
      destruct (N.eqb_spec o o') as [E|E]; [subst o'; now rewrite tfind_tdel_self | now rewrite tfind_tdel_other]. }
    assert (HS : forall w0, has_cmds xs' w0 = has_cmds xs w0) by (intros w0; unfold has_cmds; now rewrite F3).
    assert (Onc : o < (if xc_first xs id then l_nc (s_l ss) + 1 else l_nc (s_l ss))).
    { destruct (xc_first xs id) eqn:Ef; [rewrite (Hnew eq_refl); lia|].
      pose proof (Hex eq_refl) as Hdict. rewrite <- (r_cdict _ _ R) in Hdict.
      destruct (wf_clive _ W _ Hdict) as [c0 [G0 _]]. cbn [snd] in G0. pose proof (get_c_bound _ _ _ W G0).
      rewrite (r_nc _ _ R) in H. exact H. }
    constructor; cbn [s_l s_open s_cmdq l_nc l_cinfo l_cdict l_sdict l_sinfo l_used].
    + rewrite F3. exact (f_q _ _ Q).
    + exact R'.
    + rewrite F3. exact (f_cmdq _ _ Q).
    + rewrite F3. exact (f_cmd_nd _ _ Q).
    + rewrite F3. exact (f_cmd_used _ _ Q).
    + intros ob w ok. rewrite F3. intros Hc0. rewrite CP.
      pose proof (f_cmd_ex _ _ Q ob w ok Hc0) as Hex0.
      destruct (N.eqb_spec o ob) as [E|E].
      * subst ob. rewrite andb_true_r. rewrite Al'. destruct (c_terminal st) eqn:Tm; cbn [negb]; [now right|left].
        destruct (f_cmd_gone _ _ Q o w ok Hc0) as [F|F]; [exact F|exfalso].
        destruct (xc_first xs id) eqn:Ef; [rewrite (Hnew eq_refl) in Hex0; lia|].
        rewrite (alive_In _ id o (Hex eq_refl)) in F. discriminate.
      * rewrite andb_false_r, (AlO ob (not_eq_sym E)). exact (f_cmd_gone _ _ Q ob w ok Hc0).
    + intros ob w ok. rewrite F3. intros Hc0. pose proof (f_cmd_ex _ _ Q ob w ok Hc0). destruct (xc_first xs id); lia.
    + intros o' c1 G1. unfold info_ok. cbn [s_l l_cinfo l_cdict]. rewrite TB, TC.
      destruct (N.eqb_spec o o') as [<-|Hne].
      * rewrite Gc' in G1. injection G1 as <-. rewrite tget_tset, N.eqb_refl. cbn [oi_built oi_id]. rewrite Al'.
        split; [|now rewrite Ic'].
        split; [intros E; rewrite Sc' in E; injection E as ->; now rewrite orb_true_r|].
        split; [rewrite Sc'; destruct st; cbn; split; try discriminate; try tauto; intros [H|H]; discriminate|].
        split.
        -- destruct (tget P0 (wbs xs) o) as [ws|[o'| | |cl r1 r2]]; try contradiction.
           ++ rewrite OldB. destruct st; cbn [c_terminal is_built negb orb]; auto; destruct rfail; try contradiction; auto.
           ++ destruct OldB as [-> Hb]. rewrite Hb. cbn [orb]. auto.
        -- destruct (tget P0 (wcs xs) o) as [ws|r]; [|contradiction].
           destruct st; cbn [c_terminal negb]; auto.
      * assert (G0 : get_c o' (base xs) = Some c1) by (rewrite <- (Sh6 o' (not_eq_sym Hne)); exact G1).
        destruct (f_info _ _ Q o' c1 G0) as [[I1 [I2 [I3 I4]]] J].
        rewrite tget_tset. apply N.eqb_neq in Hne. rewrite Hne. apply N.eqb_neq in Hne.
        rewrite (AlO o' (not_eq_sym Hne)). auto.
    + intros o' x0 G0. assert (G1 : get_s o' (base xs) = Some x0) by (unfold get_s in *; now rewrite <- Sh1).
      exact (f_sinfo _ _ Q o' x0 G1).
    + intros o' Ho'.
      assert (Hne : o <> o') by lia.
      rewrite TB, TC, tget_tset. apply N.eqb_neq in Hne. rewrite Hne. apply (f_fresh _ _ Q).
      destruct (xc_first xs id); lia.
    + (* the open waits *)
      set (DS := map fst (dones es)) in *.
      assert (NotDone : forall w0 sl, In w0 (slot_ids xs sl) ->
                          (c_terminal st = true -> sl <> SlCC o /\ sl <> SlC o /\ sl <> SlB o) ->
                          (c_terminal st = false -> is_built st = true -> sl <> SlB o) -> ~ In w0 DS).
      { intros w0 sl H1 N1 N2 Hi. rewrite Hds in Hi. destruct (c_terminal st).
        - destruct (N1 eq_refl) as [A [B C]]. apply in_app_or in Hi as [Hi|Hi]; [|apply in_app_or in Hi as [Hi|Hi]].
          + apply A. exact (slot_unique xs Cnt w0 sl (SlCC o) H1 Hi).
          + apply B. exact (slot_unique xs Cnt w0 sl (SlC o) H1 Hi).
          + apply C. exact (slot_unique xs Cnt w0 sl (SlB o) H1 Hi).
        - destruct (is_built st); [|destruct Hi]. apply (N2 eq_refl eq_refl). exact (slot_unique xs Cnt w0 sl (SlB o) H1 Hi). }
      assert (Keep : forall wr, rec_of xs wr -> ~ In (w_id wr) DS ->
                       rec_of xs' (if c_terminal st && (w_circ wr && (w_obj wr =? o)) then setg wr else wr)).
      { intros wr H Hn. rewrite Hds in Hn. destruct H as [w0 o0 H|w0 o0 H|w0 o0 ok0 H|w0 o0 H|w0 o0 H]; cbn [mkw w_id w_circ w_obj andb] in *.
        - destruct (N.eqb_spec o0 o) as [E|E].
          + subst o0. destruct (c_terminal st) eqn:Tm; cbn [andb].
            * exfalso. apply Hn. apply in_or_app. right. apply in_or_app. now right.
            * apply RB. rewrite PBt, orb_false_r, N.eqb_refl, andb_true_r. destruct (is_built st); [contradiction | exact H].
          + rewrite andb_false_r. apply RB. rewrite PBt. apply not_eq_sym in E. apply N.eqb_neq in E. now rewrite E, andb_false_r.
        - destruct (N.eqb_spec o0 o) as [E|E].
          + subst o0. destruct (c_terminal st) eqn:Tm; cbn [andb].
            * exfalso. apply Hn. apply in_or_app. right. apply in_or_app. now left.
            * apply RC. now rewrite PCt.
          + rewrite andb_false_r. apply RC. rewrite PCt. apply not_eq_sym in E. apply N.eqb_neq in E. now rewrite E, andb_false_r.
        - destruct (N.eqb_spec o0 o) as [E|E].
          + subst o0. destruct (c_terminal st) eqn:Tm; cbn [andb].
            * unfold setg. cbn [mkw w_id w_kind w_circ w_obj w_pending_cmd].
              pose proof (RA xs' w0 o ok0) as R0. rewrite CP, N.eqb_refl in R0. cbn [andb negb] in R0. apply R0. now rewrite F3.
            * pose proof (RA xs' w0 o ok0) as R0. rewrite CP in R0. cbn [andb] in R0. apply R0. now rewrite F3.
          + rewrite andb_false_r. pose proof (RA xs' w0 o0 ok0) as R0. rewrite CP in R0.
            apply not_eq_sym in E. apply N.eqb_neq in E. rewrite E, andb_false_r in R0. apply R0. now rewrite F3.
        - destruct (N.eqb_spec o0 o) as [E|E].
          + subst o0. destruct (c_terminal st) eqn:Tm; cbn [andb].
            * exfalso. apply Hn. apply in_or_app. now left.
            * apply RD. now rewrite CIt.
          + rewrite andb_false_r. apply RD. rewrite CIt. apply not_eq_sym in E. apply N.eqb_neq in E. now rewrite E, andb_false_r.
        - rewrite andb_false_r. rewrite <- HS. apply RS. unfold sitems. now rewrite F2. }
      assert (Back : forall wr, rec_of xs' wr -> exists w0, rec_of xs w0 /\ ~ In (w_id w0) DS /\
                       wr = (if c_terminal st && (w_circ w0 && (w_obj w0 =? o)) then setg w0 else w0)).
      { intros wr H. destruct H as [w0 o0 H|w0 o0 H|w0 o0 ok0 H|w0 o0 H|w0 o0 H].
        - rewrite PBt in H. destruct ((is_built st || c_terminal st) && (o =? o0)) eqn:Ec; [destruct H|].
          exists (mkw w0 KBuilt true o0 false false). split; [now apply RB|]. cbn [mkw w_id w_circ w_obj andb].
          assert (Hne : c_terminal st = true \/ is_built st = true -> o0 <> o).
          { intros Hor E. subst o0. rewrite N.eqb_refl, andb_true_r in Ec. destruct Hor as [Hor|Hor]; rewrite Hor in Ec; rewrite ?orb_true_r in Ec; discriminate. }
          split.
          + apply (NotDone w0 (SlB o0) H).
            * intros Tm. repeat split; try discriminate. intros [= E]. now apply Hne; auto.
            * intros _ Bu. intros [= E]. now apply Hne; auto.
          + destruct (c_terminal st) eqn:Tm; cbn [andb]; [|reflexivity].
            assert (E : o0 =? o = false) by (apply N.eqb_neq; apply Hne; auto). now rewrite E.
        - rewrite PCt in H. destruct (c_terminal st && (o =? o0)) eqn:Ec; [destruct H|].
          exists (mkw w0 KClosed true o0 false false). split; [now apply RC|]. cbn [mkw w_id w_circ w_obj andb].
          assert (Hne : c_terminal st = true -> o0 <> o).
          { intros Tm E. subst o0. rewrite N.eqb_refl, Tm in Ec. discriminate. }
          split.
          + apply (NotDone w0 (SlC o0) H).
            * intros Tm. repeat split; try discriminate. intros [= E]. now apply Hne.
            * intros _ _. discriminate.
          + destruct (c_terminal st) eqn:Tm; cbn [andb]; [|reflexivity].
            assert (E : o0 =? o = false) by (apply N.eqb_neq; now apply Hne). now rewrite E.
        - rewrite F3 in H. exists (mkw w0 KClose true o0 (negb (cpres xs o0)) true). split; [now apply (RA xs w0 o0 ok0)|].
          cbn [mkw w_id w_circ w_obj andb]. split.
          + apply (NotDone w0 SlCmd (in_cmd_slot xs o0 w0 ok0 H)); [intros _; repeat split; discriminate | intros _ _; discriminate].
          + rewrite CP. destruct (c_terminal st) eqn:Tm; cbn [andb]; [|reflexivity].
            rewrite (N.eqb_sym o o0). destruct (o0 =? o); reflexivity.
        - rewrite CIt in H. destruct (c_terminal st && (o =? o0)) eqn:Ec; [destruct H|].
          exists (mkw w0 KClose true o0 false false). split; [now apply RD|]. cbn [mkw w_id w_circ w_obj andb].
          assert (Hne : c_terminal st = true -> o0 <> o).
          { intros Tm E. subst o0. rewrite N.eqb_refl, Tm in Ec. discriminate. }
          split.
          + apply (NotDone w0 (SlCC o0) H).
            * intros Tm. repeat split; try discriminate. intros [= E]. now apply Hne.
            * intros _ _. discriminate.
          + destruct (c_terminal st) eqn:Tm; cbn [andb]; [|reflexivity].
            assert (E : o0 =? o = false) by (apply N.eqb_neq; now apply Hne). now rewrite E.
        - unfold sitems in H. rewrite F2 in H. rewrite HS. exists (mkw w0 KClose false o0 false (has_cmds xs w0)). split; [now apply RS|].
          cbn [mkw w_id w_circ w_obj andb]. split.
          + apply (NotDone w0 (SlSC o0) H); [intros _; repeat split; discriminate | intros _ _; discriminate].
          + now rewrite andb_false_r. }
      intros wr. unfold open'. destruct (c_terminal st) eqn:Tm.
      * rewrite mark_gone_In. split.
        -- intros [w0 [H0 [H1 ->]]]. apply (f_open _ _ Q) in H0. pose proof (Keep w0 H0 H1) as K. cbn [andb] in K.
           assert (E : Bool.eqb (w_circ w0) true = w_circ w0) by (destruct (w_circ w0); reflexivity). rewrite E. exact K.
        -- intros H. destruct (Back wr H) as [w0 [H1 [H2 ->]]]. exists w0. split; [now apply (f_open _ _ Q)|]. split; [exact H2|].
           cbn [andb]. assert (E : Bool.eqb (w_circ w0) true = w_circ w0) by (destruct (w_circ w0); reflexivity). rewrite E. reflexivity.
      * rewrite drop_done_In. split.
        -- intros [H0 H1]. apply (f_open _ _ Q) in H0. exact (Keep wr H0 H1).
        -- intros H. destruct (Back wr H) as [w0 [H1 [H2 ->]]]. cbn [andb]. split; [now apply (f_open _ _ Q) | exact H2].
    + unfold open'. destruct (c_terminal st); [rewrite mark_gone_ids|]; apply drop_done_ids_nodup; exact (f_open_nd _ _ Q).
    + exact HC.
    + exact HU.
Qed.

(* ---------------------------------------------------------------- build_circuit() and Tor's answer *)
Lemma rec_of_cmds xs xs' wr : wbs xs' = wbs xs -> wcs xs' = wcs xs -> cclosing xs' = cclosing xs -> sclosing xs' = sclosing xs ->
  (forall o w ok, In (CmdC o w ok) (cmds xs') <-> In (CmdC o w ok) (cmds xs)) ->
  (forall w, has_cmds xs' w = has_cmds xs w) -> rec_of xs' wr <-> rec_of xs wr.
Proof.
  intros A B C D E F.
  assert (G : forall a b, wbs b = wbs a -> wcs b = wcs a -> cclosing b = cclosing a -> sclosing b = sclosing a ->
              (forall o w ok, In (CmdC o w ok) (cmds a) -> In (CmdC o w ok) (cmds b)) ->
              (forall w, has_cmds b w = has_cmds a w) -> rec_of a wr -> rec_of b wr).
  { intros a b A' B' C' D' E' F' H. destruct H as [w o H|w o H|w o ok H|w o H|w o H].
    - apply RB. now rewrite A'.
    - apply RC. now rewrite B'.
    - replace (cpres a o) with (cpres b o) by (unfold cpres; now rewrite C'). apply (RA b w o ok). now apply E'.
    - apply RD. unfold citems. now rewrite C'.
    - rewrite <- F'. apply RS. unfold sitems. now rewrite D'. }
  split; apply G; auto; try (intros; now apply E).
Qed.

Lemma nev_eqb0_cmds k (l : list N) : list_eqb nev_eqb0 (map (NCmd k) l) (map (NCmd k) l) = true.
Proof. induction l as [|x t IH]; cbn; [reflexivity|]. now rewrite !N.eqb_refl, IH. Qed.

Lemma relf_build ss xs rs w ls' : RelF ss xs -> lstep (s_l ss) (OBuild rs w) = Some ls' ->
  exists xs' es ss', x_op xs (OBuild rs w) = Some (xs', es) /\ spec_op ss (OBuild rs w) es = Some ss' /\ RelF ss' xs'.
Proof.
  intros Q L0. pose proof L0 as L. cbn [lstep] in L.
  destruct (l_ncl (s_l ss) =? 0) eqn:Hncl; cbn [andb] in L; [|discriminate]. apply N.eqb_eq in Hncl.
  destruct (memN w (l_used (s_l ss))) eqn:Hfr; cbn [negb] in L; [discriminate|]. injection L as <-.
  set (lsb := use_q (s_l ss) w (l_nb (s_l ss) + 1) (l_ncl (s_l ss))) in *.
  destruct (fresh_facts ss xs w Q Hfr) as [FrR [FrC [FrH FrO]]].
  pose proof (relf_used ss xs w Q) as Qu.
  set (xs' := {| base := base xs; cls := cls xs; sls := sls xs; gcl := gcl xs; gsl := gsl xs; wbs := wbs xs; wcs := wcs xs;
                 cclosing := cclosing xs; sclosing := sclosing xs; cmds := cmds xs ++ [CmdB w] |}).
  set (es := NCmd 2 (N.of_nat (length rs)) :: map (NCmd 3) rs).
  assert (X : x_op xs (OBuild rs w) = Some (xs', es)) by reflexivity.
  destruct (hold_step xs _ xs' es (l_used (s_l ss)) X (f_hold_cnt _ _ Q) (f_hold_used _ _ Q)) as [HC HU].
  { cbn [req_id]. intros w' [<-|[]]. now apply memN_false. }
  exists xs', es, {| s_l := lsb; s_open := s_open ss; s_cmdq := s_cmdq ss ++ [(w, true)] |}.
  split; [exact X|]. split.
  - unfold spec_op. rewrite L0. unfold spec_build, es. cbn [list_eqb nev_eqb0]. now rewrite !N.eqb_refl, nev_eqb0_cmds.
  - apply (relf_frame _ xs _ xs' Qu); try reflexivity; cbn [s_l s_open s_cmdq xs' cmds use_w use_q l_used l_cdict l_nc].
    + rewrite map_app, (f_cmdq _ _ Q). reflexivity.
    + rewrite map_app. cbn [map cmd_w cmd_pair fst]. apply NoDup_app_end; [exact (f_cmd_nd _ _ Q)|].
      intros Hi. apply in_map_iff in Hi as [c0 [E0 H0]]. now apply (FrC c0 H0).
    + intros c0 Hc. apply in_app_or in Hc as [Hc|[<-|[]]]; [right; now apply (f_cmd_used _ _ Q) | now left].
    + intros o' w' ok' Hc. apply in_app_or in Hc as [Hc|[Hc|[]]]; [|discriminate]. exact (f_cmd_gone _ _ Q o' w' ok' Hc).
    + intros o' w' ok' Hc. apply in_app_or in Hc as [Hc|[Hc|[]]]; [|discriminate]. exact (f_cmd_ex _ _ Q o' w' ok' Hc).
    + intros wr. rewrite (f_open _ _ Q). symmetry. apply rec_of_cmds; try reflexivity.
      * intros o' w' ok'. cbn [xs' cmds]. rewrite in_app_iff. cbn [In]. split; [intros [H|[H|[]]]; [exact H | discriminate] | auto].
      * intros w0. unfold has_cmds. cbn [xs' cmds]. rewrite existsb_app. cbn [existsb]. now rewrite !orb_false_r.
    + exact (f_open_nd _ _ Q).
    + exact HC.
    + intros w' H. apply HU in H. exact H.
    + exact (qinv_push_build _ _ w w (f_q _ _ Q) Hncl).
Qed.

Lemma relf_builderr ss xs ls' : RelF ss xs -> lstep (s_l ss) OBuildErr = Some ls' ->
  exists xs' es ss', x_op xs OBuildErr = Some (xs', es) /\ spec_op ss OBuildErr es = Some ss' /\ RelF ss' xs'.
Proof.
  intros Q L0. pose proof L0 as L. cbn [lstep] in L.
  destruct (N.ltb_spec 0 (l_nb (s_l ss))) as [Hnb|]; [|discriminate]. injection L as <-.
  set (ls1 := with_q (s_l ss) (l_nb (s_l ss) - 1) (l_ncl (s_l ss))) in *.
  destruct (qinv_head_b _ _ (f_q _ _ Q) Hnb) as [w [q Ec]].
  pose proof (f_cmdq _ _ Q) as Eq. pose proof (f_cmd_nd _ _ Q) as Nd. rewrite Ec in Eq, Nd. cbn [map cmd_pair cmd_w fst] in Eq, Nd.
  inversion Nd as [|? ? Hn Hd]; subst.
  set (xs' := {| base := base xs; cls := cls xs; sls := sls xs; gcl := gcl xs; gsl := gsl xs; wbs := wbs xs; wcs := wcs xs;
                 cclosing := cclosing xs; sclosing := sclosing xs; cmds := q |}).
  assert (X : x_op xs OBuildErr = Some (xs', [NDone w (WFail 4 0 0)])) by (cbn [x_op]; now rewrite Ec).
  destruct (hold_step xs _ xs' _ (l_used (s_l ss)) X (f_hold_cnt _ _ Q) (f_hold_used _ _ Q)) as [HC HU]; [intros ? []|].
  exists xs', [NDone w (WFail 4 0 0)], {| s_l := ls1; s_open := s_open ss; s_cmdq := map cmd_pair q |}.
  split; [exact X|]. split.
  - unfold spec_op. rewrite L0. unfold spec_builderr. rewrite Eq, done_ok_single. reflexivity.
  - apply (relf_frame ss xs _ xs' Q); try reflexivity; cbn [s_l s_open s_cmdq xs' cmds].
    + exact Hd.
    + intros c Hc. apply (f_cmd_used _ _ Q). rewrite Ec. now right.
    + intros o' w' ok' Hc. apply (f_cmd_gone _ _ Q o' w' ok'). rewrite Ec. now right.
    + intros o' w' ok' Hc. apply (f_cmd_ex _ _ Q o' w' ok'). rewrite Ec. now right.
    + intros wr. rewrite (f_open _ _ Q). symmetry. apply rec_of_cmds; try reflexivity.
      * intros o' w' ok'. cbn [xs' cmds]. rewrite Ec. cbn [In]. split; [auto | intros [H|H]; [discriminate | exact H]].
      * intros w0. unfold has_cmds. cbn [xs' cmds]. rewrite Ec. reflexivity.
    + exact (f_open_nd _ _ Q).
    + exact HC.
    + exact HU.
    + pose proof (f_q _ _ Q) as Fq. rewrite Ec in Fq. exact (qinv_pop_build _ _ _ Fq).
Qed.

Lemma lstep_ev_q ls e l1 : lstep_ev ls e = Some l1 -> l_nb l1 = l_nb ls /\ l_ncl l1 = l_ncl ls.
Proof.
  unfold lstep_ev. destruct (negb (ev_legal (l_tv ls) e)); [discriminate|].
  destruct e as [id st path kw|id st cid host port kw].
  - destruct (locate id (l_cdict ls) (l_nc ls)) as [f n]. intros [= <-]. now split.
  - destruct (locate id (l_sdict ls) (l_ns ls)) as [f n]. intros [= <-]. now split.
Qed.

(* what the judgement of a non-terminal CIRC event consists of *)
Lemma spec_op_circ_parts ss id st path kw es ss1 : c_terminal st = false ->
  spec_op ss (OEv (ECirc id st path kw)) es = Some ss1 ->
  s_open ss1 = drop_done (dones es) (s_open ss) /\ s_cmdq ss1 = s_cmdq ss /\
  notif_check (s_l ss) (OEv (ECirc id st path kw)) es = true /\ has_cmd es = false /\ raised es = false.
Proof.
  intros T. unfold spec_op. destruct (lstep (s_l ss) (OEv (ECirc id st path kw))) as [l1|]; [|discriminate].
  unfold spec_event. destruct (locate id (l_cdict (s_l ss)) (l_nc (s_l ss))) as [first o]. rewrite T.
  match goal with |- (if ?b then _ else _) = _ -> _ => destruct b eqn:E end; [|discriminate]. intros [= <-]. cbn [s_open s_cmdq].
  apply andb_true_iff in E as [E E4]. apply andb_true_iff in E as [E E3]. apply andb_true_iff in E as [E1 E2].
  apply negb_true_iff in E3, E4. auto.
Qed.

Lemma relf_extended ss xs id ls' : RelF ss xs -> KN xs -> lstep (s_l ss) (OExtended id) = Some ls' ->
  exists xs' es ss', x_op xs (OExtended id) = Some (xs', es) /\ spec_op ss (OExtended id) es = Some ss' /\ RelF ss' xs'.
Proof.
  intros Q K L0. pose proof L0 as L. cbn [lstep] in L.
  destruct (N.ltb_spec 0 (l_nb (s_l ss))) as [Hnb|]; cbn [andb] in L; [|discriminate].
  destruct (ext_ok (l_tv (s_l ss)) id); [|discriminate].
  destruct (lstep_ev (s_l ss) (ext_event id)) as [l1|] eqn:L1; [|discriminate]. injection L as <-.
  destruct (lstep_ev_q _ _ _ L1) as [Q1 Q2].
  destruct (qinv_head_b _ _ (f_q _ _ Q) Hnb) as [w [q Ec]].
  destruct (relf_circ ss xs id CExtended [] [] l1 Q K L1) as [xs1 [es1 [ss1 [X1 [S1 Q1']]]]].
  cbn [x_op] in X1.
  destruct (spec_op_circ_parts ss id CExtended [] [] es1 ss1 eq_refl S1) as [Op [Cq [Nk [Hc Hr]]]].
  pose proof (spec_op_l _ _ _ _ S1) as El. cbn [lstep] in El. unfold ext_event in L1. rewrite L1 in El. injection El as El.
  pose proof (x_circ_waits_g _ _ _ _ _ _ _ X1) as Wg. cbv zeta in Wg. destruct Wg as [_ [_ Dn]].
  rewrite Dn, drop_done_nil in Op.
  destruct (x_circ_tables _ _ _ _ _ _ _ X1) as [T1 [T2 T3]]. cbn [c_terminal] in T3.
  set (o := xc_obj xs id).
  assert (Eloc : locate id (l_cdict (s_l ss)) (l_nc (s_l ss)) = (xc_first xs id, o)).
  { pose proof (f_rel _ _ Q) as R. unfold locate, xc_first, o, xc_obj. rewrite <- (r_cdict _ _ R), <- (r_nc _ _ R).
    destruct (kfind fst id (circuits (base xs))); reflexivity. }
  set (xs' := {| base := base xs1; cls := cls xs1; sls := sls xs1; gcl := gcl xs1; gsl := gsl xs1; wbs := wbs xs1; wcs := wcs xs1;
                 cclosing := cclosing xs1; sclosing := sclosing xs1; cmds := q |}).
  set (es := es1 ++ [NDone w (WOkC o)]).
  assert (X : x_op xs (OExtended id) = Some (xs', es)) by (cbn [x_op]; rewrite Ec, X1; reflexivity).
  destruct (hold_step xs _ xs' es (l_used (s_l ss)) X (f_hold_cnt _ _ Q) (f_hold_used _ _ Q)) as [HC HU]; [intros ? []|].
  pose proof (f_cmdq _ _ Q) as Eq. rewrite Ec in Eq. cbn [map cmd_pair] in Eq.
  pose proof (f_cmd_nd _ _ Q1') as Nd. rewrite T2, Ec in Nd. cbn [map] in Nd. apply NoDup_cons_iff in Nd as [Hn Hd].
  exists xs', es, {| s_l := with_q l1 (l_nb (s_l ss) - 1) (l_ncl (s_l ss)); s_open := s_open ss; s_cmdq := map cmd_pair q |}.
  split; [exact X|]. split.
  - unfold spec_op. rewrite L0. unfold spec_extended. rewrite Eq, Eloc. unfold es.
    rewrite notif_check_extended. cbn [notif_check ext_event] in Nk |- *. rewrite Eloc in Nk |- *. rewrite notif_ok_app_done, Nk.
    rewrite has_cmd_app, raised_app, Hc, Hr. cbn [has_cmd raised existsb orb negb andb].
    unfold done_ok. rewrite dones_app, Dn. cbn [app dones map concat fst snd nodupN memN negb andb forallb kfind res_ok].
    rewrite !N.eqb_refl. cbn [res_ok orb andb]. now rewrite N.eqb_refl.
  - assert (Used : l_used (s_l ss1) = l_used (s_l ss)) by (rewrite <- El; apply (lstep_ev_used _ _ _ L1)).
    apply (relf_frame ss1 xs1 _ xs' Q1'); try reflexivity; cbn [s_l s_open s_cmdq xs' cmds]; rewrite ?Used.
    + rewrite <- El. reflexivity.
    + exact Hd.
    + intros c Hc0. rewrite <- Used. apply (f_cmd_used _ _ Q1'). rewrite T2, Ec. now right.
    + intros o' w' ok' Hc0. apply (f_cmd_gone _ _ Q1' o' w' ok'). rewrite T2, Ec. now right.
    + intros o' w' ok' Hc0. apply (f_cmd_ex _ _ Q1' o' w' ok'). rewrite T2, Ec. now right.
    + intros wr. rewrite <- Op, (f_open _ _ Q1'). symmetry. apply rec_of_cmds; try reflexivity.
      * intros o' w' ok'. cbn [xs' cmds]. rewrite T2, Ec. cbn [In]. split; [auto | intros [H|H]; [discriminate | exact H]].
      * intros w0. unfold has_cmds. cbn [xs' cmds]. rewrite T2, Ec. reflexivity.
    + rewrite <- Op. exact (f_open_nd _ _ Q1').
    + exact HC.
    + exact HU.
    + pose proof (f_q _ _ Q1') as Fq. rewrite T2, Ec, <- El in Fq. rewrite <- Q1, <- Q2. exact (qinv_pop_build _ _ _ Fq).
Qed.

(* ---------------------------------------------------------------- every legal history *)
Lemma relf_op ss xs o ls' : RelF ss xs -> KN xs -> lstep (s_l ss) o = Some ls' ->
  exists xs' es ss', x_op xs o = Some (xs', es) /\ spec_op ss o es = Some ss' /\ RelF ss' xs'.
Proof.
  intros Q K L. destruct o as [e|l|l|ob l|ob l|ob l|ob l|ob wt|ob wt|ob wt|ob wt| |rs wt|id|].
  - destruct e as [id st path kw|id st cid host port kw]; [now apply (relf_circ ss xs _ _ _ _ ls') | now apply (relf_stream ss xs _ _ _ _ _ _ ls')].
  - now apply (relf_listener ss xs _ ls').
  - now apply (relf_listener ss xs _ ls').
  - now apply (relf_listener ss xs _ ls').
  - now apply (relf_listener ss xs _ ls').
  - now apply (relf_listener ss xs _ ls').
  - now apply (relf_listener ss xs _ ls').
  - now apply (relf_when_built ss xs _ _ ls').
  - now apply (relf_when_closed ss xs _ _ ls').
  - now apply (relf_cclose ss xs _ _ ls').
  - now apply (relf_sclose ss xs _ _ ls').
  - now apply (relf_ack ss xs ls').
  - now apply (relf_build ss xs _ _ ls').
  - now apply (relf_extended ss xs _ ls').
  - now apply (relf_builderr ss xs ls').
Qed.

Lemma oracle_from ops : forall ss xs, RelF ss xs -> KN xs -> legal8_from (s_l ss) ops = true ->
  exists tr, xrun_from xs ops = Some tr /\ oracle_from8 ss ops tr = true.
Proof.
  induction ops as [|o t IH]; intros ss xs Q K L; cbn [xrun_from legal8_from oracle_from8] in *.
  - exists []. auto.
  - destruct (lstep (s_l ss) o) as [ls'|] eqn:E; [|discriminate].
    destruct (relf_op ss xs o ls' Q K E) as [xs' [es [ss' [X [S Q']]]]]. rewrite X.
    pose proof (spec_op_l _ _ _ _ S) as El. rewrite E in El. injection El as El.
    rewrite El in L. destruct (IH ss' xs' Q' (keys_step _ _ _ _ X K) L) as [tr [Xr Or]]. rewrite Xr.
    exists (es :: tr). split; [reflexivity|]. cbn [oracle_from8]. now rewrite S.
Qed.

(* on every legal history -- any events, any listener schedule, listeners that raise or look at TorState from inside a
   callback, any when_built / when_closed / close requests, build_circuit() calls and answers at any position -- the
   model runs and its trace satisfies the whole oracle *)
Theorem oracle_all rts ops : legal8 ops = true -> exists tr, xrun rts ops = Some tr /\ oracle8 ops tr = true.
Proof.
  intros L. apply (oracle_from ops ss0 (xinit rts) (RelF_init rts)); [split; constructor | exact L].
Qed.

(* the notification clause alone, as a consequence *)
Lemma notifs_of_run ops : forall ls xs tr, Rel ls xs -> legal8_from ls ops = true -> xrun_from xs ops = Some tr ->
  notifs_from ls ops tr = true.
Proof.
  induction ops as [|o t IH]; intros ls xs tr R L X; cbn [xrun_from legal8_from notifs_from] in *.
  - now injection X as <-.
  - destruct (lstep ls o) as [ls'|] eqn:E; [|discriminate].
    destruct (x_op xs o) as [[xs' es]|] eqn:Xo; [|discriminate].
    destruct (xrun_from xs' t) as [tr'|] eqn:Xr; [|discriminate]. injection X as <-.
    destruct (rel_pres ls xs o ls' xs' es R E Xo) as [R' Nk]. cbn [notifs_from]. rewrite Nk. cbn [andb].
    exact (IH ls' xs' tr' R' L Xr).
Qed.

Theorem notifications_exact rts ops : legal8 ops = true ->
  exists tr, xrun rts ops = Some tr /\ notifs_exact ops tr = true.
Proof.
  intros L. destruct (oracle_all rts ops L) as [tr [X _]]. exists tr. split; [exact X|].
  exact (notifs_of_run ops ls0 (xinit rts) tr (Rel_init rts) L X).
Qed.

(* whatever the listeners do and whatever is requested (NEWRESOLVE included): after every operation the model performs,
   its TorState part stands for exactly Tor's view of the history so far (C07 under C08's histories) *)
Fixpoint xfinal (xs : xstate) (ops : list op) : option xstate :=
  match ops with
  | [] => Some xs
  | o :: t => match x_op xs o with Some (xs', _) => xfinal xs' t | None => None end
  end.
Fixpoint lfinal (ls : lstate) (ops : list op) : option lstate :=
  match ops with
  | [] => Some ls
  | o :: t => match lstep ls o with Some ls' => lfinal ls' t | None => None end
  end.

Lemma state_follows_from ops : forall ls xs xs', Rel ls xs -> legal8_from ls ops = true -> xfinal xs ops = Some xs' ->
  exists ls', lfinal ls ops = Some ls' /\ Rel ls' xs'.
Proof.
  induction ops as [|o t IH]; intros ls xs xs' R L X; cbn [xfinal lfinal legal8_from] in *.
  - injection X as <-. exists ls. auto.
  - destruct (lstep ls o) as [l1|] eqn:E; [|discriminate].
    destruct (x_op xs o) as [[x1 es]|] eqn:Xo; [|discriminate].
    destruct (rel_pres ls xs o l1 x1 es R E Xo) as [R1 _]. exact (IH l1 x1 xs' R1 L X).
Qed.

Theorem state_follows_tor_view rts ops xs' : legal8 ops = true -> xfinal (xinit rts) ops = Some xs' ->
  exists ls', lfinal ls0 ops = Some ls' /\ abs (base xs') = l_tv ls' /\ WF (base xs') /\ Complete (base xs').
Proof.
  intros L X. destruct (state_follows_from ops ls0 (xinit rts) xs' (Rel_init rts) L X) as [ls' [A R]].
  exists ls'. split; [exact A|]. split; [exact (r_tv _ _ R)|]. split; [exact (r_wf _ _ R) | exact (r_cp _ _ R)].
Qed.
