(* C01, session level: a batch of plain commands answered by any sequence of well-formed replies:
   one write at a time, in submission order; the n-th reply resolves the n-th command with its
   outcome.  Unbounded in the number of commands, replies, parts and line contents. *)
From Coq Require Import List Bool Ascii Arith NArith ZArith Lia.
From TxVerif Require Import Lib.Bytes Spec.Ctl Model.CtlTypes Gen.CtlFsmTable Model.Framing Model.CtlProto
  Proofs.FramingProofs Proofs.CtlParse Proofs.CtlText Proofs.CtlItem Proofs.CtlInv Proofs.CtlRest.
Import ListNotations.
Open Scope N_scope.

(* ---- whole lines through the framing ---- *)
Local Transparent CR LF.

Definition no_crlf (l : bytes) : bool := forallb (fun c => negb (Ascii.eqb c CR) && negb (Ascii.eqb c LF)) l.

Lemma scan_plain o c l : no_crlf l = true ->
  scan {| out := o; cur := c |} l = {| out := o; cur := rev l ++ c |}.
Proof.
  revert c. induction l as [|b l IH]; intros c H; [reflexivity|].
  cbn [no_crlf forallb] in H. apply andb_true_iff in H as [H1 H2]. apply andb_true_iff in H1 as [Hcr Hlf].
  cbn [scan]. unfold scan_step. cbn [cur out].
  destruct c as [|x rest].
  - rewrite IH by exact H2. cbn [rev]. now rewrite <- app_assoc.
  - destruct (Ascii.eqb b LF); [discriminate|]. rewrite andb_false_r.
    rewrite IH by exact H2. cbn [rev]. now rewrite <- app_assoc.
Qed.

Lemma scan_line o l : no_crlf l = true ->
  scan {| out := o; cur := [] |} (crlf l) = {| out := o ++ [l]; cur := [] |}.
Proof.
  intros H. unfold crlf. rewrite scan_app, scan_plain by exact H. rewrite app_nil_r.
  assert (E : scan_step {| out := o; cur := rev l |} CR = {| out := o; cur := CR :: rev l |}).
  { unfold scan_step. cbn [cur out]. destruct (rev l) as [|x r]; [reflexivity|].
    replace (Ascii.eqb CR LF) with false by (vm_compute; reflexivity). now rewrite andb_false_r. }
  cbn [scan]. rewrite E. unfold scan_step. cbn [cur out]. rewrite !Ascii.eqb_refl. cbn [andb]. now rewrite rev_involutive.
Qed.

Lemma scan_lines o ls : forallb no_crlf ls = true ->
  scan {| out := o; cur := [] |} (concat (map crlf ls)) = {| out := o ++ ls; cur := [] |}.
Proof.
  revert o. induction ls as [|l ls IH]; intros o H; cbn [map concat].
  - now rewrite app_nil_r.
  - cbn [forallb] in H. apply andb_true_iff in H as [H1 H2].
    rewrite scan_app, scan_line by exact H1. rewrite IH by exact H2. now rewrite <- app_assoc.
Qed.

Lemma feed_whole_lines ls : forallb no_crlf ls = true -> feed [] (concat (map crlf ls)) = (ls, []).
Proof. intros H. unfold feed, pysplit. cbn [app]. now rewrite scan_lines. Qed.

(* rendered lines contain neither CR nor LF *)
Lemma wf_text_no_crlf t : wf_text t = true -> no_crlf t = true.
Proof.
  unfold wf_text, no_crlf. intros H. rewrite forallb_forall in *. intros x Hx. specialize (H x Hx).
  apply andb_true_iff in H as [H H3]. apply andb_true_iff in H as [_ H2]. now rewrite H2, H3.
Qed.

Lemma digit_no_crlf x : x <= 9 -> negb (Ascii.eqb (digit x) CR) && negb (Ascii.eqb (digit x) LF) = true.
Proof.
  intros H.
  destruct (Ascii.eqb (digit x) CR) eqn:E1.
  - apply Ascii.eqb_eq in E1. apply (f_equal code) in E1. unfold digit in E1. rewrite code_ch in E1 by lia.
    replace (code CR) with 13 in E1 by reflexivity. lia.
  - destruct (Ascii.eqb (digit x) LF) eqn:E2; [|reflexivity].
    apply Ascii.eqb_eq in E2. apply (f_equal code) in E2. unfold digit in E2. rewrite code_ch in E2 by lia.
    replace (code LF) with 10 in E2 by reflexivity. lia.
Qed.

Lemma no_crlf_app a b : no_crlf (a ++ b) = no_crlf a && no_crlf b.
Proof. apply forallb_app. Qed.

Lemma head3_no_crlf c : c < 1000 -> no_crlf (head3 c) = true.
Proof.
  intros H. unfold head3. cbn [no_crlf forallb].
  rewrite !digit_no_crlf by lia. reflexivity.
Qed.

Lemma seps_no_crlf : no_crlf [SP] = true /\ no_crlf [DASH] = true /\ no_crlf [PLUS] = true /\ no_crlf [DOT] = true.
Proof. repeat split; vm_compute; reflexivity. Qed.

Lemma status_line_no_crlf c s t : c < 1000 -> no_crlf [s] = true -> wf_text t = true ->
  no_crlf (head3 c ++ s :: t) = true.
Proof.
  intros Hc Hs Ht. change (s :: t) with ([s] ++ t). rewrite !no_crlf_app.
  now rewrite head3_no_crlf, Hs, wf_text_no_crlf.
Qed.

Lemma stuff_no_crlf d : wf_text d = true -> no_crlf (stuff d) = true.
Proof.
  intros H. unfold stuff. destruct d as [|a r]; [reflexivity|]. destruct (Ascii.eqb a DOT); [|now apply wf_text_no_crlf].
  change (DOT :: a :: r) with ([DOT] ++ (a :: r)). rewrite no_crlf_app.
  destruct seps_no_crlf as (_ & _ & _ & E). now rewrite E, wf_text_no_crlf.
Qed.

Lemma render_lines_no_crlf i : wf_item i = true -> forallb no_crlf (render_lines i) = true.
Proof.
  unfold wf_item. intros H.
  apply andb_true_iff in H as [H Hf]. apply andb_true_iff in H as [H Hp].
  apply andb_true_iff in H as [H _]. apply andb_true_iff in H as [_ Hhi]. apply N.ltb_lt in Hhi.
  destruct seps_no_crlf as (E1 & E2 & E3 & E4).
  unfold render_lines. rewrite forallb_app. apply andb_true_iff. split.
  - rewrite forallb_forall. intros l Hl. apply in_concat in Hl as (ls & Hls & Hl).
    apply in_map_iff in Hls as (p & <- & Hp').
    rewrite forallb_forall in Hp. specialize (Hp p Hp'). destruct p as [t|t ds]; cbn [render_part wf_part] in *.
    + destruct Hl as [<-|[]]. apply status_line_no_crlf; [lia|exact E2|exact Hp].
    + apply andb_true_iff in Hp as [Ht Hds]. destruct Hl as [<-|Hl]; [apply status_line_no_crlf; [lia|exact E3|exact Ht]|].
      apply in_app_or in Hl as [Hl|[<-|[]]]; [|exact E4].
      apply in_map_iff in Hl as (d & <- & Hd). apply stuff_no_crlf.
      rewrite forallb_forall in Hds. now apply Hds.
  - cbn [forallb]. rewrite andb_true_r. apply status_line_no_crlf; [lia|exact E1|exact Hf].
Qed.

Section Batch.
  Variable lbehs : list (N * lbeh).

  Lemma data_received_item s i : p_buf s = [] -> wf_item i = true ->
    data_received lbehs s (render i) =
    andthen (lines_received lbehs s (render_lines i))
            (fun s1 => if negb (p_disc s1) && (MAX_LENGTH <? nlen (p_buf s1))
                       then emit (upd_buf s1 (p_buf s1) true) [LostByClient] else ret s1).
  Proof.
    intros Hb Hwf. unfold data_received, render. rewrite Hb.
    rewrite feed_whole_lines by (now apply render_lines_no_crlf).
    replace (upd_buf s [] (p_disc s)) with s by (destruct s; cbn in *; now subst).
    reflexivity.
  Qed.

  Definition plain (c : cmd) : bool := negb (ccb (cl c)) && match cscript c with [] => true | _ => false end.
  Definition outcome_of (i : item) : outcome :=
    if is_2xx (icode i) then ROk (reply_text_ok i) else RErr (icode i) (item_text i).
  Definition is_reply (i : item) : bool := wf_item i && item_fits i && (is_2xx (icode i) || is_5xx (icode i)).

  (* the state between items *)
  Definition between (s : pstate) (cur : option cmd) (q : list cmd) : Prop :=
    at_rest s /\ p_buf s = [] /\ p_inflight s = cur /\ p_queue s = q /\ p_lost s = false.

  Lemma reply_step s c q i : between s (Some c) q -> plain c = true -> is_reply i = true ->
    exists s',
      data_received lbehs s (render i) =
        (s', Resolved (cid (cl c)) (outcome_of i) ::
             match q with [] => [] | n :: _ => [Wrote (crlf (ctext (cl n)))] end, true)
      /\ between s' (hd_error q) (tl q).
  Proof.
    intros (R & Hb & Hi & Hq & Hl) Hp Hr.
    unfold plain in Hp. apply andb_true_iff in Hp as [Hcb Hsc]. apply negb_true_iff in Hcb.
    destruct (cscript c) eqn:Esc; [|discriminate].
    unfold is_reply in Hr. apply andb_true_iff in Hr as [Hr Hk]. apply andb_true_iff in Hr as [Hwf Hfit].
    rewrite data_received_item by assumption.
    assert (L : lines_received lbehs s (render_lines i) =
                finish_cmd (upd_fsm s (item_fsm i) (Some (icode i)) []) [] c (outcome_of i)).
    { unfold outcome_of. destruct (is_2xx (icode i)) eqn:E2.
      - now apply reply_ok_plain.
      - cbn [orb] in Hk. now apply reply_err_plain. }
    rewrite L. clear L.
    pose proof R as (Rf & Rc & Rr & Rd).
    unfold finish_cmd, resolve1, resolve. rewrite Esc. cbn [run_script1].
    destruct s as [b f cd r infl qq e l w d]. cbn in Hb, Hi, Hq, Hl, Rf, Rc, Rr, Rd. subst.
    destruct q as [|n q'].
    - eexists. split.
      + unfold andthen, emit, ret, maybe_issue1, maybe_issue, upd_fsm, upd_q, set_line. cbn. reflexivity.
      + unfold between, at_rest. cbn. repeat split; reflexivity.
    - eexists. split.
      + unfold andthen, emit, ret, maybe_issue1, maybe_issue, upd_fsm, upd_q, set_line. cbn. reflexivity.
      + unfold between, at_rest. cbn. repeat split; reflexivity.
  Qed.

  Lemma run_cons_ok s o ops s1 o1 : step lbehs s o = (s1, o1, true) ->
    concat (run lbehs s (o :: ops)) = o1 ++ concat (run lbehs s1 ops).
  Proof. intros H. cbn [run]. rewrite H. reflexivity. Qed.

  Fixpoint answers (cur : cmd) (q : list cmd) (items : list item) {struct items} : list obs :=
    match items with
    | [] => []
    | i :: rest =>
        Resolved (cid (cl cur)) (outcome_of i) ::
        match q with
        | [] => []
        | n :: q' => Wrote (crlf (ctext (cl n))) :: answers n q' rest
        end
    end.

  Lemma replies_in_order items : forall s c q,
    between s (Some c) q -> forallb plain (c :: q) = true -> forallb is_reply items = true ->
    (length items <= S (length q))%nat ->
    concat (run lbehs s (map (fun i => ORecv (render i)) items)) = answers c q items.
  Proof.
    induction items as [|i rest IH]; intros s c q B Hp Hr Hlen; [cbn [map run concat answers]; reflexivity|].
    cbn [forallb] in Hp, Hr. apply andb_true_iff in Hp as [Hpc Hpq]. apply andb_true_iff in Hr as [Hri Hrr].
    destruct (reply_step s c q i B Hpc Hri) as (s' & Hstep & B').
    cbn [map]. change (data_received lbehs s (render i)) with (step lbehs s (ORecv (render i))) in Hstep.
    rewrite (run_cons_ok s _ _ s' _ Hstep). cbn [answers app]. f_equal.
    destruct q as [|n q'].
    - destruct rest; [reflexivity|]. cbn [length] in Hlen. lia.
    - cbn [app]. f_equal. cbn [hd_error tl] in B'. apply IH; try assumption.
      cbn [length] in Hlen |- *. lia.
  Qed.

  Lemma submit_queued s c q c' : between s (Some c) q ->
    step lbehs s (OSubmit c') = (upd_q s (Some c) (q ++ [c']), [], true) /\ between (upd_q s (Some c) (q ++ [c'])) (Some c) (q ++ [c']).
  Proof.
    intros (R & Hb & Hi & Hq & Hl). split.
    - cbn [step]. unfold submit1, submit. rewrite Hl. unfold maybe_issue. cbn [p_inflight upd_q]. rewrite Hi, Hq. reflexivity.
    - unfold between, at_rest in *. cbn. intuition.
  Qed.

  Lemma submits_queued cs : forall s c q, between s (Some c) q ->
    exists s', (concat (run lbehs s (map OSubmit cs)) = @nil obs) /\ (between s' (Some c) (q ++ cs)) /\
               (forall more, concat (run lbehs s (map OSubmit cs ++ more)) = concat (run lbehs s' more)).
  Proof.
    induction cs as [|c' cs IH]; intros s c q B.
    - exists s. rewrite app_nil_r. split; [reflexivity|]. split; [exact B|]. intros more. reflexivity.
    - destruct (submit_queued s c q c' B) as [Hs B1].
      destruct (IH _ c (q ++ [c']) B1) as (s' & H1 & B2 & H3).
      exists s'. cbn [map]. rewrite (run_cons_ok _ _ _ _ _ Hs), H1. rewrite <- app_assoc in B2. cbn [app] in B2.
      split; [reflexivity|]. split; [exact B2|]. intros more. cbn [app]. rewrite (run_cons_ok _ _ _ _ _ Hs). apply H3.
  Qed.

  (* the whole batch: n commands submitted up front, then m <= n replies, each in any wire form *)
  Theorem fifo_batch c1 cs items :
    forallb plain (c1 :: cs) = true -> forallb is_reply items = true -> (length items <= S (length cs))%nat ->
    concat (run lbehs init (map OSubmit (c1 :: cs) ++ map (fun i => ORecv (render i)) items))
    = Wrote (crlf (ctext (cl c1))) :: answers c1 cs items.
  Proof.
    intros Hp Hr Hlen.
    assert (H0 : step lbehs init (OSubmit c1) = (upd_q init (Some c1) [], [Wrote (crlf (ctext (cl c1)))], true)).
    { reflexivity. }
    assert (B0 : between (upd_q init (Some c1) []) (Some c1) []).
    { unfold between, at_rest. cbn. repeat split; reflexivity. }
    cbn [map app]. rewrite (run_cons_ok _ _ _ _ _ H0). cbn [app]. f_equal.
    destruct (submits_queued cs _ c1 [] B0) as (s' & _ & B1 & H3).
    rewrite H3. cbn [app] in B1. now apply replies_in_order.
  Qed.
End Batch.
