(* after a complete reply or event the protocol is at rest again; the next command written is the
   head of the queue *)
From Coq Require Import List Bool Ascii Arith NArith ZArith Lia.
From TxVerif Require Import Lib.Bytes Spec.Ctl Model.CtlTypes Gen.CtlFsmTable Model.Framing Model.CtlProto
  Proofs.CtlParse Proofs.CtlText Proofs.CtlItem Proofs.CtlInv.
Import ListNotations.
Open Scope N_scope.

Definition oklike_witness : item :=
  {| icode := 250%N; iparts := [Data (map ch [110; 115]) [map ch [79; 75]]]; ifinal := map ch [79; 75] |}.
Lemma cb_oklike_refuted : exists i, wf_item i = true /\ cb_calls 1%N i <> map (LineCb 1%N) (cb_lines i).
Proof. exists oklike_witness. split; [vm_compute; reflexivity|]. vm_compute. discriminate. Qed.

Lemma quiet_maybe_issue s : quiet s (maybe_issue1 s).
Proof.
  unfold maybe_issue1, maybe_issue. destruct (p_inflight s) eqn:I; [apply quiet_ret|].
  destruct (p_queue s) eqn:Q; [apply quiet_ret|]. destruct (p_lost s) eqn:L; [apply quiet_oos|].
  unfold quiet, emit, idle_lost. cbn. intuition (auto; try congruence).
Qed.

Lemma maybe_issue_head s c q :
  p_inflight s = None -> p_queue s = c :: q -> p_lost s = false ->
  maybe_issue1 s = (upd_q s (Some c) q, [Wrote (crlf (ctext (cl c)))], true).
Proof. intros I Q L. unfold maybe_issue1, maybe_issue. now rewrite I, Q, L. Qed.

Lemma finish_cmd_rest s f c o0 cm o :
  p_disc s = false ->
  let '(s', _, ok) := finish_cmd (upd_fsm s f (Some c) []) o0 cm o in ok = true -> at_rest s'.
Proof.
  intros D. unfold finish_cmd.
  set (s1 := upd_fsm s f (Some c) []).
  rewrite andthen_emit.
  pose proof (quiet_resolve1 s1 cm o) as Q1. destruct (resolve1 s1 cm o) as [[s2 o2] ok2].
  unfold andthen at 2. destruct ok2.
  - set (s2' := upd_fsm (upd_q s2 None (p_queue s2)) (p_fsm s2) None (p_resp s2)).
    pose proof (quiet_maybe_issue s2') as Q2. destruct (maybe_issue1 s2') as [[s3 o3] ok3].
    unfold andthen, ret. destruct ok3; [|discriminate].
    intros _. unfold quiet in Q1, Q2.
    destruct Q1 as (_ & F1 & C1 & R1 & _ & D1 & _). destruct Q2 as (_ & F2 & C2 & R2 & _ & D2 & _).
    unfold at_rest, set_line. cbn [upd_fsm p_fsm p_code p_resp p_disc].
    unfold s2', s1 in *. cbn [upd_fsm upd_q p_fsm p_code p_resp p_disc] in *.
    repeat split; congruence.
  - cbn [andthen]. discriminate.
Qed.
