(* C19: what the oracle of Spec/C19.v implies, for ANY trace it accepts (model or implementation):
   a success is preceded by 100% on an authenticated connection on which TAKEOWNERSHIP was sent,
   with no process exit and no success before.  Composed with C19_oracle in Properties/C19.v. *)
From Coq Require Import List Bool Ascii Arith NArith Lia.
From TxVerif Require Import Lib.Bytes Spec.C19.
Import ListNotations.
Open Scope N_scope.

Definition ok_fired (es : list obs) : Prop := exists w, In (EFired w ROk) es.

(* the evidence for a success: a split of the history at a 100% report *)
Definition witness (h : list op) (tr : list (list obs)) : Prop :=
  exists h1 c h2 tr1 tr2,
    h = h1 ++ OProgress c 100 :: h2 /\ tr = tr1 ++ tr2 /\ length tr1 = length h1 /\
    In (OBoot c true) h1 /\ In (ESent c w_TAKEOWNERSHIP) (concat tr1) /\
    (forall x, ~ In (OExit x) h1) /\ ~ ok_fired (concat tr1).

(* facts about the prefix (h1, tr1) already consumed, in spec state s *)
Record Inv (s : sst) (h1 : list op) (tr1 : list (list obs)) : Prop := {
  I_len : length tr1 = length h1;
  I_auth : forall c q, nthc s c = Some q -> q_auth q = true -> In (OBoot c true) h1;
  I_own : forall c q, nthc s c = Some q -> q_own q = true -> In (ESent c w_TAKEOWNERSHIP) (concat tr1);
  I_none : s_decided s = None -> (forall x, ~ In (OExit x) h1) /\ ~ ok_fired (concat tr1);
  I_false : s_decided s = Some false -> ~ ok_fired (concat tr1);
  I_true : s_decided s = Some true -> witness h1 tr1;
  I_wait0 : s_wait0 s = true -> s_decided s = Some true
}.

Lemma fires_In w r es : In (w, r) (fires es) <-> In (EFired w r) es.
Proof.
  unfold fires. rewrite in_flat_map. split.
  - intros (e & He & H). destruct e; cbn in H; try contradiction. destruct H as [E|[]]. injection E as -> ->. exact He.
  - intros H. exists (EFired w r). split; [exact H|left; reflexivity].
Qed.

Lemma no_fire_nil es : no_fire (fires es) = true -> forall w r, ~ In (EFired w r) es.
Proof.
  intros H w r Hi. apply fires_In in Hi. destruct (fires es); [destruct Hi|discriminate].
Qed.

Lemma all_fire_res ws b es : all_fire ws b (fires es) = true -> forall w r, In (EFired w r) es -> res_is b r = true.
Proof.
  unfold all_fire. intros H w r Hi. apply andb_true_iff in H as [_ H].
  rewrite forallb_forall in H. apply fires_In in Hi. exact (H (w, r) Hi).
Qed.

Lemma witness_app h tr h' tr' : witness h tr -> witness (h ++ h') (tr ++ tr').
Proof.
  intros (h1 & c & h2 & tr1 & tr2 & -> & -> & L & B & O & X & NF).
  exists h1, c, (h2 ++ h'), tr1, (tr2 ++ tr'). rewrite <- !app_assoc. cbn [app]. repeat split; auto.
Qed.

Lemma ok_fired_app a b : ok_fired (a ++ b) <-> ok_fired a \/ ok_fired b.
Proof.
  unfold ok_fired. split.
  - intros (w & H). apply in_app_iff in H as [H|H]; [left|right]; eauto.
  - intros [(w & H)|(w & H)]; exists w; apply in_app_iff; auto.
Qed.

Lemma concat_snoc {A} (l : list (list A)) x : concat (l ++ [x]) = concat l ++ x.
Proof. rewrite concat_app. cbn. now rewrite app_nil_r. Qed.

(* ---- connections through one step ---- *)
Lemma nth_set_nth {A} n m (x : A) l :
  nth_error (set_nth n x l) m = if Nat.eqb n m then (match nth_error l m with Some _ => Some x | None => None end) else nth_error l m.
Proof.
  revert m l. induction n as [|n IH]; intros [|m] [|y l]; cbn; auto.
  destruct (Nat.eqb n m); reflexivity.
Qed.

Lemma nthc_upd_conn s c q k : nthc (upd_conn s c q) k =
  if N.eqb c k then (match nthc s k with Some _ => Some q | None => None end) else nthc s k.
Proof.
  unfold nthc, upd_conn. cbn [s_conns]. rewrite nth_set_nth.
  destruct (N.eqb c k) eqn:E.
  - apply N.eqb_eq in E. subst. rewrite Nat.eqb_refl. reflexivity.
  - apply N.eqb_neq in E. assert (Nat.eqb (N.to_nat c) (N.to_nat k) = false) as ->; [|reflexivity].
    apply Nat.eqb_neq. intros H. apply E. apply N2Nat.inj. exact H.
Qed.

(* a connection's auth / own flags in the next state come from the previous state, the operation, or
   the commands seen in the chunk *)
Definition flags_from (s : sst) (o : op) (es : list obs) (s' : sst) : Prop :=
  forall c q', nthc s' c = Some q' ->
    (q_auth q' = true -> (exists q, nthc s c = Some q /\ q_auth q = true) \/ o = OBoot c true) /\
    (q_own q' = true -> (exists q, nthc s c = Some q /\ q_own q = true) \/ In (ESent c w_TAKEOWNERSHIP) es).

Ltac keepflags := split; [intros Ha; eexists; split; [eassumption|exact Ha]
                              | intros Ho; left; eexists; split; [eassumption|exact Ho]].

Lemma absorb_flags cf es : forall s c q', nthc (absorb cf s es) c = Some q' ->
  (q_auth q' = true -> exists q, nthc s c = Some q /\ q_auth q = true) /\
  (q_own q' = true -> (exists q, nthc s c = Some q /\ q_own q = true) \/ In (ESent c w_TAKEOWNERSHIP) es).
Proof.
  unfold absorb. induction es as [|e es IH]; intros s c q' H; cbn [fold_left] in H.
  - keepflags.
  - destruct (IH _ _ _ H) as [A B]. clear IH H.
    assert (Step : forall q1, nthc (absorb1 cf s e) c = Some q1 ->
              (q_auth q1 = true -> exists q, nthc s c = Some q /\ q_auth q = true) /\
              (q_own q1 = true -> (exists q, nthc s c = Some q /\ q_own q = true) \/ e = ESent c w_TAKEOWNERSHIP)).
    { intros q1 H1. destruct e; cbn [absorb1] in H1; try keepflags.
      1:{ destruct (w =? 0); keepflags. }
      destruct (nthc s c0) as [q0|] eqn:N0; [|keepflags].
      rewrite nthc_upd_conn in H1. destruct (N.eqb c0 c) eqn:E.
      - apply N.eqb_eq in E. subst c0. rewrite N0 in H1. injection H1 as <-. cbn. split.
        + intros Ha. eauto.
        + intros Ho. apply orb_true_iff in Ho as [Ho|Ho]; [left; eauto|].
          apply beqb_eq in Ho. subst. right. reflexivity.
      - keepflags. }
    split.
    + intros E. destruct (A E) as (q1 & N1 & A1). destruct (Step q1 N1) as [S1 _]. auto.
    + intros E. destruct (B E) as [(q1 & N1 & O1)|I]; [|right; right; exact I].
      destruct (Step q1 N1) as [_ S2]. destruct (S2 O1) as [X| ->]; [left; exact X|right; left; reflexivity].
Qed.

Lemma decide_conns s b : s_conns (decide s b) = s_conns s.
Proof. unfold decide. destruct (s_decided s); reflexivity. Qed.

Lemma nthc_decide s b c : nthc (decide s b) c = nthc s c.
Proof. unfold nthc. now rewrite decide_conns. Qed.

Lemma nthc_decide_ok s c : nthc (decide_ok s) c = nthc s c.
Proof. unfold nthc, decide_ok. destruct (s_decided s); reflexivity. Qed.

Lemma effect_flags cf s o c q' : nthc (op_effect cf s o) c = Some q' ->
  (q_auth q' = true -> (exists q, nthc s c = Some q /\ q_auth q = true) \/ o = OBoot c true) /\
  (q_own q' = true -> exists q, nthc s c = Some q /\ q_own q = true).
Proof.
  assert (Keep : nthc s c = Some q' ->
     (q_auth q' = true -> (exists q, nthc s c = Some q /\ q_auth q = true) \/ o = OBoot c true) /\
     (q_own q' = true -> exists q, nthc s c = Some q /\ q_own q = true)).
  { intros H. split; intros E; [left|]; eauto. }
  destruct o; cbn [op_effect]; intros H; try (apply Keep; exact H).
  - destruct (s_tried s); apply Keep; exact H.
  - destruct (s_npend s); [apply Keep; exact H|].
    unfold nthc in *. cbn [s_conns] in H.
    destruct (nth_error (s_conns s) (N.to_nat c)) as [q|] eqn:N0.
    + assert (Lt : (N.to_nat c < length (s_conns s))%nat) by (apply nth_error_Some; congruence).
      rewrite (nth_error_app1 _ _ Lt) in H. apply Keep. congruence.
    + apply nth_error_None in N0. rewrite nth_error_app2 in H by exact N0.
      destruct (N.to_nat c - length (s_conns s))%nat as [|[|k]]; cbn in H; try discriminate.
      injection H as <-. cbn. split; discriminate.
  - destruct (nthc s c0) as [q0|] eqn:N0; [|apply Keep; exact H]. destruct ok; [|apply Keep; exact H].
    rewrite nthc_upd_conn in H. destruct (N.eqb c0 c) eqn:E; [|apply Keep; exact H].
    apply N.eqb_eq in E. subst c0. rewrite N0 in H. injection H as <-. cbn. split.
    + intros _. right. reflexivity.
    + intros Ho. eauto.
  - destruct (nthc s c0) as [q0|] eqn:N0; [|apply Keep; exact H].
    destruct (q_fifo q0) as [|cmd rest]; [apply Keep; exact H|].
    rewrite nthc_upd_conn in H. destruct (N.eqb c0 c) eqn:E; [|apply Keep; exact H].
    apply N.eqb_eq in E. subst c0. rewrite N0 in H. injection H as <-. cbn. split; intros X; [left|]; eauto.
  - destruct (s_att s =? 0); apply Keep; exact H.
  - destruct ((p =? 100) && full_bootstrap s c0); [rewrite nthc_decide_ok in H|]; apply Keep; exact H.
  - destruct (s_timer s); [|apply Keep; exact H]. unfold nthc in H. cbn [s_conns] in H.
    rewrite decide_conns in H. apply Keep. exact H.
  - unfold nthc in H. cbn [s_conns] in H. rewrite decide_conns in H. apply Keep. exact H.
  - destruct (s_decided s); apply Keep; exact H.
  - destruct (s_decided s); apply Keep; exact H.
Qed.

Lemma absorb_decided cf s es : s_decided (absorb cf s es) = s_decided s.
Proof.
  unfold absorb. revert s. induction es as [|e es IH]; intros s; [reflexivity|]. cbn [fold_left]. rewrite IH.
  destruct e; cbn [absorb1]; try reflexivity.
  - destruct (w =? 0); reflexivity.
  - destruct (nthc s c); reflexivity.
Qed.

(* the launch() result is only ever held back after a success *)
Lemma absorb_wait0 cf s es : s_wait0 (absorb cf s es) = true -> s_wait0 s = true.
Proof.
  unfold absorb. revert s. induction es as [|e es IH]; intros s H; [exact H|]. cbn [fold_left] in H.
  apply IH in H. destruct e; cbn [absorb1] in H; try exact H.
  - destruct (w =? 0); [discriminate H|exact H].
  - destruct (nthc s c); exact H.
Qed.

Lemma step_flags cf s o es c q' : nthc (spec_step cf s o es) c = Some q' ->
  (q_auth q' = true -> (exists q, nthc s c = Some q /\ q_auth q = true) \/ o = OBoot c true) /\
  (q_own q' = true -> (exists q, nthc s c = Some q /\ q_own q = true) \/ In (ESent c w_TAKEOWNERSHIP) es).
Proof.
  unfold spec_step. intros H. destruct (absorb_flags cf es _ _ _ H) as [A B]. split.
  - intros E. destruct (A E) as (q1 & N1 & A1). destruct (effect_flags cf s o c q1 N1) as [X _]. auto.
  - intros E. destruct (B E) as [(q1 & N1 & O1)|I]; [|right; exact I].
    destruct (effect_flags cf s o c q1 N1) as [_ X]. left. auto.
Qed.

(* ---- who decides ---- *)
Lemma decide_decided s b : s_decided (decide s b) = match s_decided s with Some x => Some x | None => Some b end.
Proof. unfold decide. destruct (s_decided s) eqn:D; [exact D|reflexivity]. Qed.

Lemma decide_ok_decided s : s_decided (decide_ok s) = match s_decided s with Some x => Some x | None => Some true end.
Proof. unfold decide_ok. destruct (s_decided s) eqn:D; [exact D|reflexivity]. Qed.

Lemma effect_decided cf s o :
  match s_decided s with
  | Some b => s_decided (op_effect cf s o) = Some b
  | None =>
      s_decided (op_effect cf s o) = None
      \/ (s_decided (op_effect cf s o) = Some false /\ ((exists x, o = OExit x) \/ o = OTimeout))
      \/ (s_decided (op_effect cf s o) = Some true /\ exists k, o = OProgress k 100 /\ full_bootstrap s k = true)
  end.
Proof.
  destruct (s_decided s) as [b|] eqn:D.
  - destruct o; cbn [op_effect s_decided]; try exact D.
    + destruct (s_tried s); exact D.
    + destruct (s_npend s); exact D.
    + destruct (nthc s c); [destruct ok|]; exact D.
    + destruct (nthc s c) as [q|]; [destruct (q_fifo q)|]; exact D.
    + destruct (s_att s =? 0); exact D.
    + destruct ((p =? 100) && full_bootstrap s c); [rewrite decide_ok_decided, D; reflexivity|exact D].
    + destruct (s_timer s); [cbn; rewrite decide_decided, D; reflexivity|exact D].
    + cbn. rewrite decide_decided, D. reflexivity.
    + rewrite D. exact D.
    + rewrite D. exact D.
  - destruct o; cbn [op_effect s_decided]; try (left; exact D).
    + destruct (s_tried s); left; exact D.
    + destruct (s_npend s); left; exact D.
    + destruct (nthc s c); [destruct ok|]; left; exact D.
    + destruct (nthc s c) as [q|]; [destruct (q_fifo q)|]; left; exact D.
    + destruct (s_att s =? 0); left; exact D.
    + destruct (p =? 100) eqn:P; cbn [andb]; [|left; exact D].
      destruct (full_bootstrap s c) eqn:F; [|left; exact D].
      right. right. split; [rewrite decide_ok_decided, D; reflexivity|]. apply N.eqb_eq in P. subst. eauto.
    + destruct (s_timer s); [|left; exact D]. right. left. split; [cbn; rewrite decide_decided, D; reflexivity|auto].
    + right. left. split; [cbn; rewrite decide_decided, D; reflexivity|eauto].
    + rewrite D. left. reflexivity.
    + rewrite D. left. reflexivity.
Qed.

Lemma effect_wait0 cf s o : s_wait0 (op_effect cf s o) = true ->
  s_wait0 s = true \/ s_decided (op_effect cf s o) = Some true.
Proof.
  destruct o; cbn [op_effect]; intros H; try (left; exact H).
  - destruct (s_tried s); left; exact H.
  - destruct (s_npend s); left; exact H.
  - destruct (nthc s c); [destruct ok|]; left; exact H.
  - destruct (nthc s c) as [q|]; [destruct (q_fifo q)|]; left; exact H.
  - destruct (s_att s =? 0); [left; exact H|]. cbn in H. apply andb_true_iff in H as [H _]. left. exact H.
  - destruct ((p =? 100) && full_bootstrap s c); [|left; exact H].
    unfold decide_ok in *. destruct (s_decided s); [left; exact H|right; reflexivity].
  - destruct (s_timer s); [|left; exact H]. cbn in H. unfold decide in H. destruct (s_decided s); left; exact H.
  - cbn in H. unfold decide in H. destruct (s_decided s); left; exact H.
  - destruct (s_decided s); left; exact H.
  - destruct (s_decided s); left; exact H.
Qed.

(* a success firing in a chunk the oracle accepts *)
Lemma chunk_ok_fires cf s o es : (s_wait0 s = true -> s_decided s = Some true) ->
  chunk_ok cf s o es = true -> ok_fired es ->
  s_decided s = Some true \/
  (s_decided s = None /\ exists k, o = OProgress k 100 /\ full_bootstrap s k = true).
Proof.
  unfold chunk_ok. intros W0 H (w & Hw). apply andb_true_iff in H as [_ H].
  assert (NF : no_fire (fires es) = true -> False) by (intros A; exact (no_fire_nil es A w ROk Hw)).
  assert (AF : forall ws, all_fire ws false (fires es) = true -> False).
  { intros ws A. pose proof (all_fire_res ws false es A w ROk Hw) as X. discriminate X. }
  destruct o;
    try (apply andb_true_iff in H as [_ H]; exfalso; exact (NF H)).
  - (* OAttach: the launch() result that was held back *)
    apply andb_true_iff in H as [_ H].
    destruct (s_wait0 s) eqn:W; cbn [andb] in H; [|exfalso; exact (NF H)].
    left. apply W0. reflexivity.
  - (* OProgress *)
    apply andb_true_iff in H as [_ H].
    destruct (p =? 100) eqn:P; cbn [andb] in H; [|exfalso; exact (NF H)].
    destruct (delivered s c); [|exfalso; exact (NF H)].
    destruct (s_decided s) as [b|]; [exfalso; exact (NF H)|].
    destruct (full_bootstrap s c) eqn:F; [|exfalso; exact (NF H)].
    right. split; [reflexivity|]. apply N.eqb_eq in P. subst. eauto.
  - (* OTimeout *)
    destruct (s_timer s).
    + destruct (s_decided s) as [[|]|].
      * left. reflexivity.
      * exfalso. exact (NF H).
      * apply andb_true_iff in H as [H _]. exfalso. exact (AF _ H).
    + apply andb_true_iff in H as [H _]. exfalso. exact (NF H).
  - (* OExit *)
    apply andb_true_iff in H as [_ H]. destruct (s_decided s); exfalso; [exact (NF H)|exact (AF _ H)].
  - (* OWhen *)
    apply andb_true_iff in H as [_ H]. destruct (s_decided s) as [b|]; [|exfalso; exact (NF H)].
    apply fires_In in Hw. destruct (fires es) as [|[w' r] [|? ?]]; try discriminate H.
    destruct Hw as [E|[]]. injection E as -> ->. apply andb_true_iff in H as [_ H]. cbn in H. subst b. left. reflexivity.
  - (* OWhenR *)
    apply andb_true_iff in H as [_ H]. destruct (s_decided s) as [b|]; [|exfalso; exact (NF H)].
    pose proof (all_fire_res _ b es H w ROk Hw) as X. cbn in X. subst b. left. reflexivity.
Qed.

Lemma full_bootstrap_flags s k : full_bootstrap s k = true ->
  exists q, nthc s k = Some q /\ q_auth q = true /\ q_own q = true.
Proof.
  unfold full_bootstrap. destruct (nthc s k) as [q|]; [|discriminate]. intros H.
  apply andb_true_iff in H as [H O]. apply andb_true_iff in H as [_ A]. eauto.
Qed.

Lemma progress_decides cf s k : s_decided s = None -> full_bootstrap s k = true ->
  s_decided (op_effect cf s (OProgress k 100)) = Some true.
Proof. intros D F. cbn [op_effect]. rewrite N.eqb_refl, F. cbn [andb]. rewrite decide_ok_decided, D. reflexivity. Qed.

Lemma sound_step cf s o es h0 tr0 :
  Inv s h0 tr0 -> chunk_ok cf s o es = true ->
  Inv (spec_step cf s o es) (h0 ++ [o]) (tr0 ++ [es]) /\
  (ok_fired es -> witness (h0 ++ [o]) (tr0 ++ [es])).
Proof.
  intros HI Ck.
  assert (Dn : s_decided (spec_step cf s o es) = s_decided (op_effect cf s o)) by apply absorb_decided.
  pose proof (effect_decided cf s o) as ED.
  (* the witness produced by a decisive 100% *)
  assert (W : s_decided s = None -> forall k, o = OProgress k 100 -> full_bootstrap s k = true ->
              witness (h0 ++ [o]) (tr0 ++ [es])).
  { intros D k -> F. destruct (full_bootstrap_flags s k F) as (q & Nq & A & O).
    destruct (I_none _ _ _ HI D) as [NoX NoF].
    exists h0, k, [], tr0, [es]. repeat split; auto.
    - apply HI.
    - eapply I_auth; eauto.
    - eapply I_own; eauto. }
  assert (Fired : ok_fired es -> witness (h0 ++ [o]) (tr0 ++ [es])).
  { intros OF. destruct (chunk_ok_fires cf s o es (I_wait0 _ _ _ HI) Ck OF) as [D|(D & k & E & F)].
    - apply witness_app. apply (I_true _ _ _ HI D).
    - eapply W; eauto. }
  split; [|exact Fired].
  constructor.
  - rewrite !app_length. cbn. rewrite (I_len _ _ _ HI). reflexivity.
  - intros c q' Nq A. destruct (step_flags cf s o es c q' Nq) as [X _].
    apply in_or_app. destruct (X A) as [(q & N0 & A0)| ->]; [left; eapply I_auth; eauto|right; left; reflexivity].
  - intros c q' Nq O. destruct (step_flags cf s o es c q' Nq) as [_ X].
    rewrite concat_snoc. apply in_or_app. destruct (X O) as [(q & N0 & O0)|I]; [left; eapply I_own; eauto|right; exact I].
  - intros D'. rewrite Dn in D'. destruct (s_decided s) as [b|] eqn:D; [congruence|].
    destruct (I_none _ _ _ HI D) as [NoX NoF]. split.
    + intros x Hx. apply in_app_iff in Hx as [Hx|[->|[]]]; [exact (NoX x Hx)|].
      destruct ED as [E|[(E & _)|(E & _)]]; cbn [op_effect] in *; try congruence.
      cbn in D'. rewrite decide_decided, D in D'. discriminate.
    + rewrite concat_snoc. intros OF. apply ok_fired_app in OF as [OF|OF]; [exact (NoF OF)|].
      destruct (chunk_ok_fires cf s o es (I_wait0 _ _ _ HI) Ck OF) as [X|(_ & k & -> & F)]; [congruence|].
      rewrite (progress_decides cf s k D F) in D'. discriminate.
  - intros D'. rewrite Dn in D'. rewrite concat_snoc. intros OF. apply ok_fired_app in OF as [OF|OF].
    + destruct (s_decided s) as [[|]|] eqn:D.
      * congruence.
      * exact (I_false _ _ _ HI D OF).
      * destruct (I_none _ _ _ HI D) as [_ NoF]. exact (NoF OF).
    + destruct (chunk_ok_fires cf s o es (I_wait0 _ _ _ HI) Ck OF) as [X|(D & k & -> & F)].
      * rewrite X in ED. congruence.
      * rewrite (progress_decides cf s k D F) in D'. discriminate.
  - intros D'. rewrite Dn in D'. destruct (s_decided s) as [[|]|] eqn:D.
    + apply witness_app. apply (I_true _ _ _ HI D).
    + congruence.
    + destruct ED as [E|[(E & _)|(E & k & -> & F)]]; try congruence. eapply W; eauto.
  - intros W0. rewrite Dn. unfold spec_step in W0. apply absorb_wait0 in W0.
    destruct (effect_wait0 cf s o W0) as [A|A]; [|exact A].
    rewrite (I_wait0 _ _ _ HI A) in ED. exact ED.
Qed.

Lemma Inv_init cf : Inv (s0 cf) [] [].
Proof.
  constructor; cbn; auto; try discriminate;
    try (intros c q H; unfold nthc in H; cbn in H; destruct (N.to_nat c); discriminate).
  intros _. split; [intros x []|intros (w & [])].
Qed.

Lemma sound_from cf h : forall s tr h0 tr0,
  Inv s h0 tr0 -> oracle_from cf s h tr = true -> ok_fired (concat tr) -> witness (h0 ++ h) (tr0 ++ tr).
Proof.
  induction h as [|o h IH]; intros s tr h0 tr0 HI Or OF.
  - destruct tr; [|discriminate]. destruct OF as (w & []).
  - destruct tr as [|es tr]; [discriminate|]. cbn [oracle_from] in Or. apply andb_true_iff in Or as [Ck Or].
    destruct (sound_step cf s o es h0 tr0 HI Ck) as [HI' Fd].
    cbn [concat] in OF. apply ok_fired_app in OF as [OF|OF].
    + change (o :: h) with ([o] ++ h). change (es :: tr) with ([es] ++ tr). rewrite !app_assoc.
      apply witness_app. exact (Fd OF).
    + change (o :: h) with ([o] ++ h). change (es :: tr) with ([es] ++ tr). rewrite !app_assoc.
      eapply IH; eauto.
Qed.

(* "it succeeds only after Tor reported 100% bootstrap over the authenticated control connection, on
   which ownership of the process is also requested", and not if the process ended first: whatever
   trace the oracle accepts, a success (of the launch result or of any when_connected() caller) has a
   100% report on some connection c behind it, before which c was authenticated, TAKEOWNERSHIP was
   written on c, the process had not ended, and nobody had been told of a success *)
Lemma success_needs_full_bootstrap cf h tr :
  oracle cf h tr = true -> ok_fired (concat tr) ->
  exists es0 tr', tr = es0 :: tr' /\ witness h tr'.
Proof.
  unfold oracle. destruct tr as [|es0 tr']; [discriminate|]. intros H OF.
  apply andb_true_iff in H as [H _]. apply andb_true_iff in H as [E0 Or].
  exists es0, tr'. split; [reflexivity|].
  cbn [concat] in OF. apply ok_fired_app in OF as [OF|OF].
  - exfalso. destruct OF as (w & Hw). destruct es0 as [|e [|e2 l]]; [destruct Hw| |].
    + cbn in E0. destruct e; try discriminate E0. destruct Hw as [X|[]]. discriminate X.
    + cbn in E0. rewrite andb_false_r in E0. discriminate E0.
  - exact (sound_from cf h (s0 cf) tr' [] [] (Inv_init cf) Or OF).
Qed.
