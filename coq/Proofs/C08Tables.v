(* C08: small facts about the tables of the close machinery, shared by Proofs/C08Close.v and Proofs/C08Full.v *)
From Coq Require Import List Bool Arith NArith Lia.
From TxVerif Require Import Lib.Bytes Lib.NList Spec.C07 Spec.C08 Model.State Model.StateNotify
  Proofs.NListProofs Proofs.C07Proofs Proofs.StateShape Proofs.C08Proofs Proofs.C08Refine Proofs.C08Waits.
Import ListNotations.
Open Scope N_scope.

Lemma tfind_tset {V} (t : list (N * V)) k v k' : tfind (tset t k v) k' = if k =? k' then Some v else tfind t k'.
Proof. unfold tfind, tset. rewrite kfind_kset. cbn [fst]. destruct (k =? k'); reflexivity. Qed.
Lemma tfind_tdel_other {V} (t : list (N * V)) k k' : k <> k' -> tfind (tdel t k) k' = tfind t k'.
Proof. intros H. unfold tfind, tdel. rewrite kfind_kdel_other; auto. Qed.
Lemma tget_tdel_other {V} (d : V) (t : list (N * V)) k k' : k <> k' -> tget d (tdel t k) k' = tget d t k'.
Proof. intros H. unfold tget, tdel. rewrite kfind_kdel_other; auto. Qed.
Lemma tget_of_tfind {V} (d : V) (t : list (N * V)) k v : tfind t k = Some v -> tget d t k = v.
Proof. unfold tfind, tget. destruct (kfind fst k t); [now intros [= <-] | discriminate]. Qed.

Definition term_circ_on (xs : xstate) (o : op) (ob : N) : Prop :=
  exists id st path kw, o = OEv (ECirc id st path kw) /\ c_terminal st = true /\ ob = xc_obj xs id.
Definition term_stream_on (xs : xstate) (o : op) (ob : N) : Prop :=
  exists id st cid host port kw, o = OEv (EStream id st cid host port kw) /\ s_terminal st = true /\ ob = xs_obj xs id.

Lemma x_circ_tables s id st path kw s' es : x_circ s id st path kw = Some (s', es) ->
  sclosing s' = sclosing s /\ cmds s' = cmds s /\
  cclosing s' = (if c_terminal st then tdel (cclosing s) (xc_obj s id) else cclosing s).
Proof.
  unfold x_circ, xc_obj. destruct (step (base s) (ECirc id st path kw)) as [post|]; [|discriminate].
  set (o := match kfind fst id (circuits (base s)) with Some p => snd p | None => N.of_nat (length (cheap (base s))) end).
  assert (E : exists first oldpath, match kfind fst id (circuits (base s)) with
              | Some p => (false, snd p, match get_c (snd p) (base s) with Some c => c_path c | None => [] end)
              | None => (true, N.of_nat (length (cheap (base s))), [])
              end = (first, o, oldpath)).
  { unfold o. destruct (kfind fst id (circuits (base s))); eexists; eexists; reflexivity. }
  destruct E as [first [oldpath E]]. rewrite E. clear E.
  destruct st; cbv iota beta; cbn [c_terminal].
  - intros [= <- <-]. repeat split.
  - destruct (fire (wbs s) o (WOkC o)). intros [= <- <-]. repeat split.
  - intros [= <- <-]. repeat split.
  - intros [= <- <-]. repeat split.
  - destruct (fire (wcs s) o (WOkC o)). destruct (reason_of kw). destruct (fire (wbs s) o _). intros [= <- <-]. repeat split.
  - destruct (fire (wcs s) o (WOkC o)). destruct (reason_of kw). destruct (fire (wbs s) o _). intros [= <- <-]. repeat split.
Qed.

Lemma x_stream_tables s id st cid host port kw s' es : x_stream s id st cid host port kw = Some (s', es) ->
  cclosing s' = cclosing s /\ cmds s' = cmds s /\
  sclosing s' = (if s_terminal st then tdel (sclosing s) (xs_obj s id) else sclosing s).
Proof.
  unfold x_stream, xs_obj. destruct (step (base s) (EStream id st cid host port kw)) as [post|]; [|discriminate].
  set (o := match kfind fst id (streams (base s)) with Some p => snd p | None => N.of_nat (length (sheap (base s))) end).
  assert (E : exists first pc, match kfind fst id (streams (base s)) with
              | Some p => (false, snd p, match get_s (snd p) (base s) with Some x => s_circ x | None => None end)
              | None => (true, N.of_nat (length (sheap (base s))), None)
              end = (first, o, pc)).
  { unfold o. destruct (kfind fst id (streams (base s))); eexists; eexists; reflexivity. }
  destruct E as [first [pc E]]. rewrite E. clear E. intros [= <- <-]. repeat split.
Qed.

