(* C04: the model of unescape_quoted_string followed by the latin-1 re-encoding inverts Tor's
   esc_for_log on EVERY path (all 256 byte values). *)
From Coq Require Import List Bool Ascii Arith NArith Lia String.
From TxVerif Require Import Lib.Bytes Lib.Hex Spec.C04 Gen.AuthConsts Model.Auth.
Import ListNotations.
Open Scope N_scope.

Lemma unescape_esc_char : forall a r,
  unescape (esc_char a ++ r) = omap (cons a) (unescape r).
Proof.
  intros a r.
  destruct a as [b0 b1 b2 b3 b4 b5 b6 b7].
  destruct b0, b1, b2, b3, b4, b5, b6, b7;
    (cbn; try reflexivity; destruct (unescape r); reflexivity).
Qed.

Lemma unescape_roundtrip : forall p, unescape (esc_for_log p) = Some p.
Proof.
  induction p as [|a p IH]; [reflexivity|].
  cbn [esc_for_log flat_map]. rewrite unescape_esc_char.
  fold (esc_for_log p). rewrite IH. reflexivity.
Qed.
