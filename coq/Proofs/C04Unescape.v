(* C04: the model of unescape_quoted_string inverts Tor's esc_for_log on every path whose
   bytes are below 128 (and mangles a byte >= 128 into two: finding C04-F1). *)
From Coq Require Import List Bool Ascii Arith NArith Lia String.
From TxVerif Require Import Lib.Bytes Lib.Hex Spec.C04 Model.Auth.
Import ListNotations.
Open Scope N_scope.

Lemma unescape_esc_char_low : forall a r, (code a <? 128) = true ->
  unescape (esc_char a ++ r) = omap (cons a) (unescape r).
Proof.
  intros a r Ha.
  destruct a as [b0 b1 b2 b3 b4 b5 b6 b7].
  destruct b7; [destruct b0, b1, b2, b3, b4, b5, b6; vm_compute in Ha; discriminate|].
  destruct b0, b1, b2, b3, b4, b5, b6;
    (cbn; try reflexivity; destruct (unescape r); reflexivity).
Qed.

Lemma unescape_roundtrip : forall p, high_byte p = false -> unescape (esc_for_log p) = Some p.
Proof.
  induction p as [|a p IH]; intros H; [reflexivity|].
  cbn [high_byte existsb] in H. apply orb_false_iff in H as [Ha Hp].
  cbn [esc_for_log flat_map]. rewrite unescape_esc_char_low.
  - fold (esc_for_log p). rewrite (IH Hp). reflexivity.
  - destruct (code a <? 128) eqn:E; [reflexivity|].
    apply N.ltb_ge in E. apply N.leb_le in E. congruence.
Qed.

(* a byte >= 128 comes back as the two UTF-8 bytes of the code point with that number *)
Lemma unescape_esc_char_high : forall a r, (128 <=? code a) = true ->
  unescape (esc_char a ++ r) =
  omap (app [ch (192 + code a / 64); ch (128 + code a mod 64)]) (unescape r).
Proof.
  intros a r Ha.
  destruct a as [b0 b1 b2 b3 b4 b5 b6 b7].
  destruct b7; [|destruct b0, b1, b2, b3, b4, b5, b6; vm_compute in Ha; discriminate].
  destruct b0, b1, b2, b3, b4, b5, b6;
    (cbn; try reflexivity; destruct (unescape r); reflexivity).
Qed.
