(* C08: theorems about Model/StateNotify.v *)
From Coq Require Import List Bool Arith NArith Lia.
From TxVerif Require Import Lib.Bytes Lib.NList Spec.C07 Spec.C08 Model.State Model.StateNotify
  Proofs.NListProofs Proofs.C07Proofs.
Import ListNotations.
Open Scope N_scope.

(* ================================================================ every wait completes at most once *)
(* conservation of wait ids: an id given to the model in a request is, after every operation, either still
   held in exactly one of the pending places (a SingleObserver's waiter list, the callbacks of a
   _closing_deferred, an unanswered close command) or has been reported done -- never both, never twice *)
Definition os_holders (o : oneshot) : list N := match o with OSPending ws => ws | OSFired _ => [] end.
Definition item_holders (i : cbitem) : list N := match i with CbWaiter w | CbChain w => [w] | CbChainSilent => [] end.
Definition items_holders (l : list cbitem) : list N := concat (map item_holders l).
Definition cmd_holders (c : cmdrec) : list N := match c with CmdC _ w _ | CmdB w => [w] | CmdS _ _ _ => [] end.
Definition tholders {V} (h : V -> list N) (t : list (N * V)) : list N := concat (map (fun p => h (snd p)) t).
Definition holders (s : xstate) : list N :=
  tholders os_holders (wbs s) ++ tholders os_holders (wcs s) ++ tholders items_holders (cclosing s)
  ++ tholders items_holders (sclosing s) ++ concat (map cmd_holders (cmds s)).
Definition done_ids (es : list nev) : list N := map fst (dones es).
Definition req_id (o : op) : list N :=
  match o with OWhenBuilt _ w | OWhenClosed _ w | OCClose _ w | OSClose _ w | OBuild _ w => [w] | _ => [] end.

Lemma countN_concat_map {A} (w : N) (f : A -> list N) l :
  countN w (concat (map f l)) = fold_right (fun x acc => (countN w (f x) + acc)%nat) O l.
Proof. induction l as [|x t IH]; cbn [map concat fold_right]; [reflexivity|]. now rewrite countN_app, IH. Qed.

Section TableCount.
  Context {V : Type} (h : V -> list N) (d : V).
  Hypothesis Hd : h d = [].

  Lemma tget_cons k p t : tget d (p :: t) k = if fst p =? k then snd p else tget d t k.
  Proof. unfold tget. cbn [kfind]. destruct (fst p =? k); reflexivity. Qed.

  Lemma count_tset (w : N) t k v :
    (countN w (tholders h (tset t k v)) + countN w (h (tget d t k)) = countN w (tholders h t) + countN w (h v))%nat.
  Proof.
    unfold tholders, tset. induction t as [|p t IH]; cbn [kset map concat fst snd].
    - unfold tget; cbn [kfind]. rewrite Hd. cbn. rewrite !countN_app. cbn. lia.
    - rewrite tget_cons. destruct (N.eqb_spec (fst p) k) as [E|E]; cbn [map concat snd]; rewrite !countN_app.
      + lia.
      + cbn [fst] in IH. lia.
  Qed.

  Lemma count_tdel (w : N) t k :
    (countN w (tholders h (tdel t k)) + countN w (h (tget d t k)) = countN w (tholders h t))%nat.
  Proof.
    unfold tholders, tdel. induction t as [|p t IH]; cbn [kdel map concat].
    - unfold tget; cbn [kfind]. now rewrite Hd.
    - rewrite tget_cons. destruct (N.eqb_spec (fst p) k) as [E|E]; cbn [map concat]; rewrite ?countN_app; lia.
  Qed.

  Lemma tfind_tget t k : tget d t k = match tfind t k with Some v => v | None => d end.
  Proof. unfold tget, tfind. destruct (kfind fst k t); reflexivity. Qed.
End TableCount.

Lemma done_ids_app a b : done_ids (a ++ b) = done_ids a ++ done_ids b.
Proof. unfold done_ids, dones. now rewrite map_app, concat_app, map_app. Qed.
Lemma done_ids_tell_c ls m o a fl : done_ids (tell_c ls m o a fl) = [].
Proof. unfold done_ids, dones, tell_c. induction ls; cbn; auto. Qed.
Lemma done_ids_tell_s ls m o a fl : done_ids (tell_s ls m o a fl) = [].
Proof. unfold done_ids, dones, tell_s. induction ls; cbn; auto. Qed.
Lemma done_ids_concat_tell_c {A} (f : A -> list nev) l : (forall x, done_ids (f x) = []) -> done_ids (concat (map f l)) = [].
Proof. intros H. induction l as [|x t IH]; cbn [map concat]; [reflexivity|]. now rewrite done_ids_app, H, IH. Qed.
Lemma done_ids_dones r ws : done_ids (map (fun w => NDone w r) ws) = ws.
Proof. unfold done_ids, dones. induction ws as [|x t IH]; cbn in *; [reflexivity|]. now rewrite IH. Qed.

Lemma count_fire (w : N) t o r t' out : fire t o r = (t', out) ->
  countN w (tholders os_holders t) = (countN w (tholders os_holders t') + countN w (done_ids out))%nat.
Proof.
  unfold fire. destruct (tget (OSPending []) t o) as [ws|r0] eqn:E; intros [= <- <-].
  - rewrite done_ids_dones.
    pose proof (count_tset os_holders (OSPending []) eq_refl w t o (OSFired r)) as H. rewrite E in H. cbn [os_holders countN] in H. lia.
  - cbn. lia.
Qed.

Lemma count_run_items (w : N) v items : countN w (done_ids (run_items v items)) = countN w (items_holders items).
Proof.
  revert v. unfold done_ids, dones, items_holders. induction items as [|i t IH]; intros v; [reflexivity|].
  destruct i; cbn [run_items map concat item_holders fst app]; rewrite ?countN_app; cbn [countN];
    try (rewrite (IH v)); try (rewrite (IH WOkNone)); reflexivity.
Qed.

Lemma items_holders_app a b : items_holders (a ++ b) = items_holders a ++ items_holders b.
Proof. unfold items_holders. now rewrite map_app, concat_app. Qed.

Definition hcount (w : N) (s : xstate) : nat :=
  (countN w (tholders os_holders (wbs s)) + countN w (tholders os_holders (wcs s))
   + countN w (tholders items_holders (cclosing s)) + countN w (tholders items_holders (sclosing s))
   + countN w (concat (map cmd_holders (cmds s))))%nat.
Lemma holders_count w s : countN w (holders s) = hcount w s.
Proof. unfold holders, hcount. rewrite !countN_app. lia. Qed.

Lemma done_ids_extends {A} ls o (f : A -> N) (l : list A) :
  done_ids (concat (map (fun h => tell_c ls M_EXTEND o (f h) []) l)) = [].
Proof. apply done_ids_concat_tell_c. intros x. apply done_ids_tell_c. Qed.

Ltac dsimp := repeat (rewrite ?done_ids_app, ?done_ids_tell_c, ?done_ids_tell_s, ?done_ids_extends, ?app_nil_r; cbn [app]).

Lemma done_ids_nil : done_ids [] = [].
Proof. reflexivity. Qed.

Lemma count_items_find (w : N) t o :
  countN w (items_holders (match tfind t o with Some items => items | None => [] end)) =
  countN w (items_holders (tget [] t o)).
Proof. now rewrite (tfind_tget [] t o). Qed.

Lemma done_ids_new (first : bool) ls o : done_ids (if first then tell_c ls M_NEW o 0 [] else []) = [].
Proof. destruct first; [apply done_ids_tell_c | reflexivity]. Qed.
Lemma done_ids_pathmatch ls o (oldpath : list (N * N)) (path : list hop) (kw : kws) :
  done_ids (match path, kw with
            | [], [] => []
            | _, _ => concat (map (fun h => tell_c ls M_EXTEND o (h_rid h) []) (skipn (length oldpath) path))
            end) = [].
Proof. destruct path; destruct kw; try reflexivity; apply done_ids_extends. Qed.

Ltac dsimp2 := repeat (rewrite ?done_ids_app, ?done_ids_new, ?done_ids_pathmatch, ?done_ids_tell_c, ?done_ids_tell_s,
                               ?done_ids_nil, ?app_nil_r, ?app_nil_l).

Lemma conservation_circ s id st path kw s' es (w : N) :
  x_circ s id st path kw = Some (s', es) -> hcount w s = (hcount w s' + countN w (done_ids es))%nat.
Proof.
  unfold x_circ. destruct (step (base s) (ECirc id st path kw)) as [post|]; [|discriminate].
  destruct (match kfind fst id (circuits (base s)) with Some p => _ | None => _ end) as [[first o] oldpath].
  destruct st; cbv iota beta.
  - intros [= <- <-]. unfold hcount; cbn [wbs wcs cclosing sclosing cmds]. dsimp2. cbn [countN]. lia.
  - destruct (fire (wbs s) o (WOkC o)) as [wbs1 fired] eqn:F. intros [= <- <-].
    unfold hcount; cbn [wbs wcs cclosing sclosing cmds]. dsimp2. rewrite (count_fire w _ _ _ _ _ F). lia.
  - intros [= <- <-]. unfold hcount; cbn [wbs wcs cclosing sclosing cmds]. dsimp2. cbn [countN]. lia.
  - intros [= <- <-]. unfold hcount; cbn [wbs wcs cclosing sclosing cmds]. dsimp2. cbn [countN]. lia.
  - destruct (fire (wcs s) o (WOkC o)) as [wcs1 o_wc] eqn:F1. destruct (reason_of kw) as [r1 r2].
    destruct (fire (wbs s) o (WFail 2 r1 r2)) as [wbs1 o_wb] eqn:F2. intros [= <- <-].
    unfold hcount; cbn [wbs wcs cclosing sclosing cmds]. dsimp2. rewrite !countN_app.
    rewrite (count_fire w _ _ _ _ _ F1), (count_fire w _ _ _ _ _ F2).
    pose proof (count_tdel items_holders [] eq_refl w (cclosing s) o) as H.
    rewrite (tfind_tget [] (cclosing s) o) in H.
    destruct (tfind (cclosing s) o) as [items|]; [rewrite count_run_items | cbn [done_ids dones map concat countN]];
      cbn [items_holders map concat countN] in H; lia.
  - destruct (fire (wcs s) o (WOkC o)) as [wcs1 o_wc] eqn:F1. destruct (reason_of kw) as [r1 r2].
    destruct (fire (wbs s) o (WFail 1 r1 r2)) as [wbs1 o_wb] eqn:F2. intros [= <- <-].
    unfold hcount; cbn [wbs wcs cclosing sclosing cmds]. dsimp2. rewrite !countN_app.
    rewrite (count_fire w _ _ _ _ _ F1), (count_fire w _ _ _ _ _ F2).
    pose proof (count_tdel items_holders [] eq_refl w (cclosing s) o) as H.
    rewrite (tfind_tget [] (cclosing s) o) in H.
    destruct (tfind (cclosing s) o) as [items|]; [rewrite count_run_items | cbn [done_ids dones map concat countN]];
      cbn [items_holders map concat countN] in H; lia.
Qed.

Lemma done_ids_attach ls o st cid (pre_circ : option N) (pre : mstate) :
  done_ids (match st with
            | SClosed | SFailed | SDetached => []
            | _ => if cid =? 0 then [] else
                   match pre_circ with
                   | Some _ => []
                   | None => match kfind fst cid (circuits pre) with
                             | Some p => match get_c (snd p) pre with
                                         | Some c => if memN o (c_streams c) then [] else tell_s ls MS_ATTACH o (snd p + 1) []
                                         | None => []
                                         end
                             | None => []
                             end
                   end
            end) = [].
Proof.
  destruct st; try reflexivity; destruct (cid =? 0); try reflexivity; destruct pre_circ; try reflexivity;
    destruct (kfind fst cid (circuits pre)) as [p|]; try reflexivity; destruct (get_c (snd p) pre) as [c|]; try reflexivity;
    destruct (memN o (c_streams c)); try reflexivity; apply done_ids_tell_s.
Qed.

Lemma conservation_stream s id st cid host port kw s' es (w : N) :
  x_stream s id st cid host port kw = Some (s', es) -> hcount w s = (hcount w s' + countN w (done_ids es))%nat.
Proof.
  unfold x_stream. destruct (step (base s) (EStream id st cid host port kw)) as [post|]; [|discriminate].
  destruct (match kfind fst id (streams (base s)) with Some p => _ | None => _ end) as [[first o] pre_circ].
  intros [= <- <-]. unfold hcount; cbn [wbs wcs cclosing sclosing cmds]. rewrite done_ids_app, done_ids_attach, app_nil_r.
  pose proof (count_tdel items_holders [] eq_refl w (sclosing s) o) as H.
  rewrite (tfind_tget [] (sclosing s) o) in H.
  destruct st; cbn [s_terminal]; dsimp2; cbn [countN]; try lia.
  - destruct (tfind (sclosing s) o) as [items|].
    + rewrite count_run_items. lia.
    + cbn [done_ids dones map concat countN items_holders] in *. lia.
  - destruct (tfind (sclosing s) o) as [items|].
    + rewrite count_run_items. lia.
    + cbn [done_ids dones map concat countN items_holders] in *. lia.
Qed.

Lemma count_cmds_app (w : N) a b :
  countN w (concat (map cmd_holders (a ++ b))) = (countN w (concat (map cmd_holders a)) + countN w (concat (map cmd_holders b)))%nat.
Proof. now rewrite map_app, concat_app, countN_app. Qed.

Theorem conservation s o s' es (w : N) : x_op s o = Some (s', es) ->
  (countN w (holders s) + countN w (req_id o) = countN w (holders s') + countN w (done_ids es))%nat.
Proof.
  rewrite !holders_count. destruct o as [e|l|l|ob l|ob l|ob l|ob l|ob wt|ob wt|ob wt|ob wt| |rs wt|id|]; cbn [x_op req_id].
  - destruct e as [id st path kw|id st cid host port kw]; intros H; cbn [countN].
    + rewrite (conservation_circ _ _ _ _ _ _ _ w H). lia.
    + rewrite (conservation_stream _ _ _ _ _ _ _ _ _ w H). lia.
  - intros [= <- <-]. unfold hcount; cbn [wbs wcs cclosing sclosing cmds countN done_ids dones map concat fst]. lia.
  - intros [= <- <-]. unfold hcount; cbn [wbs wcs cclosing sclosing cmds countN done_ids dones map concat fst]. lia.
  - destruct (get_c ob (base s)); [|discriminate]. intros [= <- <-]. unfold hcount; cbn [wbs wcs cclosing sclosing cmds countN done_ids dones map concat fst]. lia.
  - destruct (get_c ob (base s)); [|discriminate]. destruct (memN l (tget [] (cls s) ob)); [|discriminate].
    intros [= <- <-]. unfold hcount; cbn [wbs wcs cclosing sclosing cmds countN done_ids dones map concat fst]. lia.
  - destruct (get_s ob (base s)); [|discriminate]. intros [= <- <-]. unfold hcount; cbn [wbs wcs cclosing sclosing cmds countN done_ids dones map concat fst]. lia.
  - destruct (get_s ob (base s)); [|discriminate]. destruct (memN l (tget [] (sls s) ob)); [|discriminate].
    intros [= <- <-]. unfold hcount; cbn [wbs wcs cclosing sclosing cmds countN done_ids dones map concat fst]. lia.
  - (* when_built *)
    destruct (get_c ob (base s)) as [c|]; [|discriminate].
    assert (G : match tget (OSPending []) (wbs s) ob with
                | OSFired r => Some (s, [NDone wt r])
                | OSPending ws => Some ({| base := base s; cls := cls s; sls := sls s; gcl := gcl s; gsl := gsl s;
                                           wbs := tset (wbs s) ob (OSPending (ws ++ [wt])); wcs := wcs s; cclosing := cclosing s;
                                           sclosing := sclosing s; cmds := cmds s |}, [])
                end = Some (s', es) ->
                (hcount w s + countN w [wt] = hcount w s' + countN w (done_ids es))%nat).
    { pose proof (count_tset os_holders (OSPending []) eq_refl w (wbs s) ob) as T.
      destruct (tget (OSPending []) (wbs s) ob) as [ws|r]; intros [= <- <-].
      - unfold hcount; cbn [wbs wcs cclosing sclosing cmds]. specialize (T (OSPending (ws ++ [wt]))).
        cbn [os_holders] in T. rewrite countN_app in T. cbn [done_ids dones map concat app fst countN] in *. lia.
      - cbn [done_ids dones map concat app fst countN]. lia. }
    destruct (c_state c) as [[]|]; try exact G. intros [= <- <-]. cbn [done_ids dones map concat app fst countN]. lia.
  - (* when_closed *)
    destruct (get_c ob (base s)) as [c|]; [|discriminate].
    assert (G : match tget (OSPending []) (wcs s) ob with
                | OSFired r => Some (s, [NDone wt r])
                | OSPending ws => Some ({| base := base s; cls := cls s; sls := sls s; gcl := gcl s; gsl := gsl s; wbs := wbs s;
                                           wcs := tset (wcs s) ob (OSPending (ws ++ [wt])); cclosing := cclosing s;
                                           sclosing := sclosing s; cmds := cmds s |}, [])
                end = Some (s', es) ->
                (hcount w s + countN w [wt] = hcount w s' + countN w (done_ids es))%nat).
    { pose proof (count_tset os_holders (OSPending []) eq_refl w (wcs s) ob) as T.
      destruct (tget (OSPending []) (wcs s) ob) as [ws|r]; intros [= <- <-].
      - unfold hcount; cbn [wbs wcs cclosing sclosing cmds]. specialize (T (OSPending (ws ++ [wt]))).
        cbn [os_holders] in T. rewrite countN_app in T. cbn [done_ids dones map concat app fst countN] in *. lia.
      - cbn [done_ids dones map concat app fst countN]. lia. }
    destruct (c_state c) as [[]|]; try exact G; intros [= <- <-]; cbn [done_ids dones map concat app fst countN]; lia.
  - (* circuit close *)
    destruct (get_c ob (base s)) as [c|]; [|discriminate].
    assert (G : match tfind (cclosing s) ob with
                | Some items =>
                    Some ({| base := base s; cls := cls s; sls := sls s; gcl := gcl s; gsl := gsl s; wbs := wbs s; wcs := wcs s;
                             cclosing := tset (cclosing s) ob (items ++ [CbWaiter wt]); sclosing := sclosing s; cmds := cmds s |}, [])
                | None =>
                    let ok := kmem fst (c_id c) (circuits (base s)) in
                    Some ({| base := base s; cls := cls s; sls := sls s; gcl := gcl s; gsl := gsl s; wbs := wbs s; wcs := wcs s;
                             cclosing := tset (cclosing s) ob []; sclosing := sclosing s; cmds := cmds s ++ [CmdC ob wt ok] |},
                          [NCmd 0 (c_id c)])
                end = Some (s', es) ->
                (hcount w s + countN w [wt] = hcount w s' + countN w (done_ids es))%nat).
    { pose proof (count_tset items_holders [] eq_refl w (cclosing s) ob) as T.
      rewrite (tfind_tget [] (cclosing s) ob) in T.
      destruct (tfind (cclosing s) ob) as [items|]; intros [= <- <-]; unfold hcount; cbn [wbs wcs cclosing sclosing cmds].
      - specialize (T (items ++ [CbWaiter wt])). rewrite items_holders_app, countN_app in T.
        cbn [items_holders item_holders map concat app done_ids dones countN] in *. lia.
      - specialize (T []). rewrite count_cmds_app.
        cbn [items_holders item_holders cmd_holders map concat app done_ids dones countN] in *. lia. }
    destruct (c_state c) as [[]|]; try exact G; intros [= <- <-]; cbn [done_ids dones map concat app fst countN]; lia.
  - (* stream close *)
    destruct (get_s ob (base s)) as [x|]; [|discriminate].
    assert (G : match tfind (sclosing s) ob with
                | Some items =>
                    Some ({| base := base s; cls := cls s; sls := sls s; gcl := gcl s; gsl := gsl s; wbs := wbs s; wcs := wcs s;
                             cclosing := cclosing s; sclosing := tset (sclosing s) ob (items ++ [CbWaiter wt]); cmds := cmds s |}, [])
                | None =>
                    let ok := kmem fst (s_id x) (streams (base s)) in
                    Some ({| base := base s; cls := cls s; sls := sls s; gcl := gcl s; gsl := gsl s; wbs := wbs s; wcs := wcs s;
                             cclosing := cclosing s; sclosing := tset (sclosing s) ob [CbWaiter wt]; cmds := cmds s ++ [CmdS ob wt ok] |},
                          [NCmd 1 (s_id x)])
                end = Some (s', es) ->
                (hcount w s + countN w [wt] = hcount w s' + countN w (done_ids es))%nat).
    { pose proof (count_tset items_holders [] eq_refl w (sclosing s) ob) as T.
      rewrite (tfind_tget [] (sclosing s) ob) in T.
      destruct (tfind (sclosing s) ob) as [items|]; intros [= <- <-]; unfold hcount; cbn [wbs wcs cclosing sclosing cmds].
      + specialize (T (items ++ [CbWaiter wt])). rewrite items_holders_app, countN_app in T.
        cbn [items_holders item_holders map concat app done_ids dones countN] in *. lia.
      + specialize (T [CbWaiter wt]). rewrite count_cmds_app.
        cbn [items_holders item_holders cmd_holders map concat app done_ids dones countN] in *. lia. }
    destruct (s_state x) as [[]|]; try exact G; intros [= <- <-]; cbn [done_ids dones map concat app fst countN]; lia.
  - (* acknowledgement *)
    destruct (cmds s) as [|[ob wt ok|ob wt ok|wt] q] eqn:Ec; [| | |discriminate].
    + intros [= <- <-]. cbn. lia.
    + destruct ok.
      * pose proof (count_tset items_holders [] eq_refl w (cclosing s) ob) as T.
        rewrite (tfind_tget [] (cclosing s) ob) in T.
        destruct (tfind (cclosing s) ob) as [items|]; intros [= <- <-]; unfold hcount; cbn [wbs wcs cclosing sclosing cmds]; rewrite Ec.
        -- specialize (T (items ++ [CbChain wt])). rewrite items_holders_app, countN_app in T.
           cbn [items_holders item_holders cmd_holders map concat app done_ids dones countN] in *. cbn [countN]. destruct (w =? wt); lia.
        -- cbn [cmd_holders map concat app done_ids dones fst countN]. cbn [countN]. destruct (w =? wt); lia.
      * intros [= <- <-]. unfold hcount; cbn [wbs wcs cclosing sclosing cmds]; rewrite Ec.
        cbn [cmd_holders map concat app done_ids dones fst countN]. cbn [countN]. destruct (w =? wt); lia.
    + intros [= <- <-]. unfold hcount; cbn [wbs wcs cclosing sclosing cmds]; rewrite Ec. cbn [cmd_holders map concat app].
      destruct ok; [|cbn; lia].
      pose proof (count_tset items_holders [] eq_refl w (sclosing s) ob) as T.
      rewrite (tfind_tget [] (sclosing s) ob) in T.
      destruct (tfind (sclosing s) ob) as [items|]; [|cbn; lia].
      specialize (T (items ++ [CbChainSilent])). rewrite items_holders_app, countN_app in T.
      cbn [items_holders item_holders map concat app done_ids dones countN] in *. lia.
  - (* build_circuit *)
    intros [= <- <-]. unfold hcount; cbn [wbs wcs cclosing sclosing cmds]. rewrite count_cmds_app.
    assert (D : done_ids (NCmd 2 (N.of_nat (length rs)) :: map (NCmd 3) rs) = []).
    { unfold done_ids, dones. cbn [map concat app]. induction rs as [|r t IH]; [reflexivity | exact IH]. }
    rewrite D. cbn [cmd_holders map concat app countN]. lia.
  - (* 250 EXTENDED id *)
    destruct (cmds s) as [|[ob wt ok|ob wt ok|wt] q] eqn:Ec; try discriminate.
    destruct (x_circ s id CExtended [] []) as [[s1 es1]|] eqn:X; [|discriminate]. intros [= <- <-].
    pose proof (conservation_circ _ _ _ _ _ _ _ w X) as H.
    assert (Ec1 : cmds s1 = cmds s).
    { revert X. unfold x_circ. destruct (step (base s) (ECirc id CExtended [] [])); [|discriminate].
      destruct (kfind fst id (circuits (base s))); intros [= <- _]; reflexivity. }
    unfold hcount in *; cbn [wbs wcs cclosing sclosing cmds] in *. rewrite Ec1, Ec in H.
    rewrite done_ids_app. cbn [cmd_holders map concat app done_ids dones fst countN] in *. rewrite countN_app. cbn [countN].
    rewrite Ec. cbn [cmd_holders map concat app countN]. destruct (w =? wt); lia.
  - (* 5xx for EXTENDCIRCUIT *)
    destruct (cmds s) as [|[ob wt ok|ob wt ok|wt] q] eqn:Ec; try discriminate. intros [= <- <-].
    unfold hcount; cbn [wbs wcs cclosing sclosing cmds]; rewrite Ec.
    cbn [cmd_holders map concat app done_ids dones fst countN]. cbn [countN]. destruct (w =? wt); lia.
Qed.

Lemma xrun_from_bound ops : forall s tr (w : N), xrun_from s ops = Some tr ->
  (countN w (concat (map done_ids tr)) <= countN w (holders s) + countN w (concat (map req_id ops)))%nat.
Proof.
  induction ops as [|o t IH]; intros s tr w H; cbn [xrun_from] in H.
  - injection H as <-. cbn. lia.
  - destruct (x_op s o) as [[s' es]|] eqn:E; [|discriminate].
    destruct (xrun_from s' t) as [tr'|] eqn:R; [|discriminate]. injection H as <-.
    cbn [map concat]. rewrite !countN_app. pose proof (conservation s o s' es w E). pose proof (IH s' tr' w R). lia.
Qed.

Lemma NoDup_count_le1 (w : N) l : NoDup l -> (countN w l <= 1)%nat.
Proof.
  intros H. destruct (in_dec N.eq_dec w l) as [i|n]; [rewrite (NoDup_count1 w l H i) | rewrite (countN_notin w l n)]; lia.
Qed.

(* every wait id handed to the model at most once is reported done at most once, over the whole history,
   whatever the events, acknowledgements and other requests are (no legality needed); and only ids that
   were requested are ever reported *)
Lemma waits_at_most_once rts ops tr (w : N) :
  xrun rts ops = Some tr -> NoDup (concat (map req_id ops)) ->
  (countN w (concat (map done_ids tr)) <= 1)%nat.
Proof.
  intros H Hnd. pose proof (xrun_from_bound ops (xinit rts) tr w H) as B.
  assert (Z : countN w (holders (xinit rts)) = O) by reflexivity.
  pose proof (NoDup_count_le1 w _ Hnd). lia.
Qed.

Lemma done_only_if_requested rts ops tr (w : N) :
  xrun rts ops = Some tr -> In w (concat (map done_ids tr)) -> In w (concat (map req_id ops)).
Proof.
  intros H Hin. pose proof (xrun_from_bound ops (xinit rts) tr w H) as B.
  assert (Z : countN w (holders (xinit rts)) = O) by reflexivity.
  pose proof (countN_In_pos _ _ Hin). apply countN_pos_In. lia.
Qed.

Lemma lstep_ev_used ls e ls' : lstep_ev ls e = Some ls' -> l_used ls' = l_used ls.
Proof.
  unfold lstep_ev. destruct (negb (ev_legal (l_tv ls) e)); [discriminate|].
  destruct e as [id st path kw|id st cid host port kw].
  - destruct (locate id (l_cdict ls) (l_nc ls)) as [f n]. now intros [= <-].
  - destruct (locate id (l_sdict ls) (l_ns ls)) as [f n]. now intros [= <-].
Qed.

Lemma lstep_used ls o ls' : lstep ls o = Some ls' ->
  l_used ls' = req_id o ++ l_used ls /\ (forall w, In w (req_id o) -> ~ In w (l_used ls)).
Proof.
  destruct o as [e|l|l|ob l|ob l|ob l|ob l|ob wt|ob wt|ob wt|ob wt| |rs wt|id|]; cbn [lstep req_id app].
  - intros H. split; [now apply (lstep_ev_used ls e) | tauto].
  - intros [= <-]. cbn. split; [reflexivity | tauto].
  - intros [= <-]. cbn. split; [reflexivity | tauto].
  - destruct (ob <? l_nc ls); [|discriminate]. intros [= <-]. cbn. split; [reflexivity | tauto].
  - destruct ((ob <? l_nc ls) && memN l (tget [] (l_cregs ls) ob)); [|discriminate].
    intros [= <-]. cbn. split; [reflexivity | tauto].
  - destruct (ob <? l_ns ls); [|discriminate]. intros [= <-]. cbn. split; [reflexivity | tauto].
  - destruct ((ob <? l_ns ls) && memN l (tget [] (l_sregs ls) ob)); [|discriminate].
    intros [= <-]. cbn. split; [reflexivity | tauto].
  - destruct (ob <? l_nc ls); cbn [andb]; [|discriminate]. destruct (memN wt (l_used ls)) eqn:M; [discriminate|].
    intros [= <-]. cbn. split; [reflexivity|]. intros w [<-|[]]. now apply memN_false.
  - destruct (ob <? l_nc ls); cbn [andb]; [|discriminate]. destruct (memN wt (l_used ls)) eqn:M; [discriminate|].
    intros [= <-]. cbn. split; [reflexivity|]. intros w [<-|[]]. now apply memN_false.
  - destruct (ob <? l_nc ls); cbn [andb]; [|discriminate]. destruct (memN wt (l_used ls)) eqn:M; [discriminate|].
    cbn [negb andb]. destruct (l_nb ls =? 0); [|discriminate].
    intros [= <-]. cbn. split; [reflexivity|]. intros w [<-|[]]. now apply memN_false.
  - destruct (ob <? l_ns ls); cbn [andb]; [|discriminate]. destruct (memN wt (l_used ls)) eqn:M; [discriminate|].
    cbn [negb andb]. destruct (l_nb ls =? 0); [|discriminate].
    intros [= <-]. cbn. split; [reflexivity|]. intros w [<-|[]]. now apply memN_false.
  - destruct (l_nb ls =? 0); [|discriminate]. intros [= <-]. split; [reflexivity | cbn; tauto].
  - destruct (l_ncl ls =? 0); cbn [andb]; [|discriminate]. destruct (memN wt (l_used ls)) eqn:M; [discriminate|].
    intros [= <-]. cbn. split; [reflexivity|]. intros w [<-|[]]. now apply memN_false.
  - destruct ((0 <? l_nb ls) && ext_ok (l_tv ls) id); [|discriminate].
    destruct (lstep_ev ls (ext_event id)) as [l1|] eqn:E; [|discriminate]. intros [= <-]. cbn [option_map with_q l_used].
    split; [now apply (lstep_ev_used ls (ext_event id)) | tauto].
  - destruct (0 <? l_nb ls); [|discriminate]. intros [= <-]. split; [reflexivity | cbn; tauto].
Qed.

Lemma legal8_fresh ops : forall ls, legal8_from ls ops = true ->
  NoDup (concat (map req_id ops)) /\ (forall w, In w (concat (map req_id ops)) -> ~ In w (l_used ls)).
Proof.
  induction ops as [|o t IH]; intros ls H; cbn [legal8_from map concat] in *.
  - split; [constructor | intros w []].
  - destruct (lstep ls o) as [ls'|] eqn:E; [|discriminate].
    destruct (lstep_used ls o ls' E) as [U F]. destruct (IH ls' H) as [ND NI].
    split.
    + destruct (req_id o) as [|w0 [|]] eqn:R; cbn [app].
      * exact ND.
      * constructor; [|exact ND]. intros Hi. apply (NI w0 Hi). rewrite U. cbn. now left.
      * exfalso. destruct o; cbn in R; discriminate.
    + intros w Hw. apply in_app_or in Hw as [Hw|Hw]; [now apply F|].
      intros Hu. apply (NI w Hw). rewrite U. apply in_or_app. now right.
Qed.

Lemma waits_once_legal rts ops tr (w : N) :
  legal8 ops = true -> xrun rts ops = Some tr -> (countN w (concat (map done_ids tr)) <= 1)%nat.
Proof.
  intros L H. destruct (legal8_fresh ops ls0 L) as [ND _]. now apply (waits_at_most_once rts ops tr w H ND).
Qed.

(* ================================================================ the witnesses of the two repaired findings *)
(* C08-F1 (Stream.close after CLOSED/FAILED never completed) and C08-F2 (Circuit.close on a FAILED circuit
   re-chained an earlier waiter): after the repairs (ce7627d, b4f1a1d) the same histories are accepted *)
Definition wit_F1 : list op :=
  [OEv (EStream 1 SNew 0 0 80 [(4, 70004)]); OEv (EStream 1 SClosed 0 0 80 [(2, 5)]); OSClose 0 1; OAck].
Definition wit_F2 : list op :=
  [OEv (ECirc 1 CLaunched [] [(0, 0)]); OCClose 0 1; OEv (ECirc 1 CFailed [] [(2, 1)]); OCClose 0 2; OAck; OAck].

Lemma stream_close_after_gone_now_accepted :
  legal8 wit_F1 = true /\ xrun [] wit_F1 = Some [[]; []; [NDone 1 (WOkS 0)]; []] /\
  oracle8 wit_F1 [[]; []; [NDone 1 (WOkS 0)]; []] = true.
Proof. vm_compute. repeat split; reflexivity. Qed.

Lemma circuit_close_after_failed_now_accepted :
  legal8 wit_F2 = true /\
  xrun [] wit_F2 = Some [[]; [NCmd 0 1]; []; [NDone 2 WOkNone]; [NDone 1 WOkNone]; []] /\
  oracle8 wit_F2 [[]; [NCmd 0 1]; []; [NDone 2 WOkNone]; [NDone 1 WOkNone]; []] = true.
Proof. vm_compute. repeat split; reflexivity. Qed.
