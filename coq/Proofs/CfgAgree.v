(* The model's per-type functions (TorConfigType.validate / .parse, selected through the
   regenerated table Gen/ConfigTypes.v) agree with the Spec's typed semantics
   (Spec.CfgOracle.spec_validate, Spec.TorStore.parse_scalar) on every declared type and every
   value of the envelope:
     - the value an assignment makes pending is the Spec's validated value (or both refuse);
     - re-reading the text that save() sends, by the declared type, gives the value the model
       stores in `config` -- "reads return the saved values".
   Decimal text round trip is the standard library's (DecimalN / DecimalPos). *)
From Coq Require Import String.
From Coq Require Import List Bool Ascii Arith NArith ZArith Lia.
From Coq Require Decimal DecimalN DecimalPos.
From TxVerif Require Import Lib.Bytes Lib.CfgLib Spec.CfgTypes Spec.TorStore Spec.CfgOracle
  Model.ConfigKinds Gen.ConfigTypes Model.Config Proofs.CfgLibProofs.
Import ListNotations.
Open Scope N_scope.

(* ------------------------------------------------------------------ decimal round trip *)
Lemma bytes_uint_bytes u : bytes_uint (uint_bytes u) = Some u.
Proof. induction u; cbn [uint_bytes bytes_uint]; try reflexivity; rewrite IHu; reflexivity. Qed.

Lemma uint_bytes_nonnil u : u <> Decimal.Nil -> uint_bytes u <> [].
Proof. destruct u; cbn; congruence. Qed.

Lemma uint_bytes_head u c r : uint_bytes u = c :: r -> Ascii.eqb c DASH = false.
Proof. destruct u; cbn; intros H; inversion H; reflexivity. Qed.

Lemma to_uint_nonnil n : N.to_uint n <> Decimal.Nil.
Proof. destruct n; cbn; [discriminate|apply DecimalPos.Unsigned.to_uint_nonnil]. Qed.

Lemma parse_nat_dec n : parse_nat (dec_of_N n) = Some n.
Proof.
  unfold parse_nat, dec_of_N.
  destruct (uint_bytes (N.to_uint n)) eqn:E.
  - exfalso. exact (uint_bytes_nonnil _ (to_uint_nonnil n) E).
  - rewrite <- E, bytes_uint_bytes. cbn. now rewrite DecimalN.Unsigned.of_to.
Qed.

Lemma dec_of_N_head n c r : dec_of_N n = c :: r -> Ascii.eqb c DASH = false.
Proof. apply uint_bytes_head. Qed.

Lemma parse_int_dec z : parse_int (dec_of_Z z) = Some z.
Proof.
  destruct z as [|p|p]; unfold dec_of_Z, parse_int.
  - reflexivity.
  - destruct (dec_of_N (N.pos p)) eqn:E.
    + pose proof (parse_nat_dec (N.pos p)) as H. rewrite E in H. discriminate.
    + rewrite (dec_of_N_head _ _ _ E). rewrite <- E, parse_nat_dec. reflexivity.
  - assert (Ascii.eqb DASH DASH = true) as -> by reflexivity. rewrite parse_nat_dec. reflexivity.
Qed.

(* ------------------------------------------------------------------ int(str) *)
Definition int_bad (c : ascii) : bool := is_space c || (code c =? 95) || (code c <? 32) || (126 <? code c).

Lemma digit_not_bad c : is_digit c = true -> int_bad c = false.
Proof.
  unfold is_digit, int_bad, is_space. intros H. apply andb_true_iff in H as [H1 H2].
  apply N.leb_le in H1, H2.
  repeat (apply orb_false_iff; split); try (apply andb_false_iff); try (apply N.eqb_neq; lia);
    try (apply N.ltb_ge; lia).
  - right. apply N.leb_gt. lia.
  - right. apply N.leb_gt. lia.
Qed.

Lemma digit_cons_is_digit c d : digit_cons c = Some d -> is_digit c = true.
Proof.
  unfold digit_cons, is_digit.
  repeat match goal with |- context [if ?b then _ else _] => destruct b eqn:?; [match goal with H : (_ =? _) = true |- _ => apply N.eqb_eq in H; rewrite H; intros _; reflexivity end|] end.
  discriminate.
Qed.

Lemma bytes_uint_digits b u : bytes_uint b = Some u -> forallb is_digit b = true.
Proof.
  revert u. induction b as [|c b IH]; intros u H; [reflexivity|].
  cbn [bytes_uint] in H. destruct (digit_cons c) as [d|] eqn:Ed; [|discriminate].
  destruct (bytes_uint b) as [u'|] eqn:Eb; [|discriminate].
  cbn [forallb]. rewrite (digit_cons_is_digit _ _ Ed), (IH _ eq_refl). reflexivity.
Qed.

Lemma parse_nat_digits b n : parse_nat b = Some n -> forallb is_digit b = true /\ b <> [].
Proof.
  unfold parse_nat. destruct b as [|c b]; [discriminate|].
  destruct (bytes_uint (c :: b)) as [u|] eqn:E; [|discriminate].
  intros _. split; [eapply bytes_uint_digits; eassumption|discriminate].
Qed.

Lemma digits_not_bad b : forallb is_digit b = true -> existsb int_bad b = false.
Proof.
  induction b as [|c b IH]; [reflexivity|]. cbn. intros H. apply andb_true_iff in H as [H1 H2].
  now rewrite (digit_not_bad _ H1), IH.
Qed.

Lemma digit_not_plus c : is_digit c = true -> Ascii.eqb c PLUS = false.
Proof.
  intros H. destruct (Ascii.eqb c PLUS) eqn:E; [|reflexivity]. apply Ascii.eqb_eq in E. subst. discriminate H.
Qed.

(* a plain decimal is read by int() as by the Spec *)
Lemma str_int_of_parse_int s z : parse_int s = Some z -> str_int s = Ok z.
Proof.
  intros H. unfold str_int. fold int_bad.
  change (fun c : ascii => is_space c || (code c =? 95) || (code c <? 32) || (126 <? code c)) with int_bad.
  unfold parse_int in H. destruct s as [|c r]; [discriminate|].
  destruct (Ascii.eqb c DASH) eqn:Ed.
  - apply Ascii.eqb_eq in Ed. subst c.
    destruct (parse_nat r) as [n|] eqn:En; [|discriminate].
    destruct (parse_nat_digits _ _ En) as [Hd _].
    cbn [existsb]. assert (int_bad DASH = false) as -> by reflexivity. rewrite (digits_not_bad _ Hd). cbn [orb].
    assert (Ascii.eqb DASH PLUS = false) as -> by reflexivity.
    unfold parse_int. assert (Ascii.eqb DASH DASH = true) as -> by reflexivity. rewrite En. cbn in *. now inversion H.
  - destruct (parse_nat (c :: r)) as [n|] eqn:En; [|discriminate].
    destruct (parse_nat_digits _ _ En) as [Hd _].
    rewrite (digits_not_bad _ Hd).
    cbn [forallb] in Hd. apply andb_true_iff in Hd as [Hc _]. rewrite (digit_not_plus _ Hc).
    unfold parse_int. rewrite Ed, En. cbn in *. now inversion H.
Qed.

Definition is_letter (a : ascii) : bool := ((65 <=? code a) && (code a <=? 90)) || ((97 <=? code a) && (code a <=? 122)).

Lemma letter_facts c : is_letter c = true ->
  int_bad c = false /\ is_digit c = false /\ Ascii.eqb c PLUS = false /\ Ascii.eqb c DASH = false.
Proof.
  intros H.
  assert ((65 <= code c /\ code c <= 90) \/ (97 <= code c /\ code c <= 122)) as Hr.
  { unfold is_letter in H. apply orb_true_iff in H as [H|H]; apply andb_true_iff in H as [H1 H2];
      apply N.leb_le in H1, H2; [left|right]; split; assumption. }
  split; [|split; [|split]].
  - unfold int_bad, is_space.
    repeat (apply orb_false_iff; split); try (apply N.eqb_neq; lia); try (apply N.ltb_ge; lia).
    + apply andb_false_iff. right. apply N.leb_gt. lia.
    + apply andb_false_iff. destruct Hr; [right|right]; apply N.leb_gt; lia.
  - unfold is_digit. apply andb_false_iff. right. apply N.leb_gt. lia.
  - destruct (Ascii.eqb c PLUS) eqn:E; [|reflexivity]. apply Ascii.eqb_eq in E. subst. cbn in Hr. lia.
  - destruct (Ascii.eqb c DASH) eqn:E; [|reflexivity]. apply Ascii.eqb_eq in E. subst. cbn in Hr. lia.
Qed.

Lemma letters_not_bad s : forallb is_letter s = true -> existsb int_bad s = false.
Proof.
  induction s as [|c s IH]; [reflexivity|]. cbn. intros H. apply andb_true_iff in H as [H1 H2].
  destruct (letter_facts _ H1) as [Hb _]. now rewrite Hb, IH.
Qed.

Lemma letter_not_digit_cons c : is_letter c = true -> digit_cons c = None.
Proof.
  intros H. destruct (digit_cons c) as [d|] eqn:E; [|reflexivity].
  apply digit_cons_is_digit in E. destruct (letter_facts _ H) as [_ [Hd _]]. congruence.
Qed.

(* letters only: int() raises ValueError, and the Spec has no integer for it *)
Lemma letters_not_int s : letters_only s = true -> parse_int s = None /\ str_int s = Exc E_Value.
Proof.
  unfold letters_only. intros H. apply andb_true_iff in H as [Hne Hl].
  change (forallb (fun a : ascii => ((65 <=? code a) && (code a <=? 90)) || ((97 <=? code a) && (code a <=? 122))) s)
    with (forallb is_letter s) in Hl.
  destruct s as [|c r]; [discriminate|]. clear Hne.
  pose proof Hl as Hl'. cbn [forallb] in Hl'. apply andb_true_iff in Hl' as [Hc Hr].
  destruct (letter_facts _ Hc) as [_ [_ [Hp Hd]]].
  assert (parse_int (c :: r) = None) as Hpi.
  { unfold parse_int. rewrite Hd. unfold parse_nat. cbn [bytes_uint]. now rewrite (letter_not_digit_cons _ Hc). }
  split; [assumption|].
  unfold str_int.
  change (fun c0 : ascii => is_space c0 || (code c0 =? 95) || (code c0 <? 32) || (126 <? code c0)) with int_bad.
  rewrite (letters_not_bad _ Hl), Hp, Hpi. reflexivity.
Qed.

(* ------------------------------------------------------------------ declared type -> table entry *)
Definition ty_of (k : kind) : tyinfo :=
  match k with
  | KBool => (PBool, VBool01, false)
  | KBoolAuto => (PBoolAuto, VBoolAuto, false)
  | KInt => (PInt, VInt, false)
  | KFloat => (PFloat, VIdentity, false)
  | KStr => (PIdentity, VIdentity, false)
  | KComma => (PComma, VIdentity, true)
  | KLine => (PLines, VLineList, true)
  | KPorts => (PIdentity, VIdentity, false)      (* the String() parser _do_setup installs *)
  end.

(* every type name Tor prints selects, in the regenerated config_types, the parse / validate
   shapes the Spec's kind stands for *)
Lemma type_table_agrees t k :
  kind_of_type t = Some (Some k) -> lookup_type (plus_to_underscore t) = Some (ty_of k).
Proof.
  unfold kind_of_type.
  repeat match goal with
         | |- context [beqb t ?lit] =>
             destruct (beqb t lit) eqn:?;
             [match goal with H : beqb t _ = true |- _ => apply beqb_eq in H; subst t end;
              cbn [orb]; intros H; inversion H; subst; vm_compute; reflexivity|]
         end.
  cbn [orb]. discriminate.
Qed.

Lemma port_list_parser : lookup_type (bs "String") = Some (ty_of KPorts).
Proof. vm_compute. reflexivity. Qed.

(* ------------------------------------------------------------------ validate *)
Definition vk_of (k : kind) : validate_kind := snd (fst (ty_of k)).
Definition pk_of (k : kind) : parse_kind := fst (fst (ty_of k)).

Lemma auto_agree : auto_str = auto_word.
Proof. reflexivity. Qed.

Lemma DEFAULT_agree : DEFAULT_VALUE = DEFAULT_word.
Proof. vm_compute. reflexivity. Qed.

(* what an assignment makes pending, model vs Spec *)
Definition pending_agrees (r : res pyval) (iv : option ival) : Prop :=
  match iv with
  | Some (IScalar s) => exists a, r = Ok (PAtom a) /\ atom_text a = s
  | Some (IList l) => r = Ok (PList l)
  | None => exists e, r = Exc e
  end.

Lemma int_of_atom_str_int a z : int_of_atom a = Some z -> py_int (PAtom a) = Ok z.
Proof.
  destruct a as [s|z0|b|t]; cbn [int_of_atom py_int]; intros H; try discriminate.
  - now apply str_int_of_parse_int.
  - now inversion H.
  - now inversion H.
Qed.

Theorem validate_agrees k v :
  k <> KPorts -> assign_ok k v = true -> pending_agrees (validate (vk_of k) v) (spec_validate k v).
Proof.
  intros Hk Hok. destruct k; try congruence; cbn [vk_of ty_of fst snd validate].
  - (* KBool *)
    destruct v as [[s|z|b|t]|l]; try discriminate Hok; cbn [spec_validate py_truth bind pending_agrees].
    + destruct (Z.eqb z 0); cbn [negb]; eexists; split; reflexivity.
    + destruct b; eexists; split; reflexivity.
  - (* KBoolAuto *)
    destruct v as [[s|z|b|t]|l]; try discriminate Hok; cbn [spec_validate int_of_atom].
    + cbn [assign_ok] in Hok. unfold int_text_scope in Hok. apply orb_true_iff in Hok as [H|H].
      * destruct (parse_int s) as [z|] eqn:Ez; [|discriminate].
        cbn [py_int]. rewrite (str_int_of_parse_int _ _ Ez). cbn [bind pending_agrees].
        destruct (z <? 0)%Z; [|destruct (Z.eqb z 0)]; eexists; split; reflexivity.
      * apply andb_true_iff in H as [H _]. destruct (letters_not_int _ H) as [H1 H2].
        rewrite H1. cbn [py_int]. rewrite H2. cbn. eauto.
    + cbn [py_int bind pending_agrees].
      destruct (z <? 0)%Z; [|destruct (Z.eqb z 0)]; eexists; split; reflexivity.
  - (* KInt *)
    destruct v as [[s|z|b|t]|l]; try discriminate Hok; cbn [spec_validate int_of_atom].
    + cbn [assign_ok] in Hok. unfold int_text_scope in Hok. apply orb_true_iff in Hok as [H|H].
      * destruct (parse_int s) as [z|] eqn:Ez; [|discriminate].
        cbn [py_int]. rewrite (str_int_of_parse_int _ _ Ez). cbn. eexists; split; reflexivity.
      * apply andb_true_iff in H as [H _]. destruct (letters_not_int _ H) as [H1 H2].
        rewrite H1. cbn [py_int]. rewrite H2. cbn. eauto.
    + cbn. eexists; split; reflexivity.
    + cbn. eauto.
  - (* KFloat *)
    destruct v as [[s|z|b|t]|l]; try discriminate Hok; cbn [spec_validate assign_ok] in *.
    + destruct (float_canon s); [|discriminate]. cbn. eexists; split; reflexivity.
    + destruct (float_canon t); [|discriminate]. cbn. eexists; split; reflexivity.
  - (* KStr *)
    destruct v as [[s|z|b|t]|l]; try discriminate Hok. cbn. eexists; split; reflexivity.
  - (* KComma *)
    destruct v as [[s|z|b|t]|l]; try discriminate Hok; cbn; [eexists; split; reflexivity|reflexivity].
  - (* KLine *)
    destruct v as [[s|z|b|t]|l]; try discriminate Hok; cbn; eauto.
Qed.

(* ------------------------------------------------------------------ parse of what was sent *)
(* the values validation produces, per kind *)
Definition validated (k : kind) (a : atom) : Prop :=
  match k with
  | KBool => a = AInt 0 \/ a = AInt 1
  | KBoolAuto => a = AStr auto_str \/ a = AInt 0 \/ a = AInt 1
  | KInt => exists z, a = AInt z
  | KFloat => (exists t, a = AFloat t /\ float_canon t = Some t) \/ (exists s c, a = AStr s /\ float_canon s = Some c)
  | KStr => exists s, a = AStr s
  | _ => False
  end.

(* "reads return the saved values": the model stores parse(value) in config; Tor stores the text
   save() sent, str(value); reading that text by the declared type gives the same Python value *)
Theorem parse_agrees k a : validated k a ->
  exists a', parse (pk_of k) (PAtom a) = Ok (PAtom a') /\ parse_scalar k (atom_text a) = Some a'.
Proof.
  destruct k; cbn [validated pk_of ty_of fst]; intros H; try contradiction.
  - destruct H as [-> | ->]; eexists; split; vm_compute; reflexivity.
  - destruct H as [-> | [-> | ->]]; eexists; split; vm_compute; reflexivity.
  - destruct H as [z ->]. exists (AInt z). split; [reflexivity|].
    cbn [atom_text parse_scalar]. now rewrite parse_int_dec.
  - destruct H as [[t [-> Ht]] | [s [c [-> Hs]]]].
    + exists (AFloat t). split; [reflexivity|]. cbn [atom_text parse_scalar]. now rewrite Ht.
    + exists (AFloat c). split; [cbn [parse py_float bind]; now rewrite Hs|].
      cbn [atom_text parse_scalar]. now rewrite Hs.
  - destruct H as [s ->]. exists (AStr s). split; reflexivity.
Qed.

(* a comma list assigned as text: the model's config after save is the Spec's reading of the text *)
Lemma parse_comma_text s :
  parse (pk_of KComma) (PAtom (AStr s)) = Ok (PList (map AStr (split_comma s))).
Proof. cbn. unfold split_comma. now rewrite map_map. Qed.

(* validated values are what validate_agrees produces *)
Lemma validate_gives_validated k v a :
  k <> KPorts -> assign_ok k v = true -> validate (vk_of k) v = Ok (PAtom a) -> is_list_kind k = false -> validated k a.
Proof.
  intros Hk Hok Hv Hl. destruct k; try discriminate Hl; try congruence; cbn [vk_of ty_of fst snd validate] in Hv; cbn [validated].
  - destruct v as [[s|z|b|t]|l]; try discriminate Hok; cbn in Hv.
    + destruct (Z.eqb z 0); cbn in Hv; inversion Hv; auto.
    + destruct b; cbn in Hv; inversion Hv; auto.
  - destruct (py_int v) as [z|e|]; cbn [bind] in Hv; try discriminate.
    destruct (z <? 0)%Z; [|destruct (Z.eqb z 0)]; inversion Hv; auto.
  - destruct (py_int v) as [z|e|]; cbn [bind] in Hv; try discriminate. inversion Hv. eauto.
  - inversion Hv. subst v. destruct a as [s|z|b|t]; try discriminate Hok; cbn [assign_ok] in Hok.
    + right. destruct (float_canon s) as [c|] eqn:E; [|discriminate]. eauto.
    + left. destruct (float_canon t) as [c|] eqn:E; [|discriminate]. apply beqb_eq in Hok. subst c. eauto.
  - inversion Hv. subst v. destruct a as [s|z|b|t]; try discriminate Hok. eauto.
Qed.

Lemma validate_agrees_ports v :
  assign_ok KPorts v = true -> pending_agrees (validate (vk_of KPorts) v) (spec_validate KPorts v).
Proof. destruct v as [a|l]; [destruct a; discriminate|]. intros _. reflexivity. Qed.

Lemma validate_agrees_all k v :
  assign_ok k v = true -> pending_agrees (validate (vk_of k) v) (spec_validate k v).
Proof.
  intros H. destruct k; try (apply validate_agrees; [discriminate|assumption]).
  now apply validate_agrees_ports.
Qed.

Lemma spec_validate_list k v l :
  spec_validate k v = Some (IList l) -> assign_ok k v = true ->
  is_list_kind k = true /\ forallb (elem_ok k) l = true.
Proof.
  destruct k; destruct v as [[s0|z|b|t]|l0]; cbn [spec_validate assign_ok]; intros H Hok;
    try discriminate H;
    try (destruct (int_of_atom _); discriminate H);
    try (destruct (float_canon _); discriminate H);
    try (cbn in H; destruct (parse_int _); discriminate H);
    inversion H; subst; split; try reflexivity; exact Hok.
Qed.
