(* The SETCONF line that the model of set_conf() builds, read back by the kvline parser of
   Spec/TorStore.v, gives exactly the (key, value) pairs it was built from -- for ALL values
   (any bytes) and all keys that set_conf accepts.  The quoting tables come from
   Gen/ConfigTypes.v; the per-character facts are established by computation over all 256
   characters, so a behaviour-preserving edit of the tables re-proves itself and a
   behaviour-changing one breaks the proof. *)
From Coq Require Import String.
From Coq Require Import List Bool Ascii Arith NArith ZArith Lia.
From TxVerif Require Import Lib.Bytes Lib.CfgLib Spec.CfgTypes Spec.TorStore
  Model.ConfigKinds Gen.ConfigTypes Model.Config.
Import ListNotations.
Open Scope N_scope.

Definition run (s : pst * list entry) (b : bytes) : pst * list entry := fold_left kv_step b s.

Lemma run_app s a b : run s (a ++ b) = run (run s a) b.
Proof. unfold run. apply fold_left_app. Qed.

(* ---- the escaping of one value ---- *)
Definition esc_step (acc : bytes) (e : N * list N) : bytes :=
  replace_char (ch (fst e)) (map ch (snd e)) acc.
Definition esc_all (s : bytes) : bytes := fold_left esc_step setconf_escapes s.

Lemma replace_char_app r e a b : replace_char r e (a ++ b) = replace_char r e a ++ replace_char r e b.
Proof. unfold replace_char. apply flat_map_app. Qed.

Lemma esc_fold_app tbl : forall a b,
  fold_left esc_step tbl (a ++ b) = fold_left esc_step tbl a ++ fold_left esc_step tbl b.
Proof.
  induction tbl as [|e tbl IH]; intros a b; cbn [fold_left]; [reflexivity|].
  assert (esc_step (a ++ b) e = esc_step a e ++ esc_step b e) as -> by apply replace_char_app.
  apply IH.
Qed.

Lemma esc_all_cons c s : esc_all (c :: s) = esc_all [c] ++ esc_all s.
Proof. unfold esc_all. change (c :: s) with ([c] ++ s). apply esc_fold_app. Qed.

(* one escaped character, read inside quotes, is that character *)
Lemma quoted_char c k acc out :
  run (PQuoted k acc, out) (esc_all [c]) = (PQuoted k (c :: acc), out).
Proof.
  destruct c as [b0 b1 b2 b3 b4 b5 b6 b7].
  destruct b0, b1, b2, b3, b4, b5, b6, b7; reflexivity.
Qed.

Lemma quoted_body v : forall k acc out,
  run (PQuoted k acc, out) (esc_all v) = (PQuoted k (rev v ++ acc), out).
Proof.
  induction v as [|c v IH]; intros k acc out.
  - reflexivity.
  - rewrite esc_all_cons, run_app, quoted_char, IH. cbn [rev]. now rewrite <- app_assoc.
Qed.

(* ---- facts about the tables, by computation ---- *)
Definition has_trigger (s : bytes) : bool := existsb (fun t => memb (ch t) s) setconf_quote_triggers.

Lemma memb_In a s : memb a s = true <-> In a s.
Proof.
  induction s as [|x s IH]; cbn; [split; [discriminate|tauto]|].
  rewrite orb_true_iff, IH, Ascii.eqb_eq. split; intros [H|H]; auto.
Qed.

Lemma no_trigger_char s t :
  has_trigger s = false -> existsb (N.eqb t) setconf_quote_triggers = true -> memb (ch t) s = false.
Proof.
  intros H Ht. unfold has_trigger in H.
  destruct (memb (ch t) s) eqn:E; [|reflexivity].
  apply existsb_exists in Ht as [t' [Hin Heq]]. apply N.eqb_eq in Heq. subst t'.
  assert (existsb (fun t0 => memb (ch t0) s) setconf_quote_triggers = true) as X
    by (apply existsb_exists; exists t; auto).
  congruence.
Qed.

Lemma SP_is_trigger : existsb (N.eqb 32) setconf_quote_triggers = true.
Proof. vm_compute. reflexivity. Qed.
Lemma DQ_is_trigger : existsb (N.eqb 34) setconf_quote_triggers = true.
Proof. vm_compute. reflexivity. Qed.

Definition key_ok (k : bytes) : Prop :=
  k <> [] /\ forall c, In c k -> Ascii.eqb c SP = false /\ Ascii.eqb c EQC = false /\ Ascii.eqb c DQ = false.

Lemma refused_EQC : existsb (fun b => code EQC =? b) setconf_key_refused = true.
Proof. vm_compute. reflexivity. Qed.
Lemma refused_DQ : existsb (fun b => code DQ =? b) setconf_key_refused = true.
Proof. vm_compute. reflexivity. Qed.

Lemma key_refused_ok k : key_refused k = false -> key_ok k.
Proof.
  intros H. destruct k as [|c0 k0]; [discriminate|]. split; [discriminate|].
  intros c Hin. cbn [key_refused] in H.
  assert (is_space c || existsb (fun b => code c =? b) setconf_key_refused = false) as Hc.
  { destruct (is_space c || existsb (fun b => code c =? b) setconf_key_refused) eqn:E; [|reflexivity].
    assert (existsb (fun c1 => is_space c1 || existsb (fun b => code c1 =? b) setconf_key_refused) (c0 :: k0) = true)
      by (apply existsb_exists; exists c; auto).
    congruence. }
  apply orb_false_iff in Hc as [Hs Hr].
  repeat split.
  - destruct (Ascii.eqb c SP) eqn:E; [|reflexivity]. apply Ascii.eqb_eq in E. subst c. discriminate Hs.
  - destruct (Ascii.eqb c EQC) eqn:E; [|reflexivity]. apply Ascii.eqb_eq in E. subst c.
    rewrite refused_EQC in Hr. discriminate.
  - destruct (Ascii.eqb c DQ) eqn:E; [|reflexivity]. apply Ascii.eqb_eq in E. subst c.
    rewrite refused_DQ in Hr. discriminate.
Qed.

(* ---- reading a key ---- *)
Lemma run_key_tail k : forall acc out,
  (forall c, In c k -> Ascii.eqb c SP = false /\ Ascii.eqb c EQC = false /\ Ascii.eqb c DQ = false) ->
  run (PKey acc, out) k = (PKey (rev k ++ acc), out).
Proof.
  induction k as [|c k IH]; intros acc out H; [reflexivity|].
  destruct (H c (or_introl eq_refl)) as [H1 [H2 H3]].
  unfold run. cbn [fold_left kv_step]. rewrite H1, H2, H3.
  fold (run (PKey (c :: acc), out) k). rewrite IH by (intros; apply H; now right).
  cbn [rev]. now rewrite <- app_assoc.
Qed.

Lemma run_key k out : key_ok k -> run (PSep, out) (k ++ [EQC]) = (PVal0 (rev k), out).
Proof.
  intros [Hne H]. destruct k as [|c k]; [congruence|].
  destruct (H c (or_introl eq_refl)) as [H1 [H2 H3]].
  rewrite run_app. unfold run at 2. cbn [fold_left kv_step]. rewrite H1, H2, H3. cbn [orb].
  fold (run (PKey [c], out) k). rewrite run_key_tail by (intros; apply H; now right).
  unfold run. cbn [fold_left kv_step].
  assert (Ascii.eqb EQC SP = false) as -> by reflexivity.
  assert (Ascii.eqb EQC EQC = true) as -> by reflexivity.
  cbn [rev]. reflexivity.
Qed.

(* ---- reading a value ---- *)
Lemma run_bare_tail v : forall k acc out,
  memb SP v = false -> run (PBare k acc, out) v = (PBare k (rev v ++ acc), out).
Proof.
  induction v as [|c v IH]; intros k acc out H; [reflexivity|].
  cbn [memb] in H. apply orb_false_iff in H as [H1 H2].
  unfold run. cbn [fold_left kv_step]. rewrite Ascii.eqb_sym in H1. rewrite H1.
  fold (run (PBare k (c :: acc), out) v). rewrite IH by assumption. cbn [rev]. now rewrite <- app_assoc.
Qed.

(* the state after "key=" ++ maybe_quote v, abstractly: what a following space or the end yields *)
Definition closes (s : pst * list entry) (k v : bytes) (out : list entry) : Prop :=
  kv_step s SP = (PSep, (k, Some v) :: out) /\ kv_finish s = Some (rev ((k, Some v) :: out)).

Lemma run_value k v out :
  closes (run (PVal0 (rev k), out) (maybe_quote v)) k v out.
Proof.
  unfold maybe_quote. fold (has_trigger v). destruct (has_trigger v) eqn:Ht.
  - (* quoted *)
    change (DQ :: fold_left (fun acc (e : N * list N) => replace_char (ch (fst e)) (map ch (snd e)) acc)
                            setconf_escapes v ++ [DQ])
      with ([DQ] ++ esc_all v ++ [DQ]).
    rewrite run_app. unfold run at 2. cbn [fold_left kv_step].
    assert (Ascii.eqb DQ DQ = true) as -> by reflexivity.
    rewrite run_app. fold (run (PQuoted (rev k) [], out) (esc_all v)). rewrite quoted_body.
    unfold run. cbn [fold_left kv_step]. unfold quoted_step.
    assert (Ascii.eqb DQ DQ = true) as -> by reflexivity.
    rewrite app_nil_r. split; cbn [kv_step kv_finish].
    + assert (Ascii.eqb SP SP = true) as -> by reflexivity. now rewrite !rev_involutive.
    + now rewrite !rev_involutive.
  - (* bare *)
    pose proof (no_trigger_char v 32 Ht SP_is_trigger) as Hsp.
    pose proof (no_trigger_char v 34 Ht DQ_is_trigger) as Hdq.
    change (ch 32) with SP in Hsp. change (ch 34) with DQ in Hdq.
    destruct v as [|c v].
    + unfold run. cbn [fold_left]. split; cbn [kv_step kv_finish].
      * assert (Ascii.eqb SP DQ = false) as -> by reflexivity.
        assert (Ascii.eqb SP SP = true) as -> by reflexivity. now rewrite rev_involutive.
      * now rewrite rev_involutive.
    + cbn [memb] in Hsp, Hdq. apply orb_false_iff in Hsp as [Hs1 Hs2]. apply orb_false_iff in Hdq as [Hd1 Hd2].
      unfold run. cbn [fold_left kv_step]. rewrite Ascii.eqb_sym in Hd1, Hs1. rewrite Hd1, Hs1.
      fold (run (PBare (rev k) [c], out) v). rewrite run_bare_tail by assumption.
      split; cbn [kv_step kv_finish].
      * assert (Ascii.eqb SP SP = true) as -> by reflexivity.
        rewrite rev_involutive, rev_app_distr, rev_involutive. reflexivity.
      * rewrite rev_involutive, rev_app_distr, rev_involutive. reflexivity.
Qed.

(* ---- a whole argument list ---- *)
Definition item (kv : bytes * bytes) : bytes := fst kv ++ [EQC] ++ maybe_quote (snd kv).
Definition entry_of (kv : bytes * bytes) : entry := (fst kv, Some (snd kv)).

Lemma run_item kv out : key_ok (fst kv) ->
  closes (run (PSep, out) (item kv)) (fst kv) (snd kv) out.
Proof.
  intros Hk. unfold item. rewrite app_assoc, run_app, run_key by assumption. apply run_value.
Qed.

Lemma parse_items args : forall out,
  (forall kv, In kv args -> key_ok (fst kv)) ->
  kv_finish (run (PSep, out) (join [SP] (map item args))) = Some (rev out ++ map entry_of args).
Proof.
  induction args as [|a rest IH]; intros out Hk.
  - cbn. now rewrite app_nil_r.
  - destruct (run_item a out (Hk a (or_introl eq_refl))) as [Hsp Hfin].
    destruct rest as [|b rest'].
    + cbn [map join]. rewrite Hfin. cbn [rev map]. reflexivity.
    + change (join [SP] (map item (a :: b :: rest')))
        with (item a ++ [SP] ++ join [SP] (map item (b :: rest'))).
      rewrite run_app, run_app. unfold run at 2. cbn [fold_left]. rewrite Hsp.
      fold (run (PSep, (fst a, Some (snd a)) :: out) (join [SP] (map item (b :: rest')))).
      rewrite IH by (intros; apply Hk; now right).
      cbn [rev map]. rewrite <- app_assoc. reflexivity.
Qed.

Lemma parse_setconf_prefix body : parse_setconf (SETCONF_prefix ++ body) = parse_kvs body.
Proof. reflexivity. Qed.

(* THE wire theorem: for all argument lists whose keys set_conf accepts *)
Theorem setconf_line_parses args :
  existsb (fun kv : bytes * bytes => key_refused (fst kv)) args = false ->
  parse_setconf (setconf_line args) = Some (map entry_of args).
Proof.
  intros H.
  assert (forall kv, In kv args -> key_ok (fst kv)) as Hk.
  { intros kv Hin. apply key_refused_ok.
    destruct (key_refused (fst kv)) eqn:E; [|reflexivity].
    assert (existsb (fun kv0 : bytes * bytes => key_refused (fst kv0)) args = true)
      by (apply existsb_exists; exists kv; auto).
    congruence. }
  unfold setconf_line. rewrite parse_setconf_prefix.
  unfold parse_kvs.
  change (map (fun kv : bytes * bytes => fst kv ++ [EQC] ++ maybe_quote (snd kv)) args) with (map item args).
  fold (run (PSep, []) (join [SP] (map item args))).
  rewrite parse_items by assumption. reflexivity.
Qed.
