(* C15: lemmas about Model/DescUpload.v against Spec/C15.v *)
From Coq Require Import List Bool Arith NArith Lia.
From TxVerif Require Import Lib.ListSet Spec.C15 Model.DescUpload.
Import ListNotations.
Open Scope N_scope.

Definition n_dones_of (tr : list rec) : nat := length (dones (flat_map r_evs tr)).

Definition cfg0 (aw : bool) : cfg :=
  {| c_await := aw; c_own := 1; c_early := false; c_shared := false; c_progress := true |}.

(* ---- witnesses of the open findings ---- *)
Lemma foreign_uploaded_refuted :
  exists c ops, wf ops = true /\ oracle c ops (run c ops) = false.
Proof. exists (cfg0 false), [Reply; Ev KUpload 1 1; Ev KUploaded 2 1]. vm_compute. auto. Qed.

Lemma event_before_reply_refuted :
  exists c ops, wf ops = true /\ foreign_uploaded_shared_dir c ops = false /\ oracle c ops (run c ops) = false.
Proof. exists (cfg0 false), [Ev KUpload 1 1; Reply; Ev KUploaded 1 1]. vm_compute. auto. Qed.

(* ---- regression anchors: the witnesses of the repaired findings C15-F3 (e8b566b) and C15-F4 (3df3186) ---- *)
Lemma await_all_retry_now_accepted :
  let ops := [Reply; Ev KUpload 1 1; Ev KUpload 1 2; Ev KFailed 1 1; Ev KUpload 1 1; Ev KUploaded 1 1] in
  oracle (cfg0 true) ops (run (cfg0 true) ops) = true
  /\ n_dones_of (run (cfg0 true) ops) = 0%nat          (* D2 is still outstanding: no completion *)
  /\ oracle (cfg0 true) (ops ++ [Ev KFailed 1 2]) (run (cfg0 true) (ops ++ [Ev KFailed 1 2])) = true
  /\ n_dones_of (run (cfg0 true) (ops ++ [Ev KFailed 1 2])) = 1%nat.
Proof. vm_compute. auto. Qed.

Lemma rejected_now_accepted :
  oracle (cfg0 false) [Reject] (run (cfg0 false) [Reject]) = true
  /\ unsub_all (cfg0 false) false (run (cfg0 false) [Reject]) = true
  /\ map r_ncb (run (cfg0 false) [Reject]) = [1; 0].
Proof. vm_compute. auto. Qed.

(* ====================================================================================== *)
(* The model meets the oracle on every history outside the two open finding classes.           *)
(* ====================================================================================== *)

Definition bad (c : cfg) (s : sst) (o : op) : bool :=
  bad_a c s o || bad_d c s o.

Lemma any_bad_or c b1 b2 s ops :
  any_bad c (fun s o => b1 s o || b2 s o) s ops = any_bad c b1 s ops || any_bad c b2 s ops.
Proof.
  revert s; induction ops as [|o ops IH]; intros s; cbn [any_bad]; [reflexivity|].
  rewrite IH. destruct (b1 s o), (b2 s o), (any_bad c b1 (spec_step c s o) ops); reflexivity.
Qed.

Lemma any_bad_split c s ops :
  any_bad c (bad c) s ops =
  any_bad c (bad_a c) s ops || any_bad c (bad_d c) s ops.
Proof. unfold bad. now rewrite !any_bad_or. Qed.

(* ---- facts about the set operations used by the spec ---- *)
Lemma covered_spec A S F : covered A S F = true <-> (forall x, In x A -> In x S \/ In x F).
Proof.
  unfold covered. rewrite forallb_forall. split; intros H x Hx; specialize (H x Hx).
  - apply orb_true_iff in H as [H|H]; apply smem_In in H; auto.
  - apply orb_true_iff. destruct H as [H|H]; apply smem_In in H; auto.
Qed.

Lemma covered_false_mono A A' S S' F F' :
  covered A S F = false -> incl A A' -> incl S' S -> incl F' F -> covered A' S' F' = false.
Proof.
  intros H HA HS HF. destruct (covered A' S' F') eqn:E; [|reflexivity].
  rewrite <- H. symmetry. apply covered_spec. intros x Hx.
  destruct (proj1 (covered_spec _ _ _) E x (HA x Hx)); auto.
Qed.

Lemma incl_sadd_r x l : incl l (sadd x l).
Proof. intros y Hy. apply In_sadd. now right. Qed.

Lemma sadd_id x l : In x l -> sadd x l = l.
Proof. intros H. unfold sadd. apply smem_In in H. now rewrite H. Qed.

Lemma snonempty_sadd x l : snonempty (sadd x l) = true.
Proof. apply snonempty_In. exists x. apply In_sadd. now left. Qed.

Lemma sseteq_spec a b : sseteq a b = true <-> incl a b /\ incl b a.
Proof. unfold sseteq. now rewrite andb_true_iff, !ssub_incl. Qed.

Lemma nlen_eq a b : (nlen a =? nlen b) = Nat.eqb (length a) (length b).
Proof.
  unfold nlen. destruct (Nat.eqb (length a) (length b)) eqn:E.
  - apply Nat.eqb_eq in E. rewrite E. apply N.eqb_refl.
  - apply Nat.eqb_neq in E. apply N.eqb_neq. lia.
Qed.

Lemma count_cover att conf fail :
  NoDup att -> NoDup conf -> NoDup fail -> incl conf att -> incl fail att ->
  (forall x, In x fail -> ~ In x conf) ->
  ((nlen fail + nlen conf =? nlen att) = true <-> incl att (fail ++ conf)).
Proof.
  intros Na Nc Nf Ic If D.
  assert (Nfc : NoDup (fail ++ conf)) by (apply NoDup_app_disj; auto).
  assert (Ifc : incl (fail ++ conf) att) by (intros x Hx; apply in_app_iff in Hx as [H|H]; auto).
  unfold nlen. rewrite N.eqb_eq. split.
  - intros H. apply cover_by_count; auto. lia.
  - intros H. pose proof (NoDup_incl_length Na H) as L1. pose proof (NoDup_incl_length Nfc Ifc) as L2.
    rewrite app_length in *. lia.
Qed.

(* ---- the simulation invariant ---- *)
Definition acc_m (m : st) : bool := match m_rep m with Some true => true | _ => false end.

Record Wait (c : cfg) (m : st) (s : sst) : Prop := {
  w_att : m_att m = sA s;
  w_fail : m_fail m = sF s;
  w_conf_S : incl (m_conf m) (sS s);
  w_conf_A : incl (m_conf m) (m_att m);
  w_conf_eq : s_conf s = true -> m_conf m = sS s;
  w_nd_a : NoDup (m_att m);
  w_nd_c : NoDup (m_conf m);
  w_nd_f : NoDup (m_fail m);
  w_cf : s_conf s = true ->
         incl (sS s) (sA s) /\ incl (sF s) (sA s) /\ s_dec s = None
         /\ okc (c_await c) (sA s) (sS s) (sF s) = false /\ failc (sA s) (sF s) = false;
  w_listen : m_listen m = true;
  w_pend : m_unsub_pending m = false;
  w_upl : m_upl_done m = false;
  w_created : m_created m = false;
  w_done : s_done s = false
}.

Record Fired (c : cfg) (m : st) (s : sst) (o : bool) : Prop := {
  f_listen : m_listen m = false;
  f_m : (if o then s_okm s else s_failm s) = true;
  f_dec : s_conf s = true -> exists dec, s_dec s = Some dec /\ (if o then fst dec else snd dec) = true;
  f_created : m_created m = s_done s;
  f_cr : m_created m = acc_m m;
  f_flags : if c_shared c then m_upl_done m = true /\ m_unsub_pending m = false
            else match m_rep m with
                 | None => m_unsub_pending m = true /\ m_upl_done m = false
                 | Some _ => m_unsub_pending m = false /\ m_upl_done m = true
                 end
}.

Definition Inv (c : cfg) (m : st) (s : sst) : Prop :=
  m_rep m = s_rep s /\ m_rep m <> Some false /\ m_oos m = false /\
  match m_fired m with None => Wait c m s | Some o => Fired c m s o end.

Lemma dones_app a b : dones (a ++ b) = dones a ++ dones b.
Proof. unfold dones. now rewrite flat_map_app. Qed.

Lemma tidy_app a b : tidy (a ++ b) = tidy a && tidy b.
Proof. unfold tidy. now rewrite forallb_app. Qed.

Lemma dones_prog c a b d : dones (prog c a b d) = [].
Proof. unfold prog. destruct (c_progress c); [destruct a|]; reflexivity. Qed.

Lemma tidy_prog c a b d : tidy (prog c a b d) = true.
Proof. unfold prog. destruct (c_progress c); [destruct a|]; reflexivity. Qed.

Lemma fire_facts c m o m' evs :
  fire c m o = (m', evs) ->
  m_created m = false -> m_upl_done m = false -> m_rep m <> Some false ->
  m_fired m' = Some o /\ m_listen m' = false /\ m_rep m' = m_rep m /\ m_oos m' = m_oos m
  /\ dones evs = (if acc_m m then [res_of o] else [])
  /\ tidy evs = true
  /\ m_created m' = acc_m m
  /\ (if c_shared c then m_upl_done m' = true /\ m_unsub_pending m' = false
      else match m_rep m with
           | None => m_unsub_pending m' = true /\ m_upl_done m' = false
           | Some _ => m_unsub_pending m' = false /\ m_upl_done m' = true
           end).
Proof.
  unfold fire, finish_wait, acc_m. intros H Hc Hu Hr.
  destruct (c_shared c), (m_rep m) as [[|]|] eqn:R; try congruence;
    cbn [m_rep m_created m_fired m_listen m_oos m_unsub_pending m_upl_done] in H;
    rewrite ?R, ?Hc, ?Hu in H; cbn in H; destruct o, (c_progress c); cbn in H;
    inversion H; subst; cbn; rewrite ?R, ?Hc, ?Hu; repeat split; reflexivity.
Qed.

Lemma spec_ev_dec_some c s k d x : s_dec s = Some x -> s_dec (spec_ev c s k d) = Some x.
Proof. intros H. unfold spec_ev. cbn. now rewrite H. Qed.

Lemma spec_ev_okm c s k d : s_okm s = true -> s_okm (spec_ev c s k d) = true.
Proof. intros H. unfold spec_ev. cbn. now rewrite H. Qed.

Lemma spec_ev_failm c s k d : s_failm s = true -> s_failm (spec_ev c s k d) = true.
Proof. intros H. unfold spec_ev. cbn. now rewrite H. Qed.

Lemma spec_ev_conf c s k d : s_conf (spec_ev c s k d) = true -> s_conf s = true.
Proof. unfold spec_ev. cbn. destruct k; [auto| |]; intros H; now apply andb_true_iff in H. Qed.

Definition step_goal (c : cfg) (m : st) (s : sst) (o : op) : Prop :=
  forall m' evs, step c m o = (m', evs) ->
  check_op c s o (snap c m' evs) = true /\
  Inv c m' (set_done (spec_step c s o) (done_after s (dones evs))).

Lemma accepted_acc c m s : Inv c m s -> accepted s = acc_m m.
Proof. intros (H & _). unfold accepted, acc_m. now rewrite H. Qed.

Lemma accepted_spec_ev c s k d : accepted (spec_ev c s k d) = accepted s.
Proof. reflexivity. Qed.

Lemma step_ev_deaf c m k a d : m_listen m = false -> step_ev c m k a d = (m, []).
Proof. intros H. unfold step_ev. now rewrite H. Qed.

(* once the wait is decided the listener is gone: events change nothing *)
Lemma step_ev_fired c m s k a d o :
  Inv c m s -> m_fired m = Some o -> step_goal c m s (Ev k a d).
Proof.
  intros HI Hf. pose proof (accepted_acc _ _ _ HI) as Hacc.
  destruct HI as (Hrep & Hnr & Hoos & HF). rewrite Hf in HF. destruct HF as [Fl Fm Fd Fc Fcr Ffl].
  intros m' evs Hs. cbn [step] in Hs. rewrite (step_ev_deaf _ _ _ _ _ Fl) in Hs. inversion Hs; subst m' evs; clear Hs.
  assert (Hacc' : accepted (spec_step c s (Ev k a d)) = s_done s).
  { cbn [spec_step]. destruct (is_own c a); [rewrite accepted_spec_ev|]; congruence. }
  split.
  - unfold check_op, snap, unsub_ok. cbn [r_evs r_ncb r_inev dones flat_map]. rewrite Fl.
    unfold check_done, done_after. cbn [is_nil negb].
    destruct (s_done s) eqn:D.
    + cbn [foreign_quiet tidy forallb negb N.eqb orb andb]. rewrite orb_true_r.
      destruct (c_shared c); reflexivity.
    + rewrite Hacc'. cbn [foreign_quiet tidy forallb negb orb andb]. rewrite orb_true_r.
      destruct (s_conf (spec_step c s (Ev k a d))); [destruct (s_dec (spec_step c s (Ev k a d)))|];
        reflexivity.
  - unfold Inv. rewrite Hf. cbn [spec_step].
    assert (E : done_after s (dones []) = s_done s) by (unfold done_after; cbn; now rewrite orb_false_r).
    rewrite E. repeat split; auto.
    + destruct (is_own c a); cbn; auto.
    + destruct (is_own c a); cbn [set_done s_okm s_failm]; destruct o; auto using spec_ev_okm, spec_ev_failm.
    + cbn [set_done s_conf s_dec]. destruct (is_own c a); [|exact Fd].
      intros Hc. apply spec_ev_conf in Hc. destruct (Fd Hc) as (dec & Hd & Ha).
      exists dec. split; [now apply spec_ev_dec_some | exact Ha].
Qed.

Lemma wait_set_done c m s : Wait c m s -> Wait c m (set_done s false).
Proof. intros []. constructor; cbn; auto. Qed.

Lemma done_after_nil s : s_done s = false -> done_after s [] = false.
Proof. intros H. unfold done_after. now rewrite H. Qed.

(* while waiting, nothing that is not addressed to the service (and not the D15a case) is even looked at *)
Lemma step_ev_foreign c m s k a d :
  Inv c m s -> m_fired m = None -> is_own c a = false -> bad_a c s (Ev k a d) = false ->
  step_goal c m s (Ev k a d).
Proof.
  intros HI Hf Hown Hbad. destruct HI as (Hrep & Hnr & Hoos & HW). rewrite Hf in HW.
  intros m' evs Hs. cbn [step] in Hs.
  assert (E : step_ev c m k a d = (m, [])).
  { unfold step_ev. rewrite (w_listen _ _ _ HW). cbn [negb]. unfold is_own in Hown. rewrite Hown. cbn [andb].
    destruct k; try reflexivity. unfold bad_a in Hbad. unfold is_own in Hbad. rewrite Hown in Hbad. cbn in Hbad.
    rewrite (w_att _ _ _ HW), Hbad. reflexivity. }
  rewrite E in Hs. inversion Hs; subst m' evs; clear Hs E.
  cbn [spec_step]. rewrite Hown. cbn [dones flat_map]. rewrite (done_after_nil _ (w_done _ _ _ HW)).
  split.
  - unfold check_op, snap, unsub_ok, check_done, done_after. cbn [r_evs r_ncb r_inev dones flat_map spec_step].
    rewrite Hown, (w_done _ _ _ HW). cbn [is_nil negb orb foreign_quiet tidy forallb andb].
    rewrite orb_true_r. destruct (s_conf s) eqn:C; [|reflexivity].
    destruct (w_cf _ _ _ HW C) as (_ & _ & Hd & _). rewrite Hd. destruct (accepted s); reflexivity.
  - unfold Inv. rewrite Hf. refine (conj _ (conj _ (conj _ _))); auto. now apply wait_set_done.
Qed.

Lemma okc_upload aw A S F d :
  okc aw A S F = false -> okc aw (sadd d A) S F = false.
Proof.
  unfold okc. intros H. apply andb_false_iff in H as [H|H]; [now rewrite H|].
  apply orb_false_iff in H as [H1 H2]. rewrite H1. cbn [orb].
  rewrite (covered_false_mono _ (sadd d A) _ S _ F H2); auto using incl_sadd_r, incl_refl.
  apply andb_false_r.
Qed.

Lemma failc_upload A F d :
  incl F A -> failc A F = false -> failc (sadd d A) F = false.
Proof.
  unfold failc. intros HI H. destruct (ssub (sadd d A) F) eqn:E; [|apply andb_false_r].
  apply ssub_incl in E. assert (In d A) by (apply HI, E, In_sadd; now left).
  rewrite sadd_id in * by assumption. apply ssub_incl in E. rewrite E in H. exact H.
Qed.

Lemma step_upload c m s a d :
  Inv c m s -> m_fired m = None -> is_own c a = true -> known c m = true ->
  step_goal c m s (Ev KUpload a d).
Proof.
  intros HI Hf Hown Hk. destruct HI as (Hrep & Hnr & Hoos & HW). rewrite Hf in HW.
  intros m' evs Hs. cbn [step] in Hs. unfold step_ev in Hs. rewrite (w_listen _ _ _ HW) in Hs. cbn [negb] in Hs.
  unfold is_own in Hown. rewrite Hown, Hk in Hs. cbn [andb] in Hs. inversion Hs; subst m' evs; clear Hs.
  cbn [spec_step]. unfold is_own. rewrite Hown. rewrite dones_prog, (done_after_nil _ (w_done _ _ _ HW)).
  assert (Hund : s_conf s = true ->
                 okc (c_await c) (sadd d (sA s)) (sS s) (sF s) = false /\ failc (sadd d (sA s)) (sF s) = false).
  { intros C. destruct (w_cf _ _ _ HW C) as (IS & IF & Hd & Ho & Hfl). split; [now apply okc_upload | now apply failc_upload]. }
  split.
  - unfold check_op, snap, unsub_ok, check_done. cbn [r_evs r_ncb r_inev spec_step]. unfold is_own. rewrite Hown.
    rewrite dones_prog, tidy_prog, (done_after_nil _ (w_done _ _ _ HW)), (w_done _ _ _ HW).
    cbn [is_nil negb orb foreign_quiet andb]. unfold is_own. rewrite Hown. cbn [orb andb].
    rewrite !andb_true_r. cbn [spec_ev s_conf s_dec].
    destruct (s_conf s) eqn:C; [|reflexivity].
    destruct (Hund eq_refl) as (Ho & Hfl). destruct (w_cf _ _ _ HW C) as (_ & _ & Hd & _).
    rewrite Hd, Ho, Hfl. cbn. destruct (accepted _); reflexivity.
  - unfold Inv. cbn [upd m_rep m_oos m_fired]. rewrite Hf. refine (conj _ (conj _ (conj _ _))); auto.
    destruct HW. constructor; cbn [upd spec_ev set_done m_att m_conf m_fail sA sS sF s_conf s_dec s_done
                                   m_listen m_unsub_pending m_upl_done m_created]; auto.
    + congruence.
    + eapply incl_tran; [eassumption | apply incl_sadd_r].
    + now apply NoDup_sadd.
    + intros C. destruct (w_cf0 C) as (IS & IF & Hd & Ho & Hfl). destruct (Hund C) as (Ho' & Hfl').
      rewrite Hd, Ho', Hfl'. cbn. repeat split; auto; eapply incl_tran; try eassumption; apply incl_sadd_r.
Qed.

(* the common part of the four places where the wait is decided *)
Lemma fire_goal c m s k a d att conf fail p (o : bool) m' evs :
  Inv c m s -> m_fired m = None -> is_own c a = true ->
  dones p = [] -> tidy p = true ->
  (if o then okc (c_await c) (sA (spec_ev c s k d)) (sS (spec_ev c s k d)) (sF (spec_ev c s k d))
   else failc (sA (spec_ev c s k d)) (sF (spec_ev c s k d))) = true ->
  (let '(m2, o2) := fire c (upd m att conf fail) o in (m2, p ++ o2)) = (m', evs) ->
  check_op c s (Ev k a d) (snap c m' evs) = true /\
  Inv c m' (set_done (spec_step c s (Ev k a d)) (done_after s (dones evs))).
Proof.
  intros HI Hf Hown Hdp Htp Hcond Hs.
  pose proof (accepted_acc _ _ _ HI) as Hacc.
  destruct HI as (Hrep & Hnr & Hoos & HW). rewrite Hf in HW.
  destruct (fire c (upd m att conf fail) o) as [m2 o2] eqn:Ef. inversion Hs; subst m' evs; clear Hs.
  apply fire_facts in Ef;
    [| cbn; exact (w_created _ _ _ HW) | cbn; exact (w_upl _ _ _ HW) | cbn; exact Hnr].
  destruct Ef as (F1 & F2 & F3 & F4 & F5 & F6 & F7 & F8).
  cbn [upd m_rep m_oos] in F3, F4, F8. unfold acc_m in F5, F7. cbn [upd m_rep] in F5, F7. fold (acc_m m) in F5, F7.
  set (s' := spec_ev c s k d) in *.
  assert (Hds : dones (p ++ o2) = if acc_m m then [res_of o] else []) by (now rewrite dones_app, Hdp, F5).
  assert (Hm : (if o then s_okm s' else s_failm s') = true).
  { subst s'. unfold spec_ev in *. cbn [s_okm s_failm sA sS sF] in *. destruct o; rewrite Hcond; apply orb_true_r. }
  assert (Hdec : s_conf s' = true -> exists dec, s_dec s' = Some dec /\ (if o then fst dec else snd dec) = true).
  { intros C. apply spec_ev_conf in C. destruct (w_cf _ _ _ HW C) as (_ & _ & Hd & _).
    subst s'. unfold spec_ev in *. cbn [s_dec sA sS sF] in *. rewrite Hd.
    destruct o; rewrite Hcond; cbn [orb]; rewrite ?orb_true_r; eexists; split; try reflexivity; cbn; auto. }
  assert (Hdone : done_after s (dones (p ++ o2)) = acc_m m).
  { unfold done_after. rewrite (w_done _ _ _ HW), Hds. destruct (acc_m m); reflexivity. }
  cbn [spec_step]. rewrite Hown. fold s'. rewrite Hdone.
  split.
  - unfold check_op, snap, unsub_ok, check_done. cbn [r_evs r_ncb r_inev spec_step]. rewrite Hown. fold s'.
    rewrite Hdone, Hds, (w_done _ _ _ HW), tidy_app, Htp, F6, F2.
    cbn [foreign_quiet andb orb]. rewrite Hown. cbn [orb andb N.eqb].
    replace (accepted s') with (acc_m m) by (subst s'; now rewrite accepted_spec_ev).
    destruct (acc_m m) eqn:A.
    + cbn [negb orb andb]. rewrite orb_false_r.
      replace (c_shared c || negb (c_shared c)) with true by (destruct (c_shared c); reflexivity).
      rewrite !andb_true_r.
      destruct (s_conf s') eqn:C.
      * destruct (Hdec eq_refl) as (dec & Hd & Ha). rewrite Hd. unfold allowed, res_of.
        destruct o; [now rewrite Ha | exact Ha].
      * unfold safe_done, res_of.
        replace (accepted s') with true by (subst s'; rewrite accepted_spec_ev; congruence).
        destruct o; cbn [andb]; exact Hm.
    + cbn [negb orb andb is_nil]. destruct (s_conf s'); [destruct (s_dec s')|]; reflexivity.
  - unfold Inv. rewrite F1. refine (conj _ (conj _ (conj _ _))); try congruence.
    + rewrite F3. exact Hrep.
    + constructor; cbn [set_done s_okm s_failm s_conf s_dec s_done]; auto; try congruence.
      * unfold acc_m. now rewrite F3.
      * rewrite F3. exact F8.
Qed.

Lemma covered_app A S F : covered A S F = true <-> incl A (F ++ S).
Proof.
  rewrite covered_spec. split; intros H x Hx; specialize (H x Hx).
  - apply in_app_iff. tauto.
  - apply in_app_iff in H. tauto.
Qed.

Lemma step_uploaded c m s a d :
  Inv c m s -> m_fired m = None -> is_own c a = true ->
  step_goal c m s (Ev KUploaded a d).
Proof.
  intros HI Hf Hown. pose proof HI as (Hrep & Hnr & Hoos & HW). rewrite Hf in HW.
  intros m' evs Hs. cbn [step] in Hs. unfold step_ev in Hs. rewrite (w_listen _ _ _ HW) in Hs. cbn [negb] in Hs.
  destruct (smem d (m_att m)) eqn:Hin.
  - (* a directory we attempted *)
    rewrite Hf in Hs.
    assert (Hd : In d (sA s)) by (rewrite <- (w_att _ _ _ HW); now apply smem_In).
    assert (Hcf : s_conf (spec_ev c s KUploaded d) = s_conf s).
    { cbn [spec_ev s_conf]. rewrite <- (w_att _ _ _ HW), Hin. apply andb_true_r. }
    assert (ICS : incl (sadd d (m_conf m)) (sadd d (sS s))).
    { intros x Hx. apply In_sadd in Hx as [->|Hx]; apply In_sadd; [now left | right; now apply (w_conf_S _ _ _ HW)]. }
    destruct (c_await c) eqn:Aw.
    + destruct (ssub (m_att m) (sunion (m_fail m) (sadd d (m_conf m)))) eqn:Cov.
      * (* everything is settled *)
        eapply fire_goal; eauto using dones_prog, tidy_prog.
        cbn [spec_ev sA sS sF]. unfold okc. rewrite snonempty_sadd, Aw. cbn [negb orb andb].
        apply covered_spec. intros x Hx. rewrite <- (w_att _ _ _ HW) in Hx.
        apply ssub_incl in Cov. apply Cov, In_sunion in Hx as [Hx|Hx].
        -- right. now rewrite <- (w_fail _ _ _ HW).
        -- left. now apply ICS.
      * (* still waiting *)
        inversion Hs; subst m' evs; clear Hs. cbn [spec_step]. rewrite Hown.
        rewrite dones_prog, (done_after_nil _ (w_done _ _ _ HW)).
        assert (Hund : s_conf s = true -> okc true (sA s) (sadd d (sS s)) (sF s) = false).
        { intros C. unfold okc. cbn [negb orb]. rewrite snonempty_sadd. cbn [andb].
          destruct (covered (sA s) (sadd d (sS s)) (sF s)) eqn:E; [|reflexivity]. exfalso.
          assert (ssub (m_att m) (sunion (m_fail m) (sadd d (m_conf m))) = true); [|congruence].
          apply ssub_incl. intros x Hx. rewrite (w_att _ _ _ HW) in Hx. apply In_sunion.
          destruct (proj1 (covered_spec _ _ _) E x Hx) as [H|H].
          - right. now rewrite (w_conf_eq _ _ _ HW C).
          - left. now rewrite (w_fail _ _ _ HW). }
        split.
        -- unfold check_op, snap, unsub_ok, check_done. cbn [r_evs r_ncb r_inev spec_step]. rewrite Hown.
           rewrite dones_prog, tidy_prog, (done_after_nil _ (w_done _ _ _ HW)), (w_done _ _ _ HW).
           cbn [is_nil negb orb foreign_quiet andb]. rewrite Hown. cbn [orb andb]. rewrite !andb_true_r.
           rewrite Hcf. destruct (s_conf s) eqn:C; [|reflexivity].
           destruct (w_cf _ _ _ HW C) as (_ & _ & Hdc & _ & Hfl).
           cbn [spec_ev s_dec]. rewrite Hdc, Aw, (Hund eq_refl), Hfl. cbn. destruct (accepted _); reflexivity.
        -- unfold Inv. cbn [upd m_rep m_oos m_fired]. rewrite Hf. refine (conj _ (conj _ (conj _ _))); auto.
           destruct HW. constructor; cbn [upd spec_ev set_done m_att m_conf m_fail sA sS sF s_conf s_dec s_done
                                   m_listen m_unsub_pending m_upl_done m_created]; auto.
           ++ intros x Hx. apply In_sadd in Hx as [->|Hx]; auto. now apply smem_In.
           ++ intros C. apply andb_true_iff in C as [C _]. now rewrite (w_conf_eq0 C).
           ++ now apply NoDup_sadd.
           ++ intros C. apply andb_true_iff in C as [C _]. destruct (w_cf0 C) as (IS & IF & Hdc & Ho & Hfl).
              rewrite Hdc, Aw, (Hund C), Hfl. cbn. repeat split; auto.
              intros x Hx. apply In_sadd in Hx as [->|Hx]; auto.
    + (* any upload is enough *)
      eapply fire_goal; eauto using dones_prog, tidy_prog.
      cbn [spec_ev sA sS sF]. unfold okc. rewrite snonempty_sadd, Aw. reflexivity.
  - (* UPLOADED for a directory without UPLOAD: ignored; the history is not conformant from here on *)
    inversion Hs; subst m' evs; clear Hs. cbn [spec_step]. rewrite Hown.
    cbn [dones flat_map]. rewrite (done_after_nil _ (w_done _ _ _ HW)).
    assert (Hcf : s_conf (spec_ev c s KUploaded d) = false).
    { cbn [spec_ev s_conf]. rewrite <- (w_att _ _ _ HW), Hin. apply andb_false_r. }
    split.
    + unfold check_op, snap, unsub_ok, check_done. cbn [r_evs r_ncb r_inev spec_step dones flat_map]. rewrite Hown.
      rewrite (done_after_nil _ (w_done _ _ _ HW)), (w_done _ _ _ HW), Hcf.
      cbn [is_nil negb orb foreign_quiet andb tidy forallb]. now rewrite orb_true_r.
    + unfold Inv. rewrite Hf. refine (conj _ (conj _ (conj _ _))); auto.
      destruct HW. constructor; cbn [spec_ev set_done sA sS sF s_conf s_dec s_done]; auto.
      * eapply incl_tran; [exact w_conf_S0 | apply incl_sadd_r].
      * rewrite <- w_att0, Hin, andb_false_r. discriminate.
      * intros C. exfalso. rewrite <- w_att0, Hin, andb_false_r in C. discriminate.
Qed.

Lemma step_failed c m s a d :
  Inv c m s -> m_fired m = None -> is_own c a = true -> known c m = true ->
  step_goal c m s (Ev KFailed a d).
Proof.
  intros HI Hf Hown Hk. pose proof HI as (Hrep & Hnr & Hoos & HW). rewrite Hf in HW.
  intros m' evs Hs. cbn [step] in Hs. unfold step_ev in Hs. rewrite (w_listen _ _ _ HW) in Hs. cbn [negb] in Hs.
  pose proof Hown as Hown'. unfold is_own in Hown'. rewrite Hown', Hk, Hf in Hs. cbn [andb negb] in Hs.
  assert (IFS : incl (sadd d (m_fail m)) (sadd d (sF s))) by (rewrite (w_fail _ _ _ HW); apply incl_refl).
  destruct (sseteq (sadd d (m_fail m)) (m_att m)) eqn:Eall.
  - (* every attempted upload has failed *)
    eapply fire_goal; eauto using dones_prog, tidy_prog.
    cbn [spec_ev sA sS sF]. apply sseteq_spec in Eall as [E1 E2].
    unfold failc. rewrite <- (w_att _ _ _ HW), <- (w_fail _ _ _ HW).
    apply andb_true_iff. split; [|now apply ssub_incl].
    apply snonempty_In. exists d. apply E1, In_sadd. now left.
  - rewrite andb_true_r in Hs.
    destruct (c_await c && snonempty (m_conf m) && sseteq (sunion (sadd d (m_fail m)) (m_conf m)) (m_att m)) eqn:Edone.
    + (* await-all: this failure settles the last outstanding upload and one succeeded *)
      eapply fire_goal; eauto using dones_prog, tidy_prog.
      apply andb_true_iff in Edone as [E12 E3]. apply andb_true_iff in E12 as [Aw E2].
      cbn [spec_ev sA sS sF]. unfold okc. rewrite Aw. cbn [negb orb].
      apply andb_true_iff. split.
      * apply snonempty_In in E2 as (x & Hx). apply snonempty_In. exists x. now apply (w_conf_S _ _ _ HW).
      * apply sseteq_spec in E3 as [_ E3]. apply covered_spec. intros x Hx.
        rewrite <- (w_att _ _ _ HW) in Hx. apply E3, In_sunion in Hx as [Hx|Hx].
        -- right. now apply IFS.
        -- left. now apply (w_conf_S _ _ _ HW).
    + (* still waiting *)
      inversion Hs; subst m' evs; clear Hs. cbn [spec_step]. rewrite Hown.
      rewrite dones_prog, (done_after_nil _ (w_done _ _ _ HW)).
      assert (Hund : s_conf s && smem d (sA s) = true ->
                     okc (c_await c) (sA s) (sS s) (sadd d (sF s)) = false /\ failc (sA s) (sadd d (sF s)) = false).
      { intros C. apply andb_true_iff in C as [C HdA]. apply smem_In in HdA.
        destruct (w_cf _ _ _ HW C) as (IS & IF & Hdc & Ho & Hfl). split.
        - unfold okc in *. apply andb_false_iff in Ho as [Ho|Ho]; [now rewrite Ho|].
          apply orb_false_iff in Ho as [Aw Ho]. apply negb_false_iff in Aw. rewrite Aw. cbn [negb orb].
          destruct (snonempty (sS s)) eqn:NS; [|reflexivity]. cbn [andb].
          destruct (covered (sA s) (sS s) (sadd d (sF s))) eqn:Cv; [|reflexivity]. exfalso.
          assert (NSm : snonempty (m_conf m) = true) by (now rewrite (w_conf_eq _ _ _ HW C)).
          rewrite Aw, NSm in Edone. cbn [andb] in Edone.
          assert (sseteq (sunion (sadd d (m_fail m)) (m_conf m)) (m_att m) = true); [|congruence].
          assert (IFA : incl (m_fail m) (m_att m)) by (rewrite (w_att _ _ _ HW), (w_fail _ _ _ HW); exact IF).
          apply sseteq_spec. split.
          + intros x Hx. apply In_sunion in Hx as [Hx|Hx]; [|now apply (w_conf_A _ _ _ HW)].
            apply In_sadd in Hx as [->|Hx]; [now rewrite (w_att _ _ _ HW) | now apply IFA].
          + intros x Hx. rewrite (w_att _ _ _ HW) in Hx. apply In_sunion.
            destruct (proj1 (covered_spec _ _ _) Cv x Hx) as [H|H].
            * right. now rewrite (w_conf_eq _ _ _ HW C).
            * left. now rewrite (w_fail _ _ _ HW).
        - unfold failc. destruct (ssub (sA s) (sadd d (sF s))) eqn:E; [|apply andb_false_r]. exfalso.
          apply ssub_incl in E.
          assert (sseteq (sadd d (m_fail m)) (m_att m) = true); [|congruence].
          apply sseteq_spec. rewrite (w_att _ _ _ HW), (w_fail _ _ _ HW). split; [|exact E].
          intros x Hx. apply In_sadd in Hx as [->|Hx]; auto. }
      split.
      * unfold check_op, snap, unsub_ok, check_done. cbn [r_evs r_ncb r_inev spec_step]. rewrite Hown.
        rewrite dones_prog, tidy_prog, (done_after_nil _ (w_done _ _ _ HW)), (w_done _ _ _ HW).
        cbn [is_nil negb orb foreign_quiet andb]. rewrite Hown. cbn [orb andb]. rewrite !andb_true_r.
        cbn [spec_ev s_conf s_dec sA sS sF].
        destruct (s_conf s && smem d (sA s)) eqn:C; [|reflexivity].
        destruct (Hund eq_refl) as (Ho & Hfl). apply andb_true_iff in C as [C _].
        destruct (w_cf _ _ _ HW C) as (_ & _ & Hdc & _). rewrite Hdc, Ho, Hfl. cbn. destruct (accepted _); reflexivity.
      * unfold Inv. cbn [upd m_rep m_oos m_fired]. rewrite Hf. refine (conj _ (conj _ (conj _ _))); auto.
        destruct HW. constructor; cbn [upd spec_ev set_done m_att m_conf m_fail sA sS sF s_conf s_dec s_done
                                   m_listen m_unsub_pending m_upl_done m_created]; auto.
        -- congruence.
        -- intros C. apply andb_true_iff in C as [C _]. auto.
        -- now apply NoDup_sadd.
        -- intros C. destruct (Hund C) as (Ho & Hfl). apply andb_true_iff in C as [C HdA]. apply smem_In in HdA.
           destruct (w_cf0 C) as (IS & IF & Hdc & _). rewrite Hdc, Ho, Hfl. cbn. repeat split; auto.
           intros x Hx. apply In_sadd in Hx as [->|Hx]; auto.
Qed.

Lemma step_reply c m s :
  Inv c m s -> s_rep s = None -> step_goal c m s Reply.
Proof.
  intros HI Hnone. pose proof HI as (Hrep & Hnr & Hoos & HW).
  assert (Hr : m_rep m = None) by congruence.
  intros m' evs Hs. cbn [step] in Hs. rewrite Hr in Hs.
  destruct (m_fired m) as [o|] eqn:Hf.
  - (* decided earlier (address known early): creation completes now *)
    destruct HW as [Fl Fm Fd Fc Fcr Ffl]. rewrite Hr in Ffl.
    assert (Hcr : m_created m = false) by (rewrite Fcr; unfold acc_m; now rewrite Hr).
    assert (Hds : dones evs = [res_of o] /\ tidy evs = true /\ m_listen m' = false /\ m_rep m' = Some true
                  /\ m_oos m' = false /\ m_fired m' = Some o /\ m_created m' = true
                  /\ m_upl_done m' = true /\ m_unsub_pending m' = false).
    { destruct (c_shared c).
      - destruct Ffl as (U & P). rewrite U in Hs. inversion Hs; subst; cbn. repeat split; auto.
      - destruct Ffl as (P & U). rewrite U, P in Hs. unfold finish_wait in Hs.
        cbn [set_mrep m_rep m_created] in Hs. rewrite Hcr in Hs. cbn [negb] in Hs.
        inversion Hs; subst; cbn. rewrite dones_app. unfold tidy. rewrite forallb_app.
        destruct (o && c_progress c); cbn; repeat split; auto. }
    destruct Hds as (D1 & D2 & D3 & D4 & D5 & D6 & D7 & D8 & D9).
    assert (Hsd : s_done s = false) by congruence.
    cbn [spec_step]. rewrite D1.
    assert (Hda : done_after s [res_of o] = true) by (unfold done_after; cbn; apply orb_true_r).
    rewrite Hda. split.
    + unfold check_op, snap, unsub_ok, check_done. cbn [r_evs r_ncb r_inev spec_step].
      rewrite D1, D2, D3, Hda, Hsd. cbn [foreign_quiet andb negb orb N.eqb].
      replace (c_shared c || negb (c_shared c || false)) with true by (destruct (c_shared c); reflexivity).
      rewrite !andb_true_r. unfold accepted, set_rep. cbn [s_rep s_conf s_dec]. rewrite Hnone.
      destruct (s_conf s) eqn:C.
      * destruct (Fd eq_refl) as (dec & Hd & Ha). rewrite Hd. unfold allowed, res_of. destruct o; [now rewrite Ha | exact Ha].
      * unfold safe_done, accepted, res_of. cbn [s_rep s_okm s_failm]. destruct o; cbn [andb]; exact Fm.
    + unfold Inv. rewrite D6. refine (conj _ (conj _ (conj _ _))); auto.
      * rewrite D4. cbn. now rewrite Hnone.
      * congruence.
      * constructor; cbn [set_done set_rep s_okm s_failm s_conf s_dec s_done]; auto.
        -- unfold acc_m. now rewrite D4.
        -- rewrite D4. destruct (c_shared c); auto.
  - (* still waiting: nothing happens *)
    inversion Hs; subst m' evs; clear Hs. cbn [spec_step dones flat_map].
    rewrite (done_after_nil _ (w_done _ _ _ HW)). split.
    + unfold check_op, snap, unsub_ok, check_done. cbn [r_evs r_ncb r_inev spec_step dones flat_map].
      rewrite (done_after_nil _ (w_done _ _ _ HW)), (w_done _ _ _ HW).
      cbn [is_nil negb orb foreign_quiet andb tidy forallb set_rep s_conf s_dec].
      destruct (s_conf s) eqn:C; [|reflexivity].
      destruct (w_cf _ _ _ HW C) as (_ & _ & Hdc & _). rewrite Hdc. destruct (accepted _); reflexivity.
    + unfold Inv. cbn [set_mrep m_rep m_oos m_fired]. rewrite Hf. refine (conj _ (conj _ (conj _ _))); auto.
      * cbn. now rewrite Hnone.
      * discriminate.
      * destruct HW. constructor; cbn; auto.
Qed.

(* ---- the envelope and the finding-free condition, as they evolve along a history ---- *)
Lemma wf_cons_ev k a d ops : wf (Ev k a d :: ops) = wf ops.
Proof. reflexivity. Qed.

Definition answers (ops : list op) : nat := length (filter is_answer ops).

Lemma step_any c m s o :
  Inv c m s -> bad c s o = false -> (is_answer o = true -> s_rep s = None) -> o <> Reject -> step_goal c m s o.
Proof.
  intros HI Hb Hans Hnr. unfold bad in Hb. apply orb_false_iff in Hb as [Ha Hd].
  destruct o as [k a d| |].
  - destruct (m_fired m) as [o|] eqn:Hf; [now apply (step_ev_fired _ _ _ _ _ _ o)|].
    destruct (is_own c a) eqn:Hown; [|now apply step_ev_foreign].
    assert (Hk : known c m = true).
    { unfold bad_d in Hd. rewrite Hown in Hd. cbn [andb] in Hd. unfold known.
      rewrite (accepted_acc _ _ _ HI) in Hd. unfold acc_m in Hd.
      destruct (c_early c); [reflexivity|]. cbn in Hd. apply negb_false_iff in Hd. exact Hd. }
    destruct k; [now apply step_upload | now apply step_uploaded | now apply step_failed].
  - apply step_reply; auto.
  - congruence.
Qed.

(* ---- a rejected creating command: creation fails at once and the listener is removed (fix 3df3186);
        afterwards nothing can happen any more ---- *)
Definition Dead (m : st) (s : sst) : Prop :=
  m_rep m = Some false /\ s_rep s = Some false /\ m_listen m = false /\ s_done s = true.

Definition InvD (c : cfg) (m : st) (s : sst) : Prop := Inv c m s \/ Dead m s.

Lemma step_reject c m s m' evs :
  Inv c m s -> s_rep s = None -> step c m Reject = (m', evs) ->
  check_op c s Reject (snap c m' evs) = true /\
  Dead m' (set_done (spec_step c s Reject) (done_after s (dones evs))).
Proof.
  intros HI Hnone Hs. pose proof HI as (Hrep & Hnr & Hoos & HW).
  assert (Hr : m_rep m = None) by congruence.
  cbn [step] in Hs. rewrite Hr in Hs.
  assert (Hsd : s_done s = false).
  { destruct (m_fired m) as [o|] eqn:Hf.
    - destruct HW as [_ _ _ Fc Fcr _]. rewrite <- Fc, Fcr. unfold acc_m. now rewrite Hr.
    - exact (w_done _ _ _ HW). }
  assert (G : dones evs = [RRejected] /\ tidy evs = true /\ m_listen m' = false /\ m_rep m' = Some false).
  { destruct (m_fired m) as [o|] eqn:Hf.
    - destruct HW as [Fl _ _ _ _ _]. destruct (m_unsub_pending m); inversion Hs; subst; cbn; auto.
    - destruct (c_shared c); inversion Hs; subst; cbn; auto. }
  destruct G as (G1 & G2 & G3 & G4).
  assert (Hda : done_after s (dones evs) = true) by (unfold done_after; rewrite G1; cbn; apply orb_true_r).
  split.
  - unfold check_op, snap, unsub_ok, check_done. cbn [r_evs r_ncb r_inev]. rewrite Hda, G1, G2, G3, Hsd.
    cbn. destruct (c_shared c); reflexivity.
  - unfold Dead. rewrite Hda. cbn [spec_step set_done set_rep s_rep s_done]. rewrite Hnone. auto.
Qed.

Lemma step_ev_dead c m s k a d m' evs :
  Dead m s -> step c m (Ev k a d) = (m', evs) ->
  check_op c s (Ev k a d) (snap c m' evs) = true /\
  Dead m' (set_done (spec_step c s (Ev k a d)) (done_after s (dones evs))).
Proof.
  intros (D1 & D2 & D3 & D4) Hs. cbn [step] in Hs. rewrite (step_ev_deaf _ _ _ _ _ D3) in Hs.
  inversion Hs; subst m' evs; clear Hs.
  assert (Hda : done_after s (dones []) = true) by (unfold done_after; now rewrite D4).
  split.
  - unfold check_op, snap, unsub_ok, check_done. cbn [r_evs r_ncb r_inev dones flat_map]. rewrite D3, D4.
    unfold done_after. rewrite D4. cbn [is_nil negb orb foreign_quiet tidy forallb andb N.eqb].
    rewrite orb_true_r. destruct (c_shared c); reflexivity.
  - unfold Dead. rewrite Hda. cbn [spec_step]. destruct (is_own c a); cbn; auto.
Qed.

Lemma inv_init c : Inv c m0 s0.
Proof.
  unfold Inv. cbn. refine (conj _ (conj _ (conj _ _))); auto; [discriminate|].
  constructor; cbn; auto using NoDup_nil, incl_nil_l; try (intros _; repeat split; auto using incl_nil_l).
Qed.

Lemma go_run c ops : forall m s,
  InvD c m s -> any_bad c (bad c) s ops = false ->
  (answers ops + (match s_rep s with Some _ => 1 | None => 0 end) <= 1)%nat ->
  go c s ops (run_from c m ops) = true.
Proof.
  induction ops as [|o ops IH]; intros m s HI Hb Hw; [reflexivity|].
  cbn [any_bad] in Hb. apply orb_false_iff in Hb as [Hb1 Hb2].
  assert (Hans : is_answer o = true -> s_rep s = None).
  { intros A. unfold answers in Hw. cbn [filter] in Hw. rewrite A in Hw. cbn [length] in Hw.
    destruct (s_rep s); [lia | reflexivity]. }
  cbn [run_from]. destruct (step c m o) as [m' evs] eqn:Es.
  assert (G : check_op c s o (snap c m' evs) = true /\
              InvD c m' (set_done (spec_step c s o) (done_after s (dones evs)))).
  { destruct HI as [HI|HD].
    - destruct o as [k a d| |].
      + destruct (step_any _ _ _ _ HI Hb1 Hans ltac:(discriminate) _ _ Es) as (G1 & G2). split; [exact G1 | now left].
      + destruct (step_any _ _ _ _ HI Hb1 Hans ltac:(discriminate) _ _ Es) as (G1 & G2). split; [exact G1 | now left].
      + destruct (step_reject _ _ _ _ _ HI (Hans eq_refl) Es) as (G1 & G2). split; [exact G1 | now right].
    - destruct o as [k a d| |].
      + destruct (step_ev_dead _ _ _ _ _ _ _ _ HD Es) as (G1 & G2). split; [exact G1 | now right].
      + destruct HD as (_ & D2 & _). rewrite (Hans eq_refl) in D2. discriminate.
      + destruct HD as (_ & D2 & _). rewrite (Hans eq_refl) in D2. discriminate. }
  destruct G as (G1 & G2).
  cbn [go]. rewrite G1. cbn [andb r_evs snap].
  apply IH; auto.
  - (* the finding predicates do not look at s_done *)
    clear - Hb2. revert Hb2. generalize (spec_step c s o) as s1. generalize (done_after s (dones evs)) as b.
    induction ops as [|o' ops IH]; intros b s1 H; [reflexivity|].
    cbn [any_bad] in *. apply orb_false_iff in H as [H1 H2]. apply orb_false_iff. split; [exact H1|].
    assert (E : spec_step c (set_done s1 b) o' = set_done (spec_step c s1 o') b).
    { destruct o' as [k a d| |]; cbn [spec_step]; [destruct (is_own c a)|..]; reflexivity. }
    rewrite E. now apply IH.
  - cbn [set_done s_rep]. unfold answers in *. cbn [filter] in Hw.
    destruct o as [k a d| |]; cbn [is_answer spec_step] in *.
    + destruct (is_own c a); cbn [length] in *; exact Hw.
    + cbn [length] in Hw. unfold set_rep. cbn [s_rep]. rewrite (Hans eq_refl) in *. lia.
    + cbn [length] in Hw. unfold set_rep. cbn [s_rep]. rewrite (Hans eq_refl) in *. lia.
Qed.

Lemma start_ok c : check_start (start_rec c) = true.
Proof. unfold check_start, start_rec, snap. cbn. destruct (c_shared c); reflexivity. Qed.

(* THE main statement: on every history in the envelope (rejections included) and outside the two open
   finding classes, the model's trace satisfies the oracle *)
Lemma model_meets_oracle c ops :
  wf ops = true ->
  foreign_uploaded_shared_dir c ops = false ->
  own_event_before_reply c ops = false ->
  oracle c ops (run c ops) = true.
Proof.
  intros Hwf Ha Hd. unfold oracle, run. rewrite start_ok. cbn [andb].
  apply go_run.
  - left. apply inv_init.
  - rewrite any_bad_split. unfold foreign_uploaded_shared_dir, own_event_before_reply in *. now rewrite Ha, Hd.
  - unfold wf in Hwf. apply Nat.leb_le in Hwf. unfold answers. cbn. lia.
Qed.

(* ====================================================================================== *)
(* Exactly-once, for EVERY history (finding classes, rejections and double answers included) *)
(* ====================================================================================== *)
Definition b2n (b : bool) : nat := if b then 1%nat else 0%nat.
Definition all_evs (tr : list rec) : list obs := flat_map r_evs tr.
Definition n_done (tr : list rec) : nat := length (dones (all_evs tr)).

Definition J (m : st) : Prop := m_created m = true -> m_rep m <> None.

Lemma finish_wait_once c m o m' evs :
  finish_wait c m o = (m', evs) ->
  (length (dones evs) + b2n (m_created m) = b2n (m_created m'))%nat /\ m_rep m' = m_rep m.
Proof.
  unfold finish_wait. intros H. inversion H; subst; clear H. cbn [m_created m_rep]. split; [|reflexivity].
  rewrite dones_app. replace (dones (if o && c_progress c then [OProgress 100 1] else [])) with (@nil result)
    by (destruct (o && c_progress c); reflexivity).
  destruct (m_rep m) as [[|]|], (m_created m); reflexivity.
Qed.

Lemma fire_once c m o m' evs :
  fire c m o = (m', evs) ->
  (length (dones evs) + b2n (m_created m) = b2n (m_created m'))%nat /\ m_rep m' = m_rep m.
Proof.
  unfold fire. destruct (c_shared c).
  - intros H. apply finish_wait_once in H. exact H.
  - destruct (m_rep m) eqn:R.
    + destruct (finish_wait c _ o) as [s2 o2] eqn:E. intros H. inversion H; subst; clear H.
      apply finish_wait_once in E. cbn [m_created m_rep] in E. exact E.
    + intros H. inversion H; subst. cbn. split; [lia | reflexivity].
Qed.

Lemma step_once c m o m' evs :
  step c m o = (m', evs) -> J m ->
  J m' /\ (length (dones evs) + b2n (m_created m) = b2n (m_created m'))%nat.
Proof.
  unfold J. intros H HJ. destruct o as [k a d| |]; cbn [step] in H.
  - (* events *)
    assert (G : (length (dones evs) + b2n (m_created m) = b2n (m_created m'))%nat /\ m_rep m' = m_rep m).
    { unfold step_ev in H.
      repeat match type of H with
             | (if ?b then _ else _) = _ => destruct b
             | (match ?x with _ => _ end) = _ =>
                 match x with
                 | fire _ _ _ => let E := fresh "E" in destruct x eqn:E; apply fire_once in E; cbn [upd m_created m_rep] in E
                 | _ => destruct x
                 end
             end; inversion H; subst; clear H; cbn [upd m_created m_rep];
        rewrite ?dones_app, ?dones_prog; cbn [app dones flat_map length]; auto. }
    destruct G as (G1 & G2). split; [|exact G1]. rewrite G2. intros Hc.
    destruct (m_created m) eqn:C; [auto|]. destruct (m_rep m) as [[|]|] eqn:R; try discriminate.
    exfalso. cbn in G1.
    (* created became true during an event: only possible through finish_wait with an accepted command *)
    clear HJ. unfold step_ev in H.
    repeat match type of H with
           | (if ?b then _ else _) = _ => destruct b
           | (match ?x with _ => _ end) = _ =>
               match x with
               | fire _ _ _ => let E := fresh "E" in destruct x eqn:E
               | _ => destruct x
               end
           end; inversion H; subst; clear H; cbn [upd m_created] in Hc; try congruence;
      match goal with E : fire _ _ _ = _ |- _ => unfold fire, finish_wait in E; cbn [upd m_rep m_created] in E;
        rewrite R, C in E; destruct (c_shared c); inversion E; subst; cbn in Hc; congruence end.
  - (* Reply *)
    destruct (m_rep m) eqn:R.
    + inversion H; subst. cbn. split; [|lia]. intros Hc. rewrite R. discriminate.
    + assert (C : m_created m = false) by (destruct (m_created m); [exfalso; now apply HJ|reflexivity]).
      destruct (m_fired m) as [o|].
      * destruct (m_upl_done m).
        -- inversion H; subst. cbn. rewrite C. split; [discriminate | reflexivity].
        -- destruct (m_unsub_pending m).
           ++ destruct (finish_wait c (set_mrep m true) o) as [s2 o2] eqn:E. inversion H; subst; clear H.
              apply finish_wait_once in E. cbn [set_mrep m_created m_rep] in E. destruct E as (E1 & E2).
              split; [rewrite E2; discriminate | exact E1].
           ++ inversion H; subst. cbn. rewrite C. split; [discriminate | reflexivity].
      * inversion H; subst. cbn. rewrite C. split; [discriminate | reflexivity].
  - (* Reject *)
    destruct (m_rep m) eqn:R.
    + inversion H; subst. cbn. split; [|lia]. intros Hc. rewrite R. discriminate.
    + assert (C : m_created m = false) by (destruct (m_created m); [exfalso; now apply HJ|reflexivity]).
      destruct (m_fired m) as [o|]; [destruct (m_unsub_pending m)|]; [| |destruct (c_shared c)];
        inversion H; subst; cbn; rewrite C; (split; [discriminate | reflexivity]).
Qed.

Lemma run_from_once c ops : forall m, J m ->
  (n_done (run_from c m ops) + b2n (m_created m) <= 1)%nat.
Proof.
  induction ops as [|o ops IH]; intros m HJ; [cbn; destruct (m_created m); cbn; lia|].
  cbn [run_from]. destruct (step c m o) as [m' evs] eqn:E. apply step_once in E as (HJ' & E); [|exact HJ].
  specialize (IH m' HJ'). unfold n_done, all_evs in *. cbn [flat_map snap r_evs]. rewrite dones_app, app_length. lia.
Qed.

Lemma run_done_at_most_once c ops : (n_done (run c ops) <= 1)%nat.
Proof.
  unfold run. assert (H : n_done (start_rec c :: run_from c m0 ops) = n_done (run_from c m0 ops)).
  { unfold n_done, all_evs, start_rec, snap. cbn [flat_map r_evs]. rewrite dones_app.
    destruct (c_shared c); reflexivity. }
  rewrite H. pose proof (run_from_once c ops m0) as G. cbn in G. assert (J m0) by (unfold J; cbn; discriminate).
  specialize (G H0). lia.
Qed.

(* ====================================================================================== *)
(* What one step can do to the fields the remaining clauses talk about (every state)        *)
(* ====================================================================================== *)
Definition rep_after (o : op) (r : option bool) : option bool :=
  match o, r with
  | Reply, None => Some true
  | Reject, None => Some false
  | _, _ => r
  end.

Record shape (c : cfg) (m : st) (o : op) (m' : st) (evs : list obs) : Prop := {
  sh_rep : m_rep m' = rep_after o (m_rep m);
  sh_att : m_att m' = m_att m \/
           exists a d, o = Ev KUpload a d /\ is_own c a = true /\ m_att m' = sadd d (m_att m);
  sh_conf : m_conf m' = m_conf m \/
            exists a d, o = Ev KUploaded a d /\ smem d (m_att m) = true /\ m_conf m' = sadd d (m_conf m);
  sh_listen : m_listen m' = m_listen m \/ m_listen m' = false;
  sh_fired : m_fired m' = m_fired m \/
             (exists b, m_fired m' = Some b /\ m_listen m' = false /\ (b = true -> snonempty (m_conf m') = true));
  sh_created : m_created m' = true -> m_created m = true \/ m_fired m' <> None;
  sh_ok : forall h, In (ROk h) (dones evs) -> m_rep m' = Some true /\ m_fired m' = Some true
}.

Lemma in_dones_prog100 (b : bool) r : In r (dones (if b then [OProgress 100 1] else [])) -> False.
Proof. destruct b; cbn; tauto. Qed.

Lemma finish_wait_shape c m o m' evs :
  finish_wait c m o = (m', evs) ->
  m_rep m' = m_rep m /\ m_att m' = m_att m /\ m_conf m' = m_conf m /\ m_listen m' = m_listen m
  /\ m_fired m' = m_fired m /\ (m_created m' = true -> m_created m = true \/ m_rep m = Some true)
  /\ (forall r, In r (dones evs) -> r = res_of o /\ m_rep m = Some true).
Proof.
  unfold finish_wait. intros H. inversion H; subst; clear H. cbn. repeat split; auto.
  - destruct (m_created m); [auto|]. destruct (m_rep m) as [[|]|]; cbn; auto; discriminate.
  - rewrite dones_app in H. apply in_app_iff in H as [H|H]; [now apply in_dones_prog100 in H|].
    destruct (m_rep m) as [[|]|]; cbn in H; try tauto. destruct (negb (m_created m)); cbn in H; intuition.
  - rewrite dones_app in H. apply in_app_iff in H as [H|H]; [now apply in_dones_prog100 in H|].
    destruct (m_rep m) as [[|]|]; cbn in H; try tauto.
Qed.

Lemma fire_shape c m o m' evs :
  fire c m o = (m', evs) ->
  m_rep m' = m_rep m /\ m_att m' = m_att m /\ m_conf m' = m_conf m /\ m_listen m' = false
  /\ m_fired m' = Some o /\ (m_created m' = true -> m_created m = true \/ m_rep m = Some true)
  /\ (forall r, In r (dones evs) -> r = res_of o /\ m_rep m = Some true).
Proof.
  unfold fire. destruct (c_shared c).
  - intros H. apply finish_wait_shape in H. cbn in H. exact H.
  - destruct (m_rep m) eqn:R.
    + destruct (finish_wait c _ o) as [s2 o2] eqn:E. intros H. inversion H; subst; clear H.
      apply finish_wait_shape in E. cbn in E. destruct E as (E1 & E2 & E3 & E4 & E5 & E6 & E7).
      repeat split; auto; try congruence.
      * change (dones (OSetEvents false :: o2)) with (dones o2) in H. now apply E7.
      * change (dones (OSetEvents false :: o2)) with (dones o2) in H. apply E7 in H. tauto.
    + intros H. inversion H; subst; clear H. cbn. repeat split; auto. all: cbn in *; tauto.
Qed.

Lemma res_of_ok o h : res_of o = ROk h -> o = true.
Proof. destruct o; [reflexivity | discriminate]. Qed.

Lemma step_ev_shape c m k a d m' evs :
  step_ev c m k a d = (m', evs) -> shape c m (Ev k a d) m' evs.
Proof.
  intros H. unfold step_ev in H.
  destruct (negb (m_listen m)); [inversion H; subst; constructor; cbn; auto; tauto|].
  destruct k.
  - (* UPLOAD *)
    destruct ((a =? c_own c) && known c m) eqn:M; inversion H; subst; clear H;
      constructor; cbn [upd m_rep m_att m_conf m_listen m_fired m_created rep_after]; auto;
      try (intros h Hh; rewrite ?dones_prog in Hh; destruct Hh).
    right. exists a, d. apply andb_true_iff in M as [M _]. auto.
  - (* UPLOADED *)
    destruct (smem d (m_att m)) eqn:Hin; [|inversion H; subst; constructor; cbn; auto; tauto].
    assert (Hc : forall m1, m_conf m1 = sadd d (m_conf m) ->
                 m_conf m1 = m_conf m \/ exists a0 d0, Ev KUploaded a d = Ev KUploaded a0 d0
                   /\ smem d0 (m_att m) = true /\ m_conf m1 = sadd d0 (m_conf m)) by (intros; right; eauto).
    assert (Fire : forall m2 o2 p, fire c (upd m (m_att m) (sadd d (m_conf m)) (m_fail m)) true = (m2, o2) ->
                   dones p = [] -> m_fired m = None -> shape c m (Ev KUploaded a d) m2 (p ++ o2)).
    { intros m2 o2 p E Hp Hfn. apply fire_shape in E. cbn [upd m_rep m_att m_conf m_created] in E.
      destruct E as (E1 & E2 & E3 & E4 & E5 & E6 & E7). constructor; cbn [rep_after]; auto.
      - right. exists true. rewrite E3. repeat split; auto. intros _. apply snonempty_sadd.
      - intros Hcr. destruct (E6 Hcr); auto. right. congruence.
      - intros h Hh. rewrite dones_app, Hp in Hh. apply E7 in Hh as (Hh1 & Hh2). split; congruence. }
    destruct (m_fired m) eqn:Hf.
    + inversion H; subst; clear H. constructor; cbn [upd m_rep m_att m_conf m_listen m_fired m_created rep_after]; auto;
        try (intros h Hh; rewrite ?dones_prog in Hh; destruct Hh); try (right; eauto).
    + destruct (c_await c).
      * destruct (ssub _ _).
        -- destruct (fire c _ true) as [s2 o2] eqn:E. inversion H; subst; clear H.
           apply Fire; auto using dones_prog.
        -- inversion H; subst; clear H. constructor; cbn [upd m_rep m_att m_conf m_listen m_fired m_created rep_after]; auto;
             try (intros h Hh; rewrite ?dones_prog in Hh; destruct Hh); try (right; eauto).
      * destruct (fire c _ true) as [s2 o2] eqn:E. inversion H; subst; clear H.
        apply Fire; auto using dones_prog.
  - (* FAILED *)
    destruct ((a =? c_own c) && known c m) eqn:M; [|inversion H; subst; constructor; cbn; auto; tauto].
    assert (Plain : shape c m (Ev KFailed a d) (upd m (m_att m) (m_conf m) (sadd d (m_fail m)))
                      (prog c (m_att m) (m_conf m) (sadd d (m_fail m)))).
    { constructor; cbn [upd m_rep m_att m_conf m_listen m_fired m_created rep_after]; auto.
      intros h Hh. rewrite dones_prog in Hh. destruct Hh. }
    destruct (sseteq _ _).
    + destruct (m_fired m) eqn:Hf; [inversion H; subst; exact Plain|].
      destruct (fire c _ false) as [s2 o2] eqn:E. inversion H; subst; clear H.
      apply fire_shape in E. cbn [upd m_rep m_att m_conf m_created] in E.
      destruct E as (E1 & E2 & E3 & E4 & E5 & E6 & E7). constructor; cbn [rep_after]; auto.
      * right. exists false. repeat split; auto. discriminate.
      * intros Hcr. destruct (E6 Hcr); auto. right. congruence.
      * intros h Hh. rewrite dones_app, dones_prog in Hh. apply E7 in Hh as (Hh1 & Hh2). discriminate Hh1.
    + destruct (c_await c && snonempty (m_conf m) && negb _ && sseteq _ _) eqn:Cnd; [|inversion H; subst; exact Plain].
      destruct (fire c _ true) as [s2 o2] eqn:E. inversion H; subst; clear H.
      apply andb_true_iff in Cnd as [Cnd _]. apply andb_true_iff in Cnd as [Cnd _]. apply andb_true_iff in Cnd as [_ Cnd].
      apply fire_shape in E. cbn [upd m_rep m_att m_conf m_created] in E.
      destruct E as (E1 & E2 & E3 & E4 & E5 & E6 & E7). constructor; cbn [rep_after]; auto.
      * right. exists true. rewrite E3. repeat split; auto.
      * intros Hcr. destruct (E6 Hcr); auto. right. congruence.
      * intros h Hh. rewrite dones_app, dones_prog in Hh. apply E7 in Hh as (Hh1 & Hh2). split; congruence.
Qed.

Lemma step_shape c m o m' evs : step c m o = (m', evs) -> shape c m o m' evs.
Proof.
  destruct o as [k a d| |]; cbn [step]; [apply step_ev_shape| |].
  - (* Reply *)
    destruct (m_rep m) eqn:R.
    + intros H; inversion H; subst; constructor; cbn; rewrite ?R; auto; tauto.
    + destruct (m_fired m) as [o|] eqn:Hf.
      * destruct (m_upl_done m).
        -- intros H; inversion H; subst; constructor; cbn; rewrite ?R, ?Hf; auto.
           ++ intros _. right. discriminate.
           ++ intros h [Hh|[]]. inversion Hh. apply res_of_ok in H1. subst. auto.
        -- destruct (m_unsub_pending m).
           ++ destruct (finish_wait c (set_mrep m true) o) as [s2 o2] eqn:E. intros H; inversion H; subst; clear H.
              apply finish_wait_shape in E. cbn in E. destruct E as (E1 & E2 & E3 & E4 & E5 & E6 & E7).
              constructor; cbn; rewrite ?R; auto.
              ** intros _. right. congruence.
              ** intros h Hh. fold (dones o2) in Hh.
                 apply E7 in Hh as (Hh & _). symmetry in Hh. apply res_of_ok in Hh. subst. split; congruence.
           ++ intros H; inversion H; subst; constructor; cbn; rewrite ?R, ?Hf; auto; tauto.
      * intros H; inversion H; subst; constructor; cbn; rewrite ?R, ?Hf; auto; tauto.
  - (* Reject *)
    destruct (m_rep m) eqn:R.
    + intros H; inversion H; subst; constructor; cbn; rewrite ?R; auto; tauto.
    + destruct (m_fired m) as [o|] eqn:Hf; [destruct (m_unsub_pending m)|destruct (c_shared c)];
        intros H; inversion H; subst; constructor; cbn; rewrite ?R, ?Hf; auto;
        try (intros _; right; discriminate);
        try (right; exists false; repeat split; auto; discriminate);
        try (intros h Hh; repeat (destruct Hh as [Hh|Hh]; [discriminate|]); destruct Hh).
Qed.

(* ---- "afterwards the subscription is removed": EVERY history (rejections included since fix 3df3186) ---- *)
Definition U (m : st) : Prop :=
  (m_fired m <> None -> m_listen m = false) /\ (m_created m = true -> m_fired m <> None).

Lemma U_step c m o m' evs : step c m o = (m', evs) -> U m -> U m'.
Proof.
  intros H (U1 & U2). apply step_shape in H. destruct H as [_ _ _ Hl Hfi Hcr _]. split.
  - intros Hn. destruct Hfi as [Hfi|(b & Hb & Hl' & _)]; [|exact Hl'].
    rewrite Hfi in Hn. destruct Hl as [Hl|Hl]; [rewrite Hl; auto | exact Hl].
  - intros Hc. destruct (Hcr Hc) as [H|H]; [|exact H].
    destruct Hfi as [Hfi|(b & Hb & _)]; [rewrite Hfi; auto | congruence].
Qed.

Lemma run_from_unsub c ops : forall m done,
  U m -> J m -> (done = true -> m_created m = true) ->
  unsub_all c done (run_from c m ops) = true.
Proof.
  induction ops as [|o ops IH]; intros m done HU HJ Hd; [reflexivity|].
  cbn [run_from]. destruct (step c m o) as [m' evs] eqn:E.
  pose proof (U_step _ _ _ _ _ E HU) as HU'. destruct (step_once _ _ _ _ _ E HJ) as (HJ' & Hcnt).
  cbn [unsub_all snap r_evs].
  set (done' := done || negb (is_nil (dones evs))).
  assert (Hd' : done' = true -> m_created m' = true).
  { subst done'. intros H. apply orb_true_iff in H as [H|H].
    - rewrite (Hd H) in Hcnt. cbn in Hcnt. destruct (m_created m'); [reflexivity | cbn in Hcnt; lia].
    - destruct (dones evs); [discriminate|]. cbn in Hcnt. destruct (m_created m'); [reflexivity | cbn in Hcnt; lia]. }
  apply andb_true_iff. split.
  - unfold unsub_ok, snap. cbn [r_ncb r_inev]. destruct done' eqn:D; [|reflexivity]. cbn [negb orb].
    destruct HU' as (U1 & U2). rewrite (U1 (U2 (Hd' eq_refl))). cbn. destruct (c_shared c); reflexivity.
  - apply IH; auto.
Qed.

Lemma run_unsubscribes c ops : unsub_all c false (run c ops) = true.
Proof.
  unfold run. cbn [unsub_all]. unfold start_rec, snap. cbn [r_evs].
  replace (dones (if c_shared c then [OCreateCmd true] else [OSetEvents true; OCreateCmd true])) with (@nil result)
    by (destruct (c_shared c); reflexivity).
  cbn [is_nil negb orb unsub_ok andb]. apply run_from_unsub.
  - split; cbn; [intros H0; now exfalso | discriminate].
  - unfold J. cbn. discriminate.
  - discriminate.
Qed.

(* ---- events of other services are inert: every history outside finding C15-F1 ---- *)
Lemma foreign_noop c m k a d :
  is_own c a = false -> (k = KUploaded -> smem d (m_att m) = false) -> step_ev c m k a d = (m, []).
Proof.
  intros Ho Hk. unfold step_ev. destruct (negb (m_listen m)); [reflexivity|].
  unfold is_own in Ho. rewrite Ho. cbn [andb]. destruct k; try reflexivity. now rewrite (Hk eq_refl).
Qed.

Lemma sA_mono c s o : incl (sA s) (sA (spec_step c s o)).
Proof.
  destruct o as [k a d| |]; cbn [spec_step]; [|apply incl_refl..].
  destruct (is_own c a); [|apply incl_refl]. destruct k; cbn; auto using incl_refl, incl_sadd_r.
Qed.

Lemma sS_mono c s o : incl (sS s) (sS (spec_step c s o)).
Proof.
  destruct o as [k a d| |]; cbn [spec_step]; [|apply incl_refl..].
  destruct (is_own c a); [|apply incl_refl]. destruct k; cbn; auto using incl_refl, incl_sadd_r.
Qed.

Lemma att_step c m s o m' evs :
  step c m o = (m', evs) -> incl (m_att m) (sA s) -> incl (m_att m') (sA (spec_step c s o)).
Proof.
  intros H HI. apply step_shape in H. destruct (sh_att _ _ _ _ _ H) as [E|(a & d & -> & Ho & E)]; rewrite E.
  - eapply incl_tran; [exact HI | apply sA_mono].
  - cbn [spec_step]. rewrite Ho. cbn [spec_ev sA]. intros x Hx. apply In_sadd in Hx as [->|Hx]; apply In_sadd; auto.
Qed.

Lemma run_from_inert c ops : forall m s,
  incl (m_att m) (sA s) -> any_bad c (bad_a c) s ops = false ->
  run_from c m (filter (keeps c) ops) = own_part c ops (run_from c m ops)
  /\ foreign_silent c ops (run_from c m ops) = true.
Proof.
  induction ops as [|o ops IH]; intros m s HI Hb; [split; reflexivity|].
  cbn [any_bad] in Hb. apply orb_false_iff in Hb as [Hb1 Hb2]. cbn [filter].
  destruct (keeps c o) eqn:K.
  - cbn [run_from]. destruct (step c m o) as [m' evs] eqn:E.
    destruct (IH m' (spec_step c s o) (att_step _ _ _ _ _ _ E HI) Hb2) as (IH1 & IH2).
    cbn [own_part foreign_silent]. rewrite K, IH1, IH2. split; reflexivity.
  - destruct o as [k a d| |]; try discriminate. cbn [keeps] in K.
    assert (E : step c m (Ev k a d) = (m, [])).
    { cbn [step]. apply foreign_noop; [exact K|]. intros ->. unfold bad_a in Hb1. rewrite K in Hb1. cbn in Hb1.
      apply smem_false. apply smem_false in Hb1. intros Hx. apply Hb1, HI, Hx. }
    cbn [run_from]. rewrite E. cbn [spec_step] in Hb2. rewrite K in Hb2.
    destruct (IH m s HI Hb2) as (IH1 & IH2).
    cbn [own_part foreign_silent keeps snap r_evs is_nil]. rewrite K, IH1, IH2. split; reflexivity.
Qed.

Lemma run_foreign_inert c ops :
  foreign_uploaded_shared_dir c ops = false ->
  run c (filter (keeps c) ops) = start_rec c :: own_part c ops (run_from c m0 ops)
  /\ foreign_silent c ops (run_from c m0 ops) = true.
Proof.
  intros H. unfold run. destruct (run_from_inert c ops m0 s0 (incl_refl _) H) as (H1 & H2).
  now rewrite H1.
Qed.

(* ---- Ok only after the reply and after an UPLOADED of this service: every history outside C15-F1 ---- *)
Lemma rep_step c s o : s_rep (spec_step c s o) = rep_after o (s_rep s).
Proof.
  destruct o as [k a d| |]; cbn [spec_step].
  - destruct (is_own c a); reflexivity.
  - cbn. destruct (s_rep s); reflexivity.
  - cbn. destruct (s_rep s); reflexivity.
Qed.

Definition S2 (m : st) (s : sst) : Prop :=
  m_rep m = s_rep s /\ incl (m_att m) (sA s) /\ incl (m_conf m) (sS s)
  /\ (m_fired m = Some true -> snonempty (sS s) = true).

Lemma S2_step c m s o m' evs :
  step c m o = (m', evs) -> bad_a c s o = false -> S2 m s ->
  S2 m' (spec_step c s o)
  /\ forallb (fun d => match d with ROk _ => accepted (spec_step c s o) && snonempty (sS (spec_step c s o)) | _ => true end)
       (dones evs) = true.
Proof.
  intros H Hb (I1 & I2 & I3 & I4). pose proof (att_step _ _ _ _ _ _ H I2) as I2'.
  apply step_shape in H. destruct H as [Hrep Hatt Hconf Hl Hfi Hcr Hok].
  assert (I3' : incl (m_conf m') (sS (spec_step c s o))).
  { destruct Hconf as [E|(a & d & -> & Hin & E)]; rewrite E.
    - eapply incl_tran; [exact I3 | apply sS_mono].
    - cbn [spec_step]. destruct (is_own c a) eqn:Ho.
      + cbn [spec_ev sS]. intros x Hx. apply In_sadd in Hx as [->|Hx]; apply In_sadd; auto.
      + exfalso. unfold bad_a in Hb. rewrite Ho in Hb. cbn in Hb. apply smem_false in Hb. apply Hb, I2.
        now apply smem_In. }
  assert (I4' : m_fired m' = Some true -> snonempty (sS (spec_step c s o)) = true).
  { intros Hf. destruct Hfi as [E|(b & Hb' & _ & Hne)].
    - rewrite E in Hf. apply snonempty_In. destruct (proj1 (snonempty_In _) (I4 Hf)) as (x & Hx).
      exists x. now apply sS_mono.
    - assert (b = true) by congruence. subst b. apply snonempty_In.
      destruct (proj1 (snonempty_In _) (Hne eq_refl)) as (x & Hx). exists x. now apply I3'. }
  assert (I1' : m_rep m' = s_rep (spec_step c s o)) by (rewrite rep_step, Hrep; congruence).
  split; [repeat split; assumption|].
  apply forallb_forall. intros r Hr. destruct r as [h| | |]; auto.
  destruct (Hok h Hr) as (R & F). unfold accepted. rewrite <- I1', R. cbn [andb]. now apply I4'.
Qed.

Lemma run_from_ok_only_after c ops : forall m s,
  S2 m s -> any_bad c (bad_a c) s ops = false -> ok_only_after c s ops (run_from c m ops) = true.
Proof.
  induction ops as [|o ops IH]; intros m s HS Hb; [reflexivity|].
  cbn [any_bad] in Hb. apply orb_false_iff in Hb as [Hb1 Hb2].
  cbn [run_from]. destruct (step c m o) as [m' evs] eqn:E.
  destruct (S2_step _ _ _ _ _ _ E Hb1 HS) as (HS' & Hck).
  cbn [ok_only_after snap r_evs]. rewrite Hck. cbn [andb]. now apply IH.
Qed.

Lemma run_ok_only_after c ops :
  foreign_uploaded_shared_dir c ops = false -> ok_only_after c s0 ops (run_from c m0 ops) = true.
Proof.
  intros H. apply run_from_ok_only_after; [|exact H].
  unfold S2. cbn. repeat split; auto using incl_refl. discriminate.
Qed.

(* ====================================================================================== *)
(* Directory NAMES: the model only compares names, so renaming them injectively changes       *)
(* nothing; hence a history in which every directory keeps one name behaves as the history    *)
(* of directories (Spec: canon), and the theorems above transfer to named histories.          *)
(* ====================================================================================== *)
Section Rename.
  Variable f : N -> N.
  Variable L : list N.
  Hypothesis inj : forall x y, In x L -> In y L -> f x = f y -> x = y.

  Lemma smem_map x l : In x L -> incl l L -> smem (f x) (map f l) = smem x l.
  Proof.
    intros Hx Hl. induction l as [|y l IH]; [reflexivity|]. cbn [map smem].
    rewrite IH by (intros z Hz; apply Hl; now right). f_equal.
    destruct (N.eqb x y) eqn:E.
    - apply N.eqb_eq in E. subst. apply N.eqb_refl.
    - apply N.eqb_neq. intros H. apply N.eqb_neq in E. apply E. apply inj; auto. apply Hl. now left.
  Qed.

  Lemma sadd_map x l : In x L -> incl l L -> sadd (f x) (map f l) = map f (sadd x l).
  Proof.
    intros Hx Hl. unfold sadd. rewrite smem_map by assumption. destruct (smem x l); [reflexivity|].
    now rewrite map_app.
  Qed.

  Lemma incl_sadd_L x l : In x L -> incl l L -> incl (sadd x l) L.
  Proof. intros Hx Hl y Hy. apply In_sadd in Hy as [->|Hy]; auto. Qed.

  Lemma ssub_map a b : incl a L -> incl b L -> ssub (map f a) (map f b) = ssub a b.
  Proof.
    intros Ha Hb. unfold ssub. induction a as [|x a IH]; [reflexivity|]. cbn [map forallb].
    rewrite smem_map by (auto; apply Ha; now left). rewrite IH by (intros z Hz; apply Ha; now right). reflexivity.
  Qed.

  Lemma sseteq_map a b : incl a L -> incl b L -> sseteq (map f a) (map f b) = sseteq a b.
  Proof. intros Ha Hb. unfold sseteq. now rewrite !ssub_map. Qed.

  Lemma sunion_map b : forall a, incl a L -> incl b L -> sunion (map f a) (map f b) = map f (sunion a b).
  Proof.
    induction b as [|x b IH]; intros a Ha Hb; [reflexivity|]. cbn [map sunion].
    rewrite sadd_map by (auto; apply Hb; now left).
    apply IH; [apply incl_sadd_L; auto; apply Hb; now left | intros z Hz; apply Hb; now right].
  Qed.

  Lemma incl_sunion_L a b : incl a L -> incl b L -> incl (sunion a b) L.
  Proof. intros Ha Hb x Hx. apply In_sunion in Hx as [Hx|Hx]; auto. Qed.

  Lemma snonempty_map (l : list N) : snonempty (map f l) = snonempty l.
  Proof. destruct l; reflexivity. Qed.

  Lemma nlen_map (l : list N) : nlen (map f l) = nlen l.
  Proof. unfold nlen. now rewrite map_length. Qed.

  Lemma prog_map c a b d : prog c (map f a) (map f b) (map f d) = prog c a b d.
  Proof. unfold prog. rewrite !nlen_map. destruct a; reflexivity. Qed.

  Definition mapst (m : st) : st :=
    {| m_rep := m_rep m; m_att := map f (m_att m); m_conf := map f (m_conf m); m_fail := map f (m_fail m);
       m_fired := m_fired m; m_listen := m_listen m; m_unsub_pending := m_unsub_pending m;
       m_upl_done := m_upl_done m; m_created := m_created m; m_oos := m_oos m |}.

  Definition SubL (m : st) : Prop := incl (m_att m) L /\ incl (m_conf m) L /\ incl (m_fail m) L.

  Lemma finish_wait_map c m o :
    finish_wait c (mapst m) o = (mapst (fst (finish_wait c m o)), snd (finish_wait c m o)).
  Proof. reflexivity. Qed.

  Lemma fire_map c m o : fire c (mapst m) o = (mapst (fst (fire c m o)), snd (fire c m o)).
  Proof.
    unfold fire. cbn [mapst m_rep]. destruct (c_shared c); [reflexivity|].
    destruct (m_rep m); reflexivity.
  Qed.

  Lemma fire_sets c m o : SubL m -> SubL (fst (fire c m o)).
  Proof.
    intros H. unfold fire, finish_wait. destruct (c_shared c); [exact H|]. destruct (m_rep m); exact H.
  Qed.

  Lemma upd_map m a b d : mapst (upd m a b d) = upd (mapst m) (map f a) (map f b) (map f d).
  Proof. reflexivity. Qed.

  Lemma step_ev_map c m k a d :
    In d L -> SubL m ->
    step_ev c (mapst m) k a (f d) = (mapst (fst (step_ev c m k a d)), snd (step_ev c m k a d))
    /\ SubL (fst (step_ev c m k a d)).
  Proof.
    intros Hd (Ha & Hc & Hf). unfold step_ev. cbn [mapst m_listen m_att m_conf m_fail m_fired m_rep].
    assert (Hk : known c (mapst m) = known c m) by reflexivity.
    destruct (negb (m_listen m)); [split; [reflexivity | repeat split; assumption]|].
    rewrite Hk. destruct k.
    - destruct ((a =? c_own c) && known c m); [|split; [reflexivity | repeat split; assumption]].
      rewrite sadd_map, prog_map by assumption. split; [reflexivity|].
      repeat split; cbn; auto using incl_sadd_L.
    - rewrite smem_map by assumption. destruct (smem d (m_att m)); [|split; [reflexivity | repeat split; assumption]].
      rewrite sadd_map by assumption. rewrite prog_map.
      assert (Hc' : incl (sadd d (m_conf m)) L) by (apply incl_sadd_L; assumption).
      assert (S1 : SubL (upd m (m_att m) (sadd d (m_conf m)) (m_fail m))) by (repeat split; assumption).
      rewrite <- upd_map.
      destruct (m_fired m); [split; [reflexivity | exact S1]|].
      rewrite sunion_map, ssub_map by (auto using incl_sunion_L).
      destruct (c_await c); [destruct (ssub (m_att m) (sunion (m_fail m) (sadd d (m_conf m))))|].
      + rewrite fire_map. destruct (fire c (upd m (m_att m) (sadd d (m_conf m)) (m_fail m)) true) eqn:E.
        cbn [fst snd]. split; [reflexivity|]. pose proof (fire_sets c _ true S1) as S2. now rewrite E in S2.
      + split; [reflexivity | exact S1].
      + rewrite fire_map. destruct (fire c (upd m (m_att m) (sadd d (m_conf m)) (m_fail m)) true) eqn:E.
        cbn [fst snd]. split; [reflexivity|]. pose proof (fire_sets c _ true S1) as S2. now rewrite E in S2.
    - destruct ((a =? c_own c) && known c m); [|split; [reflexivity | repeat split; assumption]].
      rewrite sadd_map by assumption. rewrite prog_map.
      assert (Hf' : incl (sadd d (m_fail m)) L) by (apply incl_sadd_L; assumption).
      assert (S1 : SubL (upd m (m_att m) (m_conf m) (sadd d (m_fail m)))) by (repeat split; assumption).
      rewrite <- upd_map.
      rewrite sseteq_map by assumption. rewrite sunion_map by assumption.
      rewrite sseteq_map by (auto using incl_sunion_L). rewrite snonempty_map.
      destruct (sseteq (sadd d (m_fail m)) (m_att m)).
      + destruct (m_fired m); [split; [reflexivity | exact S1]|].
        rewrite fire_map. destruct (fire c (upd m (m_att m) (m_conf m) (sadd d (m_fail m))) false) eqn:E.
        cbn [fst snd]. split; [reflexivity|]. pose proof (fire_sets c _ false S1) as S2. now rewrite E in S2.
      + destruct (c_await c && snonempty (m_conf m) && negb match m_fired m with Some _ => true | None => false end
                  && sseteq (sunion (sadd d (m_fail m)) (m_conf m)) (m_att m)).
        * rewrite fire_map. destruct (fire c (upd m (m_att m) (m_conf m) (sadd d (m_fail m))) true) eqn:E.
          cbn [fst snd]. split; [reflexivity|]. pose proof (fire_sets c _ true S1) as S2. now rewrite E in S2.
        * split; [reflexivity | exact S1].
  Qed.

  Definition ren_op (o : op) : op := match o with Ev k a d => Ev k a (f d) | x => x end.

  Lemma step_map c m o :
    incl (names_of [o]) L -> SubL m ->
    step c (mapst m) (ren_op o) = (mapst (fst (step c m o)), snd (step c m o)) /\ SubL (fst (step c m o)).
  Proof.
    intros Ho HS. destruct o as [k a d| |]; cbn [ren_op step].
    - apply step_ev_map; [apply Ho; cbn; auto | exact HS].
    - cbn [mapst m_rep m_fired m_upl_done m_unsub_pending].
      destruct (m_rep m); [split; [reflexivity | exact HS]|].
      destruct (m_fired m); [|split; [reflexivity | exact HS]].
      destruct (m_upl_done m); [split; [reflexivity | exact HS]|].
      destruct (m_unsub_pending m); split; try reflexivity; exact HS.
    - cbn [mapst m_rep m_fired m_upl_done m_unsub_pending].
      destruct (m_rep m); [split; [reflexivity | exact HS]|].
      destruct (m_fired m); [destruct (m_unsub_pending m)|destruct (c_shared c)]; split; try reflexivity; exact HS.
  Qed.

  Lemma run_from_map c ops : forall m,
    incl (names_of ops) L -> SubL m ->
    run_from c (mapst m) (map ren_op ops) = run_from c m ops.
  Proof.
    induction ops as [|o ops IH]; intros m Ho HS; [reflexivity|].
    cbn [map run_from].
    assert (Ho1 : incl (names_of [o]) L).
    { intros x Hx. apply Ho. unfold names_of in *. cbn [flat_map] in *. rewrite app_nil_r in Hx. apply in_app_iff. now left. }
    assert (Ho2 : incl (names_of ops) L).
    { intros x Hx. apply Ho. unfold names_of in *. cbn [flat_map]. apply in_app_iff. now right. }
    destruct (step_map c m o Ho1 HS) as (E & HS'). rewrite E.
    destruct (step c m o) as [m' evs]. cbn [fst snd] in *.
    rewrite (IH m' Ho2 HS'). reflexivity.
  Qed.
End Rename.

(* directories themselves are interchangeable: renaming them injectively changes nothing *)
Lemma run_injective_renaming (f : N -> N) c ops :
  (forall x y, In x (names_of ops) -> In y (names_of ops) -> f x = f y -> x = y) ->
  run c (map (ren_op f) ops) = run c ops.
Proof.
  intros Inj. unfold run. f_equal.
  apply (run_from_map f (names_of ops) Inj c ops m0 (incl_refl _)). repeat split; intros x [].
Qed.

(* NAMES: the code keys by fingerprint (fix 1b606af), so ANY renaming that keeps every name's fingerprint -
   injective or not, e.g. switching between "$FP" and "$FP~nick" from event to event - changes nothing *)
Lemma canon_ren g ops : (forall d, dir_id (g d) = dir_id d) -> canon (map (ren_op g) ops) = canon ops.
Proof.
  intros Hg. unfold canon. rewrite map_map. apply map_ext. intros [k a d| |]; cbn; [now rewrite Hg | reflexivity..].
Qed.

Lemma names_irrelevant g c ops :
  (forall d, dir_id (g d) = dir_id d) -> run_named c (map (ren_op g) ops) = run_named c ops.
Proof. intros Hg. unfold run_named. now rewrite canon_ren. Qed.

Lemma answers_canon ops : filter is_answer (canon ops) = filter is_answer ops.
Proof. induction ops as [|o ops IH]; [reflexivity|]. cbn [canon map filter]. destruct o; cbn; fold (canon ops); rewrite ?IH; reflexivity. Qed.

(* the main statement for histories as the implementation sees them (directories named in either form) *)
Lemma model_meets_oracle_named c ops :
  wf ops = true ->
  foreign_uploaded_shared_dir c (canon ops) = false ->
  own_event_before_reply c (canon ops) = false ->
  oracle_named c ops (run_named c ops) = true.
Proof.
  intros Hwf Ha Hd. unfold oracle_named, run_named. apply model_meets_oracle; auto.
  unfold wf. now rewrite answers_canon.
Qed.

(* regression anchor for the repaired C15-F5 (fix 1b606af): UPLOAD "$FP~nick" then UPLOADED "$FP" completes *)
Lemma two_forms_now_accepted :
  let ops := [Reply; Ev KUpload 1 3; Ev KUploaded 1 2] in
  oracle_named (cfg0 false) ops (run_named (cfg0 false) ops) = true
  /\ n_dones_of (run_named (cfg0 false) ops) = 1%nat.
Proof. vm_compute. auto. Qed.
