(* L2, item level: a complete rendered item does exactly one thing to the protocol state:
   a 2xx/5xx reply resolves the in-flight command with the reply text and issues the next queued
   command; a 650 event is handed to _handle_notify with its full text. *)
From Coq Require Import List Bool Ascii Arith NArith ZArith Lia.
From TxVerif Require Import Lib.Bytes Spec.Ctl Model.CtlTypes Gen.CtlFsmTable Model.Framing Model.CtlProto
  Proofs.CtlParse Proofs.CtlText.
Import ListNotations.
Open Scope N_scope.

Section ItemLevel.
  Variable lbehs : list (N * lbeh).

  Definition item_fsm (i : item) : fstate := match iparts i with [] => IDLE | _ => RECV end.

  (* what happens once a reply is complete: resolve, clear, issue the next, back to rest *)
  Definition finish_cmd (s1 : pstate) (o0 : list obs) (cm : cmd) (o : outcome) : res :=
    andthen (andthen (andthen (emit s1 o0) (fun s1' => resolve1 s1' cm o))
                     (fun s2 => maybe_issue1 (upd_fsm (upd_q s2 None (p_queue s2)) (p_fsm s2) None (p_resp s2))))
            (fun s3 => ret (set_line s3 IDLE (p_code s3))).

  Definition finish_event (s1 : pstate) (text : bytes) : res :=
    andthen (andthen (handle_notify lbehs s1 text) (fun s2 => ret (upd_fsm s2 (p_fsm s2) None (p_resp s2))))
            (fun s3 => ret (set_line s3 IDLE (p_code s3))).

  Lemma wf_item_facts i : wf_item i = true ->
    wf_code (icode i) /\ item_ascii i = true /\ no_lf (ifinal i) = true /\
    (is_2xx (icode i) || is_5xx (icode i) || is_6xx (icode i)) = true.
  Proof.
    unfold wf_item. intros H.
    apply andb_true_iff in H as [H Hf]. apply andb_true_iff in H as [H Hp].
    apply andb_true_iff in H as [H Hk]. apply andb_true_iff in H as [Hlo Hhi].
    apply N.leb_le in Hlo. apply N.ltb_lt in Hhi.
    split; [unfold wf_code; lia|]. split; [|split; [now apply wf_text_no_lf|exact Hk]].
    unfold item_ascii. apply andb_true_iff. split; [|now apply wf_text_ascii7].
    rewrite forallb_forall in *. intros p Hin. specialize (Hp p Hin).
    destruct p as [t|t ds]; cbn [wf_part part_ascii] in *.
    - now apply wf_text_ascii7.
    - apply andb_true_iff in Hp as [H1 H2]. apply andb_true_iff. split; [now apply wf_text_ascii7|].
      rewrite forallb_forall in *. intros d Hd. apply wf_text_ascii7. now apply H2.
  Qed.

  Lemma code_classes c : is_2xx c = true -> is_5xx c = false /\ is_6xx c = false.
  Proof. unfold is_2xx, is_5xx, is_6xx. intros H. lia. Qed.
  Lemma code_classes5 c : is_5xx c = true -> is_2xx c = false /\ is_6xx c = false.
  Proof. unfold is_2xx, is_5xx, is_6xx. intros H. lia. Qed.
  Lemma code_classes6 c : is_6xx c = true -> is_2xx c = false /\ is_5xx c = false.
  Proof. unfold is_2xx, is_5xx, is_6xx. intros H. lia. Qed.

  (* the final line, on the accumulated state *)
  Lemma broadcast_final s f c r t cm : c < 1000 -> p_inflight s = Some cm ->
    broadcast lbehs (upd_fsm s f (Some c) r) (head3 c ++ SP :: t) =
    if is_2xx c then
      (if ccb (cl cm)
       then andthen (andthen (emit (upd_fsm s f (Some c) []) (call_cb (cid (cl cm)) t))
                             (fun s1 => resolve1 s1 cm (ROk (strip_nl_OK []))))
                    (fun s2 => maybe_issue1 (upd_fsm (upd_q s2 None (p_queue s2)) (p_fsm s2) None (p_resp s2)))
       else andthen (andthen (emit (upd_fsm s f (Some c) []) [])
                             (fun s1 => resolve1 s1 cm (ROk (strip_nl_OK (r ++ t)))))
                    (fun s2 => maybe_issue1 (upd_fsm (upd_q s2 None (p_queue s2)) (p_fsm s2) None (p_resp s2))))
    else if is_5xx c then
      andthen (andthen (emit (upd_fsm s f (Some c) []) [])
                       (fun s1 => resolve1 s1 cm (RErr c (r ++ t))))
              (fun s2 => maybe_issue1 (upd_fsm (upd_q s2 None (p_queue s2)) (p_fsm s2) None (p_resp s2)))
    else if is_6xx c then
      andthen (andthen (emit (upd_fsm s f (Some c) []) []) (fun s1 => handle_notify lbehs s1 (r ++ t)))
              (fun s2 => ret (upd_fsm s2 (p_fsm s2) None (p_resp s2)))
    else (upd_fsm s f (Some c) [], [Raised K_RuntimeError], false).
  Proof.
    intros Hc Hi. unfold broadcast. cbn [p_code upd_fsm p_inflight p_resp p_fsm]. rewrite Hi.
    rewrite nlen_head, rest4_head.
    destruct (is_2xx c) eqn:E2.
    - destruct (ccb (cl cm)); reflexivity.
    - destruct (ccb (cl cm)); destruct (is_5xx c); try reflexivity; destruct (is_6xx c); reflexivity.
  Qed.

  Lemma broadcast_final_event s f c r t : c < 1000 -> is_6xx c = true ->
    broadcast lbehs (upd_fsm s f (Some c) r) (head3 c ++ SP :: t) =
    andthen (andthen (emit (upd_fsm s f (Some c) []) []) (fun s1 => handle_notify lbehs s1 (r ++ t)))
            (fun s2 => ret (upd_fsm s2 (p_fsm s2) None (p_resp s2))).
  Proof.
    intros Hc H6. destruct (code_classes6 c H6) as [E2 E5].
    unfold broadcast. cbn [p_code upd_fsm p_inflight p_resp p_fsm].
    rewrite nlen_head, rest4_head, E2, E5, H6.
    destruct (p_inflight s) as [cm|]; [destruct (ccb (cl cm))|]; reflexivity.
  Qed.

  Lemma andthen_emit_nil s (f : pstate -> res) : andthen (emit s []) f = f s.
  Proof. unfold andthen, emit. destruct (f s) as [[s2 o2] ok2]. reflexivity. Qed.

  Lemma item_lines_body i : item_lines i = body_lines i ++ [ifinal i].
  Proof. reflexivity. Qed.

  (* ---- replies to a plain command ---- *)
  Theorem reply_ok_plain s i cm :
    at_rest s -> p_inflight s = Some cm -> ccb (cl cm) = false ->
    wf_item i = true -> is_2xx (icode i) = true -> item_fits i = true ->
    lines_received lbehs s (render_lines i) =
    finish_cmd (upd_fsm s (item_fsm i) (Some (icode i)) []) [] cm (ROk (reply_text_ok i)).
  Proof.
    intros R Hi Hcb Hwf H2 Hfit. destruct (wf_item_facts i Hwf) as (Hc & Ha & Hnl & _).
    destruct (code_classes _ H2) as [E5 E6].
    rewrite reads_item_lines by assumption. cbv zeta.
    assert (Hcbo : cb_of s (icode i) = None) by (unfold cb_of; rewrite E6, Hi, Hcb; reflexivity).
    rewrite Hcbo. cbn [acc_obs acc_resp app]. rewrite andthen_emit_nil.
    fold (item_fsm i).
    rewrite (broadcast_final s (item_fsm i) (icode i) _ (ifinal i) cm) by (destruct Hc; assumption).
    rewrite H2, Hcb. rewrite join_snoc, <- item_lines_body.
    rewrite item_lines_body, strip_nl_OK_join by assumption. rewrite <- item_lines_body.
    reflexivity.
  Qed.

  Theorem reply_err_plain s i cm :
    at_rest s -> p_inflight s = Some cm -> ccb (cl cm) = false ->
    wf_item i = true -> is_5xx (icode i) = true -> item_fits i = true ->
    lines_received lbehs s (render_lines i) =
    finish_cmd (upd_fsm s (item_fsm i) (Some (icode i)) []) [] cm (RErr (icode i) (item_text i)).
  Proof.
    intros R Hi Hcb Hwf H5 Hfit. destruct (wf_item_facts i Hwf) as (Hc & Ha & Hnl & _).
    destruct (code_classes5 _ H5) as [E2 E6].
    rewrite reads_item_lines by assumption. cbv zeta.
    assert (Hcbo : cb_of s (icode i) = None) by (unfold cb_of; rewrite E6, Hi, Hcb; reflexivity).
    rewrite Hcbo. cbn [acc_obs acc_resp app]. rewrite andthen_emit_nil.
    fold (item_fsm i).
    rewrite (broadcast_final s (item_fsm i) (icode i) _ (ifinal i) cm) by (destruct Hc; assumption).
    rewrite E2, H5. rewrite join_snoc, <- item_lines_body. reflexivity.
  Qed.

  (* ---- events: whatever is queued or in flight (per-line callback or not) ---- *)
  Theorem event_item s i :
    at_rest s -> wf_item i = true -> is_6xx (icode i) = true -> item_fits i = true ->
    lines_received lbehs s (render_lines i) =
    finish_event (upd_fsm s (item_fsm i) (Some (icode i)) []) (item_text i).
  Proof.
    intros R Hwf H6 Hfit. destruct (wf_item_facts i Hwf) as (Hc & Ha & Hnl & _).
    rewrite reads_item_lines by assumption. cbv zeta.
    assert (Hcbo : cb_of s (icode i) = None) by (unfold cb_of; now rewrite H6).
    rewrite Hcbo. cbn [acc_obs acc_resp app]. rewrite andthen_emit_nil.
    fold (item_fsm i).
    rewrite broadcast_final_event by (destruct Hc; assumption).
    rewrite andthen_emit_nil. rewrite join_snoc, <- item_lines_body. reflexivity.
  Qed.

  Definition pre (p : list obs) (r : res) : res := let '(s, o, ok) := r in (s, p ++ o, ok).
  Lemma pre_andthen p r f : pre p (andthen r f) = andthen (pre p r) f.
  Proof.
    unfold pre, andthen. destruct r as [[s o] ok]. destruct ok; [|reflexivity].
    destruct (f s) as [[s2 o2] ok2]. now rewrite app_assoc.
  Qed.
  Lemma pre_emit p s o : pre p (emit s o) = emit s (p ++ o).
  Proof. reflexivity. Qed.

  (* ---- a reply to a command with a per-line callback ---- *)
  Definition cb_calls (id : N) (i : item) : list obs :=
    concat (map (call_cb id) (body_lines i)) ++ call_cb id (ifinal i).

  Theorem reply_ok_cb s i cm :
    at_rest s -> p_inflight s = Some cm -> ccb (cl cm) = true ->
    wf_item i = true -> is_2xx (icode i) = true -> item_fits i = true ->
    lines_received lbehs s (render_lines i) =
    finish_cmd (upd_fsm s (item_fsm i) (Some (icode i)) []) (cb_calls (cid (cl cm)) i) cm (ROk []).
  Proof.
    intros R Hi Hcb Hwf H2 Hfit. destruct (wf_item_facts i Hwf) as (Hc & Ha & Hnl & _).
    destruct (code_classes _ H2) as [E5 E6].
    rewrite reads_item_lines by assumption. cbv zeta.
    assert (Hcbo : cb_of s (icode i) = Some (cid (cl cm))) by (unfold cb_of; rewrite E6, Hi, Hcb; reflexivity).
    rewrite Hcbo. cbn [acc_obs acc_resp]. fold (item_fsm i).
    rewrite andthen_emit.
    rewrite (broadcast_final s (item_fsm i) (icode i) _ (ifinal i) cm) by (destruct Hc; assumption).
    rewrite H2, Hcb. unfold finish_cmd, cb_calls.
    change (strip_nl_OK []) with (@nil ascii).
    fold (pre (concat (map (call_cb (cid (cl cm))) (body_lines i)))
              (andthen
                 (andthen
                    (andthen (emit (upd_fsm s (item_fsm i) (Some (icode i)) []) (call_cb (cid (cl cm)) (ifinal i)))
                       (fun s1 : pstate => resolve1 s1 cm (ROk [])))
                    (fun s2 : pstate =>
                     maybe_issue1 (upd_fsm (upd_q s2 None (p_queue s2)) (p_fsm s2) None (p_resp s2))))
                 (fun s2 : pstate => ret (set_line s2 IDLE (p_code s2))))).
    now rewrite !pre_andthen, pre_emit.
  Qed.

  (* a single-line 5xx reply to a command with a per-line callback *)
  Theorem reply_err_cb_single s i cm :
    at_rest s -> p_inflight s = Some cm -> ccb (cl cm) = true -> iparts i = [] ->
    wf_item i = true -> is_5xx (icode i) = true -> item_fits i = true ->
    lines_received lbehs s (render_lines i) =
    finish_cmd (upd_fsm s IDLE (Some (icode i)) []) [] cm (RErr (icode i) (item_text i)).
  Proof.
    intros R Hi Hcb Hp Hwf H5 Hfit. destruct (wf_item_facts i Hwf) as (Hc & Ha & Hnl & _).
    destruct (code_classes5 _ H5) as [E2 E6].
    rewrite reads_item_lines by assumption. cbv zeta. unfold body_lines. rewrite Hp. cbn [map concat].
    assert (Hcbo : cb_of s (icode i) = Some (cid (cl cm))) by (unfold cb_of; rewrite E6, Hi, Hcb; reflexivity).
    rewrite Hcbo. cbn [acc_obs acc_resp map concat]. rewrite andthen_emit_nil.
    rewrite (broadcast_final s IDLE (icode i) _ (ifinal i) cm) by (destruct Hc; assumption).
    rewrite E2, H5. unfold item_text, item_lines. rewrite Hp. cbn [map concat app join]. reflexivity.
  Qed.

  (* outside finding C01-F1's input class, the callback sees exactly Spec's cb_lines *)
  Definition no_oklike (i : item) : bool :=
    forallb (fun l => negb (beqb (strip l) OKs)) (body_lines i)
    && (beqb (ifinal i) OKs || negb (beqb (strip (ifinal i)) OKs)).

  Lemma strip_OK : strip OKs = OKs.
  Proof. vm_compute. reflexivity. Qed.

  Lemma cb_calls_spec id i : no_oklike i = true -> cb_calls id i = map (LineCb id) (cb_lines i).
  Proof.
    unfold no_oklike, cb_calls, cb_lines. intros H. apply andb_true_iff in H as [Hb Hf].
    fold (body_lines i). rewrite map_app. f_equal.
    - induction (body_lines i) as [|l ls IH]; [reflexivity|].
      cbn [forallb] in Hb. apply andb_true_iff in Hb as [H1 H2].
      cbn [map concat]. unfold call_cb at 1. destruct (beqb (strip l) OKs); [discriminate|].
      cbn [app]. f_equal. now apply IH.
    - unfold call_cb. destruct (beqb (ifinal i) OKs) eqn:E.
      + apply beqb_eq in E. rewrite E, strip_OK, beqb_refl. reflexivity.
      + cbn [orb] in Hf. destruct (beqb (strip (ifinal i)) OKs); [discriminate|reflexivity].
  Qed.
End ItemLevel.
