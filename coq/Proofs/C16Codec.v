(* C16, identity codecs: hexIdFromHash / hashFromHexId against RFC 4648 as written in Spec/C16.v *)
From Coq Require Import List Bool Ascii Arith NArith ZArith Lia String.
From TxVerif Require Import Lib.Bytes Spec.C16 Model.IdCodec.
Import ListNotations.
Open Scope list_scope.
Open Scope N_scope.

Ltac Zify.zify_post_hook ::= Z.to_euclidean_division_equations.

(* ---- induction over groups of three ---- *)
Lemma list_ind3 {A} (P : list A -> Prop) :
  P [] -> (forall a, P [a]) -> (forall a b, P [a; b]) ->
  (forall a b c r, P r -> P (a :: b :: c :: r)) -> forall l, P l.
Proof.
  intros H0 H1 H2 H3.
  assert (H : forall l, P l /\ (forall a, P (a :: l)) /\ (forall a b, P (a :: b :: l))).
  { induction l as [|x l [IH0 [IH1 IH2]]].
    - split; [exact H0|split; [exact H1|exact H2]].
    - split; [apply IH1|split; [intros a; apply IH2|intros a b; apply H3; exact IH0]]. }
  intros l. apply H.
Qed.

Lemma code_lt a : code a < 256.
Proof. unfold code. apply N_ascii_bounded. Qed.

Lemma ch_code a : ch (code a) = a.
Proof. unfold ch, code. apply ascii_N_embedding. Qed.

(* ---- finite facts about the alphabets (64 / 16 entries, checked by computation) ---- *)
Lemma below_forall (n : nat) (P : N -> bool) :
  forallb (fun i => P (N.of_nat i)) (seq 0 n) = true -> forall i, i < N.of_nat n -> P i = true.
Proof.
  intros H i Hi. rewrite forallb_forall in H.
  specialize (H (N.to_nat i)). rewrite N2Nat.id in H. apply H. apply in_seq. lia.
Qed.

Lemma b64val_char i : i < 64 -> b64val (b64char i) = Some i.
Proof.
  intros Hi.
  assert (H : option_eqb N.eqb (b64val (b64char i)) (Some i) = true).
  { revert i Hi. apply (below_forall 64). vm_compute. reflexivity. }
  destruct (b64val (b64char i)) as [x|]; cbn in H; try discriminate. apply N.eqb_eq in H. now subst.
Qed.

Lemma b64val_eq : b64val EQC = None.
Proof. vm_compute. reflexivity. Qed.

Lemma tbl_b64 i : tbl_char M_B64 i = b64char i.
Proof. reflexivity. Qed.

Lemma hexval_char i : i < 16 -> hexval (hexchar i) = Some i.
Proof.
  intros Hi.
  assert (H : option_eqb N.eqb (hexval (hexchar i)) (Some i) = true).
  { revert i Hi. apply (below_forall 16). vm_compute. reflexivity. }
  destruct (hexval (hexchar i)) as [x|]; cbn in H; try discriminate. apply N.eqb_eq in H. now subst.
Qed.

Lemma upper_hexl i : i < 16 -> upper (tbl_char M_HEXL i) = hexchar i.
Proof.
  intros Hi.
  assert (H : Ascii.eqb (upper (tbl_char M_HEXL i)) (hexchar i) = true).
  { revert i Hi. apply (below_forall 16). vm_compute. reflexivity. }
  now apply Ascii.eqb_eq in H.
Qed.

(* ---- base16 ---- *)
Lemma upper_b2a_hex d : map upper (b2a_hex d) = hexenc d.
Proof.
  induction d as [|a d IH]; [reflexivity|].
  unfold b2a_hex, hexenc in *. cbn [flat_map app map]. rewrite IH.
  pose proof (code_lt a).
  rewrite !upper_hexl; [reflexivity| |]; lia.
Qed.

Lemma a2b_hex_hexenc d : a2b_hex (hexenc d) = Some d.
Proof.
  induction d as [|a d IH]; [reflexivity|].
  unfold hexenc in *. cbn [flat_map app a2b_hex]. pose proof (code_lt a).
  rewrite !hexval_char by lia. rewrite IH. cbn [option_map].
  replace (code a / 16 * 16 + code a mod 16) with (code a) by lia. now rewrite ch_code.
Qed.

Lemma hexenc_inj d1 d2 : hexenc d1 = hexenc d2 -> d1 = d2.
Proof.
  intros H. pose proof (a2b_hex_hexenc d1) as H1. rewrite H in H1. rewrite a2b_hex_hexenc in H1. congruence.
Qed.

Lemma hexenc_length d : List.length (hexenc d) = (2 * List.length d)%nat.
Proof. induction d as [|a d IH]; [reflexivity|]. unfold hexenc in *. cbn [flat_map app List.length]. rewrite IH. lia. Qed.

(* ---- base64 ---- *)
Lemma b64encode_spec d : b64encode d = b64enc d.
Proof.
  induction d using list_ind3; try reflexivity;
  try (cbn [b64encode b64enc]; rewrite IHd; reflexivity).
Qed.

Lemma ch_inj_lt x y : x < 256 -> y < 256 -> ch x = ch y -> x = y.
Proof. intros Hx Hy H. unfold ch in H. rewrite <- (N_ascii_embedding x), <- (N_ascii_embedding y) by assumption. now rewrite H. Qed.

Opaque b64val b64char N.div N.modulo N.mul N.add.

Lemma b64decode_enc d : b64decode (b64enc d) = Some d.
Proof.
  induction d using list_ind3.
  - reflexivity.
  - cbn [b64enc b64decode]. pose proof (code_lt a).
    rewrite !b64val_char by lia. rewrite b64val_eq. cbn [Ascii.eqb andb].
    replace (Ascii.eqb EQC EQC) with true by reflexivity. cbn [andb].
    f_equal. f_equal.
    replace (code a * 16 / 64 * 64 + (code a * 16) mod 64) with (code a * 16) by lia.
    replace (code a * 16 / 16) with (code a) by lia. apply ch_code.
  - cbn [b64enc b64decode]. pose proof (code_lt a). pose proof (code_lt b).
    rewrite !b64val_char by lia. rewrite b64val_eq.
    replace (Ascii.eqb EQC EQC) with true by reflexivity.
    set (n := code a * 1024 + code b * 4).
    assert (Hn : n / 4096 * 4096 + (n / 64) mod 64 * 64 + n mod 64 = n) by lia.
    rewrite Hn. f_equal. f_equal; [|f_equal].
    + replace (n / 1024) with (code a) by (unfold n; lia). apply ch_code.
    + replace ((n / 4) mod 256) with (code b) by (unfold n; lia). apply ch_code.
  - cbn [b64enc b64decode]. pose proof (code_lt a). pose proof (code_lt b). pose proof (code_lt c).
    set (n := code a * 65536 + code b * 256 + code c).
    assert (n < 16777216) by (unfold n; lia).
    rewrite !b64val_char by lia.
    rewrite IHd. cbn [option_map].
    assert (Hn : n / 262144 * 262144 + (n / 4096) mod 64 * 4096 + (n / 64) mod 64 * 64 + n mod 64 = n) by lia.
    rewrite Hn. f_equal. f_equal; [|f_equal; [|f_equal]].
    + replace (n / 65536) with (code a) by (unfold n; lia). apply ch_code.
    + replace ((n / 256) mod 256) with (code b) by (unfold n; lia). apply ch_code.
    + replace (n mod 256) with (code c) by (unfold n; lia). apply ch_code.
Qed.

Transparent N.div N.modulo N.mul N.add.

(* with length = 2 (mod 3) the encoding ends in exactly one "=" *)
Lemma b64enc_one_pad_ex d : (List.length d mod 3 = 2)%nat -> exists t, b64enc d = t ++ [EQC].
Proof.
  induction d using list_ind3; intros H; try (cbn in H; discriminate).
  - eexists [_; _; _]. reflexivity.
  - assert (Hr : (List.length d mod 3 = 2)%nat).
    { cbn [List.length] in H. replace (S (S (S (List.length d)))) with (List.length d + 1 * 3)%nat in H by lia.
      now rewrite Nat.mod_add in H by lia. }
    destruct (IHd Hr) as [t Ht]. cbn [b64enc]. rewrite Ht.
    eexists (_ :: _ :: _ :: _ :: t). reflexivity.
Qed.

Lemma b64enc_one_pad d : (List.length d mod 3 = 2)%nat -> b64enc d = removelast (b64enc d) ++ [EQC].
Proof.
  intros H. destruct (b64enc_one_pad_ex d H) as [t Ht]. rewrite Ht. now rewrite removelast_last.
Qed.

Lemma len20_mod3 (d : bytes) : List.length d = 20%nat -> (List.length d mod 3 = 2)%nat.
Proof. intros ->. reflexivity. Qed.

(* ---- the two functions of router.py on a 20-byte digest ---- *)
Lemma hexIdFromHash_identity d : List.length d = 20%nat -> hexIdFromHash (identity_text d) = Some (fingerprint d).
Proof.
  intros H. unfold hexIdFromHash, identity_text.
  rewrite <- b64enc_one_pad by now apply len20_mod3.
  rewrite b64decode_enc. cbn [option_map]. now rewrite upper_b2a_hex.
Qed.

Lemma hashFromHexId_fingerprint d : hashFromHexId (fingerprint d) = Some (identity_text d).
Proof.
  unfold hashFromHexId, fingerprint.
  replace (Ascii.eqb (ch 36) DOLLAR) with true by reflexivity.
  rewrite a2b_hex_hexenc. cbn [option_map]. now rewrite b64encode_spec.
Qed.

Lemma fingerprint_inj d1 d2 : fingerprint d1 = fingerprint d2 -> d1 = d2.
Proof. unfold fingerprint. intros H. injection H as H. now apply hexenc_inj. Qed.

Lemma identity_text_inj d1 d2 :
  List.length d1 = 20%nat -> List.length d2 = 20%nat -> identity_text d1 = identity_text d2 -> d1 = d2.
Proof.
  intros H1 H2 H. apply fingerprint_inj.
  pose proof (hexIdFromHash_identity d1 H1) as E1. rewrite H in E1.
  rewrite (hexIdFromHash_identity d2 H2) in E1. congruence.
Qed.

Lemma fingerprint_length d : List.length (fingerprint d) = S (2 * List.length d).
Proof. unfold fingerprint. cbn [List.length]. now rewrite hexenc_length. Qed.

(* hashFromHexId also takes the fingerprint without its "$" *)
Lemma hexchar_not_dollar i : i < 16 -> Ascii.eqb (hexchar i) DOLLAR = false.
Proof.
  intros Hi. assert (H : negb (Ascii.eqb (hexchar i) DOLLAR) = true).
  { revert i Hi. apply (below_forall 16). vm_compute. reflexivity. }
  now apply negb_true_iff in H.
Qed.

Lemma hashFromHexId_nodollar d : d <> [] -> hashFromHexId (hexenc d) = Some (identity_text d).
Proof.
  intros Hne. destruct d as [|a d]; [congruence|].
  change (hexenc (a :: d)) with (hexchar (code a / 16) :: hexchar (code a mod 16) :: hexenc d).
  unfold hashFromHexId. cbv beta iota.
  pose proof (code_lt a). rewrite hexchar_not_dollar by lia.
  change (hexchar (code a / 16) :: hexchar (code a mod 16) :: hexenc d) with (hexenc (a :: d)).
  rewrite a2b_hex_hexenc. cbn [option_map]. now rewrite b64encode_spec.
Qed.
