(* The model satisfies the Spec oracle: a simulation between the model state (Model/Config.v) and
   the reference state (Spec/CfgOracle.v), carried through every operation of a history that stays
   outside the finding classes of Spec/C10.v.

   Part 1 (this file): name resolution, the relation, reads / needs_save / assignments /
   in-place operations.  Part 2: save().  *)
From Coq Require Import String.
From Coq Require Import List Bool Ascii Arith NArith ZArith Lia.
From TxVerif Require Import Lib.Bytes Lib.CfgLib Spec.CfgTypes Spec.TorStore Spec.CfgOracle Spec.C10
  Model.ConfigKinds Gen.ConfigTypes Model.Config
  Proofs.CfgLibProofs Proofs.CfgWire Proofs.C10Proofs Proofs.CfgAgree.
Import ListNotations.
Open Scope N_scope.

(* ------------------------------------------------------------------ case-insensitive lookups *)
Lemma ci_eqb_refl a : ci_eqb a a = true.
Proof. unfold ci_eqb. apply beqb_refl. Qed.

Lemma ci_eqb_sym a b : ci_eqb a b = ci_eqb b a.
Proof. unfold ci_eqb. apply beqb_sym. Qed.

Lemma ci_eqb_trans a b c : ci_eqb a b = true -> ci_eqb b c = true -> ci_eqb a c = true.
Proof. unfold ci_eqb. intros H1 H2. apply beqb_eq in H1, H2. apply beqb_eq. congruence. Qed.

Lemma dfind_ci_In {A} name (d : list (bytes * A)) cn v :
  dfind_ci name d = Some (cn, v) -> In (cn, v) d /\ ci_eqb cn name = true.
Proof.
  induction d as [|[k0 v0] d IH]; cbn; [discriminate|].
  destruct (ci_eqb k0 name) eqn:E.
  - intros H. inversion H. subst. auto.
  - intros H. destruct (IH H). auto.
Qed.

Lemma mem_ci_In k l : mem_ci k l = true <-> exists x, In x l /\ ci_eqb x k = true.
Proof.
  induction l as [|y l IH]; cbn.
  - split; [discriminate|intros [x [[] _]]].
  - rewrite orb_true_iff, IH. split.
    + intros [H|[x [H1 H2]]]; [exists y; auto|exists x; auto].
    + intros [x [[H|H] H2]]; [subst; auto|right; eauto].
Qed.

Lemma dfind_ci_self {A} (d : list (bytes * A)) cn v :
  nodup_ci (map fst d) = true -> In (cn, v) d -> dfind_ci cn d = Some (cn, v).
Proof.
  induction d as [|[k0 v0] d IH]; cbn; [tauto|].
  intros Hnd Hin. apply andb_true_iff in Hnd as [Hn Hnd]. apply negb_true_iff in Hn.
  destruct Hin as [H|H].
  - inversion H. subst. now rewrite ci_eqb_refl.
  - destruct (ci_eqb k0 cn) eqn:E.
    + exfalso. assert (mem_ci k0 (map fst d) = true) as X; [|congruence].
      apply mem_ci_In. exists cn. split; [apply (in_map fst) in H; exact H|rewrite ci_eqb_sym; exact E].
    + now apply IH.
Qed.

Lemma dfind_ci_find {A} name (d : list (bytes * A)) cn v rest :
  dfind_ci name d = Some (cn, v) ->
  find (fun x => ci_eqb x name) (map fst d ++ rest) = Some cn.
Proof.
  induction d as [|[k0 v0] d IH]; cbn [dfind_ci find map fst app]; [discriminate|].
  destruct (ci_eqb k0 name) eqn:E; [intros H; inversion H; subst; reflexivity|apply IH].
Qed.

(* names that are equal up to case resolve alike *)
Lemma dfind_ci_ci {A} (d : list (bytes * A)) a b : ci_eqb a b = true -> dfind_ci a d = dfind_ci b d.
Proof.
  intros H. induction d as [|[k0 v0] d IH]; cbn; [reflexivity|].
  assert (ci_eqb k0 a = ci_eqb k0 b) as ->.
  { destruct (ci_eqb k0 a) eqn:E1, (ci_eqb k0 b) eqn:E2; try reflexivity.
    - rewrite (ci_eqb_trans _ _ _ E1 H) in E2. discriminate.
    - rewrite ci_eqb_sym in H. rewrite (ci_eqb_trans _ _ _ E2 H) in E1. discriminate. }
  now rewrite IH.
Qed.

(* ------------------------------------------------------------------ the relation *)
Section Sim.
  Variable opts : list (bytes * kind).
  Variable defaults : option (list (bytes * bytes)).
  Hypothesis opts_nodup : nodup_ci (map fst opts) = true.
  Hypothesis opts_not_hs : forall cn k, In (cn, k) opts -> ci_eqb cn hiddenservices_lc = false.

  Definition dval_of (l : list bytes) : option dval :=
    match l with [] => None | [v] => Some (DStr v) | _ => Some (DList l) end.

  (* what a read of config[cn] returns, without the state threading of m_getattr *)
  Definition view_of (st : mst) (cn : bytes) : option rval :=
    match dget cn (m_config st) with
    | None => None
    | Some (CAtom (AStr s)) =>
        if beqb s DEFAULT_VALUE then
          match dget cn (m_defaults st) with
          | Some d => Some (rval_of_gotten (GDefault d))
          | None => Some (RAtom (AStr s))
          end
        else Some (RAtom (AStr s))
    | Some v => Some (rval_of_gotten (GConfig v))
    end.

  (* a list element as Tor stores and reports it: a non-empty stripped string (no comma in a comma list) *)
  Definition fine (k : kind) (a : atom) : bool :=
    match a with
    | AStr s => negb (is_nil s) && beqb (strip s) s && (match k with KComma => no_comma s | _ => true end)
    | _ => false
    end.

  (* an element of a PENDING list: as above, or one that Tor will not hold as written -- an integer
     (sent as its decimal text) or an empty string *)
  Definition pfine (k : kind) (a : atom) : bool :=
    match a with
    | AStr [] => true
    | AInt _ => true
    | _ => fine k a
    end.

  (* an option with nothing pending shows Tor's value, parsed by its type *)
  (* [vals] = the values Tor holds for the option *)
  Definition synced_at (st : mst) (vals : list bytes) (cn : bytes) (k : kind) : Prop :=
    view_of st cn = typed_value k vals (default_lines defaults cn) /\
    (is_list_kind k = true ->
       exists els, dget cn (m_config st) = Some (CList true (map AStr els)) /\ forallb (fine k) (map AStr els) = true).

  Definition synced (st : mst) (store_ : store) (cn : bytes) (k : kind) : Prop :=
    synced_at st (store_get store_ cn) cn k.

  Definition pend_rel (st : mst) (det : list bytes) (cn : bytes) (k : kind) (iv : ival) : Prop :=
    match iv with
    | IList l =>
        is_list_kind k = true /\ forallb (pfine k) l = true /\
        ((dget cn (m_unsaved st) = Some UAlias /\ dget cn (m_config st) = Some (CList true l) /\ mem_bytes cn det = false)
         \/ (dget cn (m_unsaved st) = Some (UVal (CList true l)) /\ mem_bytes cn det = true))
    | IScalar s =>
        exists a, dget cn (m_unsaved st) = Some (UVal (CAtom a)) /\ atom_text a = s /\
                  ((is_list_kind k = false /\ validated k a /\ (k = KStr -> text_ok s = true))
                   \/ (k = KComma /\ a = AStr s /\ comma_text_ok s = true /\ mem_bytes cn det = true))
    end.

  Record Rel (st : mst) (m : mon) : Prop := {
    r_pkeys : map fst (m_parsers st) = map fst opts;
    r_ptys : forall cn k, In (cn, k) opts -> dget cn (m_parsers st) = Some (ty_of k);
    r_cfg : forall cn k, In (cn, k) opts -> dmem cn (m_config st) = true;
    r_dfl : forall cn k, In (cn, k) opts -> dget cn (m_defaults st) = dval_of (default_lines defaults cn);
    r_sync : forall cn k, In (cn, k) opts -> dget cn (s_pend (m_st m)) = None ->
                          dget cn (m_unsaved st) = None /\ synced st (s_store (m_st m)) cn k;
    r_pend : forall cn iv, dget cn (s_pend (m_st m)) = Some iv ->
                           exists k, In (cn, k) opts /\ pend_rel st (m_det m) cn k iv;
    r_ukeys : map fst (m_unsaved st) = map fst (s_pend (m_st m));
    r_nodup : NoDup (map fst (m_unsaved st));
    r_clean : m_f1 m = false /\ m_f3 m = false;
    (* list_parsers: the options whose view is a tracked list *)
    r_listp : forall cn k, In (cn, k) opts -> mem_bytes cn (m_listp st) = is_list_kind k
  }.

  (* the relation does not look at the flags m_fs / m_f4 *)
  Lemma Rel_flags_irrel st a d f1 f3 x y x' y' :
    Rel st {| m_st := a; m_det := d; m_f1 := f1; m_f3 := f3; m_fs := x; m_f4 := y |} ->
    Rel st {| m_st := a; m_det := d; m_f1 := f1; m_f3 := f3; m_fs := x'; m_f4 := y' |}.
  Proof. intros [R1 R2 R3 R4 R5 R6 R7 R9 R8 R10]. constructor; assumption. Qed.

  (* ---- name resolution under the relation ---- *)
  Lemma find_real_name_opt st m name cn k :
    Rel st m -> dfind_ci name opts = Some (cn, k) -> find_real_name st name = cn.
  Proof.
    intros R H. unfold find_real_name. rewrite (r_pkeys _ _ R).
    now rewrite (dfind_ci_find _ _ _ _ _ H).
  Qed.

  Lemma find_real_name_canon st m cn k : Rel st m -> In (cn, k) opts -> find_real_name st cn = cn.
  Proof. intros R H. apply (find_real_name_opt st m cn cn k R). apply dfind_ci_self; assumption. Qed.

  (* a read of an option: no state change, the value is view_of *)
  Lemma getattr_opt st m name cn k :
    Rel st m -> dfind_ci name opts = Some (cn, k) ->
    exists g, m_getattr st name = Ok (st, cn, g) /\ view_of st cn = Some (rval_of_gotten g) /\
              (forall v, g = GConfig v -> dget cn (m_config st) = Some v) /\
              (forall d, g = GDefault d -> dget cn (m_config st) = Some (CAtom (AStr DEFAULT_VALUE))).
  Proof.
    intros R H. destruct (dfind_ci_In _ _ _ _ H) as [Hin _].
    unfold m_getattr. rewrite (find_real_name_opt _ _ _ _ _ R H).
    pose proof (r_cfg _ _ R _ _ Hin) as Hc. rewrite Hc. rewrite andb_false_r.
    unfold view_of. unfold dmem in Hc.
    destruct (dget cn (m_config st)) as [v|] eqn:EV; [|discriminate].
    destruct v as [[s|z|b|t]|w l]; try (eexists; split; [reflexivity|]; split; [reflexivity|]; split; [intros v Hv; now inversion Hv|intros d Hd; discriminate]).
    destruct (beqb s DEFAULT_VALUE) eqn:Es.
    - apply beqb_eq in Es. subst s.
      destruct (dget cn (m_defaults st)) as [d|]; eexists; (split; [reflexivity|]); (split; [reflexivity|]);
        (split; [intros v Hv; try discriminate; now inversion Hv|intros d0 Hd; try discriminate; reflexivity]).
    - eexists; split; [reflexivity|]; split; [reflexivity|]; split; [intros v Hv; now inversion Hv|intros d Hd; discriminate].
  Qed.

  Lemma read_opt st m name cn k :
    Rel st m -> dfind_ci name opts = Some (cn, k) ->
    exists v, m_read st name = Some (st, RGot v) /\ view_of st cn = Some v.
  Proof.
    intros R H. destruct (getattr_opt _ _ _ _ _ R H) as [g [Hg [Hv _]]].
    exists (rval_of_gotten g). unfold m_read. rewrite Hg. auto.
  Qed.

  (* ---- reads are judged correct ---- *)
  Lemma read_ok_sim st m name cn k v :
    Rel st m -> dfind_ci name opts = Some (cn, k) -> view_of st cn = Some v ->
    read_ok opts defaults (m_st m) name (RGot v) = true.
  Proof.
    intros R H Hv. unfold read_ok. rewrite H.
    destruct (dmem cn (s_pend (m_st m))) eqn:Ep; [reflexivity|].
    destruct (dfind_ci_In _ _ _ _ H) as [Hin _].
    assert (dget cn (s_pend (m_st m)) = None) as Hn by (unfold dmem in Ep; destruct (dget cn (s_pend (m_st m))); [discriminate|reflexivity]).
    destruct (r_sync _ _ R _ _ Hin Hn) as [_ [Hs _]].
    unfold typed_read. rewrite H. rewrite <- Hs, Hv.
    destruct v as [a|t l]; cbn.
    - destruct a; cbn; try apply beqb_refl; try apply Z.eqb_refl; try (destruct b; reflexivity).
    - rewrite eqb_reflx.
      assert (forall l0, list_eqb beqb l0 l0 = true) as X by (induction l0; cbn; [reflexivity|now rewrite beqb_refl]).
      apply X.
  Qed.

  Lemma snapshot_sim st m : forall os_,
    Rel st m -> (forall cn k, In (cn, k) os_ -> In (cn, k) opts) ->
    exists snap, m_snapshot st (map fst os_) = Some (st, snap) /\ snap_ok opts defaults (m_st m) os_ snap = true.
  Proof.
    induction os_ as [|[cn k] os_ IH]; intros R Hsub.
    - exists []. split; reflexivity.
    - assert (In (cn, k) opts) as Hin by (apply Hsub; now left).
      pose proof (dfind_ci_self _ _ _ opts_nodup Hin) as Hf.
      destruct (read_opt _ _ _ _ _ R Hf) as [v [Hr Hv]].
      destruct (IH R (fun c k0 H => Hsub c k0 (or_intror H))) as [snap [Hs Hok]].
      exists (RGot v :: snap). cbn [map m_snapshot fst]. rewrite Hr, Hs. split; [reflexivity|].
      cbn [snap_ok]. rewrite (read_ok_sim _ _ _ _ _ _ R Hf Hv), Hok. reflexivity.
  Qed.

  (* ================================================================== one operation at a time *)
  Variable names : list bytes.
  Hypothesis names_eq : names = map fst opts.

  Definition step_ok (st : mst) (m : mon) (o : op) (st' : mst) (ob : obs) : Prop :=
    spec_check opts defaults (m_st m) o ob = true /\ Rel st' (mon_step opts defaults m o).

  Lemma sim_read st m name st' ob :
    Rel st m -> op_ok opts (OpRead name) = true ->
    m_step names st (OpRead name) = Some (st', ob) -> step_ok st m (OpRead name) st' ob.
  Proof.
    intros R Hok H. cbn [op_ok op_ok_gen] in Hok. destruct (dfind_ci name opts) as [[cn k]|] eqn:Hf; [|discriminate].
    destruct (read_opt _ _ _ _ _ R Hf) as [v [Hr Hv]].
    cbn [m_step m_step_gen] in H. rewrite Hr in H. inversion H. subst. split.
    - cbn [spec_check spec_check_gen o_wrote o_res is_nil andb]. eapply read_ok_sim; eassumption.
    - cbn [mon_step mon_step_gen]. exact R.
  Qed.

  Lemma sim_needs_save st m st' ob :
    Rel st m -> m_step names st OpNeedsSave = Some (st', ob) -> step_ok st m OpNeedsSave st' ob.
  Proof.
    intros R H. cbn [m_step m_step_gen] in H. inversion H. subst. split; [|exact R].
    cbn [spec_check spec_check_gen o_wrote o_res is_nil andb].
    pose proof (r_ukeys _ _ R) as Hk.
    destruct (m_unsaved st') as [|x u], (s_pend (m_st m)) as [|y p]; cbn in Hk; try discriminate; reflexivity.
  Qed.

  Lemma fine_pfine k a : fine k a = true -> pfine k a = true.
  Proof. destruct a as [[|c s]|z|b|t]; cbn [pfine]; auto. Qed.

  Lemma forall_fine_pfine k l : forallb (fine k) l = true -> forallb (pfine k) l = true.
  Proof.
    induction l as [|a l IH]; [reflexivity|]. cbn [forallb]. intros H. apply andb_true_iff in H as [H1 H2].
    now rewrite (fine_pfine _ _ H1), IH.
  Qed.

  (* a pending element that is a non-empty string is fine *)
  Lemma pfine_fine k a : pfine k a = true -> odd_elem a = false -> fine k a = true.
  Proof. destruct a as [[|c s]|z|b|t]; cbn [pfine odd_elem]; try discriminate; auto. Qed.

  Lemma elem_ok_fine k a : elem_ok k a = true -> pfine k a = true.
  Proof.
    destruct a as [[|c s]|z|b|t]; cbn [elem_ok pfine fine]; try discriminate; try reflexivity. unfold text_ok. intros H.
    apply andb_true_iff in H as [H Hc]. repeat (apply andb_true_iff in H as [H ?]).
    repeat (apply andb_true_iff; split); assumption.
  Qed.

  Lemma forall_elem_ok_fine k l : forallb (elem_ok k) l = true -> forallb (pfine k) l = true.
  Proof.
    induction l as [|a l IH]; [reflexivity|]. cbn [forallb]. intros H. apply andb_true_iff in H as [H1 H2].
    now rewrite (elem_ok_fine _ _ H1), IH.
  Qed.

  Lemma mem_bytes_cons_other k x t : x <> k -> mem_bytes k (x :: t) = mem_bytes k t.
  Proof. intros H. cbn. now rewrite (beqb_neq_false _ _ H). Qed.

  Lemma mem_bytes_cons_same k t : mem_bytes k (k :: t) = true.
  Proof. cbn. now rewrite beqb_refl. Qed.

  (* pend_rel of another option is not affected by changes confined to cn *)
  Lemma pend_rel_frame st st1 det det1 cn cn' k' iv :
    cn <> cn' ->
    dget cn' (m_unsaved st1) = dget cn' (m_unsaved st) ->
    dget cn' (m_config st1) = dget cn' (m_config st) ->
    mem_bytes cn' det1 = mem_bytes cn' det ->
    pend_rel st det cn' k' iv -> pend_rel st1 det1 cn' k' iv.
  Proof.
    intros Hne Hu Hc Hd H. destruct iv as [s|l]; cbn [pend_rel] in *.
    - destruct H as [a [H1 [H2 H3]]]. exists a. rewrite Hu, Hd. auto.
    - destruct H as [H1 [H2 H3]]. rewrite Hu, Hc, Hd. auto.
  Qed.

  Lemma synced_frame st st1 store_ cn k :
    dget cn (m_config st1) = dget cn (m_config st) -> dget cn (m_defaults st1) = dget cn (m_defaults st) ->
    synced st store_ cn k -> synced st1 store_ cn k.
  Proof. intros Hc Hd [H1 H2]. unfold synced, synced_at, view_of in *. rewrite Hc, Hd. auto. Qed.

  Lemma sim_assign st m name v st' ob :
    Rel st m -> op_ok opts (OpAssign name v) = true ->
    m_step names st (OpAssign name v) = Some (st', ob) -> step_ok st m (OpAssign name v) st' ob.
  Proof.
    intros R Hok H. cbn [op_ok op_ok_gen] in Hok. destruct (dfind_ci name opts) as [[cn k]|] eqn:Hf; [|discriminate].
    destruct (dfind_ci_In _ _ _ _ Hf) as [Hin Hci].
    assert (find_real_name st name = cn) as Hrn by (eapply find_real_name_opt; eassumption).
    assert (find_real_name st cn = cn) as Hrn2 by (eapply find_real_name_canon; eassumption).
    pose proof (validate_agrees_all k v Hok) as Hag.
    cbn [m_step m_step_gen] in H. unfold m_setattr in H.
    rewrite Hrn, (opts_not_hs _ _ Hin), (r_ptys _ _ R _ _ Hin), Hrn2 in H.
    destruct (ty_of k) as [[pk vk] il] eqn:Ety.
    assert (vk = vk_of k) as Hvk by (unfold vk_of; now rewrite Ety). subst vk.
    unfold step_ok. cbn [spec_check spec_check_gen mon_step mon_step_gen]. unfold spec_next, spec_next_gen. rewrite Hf.
    destruct (spec_validate k v) as [iv|] eqn:Esv; cbn [pending_agrees] in Hag.
    - (* accepted *)
      assert (exists v1, validate (vk_of k) v = Ok v1 /\
                match iv with IScalar s => exists a, v1 = PAtom a /\ atom_text a = s | IList l => v1 = PList l end) as [v1 [Hv1 Hrel]].
      { destruct iv as [s|l]; [destruct Hag as [a [Ha Ht]]; exists (PAtom a); eauto|exists (PList l); auto]. }
      rewrite Hv1 in H. cbn [bind] in H. inversion H. subst st' ob. clear H.
      split; [reflexivity|].
      destruct R as [R1 R2 R3 R4 R5 R6 R7 R9 R8 R10].
      constructor; cbn [m_st m_det m_f1 m_f3 s_store s_pend with_unsaved m_parsers m_config m_defaults m_unsaved];
        try assumption.
      + (* sync *)
        intros cn' k' Hin' Hp. destruct (list_eq_dec ascii_dec cn cn') as [E|E].
        * subst cn'. rewrite dget_dset_same in Hp. discriminate.
        * rewrite dget_dset_other in Hp by assumption. destruct (R5 _ _ Hin' Hp) as [Hu Hs].
          rewrite dget_dset_other by assumption. split; [assumption|].
          eapply synced_frame; [| |exact Hs]; reflexivity.
      + (* pend *)
        intros cn' iv' Hp. destruct (list_eq_dec ascii_dec cn cn') as [E|E].
        * subst cn'. rewrite dget_dset_same in Hp. inversion Hp. subst iv'. exists k. split; [assumption|].
          destruct iv as [s|l]; cbn [pend_rel with_unsaved m_unsaved m_config cval_of_pyval].
          -- destruct Hrel as [a [-> Ht]]. exists a. rewrite dget_dset_same. split; [reflexivity|]. split; [assumption|].
             destruct (is_list_kind k) eqn:Elk.
             ++ right. destruct k; try discriminate Elk; cbn [spec_validate] in Esv.
                ** destruct v as [[s0|z|b|t]|l0]; try discriminate Esv. inversion Esv. subst s0.
                   cbn in Hv1. inversion Hv1. subst a. cbn [assign_ok] in Hok.
                   repeat split; try reflexivity; [assumption|apply mem_bytes_cons_same].
                ** destruct v as [[s0|z|b|t]|l0]; discriminate Esv.
                ** destruct v as [[s0|z|b|t]|l0]; discriminate Esv.
             ++ left. split; [reflexivity|]. split.
                ** eapply validate_gives_validated; try eassumption. intros ->. discriminate Elk.
                ** intros ->. cbn [spec_validate] in Esv. destruct v as [[s0|z|b|t]|l0]; try discriminate Esv.
                   inversion Esv. subst s0. exact Hok.
          -- subst v1.
             assert (is_list_kind k = true /\ forallb (elem_ok k) l = true) as [Hlk Hel].
             { eapply spec_validate_list; eassumption. }
             split; [assumption|]. split; [now apply forall_elem_ok_fine|].
             right. rewrite dget_dset_same. split; [reflexivity|apply mem_bytes_cons_same].
        * rewrite dget_dset_other in Hp by assumption. destruct (R6 _ _ Hp) as [k' [Hin' Hpr]].
          exists k'. split; [assumption|]. eapply pend_rel_frame; [exact E| | | |exact Hpr]; cbn [with_unsaved m_unsaved m_config].
          -- now apply dget_dset_other.
          -- reflexivity.
          -- now apply mem_bytes_cons_other.
      + now apply keys_dset_both.
      + now apply NoDup_keys_dset.
    - (* refused *)
      destruct Hag as [e He]. rewrite He in H. cbn [bind] in H. inversion H. subst st' ob. clear H.
      split; [reflexivity|].
      destruct R as [R1 R2 R3 R4 R5 R6 R7 R9 R8 R10]. constructor; cbn [m_st m_det m_f1 m_f3]; assumption.
  Qed.

  (* ---- Python list operations keep a per-element property ---- *)
  Section ListOps.
    Variable P : atom -> bool.

    Lemma forallb_firstn n : forall l, forallb P l = true -> forallb P (firstn n l) = true.
    Proof. induction n; intros [|x l]; cbn; try reflexivity. intros H. apply andb_true_iff in H as [H1 H2]. now rewrite H1, IHn. Qed.
    Lemma forallb_skipn n : forall l, forallb P l = true -> forallb P (skipn n l) = true.
    Proof. induction n; intros [|x l]; cbn; try reflexivity; try tauto. intros H. apply andb_true_iff in H as [H1 H2]. now apply IHn. Qed.
    Lemma forallb_removelast : forall l, forallb P l = true -> forallb P (removelast l) = true.
    Proof.
      induction l as [|x l IH]; [reflexivity|]. intros H. cbn in H. apply andb_true_iff in H as [H1 H2].
      destruct l as [|y l']; [reflexivity|]. change (removelast (x :: y :: l')) with (x :: removelast (y :: l')).
      cbn [forallb]. now rewrite H1, IH.
    Qed.
    Lemma forallb_del_nth n : forall l, forallb P l = true -> forallb P (del_nth n l) = true.
    Proof. induction n; intros [|x l]; cbn; try reflexivity; intros H; apply andb_true_iff in H as [H1 H2]; [assumption|now rewrite H1, IHn]. Qed.
    Lemma forallb_set_nth n a : P a = true -> forall l, forallb P l = true -> forallb P (set_nth n a l) = true.
    Proof. intros Ha. induction n; intros [|x l]; cbn; try reflexivity; intros H; apply andb_true_iff in H as [H1 H2]; [now rewrite Ha|now rewrite H1, IHn]. Qed.
    Lemma forallb_remove_first a : forall l l', forallb P l = true -> remove_first a l = Some l' -> forallb P l' = true.
    Proof.
      induction l as [|x l IH]; intros l' H Hr; cbn in Hr; [discriminate|].
      cbn in H. apply andb_true_iff in H as [H1 H2].
      destruct (atom_eqb x a); [inversion Hr; subst; assumption|].
      destruct (remove_first a l) as [t|] eqn:E; [|discriminate]. inversion Hr. subst. cbn. now rewrite H1, (IH t).
    Qed.

    Definition lop_atoms (o : lop) : list atom :=
      match o with
      | LAppend a | LRemove a | LInsert _ a | LSetItem _ a => [a]
      | LExtend l => l
      | LPop _ => []
      end.

    Lemma py_list_op_forall o l l' :
      forallb P (lop_atoms o) = true -> forallb P l = true -> py_list_op o l = inl l' -> forallb P l' = true.
    Proof.
      intros Ha Hl H. destruct o as [a|m|i a|a|[i|]|i a]; cbn [py_list_op lop_atoms] in *.
      - inversion H. rewrite forallb_app, Hl. exact Ha.
      - inversion H. now rewrite forallb_app, Hl, Ha.
      - inversion H. rewrite forallb_app. cbn [forallb] in *. apply andb_true_iff in Ha as [Ha _].
        now rewrite forallb_firstn, Ha, forallb_skipn.
      - destruct (remove_first a l) as [t|] eqn:E; [|discriminate]. inversion H. subst. eapply forallb_remove_first; eassumption.
      - destruct (norm_index (List.length l) i); [|discriminate]. inversion H. now apply forallb_del_nth.
      - destruct l as [|x l0]; [discriminate|]. injection H as <-. exact (forallb_removelast (x :: l0) Hl).
      - destruct (norm_index (List.length l) i); [|discriminate]. inversion H.
        cbn [forallb] in Ha. apply andb_true_iff in Ha as [Ha _]. now apply forallb_set_nth.
    Qed.
  End ListOps.

  Lemma lop_ok_atoms k o : lop_ok k o = true -> forallb (pfine k) (lop_atoms o) = true.
  Proof.
    destruct o as [a|m|i a|a|[i|]|i a]; cbn [lop_ok lop_atoms forallb]; intros H;
      try reflexivity; try (apply andb_true_iff in H as [_ H]); try (now rewrite (elem_ok_fine _ _ H)).
    now apply forall_elem_ok_fine.
  Qed.

  Lemma wrapped_all o : is_wrapped o = true.
  Proof. destruct o; vm_compute; reflexivity. Qed.

  Lemma opts_kind_unique cn k k' : In (cn, k) opts -> In (cn, k') opts -> k = k'.
  Proof.
    intros H1 H2. pose proof (dfind_ci_self _ _ _ opts_nodup H1) as E1.
    pose proof (dfind_ci_self _ _ _ opts_nodup H2) as E2. congruence.
  Qed.

  Lemma dmem_dset_mono {A} k k' (v : A) d : dmem k' d = true -> dmem k' (dset k v d) = true.
  Proof.
    unfold dmem. destruct (list_eq_dec ascii_dec k k') as [E|E].
    - subst. now rewrite dget_dset_same.
    - now rewrite dget_dset_other.
  Qed.

  Lemma map_atom_text_AStr els : map atom_text (map AStr els) = els.
  Proof. induction els; cbn; congruence. Qed.

  (* the list an in-place operation is applied to, on both sides *)
  Lemma listop_target st m cn k :
    Rel st m -> In (cn, k) opts -> is_list_kind k = true -> mem_bytes cn (m_det m) = false ->
    exists L, dget cn (m_config st) = Some (CList true L) /\ cur_list defaults (m_st m) cn k = L /\
              forallb (pfine k) L = true /\
              ((dget cn (s_pend (m_st m)) = None /\ dget cn (m_unsaved st) = None) \/
               (dget cn (s_pend (m_st m)) = Some (IList L) /\ dget cn (m_unsaved st) = Some UAlias)).
  Proof.
    intros R Hin Hlk Hdet. unfold cur_list.
    destruct (dget cn (s_pend (m_st m))) as [iv|] eqn:Ep.
    - destruct (r_pend _ _ R _ _ Ep) as [k' [Hin' Hpr]].
      assert (k' = k) by (eapply opts_kind_unique; eassumption). subst k'.
      destruct iv as [s|l]; cbn [pend_rel] in Hpr.
      + destruct Hpr as [a [_ [_ [[Hl _]|[_ [_ [_ Hd]]]]]]]; congruence.
      + destruct Hpr as [_ [Hf [[Hu [Hc _]]|[_ Hd]]]]; [|congruence].
        exists l. split; [assumption|]. split; [reflexivity|]. split; [assumption|]. right. auto.
    - destruct (r_sync _ _ R _ _ Hin Ep) as [Hu [Hv Hl]].
      destruct (Hl Hlk) as [els [Hc Hf]].
      exists (map AStr els). split; [assumption|]. split; [|split; [now apply forall_fine_pfine|left; auto]].
      unfold view_list. rewrite <- Hv. unfold view_of. rewrite Hc. cbn [rval_of_gotten].
      now rewrite map_atom_text_AStr.
  Qed.

  Lemma find_real_name_with_config st cn v n :
    dmem cn (m_config st) = true ->
    find_real_name (with_config st (dset cn v (m_config st))) n = find_real_name st n.
  Proof. intros H. unfold find_real_name. cbn [with_config m_parsers m_config]. now rewrite keys_dset_mem. Qed.

  Lemma sim_listop st m name lo st' ob :
    Rel st m -> op_ok opts (OpListOp name lo) = true ->
    m_f3 (mon_step opts defaults m (OpListOp name lo)) = false ->
    m_step names st (OpListOp name lo) = Some (st', ob) -> step_ok st m (OpListOp name lo) st' ob.
  Proof.
    intros R Hok Hf3 H. cbn [op_ok op_ok_gen] in Hok. destruct (dfind_ci name opts) as [[cn k]|] eqn:Hf; [|discriminate].
    apply andb_true_iff in Hok as [Hlk Hlop].
    destruct (dfind_ci_In _ _ _ _ Hf) as [Hin Hci].
    destruct (r_clean _ _ R) as [C1 C3].
    cbn [mon_step mon_step_gen] in Hf3. rewrite Hf in Hf3. cbn [m_f3] in Hf3.
    rewrite C3 in Hf3. cbn [orb] in Hf3.
    destruct (listop_target _ _ _ _ R Hin Hlk Hf3) as [L [Hc [Hcur [HfL Hcase]]]].
    (* the model side *)
    destruct (getattr_opt _ _ _ _ _ R Hf) as [g [Hg [_ [Hgc Hgd]]]].
    assert (g = GConfig (CList true L)) as ->.
    { destruct g as [v|d]; [rewrite (Hgc v eq_refl) in Hc; now inversion Hc|rewrite (Hgd d eq_refl) in Hc; discriminate]. }
    assert (find_real_name st cn = cn) as Hrn2 by (eapply find_real_name_canon; eassumption).
    assert (dmem cn (m_config st) = true) as Hdc by (unfold dmem; now rewrite Hc).
    cbn [m_step m_step_gen] in H. unfold m_listop in H. rewrite Hg in H.
    change on_modify_before_op with false in H. cbv iota in H.
    unfold step_ok. cbn [spec_check spec_check_gen mon_step mon_step_gen]. unfold spec_next, spec_next_gen. rewrite Hf, Hcur.
    destruct R as [R1 R2 R3 R4 R5 R6 R7 R9 R8 R10].
    destruct (py_list_op lo L) as [L'|e] eqn:Eop.
    2:{ (* the operation raises: nothing changes *)
      inversion H. subst st' ob. clear H. split; [reflexivity|].
      constructor; cbn [m_st m_det m_f1 m_f3]; try assumption.
      rewrite C1, C3, Hf3. auto. }
    cbv zeta in H. rewrite wrapped_all in H. cbn [andb] in H.
    unfold mark_unsaved in H. rewrite (find_real_name_with_config st cn _ cn Hdc), Hrn2, beqb_refl in H.
    cbn [negb with_config m_config m_unsaved] in H.
    assert (dmem cn (dset cn (CList true L') (m_config st)) = true) as Hdc' by (unfold dmem; now rewrite dget_dset_same).
    rewrite Hdc' in H.
    destruct Hcase as [[Hp Hu]|[Hp Hu]].
    - (* nothing pending for cn *)
      assert (dmem cn (m_unsaved st) = false) as Hdu by (apply dmem_false_dget; assumption).
      rewrite Hdu in H. cbn [andb negb bind] in H.
      inversion H. subst st' ob. clear H. split; [reflexivity|].
      constructor; cbn [m_st m_det m_f1 m_f3 s_store s_pend with_unsaved with_config m_parsers m_config m_defaults m_unsaved];
        try assumption.
      + intros cn' k' Hin'. apply dmem_dset_mono. eapply R3; eassumption.
      + intros cn' k' Hin' Hp'. destruct (list_eq_dec ascii_dec cn cn') as [E|E].
        * subst cn'. rewrite dget_dset_same in Hp'. discriminate.
        * rewrite dget_dset_other in Hp' by assumption. destruct (R5 _ _ Hin' Hp') as [Hu' Hs'].
          rewrite dget_dset_other by assumption. split; [assumption|].
          eapply synced_frame; [| |exact Hs']; cbn [m_config m_defaults]; [now apply dget_dset_other|reflexivity].
      + intros cn' iv' Hp'. destruct (list_eq_dec ascii_dec cn cn') as [E|E].
        * subst cn'. rewrite dget_dset_same in Hp'. inversion Hp'. subst iv'. exists k. split; [assumption|].
          cbn [pend_rel with_unsaved with_config m_unsaved m_config]. split; [assumption|]. split.
          -- eapply py_list_op_forall; [apply lop_ok_atoms; eassumption|eassumption|eassumption].
          -- left. rewrite !dget_dset_same. auto.
        * rewrite dget_dset_other in Hp' by assumption. destruct (R6 _ _ Hp') as [k' [Hin' Hpr]].
          exists k'. split; [assumption|]. eapply pend_rel_frame; [exact E| | | |exact Hpr];
            cbn [with_unsaved with_config m_unsaved m_config]; [now apply dget_dset_other|now apply dget_dset_other|reflexivity].
      + now apply keys_dset_both.
      + now apply NoDup_keys_dset.
      + rewrite C1, C3, Hf3. auto.
    - (* cn is pending as the very list the read returns *)
      assert (dmem cn (m_unsaved st) = true) as Hdu by (unfold dmem; now rewrite Hu).
      rewrite Hdu in H. cbn [andb negb bind] in H.
      inversion H. subst st' ob. clear H. split; [reflexivity|].
      constructor; cbn [m_st m_det m_f1 m_f3 s_store s_pend with_unsaved with_config m_parsers m_config m_defaults m_unsaved];
        try assumption.
      + intros cn' k' Hin'. apply dmem_dset_mono. eapply R3; eassumption.
      + intros cn' k' Hin' Hp'. destruct (list_eq_dec ascii_dec cn cn') as [E|E].
        * subst cn'. rewrite dget_dset_same in Hp'. discriminate.
        * rewrite dget_dset_other in Hp' by assumption. destruct (R5 _ _ Hin' Hp') as [Hu' Hs'].
          split; [assumption|].
          eapply synced_frame; [| |exact Hs']; cbn [m_config m_defaults]; [now apply dget_dset_other|reflexivity].
      + intros cn' iv' Hp'. destruct (list_eq_dec ascii_dec cn cn') as [E|E].
        * subst cn'. rewrite dget_dset_same in Hp'. inversion Hp'. subst iv'. exists k. split; [assumption|].
          cbn [pend_rel with_unsaved with_config m_unsaved m_config]. split; [assumption|]. split.
          -- eapply py_list_op_forall; [apply lop_ok_atoms; eassumption|eassumption|eassumption].
          -- left. rewrite dget_dset_same. auto.
        * rewrite dget_dset_other in Hp' by assumption. destruct (R6 _ _ Hp') as [k' [Hin' Hpr]].
          exists k'. split; [assumption|]. eapply pend_rel_frame; [exact E| | | |exact Hpr];
            cbn [with_unsaved with_config m_unsaved m_config]; [reflexivity|now apply dget_dset_other|reflexivity].
      + rewrite R7. symmetry. apply keys_dset_mem. unfold dmem. now rewrite Hp.
      + rewrite C1, C3, Hf3. auto.
  Qed.
  (* ---- config.<dst> = config.<src> ---- *)
  Lemma fine_copy kd ks a : copy_ok kd ks = true -> fine ks a = true -> fine kd a = true.
  Proof. destruct kd, ks; try discriminate; intros _ H; try exact H; destruct a; cbn [fine] in *; try discriminate;
         apply andb_true_iff in H as [H _]; rewrite H; reflexivity. Qed.

  Lemma sim_copy st m dst src st' ob :
    Rel st m -> op_ok opts (OpCopy dst src) = true ->
    m_fs (mon_step opts defaults m (OpCopy dst src)) = false ->
    m_step names st (OpCopy dst src) = Some (st', ob) -> step_ok st m (OpCopy dst src) st' ob.
  Proof.
    intros R Hok Hfs H. cbn [op_ok op_ok_gen] in Hok.
    destruct (dfind_ci dst opts) as [[cd kd]|] eqn:Hfd; [|discriminate].
    destruct (dfind_ci src opts) as [[cs ks]|] eqn:Hfsrc; [|discriminate].
    destruct (dfind_ci_In _ _ _ _ Hfd) as [Hind _]. destruct (dfind_ci_In _ _ _ _ Hfsrc) as [Hins _].
    cbn [mon_step mon_step_gen] in Hfs. rewrite Hfd, Hfsrc in Hfs. cbn [m_fs] in Hfs. apply orb_false_iff in Hfs as [_ Hnp].
    assert (dget cs (s_pend (m_st m)) = None) as Hp by (apply dmem_false_dget; exact Hnp).
    assert (is_list_kind ks = true /\ is_list_kind kd = true) as [Hlks Hlkd] by (destruct kd, ks; try discriminate Hok; auto).
    destruct (r_sync _ _ R _ _ Hins Hp) as [Hus [Hview Hl]].
    destruct (Hl Hlks) as [els [Hc Hfine]].
    assert (cur_list defaults (m_st m) cs ks = map AStr els) as Hcur.
    { unfold cur_list. rewrite Hp. unfold view_list. rewrite <- Hview. unfold view_of. rewrite Hc. cbn [rval_of_gotten].
      now rewrite map_atom_text_AStr. }
    (* the model side: the read, then the assignment of what it returned *)
    destruct (getattr_opt _ _ _ _ _ R Hfsrc) as [g [Hg [_ [Hgc Hgd]]]].
    assert (g = GConfig (CList true (map AStr els))) as ->.
    { destruct g as [v|d]; [rewrite (Hgc v eq_refl) in Hc; now inversion Hc|rewrite (Hgd d eq_refl) in Hc; discriminate]. }
    assert (find_real_name st dst = cd) as Hrn by (eapply find_real_name_opt; eassumption).
    assert (find_real_name st cd = cd) as Hrn2 by (eapply find_real_name_canon; eassumption).
    cbn [m_step m_step_gen] in H. rewrite Hg in H. unfold m_setattr in H.
    rewrite Hrn, (opts_not_hs _ _ Hind), (r_ptys _ _ R _ _ Hind), Hrn2 in H.
    assert (exists pk vk il, ty_of kd = (pk, vk, il) /\ validate vk (PList (map AStr els)) = Ok (PList (map AStr els))) as [pk [vk [il [Ety Hval]]]]
      by (destruct kd; try discriminate Hlkd; eexists _, _, _; split; reflexivity).
    rewrite Ety, Hval in H. cbn [bind cval_of_pyval] in H. inversion H. subst st' ob. clear H.
    unfold step_ok. cbn [spec_check spec_check_gen mon_step mon_step_gen o_wrote o_res is_nil andb]. unfold spec_next, spec_next_gen. rewrite Hfd, Hfsrc, Hcur.
    split; [reflexivity|].
    destruct R as [R1 R2 R3 R4 R5 R6 R7 R9 R8 R10].
    constructor; cbn [m_st m_det m_f1 m_f3 m_fs m_f4 s_store s_pend with_unsaved m_parsers m_config m_defaults m_unsaved m_listp];
      try assumption.
    - intros cn' k' Hin' Hp'. destruct (list_eq_dec ascii_dec cd cn') as [E|E].
      + subst cn'. rewrite dget_dset_same in Hp'. discriminate.
      + rewrite dget_dset_other in Hp' by assumption. destruct (R5 _ _ Hin' Hp') as [Hu Hs].
        rewrite dget_dset_other by assumption. split; [assumption|].
        eapply synced_frame; [| |exact Hs]; reflexivity.
    - intros cn' iv' Hp'. destruct (list_eq_dec ascii_dec cd cn') as [E|E].
      + subst cn'. rewrite dget_dset_same in Hp'. inversion Hp'. subst iv'. exists kd. split; [assumption|].
        cbn [pend_rel with_unsaved m_unsaved m_config]. split; [assumption|]. split.
        * apply forallb_forall. intros a Ha. apply fine_pfine. eapply fine_copy; [exact Hok|].
          exact (proj1 (forallb_forall _ _) Hfine a Ha).
        * right. rewrite dget_dset_same. split; [reflexivity|apply mem_bytes_cons_same].
      + rewrite dget_dset_other in Hp' by assumption. destruct (R6 _ _ Hp') as [k' [Hin' Hpr]].
        exists k'. split; [assumption|]. eapply pend_rel_frame; [exact E| | | |exact Hpr]; cbn [with_unsaved m_unsaved m_config].
        * now apply dget_dset_other.
        * reflexivity.
        * now apply mem_bytes_cons_other.
    - now apply keys_dset_both.
    - now apply NoDup_keys_dset.
  Qed.
End Sim.
