(* C05 refinement, part 1: facts about Spec.status_of (what the bytes received so far mean) *)
From Coq Require Import String List Bool Ascii Arith NArith ZArith Lia.
From TxVerif Require Import Lib.Bytes Spec.Rfc1928 Spec.C06 Spec.C05.
Import ListNotations.
Open Scope N_scope.

Lemma nlen_cons {A} (x : A) l : nlen (x :: l) = 1 + nlen l.
Proof. unfold nlen. cbn [length]. lia. Qed.
Lemma nlen_nil {A} : nlen (@nil A) = 0. Proof. reflexivity. Qed.
Lemma nlen_app {A} (x y : list A) : nlen (x ++ y) = nlen x + nlen y.
Proof. unfold nlen. rewrite app_length. lia. Qed.
Lemma nlen_length {A} (l : list A) : N.to_nat (nlen l) = length l.
Proof. unfold nlen. apply Nnat.Nat2N.id. Qed.

(* the request-reply part: status as a function of the bytes after the method reply *)
Definition reply_status (ty : rtype) (rep : bytes) : status :=
  match rep with
  | rv :: rr :: _ :: at_ :: more =>
      let complete := match reply_len (code at_) (byte_at more 0) with
                      | Some n => Some n
                      | None => if (code at_ =? 3) then None else Some 10
                      end in
      let is_complete := match complete with Some n => n <=? nlen rep | None => false end in
      if negb (code rv =? 5) then (if is_complete then SFailed generic_err else SFailing generic_err)
      else if negb (code rr =? 0) then
        let r := RErr (error_class (code rr)) (Some (code rr)) in
        if is_complete then SFailed r else SFailing r
      else if negb ((code at_ =? 1) || (code at_ =? 3) || (code at_ =? 4)) then
        (if is_complete then SFailed generic_err else SFailing generic_err)
      else if negb is_complete then SPending
      else
        let n := match complete with Some n => N.to_nat n | None => O end in
        let body := firstn n rep in
        let rest := skipn n rep in
        match ty with
        | RConnect => SConnected rest
        | _ =>
            if code at_ =? 1 then SResolved (RName true (firstn 4 (skipn 4 body)))
            else if code at_ =? 4 then SResolved (RName true (firstn 16 (skipn 4 body)))
            else SResolved (RName false (firstn (length body - 7) (skipn 5 body)))
        end
  | _ => SPending
  end.

Lemma status_of_selected ty v m rep : (code v =? 5) && (code m =? 0) = true ->
  status_of ty (v :: m :: rep) = reply_status ty rep.
Proof. intros H. unfold status_of, reply_status. rewrite H. reflexivity. Qed.

Lemma status_of_not_selected ty v m rep : (code v =? 5) && (code m =? 0) = false ->
  status_of ty (v :: m :: rep) = SFailed generic_err.
Proof. intros H. unfold status_of. rewrite H. reflexivity. Qed.

Lemma status_of_short ty s : (length s < 2)%nat -> status_of ty s = SPending.
Proof. destruct s as [|a [|b s]]; cbn [length]; intros H; try reflexivity. lia. Qed.

Lemma reply_status_short ty rep : (length rep < 4)%nat -> reply_status ty rep = SPending.
Proof. destruct rep as [|a [|b [|c [|d r]]]]; cbn [length]; intros H; try reflexivity. lia. Qed.
