(* C04: bootstrap phase of the simulation, the step lemma, and the main theorem:
   the Spec oracle accepts every trace of the model. *)
From Coq Require Import List Bool Ascii Arith NArith Lia String.
From TxVerif Require Import Lib.Bytes Lib.Hex Spec.C04 Spec.C04Oracle Gen.AuthConsts Model.Auth
  Proofs.C04Unescape Proofs.C04Parse Proofs.C04Auth Proofs.C04Sim Proofs.C04Sim2 Proofs.C04Sim3
  Proofs.C04Sim4.
Import ListNotations.
Open Scope N_scope.

Section Main.
  Variable hmac : bytes -> bytes -> bytes.
  Variable e : env.
  Hypothesis Hwf : wf e.
  Hypothesis Hinj : cmp_injective hmac e.

  Ltac split_in H :=
    try match type of H with context[beqb ?a ?b] => destruct (beqb a b) eqn:Eb end.

  Lemma sim_boot k o s' evs : (k < 4)%nat ->
    match o with OOk _ | OErr _ => True | _ => False end ->
    Auth.step hmac e {| ph := PhBoot k; lost := false |} o = Some (s', evs) ->
    good e s' (C04Oracle.step hmac e (mon_boot k) o evs).
  Proof.
    intros Hk Ho.
    destruct k as [|[|[|[|k]]]]; try lia; destruct o as [d|c| |]; try tauto;
      cbn [ph lost Auth.step in_flight orb negb];
      try (destruct ((500 <=? c) && (c <=? 599)); cbn [negb]; [|discriminate]);
      try destruct d as [| |ch|k'];
      intros H; cbv -[beqb] in H; split_in H; try discriminate;
      injection H as <- <-; cbv -[beqb]; rewrite ?Eb; cbv -[beqb]; repeat split; auto; try lia.
  Qed.

  (* one stimulus: whatever the model does is accepted, and the relation is re-established *)
  Lemma sim_step s m o s' evs : R e s m ->
    Auth.step hmac e s o = Some (s', evs) -> good e s' (C04Oracle.step hmac e m o evs).
  Proof.
    intros HR Hs.
    destruct o as [d|c| |].
    - (* 250 *)
      destruct s as [p l]. assert (l = false) as ->.
      { cbn [Auth.step lost] in Hs. destruct l; [discriminate|reflexivity]. }
      unfold R in HR. cbn [ph lost] in HR.
      destruct p as [|ck| | |k|].
      + destruct HR as [-> _].
        destruct (pi_auth (e_pi e)) eqn:Hauth.
        * destruct d as [| |ch|k']; try (eapply sim_proto_other; eauto; left; discriminate).
          pose proof (sim_proto_ok hmac e Hwf Hauth) as H.
          cbn [Auth.step ph lost in_flight orb negb Auth.on_reply] in Hs.
          rewrite (do_authenticate_spec e Hwf Hauth) in Hs.
          destruct (authenticate_spec e) as [p evs']. injection Hs as <- <-. exact H.
        * eapply sim_proto_other; eauto.
      + destruct HR as (-> & Hexp & Hgc & _).
        destruct d as [| |ch|k']; try (eapply sim_chal_other; eauto; intros ? ?; discriminate).
        eapply sim_chal; eauto.
      + cbn [Auth.step ph lost in_flight orb negb] in Hs. discriminate.
      + destruct HR as [[a ->] _]. eapply sim_auth_ok; eauto.
      + destruct HR as (Hk & -> & _). eapply sim_boot; eauto; exact I.
      + cbn [Auth.step ph lost in_flight orb negb] in Hs. discriminate.
    - (* 5xx *)
      destruct (ph s) as [|ck| | |k|] eqn:Ep; try (eapply sim_err_pre; eauto; rewrite Ep; exact I).
      destruct s as [p l]. cbn [ph] in Ep. subst p.
      assert (l = false) as ->.
      { cbn [Auth.step lost] in Hs. destruct l; [discriminate|reflexivity]. }
      unfold R in HR. cbn [ph lost] in HR. destruct HR as (Hk & -> & _).
      eapply sim_boot; eauto; exact I.
    - eapply sim_lose; eauto.
    - eapply sim_pwfire; eauto.
  Qed.

  Lemma sim_walk : forall ops s m tr, R e s m ->
    run_ops hmac e s ops = Some tr -> walk hmac e m ops tr = true.
  Proof.
    induction ops as [|o ops IH]; intros s m tr HR; cbn [run_ops walk].
    - intros [= <-]. reflexivity.
    - destruct (Auth.step hmac e s o) as [[s' evs]|] eqn:Es; [|discriminate].
      destruct (run_ops hmac e s' ops) as [tr'|] eqn:Er; [|discriminate].
      cbn [omap]. intros [= <-].
      pose proof (sim_step s m o s' evs HR Es) as H.
      destruct (C04Oracle.step hmac e m o evs) as [| |m']; cbn [good] in H; [tauto|reflexivity|].
      eapply IH; eauto.
  Qed.

  Theorem oracle_holds ops tr : run hmac e ops = Some tr -> oracle hmac e ops tr = true.
  Proof.
    unfold run.
    destruct (run_ops hmac e {| ph := PhProto; lost := false |} ops) as [tr'|] eqn:Er; [|discriminate].
    cbn [omap]. intros [= <-].
    unfold oracle. cbv iota beta.
    match goal with |- context[run_op ?a ?b ?c ?d ?f] =>
      replace (run_op a b c d f) with (Go mon_proto) by (vm_compute; reflexivity) end.
    eapply sim_walk; eauto. split; reflexivity.
  Qed.
End Main.
