(* text lemmas: the accumulated response equals the item text; removing a trailing "\nOK" *)
From Coq Require Import List Bool Ascii Arith NArith ZArith Lia.
From TxVerif Require Import Lib.Bytes Spec.Ctl Model.CtlProto.
Import ListNotations.
Open Scope N_scope.

Lemma join_snoc (ls : list bytes) (f : bytes) :
  concat (map (fun l => l ++ [LF]) ls) ++ f = join [LF] (ls ++ [f]).
Proof.
  induction ls as [|l ls IH]; cbn [map concat app join].
  - reflexivity.
  - rewrite <- app_assoc. rewrite IH. destruct (ls ++ [f]) eqn:E.
    + destruct ls; discriminate.
    + now rewrite <- app_assoc.
Qed.

Lemma ends_intro x : ends_with_nl_OK (x ++ LF :: OKs) = true.
Proof.
  induction x as [|a x IH]; cbn [app ends_with_nl_OK].
  - rewrite beqb_refl. reflexivity.
  - rewrite IH. apply orb_true_r.
Qed.

Lemma ends_elim t : ends_with_nl_OK t = true -> exists x, t = x ++ LF :: OKs.
Proof.
  induction t as [|a t IH]; cbn [ends_with_nl_OK]; [discriminate|].
  intros H. apply orb_true_iff in H as [H|H].
  - apply beqb_eq in H. exists []. exact H.
  - destruct (IH H) as [x ->]. exists (a :: x). reflexivity.
Qed.

Definition no_lf (t : bytes) : bool := forallb (fun c => negb (Ascii.eqb c LF)) t.

Lemma wf_text_no_lf t : wf_text t = true -> no_lf t = true.
Proof.
  unfold wf_text, no_lf. intros H. rewrite forallb_forall in *. intros x Hx.
  specialize (H x Hx). apply andb_true_iff in H as [_ H]. exact H.
Qed.

(* a text that ends in "\nOK" whose last line (after the last LF) is l, without LF: l = "OK" *)
Lemma suffix_last_line (pre l x : bytes) :
  no_lf l = true -> pre ++ LF :: l = x ++ LF :: OKs -> l = OKs /\ pre = x.
Proof.
  intros Hl E.
  assert (R : rev l ++ LF :: rev pre = rev OKs ++ LF :: rev x).
  { apply (f_equal (@rev ascii)) in E. rewrite !rev_app_distr in E. cbn [rev] in E.
    rewrite <- !app_assoc in E. cbn [app] in E. exact E. }
  assert (Hl' : no_lf (rev l) = true).
  { unfold no_lf in *. rewrite forallb_forall in *. intros c Hc. apply Hl. now apply in_rev. }
  cbn [rev OKs app] in R.
  assert (NK : Ascii.eqb (ch 75) LF = false) by (vm_compute; reflexivity).
  assert (NO : Ascii.eqb (ch 79) LF = false) by (vm_compute; reflexivity).
  destruct (rev l) as [|a [|b [|c r]]] eqn:El; cbn [app] in R.
  - exfalso. apply (f_equal (fun l => match l with a :: _ => code a | [] => 0 end)) in R.
    vm_compute in R. discriminate.
  - exfalso. apply (f_equal (fun l => match l with _ :: a :: _ => code a | _ => 0 end)) in R.
    vm_compute in R. discriminate.
  - assert (Ra : a = ch 75) by (now apply (f_equal (fun l => match l with x :: _ => x | [] => LF end)) in R).
    assert (Rb : b = ch 79) by (now apply (f_equal (fun l => match l with _ :: x :: _ => x | _ => LF end)) in R).
    assert (Rr : rev pre = rev x) by (now apply (f_equal (fun l => match l with _ :: _ :: _ :: t => t | _ => [] end)) in R).
    subst a b. split.
    + apply (f_equal (@rev ascii)) in El. rewrite rev_involutive in El. rewrite El. reflexivity.
    + apply (f_equal (@rev ascii)) in Rr. now rewrite !rev_involutive in Rr.
  - exfalso.
    assert (Rc : c = LF) by (now apply (f_equal (fun l => match l with _ :: _ :: x :: _ => x | _ => LF end)) in R).
    subst c. cbn [no_lf forallb] in Hl'. rewrite Ascii.eqb_refl in Hl'.
    cbn [negb] in Hl'. rewrite !andb_false_r in Hl'. discriminate.
Qed.

Lemma no_lf_not_suffix l x : no_lf l = true -> l = x ++ LF :: OKs -> False.
Proof.
  intros H ->. unfold no_lf in H. rewrite forallb_app in H. apply andb_true_iff in H as [_ H].
  cbn [forallb] in H. rewrite Ascii.eqb_refl in H. cbn [negb andb] in H. discriminate.
Qed.

Lemma join_cons2 (sep x y : bytes) (r : list bytes) : join sep (x :: y :: r) = x ++ sep ++ join sep (y :: r).
Proof. reflexivity. Qed.

Lemma join_last (init : list bytes) (l0 l : bytes) :
  join [LF] ((l0 :: init) ++ [l]) = join [LF] (l0 :: init) ++ LF :: l.
Proof.
  revert l0. induction init as [|a init IH]; intros l0.
  - reflexivity.
  - change ((l0 :: a :: init) ++ [l]) with (l0 :: ((a :: init) ++ [l])).
    change ((a :: init) ++ [l]) with (a :: (init ++ [l])).
    rewrite join_cons2. change (a :: (init ++ [l])) with ((a :: init) ++ [l]).
    rewrite IH. rewrite join_cons2. now rewrite <- !app_assoc.
Qed.

Lemma strip_suffix_snoc (l0 : bytes) (init : list bytes) (l : bytes) :
  strip_suffix_OK ((l0 :: init) ++ [l]) = if beqb l OKs then l0 :: init else (l0 :: init) ++ [l].
Proof.
  revert l0. induction init as [|a init IH]; intros l0.
  - reflexivity.
  - change ((l0 :: a :: init) ++ [l]) with (l0 :: ((a :: init) ++ [l])).
    cbn [strip_suffix_OK]. destruct ((a :: init) ++ [l]) as [|y [|z r]] eqn:E.
    + discriminate.
    + destruct init; discriminate.
    + rewrite <- E. rewrite IH. destruct (beqb l OKs); reflexivity.
Qed.

(* what `if resp.endswith('\nOK'): resp = resp[:-3]` does to the joined lines of a reply *)
Lemma strip_nl_OK_join (ls : list bytes) (l : bytes) : no_lf l = true ->
  strip_nl_OK (join [LF] (ls ++ [l])) = join [LF] (strip_suffix_OK (ls ++ [l])).
Proof.
  intros Hl. destruct ls as [|l0 init].
  - cbn [app join strip_suffix_OK]. unfold strip_nl_OK.
    destruct (ends_with_nl_OK l) eqn:E; [|reflexivity].
    apply ends_elim in E as [x E]. exfalso. eapply no_lf_not_suffix; eassumption.
  - rewrite join_last, strip_suffix_snoc. unfold strip_nl_OK.
    destruct (beqb l OKs) eqn:B.
    + apply beqb_eq in B. subst l. rewrite ends_intro.
      rewrite app_length. cbn [length OKs]. replace (length (join [LF] (l0 :: init)) + 3 - 3)%nat with (length (join [LF] (l0 :: init))) by lia.
      now rewrite firstn_app, firstn_all, Nat.sub_diag, app_nil_r.
    + destruct (ends_with_nl_OK (join [LF] (l0 :: init) ++ LF :: l)) eqn:E.
      * apply ends_elim in E as [x E]. apply suffix_last_line in E as [E _]; [|exact Hl].
        subst l. rewrite beqb_refl in B. discriminate.
      * now rewrite join_last.
Qed.
