(* Simulation, part 3: whole histories.  From a model state that is synchronised with Tor's
   store (the relation Rel of CfgSim.v), every history of assignments, in-place operations, saves
   (accepted or rejected), reads and needs_save() that stays outside the finding classes of
   Spec/C10.v is accepted by the Spec oracle. *)
From Coq Require Import String.
From Coq Require Import List Bool Ascii Arith NArith ZArith Lia.
From TxVerif Require Import Lib.Bytes Lib.CfgLib Spec.CfgTypes Spec.TorStore Spec.CfgOracle Spec.C10
  Model.ConfigKinds Gen.ConfigTypes Model.Config
  Proofs.CfgLibProofs Proofs.CfgWire Proofs.C10Proofs Proofs.CfgAgree Proofs.CfgSpecLemmas Proofs.CfgSim Proofs.CfgSimSave.
Import ListNotations.
Open Scope N_scope.

(* ---- the monitor: its state is the reference state; its flags never go back to false ---- *)
Lemma mon_base_st opts defaults m o : m_st (mon_base opts defaults m o) = spec_base opts defaults (m_st m) o.
Proof.
  destruct o; cbn [mon_base mon_step_gen spec_base spec_next spec_next_gen m_st]; try reflexivity.
  - destruct (dfind_ci name opts) as [[cn k]|]; [|reflexivity]. destruct (spec_validate k v); reflexivity.
  - destruct (dfind_ci name opts) as [[cn k]|]; reflexivity.
  - destruct (s_pend (m_st m)) eqn:E; [|reflexivity].
    destruct reject; [reflexivity|]. destruct (m_st m) as [sto pe]. cbn in *. subst pe. reflexivity.
  - destruct (dfind_ci dst opts) as [[cd kd]|]; [|reflexivity]. destruct (dfind_ci src opts) as [[cs ks]|]; reflexivity.
Qed.

Lemma mon_send_st rej mq :
  m_st (fst (mon_send rej mq)) = m_st (fst mq) /\
  snd (mon_send rej mq) = flight_send (m_st (fst mq)) (snd mq).
Proof. unfold mon_send, flight_send. destruct (s_pend (m_st (fst mq))); auto. Qed.

Lemma mon_dop_st opts defaults rej mq d :
  m_st (fst (mon_dop opts defaults rej mq d)) = fst (dop_next opts defaults (m_st (fst mq), snd mq) d) /\
  snd (mon_dop opts defaults rej mq d) = snd (dop_next opts defaults (m_st (fst mq), snd mq) d).
Proof.
  unfold mon_dop, dop_next. destruct (op_of_dop d) as [o|]; cbn [fst snd m_st].
  - split; [apply mon_base_st|reflexivity].
  - apply mon_send_st.
Qed.

Lemma mon_fold_st opts defaults rej : forall ds mq,
  m_st (fst (fold_left (mon_dop opts defaults rej) ds mq)) = fst (fold_left (dop_next opts defaults) ds (m_st (fst mq), snd mq)) /\
  snd (fold_left (mon_dop opts defaults rej) ds mq) = snd (fold_left (dop_next opts defaults) ds (m_st (fst mq), snd mq)).
Proof.
  induction ds as [|d ds IH]; intros mq; [auto|]. cbn [fold_left].
  destruct (mon_dop_st opts defaults rej mq d) as [E1 E2].
  destruct (IH (mon_dop opts defaults rej mq d)) as [I1 I2]. rewrite I1, I2, E1, E2.
  destruct (dop_next opts defaults (m_st (fst mq), snd mq) d); auto.
Qed.

Lemma mon_step_st opts defaults m o : m_st (mon_step opts defaults m o) = spec_next opts defaults (m_st m) o.
Proof.
  destruct o as [? ?|? ?|?|?| |?| |? ?|rj dz];
    try (match goal with |- m_st (mon_step _ _ _ ?o) = _ => exact (mon_base_st opts defaults m o) end).
  cbn [mon_step mon_step_gen spec_next spec_next_gen]. unfold mon_flight, flight_next, flight_run. cbn [m_st].
  destruct (mon_send_st rj (m, [])) as [S1 S2]. cbn [fst snd] in S1, S2.
  destruct (mon_fold_st opts defaults rj dz (mon_send rj (m, []))) as [F1 F2].
  rewrite F1, F2, S1, S2. reflexivity.
Qed.



(* the open finding classes and the envelope flag *)
Definition flagged (m : mon) : bool := m_f1 m || m_f3 m || m_f4 m || m_fs m.

(* flags only ever go up *)
Definition fle (m m' : mon) : Prop :=
  (m_f1 m = true -> m_f1 m' = true) /\ (m_f3 m = true -> m_f3 m' = true) /\ (m_f4 m = true -> m_f4 m' = true) /\
  (m_fs m = true -> m_fs m' = true).

Ltac fle_tac := unfold fle; cbn [m_f1 m_f3 m_f4 m_fs fst snd]; repeat split; intros X; try rewrite X; try reflexivity; auto.

Lemma fle_refl m : fle m m.
Proof. fle_tac. Qed.
Lemma fle_trans a b c : fle a b -> fle b c -> fle a c.
Proof. intros [A1 [A2 [A3 A5]]] [B1 [B2 [B3 B5]]]. unfold fle. repeat split; auto. Qed.

Lemma fle_flagged m m' : fle m m' -> flagged m = true -> flagged m' = true.
Proof.
  intros [A1 [A2 [A3 A5]]]. unfold flagged. intros H.
  repeat (apply orb_true_iff in H as [H|H]);
    [rewrite (A1 H)|rewrite (A2 H)|rewrite (A3 H)|rewrite (A5 H)]; now rewrite ?orb_true_r.
Qed.

Lemma fle_flagged_false m m' : fle m m' -> flagged m' = false -> flagged m = false.
Proof. intros L H. destruct (flagged m) eqn:E; [|reflexivity]. rewrite (fle_flagged _ _ L E) in H. discriminate. Qed.

Lemma mon_base_fle opts defaults m o : fle m (mon_base opts defaults m o).
Proof.
  destruct o; cbn [mon_base mon_step_gen]; try apply fle_refl.
  - destruct (dfind_ci name opts) as [[cn k]|]; [|apply fle_refl]. destruct (spec_validate k v); fle_tac.
  - destruct (dfind_ci name opts) as [[cn k]|]; [|apply fle_refl]. fle_tac.
  - destruct (s_pend (m_st m)); [apply fle_refl|]. fle_tac.
  - fle_tac.
  - destruct (dfind_ci dst opts) as [[cd kd]|]; [|apply fle_refl]. destruct (dfind_ci src opts) as [[cs ks]|]; [|apply fle_refl].
    fle_tac.
Qed.

Lemma mon_send_fle rej mq : fle (fst mq) (fst (mon_send rej mq)).
Proof. unfold mon_send. destruct (s_pend (m_st (fst mq))); [apply fle_refl|]. fle_tac. Qed.

Lemma mon_dop_fle opts defaults rej mq d : fle (fst mq) (fst (mon_dop opts defaults rej mq d)).
Proof.
  unfold mon_dop. destruct (op_of_dop d) as [o|]; [|apply mon_send_fle].
  eapply fle_trans; [apply (mon_base_fle opts defaults (fst mq) o)|]. fle_tac.
Qed.

Lemma mon_fold_fle opts defaults rej : forall ds mq, fle (fst mq) (fst (fold_left (mon_dop opts defaults rej) ds mq)).
Proof.
  induction ds as [|d ds IH]; intros mq; [apply fle_refl|]. cbn [fold_left].
  eapply fle_trans; [apply mon_dop_fle|apply IH].
Qed.

Lemma mon_step_fle opts defaults m o : fle m (mon_step opts defaults m o).
Proof.
  destruct o as [? ?|? ?|?|?| |?| |? ?|rj dz];
    try (match goal with |- fle _ (mon_step _ _ _ ?o) => exact (mon_base_fle opts defaults m o) end).
  cbn [mon_step mon_step_gen]. unfold mon_flight.
  eapply fle_trans; [apply (mon_send_fle rj (m, []))|].
  eapply fle_trans; [apply (mon_fold_fle opts defaults rj dz)|]. fle_tac.
Qed.

Lemma mon_step_flag_mono opts defaults m o : flagged m = true -> flagged (mon_step opts defaults m o) = true.
Proof. apply fle_flagged, mon_step_fle. Qed.

Lemma mon_run_flag_mono opts defaults ops : forall m, flagged m = true -> flagged (mon_run opts defaults m ops) = true.
Proof.
  induction ops as [|o ops IH]; intros m H; [assumption|]. unfold mon_run. cbn [fold_left].
  apply IH. now apply mon_step_flag_mono.
Qed.

Lemma not_flagged m : flagged m = false ->
  m_f1 m = false /\ m_f3 m = false /\ m_fs m = false /\ m_f4 m = false.
Proof.
  unfold flagged. intros H. apply orb_false_iff in H as [H Hs].
  apply orb_false_iff in H as [H H4]. apply orb_false_iff in H as [H1 H3]. auto.
Qed.

(* an operation that is not an OpSaveDuring: the general functions are the basic ones on it *)
Definition plain (o : op) : bool := match o with OpSaveDuring _ _ => false | _ => true end.

Lemma op_of_dop_plain d o : op_of_dop d = Some o -> plain o = true.
Proof. destruct d; cbn; intros H; inversion H; reflexivity. Qed.

Lemma plain_eqs opts defaults names o : plain o = true ->
  (forall st, m_step_base names st o = m_step names st o) /\
  (forall m, mon_base opts defaults m o = mon_step opts defaults m o) /\
  (forall st ob, check_base opts defaults st o ob = spec_check opts defaults st o ob) /\
  (forall st, spec_base opts defaults st o = spec_next opts defaults st o) /\
  op_ok_base opts o = op_ok opts o.
Proof. destruct o; try discriminate; intros _; repeat split. Qed.

(* ---- small facts for OpSaveDuring ---- *)
Lemma ires_roundtrip x r : ires_of_ores x = Some r -> ores_of_ires r = Some x.
Proof. destruct x; cbn; intros H; inversion H; reflexivity. Qed.

Lemma atom_eqb_refl a : atom_eqb a a = true.
Proof. destruct a; cbn; try apply beqb_refl; try apply Z.eqb_refl. destruct b; reflexivity. Qed.

Lemma ival_eqb_refl iv : ival_eqb iv iv = true.
Proof.
  destruct iv as [s|l]; cbn [ival_eqb]; [apply beqb_refl|].
  induction l as [|a l IH]; [reflexivity|]. cbn. now rewrite atom_eqb_refl, IH.
Qed.

(* acknowledging exactly what is pending leaves nothing pending *)
Lemma prune_self pend : NoDup (map fst pend) -> prune pend pend = [].
Proof.
  intros Hnd. unfold prune.
  assert (forall l, (forall p, In p l -> In p pend) ->
            filter (fun p : bytes * ival => negb match dget (fst p) pend with Some iv => ival_eqb iv (snd p) | None => false end) l = []) as H.
  { induction l as [|[cn iv] l IH]; intros Hl; [reflexivity|]. cbn [filter fst snd].
    rewrite (dget_first _ _ _ Hnd (Hl _ (or_introl eq_refl))), ival_eqb_refl. cbn [negb].
    apply IH. intros p Hp. apply Hl. now right. }
  apply H. auto.
Qed.

(* a monitor that differs only in the flags the relation does not look at *)
Definition msame (m m' : mon) : Prop :=
  m_st m' = m_st m /\ m_det m' = m_det m /\ m_f1 m' = m_f1 m /\ m_f3 m' = m_f3 m.

Lemma Rel_msame opts defaults st m m' : Rel opts defaults st m -> msame m m' -> Rel opts defaults st m'.
Proof.
  intros R [E1 [E2 [E3 E4]]]. destruct m as [a d f1 f3 x y], m' as [a' d' f1' f3' x' y']. cbn in *. subst.
  eapply Rel_flags_irrel. exact R.
Qed.

Lemma mon_dop_msame opts defaults rej mq d o :
  op_of_dop d = Some o -> msame (mon_base opts defaults (fst mq) o) (fst (mon_dop opts defaults rej mq d)).
Proof. intros E. unfold mon_dop. rewrite E. cbn [fst]. repeat split. Qed.

(* ---- what an assignment / an in-place operation leaves alone (model only) ---- *)
Lemma setattr_frame st name v st1 : m_setattr st name v = Ok st1 ->
  m_config st1 = m_config st /\ forall k, k <> setattr_key st name -> dget k (m_unsaved st1) = dget k (m_unsaved st).
Proof.
  unfold m_setattr, setattr_key. intros H.
  destruct (ci_eqb (find_real_name st name) hiddenservices_lc); [discriminate|].
  destruct (dget (find_real_name st name) (m_parsers st)) as [[[pk vk] il]|]; [|discriminate].
  destruct (validate vk v) as [v1|e|]; cbn [bind] in H; inversion H. cbn [with_unsaved m_config m_unsaved].
  split; [reflexivity|]. intros k Hk. apply dget_dset_other. congruence.
Qed.

Lemma getattr_frame st name st1 rn g : m_getattr st name = Ok (st1, rn, g) ->
  rn = find_real_name st name /\ m_unsaved st1 = m_unsaved st /\
  forall k, k <> rn -> dget k (m_config st1) = dget k (m_config st).
Proof.
  unfold m_getattr. set (rn0 := find_real_name st name).
  set (stx := if mem_bytes (lower rn0) (m_listp st) && negb (dmem rn0 (m_config st))
              then with_config st (dset rn0 (CList true []) (m_config st)) else st).
  assert (m_unsaved stx = m_unsaved st /\ forall k, k <> rn0 -> dget k (m_config stx) = dget k (m_config st)) as [Hu Hc].
  { unfold stx. destruct (mem_bytes (lower rn0) (m_listp st) && negb (dmem rn0 (m_config st))); [|auto].
    split; [reflexivity|]. intros k Hk. cbn [with_config m_config]. apply dget_dset_other. congruence. }
  destruct (dget rn0 (m_config stx)) as [v|]; [|discriminate].
  destruct v as [[s|z|b|t]|w l]; try (intros H; inversion H; subst; auto; fail).
  destruct (beqb s DEFAULT_VALUE); [destruct (dget rn0 (m_defaults stx))|]; intros H; inversion H; subst; auto.
Qed.

Lemma listop_frame st name o st1 ex : m_listop st name o = Ok (st1, ex) ->
  forall k, k <> find_real_name st name ->
    dget k (m_config st1) = dget k (m_config st) /\ dget k (m_unsaved st1) = dget k (m_unsaved st).
Proof.
  intros H k Hk. unfold m_listop in H.
  destruct (m_getattr st name) as [[[sg rn] g]|e|] eqn:EG; [|inversion H; subst; auto|discriminate].
  destruct (getattr_frame _ _ _ _ _ EG) as [-> [Hu Hc]].
  destruct g as [[a|w l]|[ds|dl]]; try discriminate; try (inversion H; subst; rewrite Hu; split; [now apply Hc|reflexivity]).
  change on_modify_before_op with false in H. cbv iota in H.
  destruct (py_list_op o l) as [l'|e]; [|inversion H; subst; rewrite Hu; split; [now apply Hc|reflexivity]].
  cbv zeta in H.
  match type of H with bind ?r _ = _ => destruct r as [s3|e|] eqn:EM end; cbn [bind] in H; try discriminate.
  inversion H. subst s3 ex.
  assert (dget k (m_config st1) = dget k (m_config st) /\ dget k (m_unsaved st1) = dget k (m_unsaved sg)) as [X Y].
  { destruct (w && is_wrapped o).
    - unfold mark_unsaved in EM.
      destruct (negb (beqb (find_real_name (with_config sg (dset (find_real_name st name) (CList w l') (m_config sg))) (find_real_name st name)) (find_real_name st name))) eqn:En; [discriminate|].
      apply negb_false_iff, beqb_eq in En. rewrite En in EM.
      destruct (dmem (find_real_name st name) (m_config (with_config sg (dset (find_real_name st name) (CList w l') (m_config sg))))
                && negb (dmem (find_real_name st name) (m_unsaved (with_config sg (dset (find_real_name st name) (CList w l') (m_config sg))))));
        inversion EM; cbn [with_unsaved with_config m_config m_unsaved].
      + split; [rewrite dget_dset_other by congruence; now apply Hc|apply dget_dset_other; congruence].
      + split; [rewrite dget_dset_other by congruence; now apply Hc|reflexivity].
    - inversion EM. cbn [with_config m_config m_unsaved]. split; [rewrite dget_dset_other by congruence; now apply Hc|reflexivity]. }
  rewrite Hu in Y. auto.
Qed.

(* ---- association lists: filtering ---- *)
Lemma atom_eqb_eq a b : atom_eqb a b = true -> a = b.
Proof.
  destruct a, b; cbn; try discriminate; intros H.
  - apply beqb_eq in H. now subst.
  - apply Z.eqb_eq in H. now subst.
  - apply Bool.eqb_prop in H. now subst.
  - apply beqb_eq in H. now subst.
Qed.

Lemma atom_list_eq : forall l l', list_eqb atom_eqb l l' = true -> l = l'.
Proof.
  induction l as [|a l IH]; destruct l' as [|b l']; cbn; try discriminate; [reflexivity|].
  intros H. apply andb_true_iff in H as [H1 H2]. now rewrite (atom_eqb_eq _ _ H1), (IH _ H2).
Qed.

Lemma ival_eqb_eq a b : ival_eqb a b = true -> a = b.
Proof.
  destruct a, b; cbn; try discriminate; intros H; [apply beqb_eq in H|apply atom_list_eq in H]; now subst.
Qed.

Lemma dget_filter {A} (f : bytes * A -> bool) k : forall (l : list (bytes * A)), NoDup (map fst l) ->
  dget k (filter f l) = match dget k l with Some v => if f (k, v) then Some v else None | None => None end.
Proof.
  induction l as [|[k0 v0] l IH]; [reflexivity|]. cbn [map fst filter]. intros Hnd. inversion Hnd as [|? ? Hn Hnd']. subst.
  cbn [dget]. destruct (beqb k0 k) eqn:E.
  - apply beqb_eq in E. subst k0. destruct (f (k, v0)) eqn:Ef; cbn [dget]; [now rewrite beqb_refl|].
    rewrite (IH Hnd'). assert (dget k l = None) as -> by (apply dget_not_in; exact Hn). reflexivity.
  - destruct (f (k0, v0)); cbn [dget]; [rewrite E|]; now apply IH.
Qed.

Lemma filter_keys_agree {A B} (f : bytes * A -> bool) (g : bytes * B -> bool) :
  forall (l1 : list (bytes * A)) (l2 : list (bytes * B)),
    map fst l1 = map fst l2 ->
    (forall k u v, In (k, u) l1 -> In (k, v) l2 -> f (k, u) = g (k, v)) ->
    NoDup (map fst l1) ->
    map fst (filter f l1) = map fst (filter g l2).
Proof.
  induction l1 as [|[k u] l1 IH]; destruct l2 as [|[k' v] l2]; cbn [map fst]; intros Hk Hag Hnd; try discriminate; [reflexivity|].
  injection Hk as Ek Hk. subst k'. inversion Hnd as [|? ? Hn Hnd']. subst.
  cbn [filter]. rewrite (Hag k u v (or_introl eq_refl) (or_introl eq_refl)).
  assert (map fst (filter f l1) = map fst (filter g l2)) as IH'.
  { apply IH; [assumption| |assumption]. intros k0 u0 v0 H1 H2. apply Hag; now right. }
  destruct (g (k, v)); cbn [map fst]; now rewrite IH'.
Qed.

Lemma dget_map_val {A B} (g : bytes * A -> B) k : forall (l : list (bytes * A)),
  dget k (map (fun ku : bytes * A => (fst ku, g ku)) l) = match dget k l with Some u => Some (g (k, u)) | None => None end.
Proof.
  induction l as [|[k0 u0] l IH]; [reflexivity|]. cbn [map dget fst]. destruct (beqb k0 k) eqn:E; [|exact IH].
  apply beqb_eq in E. now subst.
Qed.

Lemma filter_dmem_nil {A} (l : list bytes) : filter (fun cn => dmem cn (@nil (bytes * A))) l = [].
Proof. induction l; [reflexivity|]. cbn. exact IHl. Qed.

Section SimRun.
  Variable opts : list (bytes * kind).
  Variable defaults : option (list (bytes * bytes)).
  Hypothesis opts_nodup : nodup_ci (map fst opts) = true.
  Hypothesis opts_not_hs : forall cn k, In (cn, k) opts -> ci_eqb cn hiddenservices_lc = false.
  Hypothesis opts_keys_ok : forall cn k, In (cn, k) opts -> key_refused cn = false.
  Variable names : list bytes.
  Hypothesis names_eq : names = map fst opts.

  Lemma sim_step_base st m o st' ob :
    Rel opts defaults st m -> op_ok opts o = true -> c10_op o = true -> plain o = true ->
    flagged (mon_step opts defaults m o) = false ->
    m_step names st o = Some (st', ob) ->
    step_ok opts defaults st m o st' ob.
  Proof.
    intros R Hok Hc Hpl Hfl H. destruct (not_flagged _ Hfl) as [F1 [F3 [Fs F4]]].
    destruct o; try discriminate Hc; try discriminate Hpl.
    - eapply sim_assign; eassumption.
    - eapply sim_listop; eassumption.
    - eapply sim_save; eassumption.
    - eapply sim_read; eassumption.
    - eapply sim_needs_save; eassumption.
    - eapply sim_copy; eassumption.
  Qed.

  (* ================================================================ operations while a save is unanswered *)
  Section Flight.
    Variable allowed : op -> bool.
    Hypothesis Hstep : forall st m o st' ob,
      Rel opts defaults st m -> op_ok opts o = true -> allowed o = true -> plain o = true ->
      flagged (mon_step opts defaults m o) = false ->
      m_step names st o = Some (st', ob) -> step_ok opts defaults st m o st' ob.

    Definition dop_allowed (d : dop) : bool :=
      match op_of_dop d with Some o => op_ok_base opts o && allowed o | None => true end.

    Definition outcome (rej : option N) (c : call) : sres :=
      match c with CDone => SOk | CLine _ _ => match rej with None => SOk | Some code => SFail code end end.

    (* the running invariant: the relation holds all along the flight (what the unanswered save has
       sent is still pending on both sides); every save() call corresponds to a snapshot *)
    Lemma sim_inner rej : forall ds st m q out st' rs cs out',
      Rel opts defaults st m -> forallb dop_allowed ds = true ->
      flagged (fst (fold_left (mon_dop opts defaults rej) ds (m, q))) = false ->
      m_inner names st out ds = Some (st', rs, cs, out') ->
      flight_inner_ok opts defaults (m_st m, q) ds rs = true /\
      Rel opts defaults st' (fst (fold_left (mon_dop opts defaults rej) ds (m, q))) /\
      (exists qn, snd (fold_left (mon_dop opts defaults rej) ds (m, q)) = q ++ qn /\
                  lines_ok qn (call_lines cs) = true) /\
      map (outcome rej) cs = flight_outs opts defaults rej (m_st m, q) ds.
    Proof.
      induction ds as [|d ds IH]; intros st m q out st' rs cs out' R Hal Hfl H; cbn [m_inner] in H.
      - inversion H. subst. cbn [fold_left fst snd flight_inner_ok map flight_outs call_lines concat].
        split; [reflexivity|]. split; [exact R|]. split; [exists []; split; [now rewrite app_nil_r|reflexivity]|reflexivity].
      - cbn [forallb] in Hal. apply andb_true_iff in Hal as [Hd Hal]. cbn [fold_left] in Hfl |- *.
        assert (flagged (fst (mon_dop opts defaults rej (m, q) d)) = false) as Hfl1.
        { destruct (flagged (fst (mon_dop opts defaults rej (m, q) d))) eqn:E; [|reflexivity].
          rewrite (fle_flagged _ _ (mon_fold_fle opts defaults rej ds _) E) in Hfl. discriminate. }
        unfold dop_allowed in Hd. destruct (op_of_dop d) as [o|] eqn:Eo.
        + (* an ordinary operation *)
          apply andb_true_iff in Hd as [Hok Hall]. pose proof (op_of_dop_plain _ _ Eo) as Hpl.
          destruct (plain_eqs opts defaults names o Hpl) as [Q1 [Q2 [Q3 [Q4 Q5]]]].
          destruct (m_step_base names st o) as [[st1 ob]|] eqn:E; [|discriminate].
          destruct (o_wrote ob) as [|w ws] eqn:Ew; [|discriminate].
          destruct (ires_of_ores (o_res ob)) as [r|] eqn:Er; [|discriminate].
          match type of H with match m_inner names st1 ?o1 ds with _ => _ end = _ =>
            destruct (m_inner names st1 o1 ds) as [[[[st2 rs2] cs2] out2]|] eqn:E2 end; [|discriminate].
          inversion H. subst st' rs cs out'.
          rewrite Q1 in E. rewrite Q5 in Hok.
          pose proof (mon_dop_msame opts defaults rej (m, q) d o Eo) as Hms. cbn [fst] in Hms.
          assert (flagged (mon_step opts defaults m o) = false) as Hflo.
          { rewrite <- Q2. destruct (flagged (mon_base opts defaults m o)) eqn:Ef; [|reflexivity].
            assert (fle (mon_base opts defaults m o) (fst (mon_dop opts defaults rej (m, q) d))) as Hle
              by (unfold mon_dop; rewrite Eo; fle_tac).
            rewrite (fle_flagged _ _ Hle Ef) in Hfl1. discriminate. }
          destruct (Hstep _ _ _ _ _ R Hok Hall Hpl Hflo E) as [Hchk R1].
          rewrite <- Q2 in R1. pose proof (Rel_msame _ _ _ _ _ R1 Hms) as R1'.
          assert (snd (mon_dop opts defaults rej (m, q) d) = q) as Hq by (unfold mon_dop; now rewrite Eo).
          destruct (mon_dop opts defaults rej (m, q) d) as [m1 q1] eqn:Emd. cbn [fst snd] in *. subst q1.
          destruct (IH st1 m1 q _ st2 rs2 cs2 out2 R1' Hal Hfl E2) as [I1 [I2 [I3 I4]]].
          assert (m_st m1 = spec_base opts defaults (m_st m) o) as Hst1.
          { destruct Hms as [Hs _]. rewrite Hs. apply mon_base_st. }
          split; [|split; [exact I2|split; [exact I3|]]].
          * cbn [flight_inner_ok]. rewrite Eo, (ires_roundtrip _ _ Er). cbn [fst]. rewrite Q3.
            destruct ob as [wr re]. cbn [o_wrote o_res] in *. subst wr. rewrite Hchk. cbn [andb].
            unfold dop_next. rewrite Eo. cbn [fst snd]. rewrite <- Hst1. exact I1.
          * cbn [flight_outs]. rewrite Eo. cbn [app]. unfold dop_next. rewrite Eo. cbn [fst snd]. rewrite <- Hst1. exact I4.
        + (* another save() *)
          destruct (m_send st) as [[st1 c]|] eqn:E; [|discriminate].
          match type of H with match m_inner names st1 ?o1 ds with _ => _ end = _ =>
            destruct (m_inner names st1 o1 ds) as [[[[st2 rs2] cs2] out2]|] eqn:E2 end; [|discriminate].
          inversion H. subst st' rs cs out'.
          assert (mon_dop opts defaults rej (m, q) d = mon_send rej (m, q)) as Emd by (unfold mon_dop; now rewrite Eo).
          rewrite Emd in *.
          assert (has_empty_list (s_pend (m_st m)) = false) as Hne.
          { destruct (not_flagged _ Hfl1) as [F1 _]. unfold mon_send in F1. cbn [fst] in F1.
            destruct (s_pend (m_st m)) as [|p0 pe]; [reflexivity|]. cbn [fst m_f1] in F1. now apply orb_false_iff in F1 as [_ F1]. }
          pose proof (sim_send opts defaults opts_nodup opts_keys_ok st m st1 c R E Hne) as Hsend.
          cbn [flight_inner_ok flight_outs]. rewrite !Eo. cbn [ores_of_ires]. unfold dop_next. rewrite Eo. cbn [fst snd andb].
          unfold mon_send, flight_send, call_outcome in *. cbn [fst snd] in *.
          destruct (s_pend (m_st m)) as [|p0 pe] eqn:Ep.
          * destruct Hsend as [-> ->].
            destruct (IH st m q _ st2 rs2 cs2 out2 R Hal Hfl E2) as [I1 [I2 [I3 I4]]].
            split; [exact I1|]. split; [exact I2|]. split; [exact I3|]. cbn [map outcome app]. now rewrite I4.
          * destruct Hsend as [line [-> [Hparse [R1 [_ _]]]]].
            destruct (not_flagged _ Hfl1) as [F1 [F3 _]]. cbn [fst m_f1 m_f3] in F1, F3.
            apply orb_false_iff in F1 as [F1 _].
            assert (Rel opts defaults st1 {| m_st := m_st m; m_det := scalar_keys (p0 :: pe);
                                             m_f1 := m_f1 m || has_empty_list (p0 :: pe); m_f3 := m_f3 m; m_fs := m_fs m;
                                             m_f4 := m_f4 m || accepted rej && has_odd_list (p0 :: pe) |}) as R1'.
            { rewrite F1, F3, Hne. cbn [orb]. eapply Rel_flags_irrel. exact R1. }
            destruct (IH st1 _ (q ++ [p0 :: pe]) _ st2 rs2 cs2 out2 R1' Hal Hfl E2) as [I1 [I2 [[qn [I3 I3']] I4]]].
            cbn [m_st] in I1, I4.
            split; [exact I1|]. split; [exact I2|]. split.
            { exists ((p0 :: pe) :: qn). split; [now rewrite I3, <- app_assoc|].
              cbn [call_lines map concat app lines_ok]. rewrite Hparse.
              rewrite (entries_match_self _ (eq_ind_r (fun l => nodup_ci (map fst l) = true) (pend_nodup_ci opts defaults opts_nodup _ _ R) (eq_sym Ep))).
              exact I3'. }
            cbn [map outcome app]. now rewrite I4.
    Qed.
    (* one ordinary operation during a flight *)
    Lemma dop_step rej st m q d o st1 ob :
      Rel opts defaults st m -> dop_allowed d = true -> op_of_dop d = Some o ->
      flagged (fst (mon_dop opts defaults rej (m, q) d)) = false ->
      m_step_base names st o = Some (st1, ob) ->
      spec_check opts defaults (m_st m) o ob = true /\
      Rel opts defaults st1 (fst (mon_dop opts defaults rej (m, q) d)) /\
      msame (mon_step opts defaults m o) (fst (mon_dop opts defaults rej (m, q) d)) /\
      snd (mon_dop opts defaults rej (m, q) d) = q /\
      flagged (mon_step opts defaults m o) = false.
    Proof.
      intros R Hd Eo Hfl1 E. unfold dop_allowed in Hd. rewrite Eo in Hd.
      apply andb_true_iff in Hd as [Hok Hall]. pose proof (op_of_dop_plain _ _ Eo) as Hpl.
      destruct (plain_eqs opts defaults names o Hpl) as [Q1 [Q2 [Q3 [Q4 Q5]]]].
      rewrite Q1 in E. rewrite Q5 in Hok.
      pose proof (mon_dop_msame opts defaults rej (m, q) d o Eo) as Hms. cbn [fst] in Hms. rewrite Q2 in Hms.
      assert (flagged (mon_step opts defaults m o) = false) as Hflo.
      { rewrite <- Q2. destruct (flagged (mon_base opts defaults m o)) eqn:Ef; [|reflexivity].
        assert (fle (mon_base opts defaults m o) (fst (mon_dop opts defaults rej (m, q) d))) as Hle
          by (unfold mon_dop; rewrite Eo; fle_tac).
        rewrite (fle_flagged _ _ Hle Ef) in Hfl1. discriminate. }
      destruct (Hstep _ _ _ _ _ R Hok Hall Hpl Hflo E) as [Hchk R1].
      split; [exact Hchk|]. split; [exact (Rel_msame _ _ _ _ _ R1 Hms)|]. split; [exact Hms|].
      split; [unfold mon_dop; now rewrite Eo|exact Hflo].
    Qed.

    (* ---- an acknowledged save with assignments and in-place edits in between ----
       the invariant kept while the save is unanswered: an option of the snapshot S that has not been
       assigned since (not in T) is still the object that was sent -- a scalar unchanged and landed in
       config, a list still the very list a read returns *)
    Definition simple (d : dop) : bool := match d with DSave | DEvent _ => false | _ => true end.

    Record FI (st : mst) (m : mon) (S : list (bytes * ival)) (T : list bytes) : Prop := {
      fi_un : forall cn iv k, dget cn S = Some iv -> In (cn, k) opts -> mem_bytes cn T = false ->
        match iv with
        | IScalar s0 =>
            dget cn (s_pend (m_st m)) = Some (IScalar s0) /\
            exists a, atom_text a = s0 /\ dget cn (m_unsaved st) = Some (UVal (CAtom a)) /\
                      exists pv, parse (pk_of k) (PAtom a) = Ok pv /\ dget cn (m_config st) = Some (cval_of_pyval true pv)
        | IList _ =>
            exists l', dget cn (s_pend (m_st m)) = Some (IList l') /\ dget cn (m_unsaved st) = Some UAlias /\
                       dget cn (m_config st) = Some (CList true l')
        end;
      fi_mono : forall cn, dmem cn S = true -> dmem cn (s_pend (m_st m)) = true;
      fi_det : forall cn s0, dget cn S = Some (IScalar s0) -> mem_bytes cn (m_det m) = true }.

    (* the options assigned, as the Spec counts them *)
    Definition spec_touch (st : ost) (d : dop) (T : list bytes) : list bytes :=
      match d with
      | DAssign name v =>
          match dfind_ci name opts with
          | Some (cn, k) => match spec_validate k v with Some _ => cn :: T | None => T end
          | None => T
          end
      | _ => T
      end.

    Lemma FI_same st m m' S T : FI st m S T -> m_st m' = m_st m -> m_det m' = m_det m -> FI st m' S T.
    Proof. intros [A B C] E1 E2. constructor; rewrite ?E1, ?E2; assumption. Qed.

    Lemma FI_step st m S T d o st1 ob r :
      Rel opts defaults st m -> FI st m S T -> simple d = true -> dop_allowed d = true -> op_of_dop d = Some o ->
      flagged (fst (mon_dop opts defaults None (m, [S]) d)) = false ->
      m_step_base names st o = Some (st1, ob) -> ires_of_ores (o_res ob) = Some r ->
      let T' := match d, r with DAssign name _, IOk => setattr_key st name :: T | _, _ => T end in
      FI st1 (fst (mon_dop opts defaults None (m, [S]) d)) S T' /\ T' = spec_touch (m_st m) d T.
    Proof.
      intros R HFI Hsim Hd Eo Hfl E Er T'.
      destruct (dop_step None st m [S] d o st1 ob R Hd Eo Hfl E) as [Hchk [R1 [Hms [_ Hflo]]]].
      destruct Hms as [M1 [M2 _]]. set (m1 := fst (mon_dop opts defaults None (m, [S]) d)) in *.
      pose proof (mon_step_st opts defaults m o) as Hst. rewrite Hst in M1.
      unfold dop_allowed in Hd. rewrite Eo in Hd. apply andb_true_iff in Hd as [Hok _].
      destruct HFI as [Hun Hmono Hdet].
      destruct d as [name v|name lo|name| | |items]; try discriminate Hsim; cbn [op_of_dop] in Eo; inversion Eo; subst o; clear Eo.
      - (* assignment *)
        cbn [op_ok_base op_ok_gen] in Hok. destruct (dfind_ci name opts) as [[cn0 k0]|] eqn:Hf; [|discriminate].
        destruct (dfind_ci_In _ _ _ _ Hf) as [Hin0 _].
        assert (setattr_key st name = cn0) as Hkey.
        { unfold setattr_key. rewrite (find_real_name_opt opts defaults st m name cn0 k0 R Hf).
          exact (find_real_name_canon opts defaults opts_nodup st m cn0 k0 R Hin0). }
        cbn [spec_check spec_check_gen] in Hchk. rewrite Hf in Hchk. apply andb_true_iff in Hchk as [_ Hchk].
        cbn [spec_next spec_next_gen] in M1. rewrite Hf in M1.
        cbn [mon_step mon_step_gen] in M2. rewrite Hf in M2.
        cbn [m_step_base m_step_gen] in E. unfold T', spec_touch. rewrite Hf, Hkey.
        destruct (m_setattr st name v) as [s1|e|] eqn:Es; [| |discriminate]; inversion E; subst st1 ob; cbn [o_res] in Hchk, Er;
          inversion Er; subst r; destruct (spec_validate k0 v) as [iv|] eqn:Ev; try discriminate Hchk.
        + destruct (setattr_frame _ _ _ _ Es) as [Hcfg Hus]. rewrite Hkey in Hus. cbn [m_det] in M2.
          split; [|reflexivity]. constructor.
          * intros cn iv0 k Hs Hin Hm. cbn [mem_bytes] in Hm. apply orb_false_iff in Hm as [Hne Hm].
            assert (cn0 <> cn) as Hne' by (intros ->; rewrite beqb_refl in Hne; discriminate).
            pose proof (Hun cn iv0 k Hs Hin Hm) as X. rewrite M1. cbn [s_pend]. rewrite dget_dset_other by assumption.
            rewrite Hcfg, (Hus cn) by congruence. exact X.
          * intros cn Hs. rewrite M1. cbn [s_pend]. apply dmem_dset_mono. now apply Hmono.
          * intros cn s0 Hs. rewrite M2. cbn [mem_bytes]. rewrite (Hdet cn s0 Hs). apply orb_true_r.
        + split; [|reflexivity]. cbn [m_det] in M2. constructor; rewrite ?M1, ?M2; assumption.
      - (* in-place operation *)
        cbn [op_ok_base op_ok_gen] in Hok. destruct (dfind_ci name opts) as [[cn0 k0]|] eqn:Hf; [|discriminate].
        destruct (dfind_ci_In _ _ _ _ Hf) as [Hin0 _].
        pose proof (find_real_name_opt opts defaults st m name cn0 k0 R Hf) as Hrn.
        cbn [spec_next spec_next_gen] in M1. rewrite Hf in M1.
        cbn [mon_step mon_step_gen] in M2, Hflo. rewrite Hf in M2, Hflo. cbn [m_det] in M2.
        assert (mem_bytes cn0 (m_det m) = false) as Hnd.
        { destruct (not_flagged _ Hflo) as [_ [F3 _]]. cbn [m_f3] in F3. now apply orb_false_iff in F3 as [_ F3]. }
        cbn [m_step_base m_step_gen] in E.
        assert (exists ex, m_listop st name lo = Ok (st1, ex)) as [ex El].
        { destruct (m_listop st name lo) as [[s1 [e|]]|e|]; inversion E; eauto. }
        pose proof (listop_frame _ _ _ _ _ El) as Hfr. rewrite Hrn in Hfr.
        unfold T'. split; [|reflexivity].
        assert (forall cn, cn <> cn0 -> dget cn (s_pend (m_st m1)) = dget cn (s_pend (m_st m))) as Hpo.
        { intros cn Hne. rewrite M1. destruct (py_list_op lo (cur_list defaults (m_st m) cn0 k0)); [|reflexivity].
          cbn [s_pend]. apply dget_dset_other. congruence. }
        constructor.
        + intros cn iv0 k Hs Hin Hm. pose proof (Hun cn iv0 k Hs Hin Hm) as X.
          destruct (list_eq_dec ascii_dec cn cn0) as [->|Hne].
          * destruct iv0 as [s0|l0]; [rewrite (Hdet cn0 s0 Hs) in Hnd; discriminate|].
            destruct X as [l' [Xp _]].
            assert (exists l2, dget cn0 (s_pend (m_st m1)) = Some (IList l2)) as [l2 Hp2].
            { rewrite M1. destruct (py_list_op lo (cur_list defaults (m_st m) cn0 k0)); cbn [s_pend]; [rewrite dget_dset_same|]; eauto. }
            destruct (r_pend _ _ _ _ R1 _ _ Hp2) as [k' [_ Hpr]]. cbn [pend_rel] in Hpr.
            destruct Hpr as [_ [_ [[Hu [Hc _]]|[_ Hdd]]]]; [exists l2; auto|].
            fold m1 in Hdd. rewrite M2, Hnd in Hdd. discriminate.
          * destruct (Hfr cn Hne) as [F1 F2]. rewrite (Hpo cn Hne), F1, F2. exact X.
        + intros cn Hs. rewrite M1. destruct (py_list_op lo (cur_list defaults (m_st m) cn0 k0)); cbn [s_pend]; [apply dmem_dset_mono|]; now apply Hmono.
        + intros cn s0 Hs. rewrite M2. exact (Hdet cn s0 Hs).
      - (* read *)
        cbn [op_ok_base op_ok_gen] in Hok. destruct (dfind_ci name opts) as [[cn0 k0]|] eqn:Hf; [|discriminate].
        cbn [m_step_base m_step_gen] in E.
        destruct (read_opt opts defaults st m name cn0 k0 R Hf) as [v0 [Hr _]]. rewrite Hr in E. inversion E. subst st1.
        unfold T'. split; [|reflexivity]. apply (FI_same st m); [constructor; assumption|exact M1|exact M2].
      - (* needs_save() *)
        cbn [m_step_base m_step_gen] in E. inversion E. subst st1.
        unfold T'. split; [|reflexivity]. apply (FI_same st m); [constructor; assumption|exact M1|exact M2].
    Qed.

    Lemma inner_simple S sent : forall ds st m T st' rs cs out',
      Rel opts defaults st m -> FI st m S T -> forallb simple ds = true -> forallb dop_allowed ds = true ->
      flagged (fst (fold_left (mon_dop opts defaults None) ds (m, [S]))) = false ->
      m_inner names st [(sent, T)] ds = Some (st', rs, cs, out') ->
      exists T', cs = [] /\ out' = [(sent, T')] /\
        FI st' (fst (fold_left (mon_dop opts defaults None) ds (m, [S]))) S T' /\
        snd (fold_left (mon_dop opts defaults None) ds (m, [S])) = [S] /\
        flight_ras opts defaults (m_st m, [S]) [T] ds = [T'].
    Proof.
      induction ds as [|d ds IH]; intros st m T st' rs cs out' R HFI Hsim Hal Hfl H; cbn [m_inner] in H.
      - inversion H. subst. exists T. cbn [fold_left fst snd flight_ras].
        split; [reflexivity|]. split; [reflexivity|]. split; [exact HFI|]. split; reflexivity.
      - cbn [forallb] in Hsim, Hal. apply andb_true_iff in Hsim as [Hs1 Hsim]. apply andb_true_iff in Hal as [Hd Hal].
        cbn [fold_left] in Hfl |- *.
        assert (flagged (fst (mon_dop opts defaults None (m, [S]) d)) = false) as Hfl1.
        { destruct (flagged (fst (mon_dop opts defaults None (m, [S]) d))) eqn:E; [|reflexivity].
          rewrite (fle_flagged _ _ (mon_fold_fle opts defaults None ds _) E) in Hfl. discriminate. }
        assert (exists o, op_of_dop d = Some o) as [o Eo] by (destruct d; try discriminate Hs1; cbn; eauto).
        rewrite Eo in H.
        destruct (m_step_base names st o) as [[st1 ob]|] eqn:E; [|discriminate].
        destruct (o_wrote ob); [|discriminate]. destruct (ires_of_ores (o_res ob)) as [r|] eqn:Er; [|discriminate].
        destruct (dop_step None st m [S] d o st1 ob R Hd Eo Hfl1 E) as [_ [R1 [Hms [Hq _]]]].
        destruct (FI_step st m S T d o st1 ob r R HFI Hs1 Hd Eo Hfl1 E Er) as [HFI1 HT].
        set (T1 := match d, r with DAssign name _, IOk => setattr_key st name :: T | _, _ => T end) in *.
        assert (match d, r with
                | DAssign name _, IOk => map (fun x : sent_t * list bytes => (fst x, setattr_key st name :: snd x)) [(sent, T)]
                | _, _ => [(sent, T)]
                end = [(sent, T1)]) as Eout by (unfold T1; destruct d; try reflexivity; destruct r; reflexivity).
        rewrite Eout in H.
        destruct (mon_dop opts defaults None (m, [S]) d) as [m1 q1] eqn:Emd. cbn [fst snd] in *. subst q1.
        destruct (m_inner names st1 [(sent, T1)] ds) as [[[[st2 rs2] cs2] out2]|] eqn:E2; [|discriminate].
        inversion H. subst st' rs cs out'.
        destruct (IH st1 m1 T1 st2 rs2 cs2 out2 R1 HFI1 Hsim Hal Hfl E2) as [T' [I1 [I2 [I3 [I4 I5]]]]].
        exists T'. split; [exact I1|]. split; [exact I2|]. split; [exact I3|]. split; [exact I4|].
        cbn [flight_ras].
        assert (m_st m1 = spec_base opts defaults (m_st m) o) as Hst1.
        { destruct Hms as [Hs _]. rewrite Hs, mon_step_st. destruct (plain_eqs opts defaults names o (op_of_dop_plain _ _ Eo)) as [_ [_ [_ [Q4 _]]]]. now rewrite Q4. }
        assert (dop_next opts defaults (m_st m, [S]) d = (m_st m1, [S])) as -> by (unfold dop_next; rewrite Eo; cbn [fst snd]; now rewrite Hst1).
        assert (match d with
                | DAssign name v =>
                    match dfind_ci name opts with
                    | Some (cn, k) => match spec_validate k v with Some _ => map (cons cn) [T] | None => [T] end
                    | None => [T]
                    end
                | DSave => match s_pend (fst (m_st m, [S])) with [] => [T] | _ => [T] ++ [[]] end
                | _ => [T]
                end = [T1]) as ->.
        { rewrite HT. unfold spec_touch. destruct d; try discriminate Hs1; try reflexivity.
          destruct (dfind_ci name opts) as [[cn k]|]; [|reflexivity]. destruct (spec_validate k v); reflexivity. }
        exact I5.
    Qed.

    Lemma mem_bytes_In' k l : mem_bytes k l = true -> In k l.
    Proof.
      induction l as [|x l IH]; cbn [mem_bytes]; [discriminate|]. intros H. apply orb_true_iff in H as [H|H];
        [left; now apply beqb_eq|right; now apply IH].
    Qed.

    (* model and Spec drop the same entries at the acknowledgement *)
    Lemma acked_agrees st0 st1 m1 S T k u iv1 kk :
      map fst (m_unsaved st0) = map fst S -> landed opts st0 S ->
      Rel opts defaults st1 m1 -> FI st1 m1 S T ->
      existsb (fun cn => match dget cn S, dget cn (s_pend (m_st m1)) with Some a, Some b => ival_eqb a b | _, _ => false end) T = false ->
      (forall iv0, dget k S = Some iv0 -> In (k, kk) opts) ->
      In (k, u) (m_unsaved st1) -> In (k, iv1) (s_pend (m_st m1)) ->
      acked T st1 (sent_of st0) (k, u) = match dget k S with Some iv0 => ival_eqb iv0 iv1 | None => false end.
    Proof.
      intros Hkeys Hland R1 HFI Hamb Hopt Hu Hp.
      pose proof (dget_first _ _ _ (r_nodup _ _ _ _ R1) Hu) as Eu.
      pose proof (dget_first _ _ _ (pend_nodup opts defaults _ _ R1) Hp) as Ep.
      unfold acked, sent_of. cbn [fst snd]. rewrite dget_map_val.
      destruct (dget k S) as [iv0|] eqn:ES.
      - assert (exists u0, dget k (m_unsaved st0) = Some u0) as [u0 Eu0].
        { apply dget_in_keys. rewrite Hkeys. apply dget_In in ES. now apply (in_map fst) in ES. }
        rewrite Eu0. cbv beta. cbn [fst snd]. pose proof (Hopt _ eq_refl) as Hin. pose proof (Hland k iv0 kk ES Hin) as HL.
        destruct (mem_bytes k T) eqn:Em; cbn [negb andb].
        + (* assigned since: it stays; its value is not the acknowledged one (else outside the envelope) *)
          pose proof (proj1 (existsb_false_forall _ _) Hamb k (mem_bytes_In' _ _ Em)) as X. cbv beta in X.
          rewrite ES, Ep in X. now rewrite X.
        + pose proof (fi_un _ _ _ _ HFI k iv0 kk ES Hin Em) as HU.
          destruct iv0 as [s0|l0].
          * destruct HL as [a [_ [Hua _]]]. rewrite Hua in Eu0. inversion Eu0. subst u0. cbn [resolve_u].
            destruct HU as [Hp1 _]. rewrite Ep in Hp1. inversion Hp1. subst iv1. cbn [ival_eqb]. now rewrite beqb_refl.
          * destruct HL as [Hc0 Hu0]. rewrite Hu0 in Eu0. inversion Eu0. subst u0. cbn [resolve_u]. rewrite Hc0.
            destruct HU as [l' [Hp1 [Hu1 Hc1]]]. rewrite Ep in Hp1. inversion Hp1. subst iv1.
            rewrite Eu in Hu1. inversion Hu1. subst u. cbn [resolve_u]. rewrite Hc1. reflexivity.
      - assert (dget k (m_unsaved st0) = None) as ->; [|reflexivity].
        apply dget_not_in. rewrite Hkeys. intros Hi. destruct (dget_in_keys _ _ Hi) as [v Hv]. congruence.
    Qed.

    Lemma ack_rel st0 st1 m1 S T :
      nodup_ci (map fst S) = true -> canonical_keys opts (pend_entries S) ->
      has_empty_list S = false -> has_odd_list S = false ->
      map fst (m_unsaved st0) = map fst S -> landed opts st0 S ->
      (forall k iv0, dget k S = Some iv0 -> exists kk, In (k, kk) opts) ->
      Rel opts defaults st1 m1 -> FI st1 m1 S T ->
      existsb (fun cn => match dget cn S, dget cn (s_pend (m_st m1)) with Some a, Some b => ival_eqb a b | _, _ => false end) T = false ->
      Rel opts defaults (m_ack st1 (sent_of st0, T))
          {| m_st := answer opts None (m_st m1) S;
             m_det := filter (fun cn => dmem cn (prune (s_pend (m_st m1)) S)) (m_det m1);
             m_f1 := false; m_f3 := false; m_fs := m_fs m1; m_f4 := m_f4 m1 |}.
    Proof.
      intros HSnd HScan He Hodd Hkeys Hland Hopt R1 HFI Hamb.
      set (P1 := s_pend (m_st m1)). set (U1 := m_unsaved st1).
      set (g := fun p : bytes * ival => negb (match dget (fst p) S with Some iv => ival_eqb iv (snd p) | None => false end)).
      set (f := fun ku : bytes * uval => negb (acked T st1 (sent_of st0) ku)).
      pose proof (r_nodup _ _ _ _ R1) as HndU. pose proof (pend_nodup opts defaults _ _ R1) as HndP.
      pose proof (r_ukeys _ _ _ _ R1) as HkUP. fold U1 in HndU, HkUP. fold P1 in HndP, HkUP.
      assert (forall k u iv1, In (k, u) U1 -> In (k, iv1) P1 -> f (k, u) = g (k, iv1)) as Hag.
      { intros k u iv1 Hu Hp. unfold f, g. cbn [fst snd]. f_equal.
        destruct (dget k S) as [iv0|] eqn:ES.
        - destruct (Hopt k iv0 ES) as [kk Hkk].
          rewrite (acked_agrees st0 st1 m1 S T k u iv1 kk Hkeys Hland R1 HFI Hamb (fun _ _ => Hkk) Hu Hp). now rewrite ES.
        - rewrite (acked_agrees st0 st1 m1 S T k u iv1 KStr Hkeys Hland R1 HFI Hamb (fun iv0 E => match eq_ind (dget k S) (fun o => o = Some iv0 -> False) (fun X => ltac:(congruence)) _ eq_refl E with end) Hu Hp).
          now rewrite ES. }
      unfold m_ack, answer. cbn [fst snd]. fold U1. fold P1. fold f.
      change (prune P1 S) with (filter g P1).
      apply (rel_ack_partial opts defaults opts_nodup opts_keys_ok st1 m1 S (filter f U1) (filter g P1) R1 HSnd HScan He Hodd).
      - apply filter_keys_agree; assumption.
      - now apply NoDup_keys_filter.
      - intros cn iv Hp2. rewrite (dget_filter g cn P1 HndP) in Hp2. fold P1.
        destruct (dget cn P1) as [iv1|] eqn:Ep1; [|discriminate]. destruct (g (cn, iv1)) eqn:Eg; [|discriminate]. inversion Hp2. subst iv1.
        split; [reflexivity|]. rewrite (dget_filter f cn U1 HndU). fold U1.
        destruct (dget_in_keys cn U1 ltac:(rewrite HkUP; apply dget_In in Ep1; now apply (in_map fst) in Ep1)) as [u Eu].
        rewrite Eu. now rewrite (Hag cn u iv (dget_In _ _ _ Eu) (dget_In _ _ _ Ep1)), Eg.
      - intros cn Hp2. rewrite (dget_filter g cn P1 HndP) in Hp2. rewrite (dget_filter f cn U1 HndU).
        destruct (dget cn U1) as [u|] eqn:Eu; [|reflexivity].
        destruct (dget_in_keys cn P1 ltac:(rewrite <- HkUP; apply dget_In in Eu; now apply (in_map fst) in Eu)) as [iv1 Ep1].
        rewrite Ep1 in Hp2. rewrite (Hag cn u iv1 (dget_In _ _ _ Eu) (dget_In _ _ _ Ep1)).
        destruct (g (cn, iv1)); [discriminate|reflexivity].
      - intros cn iv0 k ES Hp2 Hin. rewrite (dget_filter g cn P1 HndP) in Hp2. fold P1.
        assert (dmem cn P1 = true) as Hm by (apply (fi_mono _ _ _ _ HFI); unfold dmem; now rewrite ES).
        unfold dmem in Hm. destruct (dget cn P1) as [iv1|] eqn:Ep1; [|discriminate].
        destruct (g (cn, iv1)) eqn:Eg; [discriminate|]. unfold g in Eg. cbn [fst snd] in Eg. rewrite ES in Eg.
        apply negb_false_iff, ival_eqb_eq in Eg. subst iv1. split; [reflexivity|].
        destruct (mem_bytes cn T) eqn:Em.
        + exfalso. pose proof (proj1 (existsb_false_forall _ _) Hamb cn (mem_bytes_In' _ _ Em)) as X. cbv beta in X.
          fold P1 in X. rewrite ES, Ep1, ival_eqb_refl in X. discriminate.
        + pose proof (fi_un _ _ _ _ HFI cn iv0 k ES Hin Em) as HU. fold P1 in HU. destruct iv0 as [s0|l0].
          * exact (proj2 HU).
          * destruct HU as [l' [Hp1 [Hu1 Hc1]]]. rewrite Ep1 in Hp1. inversion Hp1. subst l'. auto.
      - intros cn ES. rewrite (dget_filter g cn P1 HndP). fold P1. destruct (dget cn P1) as [iv1|]; [|reflexivity].
        unfold g. cbn [fst snd]. now rewrite ES.
    Qed.

    (* reads and needs_save() change nothing *)
    Definition quiet (d : dop) : bool := match d with DRead _ | DNeedsSave => true | _ => false end.

    Lemma inner_quiet rej : forall ds st m q out st' rs cs out',
      Rel opts defaults st m -> forallb quiet ds = true -> forallb dop_allowed ds = true ->
      m_inner names st out ds = Some (st', rs, cs, out') ->
      st' = st /\ cs = [] /\ out' = out /\ msame m (fst (fold_left (mon_dop opts defaults rej) ds (m, q))) /\
      snd (fold_left (mon_dop opts defaults rej) ds (m, q)) = q.
    Proof.
      induction ds as [|d ds IH]; intros st m q out st' rs cs out' R Hq Hal H; cbn [m_inner] in H.
      - inversion H. subst. cbn [fold_left fst snd]. repeat split.
      - cbn [forallb] in Hq, Hal. apply andb_true_iff in Hq as [Hq1 Hq]. apply andb_true_iff in Hal as [Hd Hal].
        cbn [fold_left].
        assert (exists o, op_of_dop d = Some o /\ (forall s1 ob, m_step_base names st o = Some (s1, ob) -> s1 = st) /\
                          mon_base opts defaults m o = m) as [o [Eo [Hst Hm]]].
        { destruct d; try discriminate Hq1; eexists; (split; [reflexivity|]); (split; [|reflexivity]).
          - intros s1 ob E. cbn [m_step_base m_step_gen] in E. unfold dop_allowed in Hd. cbn [op_of_dop] in Hd.
            apply andb_true_iff in Hd as [Hok _]. cbn [op_ok_base op_ok_gen] in Hok.
            destruct (dfind_ci name opts) as [[cn k]|] eqn:Hf; [|discriminate].
            destruct (read_opt opts defaults st m name cn k R Hf) as [v [Hr _]]. rewrite Hr in E. now inversion E.
          - intros s1 ob E. cbn [m_step_base m_step_gen] in E. now inversion E. }
        rewrite Eo in H. destruct (m_step_base names st o) as [[st1 ob]|] eqn:E; [|discriminate].
        destruct (o_wrote ob); [|discriminate]. destruct (ires_of_ores (o_res ob)); [|discriminate].
        assert (match d, i with DAssign name _, IOk => map (fun x : sent_t * list bytes => (fst x, setattr_key st name :: snd x)) out | _, _ => out end = out) as Eout
          by (destruct d; try discriminate Hq1; reflexivity).
        rewrite Eout in H.
        destruct (m_inner names st1 out ds) as [[[[st2 rs2] cs2] out2]|] eqn:E2; [|discriminate]. inversion H. subst st' rs cs out'.
        pose proof (Hst _ _ eq_refl) as ->.
        pose proof (mon_dop_msame opts defaults rej (m, q) d o Eo) as Hms. cbn [fst] in Hms. rewrite Hm in Hms.
        assert (snd (mon_dop opts defaults rej (m, q) d) = q) as Hq2 by (unfold mon_dop; now rewrite Eo).
        destruct (mon_dop opts defaults rej (m, q) d) as [m1 q1]. cbn [fst snd] in *. subst q1.
        destruct (IH st m1 q out st2 rs2 cs2 out2 (Rel_msame _ _ _ _ _ R Hms) Hq Hal E2) as [I1 [I2 [I0 [I3 I4]]]].
        split; [exact I1|]. split; [exact I2|]. split; [exact I0|]. split; [|exact I4].
        destruct Hms as [A1 [A2 [A3 A4]]], I3 as [B1 [B2 [B3 B4]]]. unfold msame. repeat split; congruence.
    Qed.
    Lemma flight_flags m rej ds :
      flagged (mon_step opts defaults m (OpSaveDuring rej ds)) = false ->
      flagged (fst (fold_left (mon_dop opts defaults rej) ds (mon_send rej (m, [])))) = false.
    Proof.
      apply fle_flagged_false. cbn [mon_step mon_step_gen]. unfold mon_flight. fle_tac.
    Qed.

    (* from save() to the moment before the answers *)
    Lemma flight_prefix rej st m ds st0 c0 out0 st1 rs cs out :
      Rel opts defaults st m -> forallb dop_allowed ds = true ->
      flagged (mon_step opts defaults m (OpSaveDuring rej ds)) = false ->
      m_send st = Some (st0, c0) -> m_inner names st0 out0 ds = Some (st1, rs, cs, out) ->
      let mq0 := mon_send rej (m, []) in
      let mqE := fold_left (mon_dop opts defaults rej) ds mq0 in
      Rel opts defaults st0 (fst mq0) /\
      (s_pend (m_st m) <> [] -> landed opts st0 (s_pend (m_st m)) /\ exists line, c0 = CLine line (sent_of st0)) /\
      (s_pend (m_st m) = [] -> st0 = st /\ c0 = CDone) /\
      flight_inner_ok opts defaults (m_st m, snd mq0) ds rs = true /\
      Rel opts defaults st1 (fst mqE) /\
      lines_ok (snd mqE) (call_lines (c0 :: cs)) = true /\
      map (outcome rej) (c0 :: cs) = call_outcome rej (m_st m) :: flight_outs opts defaults rej (m_st m, snd mq0) ds /\
      flagged (fst mqE) = false.
    Proof.
      intros R Hal Hfl E0 E1 mq0 mqE. apply flight_flags in Hfl. fold mq0 in Hfl. fold mqE in Hfl.
      assert (flagged (fst mq0) = false) as Hfl0.
      { destruct (flagged (fst mq0)) eqn:E; [|reflexivity].
        unfold mqE in Hfl. rewrite (fle_flagged _ _ (mon_fold_fle opts defaults rej ds _) E) in Hfl. discriminate. }
      assert (has_empty_list (s_pend (m_st m)) = false) as Hne.
      { destruct (not_flagged _ Hfl0) as [F1 _]. unfold mq0, mon_send in F1. cbn [fst] in F1.
        destruct (s_pend (m_st m)) as [|p0 pe]; [reflexivity|]. cbn [fst m_f1] in F1. now apply orb_false_iff in F1 as [_ F1]. }
      pose proof (sim_send opts defaults opts_nodup opts_keys_ok st m st0 c0 R E0 Hne) as Hsend.
      assert (m_st (fst mq0) = m_st m) as Hst0 by (unfold mq0; apply (mon_send_st rej (m, []))).
      assert (Rel opts defaults st0 (fst mq0) /\
              (s_pend (m_st m) <> [] -> landed opts st0 (s_pend (m_st m)) /\ exists line, c0 = CLine line (sent_of st0)) /\
              (s_pend (m_st m) = [] -> st0 = st /\ c0 = CDone) /\
              lines_ok (snd mq0) (call_lines [c0]) = true /\
              outcome rej c0 = call_outcome rej (m_st m)) as [R0 [HL [HN [Hl0 Ho0]]]].
      { unfold mq0, mon_send, call_outcome in *. cbn [fst snd] in *.
        destruct (s_pend (m_st m)) as [|p0 pe] eqn:Ep.
        - destruct Hsend as [-> ->]. split; [exact R|]. split; [intros X; congruence|]. repeat split; reflexivity.
        - destruct Hsend as [line [-> [Hparse [R1 [Hland _]]]]].
          destruct (not_flagged _ Hfl0) as [F1 [F3 _]]. cbn [fst m_f1 m_f3] in F1, F3. apply orb_false_iff in F1 as [F1 _].
          split; [rewrite F1, F3, Hne; cbn [orb]; eapply Rel_flags_irrel; exact R1|].
          split; [intros _; split; [exact Hland|eauto]|]. split; [discriminate|]. split; [|reflexivity].
          cbn [snd call_lines map concat app lines_ok]. rewrite Hparse.
          rewrite (entries_match_self _ (eq_ind_r (fun l => nodup_ci (map fst l) = true) (pend_nodup_ci opts defaults opts_nodup _ _ R) (eq_sym Ep))).
          reflexivity. }
      destruct mq0 as [m0 q0] eqn:Emq0. cbn [fst snd] in *.
      destruct (sim_inner rej ds st0 m0 q0 out0 st1 rs cs out R0 Hal Hfl E1) as [I1 [I2 [[qn [I3 I3']] I4]]].
      rewrite Hst0 in I1, I4.
      split; [exact R0|]. split; [exact HL|]. split; [exact HN|]. split; [exact I1|]. split; [exact I2|].
      split; [|split; [|exact Hfl]].
      - unfold mqE. rewrite I3. clear - Hl0 I3'. cbn [call_lines map concat] in *.
        destruct c0; cbn [app] in *.
        + destruct q0; [exact I3'|discriminate Hl0].
        + destruct q0 as [|s0 [|s1 q0]]; cbn [lines_ok app] in *; try discriminate Hl0.
          * apply andb_true_iff in Hl0 as [Hl0 _]. now rewrite Hl0.
          * apply andb_true_iff in Hl0 as [_ Hl0]. discriminate Hl0.
      - cbn [map]. now rewrite Ho0, I4.
    Qed.
    Lemma answers_reject c q : forall st, fold_left (answer opts (Some c)) q st = st.
    Proof. induction q as [|x q IH]; intros st; [reflexivity|]. cbn [fold_left answer]. apply IH. Qed.

    Lemma sres_list_refl l : list_eqb sres_eqb l l = true.
    Proof. induction l as [|x l IH]; [reflexivity|]. cbn. rewrite IH. destruct x; cbn; rewrite ?N.eqb_refl; reflexivity. Qed.

    Lemma ns_agree st m : Rel opts defaults st m ->
      match m_unsaved st with [] => false | _ :: _ => true end = negb (is_nil (s_pend (m_st m))).
    Proof.
      intros R. pose proof (r_ukeys _ _ _ _ R) as Hk.
      destruct (m_unsaved st), (s_pend (m_st m)); cbn in Hk; try discriminate; reflexivity.
    Qed.

    (* the judgement of the whole OpSaveDuring from its parts *)
    Lemma flight_check_intro m rej ds rs cs0 ns snap mF :
      m_st mF = flight_next opts defaults (m_st m) rej ds ->
      flight_inner_ok opts defaults (m_st m, flight_send (m_st m) []) ds rs = true ->
      lines_ok (snd (flight_run opts defaults (m_st m) ds)) (call_lines cs0) = true ->
      map (outcome rej) cs0 = call_outcome rej (m_st m) :: flight_outs opts defaults rej (m_st m, flight_send (m_st m) []) ds ->
      ns = negb (is_nil (s_pend (m_st mF))) ->
      snap_ok opts defaults (m_st mF) opts snap = true ->
      spec_check opts defaults (m_st m) (OpSaveDuring rej ds)
        {| o_wrote := call_lines cs0; o_res := XFlight rs (map (outcome rej) cs0) ns snap |} = true.
    Proof.
      intros E H1 H2 H3 H4 H5. cbn [spec_check spec_check_gen]. unfold flight_check. cbn [o_res o_wrote].
      rewrite <- E, H1, H2, H3, sres_list_refl, <- H4, H5, eqb_reflx. reflexivity.
    Qed.
    Definition flight_provable (rej : option N) (ds : list dop) : bool :=
      match rej with Some _ => true | None => forallb simple ds end.

    Lemma lines_ok_nil q : lines_ok q [] = true -> q = [].
    Proof. destruct q; [reflexivity|discriminate]. Qed.

    (* without a second save() nothing new is outstanding *)
    Lemma inner_nosave : forall ds st st' rs cs out',
      forallb simple ds = true -> m_inner names st [] ds = Some (st', rs, cs, out') -> cs = [] /\ out' = [].
    Proof.
      induction ds as [|d ds IH]; intros st st' rs cs out' Hs H; cbn [m_inner] in H; [inversion H; auto|].
      cbn [forallb] in Hs. apply andb_true_iff in Hs as [Hs1 Hs].
      destruct (op_of_dop d) as [o|] eqn:Eo; [|destruct d; discriminate].
      destruct (m_step_base names st o) as [[st1 ob]|]; [|discriminate].
      destruct (o_wrote ob); [|discriminate]. destruct (ires_of_ores (o_res ob)) as [r|]; [|discriminate].
      assert (match d, r with DAssign name _, IOk => map (fun x : sent_t * list bytes => (fst x, setattr_key st name :: snd x)) [] | _, _ => [] end
              = @nil (sent_t * list bytes)) as E by (destruct d; try reflexivity; destruct r; reflexivity).
      rewrite E in H. destruct (m_inner names st1 [] ds) as [[[[st2 rs2] cs2] out2]|] eqn:E2; [|discriminate].
      inversion H. subst. exact (IH _ _ _ _ _ Hs E2).
    Qed.

    (* right after save() everything that was sent is untouched *)
    Lemma FI_init st0 m0 S :
      NoDup (map fst S) -> s_pend (m_st m0) = S -> m_det m0 = scalar_keys S -> landed opts st0 S -> FI st0 m0 S [].
    Proof.
      intros Hnd Hp Hd Hland. constructor.
      - intros cn iv k ES Hin _. pose proof (Hland cn iv k ES Hin) as X. rewrite Hp. destruct iv as [s0|l].
        + split; [exact ES|exact X].
        + exists l. destruct X as [X1 X2]. auto.
      - intros cn Hm. now rewrite Hp.
      - intros cn s0 ES. rewrite Hd. exact (mem_scalar_keys S cn (IScalar s0) Hnd ES).
    Qed.

    Lemma sim_flight st m rej ds st' ob :
      Rel opts defaults st m -> forallb dop_allowed ds = true -> flight_provable rej ds = true ->
      flagged (mon_step opts defaults m (OpSaveDuring rej ds)) = false ->
      m_step names st (OpSaveDuring rej ds) = Some (st', ob) ->
      step_ok opts defaults st m (OpSaveDuring rej ds) st' ob.
    Proof.
      intros R Hal Hprov Hfl H. cbn [m_step m_step_gen] in H. unfold m_flight in H.
      destruct (m_send st) as [[st0 c0]|] eqn:E0; [|discriminate].
      match type of H with match m_inner names st0 ?o0 ds with _ => _ end = _ => set (out0 := o0) in * end.
      destruct (m_inner names st0 out0 ds) as [[[[st1 rs] cs] out]|] eqn:E1; [|discriminate].
      destruct (flight_prefix rej st m ds st0 c0 out0 st1 rs cs out R Hal Hfl E0 E1) as [R0 [HL [HN [I1 [RE [Hlines [Houts HflE]]]]]]].
      set (mq0 := mon_send rej (m, [])) in *.
      set (mqE := fold_left (mon_dop opts defaults rej) ds mq0) in *.
      set (mF := mon_step opts defaults m (OpSaveDuring rej ds)) in *.
      destruct (mon_send_st rej (m, [])) as [S1 S2]. fold mq0 in S1, S2. cbn [fst snd] in S1, S2.
      destruct (mon_fold_st opts defaults rej ds mq0) as [F1 F2]. fold mqE in F1, F2. rewrite S1, S2 in F1, F2.
      fold (flight_run opts defaults (m_st m) ds) in F1, F2.
      rewrite S2 in I1, Houts. rewrite F2 in Hlines.
      assert (m_st mF = flight_next opts defaults (m_st m) rej ds) as HstF by apply mon_step_st.
      (* the state after the answers, related to the monitor after the whole operation *)
      assert (Rel opts defaults (match rej with None => fold_left m_ack out st1 | Some _ => st1 end) mF) as RF.
      { destruct rej as [c|].
        - (* rejected: nothing changes *)
          change (Rel opts defaults st1 mF).
          apply (Rel_msame _ _ _ _ _ RE). unfold mF. cbn [mon_step mon_step_gen]. unfold mon_flight. fold mq0. fold mqE.
          cbn [accepted andb]. unfold msame. cbn [m_st m_det m_f1 m_f3]. rewrite answers_reject. repeat split.
        - (* acknowledged: reads, needs_save(), assignments and in-place edits happened in between *)
          cbn [flight_provable] in Hprov.
          unfold mF. cbn [mon_step mon_step_gen]. unfold mon_flight. fold mq0. fold mqE. cbn [accepted andb].
          destruct (s_pend (m_st m)) as [|p0 pe] eqn:Ep.
          + (* nothing was pending: no SETCONF, no answer *)
            destruct (HN eq_refl) as [-> ->]. unfold out0 in *.
            destruct (inner_nosave ds st st1 rs cs out Hprov E1) as [-> ->]. cbn [fold_left].
            assert (snd mqE = []) as Eq0 by (rewrite F2; apply lines_ok_nil; exact Hlines).
            rewrite Eq0. cbn [is_nil negb fold_left]. apply (Rel_msame _ _ _ _ _ RE).
            unfold msame. cbn [m_st m_det m_f1 m_f3]. repeat split.
          + destruct (HL ltac:(discriminate)) as [Hland [line Ec0]]. subst c0. unfold out0 in *.
            assert (snd mq0 = [p0 :: pe]) as Eq0 by (rewrite S2; unfold flight_send; now rewrite Ep).
            assert (mq0 = (fst mq0, [p0 :: pe])) as Emq0 by (rewrite <- Eq0; apply surjective_pairing).
            assert (m_det (fst mq0) = scalar_keys (p0 :: pe)) as Hdet0 by (unfold mq0, mon_send; cbn [fst]; now rewrite Ep).
            pose proof (pend_nodup opts defaults _ _ R) as HndS. rewrite Ep in HndS.
            pose proof (FI_init st0 (fst mq0) (p0 :: pe) HndS (eq_trans (f_equal s_pend S1) Ep) Hdet0 Hland) as HFI0.
            unfold mqE in *. rewrite Emq0 in *.
            destruct (inner_simple (p0 :: pe) (sent_of st0) ds st0 (fst mq0) [] st1 rs cs out R0 HFI0 Hprov Hal HflE E1)
              as [T' [-> [-> [HFI1 [Hq Hras]]]]].
            rewrite Hq. cbn [is_nil negb fold_left].
            destruct (not_flagged _ HflE) as [G1 [G3 _]]. rewrite G1, G3.
            assert (has_empty_list (p0 :: pe) = false /\ has_odd_list (p0 :: pe) = false) as [He Ho].
            { destruct (not_flagged _ (fle_flagged_false _ _ (mon_fold_fle opts defaults None ds (fst mq0, [p0 :: pe])) HflE)) as [K1 [_ [_ K4]]].
              unfold mq0, mon_send in K1, K4. cbn [fst] in K1, K4. rewrite Ep in K1, K4. cbn [fst m_f1 m_f4 accepted andb] in K1, K4.
              apply orb_false_iff in K1 as [_ K1]. apply orb_false_iff in K4 as [_ K4]. auto. }
            (* the envelope: no option assigned again that ends up with the acknowledged value *)
            assert (existsb (fun cn => match dget cn (p0 :: pe), dget cn (s_pend (m_st (fst (fold_left (mon_dop opts defaults None) ds (fst mq0, [p0 :: pe]))))) with
                                       | Some a, Some b => ival_eqb a b | _, _ => false end) T' = false) as Hamb.
            { destruct (not_flagged _ Hfl) as [_ [_ [Fs _]]]. unfold mF in Fs. cbn [mon_step mon_step_gen] in Fs.
              unfold mon_flight in Fs. cbn [m_fs accepted andb] in Fs. apply orb_false_iff in Fs as [_ Fs].
              unfold flight_ambiguous in Fs. rewrite <- F1, <- F2 in Fs. rewrite Hq in Fs.
              unfold flight_send in Fs. rewrite Ep in Fs. cbn [app map] in Fs.
              cbn [fst] in S1. rewrite S1 in Hras. rewrite Hras in Fs. cbn [ambiguous_acks] in Fs. now apply orb_false_iff in Fs as [Fs _]. }
            set (mE1 := fst (fold_left (mon_dop opts defaults None) ds (fst mq0, [p0 :: pe]))) in *.
            pose proof (ack_rel st0 st1 mE1 (p0 :: pe) T'
                          (eq_ind _ (fun l => nodup_ci (map fst l) = true) (pend_nodup_ci opts defaults opts_nodup _ _ R) _ Ep)
                          (eq_ind _ (fun l => canonical_keys opts (pend_entries l)) (canonical_pend_entries opts defaults _ _ R) _ Ep)
                          He Ho) as Hack.
            eapply Rel_flags_irrel. apply Hack; try assumption.
            * rewrite (r_ukeys _ _ _ _ R0), S1, Ep. reflexivity.
            * intros k iv0 Hk. apply (pend_keys_opts opts defaults st m k R). rewrite Ep.
              apply dget_In in Hk. now apply (in_map fst) in Hk. }
      match type of H with match m_snapshot ?s _ with _ => _ end = _ => set (st2 := s) in * end.
      destruct (snapshot_sim opts defaults opts_nodup st2 mF opts RF (fun c k0 Hc => Hc)) as [snap [Hs Hok]].
      rewrite <- names_eq in Hs. rewrite Hs in H. inversion H. subst st' ob. clear H.
      split; [|exact RF].
      apply (flight_check_intro m rej ds rs (c0 :: cs) _ snap mF HstF I1 Hlines Houts); [|exact Hok].
      exact (ns_agree _ _ RF).
    Qed.
  End Flight.

  (* which OpSaveDuring are covered by the proof: every rejected one; an acknowledged one whose
     intermediate operations are reads, needs_save(), assignments and in-place edits (no second
     save(), no event) *)
  Definition op_provable (o : op) : bool :=
    match o with OpSaveDuring rej ds => flight_provable rej ds | _ => true end.

  (* the operations of an OpSaveDuring are in the envelope like the ordinary operations they are *)
  Lemma flight_allowed (allowed : op -> bool) rej ds :
    op_ok opts (OpSaveDuring rej ds) = true ->
    forallb (fun d => match op_of_dop d with Some o => allowed o | None => true end) ds = true ->
    forallb (dop_allowed allowed) ds = true.
  Proof.
    intros Hok Hal. cbn [op_ok op_ok_gen] in Hok. apply andb_true_iff in Hok as [_ Hok].
    apply forallb_forall. intros d Hd. unfold dop_allowed.
    pose proof (proj1 (forallb_forall _ _) Hok d Hd) as X. pose proof (proj1 (forallb_forall _ _) Hal d Hd) as Y.
    cbv beta in X, Y. destruct (op_of_dop d); [now rewrite X, Y|reflexivity].
  Qed.

  Lemma c10_flight_allowed rej ds : c10_op (OpSaveDuring rej ds) = true ->
    forallb (fun d => match op_of_dop d with Some o => c10_op o | None => true end) ds = true.
  Proof.
    cbn [c10_op]. intros H. apply forallb_forall. intros d Hd.
    pose proof (proj1 (forallb_forall _ _) H d Hd) as X. destruct d; try reflexivity. discriminate X.
  Qed.

  Lemma sim_step st m o st' ob :
    Rel opts defaults st m -> op_ok opts o = true -> c10_op o = true -> op_provable o = true ->
    flagged (mon_step opts defaults m o) = false ->
    m_step names st o = Some (st', ob) ->
    step_ok opts defaults st m o st' ob.
  Proof.
    intros R Hok Hc Hpr Hfl H. destruct (plain o) eqn:Hpl; [now apply sim_step_base|].
    destruct o; try discriminate Hpl. cbn [op_provable] in Hpr.
    apply (sim_flight c10_op (fun s m0 o0 s' ob0 R0 Hok0 Hc0 Hpl0 Hfl0 H0 => sim_step_base s m0 o0 s' ob0 R0 Hok0 Hc0 Hpl0 Hfl0 H0));
      try assumption.
    apply (flight_allowed c10_op reject during Hok). now apply (c10_flight_allowed reject).
  Qed.

  Theorem sim_run : forall ops st m tr,
    Rel opts defaults st m ->
    forallb (op_ok opts) ops = true -> forallb c10_op ops = true -> forallb op_provable ops = true ->
    flagged (mon_run opts defaults m ops) = false ->
    m_run names st ops = Some tr ->
    spec_run opts defaults (m_st m) ops tr = true.
  Proof.
    induction ops as [|o ops IH]; intros st m tr R Hok Hc Hpr Hfl H; cbn [m_run] in H.
    - inversion H. reflexivity.
    - destruct (m_step names st o) as [[st1 ob]|] eqn:E; [|discriminate].
      destruct (m_run names st1 ops) as [tr'|] eqn:E2; [|discriminate]. inversion H. subst tr.
      cbn [forallb] in Hok, Hc, Hpr. apply andb_true_iff in Hok as [Hok1 Hok2]. apply andb_true_iff in Hc as [Hc1 Hc2].
      apply andb_true_iff in Hpr as [Hpr1 Hpr2].
      unfold mon_run in Hfl. cbn [fold_left] in Hfl. fold (mon_run opts defaults (mon_step opts defaults m o) ops) in Hfl.
      assert (flagged (mon_step opts defaults m o) = false) as Hfl1.
      { destruct (flagged (mon_step opts defaults m o)) eqn:Ef; [|reflexivity].
        rewrite (mon_run_flag_mono _ _ _ _ Ef) in Hfl. discriminate. }
      destruct (sim_step _ _ _ _ _ R Hok1 Hc1 Hpr1 Hfl1 E) as [Hchk R1].
      cbn [spec_run]. rewrite Hchk. cbn [andb]. rewrite <- mon_step_st. eapply IH; eassumption.
  Qed.
End SimRun.

(* ================================================================== in terms of a case input *)
Lemma name_char_key_ok c : name_char c = true ->
  is_space c || existsb (fun b => code c =? b) setconf_key_refused = false.
Proof.
  destruct c as [b0 b1 b2 b3 b4 b5 b6 b7].
  destruct b0, b1, b2, b3, b4, b5, b6, b7; vm_compute; intros H; try reflexivity; discriminate H.
Qed.

Lemma name_ok_key n : name_ok n = true -> key_refused n = false.
Proof.
  unfold name_ok. intros H. apply andb_true_iff in H as [H _]. apply andb_true_iff in H as [Hne Hc].
  destruct n as [|c0 n0]; [discriminate|]. cbn [key_refused].
  destruct (existsb (fun c => is_space c || existsb (fun b => code c =? b) setconf_key_refused) (c0 :: n0)) eqn:E; [|reflexivity].
  apply existsb_exists in E as [c [Hin Hb]].
  rewrite (name_char_key_ok c) in Hb; [discriminate|]. exact (proj1 (forallb_forall _ _) Hc c Hin).
Qed.

Lemma hs_reserved : ci_eqb (bs "HiddenServices") hiddenservices_lc = true.
Proof. vm_compute. reflexivity. Qed.

Section Input.
  Variable i : cfg_input.
  Hypothesis Hscope : table_ok (i_table i) = true.

  Let opts := options (i_table i).

  Lemma in_opts_nodup : nodup_ci (map fst opts) = true.
  Proof.
    unfold table_ok in Hscope. apply andb_true_iff in Hscope as [H _]. apply andb_true_iff in H as [_ H]. exact H.
  Qed.

  Lemma in_opts_facts cn k : In (cn, k) opts -> mem_ci cn reserved_names = false /\ name_ok cn = true.
  Proof.
    intros Hin. unfold table_ok in Hscope. apply andb_true_iff in Hscope as [_ H].
    pose proof (proj1 (forallb_forall _ _) H (cn, k) Hin) as Hc. cbn [fst] in Hc.
    apply andb_true_iff in Hc as [H1 H2]. apply negb_true_iff in H1. auto.
  Qed.

  Lemma in_opts_not_hs cn k : In (cn, k) opts -> ci_eqb cn hiddenservices_lc = false.
  Proof.
    intros Hin. destruct (in_opts_facts _ _ Hin) as [Hr _].
    destruct (ci_eqb cn hiddenservices_lc) eqn:E; [|reflexivity]. exfalso.
    assert (mem_ci cn reserved_names = true) as X; [|congruence].
    apply mem_ci_ex. exists (bs "HiddenServices"). split; [cbn; auto|].
    eapply ci_trans; [exact hs_reserved|]. now rewrite ci_sym.
  Qed.

  Lemma in_opts_keys_ok cn k : In (cn, k) opts -> key_refused cn = false.
  Proof. intros Hin. apply name_ok_key. exact (proj2 (in_opts_facts _ _ Hin)). Qed.
End Input.

Definition mon0 (i : cfg_input) : mon :=
  {| m_st := eff_ost i; m_det := []; m_f1 := false; m_f3 := false; m_fs := false; m_f4 := false |}.

Lemma c10_known_flagged i : flagged (mon_of i) = c10_known i || copy_of_pending i.
Proof. reflexivity. Qed.

(* THE theorem: the model satisfies the Spec oracle on every C10 history outside the finding
   classes, started from a state synchronised with Tor's store *)
(* hypothesis of the proved theorems about OpSaveDuring: an ACKNOWLEDGED one contains no second save()
   and no event (those are decided by the oracle on the correspondence run only); reads, needs_save(),
   assignments and in-place edits in between are covered, and rejected ones are unrestricted *)
Definition flights_provable (i : cfg_input) : bool := forallb op_provable (i_ops i).

Theorem oracle_from_synced i st tr :
  c10_scope i = true -> c10_known i = false -> flights_provable i = true ->
  Rel (options (i_table i)) (i_defaults i) st (mon0 i) ->
  m_run (option_names i) st (i_ops i) = Some tr ->
  Spec.C10.oracle i tr = true.
Proof.
  intros Hs Hk Hpr R H. unfold c10_scope in Hs. apply andb_true_iff in Hs as [Hs Hcp]. apply negb_true_iff in Hcp.
  apply andb_true_iff in Hs as [Hin Hc10].
  unfold in_scope in Hin. apply andb_true_iff in Hin as [Hin Hops]. apply andb_true_iff in Hin as [Hin _].
  apply andb_true_iff in Hin as [Hin _]. apply andb_true_iff in Hin as [Htab _].
  unfold Spec.C10.oracle, cfg_oracle, worlds. cbn [existsb]. rewrite orb_false_r. apply orb_true_iff. right.
  unfold cfg_oracle_from.
  apply (sim_run (options (i_table i)) (i_defaults i) (in_opts_nodup i Htab) (in_opts_not_hs i Htab) (in_opts_keys_ok i Htab)
                 (option_names i) eq_refl (i_ops i) st (mon0 i) tr R Hops Hc10 Hpr); [|exact H].
  change (flagged (mon_of i) = false). rewrite c10_known_flagged, Hk, Hcp. reflexivity.
Qed.
