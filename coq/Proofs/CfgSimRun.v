(* Simulation, part 3: whole histories.  From a model state that is synchronised with Tor's
   store (the relation Rel of CfgSim.v), every history of assignments, in-place operations, saves
   (accepted or rejected), reads and needs_save() that stays outside the finding classes of
   Spec/C10.v is accepted by the Spec oracle. *)
From Coq Require Import String.
From Coq Require Import List Bool Ascii Arith NArith ZArith Lia.
From TxVerif Require Import Lib.Bytes Lib.CfgLib Spec.CfgTypes Spec.TorStore Spec.CfgOracle Spec.C10
  Model.ConfigKinds Gen.ConfigTypes Model.Config
  Proofs.CfgLibProofs Proofs.CfgWire Proofs.C10Proofs Proofs.CfgAgree Proofs.CfgSpecLemmas Proofs.CfgSim Proofs.CfgSimSave.
Import ListNotations.
Open Scope N_scope.

(* ---- the monitor: its state is the reference state; its flags never go back to false ---- *)
Lemma mon_step_st opts defaults m o : m_st (mon_step opts defaults m o) = spec_next opts defaults (m_st m) o.
Proof.
  destruct o; cbn [mon_step spec_next]; try reflexivity.
  - destruct (dfind_ci name opts) as [[cn k]|]; [|reflexivity]. destruct (spec_validate k v); reflexivity.
  - destruct (dfind_ci name opts) as [[cn k]|]; reflexivity.
  - destruct (s_pend (m_st m)) eqn:E; [|reflexivity].
    destruct reject; [reflexivity|]. destruct (m_st m) as [sto pe]. cbn in *. subst pe. reflexivity.
  - destruct (dfind_ci dst opts) as [[cd kd]|]; [|reflexivity]. destruct (dfind_ci src opts) as [[cs ks]|]; reflexivity.
Qed.

(* the two open finding classes and the envelope flag (a copy of an option with a pending change) *)
Definition flagged (m : mon) : bool := m_f1 m || m_f3 m || m_f4 m || m_fs m.

Lemma mon_step_flag_mono opts defaults m o : flagged m = true -> flagged (mon_step opts defaults m o) = true.
Proof.
  unfold flagged. intros H.
  destruct o; cbn [mon_step]; try assumption.
  - destruct (dfind_ci name opts) as [[cn k]|]; [|assumption]. destruct (spec_validate k v); exact H.
  - destruct (dfind_ci name opts) as [[cn k]|]; [|assumption]. cbn [m_f1 m_f3 m_fs m_f4].
    destruct (m_f1 m), (m_f3 m), (m_f4 m), (m_fs m); cbn in *; try discriminate; try reflexivity; now rewrite ?orb_true_r.
  - destruct (s_pend (m_st m)); [assumption|]. cbn [m_f1 m_f3 m_fs m_f4].
    destruct (m_f1 m), (m_f3 m), (m_f4 m), (m_fs m); cbn in *; try discriminate; try reflexivity; now rewrite ?orb_true_r.
  - destruct (dfind_ci dst opts) as [[cd kd]|]; [|assumption]. destruct (dfind_ci src opts) as [[cs ks]|]; [|assumption].
    cbn [m_f1 m_f3 m_fs m_f4].
    destruct (m_f1 m), (m_f3 m), (m_f4 m), (m_fs m); cbn in *; try discriminate; try reflexivity; now rewrite ?orb_true_r.
Qed.

Lemma mon_run_flag_mono opts defaults ops : forall m, flagged m = true -> flagged (mon_run opts defaults m ops) = true.
Proof.
  induction ops as [|o ops IH]; intros m H; [assumption|]. unfold mon_run. cbn [fold_left].
  apply IH. now apply mon_step_flag_mono.
Qed.

Lemma not_flagged m : flagged m = false -> m_f1 m = false /\ m_f3 m = false /\ m_fs m = false /\ m_f4 m = false.
Proof.
  unfold flagged. intros H. apply orb_false_iff in H as [H Hs]. apply orb_false_iff in H as [H H4].
  apply orb_false_iff in H as [H1 H3]. auto.
Qed.

Section SimRun.
  Variable opts : list (bytes * kind).
  Variable defaults : option (list (bytes * bytes)).
  Hypothesis opts_nodup : nodup_ci (map fst opts) = true.
  Hypothesis opts_not_hs : forall cn k, In (cn, k) opts -> ci_eqb cn hiddenservices_lc = false.
  Hypothesis opts_keys_ok : forall cn k, In (cn, k) opts -> key_refused cn = false.
  Variable names : list bytes.
  Hypothesis names_eq : names = map fst opts.

  Lemma sim_step st m o st' ob :
    Rel opts defaults st m -> op_ok opts o = true -> c10_op o = true ->
    flagged (mon_step opts defaults m o) = false ->
    m_step names st o = Some (st', ob) ->
    step_ok opts defaults st m o st' ob.
  Proof.
    intros R Hok Hc Hfl H. destruct (not_flagged _ Hfl) as [F1 [F3 [Fs F4]]].
    destruct o; try discriminate Hc.
    - eapply sim_assign; eassumption.
    - eapply sim_listop; eassumption.
    - eapply sim_save; eassumption.
    - eapply sim_read; eassumption.
    - eapply sim_needs_save; eassumption.
    - eapply sim_copy; eassumption.
  Qed.

  Theorem sim_run : forall ops st m tr,
    Rel opts defaults st m ->
    forallb (op_ok opts) ops = true -> forallb c10_op ops = true ->
    flagged (mon_run opts defaults m ops) = false ->
    m_run names st ops = Some tr ->
    spec_run opts defaults (m_st m) ops tr = true.
  Proof.
    induction ops as [|o ops IH]; intros st m tr R Hok Hc Hfl H; cbn [m_run] in H.
    - inversion H. reflexivity.
    - destruct (m_step names st o) as [[st1 ob]|] eqn:E; [|discriminate].
      destruct (m_run names st1 ops) as [tr'|] eqn:E2; [|discriminate]. inversion H. subst tr.
      cbn [forallb] in Hok, Hc. apply andb_true_iff in Hok as [Hok1 Hok2]. apply andb_true_iff in Hc as [Hc1 Hc2].
      unfold mon_run in Hfl. cbn [fold_left] in Hfl. fold (mon_run opts defaults (mon_step opts defaults m o) ops) in Hfl.
      assert (flagged (mon_step opts defaults m o) = false) as Hfl1.
      { destruct (flagged (mon_step opts defaults m o)) eqn:Ef; [|reflexivity].
        rewrite (mon_run_flag_mono _ _ _ _ Ef) in Hfl. discriminate. }
      destruct (sim_step _ _ _ _ _ R Hok1 Hc1 Hfl1 E) as [Hchk R1].
      cbn [spec_run]. rewrite Hchk. cbn [andb]. rewrite <- mon_step_st. eapply IH; eassumption.
  Qed.
End SimRun.

(* ================================================================== in terms of a case input *)
Lemma name_char_key_ok c : name_char c = true ->
  is_space c || existsb (fun b => code c =? b) setconf_key_refused = false.
Proof.
  destruct c as [b0 b1 b2 b3 b4 b5 b6 b7].
  destruct b0, b1, b2, b3, b4, b5, b6, b7; vm_compute; intros H; try reflexivity; discriminate H.
Qed.

Lemma name_ok_key n : name_ok n = true -> key_refused n = false.
Proof.
  unfold name_ok. intros H. apply andb_true_iff in H as [H _]. apply andb_true_iff in H as [Hne Hc].
  destruct n as [|c0 n0]; [discriminate|]. cbn [key_refused].
  destruct (existsb (fun c => is_space c || existsb (fun b => code c =? b) setconf_key_refused) (c0 :: n0)) eqn:E; [|reflexivity].
  apply existsb_exists in E as [c [Hin Hb]].
  rewrite (name_char_key_ok c) in Hb; [discriminate|]. exact (proj1 (forallb_forall _ _) Hc c Hin).
Qed.

Lemma hs_reserved : ci_eqb (bs "HiddenServices") hiddenservices_lc = true.
Proof. vm_compute. reflexivity. Qed.

Section Input.
  Variable i : cfg_input.
  Hypothesis Hscope : table_ok (i_table i) = true.

  Let opts := options (i_table i).

  Lemma in_opts_nodup : nodup_ci (map fst opts) = true.
  Proof.
    unfold table_ok in Hscope. apply andb_true_iff in Hscope as [H _]. apply andb_true_iff in H as [_ H]. exact H.
  Qed.

  Lemma in_opts_facts cn k : In (cn, k) opts -> mem_ci cn reserved_names = false /\ name_ok cn = true.
  Proof.
    intros Hin. unfold table_ok in Hscope. apply andb_true_iff in Hscope as [_ H].
    pose proof (proj1 (forallb_forall _ _) H (cn, k) Hin) as Hc. cbn [fst] in Hc.
    apply andb_true_iff in Hc as [H1 H2]. apply negb_true_iff in H1. auto.
  Qed.

  Lemma in_opts_not_hs cn k : In (cn, k) opts -> ci_eqb cn hiddenservices_lc = false.
  Proof.
    intros Hin. destruct (in_opts_facts _ _ Hin) as [Hr _].
    destruct (ci_eqb cn hiddenservices_lc) eqn:E; [|reflexivity]. exfalso.
    assert (mem_ci cn reserved_names = true) as X; [|congruence].
    apply mem_ci_ex. exists (bs "HiddenServices"). split; [cbn; auto|].
    eapply ci_trans; [exact hs_reserved|]. now rewrite ci_sym.
  Qed.

  Lemma in_opts_keys_ok cn k : In (cn, k) opts -> key_refused cn = false.
  Proof. intros Hin. apply name_ok_key. exact (proj2 (in_opts_facts _ _ Hin)). Qed.
End Input.

Definition mon0 (i : cfg_input) : mon :=
  {| m_st := eff_ost i; m_det := []; m_f1 := false; m_f3 := false; m_fs := false; m_f4 := false |}.

Lemma c10_known_flagged i : flagged (mon_of i) = c10_known i || copy_of_pending i.
Proof. reflexivity. Qed.

(* THE theorem: the model satisfies the Spec oracle on every C10 history outside the finding
   classes, started from a state synchronised with Tor's store *)
Theorem oracle_from_synced i st tr :
  c10_scope i = true -> c10_known i = false ->
  Rel (options (i_table i)) (i_defaults i) st (mon0 i) ->
  m_run (option_names i) st (i_ops i) = Some tr ->
  Spec.C10.oracle i tr = true.
Proof.
  intros Hs Hk R H. unfold c10_scope in Hs. apply andb_true_iff in Hs as [Hs Hcp]. apply negb_true_iff in Hcp.
  apply andb_true_iff in Hs as [Hin Hc10].
  unfold in_scope in Hin. apply andb_true_iff in Hin as [Hin Hops]. apply andb_true_iff in Hin as [Hin _].
  apply andb_true_iff in Hin as [Hin _]. apply andb_true_iff in Hin as [Htab _].
  unfold Spec.C10.oracle, cfg_oracle, worlds. cbn [existsb]. rewrite orb_false_r. apply orb_true_iff. right.
  unfold cfg_oracle_from.
  apply (sim_run (options (i_table i)) (i_defaults i) (in_opts_nodup i Htab) (in_opts_not_hs i Htab) (in_opts_keys_ok i Htab)
                 (option_names i) eq_refl (i_ops i) st (mon0 i) tr R Hops Hc10); [|exact H].
  change (flagged (mon_of i) = false). rewrite c10_known_flagged, Hk, Hcp. reflexivity.
Qed.
