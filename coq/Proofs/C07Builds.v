(* C07 with build_circuit() calls and Tor's answers among the events *)
From Coq Require Import List Bool Arith NArith Lia.
From TxVerif Require Import Lib.Bytes Lib.NList Spec.C07 Model.State Proofs.NListProofs Proofs.C07Proofs Proofs.StateShape.
Import ListNotations.
Open Scope N_scope.

Lemma listing_observe s : WF s -> listing (observe s) = circuits s.
Proof.
  intros W. unfold listing, observe. cbn [o_circs]. rewrite (live_circs_map s W), !map_map.
  rewrite <- (map_id (circuits s)) at 2. apply map_ext_in. intros p Hp.
  destruct (cellc_facts s p W Hp) as [_ [I [O _]]]. cbn [obs_circ co_id co_oid]. rewrite I, O. now destruct p.
Qed.

Lemma find_listed s id p : WF s -> kfind fst id (circuits s) = Some p ->
  exists c, kfind co_id id (o_circs (observe s)) = Some c /\ co_oid c = snd p.
Proof.
  intros W F. unfold observe. cbn [o_circs]. rewrite (live_circs_map s W), map_map.
  rewrite (kfind_map_in fst co_id (fun x => obs_circ (cellc s x))).
  - rewrite F. cbn [option_map]. eexists. split; [reflexivity|]. cbn [obs_circ co_oid].
    destruct (kfind_Some fst _ _ _ F) as [_ Hp]. now destruct (cellc_facts s p W Hp) as [_ [_ [O _]]].
  - intros q Hq. cbn [obs_circ co_id]. now destruct (cellc_facts s q W Hq) as [_ [I _]].
Qed.

Lemma step2_ok s b st : WF s -> Complete s -> stim_legal (abs s) b st = true ->
  exists s', step2 s st = Some s' /\ WF s' /\ Complete s' /\ abs s' = stim_view (abs s) st.
Proof.
  intros W C L. destruct st as [e|rs|id|]; cbn [step2 stim_view stim_legal] in *.
  - now apply step_ok.
  - exists s. auto.
  - apply andb_true_iff in L as [L _]. apply andb_true_iff in L as [_ L]. now apply step_ok.
  - exists s. auto.
Qed.

Lemma extra2_ok s s' b st : WF s -> WF s' -> step2 s st = Some s' -> stim_legal (abs s) b st = true ->
  extra_ok (circuits s) b st (observe s') (extra2 s' b st) = true.
Proof.
  intros W W' E L. destruct st as [e|rs|id|]; cbn [extra_ok extra2]; unfold extra_eqb; try apply pairs_eqb_refl.
  cbn [step2 step ext_event] in E.
  destruct (circ_event_shape s id CExtended [] [] s' W E) as [_ [_ [Sh3 _]]]. cbn [c_terminal] in Sh3.
  assert (F : exists p, kfind fst id (circuits s') = Some p /\
                        match kfind fst id (circuits s) with Some q => snd q =? snd p = true | None => True end).
  { rewrite Sh3. destruct (kfind fst id (circuits s)) as [q|] eqn:Fq.
    - exists q. split; [exact Fq | apply N.eqb_refl].
    - eexists. split; [|exact I]. rewrite kfind_app_last by (now apply kfind_None). cbn [fst]. now rewrite N.eqb_refl. }
  destruct F as [p [Fp Same]]. rewrite Fp. destruct (find_listed s' id p W' Fp) as [c [Fc Oc]]. rewrite Fc, Oc.
  rewrite pairs_eqb_refl. cbn [andb]. destruct (kfind fst id (circuits s)); [exact Same | reflexivity].
Qed.

Lemma run2_from_ok l : forall s b, WF s -> Complete s -> legal2_from (abs s) b l = true ->
  exists tr, run2_from s b l = Some tr /\ oracle2_from (abs s) b (circuits s) l tr = true.
Proof.
  induction l as [|st t IH]; intros s b W C L; cbn [run2_from].
  - exists []. auto.
  - cbn [legal2_from] in L. apply andb_true_iff in L as [L1 L2].
    destruct (step2_ok s b st W C L1) as [s1 [E [W1 [C1 A1]]]]. rewrite E.
    rewrite <- A1 in L2. destruct (IH s1 (stim_b b st) W1 C1 L2) as [tr [R O]]. rewrite R.
    exists ((observe s1, extra2 s1 b st) :: tr). split; [reflexivity|]. cbn [oracle2_from]. rewrite <- A1.
    rewrite (observe_ok s1 W1 C1), (extra2_ok s s1 b st W W1 E L1), (listing_observe s1 W1). exact O.
Qed.

(* C07 with the new stimuli: on every history Tor and the application can produce -- any snapshot, any events,
   build_circuit() calls at any position, the answer to the oldest one (250 EXTENDED id or an error) at any later
   position, before or after the first CIRC event of that id -- nothing raises, every observation satisfies the
   oracle, each build_circuit() completes with the Circuit object listed under the id Tor named, and that is
   the object that was listed before the answer if the circuit had been announced already *)
Theorem run2_satisfies_oracle2 rts snap l : legal2 snap l = true ->
  exists tr, run2 rts snap l = Some tr /\ oracle2 snap l tr = true.
Proof.
  unfold legal2. intros L. apply andb_true_iff in L as [L L2]. apply andb_true_iff in L as [_ L1].
  unfold run2, oracle2, tor_view in *.
  destruct (steps_ok snap (init rts) (WF_init rts) (Complete_init rts) L1) as [s [E [W [C A]]]].
  rewrite E. rewrite abs_init in A. rewrite <- A in L2 |- *.
  destruct (run2_from_ok l s b0 W C L2) as [tr [R O]]. rewrite R.
  exists ((observe s, []) :: tr). split; [reflexivity|].
  rewrite (observe_ok s W C), (listing_observe s W). cbn [extra_eqb list_eqb andb]. exact O.
Qed.

(* without the new stimuli this is the old statement *)
Lemma legal2_of_legal snap evs : legal snap evs = true -> legal2 snap (map SEv evs) = true.
Proof.
  unfold legal, legal2. intros L. apply andb_true_iff in L as [L0 L]. rewrite legal_from_app in L.
  apply andb_true_iff in L as [L1 L2]. rewrite L0, L1. cbn [andb]. unfold tor_view.
  revert L2. generalize (fold_left tor_step snap tv0) as tv. generalize b0 as b.
  induction evs as [|e t IH]; intros b tv L; cbn [map legal2_from legal_from] in *; [reflexivity|].
  apply andb_true_iff in L as [A B]. cbn [stim_legal stim_view stim_b]. rewrite A. now apply IH.
Qed.
