(* C19: the model of TorProcessProtocol/launch satisfies the oracle of Spec/C19.v on every
   physically possible history (wf), for every configuration.
   Part A: lists / constants.  Part B: the relation between model and spec states and its
   preservation by every operation, together with the verdict on the operation's chunk.
   Part C: whole histories, "no waiter fires twice", and the readable consequences. *)
From Coq Require Import List Bool Ascii Arith NArith Lia.
From TxVerif Require Import Lib.Bytes Spec.C19 Model.Launch Proofs.C19Sound.
Import ListNotations.
Open Scope N_scope.

(* ------------------------------------------------------------------------------------------ *)
(* Part A *)

Lemma memN_In k l : memN k l = true <-> In k l.
Proof.
  unfold memN. rewrite existsb_exists. split.
  - intros (x & H & E). apply N.eqb_eq in E. subst. exact H.
  - intros H. exists k. split; [exact H|apply N.eqb_refl].
Qed.

Lemma nodupN_NoDup l : NoDup l -> nodupN l = true.
Proof.
  induction 1 as [|x l Hx ND IH]; [reflexivity|]. cbn [nodupN]. rewrite IH, andb_true_r.
  apply negb_true_iff. destruct (memN x l) eqn:E; [|reflexivity]. apply memN_In in E. contradiction.
Qed.

Lemma nth_error_set_nth_same {A} n (x : A) l y : nth_error l n = Some y -> nth_error (set_nth n x l) n = Some x.
Proof. revert l. induction n as [|n IH]; intros [|z l] H; cbn in *; try discriminate; auto. Qed.

Lemma Forall2_nth {A B} (P : A -> B -> Prop) la lb n :
  Forall2 P la lb ->
  match nth_error la n, nth_error lb n with
  | Some a, Some b => P a b
  | None, None => True
  | _, _ => False
  end.
Proof.
  intros F. revert n. induction F as [|a b la lb Hab F IH]; intros [|n]; cbn; auto. apply IH.
Qed.

Lemma Forall2_set_nth {A B} (P : A -> B -> Prop) la lb n a b :
  Forall2 P la lb -> P a b -> Forall2 P (set_nth n a la) (set_nth n b lb).
Proof.
  intros F Hab. revert n. induction F as [|a' b' la lb H F IH]; intros [|n]; cbn; constructor; auto.
Qed.

Lemma Forall2_snoc {A B} (P : A -> B -> Prop) la lb a b :
  Forall2 P la lb -> P a b -> Forall2 P (la ++ [a]) (lb ++ [b]).
Proof. intros F H. apply Forall2_app; [exact F|constructor; [exact H|constructor]]. Qed.

Lemma C_setevents : prefixb w_SETEVENTS w_SETEVENTS_SC = true. Proof. vm_compute. reflexivity. Qed.
Lemma C_se_own : beqb w_SETEVENTS_SC w_TAKEOWNERSHIP = false. Proof. vm_compute. reflexivity. Qed.
Lemma C_own_se : prefixb w_SETEVENTS w_TAKEOWNERSHIP = false. Proof. vm_compute. reflexivity. Qed.
Lemma C_own_own : beqb w_TAKEOWNERSHIP w_TAKEOWNERSHIP = true. Proof. vm_compute. reflexivity. Qed.
Lemma C_reset_se : prefixb w_SETEVENTS w_RESETCONF = false. Proof. vm_compute. reflexivity. Qed.
Lemma C_reset_own : beqb w_RESETCONF w_TAKEOWNERSHIP = false. Proof. vm_compute. reflexivity. Qed.
Lemma C_term : beqb w_TERM w_TERM = true. Proof. vm_compute. reflexivity. Qed.
Global Opaque w_SETEVENTS_SC w_TAKEOWNERSHIP w_RESETCONF w_SETEVENTS w_TERM LISTENER.

(* ------------------------------------------------------------------------------------------ *)
(* Part B *)

Definition is_ok (r : res) : bool := match r with ROk => true | RFail _ => false end.

Definition crel (k : conn) (q : sconn) : Prop :=
  k_evon k = q_evon q /\
  (q_evon q = true -> q_auth q = true /\ q_own q = true /\ k_lreg k = true) /\
  match k_stage k with
  | SBoot => q_fifo q = [] /\ q_evon q = false
  | SEv => q_fifo q = [w_SETEVENTS_SC] /\ q_auth q = true /\ k_lreg k = true /\ q_evon q = false
  | SOwn => q_fifo q = [w_TAKEOWNERSHIP] /\ q_evon q = true
  | SReset => q_fifo q = [w_RESETCONF] /\ q_evon q = true
  | SIdle => q_fifo q = []
  end.

Record Rel (cf : cfg) (m : mst) (s : sst) : Prop := {
  L_conns : Forall2 crel (conns m) (s_conns s);
  L_npend : npend m = s_npend s;
  L_dec : s_decided s = option_map is_ok (notified m);
  L_wait : s_waiting s = waiters m;
  L_exited : exited m = s_exited s;
  L_gone : gone m = s_gone s && negb (c_userdir cf);
  L_timer : match timer m with
            | TNone => s_timer s = false
            | TPending => s_timer s = true /\ notified m <> Some ROk
            | TFired => s_timer s = false /\ notified m <> None
            | TCleared => notified m <> None
            end;
  L_exitnot : exited m = true -> notified m <> None;
  L_acc : s_tried s = false -> attempted m = false /\ collected m = s_acc s
}.

Lemma Rel_init cf : Rel cf (m0 cf) (s0 cf).
Proof.
  constructor; cbn; auto; try discriminate.
  - destruct (c_timeout cf); [split; [reflexivity|discriminate]|reflexivity].
Qed.

(* the chunk of an operation: what [step] emitted plus the directory observation *)
Lemma fires_app a b : fires (a ++ b) = fires a ++ fires b.
Proof. unfold fires. apply flat_map_app. Qed.
Lemma signals_app a b : signals (a ++ b) = signals a ++ signals b.
Proof. unfold signals. apply flat_map_app. Qed.
Lemma dirs_app a b : dirs (a ++ b) = dirs a ++ dirs b.
Proof. unfold dirs. apply flat_map_app. Qed.
Lemma nconn_app a b : n_connecting (a ++ b) = (n_connecting a + n_connecting b)%nat.
Proof. unfold n_connecting. now rewrite filter_app, app_length. Qed.

Lemma fires_fired ws r : fires (map (fun w => EFired w r) ws) = map (fun w => (w, r)) ws.
Proof. induction ws as [|w ws IH]; [reflexivity|]. cbn. f_equal. exact IH. Qed.
Lemma signals_fired ws r : signals (map (fun w => EFired w r) ws) = [].
Proof. induction ws as [|w ws IH]; [reflexivity|]. cbn. exact IH. Qed.
Lemma dirs_fired ws r : dirs (map (fun w => EFired w r) ws) = [].
Proof. induction ws as [|w ws IH]; [reflexivity|]. cbn. exact IH. Qed.
Lemma nconn_fired ws r : n_connecting (map (fun w => EFired w r) ws) = O.
Proof. induction ws as [|w ws IH]; [reflexivity|]. cbn. exact IH. Qed.
Lemma absorb_fired s ws r : absorb s (map (fun w => EFired w r) ws) = s.
Proof. unfold absorb. induction ws as [|w ws IH]; [reflexivity|]. cbn. exact IH. Qed.
Lemma absorb_app s a b : absorb s (a ++ b) = absorb (absorb s a) b.
Proof. unfold absorb. apply fold_left_app. Qed.

Lemma all_fire_self ws b r : NoDup ws -> res_is b r = true ->
  all_fire ws b (map (fun w => (w, r)) ws) = true.
Proof.
  intros ND Hr. unfold all_fire. rewrite map_map. cbn [fst]. rewrite map_id.
  rewrite (nodupN_NoDup _ ND). cbn [andb].
  assert (A : forallb (fun w => memN w ws) ws = true).
  { apply forallb_forall. intros w Hw. apply memN_In. exact Hw. }
  rewrite A. cbn [andb]. apply forallb_forall. intros [w r'] H. apply in_map_iff in H as (w' & E & _).
  injection E as _ <-. exact Hr.
Qed.

Definition good (cf : cfg) (m : mst) (s : sst) (o : op) : Prop :=
  let '(m', es) := op_chunk cf m o in
  chunk_ok cf s o es = true /\ Rel cf m' (spec_step cf s o es).

Lemma dir_ok (g u x : bool) : g = x && negb u -> Bool.eqb (negb g) (u || negb x) = true.
Proof. intros ->. destruct x, u; reflexivity. Qed.

Ltac dirgoal HR := apply dir_ok; cbn; try apply (L_gone _ _ _ HR).

Lemma good_out cf m s chunk : Rel cf m s -> good cf m s (OOut chunk).
Proof.
  intros HR. unfold good, op_chunk. cbn [step].
  destruct (attempted m) eqn:At.
  - (* already attempted: nothing *)
    assert (Tr : s_tried s = true).
    { destruct (s_tried s) eqn:T; [reflexivity|]. destruct (L_acc _ _ _ HR T) as [A _]. congruence. }
    split.
    + unfold chunk_ok. cbn [app dirs fires signals n_connecting flat_map filter length op_effect]. rewrite Tr.
      cbn. rewrite !andb_true_r. dirgoal HR.
    + unfold spec_step. cbn [op_effect]. rewrite Tr. cbn [app absorb fold_left absorb1]. exact HR.
  - destruct (s_tried s) eqn:Tr.
    + (* attempted before, reset by a failure: may connect again *)
      destruct (isinfix LISTENER (collected m ++ chunk)) eqn:I.
      * split.
        -- unfold chunk_ok. cbn [app dirs fires signals n_connecting flat_map filter length op_effect]. rewrite Tr.
           cbn. rewrite !andb_true_r. dirgoal HR.
        -- unfold spec_step. cbn [op_effect]. rewrite Tr. cbn [app absorb fold_left absorb1].
           destruct HR. constructor; cbn; auto; try congruence; try (intros; discriminate).
      * split.
        -- unfold chunk_ok. cbn [app dirs fires signals n_connecting flat_map filter length op_effect]. rewrite Tr.
           cbn. rewrite !andb_true_r. dirgoal HR.
        -- unfold spec_step. cbn [op_effect]. rewrite Tr. cbn [app absorb fold_left absorb1].
           destruct HR. constructor; cbn; auto; try congruence.
    + destruct (L_acc _ _ _ HR Tr) as [_ Ac].
      destruct (isinfix LISTENER (collected m ++ chunk)) eqn:I.
      * split.
        -- unfold chunk_ok. cbn [app dirs fires signals n_connecting flat_map filter length op_effect]. rewrite Tr.
           cbn [s_acc s_gone]. rewrite <- Ac, I. cbn. rewrite !andb_true_r. dirgoal HR.
        -- unfold spec_step. cbn [op_effect]. rewrite Tr. cbn [app absorb fold_left absorb1].
           destruct HR. constructor; cbn; auto; try congruence; try (intros; discriminate).
      * split.
        -- unfold chunk_ok. cbn [app dirs fires signals n_connecting flat_map filter length op_effect]. rewrite Tr.
           cbn [s_acc s_gone]. rewrite <- Ac, I. cbn. rewrite !andb_true_r. dirgoal HR.
        -- unfold spec_step. cbn [op_effect]. rewrite Tr. cbn [app absorb fold_left absorb1].
           destruct HR. constructor; cbn; auto; try congruence.
           intros _. split; [reflexivity|]. congruence.
Qed.

Ltac relsolve := constructor; cbn; auto; try congruence; try (intros; discriminate);
  try (intros HT; match goal with H : s_tried _ = false -> _ |- _ =>
         destruct (H HT) as [? ?]; split; auto; congruence end).

Lemma good_err cf m s chunk : Rel cf m s -> good cf m s (OErr chunk).
Proof.
  intros HR. unfold good, op_chunk. cbn [step]. destruct (c_killerr cf).
  - split.
    + unfold chunk_ok. cbn. rewrite !andb_true_r. dirgoal HR.
    + unfold spec_step. cbn. exact HR.
  - split.
    + unfold chunk_ok. cbn. rewrite !andb_true_r. dirgoal HR.
    + unfold spec_step. cbn. exact HR.
Qed.

Lemma good_status cf m s c : Rel cf m s -> good cf m s (OStatus c).
Proof.
  intros HR. unfold good, op_chunk. cbn [step]. split.
  - unfold chunk_ok. cbn. rewrite !andb_true_r. dirgoal HR.
  - unfold spec_step. cbn. exact HR.
Qed.

Lemma good_shutdown cf m s : Rel cf m s -> good cf m s OShutdown.
Proof.
  intros HR. unfold good, op_chunk. cbn [step]. split.
  - unfold chunk_ok. cbn. rewrite !andb_true_r.
    rewrite (L_gone _ _ _ HR). destruct (s_gone s), (c_userdir cf); reflexivity.
  - unfold spec_step. cbn. destruct HR. relsolve.
    rewrite L_gone0. destruct (s_gone s), (c_userdir cf); reflexivity.
Qed.

Lemma good_connok cf m s : Rel cf m s -> good cf m s OConnOk.
Proof.
  intros HR. unfold good, op_chunk. cbn [step]. pose proof (L_npend _ _ _ HR) as Np.
  destruct (npend m) as [|n] eqn:E.
  - split.
    + unfold chunk_ok. cbn. rewrite !andb_true_r. rewrite <- Np. dirgoal HR.
    + unfold spec_step. cbn. rewrite <- Np. cbn. exact HR.
  - split.
    + unfold chunk_ok. cbn. rewrite !andb_true_r. rewrite <- Np. dirgoal HR.
    + unfold spec_step. cbn. rewrite <- Np. cbn. destruct HR. relsolve.
      apply Forall2_snoc; [assumption|]. unfold crel. cbn. repeat split; auto; discriminate.
Qed.

Lemma good_connfail cf m s : Rel cf m s -> good cf m s OConnFail.
Proof.
  intros HR. unfold good, op_chunk. cbn [step]. pose proof (L_npend _ _ _ HR) as Np.
  destruct (npend m) as [|n] eqn:E.
  - split.
    + unfold chunk_ok. cbn. rewrite !andb_true_r. dirgoal HR.
    + unfold spec_step. cbn. rewrite <- Np. cbn. destruct HR. relsolve.
  - split.
    + unfold chunk_ok. cbn. rewrite !andb_true_r. dirgoal HR.
    + unfold spec_step. cbn. rewrite <- Np. cbn. destruct HR. relsolve.
Qed.

Lemma good_when cf m s w : Rel cf m s -> good cf m s (OWhen w).
Proof.
  intros HR. unfold good, op_chunk. cbn [step]. pose proof (L_dec _ _ _ HR) as Dc.
  destruct (notified m) as [r|] eqn:Nt; cbn in Dc.
  - split.
    + unfold chunk_ok. cbn. rewrite Dc. cbn. rewrite N.eqb_refl. cbn.
      assert (res_is (is_ok r) r = true) as -> by (destruct r; reflexivity).
      rewrite !andb_true_r. dirgoal HR.
    + unfold spec_step. cbn. rewrite Dc. cbn. exact HR.
  - split.
    + unfold chunk_ok. cbn. rewrite Dc. cbn. rewrite !andb_true_r. dirgoal HR.
    + unfold spec_step. cbn. rewrite Dc. cbn. destruct HR. relsolve.
      * rewrite Nt in L_timer0. exact L_timer0.
      * rewrite Nt in L_exitnot0. exact L_exitnot0.
Qed.

(* ---- operations on one control connection ---- *)
Lemma set_nth_set_nth {A} n (x y : A) l : set_nth n x (set_nth n y l) = set_nth n x l.
Proof. revert l. induction n as [|n IH]; intros [|z l]; cbn; auto. now rewrite IH. Qed.

Lemma conn_both cf m s c : Rel cf m s ->
  match getc m c, nthc s c with
  | Some k, Some q => crel k q
  | None, None => True
  | _, _ => False
  end.
Proof. intros HR. unfold getc, nthc. apply Forall2_nth. apply HR. Qed.

Lemma Forall2_set_nth_l {A B} (P : A -> B -> Prop) la lb n a b :
  Forall2 P la lb -> nth_error lb n = Some b -> P a b -> Forall2 P (set_nth n a la) lb.
Proof.
  intros F. revert n. induction F as [|a' b' la lb H F IH]; intros [|n] Hn Hab; cbn in *; try discriminate.
  - injection Hn as ->. constructor; auto.
  - constructor; auto.
Qed.

Lemma nthc_upd s c q0 q : nthc s c = Some q0 -> nthc (upd_conn s c q) c = Some q.
Proof. unfold nthc, upd_conn. cbn. apply nth_error_set_nth_same. Qed.

Lemma upd_upd s c q1 q2 : upd_conn (upd_conn s c q1) c q2 = upd_conn s c q2.
Proof. unfold upd_conn. cbn. rewrite set_nth_set_nth. reflexivity. Qed.

(* the connection changes on both sides (attempted_connect possibly reset) *)
Lemma Rel_upd cf m s c k' q' att :
  Rel cf m s -> crel k' q' -> (att = attempted m \/ att = false) ->
  Rel cf (set_attempted (putc m c k') att) (upd_conn s c q').
Proof.
  intros HR Cr At. destruct HR. constructor; cbn; auto.
  - apply Forall2_set_nth; assumption.
  - intros T. destruct (L_acc0 T) as [A B]. split; [|exact B]. destruct At; congruence.
Qed.

(* only the model's side changes *)
Lemma Rel_putc cf m s c k' q att :
  Rel cf m s -> nthc s c = Some q -> crel k' q -> (att = attempted m \/ att = false) ->
  Rel cf (set_attempted (putc m c k') att) s.
Proof.
  intros HR Nq Cr At. destruct HR. constructor; cbn; auto.
  - eapply Forall2_set_nth_l; eauto.
  - intros T. destruct (L_acc0 T) as [A B]. split; [|exact B]. destruct At; congruence.
Qed.

Lemma Forall2_set_nth_r {A B} (P : A -> B -> Prop) la lb n a b :
  Forall2 P la lb -> nth_error la n = Some a -> P a b -> Forall2 P la (set_nth n b lb).
Proof.
  intros F. revert n. induction F as [|a' b' la lb H F IH]; intros [|n] Hn Hab; cbn in *; try discriminate.
  - injection Hn as ->. constructor; auto.
  - constructor; auto.
Qed.

(* only the spec's side changes *)
Lemma Rel_upd_spec cf m s c k q' :
  Rel cf m s -> getc m c = Some k -> crel k q' -> Rel cf m (upd_conn s c q').
Proof.
  intros HR G Cr. destruct HR. constructor; cbn; auto.
  eapply Forall2_set_nth_r; eauto.
Qed.

Lemma absorb1_sent s c q cmd : nthc s c = Some q ->
  absorb1 s (ESent c cmd) =
  upd_conn s c {| q_auth := q_auth q; q_own := q_own q || beqb cmd w_TAKEOWNERSHIP; q_evon := q_evon q;
                  q_fifo := q_fifo q ++ [cmd] |}.
Proof. intros H. unfold absorb1. rewrite H. reflexivity. Qed.

Lemma absorb1_dir s b : absorb1 s (EDir b) = s. Proof. reflexivity. Qed.

Lemma gone_putc m c k : gone (putc m c k) = gone m. Proof. reflexivity. Qed.
Lemma gone_failed m c k : gone (coroutine_failed m c k) = gone m. Proof. reflexivity. Qed.

Ltac crel_solve CB St :=
  unfold crel in *; rewrite ?St in *; cbn in *;
  rewrite ?C_setevents, ?C_se_own, ?C_own_se, ?C_own_own, ?C_reset_se, ?C_reset_own, ?orb_false_r, ?andb_false_r,
    ?andb_true_r, ?orb_true_r in *;
  cbn in *; intuition (subst; cbn in *; auto; try congruence; try discriminate).

Lemma good_boot cf m s c ok : Rel cf m s -> good cf m s (OBoot c ok).
Proof.
  intros HR. unfold good, op_chunk. cbn [step]. pose proof (conn_both cf m s c HR) as CB.
  pose proof (L_gone _ _ _ HR) as Hg.
  destruct (getc m c) as [k|] eqn:G; destruct (nthc s c) as [q|] eqn:Nq; try contradiction.
  2:{ split.
      - unfold chunk_ok. cbn. rewrite Nq. cbn. rewrite !andb_true_r. dirgoal HR.
      - unfold spec_step. cbn. rewrite Nq. cbn. exact HR. }
  destruct q as [qa qo qe qf].
  destruct (k_stage k) eqn:St; destruct ok;
    (split;
     [ unfold chunk_ok; cbn; rewrite ?Nq; cbn; rewrite !andb_true_r; apply dir_ok; exact Hg
     | unfold spec_step; cbn [op_effect]; rewrite Nq; cbn [app absorb fold_left]; rewrite ?absorb1_dir ]).
  - (* SBoot, ok: the listener is registered and SETEVENTS sent *)
    rewrite (absorb1_sent _ _ _ _ (nthc_upd _ _ _ _ Nq)), upd_upd. cbn [q_auth q_own q_evon q_fifo].
    change (putc m c ?k') with (set_attempted (putc m c k') (attempted m)).
    apply Rel_upd; [exact HR| |left; reflexivity]. crel_solve CB St.
  - (* SBoot, failed *)
    unfold coroutine_failed. eapply Rel_putc; [exact HR|exact Nq| |right; reflexivity]. crel_solve CB St.
  - eapply Rel_upd_spec; [exact HR|exact G|]; crel_solve CB St.
  - exact HR.
  - eapply Rel_upd_spec; [exact HR|exact G|]; crel_solve CB St.
  - exact HR.
  - eapply Rel_upd_spec; [exact HR|exact G|]; crel_solve CB St.
  - exact HR.
  - eapply Rel_upd_spec; [exact HR|exact G|]; crel_solve CB St.
  - exact HR.
Qed.

Lemma good_ack cf m s c ok : Rel cf m s -> good cf m s (OAck c ok).
Proof.
  intros HR. unfold good, op_chunk. cbn [step]. pose proof (conn_both cf m s c HR) as CB.
  pose proof (L_gone _ _ _ HR) as Hg.
  destruct (getc m c) as [k|] eqn:G; destruct (nthc s c) as [q|] eqn:Nq; try contradiction.
  2:{ split.
      - unfold chunk_ok. cbn. rewrite Nq. cbn. rewrite !andb_true_r. dirgoal HR.
      - unfold spec_step. cbn. rewrite Nq. cbn. exact HR. }
  destruct q as [qa qo qe qf].
  destruct (k_stage k) eqn:St.
  - (* nothing outstanding *)
    assert (qf = []) by (unfold crel in CB; rewrite St in CB; cbn in CB; tauto). subst qf.
    split.
    + unfold chunk_ok. cbn. rewrite Nq. cbn. rewrite !andb_true_r. apply dir_ok. exact Hg.
    + unfold spec_step. cbn [op_effect]. rewrite Nq. cbn. exact HR.
  - (* SETEVENTS answered *)
    assert (qf = [w_SETEVENTS_SC]) by (unfold crel in CB; rewrite St in CB; cbn in CB; tauto). subst qf.
    destruct ok;
      (split;
       [ unfold chunk_ok; cbn; rewrite ?Nq; cbn; rewrite !andb_true_r; apply dir_ok; exact Hg
       | unfold spec_step; cbn [op_effect]; rewrite Nq; cbn [q_fifo q_auth q_own q_evon app absorb fold_left];
         rewrite ?absorb1_dir ]).
    + rewrite (absorb1_sent _ _ _ _ (nthc_upd _ _ _ _ Nq)), upd_upd. cbn [q_auth q_own q_evon q_fifo].
      change (putc m c ?k') with (set_attempted (putc m c k') (attempted m)).
      apply Rel_upd; [exact HR| |left; reflexivity]. crel_solve CB St.
    + unfold coroutine_failed. apply Rel_upd; [exact HR| |right; reflexivity]. crel_solve CB St.
  - (* TAKEOWNERSHIP answered *)
    assert (qf = [w_TAKEOWNERSHIP]) by (unfold crel in CB; rewrite St in CB; cbn in CB; tauto). subst qf.
    destruct ok;
      (split;
       [ unfold chunk_ok; cbn; rewrite ?Nq; cbn; rewrite !andb_true_r; apply dir_ok; exact Hg
       | unfold spec_step; cbn [op_effect]; rewrite Nq; cbn [q_fifo q_auth q_own q_evon app absorb fold_left];
         rewrite ?absorb1_dir ]).
    + rewrite (absorb1_sent _ _ _ _ (nthc_upd _ _ _ _ Nq)), upd_upd. cbn [q_auth q_own q_evon q_fifo].
      change (putc m c ?k') with (set_attempted (putc m c k') (attempted m)).
      apply Rel_upd; [exact HR| |left; reflexivity]. crel_solve CB St.
    + unfold coroutine_failed. apply Rel_upd; [exact HR| |right; reflexivity]. crel_solve CB St.
  - (* RESETCONF answered *)
    assert (qf = [w_RESETCONF]) by (unfold crel in CB; rewrite St in CB; cbn in CB; tauto). subst qf.
    destruct ok;
      (split;
       [ unfold chunk_ok; cbn; rewrite ?Nq; cbn; rewrite !andb_true_r; apply dir_ok; exact Hg
       | unfold spec_step; cbn [op_effect]; rewrite Nq; cbn [q_fifo q_auth q_own q_evon app absorb fold_left];
         rewrite ?absorb1_dir ]).
    + change (putc m c ?k') with (set_attempted (putc m c k') (attempted m)).
      apply Rel_upd; [exact HR| |left; reflexivity]. crel_solve CB St.
    + unfold coroutine_failed. apply Rel_upd; [exact HR| |right; reflexivity]. crel_solve CB St.
  - assert (qf = []) by (unfold crel in CB; rewrite St in CB; cbn in CB; tauto). subst qf.
    split.
    + unfold chunk_ok. cbn. rewrite Nq. cbn. rewrite !andb_true_r. apply dir_ok. exact Hg.
    + unfold spec_step. cbn [op_effect]. rewrite Nq. cbn. exact HR.
Qed.

(* ---- the three decisive stimuli ---- *)
Lemma is_ok_fail r : r <> ROk -> is_ok r = false.
Proof. destruct r; [congruence|reflexivity]. Qed.

Lemma s_gone_if (b : bool) s x : s_gone (if b then decide s x else s) = s_gone s.
Proof. destruct b; [|reflexivity]. unfold decide. destruct (s_decided s); reflexivity. Qed.

Lemma good_progress cf m s c p : Rel cf m s -> NoDup (waiters m) -> good cf m s (OProgress c p).
Proof.
  intros HR ND. unfold good, op_chunk. cbn [step]. pose proof (conn_both cf m s c HR) as CB.
  pose proof (L_gone _ _ _ HR) as Hg. pose proof (L_dec _ _ _ HR) as Dc. pose proof (L_wait _ _ _ HR) as Wt.
  pose proof (L_timer _ _ _ HR) as Tm.
  destruct (getc m c) as [k|] eqn:G; destruct (nthc s c) as [q|] eqn:Nq; try contradiction.
  2:{ split.
      - unfold chunk_ok. cbn. unfold delivered. rewrite Nq. cbn. rewrite ?andb_false_r. cbn.
        rewrite !andb_true_r, ?s_gone_if. dirgoal HR.
      - unfold spec_step. cbn. unfold full_bootstrap. rewrite Nq. rewrite andb_false_r. cbn. exact HR. }
  unfold crel in CB. destruct CB as (Ev & Imp & _).
  destruct (q_evon q) eqn:Qe.
  2:{ rewrite Ev. cbn [andb]. split.
      - unfold chunk_ok. cbn. unfold delivered. rewrite Nq, Qe. cbn. rewrite ?andb_false_r. cbn.
        rewrite !andb_true_r, ?s_gone_if. dirgoal HR.
      - unfold spec_step. cbn. unfold full_bootstrap. rewrite Nq, Qe. cbn. rewrite andb_false_r. cbn. exact HR. }
  destruct (Imp eq_refl) as (Qa & Qo & Lr). rewrite Ev, Lr. cbn [andb].
  assert (Dl : delivered s c = true) by (unfold delivered; rewrite Nq; exact Qe).
  assert (Fb : full_bootstrap s c = true) by (unfold full_bootstrap; rewrite Nq, Qe, Qa, Qo; reflexivity).
  destruct (p =? 100) eqn:P100.
  2:{ split.
      - unfold chunk_ok. cbn. rewrite P100. cbn. rewrite !andb_true_r, ?s_gone_if. dirgoal HR.
      - unfold spec_step. cbn. rewrite P100. cbn. exact HR. }
  destruct (notified m) as [r|] eqn:Nt; cbn in Dc.
  - (* already decided: nothing fires *)
    assert (Case : forall m1, notify m1 ROk = (m1, []) -> notified m1 = Some r -> gone m1 = gone m -> Rel cf m1 s ->
                   chunk_ok cf s (OProgress c p) ((EProgress p :: []) ++ [EDir (negb (gone m1))]) = true /\
                   Rel cf m1 (spec_step cf s (OProgress c p) ((EProgress p :: []) ++ [EDir (negb (gone m1))]))).
    { intros m1 _ _ Gm HR1. split.
      - unfold chunk_ok. cbn. rewrite P100, Dl, Dc. cbn. rewrite !andb_true_r, ?s_gone_if. rewrite Gm. dirgoal HR.
      - unfold spec_step. cbn. rewrite P100, Fb. cbn. unfold decide. rewrite Dc. cbn. exact HR1. }
    destruct (timer m) eqn:Ti.
    + unfold notify. rewrite Nt. apply Case; auto. unfold notify. rewrite Nt. reflexivity.
    + unfold notify. cbn [set_timer notified]. rewrite Nt. apply Case; auto.
      * unfold notify. cbn. rewrite Nt. reflexivity.
      * destruct HR. constructor; cbn; auto. rewrite Nt. discriminate.
    + split.
      * unfold chunk_ok. cbn. rewrite P100, Dl, Dc. cbn. rewrite !andb_true_r, ?s_gone_if. dirgoal HR.
      * unfold spec_step. cbn. rewrite P100, Fb. cbn. unfold decide. rewrite Dc. cbn. exact HR.
    + unfold notify. rewrite Nt. apply Case; auto. unfold notify. rewrite Nt. reflexivity.
  - (* undecided: success *)
    assert (Case : forall t, (t = TNone /\ s_timer s = false) \/ t = TCleared ->
       let m1 := {| attempted := attempted m; collected := collected m; npend := npend m; conns := conns m; timer := t;
                    notified := Some ROk; waiters := []; did_timeout := did_timeout m; exited := exited m; gone := gone m |} in
       let es := [EProgress p] ++ map (fun w => EFired w ROk) (waiters m) ++ [EDir (negb (gone m))] in
       chunk_ok cf s (OProgress c p) es = true /\ Rel cf m1 (spec_step cf s (OProgress c p) es)).
    { intros t Ht m1 es. split.
      - unfold chunk_ok, es.
        rewrite !fires_app, !signals_app, !dirs_app, !nconn_app, fires_fired, signals_fired, dirs_fired, nconn_fired.
        cbn [fires signals dirs flat_map app n_connecting filter length Nat.add].
        rewrite P100, Dl, Dc, Fb, Wt. cbn [andb].
        rewrite app_nil_r, (all_fire_self (waiters m) true ROk ND eq_refl).
        cbn [op_effect]. rewrite P100, Fb. cbn. rewrite !andb_true_r. unfold decide. rewrite Dc. cbn. dirgoal HR.
      - unfold spec_step, es. cbn [op_effect]. rewrite P100, Fb. cbn [andb]. unfold decide. rewrite Dc.
        rewrite !absorb_app, absorb_fired. cbn.
        destruct HR. unfold m1. constructor; cbn; auto; try discriminate.
        destruct Ht as [[-> Hs]| ->]; [exact Hs|discriminate]. }
    destruct (timer m) eqn:Ti.
    + unfold notify. rewrite Nt. cbv beta iota. rewrite ?Ti. apply (Case TNone). left. auto.
    + unfold notify. cbn [set_timer notified waiters attempted collected npend conns did_timeout exited gone timer]. rewrite Nt. cbv beta iota.
      apply (Case TCleared). right. reflexivity.
    + destruct Tm as [_ X]. congruence.
    + congruence.
Qed.

Lemma good_timeout cf m s : Rel cf m s -> NoDup (waiters m) -> good cf m s OTimeout.
Proof.
  intros HR ND. unfold good, op_chunk. cbn [step].
  pose proof (L_gone _ _ _ HR) as Hg. pose proof (L_dec _ _ _ HR) as Dc. pose proof (L_wait _ _ _ HR) as Wt.
  pose proof (L_timer _ _ _ HR) as Tm. pose proof (L_exitnot _ _ _ HR) as Ex.
  destruct (timer m) eqn:Ti.
  - split.
    + unfold chunk_ok. cbn. rewrite Tm. cbn. rewrite !andb_true_r. dirgoal HR.
    + unfold spec_step. cbn. rewrite Tm. cbn. exact HR.
  - destruct Tm as [Tm NotOk].
    destruct (notified m) as [r|] eqn:Nt; cbn in Dc.
    + (* failed before (the process ended): nothing fires *)
      assert (Dc' : s_decided s = Some false) by (rewrite Dc, is_ok_fail; [reflexivity|congruence]).
      unfold notify. cbn [notified]. rewrite ?Nt. cbv beta iota. rewrite app_nil_r. split.
      * unfold chunk_ok. rewrite fires_app, signals_app, dirs_app, nconn_app.
        cbn [op_effect]. rewrite Tm, Dc'. unfold decide. rewrite Dc'. cbn [s_gone gone].
        destruct (exited m); cbn; rewrite !andb_true_r; dirgoal HR.
      * unfold spec_step. cbn [op_effect]. rewrite Tm. unfold decide. rewrite Dc'. rewrite absorb_app.
        assert (A : forall s1, absorb s1 (if exited m then [ELoseConn] else [ESignal w_TERM]) = s1) by (intros; destruct (exited m); reflexivity).
        rewrite A. cbn. destruct HR. constructor; cbn; auto.
        split; [reflexivity|discriminate].
    + (* undecided: TERM and failure *)
      assert (Ea : exited m = false) by (destruct (exited m); [exfalso; apply Ex; reflexivity|reflexivity]).
      rewrite Ea. unfold notify. cbn [notified waiters]. rewrite ?Nt. cbv beta iota. split.
      * unfold chunk_ok. rewrite !fires_app, !signals_app, !dirs_app, !nconn_app, fires_fired, signals_fired, dirs_fired, nconn_fired.
        cbn [fires signals dirs flat_map app n_connecting filter length Nat.add op_effect].
        rewrite Tm, Dc, Wt. unfold decide. rewrite Dc. cbn [s_gone gone]. rewrite app_nil_r.
        rewrite (all_fire_self (waiters m) false (RFail 1) ND eq_refl). rewrite C_term.
        cbn. rewrite !andb_true_r. dirgoal HR.
      * unfold spec_step. cbn [op_effect]. rewrite Tm. unfold decide. rewrite Dc. rewrite !absorb_app, absorb_fired. cbn.
        destruct HR. constructor; cbn; auto; try discriminate; try congruence.
        split; [reflexivity|discriminate].
  - destruct Tm as [Tm NN]. split.
    + unfold chunk_ok. cbn. rewrite Tm. cbn. rewrite !andb_true_r. dirgoal HR.
    + unfold spec_step. cbn. rewrite Tm. cbn. exact HR.
  - destruct (notified m) as [r|] eqn:Nt; [|congruence]. cbn in Dc.
    destruct (s_timer s) eqn:St.
    + split.
      * unfold chunk_ok. cbn. rewrite St, Dc. unfold decide. rewrite Dc. cbn.
        destruct (is_ok r); cbn; rewrite !andb_true_r; dirgoal HR.
      * unfold spec_step. cbn. rewrite St. unfold decide. rewrite Dc. cbn.
        destruct HR. constructor; cbn; auto. rewrite Ti. rewrite Nt. discriminate.
    + split.
      * unfold chunk_ok. cbn. rewrite St. cbn. rewrite !andb_true_r. dirgoal HR.
      * unfold spec_step. cbn. rewrite St. cbn. exact HR.
Qed.

Lemma good_exit cf m s x : Rel cf m s -> NoDup (waiters m) -> good cf m s (OExit x).
Proof.
  intros HR ND. unfold good, op_chunk. cbn [step].
  pose proof (L_gone _ _ _ HR) as Hg. pose proof (L_dec _ _ _ HR) as Dc. pose proof (L_wait _ _ _ HR) as Wt.
  pose proof (L_timer _ _ _ HR) as Tm.
  set (kd := match x with XCode _ => 2 | XSignal _ => if did_timeout m then 4 else 3 end).
  assert (Gd : forall g u sg, g = sg && negb u -> Bool.eqb (negb (g || negb u)) (u || false) = true).
  { intros g u sg ->. destruct sg, u; reflexivity. }
  destruct (notified m) as [r|] eqn:Nt; cbn in Dc.
  - unfold notify. cbn [notified]. rewrite ?Nt. cbv beta iota. split.
    + unfold chunk_ok. cbn. rewrite Dc. cbn. rewrite !andb_true_r. eapply Gd. exact Hg.
    + unfold spec_step. cbn. unfold decide. rewrite Dc. cbn.
      destruct HR. constructor; cbn; auto; try discriminate;
        try (rewrite L_gone0; destruct (s_gone s), (c_userdir cf); reflexivity);
        try (destruct (timer m); auto).
  - unfold notify. cbn [notified waiters]. rewrite ?Nt. cbv beta iota. split.
    + unfold chunk_ok. rewrite !fires_app, !signals_app, !dirs_app, !nconn_app, fires_fired, signals_fired, dirs_fired, nconn_fired.
      cbn [fires signals dirs flat_map app n_connecting filter length Nat.add op_effect].
      rewrite Dc, Wt. unfold decide. rewrite Dc. cbn [s_gone gone].
      rewrite ?app_nil_r. rewrite (all_fire_self (waiters m) false (RFail kd) ND eq_refl).
      cbn. rewrite !andb_true_r. eapply Gd. exact Hg.
    + unfold spec_step. cbn [op_effect]. unfold decide. rewrite Dc. rewrite !absorb_app, absorb_fired. cbn.
      destruct HR. constructor; cbn; auto; try discriminate;
        try (rewrite L_gone0; destruct (s_gone s), (c_userdir cf); reflexivity).
      destruct (timer m); auto; try discriminate;
        destruct L_timer0; split; try assumption; discriminate.
Qed.

(* ------------------------------------------------------------------------------------------ *)
(* Part C *)

Lemma step_good cf m s o : Rel cf m s -> NoDup (waiters m) -> good cf m s o.
Proof.
  intros HR ND. destruct o.
  - apply good_out; assumption.
  - apply good_err; assumption.
  - apply good_connok; assumption.
  - apply good_connfail; assumption.
  - apply good_boot; assumption.
  - apply good_ack; assumption.
  - apply good_progress; assumption.
  - apply good_status; assumption.
  - apply good_timeout; assumption.
  - apply good_exit; assumption.
  - apply good_when; assumption.
  - apply good_shutdown; assumption.
Qed.

(* who fires in one operation, and what becomes of the list of waiters *)
Definition fire_shape (m m' : mst) (o : op) (es : list obs) : Prop :=
  (fires es = [] /\ (waiters m' = waiters m \/ waiters m' = [] \/ exists w, o = OWhen w /\ waiters m' = waiters m ++ [w]))
  \/ (exists r, fires es = map (fun w => (w, r)) (waiters m) /\ waiters m' = [] /\ forall w, o <> OWhen w)
  \/ (exists w r, o = OWhen w /\ fires es = [(w, r)] /\ waiters m' = waiters m).

Lemma notify_shape m r m' es o : notify m r = (m', es) -> (forall w, o <> OWhen w) ->
  forall pre, fires pre = [] -> fire_shape m m' o (pre ++ es).
Proof.
  unfold notify. intros H NW pre Hp. destruct (notified m).
  - injection H as <- <-. left. rewrite app_nil_r. split; [exact Hp|left; reflexivity].
  - injection H as <- <-. right. left. exists r. rewrite fires_app, Hp, fires_fired. cbn. auto.
Qed.

Lemma step_shape cf m o : let '(m', es) := step cf m o in fire_shape m m' o es.
Proof.
  assert (Same : forall es, fires es = [] -> fire_shape m m o es).
  { intros es H. left. split; [exact H|left; reflexivity]. }
  destruct o; cbn [step].
  - destruct (attempted m); [apply Same; reflexivity|].
    destruct (isinfix LISTENER (collected m ++ chunk)); left; split; try reflexivity; left; reflexivity.
  - destruct (c_killerr cf); apply Same; reflexivity.
  - destruct (npend m); [apply Same; reflexivity|]. left; split; [reflexivity|left; reflexivity].
  - destruct (npend m); [apply Same; reflexivity|]. left; split; [reflexivity|left; reflexivity].
  - destruct (getc m c) as [k|]; [|apply Same; reflexivity].
    destruct (k_stage k); try (apply Same; reflexivity).
    destruct ok; left; split; try reflexivity; left; reflexivity.
  - destruct (getc m c) as [k|]; [|apply Same; reflexivity].
    destruct (k_stage k); try (apply Same; reflexivity);
      destruct ok; left; split; try reflexivity; left; reflexivity.
  - destruct (getc m c) as [k|]; [|apply Same; reflexivity].
    destruct (k_evon k && k_lreg k); [|apply Same; reflexivity].
    destruct (p =? 100); [|apply Same; reflexivity].
    destruct (timer m) eqn:Ti.
    + destruct (notify m ROk) as [m1 e1] eqn:Nf.
      apply (notify_shape m ROk m1 e1 (OProgress c p) Nf) with (pre := [EProgress p]); [discriminate|reflexivity].
    + destruct (notify (set_timer m TCleared) ROk) as [m1 e1] eqn:Nf.
      apply (notify_shape (set_timer m TCleared) ROk m1 e1 (OProgress c p) Nf) with (pre := [EProgress p]); [discriminate|reflexivity].
    + apply Same; reflexivity.
    + destruct (notify m ROk) as [m1 e1] eqn:Nf.
      apply (notify_shape m ROk m1 e1 (OProgress c p) Nf) with (pre := [EProgress p]); [discriminate|reflexivity].
  - apply Same; reflexivity.
  - destruct (timer m); try (apply Same; reflexivity).
    match goal with |- context[notify ?m1 ?r] => destruct (notify m1 r) as [m2 e2] eqn:Nf;
      pose proof (notify_shape m1 r m2 e2 OTimeout Nf) as NS end.
    apply (NS ltac:(discriminate) (if exited m then [ELoseConn] else [ESignal w_TERM])).
    destruct (exited m); reflexivity.
  - match goal with |- context[notify ?m1 ?r] => destruct (notify m1 r) as [m2 e2] eqn:Nf;
      pose proof (notify_shape m1 r m2 e2 (OExit x) Nf) as NS end.
    apply (NS ltac:(discriminate) []). reflexivity.
  - destruct (notified m) as [r|].
    + right. right. exists w, r. auto.
    + left. split; [reflexivity|]. right. right. exists w. auto.
  - left. split; [reflexivity|left; reflexivity].
Qed.

Definition winv (m : mst) (ws : list N) : Prop :=
  NoDup (waiters m) /\ forall w, In w (waiters m) -> In w ws.

Definition ws_after (o : op) (ws : list N) : list N := match o with OWhen w => w :: ws | _ => ws end.

Lemma wf_cons ex ws o h : wf_from ex ws (o :: h) = true ->
  (exists ex', wf_from ex' (ws_after o ws) h = true) /\ (forall w, o = OWhen w -> ~ In w ws).
Proof.
  destruct o; cbn [wf_from ws_after]; intros H;
    try (apply andb_true_iff in H as [H1 H2]); (split; [eauto|]); try (intros ? E; discriminate E).
  intros w' E. injection E as <-. intros A. apply memN_In in A. rewrite A in H1. discriminate.
Qed.

Lemma NoDup_app_disj {A} (a b : list A) : NoDup a -> NoDup b -> (forall x, In x a -> ~ In x b) -> NoDup (a ++ b).
Proof.
  induction 1 as [|x a Hx ND IH]; intros Nb D; [exact Nb|]. cbn [app]. constructor.
  - rewrite in_app_iff. intros [H|H]; [contradiction|]. apply (D x); [left; reflexivity|exact H].
  - apply IH; [exact Nb|]. intros y Hy. apply D. right. exact Hy.
Qed.

Lemma NoDup_snoc {A} (l : list A) x : NoDup l -> ~ In x l -> NoDup (l ++ [x]).
Proof.
  intros ND NI. apply NoDup_app_disj; [exact ND|constructor; [intros []|constructor]|].
  intros y Hy [<-|[]]. contradiction.
Qed.

Lemma winv_step cf m o ws : winv m ws -> (forall w, o = OWhen w -> ~ In w ws) ->
  winv (fst (step cf m o)) (ws_after o ws).
Proof.
  intros [ND Sub] Fresh. pose proof (step_shape cf m o) as Sh. destruct (step cf m o) as [m' es]. cbn [fst].
  assert (Mono : forall w, In w ws -> In w (ws_after o ws)) by (intros w H; destruct o; cbn; auto).
  unfold winv.
  destruct Sh as [[_ [E|[E|(w & -> & E)]]]|[(r & _ & E & _)|(w & r & _ & _ & E)]]; rewrite E.
  - split; [exact ND|]. auto.
  - split; [constructor|intros ? []].
  - split.
    + apply NoDup_snoc; [exact ND|]. intros A. apply (Fresh w eq_refl). auto.
    + intros x Hx. apply in_app_iff in Hx as [Hx|[<-|[]]]; cbn; auto.
  - split; [constructor|intros ? []].
  - split; [exact ND|]. auto.
Qed.

Lemma run_good cf h : forall m s ws ex,
  Rel cf m s -> winv m ws -> wf_from ex ws h = true ->
  oracle_from cf s h (run_from cf m h) = true.
Proof.
  induction h as [|o h IH]; intros m s ws ex HR WI WF; [reflexivity|].
  cbn [run_from oracle_from].
  pose proof (step_good cf m s o HR (proj1 WI)) as G. unfold good in G.
  pose proof (winv_step cf m o ws WI) as WS.
  destruct (wf_cons _ _ _ _ WF) as [(ex' & WF') Fresh]. specialize (WS Fresh).
  unfold op_chunk in *. destruct (step cf m o) as [m' es]. cbn [fst] in WS. destruct G as [Ck HR'].
  rewrite Ck. cbn [andb]. eapply IH; eauto.
Qed.

(* no waiter ever fires twice *)
Lemma fired_once cf h : forall m ws ex,
  winv m ws -> wf_from ex ws h = true ->
  let ids := map fst (fires (concat (run_from cf m h))) in
  NoDup ids /\ forall w, In w ids -> In w (waiters m) \/ ~ In w ws.
Proof.
  induction h as [|o h IH]; intros m ws ex WI WF; cbn zeta.
  - cbn. split; [constructor|intros ? []].
  - cbn [run_from]. pose proof (step_shape cf m o) as Sh. pose proof (winv_step cf m o ws WI) as WS.
    destruct (wf_cons _ _ _ _ WF) as [(ex' & WF') Fresh]. specialize (WS Fresh).
    unfold op_chunk. destruct (step cf m o) as [m' es]. cbn [fst] in WS.
    destruct (IH m' (ws_after o ws) ex' WS WF') as [NDr Elr].
    cbn [concat]. rewrite !fires_app, !map_app. cbn [fires flat_map app map].
    set (ids' := map fst (fires (concat (run_from cf m' h)))) in *.
    destruct WI as [ND Sub].
    assert (Mono : forall w, In w ws -> In w (ws_after o ws)) by (intros w H; destruct o; cbn; auto).
    destruct Sh as [[Ef Wm]|[(r & Ef & Wm & NW)|(w0 & r & -> & Ef & Wm)]]; rewrite Ef; cbn [map app]; rewrite ?app_nil_r.
    + cbn [map app]. split; [exact NDr|]. intros w Hw. destruct (Elr w Hw) as [A|A].
      * destruct Wm as [E|[E|(w1 & -> & E)]]; rewrite E in A.
        -- left. exact A.
        -- destruct A.
        -- apply in_app_iff in A as [A|[<-|[]]]; [left; exact A|right; apply Fresh; reflexivity].
      * right. intros B. apply A. auto.
    + rewrite map_map. cbn [fst]. rewrite map_id.
      assert (WsSame : ws_after o ws = ws) by (destruct o; try reflexivity; exfalso; eapply NW; reflexivity).
      rewrite WsSame, Wm in Elr.
      split.
      * apply NoDup_app_disj; [exact ND|exact NDr|]. intros x Hx Hx'. destruct (Elr x Hx') as [[]|A]. apply A. auto.
      * intros w Hw. apply in_app_iff in Hw as [Hw|Hw]; [left; exact Hw|]. destruct (Elr w Hw) as [[]|A]. right. exact A.
    + cbn [map fst app]. cbn [ws_after] in Elr. rewrite Wm in Elr.
      assert (NI : ~ In w0 ws) by (apply Fresh; reflexivity).
      split.
      * constructor; [|exact NDr]. intros Hx. destruct (Elr w0 Hx) as [A|A]; [apply NI; auto|apply A; left; reflexivity].
      * intros w [<-|Hw]; [right; exact NI|]. destruct (Elr w Hw) as [A|A]; [left; exact A|].
        right. intros B. apply A. right. exact B.
Qed.

(* the main theorem: on every physically possible history the model's trace satisfies the oracle *)
Lemma model_satisfies_oracle cf h : wf h = true -> oracle cf h (run cf h) = true.
Proof.
  intros WF. unfold oracle, run, wf in *.
  assert (WI : winv (m0 cf) [0]).
  { split; cbn; [constructor; [intros []|constructor]|auto]. }
  rewrite (run_good cf h (m0 cf) (s0 cf) [0] false (Rel_init cf) WI WF).
  cbn [chunk_eqb list_eqb obs_eqb Bool.eqb andb].
  cbn [concat]. rewrite fires_app. cbn [fires flat_map app].
  apply nodupN_NoDup. destruct (fired_once cf h (m0 cf) [0] false WI WF) as [ND _]. exact ND.
Qed.

Lemma fires_at_most_once cf h : wf h = true -> NoDup (map fst (fires (concat (run cf h)))).
Proof.
  intros WF. unfold run, wf in *. cbn [concat]. rewrite fires_app. cbn [fires flat_map app].
  assert (WI : winv (m0 cf) [0]).
  { split; cbn; [constructor; [intros []|constructor]|auto]. }
  destruct (fired_once cf h (m0 cf) [0] false WI WF) as [ND _]. exact ND.
Qed.

(* ---- the data directory ---- *)
Definition exec (cf : cfg) (m : mst) (h : list op) : mst := fold_left (fun s o => fst (step cf s o)) h m.

Lemma gone_step cf m o : gone (fst (step cf m o)) = gone m \/ gone (fst (step cf m o)) = gone m || negb (c_userdir cf).
Proof.
  destruct o; cbn [step];
    repeat match goal with
           | |- context[notify ?m1 ?r] => unfold notify; cbn [notified set_timer]
           | |- context[notified m] => destruct (notified m)
           | |- context[match ?x with _ => _ end] => destruct x
           end; cbn; auto.
Qed.

Lemma gone_exit cf m x : gone (fst (step cf m (OExit x))) = gone m || negb (c_userdir cf).
Proof. cbn [step]. unfold notify. cbn [notified]. destruct (notified m); reflexivity. Qed.

Lemma dirs_in_run cf h : forall m b, In (EDir b) (concat (run_from cf m h)) ->
  exists h1 o h2, h = h1 ++ o :: h2 /\ b = negb (gone (exec cf m (h1 ++ [o]))).
Proof.
  induction h as [|o h IH]; intros m b H; [destruct H|].
  cbn [run_from] in H. unfold op_chunk in H. destruct (step cf m o) as [m' es] eqn:St.
  cbn [concat] in H. apply in_app_iff in H as [H|H].
  - apply in_app_iff in H as [H|[H|[]]].
    + exfalso. revert H. clear IH. pose proof St as St'.
      destruct o; cbn [step] in St;
        repeat match type of St with
               | context[notify ?m1 ?r] => unfold notify in St; cbn [notified set_timer] in St
               | context[notified m] => destruct (notified m)
               | context[match ?x with _ => _ end] => destruct x
               end; injection St as <- <-; cbn; rewrite ?in_app_iff, ?in_map_iff; cbn;
          intuition (try discriminate); repeat match goal with H : exists _, _ |- _ => destruct H as (? & ? & ?) end; try discriminate.
    + injection H as <-. exists [], o, h. split; [reflexivity|]. unfold exec. cbn. rewrite St. reflexivity.
  - destruct (IH m' b H) as (h1 & o' & h2 & -> & E). exists (o :: h1), o', h2. split; [reflexivity|].
    rewrite E. unfold exec. cbn [app fold_left]. rewrite St. reflexivity.
Qed.

Lemma gone_user cf h : c_userdir cf = true -> forall m, gone m = false -> gone (exec cf m h) = false.
Proof.
  intros U. induction h as [|o h IH]; intros m G; [exact G|]. unfold exec. cbn [fold_left]. apply IH.
  destruct (gone_step cf m o) as [E|E]; rewrite E, ?U, ?G; reflexivity.
Qed.

Lemma gone_mono cf h : forall m, gone m = true -> gone (exec cf m h) = true.
Proof.
  induction h as [|o h IH]; intros m G; [exact G|]. unfold exec. cbn [fold_left]. apply IH.
  destruct (gone_step cf m o) as [E|E]; rewrite E, G; reflexivity.
Qed.

(* a caller-supplied directory is never removed *)
Lemma user_dir_kept cf h b : c_userdir cf = true -> In (EDir b) (concat (run cf h)) -> b = true.
Proof.
  intros U H. unfold run in H. cbn [concat] in H. apply in_app_iff in H as [[H|[]]|H]; [congruence|].
  destruct (dirs_in_run cf h _ b H) as (h1 & o & h2 & _ & ->).
  rewrite (gone_user cf _ U); reflexivity.
Qed.

(* a directory made by launch() is there until the process ends or the reactor shuts down, and is
   gone from the moment the process has ended *)
Lemma temp_dir_removed cf h1 x h2 b : c_userdir cf = false ->
  In (EDir b) (concat (run_from cf (exec cf (m0 cf) h1) (OExit x :: h2))) -> b = false.
Proof.
  intros U H. destruct (dirs_in_run cf _ _ b H) as (k1 & o & k2 & E & ->).
  apply negb_false_iff.
  destruct k1 as [|o1 k1]; cbn [app] in E; injection E as <- E2.
  - unfold exec at 1. cbn [app fold_left]. rewrite gone_exit, U. apply orb_true_r.
  - unfold exec at 1. cbn [app fold_left]. apply gone_mono. rewrite gone_exit, U. apply orb_true_r.
Qed.

Definition no_end (o : op) : bool := match o with OExit _ | OShutdown => false | _ => true end.

Lemma temp_dir_kept cf h b : forallb no_end h = true ->
  In (EDir b) (concat (run cf h)) -> b = true.
Proof.
  intros NE H. unfold run in H. cbn [concat] in H. apply in_app_iff in H as [[H|[]]|H]; [congruence|].
  destruct (dirs_in_run cf h _ b H) as (h1 & o & h2 & E & ->).
  apply negb_true_iff.
  assert (NE1 : forallb no_end (h1 ++ [o]) = true).
  { rewrite E in NE. rewrite forallb_app in NE. apply andb_true_iff in NE as [A B]. cbn in B.
    apply andb_true_iff in B as [B _]. rewrite forallb_app, A. cbn. rewrite B. reflexivity. }
  clear E H. generalize (m0 cf), (eq_refl : gone (m0 cf) = false). revert NE1. generalize (h1 ++ [o]).
  induction l as [|o' l IH]; intros NE' m G; [exact G|]. cbn [forallb] in NE'. apply andb_true_iff in NE' as [A B].
  unfold exec. cbn [fold_left]. apply (IH B).
  destruct o'; try discriminate A; cbn [step];
    repeat match goal with
           | |- context[notify ?m1 ?r] => unfold notify; cbn [notified set_timer]
           | |- context[notified m] => destruct (notified m)
           | |- context[match ?x with _ => _ end] => destruct x
           end; cbn; auto.
Qed.

(* a success in the model's trace has a full bootstrap behind it (C19Sound applied to the model) *)
Lemma model_success_needs_full_bootstrap cf h : wf h = true -> ok_fired (concat (run cf h)) ->
  exists es0 tr', run cf h = es0 :: tr' /\ witness h tr'.
Proof.
  intros WF OF. exact (success_needs_full_bootstrap cf h (run cf h) (model_satisfies_oracle cf h WF) OF).
Qed.
