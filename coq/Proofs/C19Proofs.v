(* C19: the model of TorProcessProtocol/launch satisfies the oracle of Spec/C19.v on every
   physically possible history (wf), for every configuration.
   Part A: lists / constants.  Part B: the relation between model and spec states and its
   preservation by every operation, together with the verdict on the operation's chunk.
   Part C: whole histories, "no waiter fires twice", and the readable consequences. *)
From Coq Require Import List Bool Ascii Arith NArith Lia.
From TxVerif Require Import Lib.Bytes Spec.C19 Model.Launch Proofs.C19Sound.
Import ListNotations.
Open Scope N_scope.

(* ------------------------------------------------------------------------------------------ *)
(* Part A *)

Lemma memN_In k l : memN k l = true <-> In k l.
Proof.
  unfold memN. rewrite existsb_exists. split.
  - intros (x & H & E). apply N.eqb_eq in E. subst. exact H.
  - intros H. exists k. split; [exact H|apply N.eqb_refl].
Qed.

Lemma nodupN_NoDup l : NoDup l -> nodupN l = true.
Proof.
  induction 1 as [|x l Hx ND IH]; [reflexivity|]. cbn [nodupN]. rewrite IH, andb_true_r.
  apply negb_true_iff. destruct (memN x l) eqn:E; [|reflexivity]. apply memN_In in E. contradiction.
Qed.

Lemma nth_error_set_nth_same {A} n (x : A) l y : nth_error l n = Some y -> nth_error (set_nth n x l) n = Some x.
Proof. revert l. induction n as [|n IH]; intros [|z l] H; cbn in *; try discriminate; auto. Qed.

Lemma Forall2_nth {A B} (P : A -> B -> Prop) la lb n :
  Forall2 P la lb ->
  match nth_error la n, nth_error lb n with
  | Some a, Some b => P a b
  | None, None => True
  | _, _ => False
  end.
Proof.
  intros F. revert n. induction F as [|a b la lb Hab F IH]; intros [|n]; cbn; auto. apply IH.
Qed.

Lemma Forall2_set_nth {A B} (P : A -> B -> Prop) la lb n a b :
  Forall2 P la lb -> P a b -> Forall2 P (set_nth n a la) (set_nth n b lb).
Proof.
  intros F Hab. revert n. induction F as [|a' b' la lb H F IH]; intros [|n]; cbn; constructor; auto.
Qed.

Lemma Forall2_snoc {A B} (P : A -> B -> Prop) la lb a b :
  Forall2 P la lb -> P a b -> Forall2 P (la ++ [a]) (lb ++ [b]).
Proof. intros F H. apply Forall2_app; [exact F|constructor; [exact H|constructor]]. Qed.

Lemma C_setevents : prefixb w_SETEVENTS w_SETEVENTS_SC = true. Proof. vm_compute. reflexivity. Qed.
Lemma C_se_own : beqb w_SETEVENTS_SC w_TAKEOWNERSHIP = false. Proof. vm_compute. reflexivity. Qed.
Lemma C_own_se : prefixb w_SETEVENTS w_TAKEOWNERSHIP = false. Proof. vm_compute. reflexivity. Qed.
Lemma C_own_own : beqb w_TAKEOWNERSHIP w_TAKEOWNERSHIP = true. Proof. vm_compute. reflexivity. Qed.
Lemma C_reset_se : prefixb w_SETEVENTS w_RESETCONF = false. Proof. vm_compute. reflexivity. Qed.
Lemma C_reset_own : beqb w_RESETCONF w_TAKEOWNERSHIP = false. Proof. vm_compute. reflexivity. Qed.
Lemma C_term : beqb w_TERM w_TERM = true. Proof. vm_compute. reflexivity. Qed.
Global Opaque w_SETEVENTS_SC w_TAKEOWNERSHIP w_RESETCONF w_SETEVENTS w_TERM LISTENER.

(* ------------------------------------------------------------------------------------------ *)
(* Part B *)

Definition is_ok (r : res) : bool := match r with ROk => true | RFail _ => false end.

Definition held (who : option N) : bool := match who with None => true | Some _ => false end.

(* the config attach: model state a (with who is notified: nt) against the reference's counter n and
   "launch() result held back" flag w *)
Definition att_ok (nt : option res) (a : astate) (n : N) (w : bool) : Prop :=
  match a with
  | ARun n' who => n = n' /\ n' <> 0 /\ w = held who /\ (who = None -> nt = Some ROk)
  | _ => n = 0 /\ w = false
  end.

Definition crel (k : conn) (q : sconn) : Prop :=
  k_evon k = q_evon q /\
  (q_evon q = true -> q_auth q = true /\ q_own q = true /\ k_lreg k = true) /\
  match k_stage k with
  | SBoot => q_fifo q = [] /\ q_evon q = false
  | SEv => q_fifo q = [w_SETEVENTS_SC] /\ q_auth q = true /\ k_lreg k = true /\ q_evon q = false
  | SOwn => q_fifo q = [w_TAKEOWNERSHIP] /\ q_evon q = true
  | SReset => q_fifo q = [w_RESETCONF] /\ q_evon q = true
  | SAttach => q_fifo q = []
  | SIdle => q_fifo q = []
  end.

Record Rel (cf : cfg) (m : mst) (s : sst) : Prop := {
  L_conns : Forall2 crel (conns m) (s_conns s);
  L_npend : npend m = s_npend s;
  L_dec : s_decided s = option_map is_ok (notified m);
  L_wait : s_waiting s = waiters m;
  L_exited : exited m = s_exited s;
  L_gone : gone m = s_gone s && negb (c_userdir cf);
  L_timer : match timer m with
            | TNone => s_timer s = false
            | TPending => s_timer s = true /\ notified m <> Some ROk
            | TFired => s_timer s = false /\ notified m <> None
            | TCleared => notified m <> None
            end;
  L_exitnot : exited m = true -> notified m <> None;
  L_acc : s_tried s = false -> attempted m = false /\ collected m = s_acc s;
  L_att : att_ok (notified m) (catt m) (s_att s) (s_wait0 s);
  L_nest : s_nested s = nested m
}.

Lemma Rel_init cf : Rel cf (m0 cf) (s0 cf).
Proof.
  constructor; cbn; auto; try discriminate.
  - destruct (c_timeout cf); [split; [reflexivity|discriminate]|reflexivity].
Qed.

(* the chunk of an operation: what [step] emitted plus the directory observation *)
Lemma fires_app a b : fires (a ++ b) = fires a ++ fires b.
Proof. unfold fires. apply flat_map_app. Qed.
Lemma signals_app a b : signals (a ++ b) = signals a ++ signals b.
Proof. unfold signals. apply flat_map_app. Qed.
Lemma dirs_app a b : dirs (a ++ b) = dirs a ++ dirs b.
Proof. unfold dirs. apply flat_map_app. Qed.
Lemma nconn_app a b : n_connecting (a ++ b) = (n_connecting a + n_connecting b)%nat.
Proof. unfold n_connecting. now rewrite filter_app, app_length. Qed.

Lemma fires_fired ws r : fires (map (fun w => EFired w r) ws) = map (fun w => (w, r)) ws.
Proof. induction ws as [|w ws IH]; [reflexivity|]. cbn. f_equal. exact IH. Qed.
Lemma signals_fired ws r : signals (map (fun w => EFired w r) ws) = [].
Proof. induction ws as [|w ws IH]; [reflexivity|]. cbn. exact IH. Qed.
Lemma dirs_fired ws r : dirs (map (fun w => EFired w r) ws) = [].
Proof. induction ws as [|w ws IH]; [reflexivity|]. cbn. exact IH. Qed.
Lemma nconn_fired ws r : n_connecting (map (fun w => EFired w r) ws) = O.
Proof. induction ws as [|w ws IH]; [reflexivity|]. cbn. exact IH. Qed.
(* the reference state with the attach counter / "result held back" flag replaced *)
Definition satt (s : sst) (n : N) (w : bool) : sst :=
  {| s_conns := s_conns s; s_npend := s_npend s; s_decided := s_decided s; s_waiting := s_waiting s;
     s_exited := s_exited s; s_timer := s_timer s; s_gone := s_gone s; s_acc := s_acc s; s_tried := s_tried s;
     s_att := n; s_wait0 := w; s_nested := s_nested s |}.
Lemma satt_id s : satt s (s_att s) (s_wait0 s) = s.
Proof. destruct s; reflexivity. Qed.
Lemma satt_satt s n w n' w' : satt (satt s n w) n' w' = satt s n' w'.
Proof. reflexivity. Qed.

Lemma absorb_fired_all cf s ws r :
  absorb cf s (map (fun w => EFired w r) ws) = if memN 0 ws then satt s (s_att s) false else s.
Proof.
  unfold absorb, memN. revert s. induction ws as [|w ws IH]; intros s; [reflexivity|]. cbn [map fold_left absorb1 existsb].
  rewrite IH. rewrite (N.eqb_sym 0 w). destruct (w =? 0); cbn [orb]; destruct (existsb (N.eqb 0) ws); reflexivity.
Qed.
(* nobody is held back: the firings leave the reference state alone *)
Lemma absorb_fired cf s ws r : s_wait0 s = false -> absorb cf s (map (fun w => EFired w r) ws) = s.
Proof.
  intros W. rewrite absorb_fired_all. destruct (memN 0 ws); [|reflexivity].
  rewrite <- W. apply satt_id.
Qed.
Lemma absorb_app cf s a b : absorb cf s (a ++ b) = absorb cf (absorb cf s a) b.
Proof. unfold absorb. apply fold_left_app. Qed.

Lemma all_fire_self ws b r : NoDup ws -> res_is b r = true ->
  all_fire ws b (map (fun w => (w, r)) ws) = true.
Proof.
  intros ND Hr. unfold all_fire. rewrite map_map. cbn [fst]. rewrite map_id.
  rewrite (nodupN_NoDup _ ND). cbn [andb].
  assert (A : forallb (fun w => memN w ws) ws = true).
  { apply forallb_forall. intros w Hw. apply memN_In. exact Hw. }
  rewrite A. cbn [andb]. apply forallb_forall. intros [w r'] H. apply in_map_iff in H as (w' & E & _).
  injection E as _ <-. exact Hr.
Qed.

Definition good (cf : cfg) (m : mst) (s : sst) (o : op) : Prop :=
  let '(m', es) := op_chunk cf m o in
  chunk_ok cf s o es = true /\ Rel cf m' (spec_step cf s o es).

Lemma dir_ok (g u x : bool) : g = x && negb u -> Bool.eqb (negb g) (u || negb x) = true.
Proof. intros ->. destruct x, u; reflexivity. Qed.

Ltac dirgoal HR := apply dir_ok; cbn; try apply (L_gone _ _ _ HR).

Lemma good_out cf m s chunk : Rel cf m s -> good cf m s (OOut chunk).
Proof.
  intros HR. unfold good, op_chunk. cbn [step].
  destruct (attempted m) eqn:At.
  - (* already attempted: nothing *)
    assert (Tr : s_tried s = true).
    { destruct (s_tried s) eqn:T; [reflexivity|]. destruct (L_acc _ _ _ HR T) as [A _]. congruence. }
    split.
    + unfold chunk_ok. cbn [app dirs fires signals n_connecting flat_map filter length op_effect]. rewrite Tr.
      cbn. rewrite !andb_true_r. dirgoal HR.
    + unfold spec_step. cbn [op_effect]. rewrite Tr. cbn [app absorb fold_left absorb1]. exact HR.
  - destruct (s_tried s) eqn:Tr.
    + (* attempted before, reset by a failure: may connect again *)
      destruct (isinfix LISTENER (collected m ++ chunk)) eqn:I.
      * split.
        -- unfold chunk_ok. cbn [app dirs fires signals n_connecting flat_map filter length op_effect]. rewrite Tr.
           cbn. rewrite !andb_true_r. dirgoal HR.
        -- unfold spec_step. cbn [op_effect]. rewrite Tr. cbn [app absorb fold_left absorb1].
           destruct HR. constructor; cbn; auto; try congruence; try (intros; discriminate).
      * split.
        -- unfold chunk_ok. cbn [app dirs fires signals n_connecting flat_map filter length op_effect]. rewrite Tr.
           cbn. rewrite !andb_true_r. dirgoal HR.
        -- unfold spec_step. cbn [op_effect]. rewrite Tr. cbn [app absorb fold_left absorb1].
           destruct HR. constructor; cbn; auto; try congruence.
    + destruct (L_acc _ _ _ HR Tr) as [_ Ac].
      destruct (isinfix LISTENER (collected m ++ chunk)) eqn:I.
      * split.
        -- unfold chunk_ok. cbn [app dirs fires signals n_connecting flat_map filter length op_effect]. rewrite Tr.
           cbn [s_acc s_gone]. rewrite <- Ac, I. cbn. rewrite !andb_true_r. dirgoal HR.
        -- unfold spec_step. cbn [op_effect]. rewrite Tr. cbn [app absorb fold_left absorb1].
           destruct HR. constructor; cbn; auto; try congruence; try (intros; discriminate).
      * split.
        -- unfold chunk_ok. cbn [app dirs fires signals n_connecting flat_map filter length op_effect]. rewrite Tr.
           cbn [s_acc s_gone]. rewrite <- Ac, I. cbn. rewrite !andb_true_r. dirgoal HR.
        -- unfold spec_step. cbn [op_effect]. rewrite Tr. cbn [app absorb fold_left absorb1].
           destruct HR. constructor; cbn; auto; try congruence.
           intros _. split; [reflexivity|]. congruence.
Qed.

Ltac relsolve := constructor; cbn; auto; try congruence; try (intros; discriminate);
  try (intros HT; match goal with H : s_tried _ = false -> _ |- _ =>
         destruct (H HT) as [? ?]; split; auto; congruence end).

Lemma good_err cf m s chunk : Rel cf m s -> good cf m s (OErr chunk).
Proof.
  intros HR. unfold good, op_chunk. cbn [step]. destruct (c_killerr cf).
  - split.
    + unfold chunk_ok. cbn. rewrite !andb_true_r. dirgoal HR.
    + unfold spec_step. cbn. exact HR.
  - split.
    + unfold chunk_ok. cbn. rewrite !andb_true_r. dirgoal HR.
    + unfold spec_step. cbn. exact HR.
Qed.

Lemma good_status cf m s c : Rel cf m s -> good cf m s (OStatus c).
Proof.
  intros HR. unfold good, op_chunk. cbn [step]. split.
  - unfold chunk_ok. cbn. rewrite !andb_true_r. dirgoal HR.
  - unfold spec_step. cbn. exact HR.
Qed.

Lemma good_shutdown cf m s : Rel cf m s -> good cf m s OShutdown.
Proof.
  intros HR. unfold good, op_chunk. cbn [step]. split.
  - unfold chunk_ok. cbn. rewrite !andb_true_r.
    rewrite (L_gone _ _ _ HR). destruct (s_gone s), (c_userdir cf); reflexivity.
  - unfold spec_step. cbn. destruct HR. relsolve.
    rewrite L_gone0. destruct (s_gone s), (c_userdir cf); reflexivity.
Qed.

Lemma good_connok cf m s : Rel cf m s -> good cf m s OConnOk.
Proof.
  intros HR. unfold good, op_chunk. cbn [step]. pose proof (L_npend _ _ _ HR) as Np.
  destruct (npend m) as [|n] eqn:E.
  - split.
    + unfold chunk_ok. cbn. rewrite !andb_true_r. rewrite <- Np. dirgoal HR.
    + unfold spec_step. cbn. rewrite <- Np. cbn. exact HR.
  - split.
    + unfold chunk_ok. cbn. rewrite !andb_true_r. rewrite <- Np. dirgoal HR.
    + unfold spec_step. cbn. rewrite <- Np. cbn. destruct HR. relsolve.
      apply Forall2_snoc; [assumption|]. unfold crel. cbn. repeat split; auto; discriminate.
Qed.

Lemma good_connfail cf m s : Rel cf m s -> good cf m s OConnFail.
Proof.
  intros HR. unfold good, op_chunk. cbn [step]. pose proof (L_npend _ _ _ HR) as Np.
  destruct (npend m) as [|n] eqn:E.
  - split.
    + unfold chunk_ok. cbn. rewrite !andb_true_r. dirgoal HR.
    + unfold spec_step. cbn. rewrite <- Np. cbn. destruct HR. relsolve.
  - split.
    + unfold chunk_ok. cbn. rewrite !andb_true_r. dirgoal HR.
    + unfold spec_step. cbn. rewrite <- Np. cbn. destruct HR. relsolve.
Qed.

Lemma good_when cf m s w : Rel cf m s -> w <> 0 -> good cf m s (OWhen w).
Proof.
  intros HR W0. apply N.eqb_neq in W0. unfold good, op_chunk. cbn [step]. pose proof (L_dec _ _ _ HR) as Dc.
  destruct (notified m) as [r|] eqn:Nt; cbn in Dc.
  - split.
    + unfold chunk_ok. cbn. rewrite Dc. cbn. rewrite N.eqb_refl. cbn.
      assert (res_is (is_ok r) r = true) as -> by (destruct r; reflexivity).
      rewrite !andb_true_r. dirgoal HR.
    + unfold spec_step. cbn. rewrite Dc. cbn. rewrite W0. exact HR.
  - split.
    + unfold chunk_ok. cbn. rewrite Dc. cbn. rewrite !andb_true_r. dirgoal HR.
    + unfold spec_step. cbn. rewrite Dc. cbn. destruct HR. relsolve.
      * rewrite Nt in L_timer0. exact L_timer0.
      * rewrite Nt in L_exitnot0. exact L_exitnot0.
Qed.

(* when_connected() with a callback that asks again from inside the delivery *)
Lemma good_whenr cf m s w w' : Rel cf m s -> w <> 0 -> w' <> 0 -> w <> w' -> good cf m s (OWhenR w w').
Proof.
  intros HR W0 W0' Df. apply N.eqb_neq in W0, W0'. unfold good, op_chunk. cbn [step]. pose proof (L_dec _ _ _ HR) as Dc.
  destruct (notified m) as [r|] eqn:Nt; cbn in Dc.
  - assert (ND : NoDup [w; w']).
    { constructor; [intros [H|[]]; congruence|constructor; [intros []|constructor]]. }
    split.
    + unfold chunk_ok. cbn [app fires flat_map signals dirs n_connecting filter length op_effect]. rewrite Dc.
      change [(w, r); (w', r)] with (map (fun x => (x, r)) [w; w']).
      rewrite (all_fire_self [w; w'] (is_ok r) r ND) by (destruct r; reflexivity).
      cbn. rewrite !andb_true_r. dirgoal HR.
    + unfold spec_step. cbn. rewrite Dc. cbn. rewrite W0, W0'. exact HR.
  - split.
    + unfold chunk_ok. cbn. rewrite Dc. cbn. rewrite !andb_true_r. dirgoal HR.
    + unfold spec_step. cbn. rewrite Dc. cbn. destruct HR. relsolve.
      * rewrite Nt in L_timer0. exact L_timer0.
      * rewrite Nt in L_exitnot0. exact L_exitnot0.
Qed.

(* ---- operations on one control connection ---- *)
Lemma set_nth_set_nth {A} n (x y : A) l : set_nth n x (set_nth n y l) = set_nth n x l.
Proof. revert l. induction n as [|n IH]; intros [|z l]; cbn; auto. now rewrite IH. Qed.

Lemma conn_both cf m s c : Rel cf m s ->
  match getc m c, nthc s c with
  | Some k, Some q => crel k q
  | None, None => True
  | _, _ => False
  end.
Proof. intros HR. unfold getc, nthc. apply Forall2_nth. apply HR. Qed.

Lemma Forall2_set_nth_l {A B} (P : A -> B -> Prop) la lb n a b :
  Forall2 P la lb -> nth_error lb n = Some b -> P a b -> Forall2 P (set_nth n a la) lb.
Proof.
  intros F. revert n. induction F as [|a' b' la lb H F IH]; intros [|n] Hn Hab; cbn in *; try discriminate.
  - injection Hn as ->. constructor; auto.
  - constructor; auto.
Qed.

Lemma nthc_upd s c q0 q : nthc s c = Some q0 -> nthc (upd_conn s c q) c = Some q.
Proof. unfold nthc, upd_conn. cbn. apply nth_error_set_nth_same. Qed.

Lemma upd_upd s c q1 q2 : upd_conn (upd_conn s c q1) c q2 = upd_conn s c q2.
Proof. unfold upd_conn. cbn. rewrite set_nth_set_nth. reflexivity. Qed.

(* the connection changes on both sides (attempted_connect possibly reset) *)
Lemma Rel_upd cf m s c k' q' att :
  Rel cf m s -> crel k' q' -> (att = attempted m \/ att = false) ->
  Rel cf (set_attempted (putc m c k') att) (upd_conn s c q').
Proof.
  intros HR Cr At. destruct HR. constructor; cbn; auto.
  - apply Forall2_set_nth; assumption.
  - intros T. destruct (L_acc0 T) as [A B]. split; [|exact B]. destruct At; congruence.
Qed.

(* only the model's side changes *)
Lemma Rel_putc cf m s c k' q att :
  Rel cf m s -> nthc s c = Some q -> crel k' q -> (att = attempted m \/ att = false) ->
  Rel cf (set_attempted (putc m c k') att) s.
Proof.
  intros HR Nq Cr At. destruct HR. constructor; cbn; auto.
  - eapply Forall2_set_nth_l; eauto.
  - intros T. destruct (L_acc0 T) as [A B]. split; [|exact B]. destruct At; congruence.
Qed.

Lemma Forall2_set_nth_r {A B} (P : A -> B -> Prop) la lb n a b :
  Forall2 P la lb -> nth_error la n = Some a -> P a b -> Forall2 P la (set_nth n b lb).
Proof.
  intros F. revert n. induction F as [|a' b' la lb H F IH]; intros [|n] Hn Hab; cbn in *; try discriminate.
  - injection Hn as ->. constructor; auto.
  - constructor; auto.
Qed.

(* only the spec's side changes *)
Lemma Rel_upd_spec cf m s c k q' :
  Rel cf m s -> getc m c = Some k -> crel k q' -> Rel cf m (upd_conn s c q').
Proof.
  intros HR G Cr. destruct HR. constructor; cbn; auto.
  eapply Forall2_set_nth_r; eauto.
Qed.

Lemma absorb1_sent cf s c q cmd : nthc s c = Some q ->
  absorb1 cf s (ESent c cmd) =
  upd_conn s c {| q_auth := q_auth q; q_own := q_own q || beqb cmd w_TAKEOWNERSHIP; q_evon := q_evon q;
                  q_fifo := q_fifo q ++ [cmd] |}.
Proof. intros H. unfold absorb1. rewrite H. reflexivity. Qed.

Lemma absorb1_dir cf s b : absorb1 cf s (EDir b) = s. Proof. reflexivity. Qed.
Lemma absorb1_attach cf s c : absorb1 cf s (EAttach c) = satt s (c_attach cf) (s_wait0 s). Proof. reflexivity. Qed.

(* the config's side changes on both sides *)
Lemma Rel_satt cf m s a n w : Rel cf m s -> att_ok (notified m) a n w -> Rel cf (set_catt m a) (satt s n w).
Proof. intros HR A. destruct HR. constructor; cbn; auto. Qed.

Lemma gone_putc m c k : gone (putc m c k) = gone m. Proof. reflexivity. Qed.
Lemma gone_failed m c k : gone (coroutine_failed m c k) = gone m. Proof. reflexivity. Qed.

Ltac crel_solve CB St :=
  unfold crel in *; rewrite ?St in *; cbn in *;
  rewrite ?C_setevents, ?C_se_own, ?C_own_se, ?C_own_own, ?C_reset_se, ?C_reset_own, ?orb_false_r, ?andb_false_r,
    ?andb_true_r, ?orb_true_r in *;
  cbn in *; intuition (subst; cbn in *; auto; try congruence; try discriminate).

Lemma good_boot cf m s c ok : Rel cf m s -> good cf m s (OBoot c ok).
Proof.
  intros HR. unfold good, op_chunk. cbn [step]. pose proof (conn_both cf m s c HR) as CB.
  pose proof (L_gone _ _ _ HR) as Hg.
  destruct (getc m c) as [k|] eqn:G; destruct (nthc s c) as [q|] eqn:Nq; try contradiction.
  2:{ split.
      - unfold chunk_ok. cbn. rewrite Nq. cbn. rewrite !andb_true_r. dirgoal HR.
      - unfold spec_step. cbn. rewrite Nq. cbn. exact HR. }
  destruct q as [qa qo qe qf].
  destruct (k_stage k) eqn:St; destruct ok;
    (split;
     [ unfold chunk_ok; cbn; rewrite ?Nq; cbn; rewrite !andb_true_r; apply dir_ok; exact Hg
     | unfold spec_step; cbn [op_effect]; rewrite Nq; cbn [app absorb fold_left]; rewrite ?absorb1_dir ]).
  - (* SBoot, ok: the listener is registered and SETEVENTS sent *)
    rewrite (absorb1_sent _ _ _ _ _ (nthc_upd _ _ _ _ Nq)), upd_upd. cbn [q_auth q_own q_evon q_fifo].
    change (putc m c ?k') with (set_attempted (putc m c k') (attempted m)).
    apply Rel_upd; [exact HR| |left; reflexivity]. crel_solve CB St.
  - (* SBoot, failed *)
    unfold coroutine_failed. eapply Rel_putc; [exact HR|exact Nq| |right; reflexivity]. crel_solve CB St.
  - eapply Rel_upd_spec; [exact HR|exact G|]; crel_solve CB St.
  - exact HR.
  - eapply Rel_upd_spec; [exact HR|exact G|]; crel_solve CB St.
  - exact HR.
  - eapply Rel_upd_spec; [exact HR|exact G|]; crel_solve CB St.
  - exact HR.
  - eapply Rel_upd_spec; [exact HR|exact G|]; crel_solve CB St.
  - exact HR.
  - eapply Rel_upd_spec; [exact HR|exact G|]; crel_solve CB St.
  - exact HR.
Qed.

Lemma good_ack cf m s c ok : Rel cf m s -> good cf m s (OAck c ok).
Proof.
  intros HR. unfold good, op_chunk. cbn [step]. pose proof (conn_both cf m s c HR) as CB.
  pose proof (L_gone _ _ _ HR) as Hg.
  destruct (getc m c) as [k|] eqn:G; destruct (nthc s c) as [q|] eqn:Nq; try contradiction.
  2:{ split.
      - unfold chunk_ok. cbn. rewrite Nq. cbn. rewrite !andb_true_r. dirgoal HR.
      - unfold spec_step. cbn. rewrite Nq. cbn. exact HR. }
  destruct q as [qa qo qe qf].
  destruct (k_stage k) eqn:St.
  - (* nothing outstanding *)
    assert (qf = []) by (unfold crel in CB; rewrite St in CB; cbn in CB; tauto). subst qf.
    split.
    + unfold chunk_ok. cbn. rewrite Nq. cbn. rewrite !andb_true_r. apply dir_ok. exact Hg.
    + unfold spec_step. cbn [op_effect]. rewrite Nq. cbn. exact HR.
  - (* SETEVENTS answered *)
    assert (qf = [w_SETEVENTS_SC]) by (unfold crel in CB; rewrite St in CB; cbn in CB; tauto). subst qf.
    destruct ok;
      (split;
       [ unfold chunk_ok; cbn; rewrite ?Nq; cbn; rewrite !andb_true_r; apply dir_ok; exact Hg
       | unfold spec_step; cbn [op_effect]; rewrite Nq; cbn [q_fifo q_auth q_own q_evon app absorb fold_left];
         rewrite ?absorb1_dir ]).
    + rewrite (absorb1_sent _ _ _ _ _ (nthc_upd _ _ _ _ Nq)), upd_upd. cbn [q_auth q_own q_evon q_fifo].
      change (putc m c ?k') with (set_attempted (putc m c k') (attempted m)).
      apply Rel_upd; [exact HR| |left; reflexivity]. crel_solve CB St.
    + unfold coroutine_failed. apply Rel_upd; [exact HR| |right; reflexivity]. crel_solve CB St.
  - (* TAKEOWNERSHIP answered *)
    assert (qf = [w_TAKEOWNERSHIP]) by (unfold crel in CB; rewrite St in CB; cbn in CB; tauto). subst qf.
    destruct ok;
      (split;
       [ unfold chunk_ok; cbn; rewrite ?Nq; cbn; rewrite !andb_true_r; apply dir_ok; exact Hg
       | unfold spec_step; cbn [op_effect]; rewrite Nq; cbn [q_fifo q_auth q_own q_evon app absorb fold_left];
         rewrite ?absorb1_dir ]).
    + rewrite (absorb1_sent _ _ _ _ _ (nthc_upd _ _ _ _ Nq)), upd_upd. cbn [q_auth q_own q_evon q_fifo].
      change (putc m c ?k') with (set_attempted (putc m c k') (attempted m)).
      apply Rel_upd; [exact HR| |left; reflexivity]. crel_solve CB St.
    + unfold coroutine_failed. apply Rel_upd; [exact HR| |right; reflexivity]. crel_solve CB St.
  - (* RESETCONF answered: the config is attached if nobody did it yet *)
    assert (qf = [w_RESETCONF]) by (unfold crel in CB; rewrite St in CB; cbn in CB; tauto). subst qf.
    pose proof (L_att _ _ _ HR) as At.
    destruct ok.
    2:{ split;
       [ unfold chunk_ok; cbn; rewrite ?Nq; cbn; rewrite !andb_true_r; apply dir_ok; exact Hg
       | unfold spec_step; cbn [op_effect]; rewrite Nq; cbn [q_fifo q_auth q_own q_evon app absorb fold_left];
         rewrite ?absorb1_dir ].
       unfold coroutine_failed. apply Rel_upd; [exact HR| |right; reflexivity]. crel_solve CB St. }
    assert (Idle : Rel cf (set_attempted (putc m c {| k_stage := SIdle; k_lreg := k_lreg k; k_evon := k_evon k |}) (attempted m))
                          (upd_conn s c {| q_auth := qa; q_own := qo; q_evon := qe || (true && prefixb w_SETEVENTS w_RESETCONF); q_fifo := [] |})).
    { apply Rel_upd; [exact HR| |left; reflexivity]. crel_solve CB St. }
    assert (Att : Rel cf (set_attempted (putc m c {| k_stage := SAttach; k_lreg := k_lreg k; k_evon := k_evon k |}) (attempted m))
                         (upd_conn s c {| q_auth := qa; q_own := qo; q_evon := qe || (true && prefixb w_SETEVENTS w_RESETCONF); q_fifo := [] |})).
    { apply Rel_upd; [exact HR| |left; reflexivity]. crel_solve CB St. }
    destruct (catt m) as [|n who|] eqn:Ca.
    + (* config.protocol is None: attach_protocol(proto) *)
      destruct (c_attach cf =? 0) eqn:A0.
      * split;
          [ unfold chunk_ok; cbn; rewrite ?Nq; cbn; rewrite !andb_true_r; apply dir_ok; exact Hg
          | unfold spec_step; cbn [op_effect]; rewrite Nq; cbn [q_fifo q_auth q_own q_evon app absorb fold_left];
            rewrite ?absorb1_dir, absorb1_attach ].
        apply N.eqb_eq in A0. rewrite A0.
        apply (Rel_satt _ _ _ ADone 0 _ Idle). cbn. split; [reflexivity|]. cbn in At. apply At.
      * split;
          [ unfold chunk_ok; cbn; rewrite ?Nq; cbn; rewrite !andb_true_r; apply dir_ok; exact Hg
          | unfold spec_step; cbn [op_effect]; rewrite Nq; cbn [q_fifo q_auth q_own q_evon app absorb fold_left];
            rewrite ?absorb1_dir, absorb1_attach ].
        apply N.eqb_neq in A0.
        apply (Rel_satt _ _ _ (ARun (c_attach cf) (Some c)) _ _ Att). cbn. repeat split; auto; try discriminate.
        cbn in At. apply At.
    + split;
        [ unfold chunk_ok; cbn; rewrite ?Nq; cbn; rewrite !andb_true_r; apply dir_ok; exact Hg
        | unfold spec_step; cbn [op_effect]; rewrite Nq; cbn [q_fifo q_auth q_own q_evon app absorb fold_left];
          rewrite ?absorb1_dir ].
      exact Idle.
    + split;
        [ unfold chunk_ok; cbn; rewrite ?Nq; cbn; rewrite !andb_true_r; apply dir_ok; exact Hg
        | unfold spec_step; cbn [op_effect]; rewrite Nq; cbn [q_fifo q_auth q_own q_evon app absorb fold_left];
          rewrite ?absorb1_dir ].
      exact Idle.
  - (* attaching: nothing outstanding on the connection *)
    assert (qf = []) by (unfold crel in CB; rewrite St in CB; cbn in CB; tauto). subst qf.
    split.
    + unfold chunk_ok. cbn. rewrite Nq. cbn. rewrite !andb_true_r. apply dir_ok. exact Hg.
    + unfold spec_step. cbn [op_effect]. rewrite Nq. cbn. exact HR.
  - assert (qf = []) by (unfold crel in CB; rewrite St in CB; cbn in CB; tauto). subst qf.
    split.
    + unfold chunk_ok. cbn. rewrite Nq. cbn. rewrite !andb_true_r. apply dir_ok. exact Hg.
    + unfold spec_step. cbn [op_effect]. rewrite Nq. cbn. exact HR.
Qed.

(* ---- the three decisive stimuli ---- *)
Lemma is_ok_fail r : r <> ROk -> is_ok r = false.
Proof. destruct r; [congruence|reflexivity]. Qed.

Lemma s_gone_if (b : bool) s : s_gone (if b then decide_ok s else s) = s_gone s.
Proof. destruct b; [|reflexivity]. unfold decide_ok. destruct (s_decided s); reflexivity. Qed.

(* the chunk of a 100% report: EProgress, what the notification emits, the directory *)
Lemma fires_wrap p l b : fires ((EProgress p :: l) ++ [EDir b]) = fires l.
Proof. rewrite fires_app. cbn. apply app_nil_r. Qed.
Lemma signals_wrap p l b : signals ((EProgress p :: l) ++ [EDir b]) = signals l.
Proof. rewrite signals_app. cbn. apply app_nil_r. Qed.
Lemma dirs_wrap p l b : dirs ((EProgress p :: l) ++ [EDir b]) = dirs l ++ [b].
Proof. rewrite dirs_app. reflexivity. Qed.
Lemma nconn_wrap p l b : n_connecting ((EProgress p :: l) ++ [EDir b]) = n_connecting l.
Proof. rewrite nconn_app. cbn. apply Nat.add_0_r. Qed.
Lemma absorb_wrap cf s p l b : absorb cf s ((EProgress p :: l) ++ [EDir b]) = absorb cf s l.
Proof. rewrite absorb_app. reflexivity. Qed.

Lemma memN_app k a b : memN k (a ++ b) = memN k a || memN k b.
Proof. apply existsb_app. Qed.

Lemma memN_drop0 ws : memN 0 (drop0 ws) = false.
Proof.
  unfold memN, drop0. induction ws as [|w ws IH]; [reflexivity|]. cbn [filter].
  destruct (w =? 0) eqn:E; cbn [negb]; [exact IH|]. cbn [existsb]. rewrite IH, N.eqb_sym, E. reflexivity.
Qed.

(* what launch() does when the Deferred of its own when_connected() call fires with success *)
Definition resumed (cf : cfg) (m : mst) (a : astate) (pre : list obs) (hd : bool) : Prop :=
  (a = catt m /\ pre = [] /\ hd = false) \/
  (catt m = ANone /\ memN 0 (waiters m) = true /\ exists c, pre = [EAttach c] /\
     (((c_attach cf =? 0) = true /\ a = ADone /\ hd = false) \/
      ((c_attach cf =? 0) = false /\ a = ARun (c_attach cf) None /\ hd = true))).

Lemma resumes_cases cf m :
  let '(a, pre, hd) := (if memN 0 (waiters m) then launch_resumes cf m else (catt m, [], false)) in
  resumed cf m a pre hd.
Proof.
  unfold resumed. destruct (memN 0 (waiters m)) eqn:M; [|left; auto].
  unfold launch_resumes. destruct (catt m) eqn:Ca; try (left; auto; fail).
  destruct (lastc m) as [c|]; [|left; auto].
  destruct (c_attach cf =? 0) eqn:A0; right; repeat split; auto; exists c; split; auto.
Qed.

Lemma Rel_nowait cf m s : Rel cf m s -> notified m = None -> s_wait0 s = false.
Proof.
  intros HR Nt. pose proof (L_att _ _ _ HR) as At. unfold att_ok in At. destruct (catt m) as [|n who|]; try apply At.
  destruct At as (_ & _ & W & X). rewrite W. destruct who; [reflexivity|]. rewrite X in Nt; [discriminate|reflexivity].
Qed.

(* 100% on a fully bootstrapped connection while undecided: everybody is told; the launch() result
   is held back when launch() has to attach the configuration first *)
Lemma progress_success cf m s c p t a pre hd :
  Rel cf m s -> NoDup (allw m) -> notified m = None ->
  (p =? 100) = true -> delivered s c = true -> full_bootstrap s c = true ->
  ((t = TNone /\ s_timer s = false) \/ t = TCleared) -> resumed cf m a pre hd ->
  let m1 := {| attempted := attempted m; collected := collected m; npend := npend m; conns := conns m; timer := t;
               notified := Some ROk; waiters := []; did_timeout := did_timeout m; exited := exited m; gone := gone m;
               catt := a; nested := [] |} in
  let es := (EProgress p :: pre ++ map (fun w => EFired w ROk) (if hd then drop0 (allw m) else allw m))
            ++ [EDir (negb (gone m))] in
  chunk_ok cf s (OProgress c p) es = true /\ Rel cf m1 (spec_step cf s (OProgress c p) es).
Proof.
  intros HR ND Nt P100 Dl Fb Ht Hc m1 es.
  pose proof (L_dec _ _ _ HR) as Dc. rewrite Nt in Dc. cbn in Dc.
  pose proof (L_wait _ _ _ HR) as Wt. pose proof (L_nest _ _ _ HR) as Nn. pose proof (L_att _ _ _ HR) as At. pose proof (Rel_nowait _ _ _ HR Nt) as W0.
  assert (Eff : op_effect cf s (OProgress c p) =
                {| s_conns := s_conns s; s_npend := s_npend s; s_decided := Some true; s_waiting := [];
                   s_exited := s_exited s; s_timer := s_timer s; s_gone := s_gone s; s_acc := s_acc s;
                   s_tried := s_tried s; s_att := s_att s; s_wait0 := memN 0 (waiters m); s_nested := [] |}).
  { cbn [op_effect]. rewrite P100, Fb. cbn [andb]. unfold decide_ok. rewrite Dc, Wt. reflexivity. }
  (* the three parts of the verdict that do not depend on who fires *)
  assert (Pre : forall fs, (all_fire (allw m) true fs
                            || (negb (s_att (absorb cf (op_effect cf s (OProgress c p)) es) =? 0)
                                && all_fire (drop0 (allw m)) true fs)) = true ->
                fires es = fs -> signals es = [] -> dirs es = [negb (gone m)] -> n_connecting es = O ->
                chunk_ok cf s (OProgress c p) es = true).
  { intros fs Hf E1 E2 E3 E4. unfold chunk_ok. rewrite E1, E2, E3, E4, P100, Dl, Dc, Fb, Wt, Nn. fold (allw m). rewrite Hf.
    rewrite Eff. cbn. rewrite !andb_true_r. dirgoal HR. }
  destruct Hc as [(-> & -> & ->)|(Ca & M0 & c' & -> & [(A0 & -> & ->)|(A0 & -> & ->)])].
  - (* launch() returns at once *)
    split.
    + apply (Pre (map (fun w => (w, ROk)) (allw m))).
      * rewrite (all_fire_self (allw m) true ROk ND eq_refl). reflexivity.
      * unfold es. rewrite fires_wrap. cbn [app]. apply fires_fired.
      * unfold es. rewrite signals_wrap. cbn [app]. apply signals_fired.
      * unfold es. rewrite dirs_wrap. cbn [app]. rewrite dirs_fired. reflexivity.
      * unfold es. rewrite nconn_wrap. cbn [app]. apply nconn_fired.
    + unfold spec_step, es. rewrite Eff, absorb_wrap. cbn [app]. rewrite absorb_fired_all.
      cbn [s_att]. unfold m1.
      assert (A' : att_ok (Some ROk) (catt m) (s_att s) false).
      { unfold att_ok in *. destruct (catt m) as [|n who|]; try (split; [apply At|reflexivity]).
        destruct At as (A1 & A2 & A3 & A4). repeat split; auto. congruence. }
      unfold allw. rewrite memN_app.
      destruct (memN 0 (waiters m)); destruct (memN 0 (nested m)); cbn [orb]; destruct HR; constructor; cbn; auto; try discriminate;
        destruct Ht as [[-> Hs]| ->]; try exact Hs; try discriminate.
  - (* launch() attaches the configuration, which needs no round trip *)
    split.
    + apply (Pre (map (fun w => (w, ROk)) (allw m))).
      * rewrite (all_fire_self (allw m) true ROk ND eq_refl). reflexivity.
      * unfold es. rewrite fires_wrap, fires_app. cbn [fires flat_map app]. apply fires_fired.
      * unfold es. rewrite signals_wrap, signals_app. cbn [signals flat_map app]. apply signals_fired.
      * unfold es. rewrite dirs_wrap, dirs_app. cbn [dirs flat_map app]. rewrite dirs_fired. reflexivity.
      * unfold es. rewrite nconn_wrap, nconn_app. cbn [n_connecting filter length Nat.add]. apply nconn_fired.
    + unfold spec_step, es. rewrite Eff, absorb_wrap, absorb_app. cbn [absorb fold_left].
      rewrite absorb1_attach. fold (absorb cf). rewrite absorb_fired_all. apply N.eqb_eq in A0. rewrite A0.
      cbn [s_att s_wait0 satt]. unfold m1.
      unfold allw. rewrite memN_app.
      destruct (memN 0 (waiters m)); destruct (memN 0 (nested m)); cbn [orb]; destruct HR; constructor; cbn; auto; try discriminate;
        destruct Ht as [[-> Hs]| ->]; try exact Hs; try discriminate.
  - (* launch() attaches the configuration and waits for it: its result is held back *)
    assert (Ab : absorb cf (op_effect cf s (OProgress c p)) es
                 = satt (op_effect cf s (OProgress c p)) (c_attach cf) true).
    { unfold es. rewrite Eff, absorb_wrap, absorb_app. cbn [absorb fold_left].
      rewrite absorb1_attach. fold (absorb cf). rewrite absorb_fired_all, memN_drop0. rewrite M0. reflexivity. }
    split.
    + apply (Pre (map (fun w => (w, ROk)) (drop0 (allw m)))).
      * rewrite Ab. cbn [s_att satt]. rewrite A0. cbn [negb andb].
        rewrite (all_fire_self (drop0 (allw m)) true ROk (NoDup_filter _ ND) eq_refl). apply orb_true_r.
      * unfold es. rewrite fires_wrap, fires_app. cbn [fires flat_map app]. apply fires_fired.
      * unfold es. rewrite signals_wrap, signals_app. cbn [signals flat_map app]. apply signals_fired.
      * unfold es. rewrite dirs_wrap, dirs_app. cbn [dirs flat_map app]. rewrite dirs_fired. reflexivity.
      * unfold es. rewrite nconn_wrap, nconn_app. cbn [n_connecting filter length Nat.add]. apply nconn_fired.
    + unfold spec_step. rewrite Ab, Eff. unfold m1. apply N.eqb_neq in A0.
      destruct HR; constructor; cbn; auto; try discriminate;
        destruct Ht as [[-> Hs]| ->]; try exact Hs; try discriminate.
Qed.

Lemma good_progress cf m s c p : Rel cf m s -> NoDup (allw m) -> good cf m s (OProgress c p).
Proof.
  intros HR ND. unfold good, op_chunk. cbn [step]. pose proof (conn_both cf m s c HR) as CB.
  pose proof (L_gone _ _ _ HR) as Hg. pose proof (L_dec _ _ _ HR) as Dc. pose proof (L_wait _ _ _ HR) as Wt.
  pose proof (L_timer _ _ _ HR) as Tm.
  destruct (getc m c) as [k|] eqn:G; destruct (nthc s c) as [q|] eqn:Nq; try contradiction.
  2:{ split.
      - unfold chunk_ok. cbn. unfold delivered. rewrite Nq. cbn. rewrite ?andb_false_r. cbn.
        rewrite !andb_true_r, ?s_gone_if. dirgoal HR.
      - unfold spec_step. cbn. unfold full_bootstrap. rewrite Nq. rewrite andb_false_r. cbn. exact HR. }
  unfold crel in CB. destruct CB as (Ev & Imp & _).
  destruct (q_evon q) eqn:Qe.
  2:{ rewrite Ev. cbn [andb]. split.
      - unfold chunk_ok. cbn. unfold delivered. rewrite Nq, Qe. cbn. rewrite ?andb_false_r. cbn.
        rewrite !andb_true_r, ?s_gone_if. dirgoal HR.
      - unfold spec_step. cbn. unfold full_bootstrap. rewrite Nq, Qe. cbn. rewrite andb_false_r. cbn. exact HR. }
  destruct (Imp eq_refl) as (Qa & Qo & Lr). rewrite Ev, Lr. cbn [andb].
  assert (Dl : delivered s c = true) by (unfold delivered; rewrite Nq; exact Qe).
  assert (Fb : full_bootstrap s c = true) by (unfold full_bootstrap; rewrite Nq, Qe, Qa, Qo; reflexivity).
  destruct (p =? 100) eqn:P100.
  2:{ split.
      - unfold chunk_ok. cbn. rewrite P100. cbn. rewrite !andb_true_r, ?s_gone_if. dirgoal HR.
      - unfold spec_step. cbn. rewrite P100. cbn. exact HR. }
  destruct (notified m) as [r|] eqn:Nt; cbn in Dc.
  - (* already decided: nothing fires *)
    assert (Case : forall m1, notified m1 = Some r -> gone m1 = gone m -> Rel cf m1 s ->
                   chunk_ok cf s (OProgress c p) ((EProgress p :: []) ++ [EDir (negb (gone m1))]) = true /\
                   Rel cf m1 (spec_step cf s (OProgress c p) ((EProgress p :: []) ++ [EDir (negb (gone m1))]))).
    { intros m1 _ Gm HR1. split.
      - unfold chunk_ok. cbn. rewrite P100, Dl, Dc. cbn. rewrite !andb_true_r, ?s_gone_if. rewrite Gm. dirgoal HR.
      - unfold spec_step. cbn. rewrite P100, Fb. cbn. unfold decide_ok. rewrite Dc. cbn. exact HR1. }
    destruct (timer m) eqn:Ti.
    + unfold notify_ok. rewrite Nt. apply Case; auto.
    + unfold notify_ok. cbn [set_timer notified]. rewrite Nt. apply Case; auto.
      destruct HR. constructor; cbn; auto. rewrite Nt. discriminate.
    + split.
      * unfold chunk_ok. cbn. rewrite P100, Dl, Dc. cbn. rewrite !andb_true_r, ?s_gone_if. dirgoal HR.
      * unfold spec_step. cbn. rewrite P100, Fb. cbn. unfold decide_ok. rewrite Dc. cbn. exact HR.
    + unfold notify_ok. rewrite Nt. apply Case; auto.
  - (* undecided: success *)
    pose proof (resumes_cases cf m) as RC.
    destruct (timer m) eqn:Ti.
    + unfold notify_ok. rewrite Nt.
      destruct (if memN 0 (waiters m) then launch_resumes cf m else (catt m, [], false)) as [[a pre] hd].
      rewrite ?Ti.
      apply (progress_success cf m s c p TNone a pre hd HR ND Nt P100 Dl Fb); [left; auto|exact RC].
    + unfold notify_ok. cbn [set_timer notified waiters attempted collected npend conns did_timeout exited gone timer catt].
      rewrite Nt. change (launch_resumes cf (set_timer m TCleared)) with (launch_resumes cf m).
      destruct (if memN 0 (waiters m) then launch_resumes cf m else (catt m, [], false)) as [[a pre] hd].
      apply (progress_success cf m s c p TCleared a pre hd HR ND Nt P100 Dl Fb); [right; reflexivity|exact RC].
    + destruct Tm as [_ X]. congruence.
    + congruence.
Qed.

Lemma good_timeout cf m s : Rel cf m s -> NoDup (allw m) -> good cf m s OTimeout.
Proof.
  intros HR ND. unfold good, op_chunk. cbn [step].
  pose proof (L_gone _ _ _ HR) as Hg. pose proof (L_dec _ _ _ HR) as Dc. pose proof (L_wait _ _ _ HR) as Wt.
  pose proof (L_timer _ _ _ HR) as Tm. pose proof (L_exitnot _ _ _ HR) as Ex.
  destruct (timer m) eqn:Ti.
  - split.
    + unfold chunk_ok. cbn. rewrite Tm. cbn. rewrite !andb_true_r. dirgoal HR.
    + unfold spec_step. cbn. rewrite Tm. cbn. exact HR.
  - destruct Tm as [Tm NotOk].
    destruct (notified m) as [r|] eqn:Nt; cbn in Dc.
    + (* failed before (the process ended): nothing fires *)
      assert (Dc' : s_decided s = Some false) by (rewrite Dc, is_ok_fail; [reflexivity|congruence]).
      unfold notify. cbn [notified]. rewrite ?Nt. cbv beta iota. rewrite app_nil_r. split.
      * unfold chunk_ok. rewrite fires_app, signals_app, dirs_app, nconn_app.
        cbn [op_effect]. rewrite Tm, Dc'. unfold decide. rewrite Dc'. cbn [s_gone gone].
        destruct (exited m); cbn; rewrite !andb_true_r; dirgoal HR.
      * unfold spec_step. cbn [op_effect]. rewrite Tm. unfold decide. rewrite Dc'. rewrite absorb_app.
        assert (A : forall s1, absorb cf s1 (if exited m then [ELoseConn] else [ESignal w_TERM]) = s1) by (intros; destruct (exited m); reflexivity).
        rewrite A. cbn. destruct HR. constructor; cbn; auto.
        -- split; [reflexivity|discriminate].
        -- rewrite Nt in L_att0. exact L_att0.
    + (* undecided: TERM and failure *)
      assert (Ea : exited m = false) by (destruct (exited m); [exfalso; apply Ex; reflexivity|reflexivity]).
      rewrite Ea. unfold notify, allw. cbn [notified waiters nested]. rewrite ?Nt. cbv beta iota. fold (allw m). split.
      * unfold chunk_ok. rewrite !fires_app, !signals_app, !dirs_app, !nconn_app, fires_fired, signals_fired, dirs_fired, nconn_fired.
        cbn [fires signals dirs flat_map app n_connecting filter length Nat.add op_effect].
        rewrite Tm, Dc, Wt, (L_nest _ _ _ HR). fold (allw m). unfold decide. rewrite Dc. cbn [s_gone gone]. rewrite app_nil_r.
        rewrite (all_fire_self (allw m) false (RFail 1) ND eq_refl). rewrite C_term.
        cbn. rewrite !andb_true_r. dirgoal HR.
      * unfold spec_step. cbn [op_effect]. rewrite Tm. unfold decide. rewrite Dc.
        rewrite !absorb_app, absorb_fired by (cbn; apply (Rel_nowait _ _ _ HR Nt)). cbn.
        pose proof (Rel_nowait _ _ _ HR Nt) as W0.
        destruct HR. constructor; cbn; auto; try discriminate; try congruence.
        -- split; [reflexivity|discriminate].
        -- unfold att_ok in *. rewrite Nt in L_att0. destruct (catt m) as [|n who|]; auto.
           destruct L_att0 as (A1 & A2 & A3 & A4). repeat split; auto. intros ->. discriminate (A4 eq_refl).
  - destruct Tm as [Tm NN]. split.
    + unfold chunk_ok. cbn. rewrite Tm. cbn. rewrite !andb_true_r. dirgoal HR.
    + unfold spec_step. cbn. rewrite Tm. cbn. exact HR.
  - destruct (notified m) as [r|] eqn:Nt; [|congruence]. cbn in Dc.
    destruct (s_timer s) eqn:St.
    + split.
      * unfold chunk_ok. cbn. rewrite St, Dc. unfold decide. rewrite Dc. cbn.
        destruct (is_ok r); cbn; rewrite !andb_true_r; dirgoal HR.
      * unfold spec_step. cbn. rewrite St. unfold decide. rewrite Dc. cbn.
        destruct HR. constructor; cbn; auto. rewrite Ti. rewrite Nt. discriminate.
    + split.
      * unfold chunk_ok. cbn. rewrite St. cbn. rewrite !andb_true_r. dirgoal HR.
      * unfold spec_step. cbn. rewrite St. cbn. exact HR.
Qed.

Lemma good_exit cf m s x : Rel cf m s -> NoDup (allw m) -> good cf m s (OExit x).
Proof.
  intros HR ND. unfold good, op_chunk. cbn [step].
  pose proof (L_gone _ _ _ HR) as Hg. pose proof (L_dec _ _ _ HR) as Dc. pose proof (L_wait _ _ _ HR) as Wt.
  pose proof (L_timer _ _ _ HR) as Tm.
  set (kd := match x with XCode _ => 2 | XSignal _ => if did_timeout m then 4 else 3 end).
  assert (Gd : forall g u sg, g = sg && negb u -> Bool.eqb (negb (g || negb u)) (u || false) = true).
  { intros g u sg ->. destruct sg, u; reflexivity. }
  destruct (notified m) as [r|] eqn:Nt; cbn in Dc.
  - unfold notify. cbn [notified]. rewrite ?Nt. cbv beta iota. split.
    + unfold chunk_ok. cbn. rewrite Dc. cbn. rewrite !andb_true_r. eapply Gd. exact Hg.
    + unfold spec_step. cbn. unfold decide. rewrite Dc. cbn.
      destruct HR. constructor; cbn; auto; try discriminate;
        try (rewrite L_gone0; destruct (s_gone s), (c_userdir cf); reflexivity);
        try (rewrite Nt in L_att0; exact L_att0);
        try (destruct (timer m); auto).
  - unfold notify, allw. cbn [notified waiters nested]. rewrite ?Nt. cbv beta iota. fold (allw m). split.
    + unfold chunk_ok. rewrite !fires_app, !signals_app, !dirs_app, !nconn_app, fires_fired, signals_fired, dirs_fired, nconn_fired.
      cbn [fires signals dirs flat_map app n_connecting filter length Nat.add op_effect].
      rewrite Dc, Wt, (L_nest _ _ _ HR). fold (allw m). unfold decide. rewrite Dc. cbn [s_gone gone].
      rewrite ?app_nil_r. rewrite (all_fire_self (allw m) false (RFail kd) ND eq_refl).
      cbn. rewrite !andb_true_r. eapply Gd. exact Hg.
    + unfold spec_step. cbn [op_effect]. unfold decide. rewrite Dc.
      rewrite !absorb_app, absorb_fired by (cbn; apply (Rel_nowait _ _ _ HR Nt)). cbn.
      destruct HR. constructor; cbn; auto; try discriminate;
        try (rewrite L_gone0; destruct (s_gone s), (c_userdir cf); reflexivity).
      * destruct (timer m); auto; try discriminate;
          destruct L_timer0; split; try assumption; discriminate.
      * unfold att_ok in *. rewrite Nt in L_att0. destruct (catt m) as [|n who|]; auto.
        destruct L_att0 as (A1 & A2 & A3 & A4). repeat split; auto. intros ->. discriminate (A4 eq_refl).
Qed.

(* ---- an answer to the config attach in flight ---- *)
Lemma good_attach cf m s ok : Rel cf m s -> good cf m s (OAttach ok).
Proof.
  intros HR. unfold good, op_chunk. cbn [step].
  pose proof (L_gone _ _ _ HR) as Hg. pose proof (L_att _ _ _ HR) as At. unfold att_ok in At.
  assert (None0 : s_att s = 0 -> s_wait0 s = false ->
                  chunk_ok cf s (OAttach ok) ([] ++ [EDir (negb (gone m))]) = true /\
                  Rel cf m (spec_step cf s (OAttach ok) ([] ++ [EDir (negb (gone m))]))).
  { intros A0 W0. split.
    - unfold chunk_ok. cbn. rewrite A0, W0. cbn. rewrite !andb_true_r. dirgoal HR.
    - unfold spec_step. cbn. rewrite A0. cbn. exact HR. }
  destruct (catt m) as [|n who|] eqn:Ca; try (apply None0; apply At).
  destruct At as (An & Nz & Wh & Nt).
  assert (E0 : (s_att s =? 0) = false) by (apply N.eqb_neq; congruence).
  (* the reference state after the answer *)
  assert (Eff : op_effect cf s (OAttach ok) =
                satt s (if ok then N.pred n else 0) (held who && negb (if ok then n =? 1 else true))).
  { cbn [op_effect]. rewrite E0. unfold att_resolves. rewrite E0, An, Wh. reflexivity. }
  assert (Ck : forall es r, es = [] \/ (who = None /\ es = [EFired 0 r] /\ res_is ok r = true /\
                                         (if ok then n =? 1 else true) = true) ->
               (who = None -> (if ok then n =? 1 else true) = true -> es <> []) ->
               chunk_ok cf s (OAttach ok) (es ++ [EDir (negb (gone m))]) = true).
  { intros es r Hes Hne. unfold chunk_ok. unfold att_resolves. rewrite Eff, E0, An, Wh.
    destruct Hes as [->|(-> & -> & Rr & Rs)].
    - cbn. destruct who as [c|]; cbn.
      + rewrite !andb_true_r. dirgoal HR.
      + destruct (if ok then n =? 1 else true) eqn:Rs.
        * exfalso. apply Hne; auto.
        * cbn. rewrite !andb_true_r. dirgoal HR.
    - cbn. rewrite Rs. cbn. rewrite Rr. cbn. rewrite !andb_true_r. dirgoal HR. }
  destruct (ok && negb (n =? 1)) eqn:Go.
  - (* one more round trip to go *)
    apply andb_true_iff in Go as [-> N1]. apply negb_true_iff in N1.
    split.
    + apply (Ck [] ROk); [left; reflexivity|]. intros _ X. congruence.
    + unfold spec_step. rewrite Eff, N1. cbn [app absorb fold_left absorb1 negb]. rewrite andb_true_r.
      apply Rel_satt; [exact HR|]. cbn. apply N.eqb_neq in N1. repeat split; auto. lia.
  - (* the attach Deferred fires *)
    assert (Rs : (if ok then n =? 1 else true) = true).
    { destruct ok; [|reflexivity]. cbn in Go. apply negb_false_iff in Go. exact Go. }
    assert (Fin : (if ok then N.pred n else 0) = 0).
    { destruct ok; [|reflexivity]. apply N.eqb_eq in Rs. rewrite Rs. reflexivity. }
    assert (Done : forall m', Rel cf m' s -> notified m' = notified m ->
                   Rel cf (set_catt m' ADone) (satt s (if ok then N.pred n else 0) (held who && negb (if ok then n =? 1 else true)))).
    { intros m' HR' _. rewrite Rs, Fin, andb_false_r. apply Rel_satt; [exact HR'|]. cbn. auto. }
    destruct who as [c|].
    + (* _tor_connected of connection c goes on *)
      pose proof (conn_both cf m s c HR) as CB.
      destruct (getc m c) as [k|] eqn:G.
      2:{ split; [apply (Ck [] ROk); [left; reflexivity|intros X; discriminate X]|].
          unfold spec_step. rewrite Eff. cbn [app absorb fold_left absorb1]. apply Done; auto. }
      destruct (nthc s c) as [q|] eqn:Nq; [|contradiction].
      destruct (k_stage k) eqn:St;
        try (split; [apply (Ck [] ROk); [left; reflexivity|intros X; discriminate X]|];
             unfold spec_step; rewrite Eff; cbn [app absorb fold_left absorb1]; apply Done; auto; fail).
      assert (Cr : crel {| k_stage := SIdle; k_lreg := k_lreg k; k_evon := k_evon k |} q).
      { unfold crel in *. rewrite St in CB. cbn in *. tauto. }
      destruct ok.
      * split; [apply (Ck [] ROk); [left; reflexivity|intros X; discriminate X]|].
        unfold spec_step. rewrite Eff. cbn [app absorb fold_left absorb1].
        change (putc m c ?k') with (set_attempted (putc m c k') (attempted m)).
        apply Done; [|reflexivity]. eapply Rel_putc; [exact HR|exact Nq|exact Cr|left; reflexivity].
      * split; [apply (Ck [] ROk); [left; reflexivity|intros X; discriminate X]|].
        unfold spec_step. rewrite Eff. cbn [app absorb fold_left absorb1]. unfold coroutine_failed.
        apply Done; [|reflexivity]. eapply Rel_putc; [exact HR|exact Nq|exact Cr|right; reflexivity].
    + (* launch() goes on: its result is delivered *)
      split.
      * apply (Ck [EFired 0 (if ok then ROk else RFail 9)] (if ok then ROk else RFail 9)).
        -- right. repeat split; auto. destruct ok; reflexivity.
        -- intros _ _. discriminate.
      * unfold spec_step. rewrite Eff. cbn [app absorb fold_left absorb1 N.eqb].
        change (Rel cf (set_catt m ADone)
                  (satt (satt s (if ok then N.pred n else 0) (held None && negb (if ok then n =? 1 else true)))
                        (if ok then N.pred n else 0) false)).
        rewrite satt_satt, Fin. apply Rel_satt; [exact HR|]. cbn. auto.
Qed.

(* ------------------------------------------------------------------------------------------ *)
(* Part C *)

(* the waiter numbers a request brings in *)
Definition newids (o : op) : list N :=
  match o with OWhen w => [w] | OWhenR w w' => [w; w'] | _ => [] end.

Lemma step_good cf m s o : Rel cf m s -> NoDup (allw m) ->
  NoDup (newids o) -> (forall w, In w (newids o) -> w <> 0) -> good cf m s o.
Proof.
  intros HR ND NI W0. destruct o.
  - apply good_out; assumption.
  - apply good_err; assumption.
  - apply good_connok; assumption.
  - apply good_connfail; assumption.
  - apply good_boot; assumption.
  - apply good_ack; assumption.
  - apply good_attach; assumption.
  - apply good_progress; assumption.
  - apply good_status; assumption.
  - apply good_timeout; assumption.
  - apply good_exit; assumption.
  - apply good_when; [assumption|]. apply W0. left. reflexivity.
  - apply good_whenr; [assumption|apply W0; cbn; auto|apply W0; cbn; auto|].
    cbn in NI. inversion NI as [|? ? H _]; subst. intros ->. apply H. left. reflexivity.
  - apply good_shutdown; assumption.
Qed.

(* who is still to be told: the when_connected() Deferreds, and the launch() result while launch() waits
   for the configuration *)
Definition held0 (m : mst) : bool := match catt m with ARun _ None => true | _ => false end.
Definition live (m : mst) : list N := allw m ++ (if held0 m then [0] else []).

(* one step: those told now and those still to be told are distinct, and were to be told before (or
   are the caller that has just asked) *)
Definition ids_ok (m m' : mst) (o : op) (es : list obs) : Prop :=
  NoDup (map fst (fires es) ++ live m') /\
  forall x, In x (map fst (fires es) ++ live m') -> In x (live m) \/ In x (newids o).

Lemma same_ids m m' o es : NoDup (live m) -> fires es = [] -> live m' = live m -> ids_ok m m' o es.
Proof. intros ND E1 E2. unfold ids_ok. rewrite E1, E2. split; cbn; auto. Qed.

Lemma NoDup_app_disj {A} (a b : list A) : NoDup a -> NoDup b -> (forall x, In x a -> ~ In x b) -> NoDup (a ++ b).
Proof.
  induction 1 as [|x a Hx ND IH]; intros Nb D; [exact Nb|]. cbn [app]. constructor.
  - rewrite in_app_iff. intros [H|H]; [contradiction|]. apply (D x); [left; reflexivity|exact H].
  - apply IH; [exact Nb|]. intros y Hy. apply D. right. exact Hy.
Qed.

Lemma NoDup_insert {A} (a : A) l1 l2 : NoDup (l1 ++ l2) -> ~ In a (l1 ++ l2) -> NoDup (l1 ++ a :: l2).
Proof.
  induction l1 as [|x l1 IH]; cbn [app]; intros ND NI.
  - constructor; assumption.
  - inversion ND as [|? ? Hx ND']; subst. constructor.
    + rewrite in_app_iff in *. cbn [In]. intros [H|[H|H]]; [apply Hx; auto|subst; apply NI; left; reflexivity|apply Hx; auto].
    + apply IH; [exact ND'|]. intros H. apply NI. right. exact H.
Qed.

Lemma NoDup_app_inv {A} (a b : list A) : NoDup (a ++ b) ->
  NoDup a /\ NoDup b /\ forall x, In x a -> ~ In x b.
Proof.
  induction a as [|y a IH]; cbn [app]; intros ND.
  - repeat split; [constructor|exact ND|intros x []].
  - inversion ND as [|? ? Hy ND']; subst. destruct (IH ND') as (Na & Nb & D). repeat split.
    + constructor; [|exact Na]. intros H. apply Hy. apply in_app_iff. auto.
    + exact Nb.
    + intros x [<-|Hx]; [|apply D; exact Hx]. intros H. apply Hy. apply in_app_iff. auto.
Qed.

Lemma fst_fired ws (r : res) : map fst (map (fun w : N => (w, r)) ws) = ws.
Proof. rewrite map_map. cbn [fst]. apply map_id. Qed.

Lemma notify_ids m r m' es o pre : notify m r = (m', es) -> NoDup (live m) -> fires pre = [] ->
  ids_ok m m' o (pre ++ es).
Proof.
  unfold notify. intros H ND Hp. destruct (notified m).
  - injection H as <- <-. rewrite app_nil_r. apply same_ids; auto.
  - injection H as <- <-. unfold ids_ok. rewrite fires_app, Hp, fires_fired. cbn [app]. rewrite fst_fired.
    change (live _) with (if held0 m then [0] else []) at 1 2.
    fold (live m). auto.
Qed.

Lemma In_drop0 x ws : In x (drop0 ws) -> In x ws /\ x <> 0.
Proof. unfold drop0. rewrite filter_In. intros [H E]. split; [exact H|]. apply negb_true_iff, N.eqb_neq in E. exact E. Qed.

Lemma notify_ok_ids cf m m' es o pre : notify_ok cf m = (m', es) -> NoDup (live m) -> fires pre = [] ->
  ids_ok m m' o (pre ++ es).
Proof.
  unfold notify_ok. intros H ND Hp. destruct (notified m).
  { injection H as <- <-. rewrite app_nil_r. apply same_ids; auto. }
  pose proof (resumes_cases cf m) as RC.
  destruct (if memN 0 (waiters m) then launch_resumes cf m else (catt m, [], false)) as [[a pr] hd].
  injection H as <- <-. unfold ids_ok. rewrite !fires_app, Hp. cbn [app].
  destruct RC as [(-> & -> & ->)|(Ca & M0 & c' & -> & [(A0 & -> & ->)|(A0 & -> & ->)])];
    cbn [fires flat_map app]; rewrite fires_fired, fst_fired.
  - change (live _) with (if held0 m then [0] else []) at 1 2. fold (live m). auto.
  - change (live _) with (@nil N ++ []) at 1 2. cbn [app]. rewrite app_nil_r.
    assert (E : live m = allw m) by (unfold live, held0; rewrite Ca; apply app_nil_r).
    rewrite E in *. auto.
  - change (live _) with (@nil N ++ [0]) at 1 2. cbn [app].
    assert (E : live m = allw m) by (unfold live, held0; rewrite Ca; apply app_nil_r).
    rewrite E in *. split.
    + replace (drop0 (allw m) ++ [0]) with (drop0 (allw m) ++ 0 :: []) by reflexivity.
      apply NoDup_insert; rewrite app_nil_r; [apply NoDup_filter; exact ND|].
      intros H. apply In_drop0 in H as [_ H]. apply H. reflexivity.
    + intros x Hx. left. apply in_app_iff in Hx as [Hx|[<-|[]]].
      * apply In_drop0 in Hx. apply Hx.
      * unfold allw. apply in_app_iff. left. apply memN_In. exact M0.
Qed.

Lemma step_ids cf m o : NoDup (live m) -> NoDup (newids o) -> (forall w, In w (newids o) -> ~ In w (live m)) ->
  let '(m', es) := step cf m o in ids_ok m m' o es.
Proof.
  intros ND NI Fresh.
  assert (Same : forall m' es, fires es = [] -> live m' = live m -> ids_ok m m' o es).
  { intros. apply same_ids; auto. }
  destruct o; cbn [step].
  - destruct (attempted m); [apply Same; reflexivity|].
    destruct (isinfix LISTENER (collected m ++ chunk)); apply Same; reflexivity.
  - destruct (c_killerr cf); apply Same; reflexivity.
  - destruct (npend m); apply Same; reflexivity.
  - destruct (npend m); apply Same; reflexivity.
  - destruct (getc m c) as [k|]; [|apply Same; reflexivity].
    destruct (k_stage k); try (apply Same; reflexivity).
    destruct ok; apply Same; reflexivity.
  - destruct (getc m c) as [k|]; [|apply Same; reflexivity].
    destruct (k_stage k); try (apply Same; reflexivity); destruct ok; try (apply Same; reflexivity).
    unfold live, held0.
    destruct (catt m) as [|n who|] eqn:Ca; [destruct (c_attach cf =? 0)| |]; apply Same; try reflexivity;
      unfold live, held0; cbn; rewrite Ca; reflexivity.
  - (* OAttach *)
    destruct (catt m) as [|n who|] eqn:Ca; try (apply Same; reflexivity).
    destruct (ok && negb (n =? 1)).
    { apply Same; [reflexivity|]. unfold live, held0. cbn. rewrite Ca. reflexivity. }
    destruct who as [c|].
    + assert (L : forall m1, allw m1 = allw m -> live (set_catt m1 ADone) = live m).
      { intros m1 E. unfold live, held0. change (allw (set_catt m1 ADone)) with (allw m1). cbn [catt set_catt]. rewrite Ca, E. reflexivity. }
      destruct (getc m c) as [k|]; [|apply Same; [reflexivity|apply L; reflexivity]].
      destruct (k_stage k); try (apply Same; [reflexivity|apply L; reflexivity]).
      destruct ok; apply Same; try reflexivity; apply L; reflexivity.
    + unfold ids_ok. cbn [fires flat_map app map fst].
      change (live (set_catt m ADone)) with (allw m ++ []). rewrite app_nil_r.
      assert (E : live m = allw m ++ [0]) by (unfold live, held0; rewrite Ca; reflexivity).
      rewrite E in *. split.
      * apply NoDup_remove in ND. rewrite app_nil_r in ND. constructor; apply ND.
      * intros x [<-|Hx]; left; apply in_app_iff; [right; left; reflexivity|left; exact Hx].
  - (* OProgress *)
    destruct (getc m c) as [k|]; [|apply Same; reflexivity].
    destruct (k_evon k && k_lreg k); [|apply Same; reflexivity].
    destruct (p =? 100); [|apply Same; reflexivity].
    destruct (timer m) eqn:Ti.
    + destruct (notify_ok cf m) as [m1 e1] eqn:Nf.
      apply (notify_ok_ids cf m m1 e1 (OProgress c p) [EProgress p] Nf ND). reflexivity.
    + destruct (notify_ok cf (set_timer m TCleared)) as [m1 e1] eqn:Nf.
      apply (notify_ok_ids cf (set_timer m TCleared) m1 e1 (OProgress c p) [EProgress p] Nf ND). reflexivity.
    + apply Same; reflexivity.
    + destruct (notify_ok cf m) as [m1 e1] eqn:Nf.
      apply (notify_ok_ids cf m m1 e1 (OProgress c p) [EProgress p] Nf ND). reflexivity.
  - apply Same; reflexivity.
  - destruct (timer m); try (apply Same; reflexivity).
    match goal with |- context[notify ?m1 ?r] => destruct (notify m1 r) as [m2 e2] eqn:Nf;
      pose proof (notify_ids m1 r m2 e2 OTimeout (if exited m then [ELoseConn] else [ESignal w_TERM]) Nf ND) as NS end.
    apply NS. destruct (exited m); reflexivity.
  - match goal with |- context[notify ?m1 ?r] => destruct (notify m1 r) as [m2 e2] eqn:Nf;
      pose proof (notify_ids m1 r m2 e2 (OExit x) [] Nf ND) as NS end.
    apply NS. reflexivity.
  - (* OWhen *)
    assert (Fw : ~ In w (live m)) by (apply Fresh; left; reflexivity).
    destruct (notified m) as [r|].
    + unfold ids_ok. cbn [fires flat_map app map fst newids]. split.
      * constructor; assumption.
      * intros x [<-|Hx]; auto. right. left. reflexivity.
    + match goal with |- ids_ok _ ?m' _ _ =>
        assert (E : live m' = ((waiters m ++ [w]) ++ nested m) ++ (if held0 m then [0] else [])) by reflexivity;
        unfold ids_ok; rewrite E end.
      cbn [fires flat_map app map fst newids]. rewrite <- !app_assoc. cbn [app]. unfold live, allw in *.
      rewrite <- app_assoc in *. split.
      * apply NoDup_insert; assumption.
      * intros x Hx. apply in_app_iff in Hx as [Hx|[<-|Hx]]; [left; apply in_app_iff; auto|right; left; reflexivity|left; apply in_app_iff; auto].
  - (* OWhenR *)
    assert (Fw : ~ In w (live m)) by (apply Fresh; left; reflexivity).
    assert (Fw' : ~ In w' (live m)) by (apply Fresh; right; left; reflexivity).
    assert (Df : w <> w') by (cbn in NI; inversion NI as [|? ? H _]; subst; intros ->; apply H; left; reflexivity).
    destruct (notified m) as [r|].
    + unfold ids_ok. cbn [fires flat_map app map fst newids]. split.
      * constructor; [intros [H|H]; [congruence|contradiction]|]. constructor; assumption.
      * intros x [<-|[<-|Hx]]; auto; right; cbn; auto.
    + match goal with |- ids_ok _ ?m' _ _ =>
        assert (E : live m' = ((waiters m ++ [w]) ++ (nested m ++ [w'])) ++ (if held0 m then [0] else [])) by reflexivity;
        unfold ids_ok; rewrite E end.
      cbn [fires flat_map app map fst newids]. rewrite <- !app_assoc. cbn [app]. unfold live, allw in *.
      rewrite <- app_assoc in *. split.
      * apply NoDup_insert.
        -- rewrite app_assoc. apply NoDup_insert; rewrite <- app_assoc; assumption.
        -- intros H. apply in_app_iff in H as [H|H]; [apply Fw; apply in_app_iff; auto|].
           apply in_app_iff in H as [H|[H|H]]; [apply Fw; apply in_app_iff; right; apply in_app_iff; auto|congruence|
             apply Fw; apply in_app_iff; right; apply in_app_iff; auto].
      * intros x Hx. rewrite !in_app_iff in *. cbn [In] in *. rewrite !in_app_iff in *. cbn [In] in *. tauto.
  - apply Same; reflexivity.
Qed.

Definition winv (m : mst) (ws : list N) : Prop :=
  NoDup (live m) /\ (forall w, In w (live m) -> In w ws) /\ In 0 ws.

Definition ws_after (o : op) (ws : list N) : list N :=
  match o with OWhen w => w :: ws | OWhenR w w' => w' :: w :: ws | _ => ws end.

Lemma wf_cons ex ws o h : wf_from ex ws (o :: h) = true ->
  (exists ex', wf_from ex' (ws_after o ws) h = true) /\ NoDup (newids o) /\ (forall w, In w (newids o) -> ~ In w ws).
Proof.
  destruct o; cbn [wf_from ws_after newids]; intros H;
    try (apply andb_true_iff in H as [H1 H2]); (split; [eauto|]); try (split; [constructor|intros ? []]; fail).
  - split; [constructor; [intros []|constructor]|]. intros w' [<-|[]] A. apply memN_In in A. rewrite A in H1. discriminate.
  - apply andb_true_iff in H1 as [H1 H3]. apply andb_true_iff in H1 as [H0 H1].
    apply negb_true_iff in H0, H1, H3. apply N.eqb_neq in H3. split.
    + constructor; [intros [E|[]]; congruence|constructor; [intros []|constructor]].
    + intros x [<-|[<-|[]]] A; apply memN_In in A; congruence.
Qed.

Lemma ws_mono o ws w : In w ws -> In w (ws_after o ws).
Proof. destruct o; cbn; auto. Qed.

Lemma ws_new o ws w : In w (newids o) -> In w (ws_after o ws).
Proof. destruct o; cbn; intuition. Qed.

Lemma winv_waiters m ws : winv m ws -> NoDup (allw m).
Proof. intros [ND _]. unfold live in ND. apply NoDup_app_inv in ND. apply ND. Qed.

Lemma winv_fresh m ws o : winv m ws -> (forall w, In w (newids o) -> ~ In w ws) ->
  (forall w, In w (newids o) -> ~ In w (live m)) /\ (forall w, In w (newids o) -> w <> 0).
Proof.
  intros (ND & Sub & Z) Fresh. split.
  - intros w E H. apply (Fresh w E). auto.
  - intros w E ->. apply (Fresh 0 E). exact Z.
Qed.

Lemma winv_step cf m o ws : winv m ws -> NoDup (newids o) -> (forall w, In w (newids o) -> ~ In w ws) ->
  winv (fst (step cf m o)) (ws_after o ws).
Proof.
  intros WI NI Fresh. destruct (winv_fresh m ws o WI Fresh) as [Fl _]. destruct WI as (ND & Sub & Z).
  pose proof (step_ids cf m o ND NI Fl) as Sh. destruct (step cf m o) as [m' es]. cbn [fst].
  destruct Sh as [ND' In']. repeat split.
  - apply NoDup_app_inv in ND'. apply ND'.
  - intros x Hx. destruct (In' x) as [H|H]; [apply in_app_iff; auto|apply ws_mono; auto|apply ws_new; exact H].
  - apply ws_mono. exact Z.
Qed.

Lemma run_good cf h : forall m s ws ex,
  Rel cf m s -> winv m ws -> wf_from ex ws h = true ->
  oracle_from cf s h (run_from cf m h) = true.
Proof.
  induction h as [|o h IH]; intros m s ws ex HR WI WF; [reflexivity|].
  cbn [run_from oracle_from].
  destruct (wf_cons _ _ _ _ WF) as [(ex' & WF') [NI Fresh]].
  pose proof (step_good cf m s o HR (winv_waiters _ _ WI) NI (proj2 (winv_fresh m ws o WI Fresh))) as G. unfold good in G.
  pose proof (winv_step cf m o ws WI NI Fresh) as WS.
  unfold op_chunk in *. destruct (step cf m o) as [m' es]. cbn [fst] in WS. destruct G as [Ck HR'].
  rewrite Ck. cbn [andb]. eapply IH; eauto.
Qed.

(* no waiter ever fires twice *)
Lemma fired_once cf h : forall m ws ex,
  winv m ws -> wf_from ex ws h = true ->
  let ids := map fst (fires (concat (run_from cf m h))) in
  NoDup ids /\ forall w, In w ids -> In w (live m) \/ ~ In w ws.
Proof.
  induction h as [|o h IH]; intros m ws ex WI WF; cbn zeta.
  - cbn. split; [constructor|intros ? []].
  - cbn [run_from].
    destruct (wf_cons _ _ _ _ WF) as [(ex' & WF') [NI Fresh]].
    destruct (winv_fresh m ws o WI Fresh) as [Fl _].
    pose proof (winv_step cf m o ws WI NI Fresh) as WS.
    pose proof (step_ids cf m o (proj1 WI) NI Fl) as Sh.
    unfold op_chunk. destruct (step cf m o) as [m' es]. cbn [fst] in WS.
    destruct (IH m' (ws_after o ws) ex' WS WF') as [NDr Elr].
    cbn [concat]. rewrite !fires_app, !map_app. cbn [fires flat_map app map]. rewrite app_nil_r.
    set (ids' := map fst (fires (concat (run_from cf m' h)))) in *.
    destruct WI as (ND & Sub & Z). destruct Sh as [ND' In'].
    assert (Old : forall x, In x (map fst (fires es)) -> In x (live m) \/ (In x (newids o) /\ ~ In x ws)).
    { intros x Hx. destruct (In' x) as [H|H]; [apply in_app_iff; auto|auto|]. right. split; [exact H|]. apply Fresh. exact H. }
    split.
    + destruct (NoDup_app_inv _ _ ND') as (Nf & _ & Dj).
      apply NoDup_app_disj; [exact Nf|exact NDr|].
      intros x Hx Hx'. destruct (Elr x Hx') as [A|A].
      * exact (Dj x Hx A).
      * apply A. destruct (Old x Hx) as [H|[H _]]; [apply ws_mono; auto|apply ws_new; exact H].
    + intros w Hw. apply in_app_iff in Hw as [Hw|Hw].
      * destruct (Old w Hw) as [H|[_ H]]; auto.
      * destruct (Elr w Hw) as [A|A].
        -- destruct (In' w) as [H|H]; [apply in_app_iff; auto|auto|]. right. apply Fresh. exact H.
        -- right. intros B. apply A. apply ws_mono. exact B.
Qed.

(* the main theorem: on every physically possible history the model's trace satisfies the oracle *)
Lemma model_satisfies_oracle cf h : wf h = true -> oracle cf h (run cf h) = true.
Proof.
  intros WF. unfold oracle, run, wf in *.
  assert (WI : winv (m0 cf) [0]).
  { repeat split; cbn; [constructor; [intros []|constructor]|auto|auto]. }
  rewrite (run_good cf h (m0 cf) (s0 cf) [0] false (Rel_init cf) WI WF).
  cbn [chunk_eqb list_eqb obs_eqb Bool.eqb andb].
  cbn [concat]. rewrite fires_app. cbn [fires flat_map app].
  apply nodupN_NoDup. destruct (fired_once cf h (m0 cf) [0] false WI WF) as [ND _]. exact ND.
Qed.

Lemma fires_at_most_once cf h : wf h = true -> NoDup (map fst (fires (concat (run cf h)))).
Proof.
  intros WF. unfold run, wf in *. cbn [concat]. rewrite fires_app. cbn [fires flat_map app].
  assert (WI : winv (m0 cf) [0]).
  { repeat split; cbn; [constructor; [intros []|constructor]|auto|auto]. }
  destruct (fired_once cf h (m0 cf) [0] false WI WF) as [ND _]. exact ND.
Qed.

(* ---- the data directory ---- *)
Definition exec (cf : cfg) (m : mst) (h : list op) : mst := fold_left (fun s o => fst (step cf s o)) h m.

Definition no_end (o : op) : bool := match o with OExit _ | OShutdown => false | _ => true end.

Lemma notify_ok_gone cf m : gone (fst (notify_ok cf m)) = gone m.
Proof.
  unfold notify_ok. destruct (notified m); [reflexivity|].
  destruct (if memN 0 (waiters m) then launch_resumes cf m else (catt m, [], false)) as [[a pre] hd]. reflexivity.
Qed.

Lemma notify_ok_nodir cf m b : ~ In (EDir b) (snd (notify_ok cf m)).
Proof.
  unfold notify_ok. destruct (notified m); [intros []|].
  pose proof (resumes_cases cf m) as RC.
  destruct (if memN 0 (waiters m) then launch_resumes cf m else (catt m, [], false)) as [[a pre] hd]. cbn [snd].
  rewrite in_app_iff, in_map_iff. intros [H|(w & H & _)]; [|discriminate H].
  destruct RC as [(_ & -> & _)|(_ & _ & c' & -> & _)]; [destruct H|destruct H as [H|[]]; discriminate H].
Qed.

(* the directory goes exactly at the process's end and at reactor shutdown (if launch() made it) *)
Lemma gone_step_exact cf m o :
  gone (fst (step cf m o)) = if no_end o then gone m else gone m || negb (c_userdir cf).
Proof.
  destruct o; cbn [step no_end].
  8:{ (* OProgress *)
      destruct (getc m c) as [k|]; [|reflexivity].
      destruct (k_evon k && k_lreg k); [|reflexivity].
      destruct (p =? 100); [|reflexivity].
      destruct (timer m); try reflexivity;
        match goal with |- context[notify_ok ?c1 ?m1] =>
          pose proof (notify_ok_gone c1 m1) as G; destruct (notify_ok c1 m1) as [m2 e2] end; exact G. }
  all: repeat match goal with
           | |- context[notify ?m1 ?r] => unfold notify; cbn [notified set_timer]
           | |- context[notified ?mm] => destruct (notified mm)
           | |- context[match ?x with _ => _ end] => destruct x
           end; reflexivity.
Qed.

Lemma gone_step cf m o : gone (fst (step cf m o)) = gone m \/ gone (fst (step cf m o)) = gone m || negb (c_userdir cf).
Proof. rewrite gone_step_exact. destruct (no_end o); auto. Qed.

Lemma gone_exit cf m x : gone (fst (step cf m (OExit x))) = gone m || negb (c_userdir cf).
Proof. apply gone_step_exact. Qed.

Lemma step_nodir cf m o b : ~ In (EDir b) (snd (step cf m o)).
Proof.
  destruct o; cbn [step].
  8:{ (* OProgress *)
      destruct (getc m c) as [k|]; [|intros []].
      destruct (k_evon k && k_lreg k); [|intros []].
      destruct (p =? 100); [|intros [H|[]]; discriminate H].
      destruct (timer m); try (intros [H|[H|[]]]; discriminate H);
        match goal with |- context[notify_ok ?c1 ?m1] =>
          pose proof (notify_ok_nodir c1 m1 b) as G; destruct (notify_ok c1 m1) as [m2 e2] end;
        cbn [snd] in *; (intros [H|H]; [discriminate H|exact (G H)]). }
  all: repeat match goal with
           | |- context[notify ?m1 ?r] => unfold notify; cbn [notified set_timer]
           | |- context[notified ?mm] => destruct (notified mm)
           | |- context[match ?x with _ => _ end] => destruct x
           end; cbn; rewrite ?in_app_iff, ?in_map_iff; cbn;
       intuition (try discriminate); repeat match goal with H : exists _, _ |- _ => destruct H as (? & ? & ?) end; try discriminate.
Qed.

Lemma dirs_in_run cf h : forall m b, In (EDir b) (concat (run_from cf m h)) ->
  exists h1 o h2, h = h1 ++ o :: h2 /\ b = negb (gone (exec cf m (h1 ++ [o]))).
Proof.
  induction h as [|o h IH]; intros m b H; [destruct H|].
  cbn [run_from] in H. unfold op_chunk in H. pose proof (step_nodir cf m o b) as ND.
  destruct (step cf m o) as [m' es] eqn:St.
  cbn [concat] in H. apply in_app_iff in H as [H|H].
  - apply in_app_iff in H as [H|[H|[]]].
    + exfalso. exact (ND H).
    + injection H as <-. exists [], o, h. split; [reflexivity|]. unfold exec. cbn. rewrite St. reflexivity.
  - destruct (IH m' b H) as (h1 & o' & h2 & -> & E). exists (o :: h1), o', h2. split; [reflexivity|].
    rewrite E. unfold exec. cbn [app fold_left]. rewrite St. reflexivity.
Qed.

Lemma gone_user cf h : c_userdir cf = true -> forall m, gone m = false -> gone (exec cf m h) = false.
Proof.
  intros U. induction h as [|o h IH]; intros m G; [exact G|]. unfold exec. cbn [fold_left]. apply IH.
  destruct (gone_step cf m o) as [E|E]; rewrite E, ?U, ?G; reflexivity.
Qed.

Lemma gone_mono cf h : forall m, gone m = true -> gone (exec cf m h) = true.
Proof.
  induction h as [|o h IH]; intros m G; [exact G|]. unfold exec. cbn [fold_left]. apply IH.
  destruct (gone_step cf m o) as [E|E]; rewrite E, G; reflexivity.
Qed.

(* a caller-supplied directory is never removed *)
Lemma user_dir_kept cf h b : c_userdir cf = true -> In (EDir b) (concat (run cf h)) -> b = true.
Proof.
  intros U H. unfold run in H. cbn [concat] in H. apply in_app_iff in H as [[H|[]]|H]; [congruence|].
  destruct (dirs_in_run cf h _ b H) as (h1 & o & h2 & _ & ->).
  rewrite (gone_user cf _ U); reflexivity.
Qed.

(* a directory made by launch() is there until the process ends or the reactor shuts down, and is
   gone from the moment the process has ended *)
Lemma temp_dir_removed cf h1 x h2 b : c_userdir cf = false ->
  In (EDir b) (concat (run_from cf (exec cf (m0 cf) h1) (OExit x :: h2))) -> b = false.
Proof.
  intros U H. destruct (dirs_in_run cf _ _ b H) as (k1 & o & k2 & E & ->).
  apply negb_false_iff.
  destruct k1 as [|o1 k1]; cbn [app] in E; injection E as <- E2.
  - unfold exec at 1. cbn [app fold_left]. rewrite gone_exit, U. apply orb_true_r.
  - unfold exec at 1. cbn [app fold_left]. apply gone_mono. rewrite gone_exit, U. apply orb_true_r.
Qed.

Lemma temp_dir_kept cf h b : forallb no_end h = true ->
  In (EDir b) (concat (run cf h)) -> b = true.
Proof.
  intros NE H. unfold run in H. cbn [concat] in H. apply in_app_iff in H as [[H|[]]|H]; [congruence|].
  destruct (dirs_in_run cf h _ b H) as (h1 & o & h2 & E & ->).
  apply negb_true_iff.
  assert (NE1 : forallb no_end (h1 ++ [o]) = true).
  { rewrite E in NE. rewrite forallb_app in NE. apply andb_true_iff in NE as [A B]. cbn in B.
    apply andb_true_iff in B as [B _]. rewrite forallb_app, A. cbn. rewrite B. reflexivity. }
  clear E H. generalize (m0 cf), (eq_refl : gone (m0 cf) = false). revert NE1. generalize (h1 ++ [o]).
  induction l as [|o' l IH]; intros NE' m G; [exact G|]. cbn [forallb] in NE'. apply andb_true_iff in NE' as [A B].
  unfold exec. cbn [fold_left]. apply (IH B). rewrite gone_step_exact, A. exact G.
Qed.

(* a success in the model's trace has a full bootstrap behind it (C19Sound applied to the model) *)
Lemma model_success_needs_full_bootstrap cf h : wf h = true -> ok_fired (concat (run cf h)) ->
  exists es0 tr', run cf h = es0 :: tr' /\ witness h tr'.
Proof.
  intros WF OF. exact (success_needs_full_bootstrap cf h (run cf h) (model_satisfies_oracle cf h WF) OF).
Qed.
