(* Lemmas for C11 (all the proof work; Properties/C11.v only restates them). *)
From Coq Require Import String.
From Coq Require Import List Bool Ascii Arith NArith ZArith Lia.
From TxVerif Require Import Lib.Bytes Lib.CfgLib Spec.CfgTypes Spec.TorStore Spec.CfgOracle Spec.C10 Spec.C11
  Model.ConfigKinds Gen.ConfigTypes Model.Config Proofs.CfgLibProofs Proofs.C10Proofs.
Import ListNotations.
Open Scope N_scope.

Lemma event_silent names st items st' ob :
  m_step names st (OpEvent items) = Some (st', ob) -> o_wrote ob = [].
Proof. intros H. eapply step_silent; [eassumption|reflexivity]. Qed.

(* ================================================================== shape stability
   In every state any history reaches (ANY table, ANY store, ANY events with any values):
   an option whose declared type is a list type holds a TRACKED list. *)
(* the two onion-service lists txtorcon keeps in `config` are not Tor options *)
Definition special (k : bytes) : bool :=
  beqb k (bs "EphemeralOnionServices") || beqb k (bs "DetachedOnionServices").

Definition list_typed (st : mst) (k : bytes) : Prop :=
  special k = false /\ exists pk vk, dget k (m_parsers st) = Some (pk, vk, true).

Definition parsers_known (st : mst) : Prop :=
  forall k ty, dget k (m_parsers st) = Some ty -> In ty (map snd config_types).

Definition tracked_inv (st : mst) : Prop :=
  parsers_known st /\
  (forall k v, list_typed st k -> dget k (m_config st) = Some v -> exists l, v = CList true l) /\
  (forall k w l, In (k, UVal (CList w l)) (m_unsaved st) -> list_typed st k -> w = true).

(* a list type parses to a list (by computation over the regenerated table) *)
Definition list_parse_kind (pk : parse_kind) : bool := match pk with PComma | PLines => true | _ => false end.
Lemma list_types_parse_lists :
  forallb (fun e : string * tyinfo => let '(pk, _, il) := snd e in implb il (list_parse_kind pk)) config_types = true.
Proof. vm_compute. reflexivity. Qed.

Lemma known_list_kind pk vk : In (pk, vk, true) (map snd config_types) -> list_parse_kind pk = true.
Proof.
  intros Hin. apply in_map_iff in Hin as [e [He Hin]].
  pose proof (proj1 (forallb_forall _ _) list_types_parse_lists e Hin) as H.
  destruct e as [nm [[pk' vk'] il']]. cbn in He, H. inversion He. subst. exact H.
Qed.

Lemma parse_list_kind pk v p : list_parse_kind pk = true -> parse pk v = Ok p -> exists l, p = PList l.
Proof.
  destruct pk; try discriminate; intros _; cbn [parse].
  - destruct v as [[s|z|b|t]|l]; try discriminate. intros H. inversion H. eauto.
  - destruct v as [[s|z|b|t]|l]; try discriminate; intros H; inversion H; eauto.
Qed.

(* config[k] = v keeps the invariant when v is a tracked list or k is not list-typed *)
Lemma tracked_set_config st k v :
  tracked_inv st -> (list_typed st k -> exists l, v = CList true l) -> tracked_inv (set_config st k v).
Proof.
  intros [HP [HC HU]] Hv. split; [exact HP|]. split.
  - intros k' v' Hlt Hc. rewrite set_config_config in Hc.
    destruct (list_eq_dec ascii_dec k k') as [E|E].
    + subst k'. rewrite dget_dset_same in Hc. inversion Hc. subst v'. now apply Hv.
    + rewrite dget_dset_other in Hc by assumption. eapply HC; eassumption.
  - intros k' w l Hin Hlt. unfold set_config in Hin. cbn [m_unsaved] in Hin.
    destruct (dget k (m_unsaved st)) as [[|v0]|] eqn:EU; try (eapply HU; eassumption).
    destruct (dget k (m_config st)) as [old|] eqn:EC; [|eapply HU; eassumption].
    apply In_dset in Hin as [[E1 E2]|Hin]; [|eapply HU; eassumption].
    subst k'. inversion E2. subst old.
    destruct (HC k _ Hlt EC) as [l0 Hl0]. now inversion Hl0.
Qed.

Lemma tracked_with_config_same st k w l l' :
  tracked_inv st -> dget k (m_config st) = Some (CList w l) ->
  tracked_inv (with_config st (dset k (CList w l') (m_config st))).
Proof.
  intros [HP [HC HU]] Hk. split; [exact HP|]. split; [|exact HU].
  intros k' v' Hlt Hc. cbn [with_config m_config] in Hc.
  destruct (list_eq_dec ascii_dec k k') as [E|E].
  - subst k'. rewrite dget_dset_same in Hc. inversion Hc.
    destruct (HC k _ Hlt Hk) as [l0 E0]. inversion E0. eauto.
  - rewrite dget_dset_other in Hc by assumption. eapply HC; eassumption.
Qed.

Lemma tracked_getattr st name st1 rn g :
  tracked_inv st -> m_getattr st name = Ok (st1, rn, g) ->
  tracked_inv st1 /\ (forall v, g = GConfig v -> dget rn (m_config st1) = Some v).
Proof.
  intros Hinv. unfold m_getattr.
  set (rn0 := find_real_name st name).
  set (stx := if mem_bytes (lower rn0) (m_listp st) && negb (dmem rn0 (m_config st))
              then with_config st (dset rn0 (CList true []) (m_config st)) else st).
  assert (tracked_inv stx) as Hx.
  { unfold stx. destruct (mem_bytes (lower rn0) (m_listp st) && negb (dmem rn0 (m_config st))) eqn:Ec; [|assumption].
    destruct Hinv as [HP [HC HU]]. split; [exact HP|]. split; [|exact HU].
    intros k' v' Hlt Hc. cbn [with_config m_config] in Hc. destruct (list_eq_dec ascii_dec rn0 k') as [E|E].
    - subst k'. rewrite dget_dset_same in Hc. inversion Hc. eauto.
    - rewrite dget_dset_other in Hc by assumption. eapply HC; eassumption. }
  destruct (dget rn0 (m_config stx)) as [v|] eqn:EV; [|discriminate].
  destruct v as [[s|z|b|t]|w l]; try (intros H; inversion H; subst; split; [exact Hx|intros v Hv; inversion Hv; subst; exact EV]).
  destruct (beqb s DEFAULT_VALUE); [destruct (dget rn0 (m_defaults stx))|]; intros H; inversion H; subst;
    (split; [exact Hx|intros v Hv; inversion Hv; subst; exact EV]).
Qed.

Lemma tracked_read st name st1 r : tracked_inv st -> m_read st name = Some (st1, r) -> tracked_inv st1.
Proof.
  intros Hinv. unfold m_read. destruct (m_getattr st name) as [[[s1 rn] g]|k|] eqn:E; intros H; inversion H; subst.
  - eapply tracked_getattr; eassumption.
  - assumption.
Qed.

Lemma tracked_snapshot names : forall st st1 rs, tracked_inv st -> m_snapshot st names = Some (st1, rs) -> tracked_inv st1.
Proof.
  induction names as [|n names IH]; intros st st1 rs Hinv H; cbn [m_snapshot] in H.
  - inversion H. subst. assumption.
  - destruct (m_read st n) as [[s1 r]|] eqn:E; [|discriminate].
    destruct (m_snapshot s1 names) as [[s2 rs']|] eqn:E2; [|discriminate].
    inversion H. subst. eapply IH; [|eassumption]. eapply tracked_read; eassumption.
Qed.

Lemma tracked_mark_unsaved st rn st1 :
  tracked_inv st -> mark_unsaved st rn = Ok st1 -> tracked_inv st1 /\ m_config st1 = m_config st.
Proof.
  intros Hinv E. unfold mark_unsaved in E.
  destruct (negb (beqb (find_real_name st rn) rn)); [discriminate|].
  destruct (dmem (find_real_name st rn) (m_config st) && negb (dmem (find_real_name st rn) (m_unsaved st)));
    inversion E; subst; [|split; [assumption|reflexivity]].
  split; [|reflexivity].
  destruct Hinv as [HP [HC HU]]. split; [exact HP|]. split; [exact HC|].
  intros k w l Hin Hlt. cbn [with_unsaved m_unsaved] in Hin.
  apply In_dset in Hin as [[E1 E2]|Hin]; [discriminate|]. eapply HU; eassumption.
Qed.

Lemma tracked_listop st name o st1 ex : tracked_inv st -> m_listop st name o = Ok (st1, ex) -> tracked_inv st1.
Proof.
  intros Hinv E. unfold m_listop in E.
  destruct (m_getattr st name) as [[[sg rn] g]|k|] eqn:EG; [|inversion E; subst; assumption|discriminate].
  destruct (tracked_getattr _ _ _ _ _ Hinv EG) as [Hsg Hg].
  destruct g as [[a|w l]|[ds|dl]]; try discriminate; try (inversion E; subst; assumption).
  change on_modify_before_op with false in E. cbv iota in E.
  pose proof (Hg _ eq_refl) as Hc.
  destruct (py_list_op o l) as [l'|k]; [|inversion E; subst; assumption].
  cbv zeta in E.
  pose proof (tracked_with_config_same sg rn w l l' Hsg Hc) as Hs2.
  match type of E with bind ?r _ = _ => destruct r as [s3|k|] eqn:EM end; cbn [bind] in E; try discriminate.
  inversion E; subst.
  destruct (w && is_wrapped o); [|inversion EM; subst; assumption].
  eapply tracked_mark_unsaved; eassumption.
Qed.

Lemma tracked_setattr st name v st1 : tracked_inv st -> m_setattr st name v = Ok st1 -> tracked_inv st1.
Proof.
  intros [HP [HC HU]] E. unfold m_setattr in E.
  destruct (ci_eqb (find_real_name st name) hiddenservices_lc); [discriminate|].
  destruct (dget (find_real_name st name) (m_parsers st)) as [[[pk vk] il]|]; [|discriminate].
  destruct (validate vk v) as [v1|k|]; cbn [bind] in E; inversion E.
  split; [exact HP|]. split; [exact HC|].
  intros k w l Hin Hlt. cbn [with_unsaved m_unsaved] in Hin.
  apply In_dset in Hin as [[E1 E2]|Hin]; [|eapply HU; eassumption].
  destruct v1; cbn in E2; now inversion E2.
Qed.

(* the loop of save(): `items` is the snapshot of unsaved taken when the loop started *)
Lemma tracked_save_loop : forall items st acc st' args,
  tracked_inv st ->
  (forall k w l, In (k, UVal (CList w l)) items -> list_typed st k -> w = true) ->
  save_loop st items acc = Ok (st', args) -> tracked_inv st' /\ m_parsers st' = m_parsers st.
Proof.
  induction items as [|[key uv] rest IH]; intros st acc st' args Hinv Hit H; cbn [save_loop] in H.
  - inversion H. subst. auto.
  - destruct (beqb key (bs "HiddenServices")); [discriminate|].
    destruct (match uv with UAlias => dget key (m_config st) | UVal v => Some v end) as [value|] eqn:EV; [|discriminate].
    destruct (negb (beqb (find_real_name st key) key)) eqn:Hrn; [discriminate|].
    apply negb_false_iff, beqb_eq in Hrn.
    assert (forall st1, tracked_inv st1 -> m_parsers st1 = m_parsers st -> forall acc1,
              save_loop st1 rest acc1 = Ok (st', args) -> tracked_inv st' /\ m_parsers st' = m_parsers st) as Hgo.
    { intros st1 H1 HP1 acc1 Hl.
      destruct (IH st1 acc1 st' args H1) as [Ha Hb]; [|exact Hl|split; [exact Ha|congruence]].
      intros k w l Hin [Hsp [pk [vk Hlt]]]. apply (Hit k w l (or_intror Hin)). split; [assumption|]. exists pk, vk. now rewrite <- HP1. }
    destruct value as [a|w l].
    + rewrite Hrn in H.
      destruct (dget key (m_parsers st)) as [[[pk vk] il]|] eqn:EP.
      * destruct (parse pk (PAtom a)) as [pv|e|] eqn:EPa; cbn [bind] in H; try discriminate.
        match type of H with save_loop ?s _ _ = _ => refine (Hgo s _ eq_refl _ H) end. apply tracked_set_config; [assumption|].
        intros [Hsp [pk' [vk' Hp]]]. rewrite EP in Hp. inversion Hp. subst pk' vk' il.
        destruct Hinv as [HP _].
        destruct (parse_list_kind pk _ _ (known_list_kind pk vk (HP _ _ EP)) EPa) as [l Hl]. subst pv. cbn. eauto.
      * match type of H with save_loop ?s _ _ = _ => refine (Hgo s _ eq_refl _ H) end. apply tracked_set_config; [assumption|].
        intros [Hsp [pk' [vk' Hp]]]. rewrite EP in Hp. discriminate.
    + destruct (existsb (fun x => match x with AStr s => beqb s DEFAULT_VALUE | _ => false end) l); [discriminate|].
      match type of H with save_loop ?s _ _ = _ => refine (Hgo s _ eq_refl _ H) end.
      destruct Hinv as [HP [HC HU]]. split; [exact HP|]. split; cbn [m_config m_unsaved m_parsers].
      * intros k' v' Hlt Hc. destruct (list_eq_dec ascii_dec key k') as [E|E].
        -- subst k'. rewrite dget_dset_same in Hc. inversion Hc. subst v'.
           destruct uv as [|v0].
           ++ eapply HC; eassumption.
           ++ inversion EV. subst v0. rewrite (Hit key w l (or_introl eq_refl) Hlt). eauto.
        -- rewrite dget_dset_other in Hc by assumption. eapply HC; eassumption.
      * intros k' w' l' Hin Hlt. apply In_dset in Hin as [[E1 E2]|Hin]; [discriminate|]. eapply HU; eassumption.
Qed.

Lemma tracked_save st rej st1 wrote r : tracked_inv st -> m_save st rej = Some (st1, wrote, r) -> tracked_inv st1.
Proof.
  intros Hinv H. unfold m_save in H. destruct (m_unsaved st) as [|it items] eqn:EU.
  - inversion H. subst. assumption.
  - rewrite <- EU in H.
    destruct (save_loop st (m_unsaved st) []) as [[sl args]|k|] eqn:EL; try discriminate.
    destruct (tracked_save_loop _ _ _ _ _ Hinv (proj2 (proj2 Hinv)) EL) as [Hsl HPsl].
    destruct (existsb (fun kv : bytes * bytes => key_refused (fst kv)) args); [inversion H; subst; assumption|].
    destruct rej; inversion H; subst; [assumption|].
    destruct Hsl as [HP [HC HU]]. split; [exact HP|]. split; [exact HC|]. intros k w l [].
Qed.

Lemma tracked_conf_changed : forall kvs st st1, tracked_inv st -> conf_changed_items st kvs = Ok st1 -> tracked_inv st1.
Proof.
  induction kvs as [|kv kvs IH]; intros st st1 Hinv H; cbn [conf_changed_items] in H.
  - inversion H. subst. assumption.
  - destruct (conf_changed_item st kv) as [s1|k|] eqn:E; cbn [bind] in H; try discriminate.
    eapply IH; [|eassumption].
    unfold conf_changed_item in E. destruct kv as [k v0].
    destruct (dget (find_real_name st k) (m_parsers st)) as [[[pk vk] il]|] eqn:EP.
    + match type of E with (match ?r with _ => _ end) = _ => destruct r as [cv|k'|] eqn:ER end.
      * inversion E. apply tracked_set_config; [assumption|].
        intros [Hsp [pk' [vk' Hp]]]. rewrite EP in Hp. inversion Hp. subst pk' vk' il.
        unfold conf_changed_value in ER. cbn [negb] in ER. rewrite andb_false_r in ER.
        destruct (parse pk (pyval_of_kw v0)) as [parsed|e|]; cbn [bind] in ER; try discriminate.
        destruct parsed as [a|l]; [discriminate|].
        match type of ER with bind ?r _ = _ => destruct r as [l'|?|] end; cbn [bind] in ER; try discriminate.
        inversion ER. eauto.
      * destruct ((k' =? E_Value) || (k' =? E_Type)); inversion E. subst. assumption.
      * discriminate.
    + inversion E. apply tracked_set_config; [assumption|].
      intros [Hsp [pk' [vk' Hp]]]. rewrite EP in Hp. discriminate.
Qed.

Lemma tracked_step_base names st o st' ob : m_step_base names st o = Some (st', ob) -> tracked_inv st -> tracked_inv st'.
Proof.
  intros H Hinv. destruct o; cbn [m_step_base m_step_gen] in H; [| | | | | | | |discriminate].
  - destruct (m_setattr st name v) as [s1|k|] eqn:E; inversion H; subst; [|assumption].
    eapply tracked_setattr; eassumption.
  - destruct (m_listop st name o) as [[s1 ex]|k|] eqn:E; [|discriminate|discriminate].
    assert (tracked_inv s1) by (eapply tracked_listop; eassumption).
    destruct ex; inversion H; subst; assumption.
  - destruct (m_save st reject) as [[[s1 wrote] r]|] eqn:E; [|discriminate].
    destruct (m_snapshot s1 names) as [[s2 snap]|] eqn:ES; [|discriminate].
    inversion H. subst. eapply tracked_snapshot; [|eassumption]. eapply tracked_save; eassumption.
  - destruct (m_read st name) as [[s1 [v|k]]|] eqn:E; inversion H; subst; eapply tracked_read; eassumption.
  - inversion H. subst. assumption.
  - destruct (m_conf_changed st items) as [s1|k|] eqn:E; try discriminate.
    destruct (m_snapshot s1 names) as [[s2 snap]|] eqn:ES; [|discriminate].
    inversion H. subst. eapply tracked_snapshot; [|eassumption]. eapply tracked_conf_changed; eassumption.
  - destruct (m_socks st) as [[s1 r]|] eqn:E; [|discriminate]. inversion H. subst.
    unfold m_socks in E.
    destruct (m_getattr st (bs "SocksPort")) as [[[sg rn] g]|k|] eqn:EG; [|inversion E; subst; assumption|discriminate].
    destruct (tracked_getattr _ _ _ _ _ Hinv EG) as [Hsg _].
    destruct g as [[[[|c0 s0]|z0|b0|t0]|w [|x l]]|[[|c0 s0]|[|x l]]]; try discriminate; try (inversion E; subst; assumption);
      match type of E with option_map _ ?r = _ => destruct r as [r0|]; cbn [option_map] in E; inversion E; subst; assumption end.
  - destruct (m_getattr st src) as [[[sg rn] g]|k|] eqn:EG; [|inversion H; subst; assumption|discriminate].
    destruct (tracked_getattr _ _ _ _ _ Hinv EG) as [Hsg _].
    match type of H with match ?r with _ => _ end = _ => destruct r as [s2|k|] eqn:E end; inversion H; subst; [|assumption].
    eapply tracked_setattr; eassumption.
Qed.

Lemma tracked_send st st' c : m_send st = Some (st', c) -> tracked_inv st -> tracked_inv st'.
Proof.
  intros H Hinv. unfold m_send in H. destruct (m_unsaved st) as [|it items] eqn:EU; [inversion H; subst; exact Hinv|].
  rewrite <- EU in H. destruct (save_loop st (m_unsaved st) []) as [[sl args]|k|] eqn:EL; try discriminate.
  destruct (tracked_save_loop _ _ _ _ _ Hinv (proj2 (proj2 Hinv)) EL) as [Hsl _].
  destruct (existsb (fun kv : bytes * bytes => key_refused (fst kv)) args); [discriminate|]. inversion H. subst. exact Hsl.
Qed.

Lemma tracked_step names st o st' ob : m_step names st o = Some (st', ob) -> tracked_inv st -> tracked_inv st'.
Proof.
  intros H Hinv. destruct o as [? ?|? ?|?|?| |?| |? ?|rj dz];
    try (match type of H with m_step _ _ ?o = _ => exact (tracked_step_base names st o st' ob H Hinv) end).
  cbn [m_step m_step_gen] in H.
  refine (m_flight_inv tracked_inv names _ _ _ _ st rj dz st' ob H Hinv).
  - intros s o s' ob'. apply tracked_step_base.
  - intros s s' c. apply tracked_send.
  - intros s f [HP [HC HU]]. split; [exact HP|]. split; [exact HC|]. cbn [with_unsaved m_unsaved].
    intros k w l Hin. apply (HU k w l). now apply filter_In in Hin as [Hin _].
  - intros s s' rs Hs Hi. eapply tracked_snapshot; eassumption.
Qed.

Lemma reaches_tracked names st ops st' : reaches names st ops st' -> tracked_inv st -> tracked_inv st'.
Proof. induction 1; intros Hinv; [assumption|]. apply IHreaches. eapply tracked_step; eassumption. Qed.

(* ---- bootstrap establishes the invariant, for ANY table / store / defaults ---- *)
Lemma lookup_type_known tyname ty : lookup_type tyname = Some ty -> In ty (map snd config_types).
Proof.
  unfold lookup_type.
  assert (forall l acc, (forall t, acc = Some t -> In t (map snd config_types)) -> incl l config_types ->
            forall t, fold_left (fun a (e : string * tyinfo) => if beqb (bs (fst e)) tyname then Some (snd e) else a) l acc = Some t ->
                      In t (map snd config_types)) as H.
  { induction l as [|e l IH]; intros acc Hacc Hincl t; cbn [fold_left].
    - apply Hacc.
    - apply IH.
      + intros t0. match goal with |- context [if ?c then _ else _] => destruct c end; [|exact (Hacc t0)].
        intros E. inversion E. apply in_map. apply Hincl. now left.
      + intros x Hx. apply Hincl. now right. }
  apply (H config_types None); [discriminate|apply incl_refl].
Qed.

Definition boot_inv (st : mst) : Prop :=
  parsers_known st /\
  (forall k v, list_typed st k -> dget k (m_config st) = Some v -> exists l, v = CList true l) /\
  m_unsaved st = [].

Lemma boot_inv_tracked st : boot_inv st -> tracked_inv st.
Proof. intros [HP [HC HU]]. split; [exact HP|]. split; [exact HC|]. rewrite HU. intros k w l []. Qed.

(* one `self.parsers[rn] = ...; self.config[rn] = v` of _do_setup *)
Lemma boot_set st rn pk vk il lp v :
  boot_inv st -> In (pk, vk, il) (map snd config_types) -> (il = true -> exists l, v = CList true l) ->
  boot_inv (set_config {| m_parsers := dset rn (pk, vk, il) (m_parsers st); m_listp := lp; m_defaults := m_defaults st;
                          m_config := m_config st; m_unsaved := m_unsaved st |} rn v).
Proof.
  intros [HP [HC HU]] Hty Hv. split; [|split].
  - intros k t Hk. unfold set_config in Hk. cbn [m_parsers] in Hk. destruct (list_eq_dec ascii_dec rn k) as [E|E].
    + subst k. rewrite dget_dset_same in Hk. now inversion Hk.
    + rewrite dget_dset_other in Hk by assumption. eapply HP; eassumption.
  - intros k v' [Hsp [pk' [vk' Hp]]] Hc. rewrite set_config_config in Hc. cbn [m_config] in Hc.
    unfold set_config in Hp. cbn [m_parsers] in Hp.
    destruct (list_eq_dec ascii_dec rn k) as [E|E].
    + subst k. rewrite dget_dset_same in Hc. rewrite dget_dset_same in Hp. inversion Hc. inversion Hp. subst. now apply Hv.
    + rewrite dget_dset_other in Hc by assumption. rewrite dget_dset_other in Hp by assumption. apply (HC k v'); [split; [assumption|now exists pk', vk']|assumption].
  - unfold set_config. cbn [m_unsaved]. now rewrite HU.
Qed.

Lemma boot_set_config st rn v :
  boot_inv st -> (list_typed st rn -> exists l, v = CList true l) -> boot_inv (set_config st rn v).
Proof.
  intros [HP [HC HU]] Hv. split; [exact HP|split].
  - intros k v' Hlt Hc. rewrite set_config_config in Hc. destruct (list_eq_dec ascii_dec rn k) as [E|E].
    + subst k. rewrite dget_dset_same in Hc. inversion Hc. subst. now apply Hv.
    + rewrite dget_dset_other in Hc by assumption. eapply HC; eassumption.
  - unfold set_config. cbn [m_unsaved]. now rewrite HU.
Qed.

Lemma boot_setup_row store st row st1 : boot_inv st -> setup_row store st row = Ok st1 -> boot_inv st1.
Proof.
  intros Hinv H. unfold setup_row in H. destruct row as [name value].
  destruct (beqb name (bs "HiddenServiceOptions")); [discriminate|].
  match type of H with bind ?r _ = _ => destruct r as [sx|k|] eqn:E1 end; cbn [bind] in H; try discriminate.
  unfold setup_ports in E1. unfold setup_own in H.
  assert (boot_inv sx) as HX.
  { destruct (suffixb PortLines_sfx name); [|inversion E1; subst; assumption].
    destruct (lookup_type (bs "String")) as [[[spk svk] sil]|] eqn:ES; [|discriminate].
    inversion E1. apply boot_set; [assumption|eapply lookup_type_known; eassumption|eauto]. }
  destruct (mem_bytes value skip_types); [inversion H; subst; assumption|].
  destruct (lookup_type (plus_to_underscore value)) as [[[pk vk] il]|] eqn:ET; [|discriminate].
  pose proof (lookup_type_known _ _ ET) as Hty.
  destruct il.
  - match type of H with bind ?r _ = _ => destruct r as [parsed|k|] end; cbn [bind] in H; try discriminate.
    destruct parsed as [a|l]; [discriminate|].
    match type of H with bind ?r _ = _ => destruct r as [l'|k|] end; cbn [bind] in H; try discriminate.
    inversion H.
    apply (boot_set sx (find_real_name sx name) pk vk true); [assumption|assumption|eauto].
  - match type of H with bind ?r _ = _ => destruct r as [parsed|k|] end; cbn [bind] in H; try discriminate.
    inversion H. apply (boot_set sx (find_real_name sx name) pk vk false); [assumption|assumption|discriminate].
Qed.

Lemma bootstrap_tracked i st : m_bootstrap i = Ok st -> tracked_inv st.
Proof.
  unfold m_bootstrap.
  set (st0 := {| m_parsers := []; m_listp := _; m_defaults := _; m_config := _; m_unsaved := [] |}).
  assert (boot_inv st0) as H0.
  { split; [|split]; [intros k ty Hk; discriminate|intros k v [_ [pk [vk Hk]]]; discriminate|reflexivity]. }
  assert (forall rows s s1, boot_inv s -> setup_rows (i_store i) s rows = Ok s1 -> boot_inv s1) as Hrows.
  { induction rows as [|r rows IH]; intros s s1 Hs H; cbn [setup_rows] in H.
    - inversion H. subst. assumption.
    - destruct (setup_row (i_store i) s r) as [sx|k|] eqn:E; cbn [bind] in H; try discriminate.
      eapply IH; [|eassumption]. eapply boot_setup_row; eassumption. }
  destruct (setup_rows (i_store i) st0 (i_table i)) as [s1|k|] eqn:E; cbn [bind]; try discriminate.
  intros H. inversion H. apply boot_inv_tracked.
  pose proof (Hrows _ _ _ H0 E) as H1.
  (* the two onion-service lists are plain lists stored under names that are not options *)
  apply boot_set_config; [apply boot_set_config; [assumption|]|]; intros [Hsp _]; discriminate Hsp.
Qed.

(* ================================================================== read - edit - save keeps working *)
Lemma all_ops_wrapped o : is_wrapped o = true.
Proof. destruct o; vm_compute; reflexivity. Qed.

Lemma getattr_config st name st1 rn v :
  m_getattr st name = Ok (st1, rn, GConfig v) -> rn = find_real_name st name /\ dget rn (m_config st1) = Some v.
Proof.
  unfold m_getattr.
  set (rn0 := find_real_name st name).
  set (stx := if mem_bytes (lower rn0) (m_listp st) && negb (dmem rn0 (m_config st))
              then with_config st (dset rn0 (CList true []) (m_config st)) else st).
  destruct (dget rn0 (m_config stx)) as [v0|] eqn:EV; [|discriminate].
  destruct v0 as [[s|z|b|t]|w l]; try (intros HH; inversion HH; subst; auto; fail).
  destruct (beqb s DEFAULT_VALUE); [destruct (dget rn0 (m_defaults stx))|]; intros HH; inversion HH; subst; auto.
Qed.

(* a tracked list that a read returns, with nothing pending for it: an in-place operation that
   Python accepts makes the option pending AS that list, and the list is the edited one *)
Lemma edit_tracked_is_pending st k l o l' :
  m_getattr st k = Ok (st, k, GConfig (CList true l)) ->
  dmem k (m_unsaved st) = false ->
  py_list_op o l = inl l' ->
  exists st1, m_listop st k o = Ok (st1, None) /\
    m_unsaved st1 = m_unsaved st ++ [(k, UAlias)] /\
    m_config st1 = dset k (CList true l') (m_config st) /\
    item_args st1 (k, UAlias) = map (fun x => (k, atom_text x)) l'.
Proof.
  intros HG HU HO.
  destruct (getattr_config _ _ _ _ _ HG) as [Hrn Hc].
  unfold m_listop. rewrite HG.
  change on_modify_before_op with false. cbv iota. rewrite HO. cbv zeta.
  rewrite all_ops_wrapped. cbn [andb]. unfold mark_unsaved.
  assert (find_real_name (with_config st (dset k (CList true l') (m_config st))) k = k) as ->.
  { rewrite Hrn at 3. unfold find_real_name. cbn [with_config m_parsers m_config]. now rewrite keys_dset_mem by (unfold dmem; now rewrite Hc). }
  rewrite beqb_refl. cbn [negb with_config m_config m_unsaved].
  assert (dmem k (dset k (CList true l') (m_config st)) = true) as -> by (unfold dmem; now rewrite dget_dset_same).
  rewrite HU. cbn [andb negb bind].
  eexists. split; [reflexivity|]. cbn [with_config with_unsaved m_unsaved m_config].
  split; [|split].
  - apply dset_new_app. unfold dmem in HU. destruct (dget k (m_unsaved st)); [discriminate|reflexivity].
  - reflexivity.
  - unfold item_args. cbn [fst snd resolve with_config with_unsaved m_config]. now rewrite dget_dset_same.
Qed.

(* ================================================================== witnesses of the open findings *)
Definition p_table : list (bytes * bytes) :=
  [(bs "SocksPort", bs "Dependent"); (bs "SocksPortLines", bs "Virtual"); (bs "__SocksPort", bs "Dependent");
   (bs "Log", bs "LineList"); (bs "ExitNodes", bs "RouterList"); (bs "Nickname", bs "String"); (bs "NumCPUs", bs "Integer")].
Definition p_input store defaults ops : cfg_input :=
  {| i_table := p_table; i_store := store; i_defaults := defaults; i_pre := None; i_ops := ops |}.
Definition p_store : list (bytes * list bytes) :=
  [(bs "SocksPort", [bs "9050"]); (bs "Log", [bs "notice stdout"]); (bs "Nickname", [bs "bob"]); (bs "NumCPUs", [bs "2"])].

(* former F1: the port list is unset and config/defaults has one line for it *)
Definition w11_f1 := p_input [(bs "NumCPUs", [bs "2"])] (Some [(bs "SocksPort", bs "9050")]) [OpRead (bs "SocksPort")].
(* former F2: CONF_CHANGED names the port list *)
Definition w11_f2 := p_input p_store (Some []) [OpEvent [(bs "SocksPort", Some (bs "8888"))]; OpSocks].
(* former F3: two values, then a keyword-only line *)
Definition w11_f3 := p_input p_store (Some [])
  [OpEvent [(bs "Log", Some (bs "info file /tmp/x")); (bs "Log", Some (bs "err stderr")); (bs "Nickname", None)]].
(* former F4: default of an unset comma list *)
Definition w11_f4 := p_input p_store (Some [(bs "ExitNodes", bs "x,y")]) [OpRead (bs "exitnodes")].
(* F5: edit, CONF_CHANGED for the same option, edit, save *)
Definition w11_f5 := p_input p_store (Some [])
  [OpListOp (bs "Log") (LAppend (AStr (bs "mine"))); OpEvent [(bs "Log", Some (bs "theirs"))];
   OpListOp (bs "Log") (LAppend (AStr (bs "later"))); OpSave None; OpRead (bs "Log")].
(* outside every class: defaults in use, an event with many / one / zero values, case-insensitive
   reads, socks_endpoint(), then read - edit - save on the list the event installed *)
Definition w11_ok := p_input p_store (Some [(bs "ExitNodes", bs "de"); (bs "Nickname", bs "Unnamed")])
  [OpRead (bs "EXITNODES"); OpSocks;
   OpEvent [(bs "Log", Some (bs "info file /tmp/x")); (bs "Log", Some (bs "err stderr")); (bs "NumCPUs", Some (bs "8"))];
   OpEvent [(bs "Nickname", None); (bs "ExitNodes", Some (bs "a, b"))];
   OpRead (bs "nickname"); OpRead (bs "log");
   OpListOp (bs "LOG") (LAppend (AStr (bs "debug stderr"))); OpListOp (bs "exitnodes") (LPop (Some 0%Z));
   OpNeedsSave; OpSave None; OpRead (bs "Log"); OpEvent [(bs "Log", None)]; OpRead (bs "Log")].

Definition refutes11 (i : cfg_input) : Prop :=
  c11_scope i = true /\
  exists snap tr, model_run i = Some (true, snap, tr) /\ Spec.C11.oracle i true snap tr = false.

Ltac refute := split; [split; [vm_compute; reflexivity|eexists _, _; split; vm_compute; reflexivity]|vm_compute; reflexivity].

(* the former findings F1-F4 (repaired in the source): the same witnesses are now accepted, in no
   open class, and the observation that used to be wrong is the right one *)
Definition accepted11 (i : cfg_input) (k : nat) (r : ores) : Prop :=
  c11_scope i = true /\ c11_known i = false /\
  exists snap tr, model_run i = Some (true, snap, tr) /\ Spec.C11.oracle i true snap tr = true
                  /\ option_map o_res (nth_error tr k) = Some r.

Ltac accept := split; [vm_compute; reflexivity|]; split; [vm_compute; reflexivity|];
               eexists _, _; split; [vm_compute; reflexivity|]; split; vm_compute; reflexivity.

(* unset port list with one config/defaults line: a tracked list holding that line *)
Lemma f11_1_now_accepted : accepted11 w11_f1 0 (XVal (RList true [bs "9050"])).
Proof. accept. Qed.
(* CONF_CHANGED for a port list: still a list of lines, socks_endpoint() follows it *)
Lemma f11_2_now_accepted : accepted11 w11_f2 1 (XSocks (SockTcp (bs "127.0.0.1") 8888)).
Proof. accept. Qed.
(* two values then a keyword-only line: both values are kept, the other option reads as unset *)
Lemma f11_3_now_accepted :
  accepted11 w11_f3 0 (XEvent false [RGot (RList true [bs "9050"]);
                                     RGot (RList true [bs "info file /tmp/x"; bs "err stderr"]);
                                     RGot (RList true []); RGot (RAtom (AStr (bs "DEFAULT"))); RGot (RAtom (AInt 2))]).
Proof. accept. Qed.
(* the default of an unset comma list is split *)
Lemma f11_4_now_accepted : accepted11 w11_f4 0 (XVal (RList true [bs "x"; bs "y"])).
Proof. accept. Qed.

(* a port list that Tor reports as "auto" when attaching reads as its default lines (reading (2) of
   Spec.CfgOracle.worlds); unset by an event it reads as the default lines again, as a fresh
   tracked list; read-edit-save on it sends the edited lines *)
Definition w11_auto := p_input [(bs "SocksPort", [bs "auto"]); (bs "NumCPUs", [bs "2"])]
  (Some [(bs "SocksPort", bs "9050"); (bs "SocksPort", bs "9150 IsolateDestAddr")])
  [OpRead (bs "socksport"); OpEvent [(bs "SocksPort", Some (bs "auto"))]; OpRead (bs "SocksPort");
   OpEvent [(bs "SocksPort", None)]; OpListOp (bs "SocksPort") (LAppend (AStr (bs "unix:/run/tor/socks")));
   OpSave None; OpSocks].
Lemma f11_auto_accepted :
  accepted11 w11_auto 0 (XVal (RList true [bs "9050"; bs "9150 IsolateDestAddr"])) /\
  accepted11 w11_auto 2 (XVal (RList true [bs "auto"])) /\
  accepted11 w11_auto 6 (XSocks (SockTcp (bs "127.0.0.1") 9050)).
Proof. split; [accept|split; accept]. Qed.

(* a typed scalar option reset to its default (keyword-only CONF_CHANGED line): reads give the
   config/defaults line parsed by the declared type, or the sentinel when Tor announced none *)
Definition w11_reset := p_input p_store (Some [(bs "NumCPUs", bs "0")])
  [OpEvent [(bs "NumCPUs", Some (bs "8"))]; OpRead (bs "NumCPUs"); OpEvent [(bs "NumCPUs", None); (bs "Nickname", None)];
   OpRead (bs "numcpus"); OpRead (bs "Nickname")].
Lemma f11_reset_accepted :
  accepted11 w11_reset 1 (XVal (RAtom (AInt 8))) /\ accepted11 w11_reset 3 (XVal (RAtom (AInt 0))) /\
  accepted11 w11_reset 4 (XVal (RAtom (AStr (bs "DEFAULT")))).
Proof. split; [accept|split; accept]. Qed.

(* an announced value the declared type cannot read (NumCPUs=auto) next to readable ones: outside the
   envelope as it stands; settled (Spec.C11.settle) the event keeps its other lines, the unreadable
   option keeps its view (2), the others read as announced *)
Definition w11_unparsable := p_input p_store (Some [])
  [OpEvent [(bs "NumCPUs", Some (bs "auto")); (bs "Nickname", Some (bs "carol")); (bs "Log", Some (bs "err stderr"))];
   OpRead (bs "NumCPUs"); OpRead (bs "Nickname"); OpRead (bs "Log");
   OpEvent [(bs "NumCPUs", Some (bs "x")); (bs "Nickname", Some (bs "dave"))]; OpRead (bs "NumCPUs")].
Lemma f11_unparsable_settled :
  (c11_scope w11_unparsable = false) /\
  (i_ops (settle w11_unparsable) =
    [OpEvent [(bs "Nickname", Some (bs "carol")); (bs "Log", Some (bs "err stderr"))];
     OpRead (bs "NumCPUs"); OpRead (bs "Nickname"); OpRead (bs "Log"); OpEvent [(bs "Nickname", Some (bs "dave"))]; OpRead (bs "NumCPUs")]) /\
  accepted11 (settle w11_unparsable) 1 (XVal (RAtom (AInt 2))) /\
  accepted11 (settle w11_unparsable) 2 (XVal (RAtom (AStr (bs "carol")))) /\
  accepted11 (settle w11_unparsable) 3 (XVal (RList true [bs "err stderr"])) /\
  accepted11 (settle w11_unparsable) 5 (XVal (RAtom (AInt 2))).
Proof. split; [vm_compute; reflexivity|]. split; [vm_compute; reflexivity|].
       split; [accept|split; [accept|split; accept]]. Qed.

(* settling changes nothing where nothing is unreadable, and is idempotent *)
Lemma settle_op_idem : forall opts o, settle_op opts (settle_op opts o) = settle_op opts o.
Proof.
  intros opts o; destruct o; cbn [settle_op]; try reflexivity.
  f_equal. induction items as [|it items IH]; cbn [filter]; [reflexivity|].
  destruct (negb (unparsable_item opts it)) eqn:E; cbn [filter]; [rewrite E, IH; reflexivity|exact IH].
Qed.
Lemma settle_idem : forall i, settle (settle i) = settle i.
Proof.
  intros i; unfold settle; cbn [i_table i_store i_defaults i_pre i_ops]. f_equal.
  rewrite map_map. apply map_ext. intros o; apply settle_op_idem.
Qed.

(* inside the envelope nothing is unreadable: settling an in-scope input changes nothing, so the
   verdicts computed on the settled history are, for every in-scope case, the verdicts of the case itself *)
Lemma in_values_of_key : forall key v items,
  In (key, Some v) items -> v <> [] -> In v (values_of_key key items).
Proof.
  intros key v items; unfold values_of_key.
  induction items as [|e items IH]; cbn [map concat]; intros Hin Hv; [destruct Hin|].
  apply in_or_app. destruct Hin as [He|Hin].
  - left. subst e. cbn [fst snd]. replace (ci_eqb key key) with true by (unfold ci_eqb; symmetry; apply beqb_refl). destruct v as [|c r]; [congruence|left; reflexivity].
  - right. apply IH; assumption.
Qed.

Lemma event_item_ok_readable : forall opts items it,
  In it items -> event_item_ok opts items it = true -> unparsable_item opts it = false.
Proof.
  intros opts items [key ov] Hin Hok. unfold event_item_ok in Hok. unfold unparsable_item. cbn [fst snd] in *.
  destruct (dfind_ci key opts) as [[cn k]|]; [|reflexivity].
  destruct ov as [v|]; [|reflexivity].
  destruct v as [|c r]; [destruct k; reflexivity|].
  apply andb_true_iff in Hok. destruct Hok as [_ Hvals].
  pose proof (in_values_of_key key (c :: r) items Hin ltac:(discriminate)) as Hv.
  destruct (values_of_key key items) as [|v1 vs] eqn:Evals; [destruct Hv|].
  cbn [is_nil orb] in Hvals.
  destruct k; try reflexivity.
  all: unfold tor_values_ok in Hvals; destruct vs as [|v2 vs]; [|discriminate Hvals].
  all: destruct Hv as [Hv|[]]; subst v1; apply andb_true_iff in Hvals; destruct Hvals as [Hp _].
  all: cbn [is_nil negb andb]; destruct (parse_scalar _ (c :: r)); [reflexivity|discriminate Hp].
Qed.

Lemma filter_all : forall {A} (f : A -> bool) l, (forall x, In x l -> f x = true) -> filter f l = l.
Proof.
  intros A f l; induction l as [|a l IH]; cbn [filter]; intros H; [reflexivity|].
  rewrite (H a (or_introl eq_refl)). f_equal. apply IH. intros x Hx; apply H; right; exact Hx.
Qed.

Lemma op_ok_settled : forall opts o, op_ok opts o = true -> settle_op opts o = o.
Proof.
  intros opts o Hok; destruct o; cbn [settle_op]; try reflexivity.
  unfold op_ok, op_ok_gen in Hok. apply andb_true_iff in Hok. destruct Hok as [_ Hall].
  f_equal. apply filter_all. intros it Hin.
  rewrite forallb_forall in Hall. rewrite (event_item_ok_readable opts items it Hin (Hall it Hin)). reflexivity.
Qed.

Lemma in_scope_settled : forall i, in_scope i = true -> settle i = i.
Proof.
  intros [t s d p ops] Hs. unfold settle; cbn [i_table i_store i_defaults i_pre i_ops]. f_equal.
  unfold in_scope in Hs; cbn [i_table i_store i_defaults i_pre i_ops] in Hs.
  apply andb_true_iff in Hs. destruct Hs as [_ Hops]. rewrite forallb_forall in Hops.
  rewrite <- (map_id ops) at 2. apply map_ext_in. intros o Ho. apply op_ok_settled. apply Hops; exact Ho.
Qed.


Lemma c11_scope_settled : forall i, c11_scope i = true -> settle i = i.
Proof. intros i H. apply in_scope_settled. unfold c11_scope in H. apply andb_true_iff in H. exact (proj1 H). Qed.

(* the second way to reach the attached state: TorConfig(), assignments (not validated, never sent),
   attach_protocol().  Afterwards the view is Tor's configuration, exactly as with TorConfig(protocol) *)
Definition w11_attach :=
  {| i_table := p_table; i_store := p_store; i_defaults := Some [];
     i_pre := Some [(bs "SocksPort", PList [AInt 9050%Z; AStr (bs "1337")]); (bs "NumCPUs", PAtom (ABool true))];
     i_ops := [OpRead (bs "NumCPUs"); OpRead (bs "SocksPort"); OpAssign (bs "NumCPUs") (PAtom (AInt 4%Z));
               OpEvent [(bs "NumCPUs", Some (bs "8"))]; OpSave None; OpRead (bs "numcpus")] |}.
Lemma f11_attach_accepted :
  accepted11 w11_attach 0 (XVal (RAtom (AInt 2))) /\ accepted11 w11_attach 1 (XVal (RList true [bs "9050"])) /\
  accepted11 w11_attach 5 (XVal (RAtom (AInt 4))).
Proof. split; [accept|split; accept]. Qed.

Lemma f11_5_refuted : refutes11 w11_f5 /\ edit_while_detached w11_f5 = true.
Proof. refute. Qed.

Lemma ok11_example :
  c11_scope w11_ok = true /\ c11_known w11_ok = false /\
  exists snap tr, model_run w11_ok = Some (true, snap, tr) /\ Spec.C11.oracle w11_ok true snap tr = true
    /\ concat (map o_wrote tr) = [bs "SETCONF Log=""info file /tmp/x"" Log=""err stderr"" Log=""debug stderr"" ExitNodes=b"].
Proof. split; [vm_compute; reflexivity|]. split; [vm_compute; reflexivity|].
       eexists _, _. split; [vm_compute; reflexivity|]. split; vm_compute; reflexivity. Qed.
