(* Lemmas for C11 (all the proof work; Properties/C11.v only restates them). *)
From Coq Require Import String.
From Coq Require Import List Bool Ascii Arith NArith ZArith Lia.
From TxVerif Require Import Lib.Bytes Lib.CfgLib Spec.CfgTypes Spec.TorStore Spec.CfgOracle Spec.C10 Spec.C11
  Model.ConfigKinds Gen.ConfigTypes Model.Config Proofs.CfgLibProofs Proofs.C10Proofs.
Import ListNotations.
Open Scope N_scope.

Lemma event_silent names st items st' ob :
  m_step names st (OpEvent items) = Some (st', ob) -> o_wrote ob = [].
Proof. intros H. eapply step_silent; [eassumption|reflexivity]. Qed.

(* ================================================================== shape stability
   In every state any history reaches (ANY table, ANY store, ANY events with any values):
   an option whose declared type is a list type holds a TRACKED list. *)
Definition list_typed (st : mst) (k : bytes) : Prop :=
  exists pk vk, dget k (m_parsers st) = Some (pk, vk, true).

Definition parsers_known (st : mst) : Prop :=
  forall k ty, dget k (m_parsers st) = Some ty -> In ty (map snd config_types).

Definition tracked_inv (st : mst) : Prop :=
  parsers_known st /\
  (forall k v, list_typed st k -> dget k (m_config st) = Some v -> exists l, v = CList true l) /\
  (forall k w l, In (k, UVal (CList w l)) (m_unsaved st) -> list_typed st k -> w = true).

(* a list type parses to a list (by computation over the regenerated table) *)
Definition list_parse_kind (pk : parse_kind) : bool := match pk with PComma | PLines => true | _ => false end.
Lemma list_types_parse_lists :
  forallb (fun e : string * tyinfo => let '(pk, _, il) := snd e in implb il (list_parse_kind pk)) config_types = true.
Proof. vm_compute. reflexivity. Qed.

Lemma known_list_kind pk vk : In (pk, vk, true) (map snd config_types) -> list_parse_kind pk = true.
Proof.
  intros Hin. apply in_map_iff in Hin as [e [He Hin]].
  pose proof (proj1 (forallb_forall _ _) list_types_parse_lists e Hin) as H.
  destruct e as [nm [[pk' vk'] il']]. cbn in He, H. inversion He. subst. exact H.
Qed.

Lemma parse_list_kind pk v p : list_parse_kind pk = true -> parse pk v = Ok p -> exists l, p = PList l.
Proof.
  destruct pk; try discriminate; intros _; cbn [parse].
  - destruct v as [[s|z|b|t]|l]; try discriminate. intros H. inversion H. eauto.
  - destruct v as [[s|z|b|t]|l]; try discriminate; intros H; inversion H; eauto.
Qed.

(* config[k] = v keeps the invariant when v is a tracked list or k is not list-typed *)
Lemma tracked_set_config st k v :
  tracked_inv st -> (list_typed st k -> exists l, v = CList true l) -> tracked_inv (set_config st k v).
Proof.
  intros [HP [HC HU]] Hv. split; [exact HP|]. split.
  - intros k' v' Hlt Hc. rewrite set_config_config in Hc.
    destruct (list_eq_dec ascii_dec k k') as [E|E].
    + subst k'. rewrite dget_dset_same in Hc. inversion Hc. subst v'. now apply Hv.
    + rewrite dget_dset_other in Hc by assumption. eapply HC; eassumption.
  - intros k' w l Hin Hlt. unfold set_config in Hin. cbn [m_unsaved] in Hin.
    destruct (dget k (m_unsaved st)) as [[|v0]|] eqn:EU; try (eapply HU; eassumption).
    destruct (dget k (m_config st)) as [old|] eqn:EC; [|eapply HU; eassumption].
    apply In_dset in Hin as [[E1 E2]|Hin]; [|eapply HU; eassumption].
    subst k'. inversion E2. subst old.
    destruct (HC k _ Hlt EC) as [l0 Hl0]. now inversion Hl0.
Qed.

Lemma tracked_with_config_same st k w l l' :
  tracked_inv st -> dget k (m_config st) = Some (CList w l) ->
  tracked_inv (with_config st (dset k (CList w l') (m_config st))).
Proof.
  intros [HP [HC HU]] Hk. split; [exact HP|]. split; [|exact HU].
  intros k' v' Hlt Hc. cbn [with_config m_config] in Hc.
  destruct (list_eq_dec ascii_dec k k') as [E|E].
  - subst k'. rewrite dget_dset_same in Hc. inversion Hc.
    destruct (HC k _ Hlt Hk) as [l0 E0]. inversion E0. eauto.
  - rewrite dget_dset_other in Hc by assumption. eapply HC; eassumption.
Qed.

Lemma tracked_getattr st name st1 rn g :
  tracked_inv st -> m_getattr st name = Ok (st1, rn, g) ->
  tracked_inv st1 /\ (forall v, g = GConfig v -> dget rn (m_config st1) = Some v).
Proof.
  intros Hinv. unfold m_getattr.
  set (rn0 := find_real_name st name).
  set (stx := if mem_bytes (lower rn0) (m_listp st) && negb (dmem rn0 (m_config st))
              then with_config st (dset rn0 (CList true []) (m_config st)) else st).
  assert (tracked_inv stx) as Hx.
  { unfold stx. destruct (mem_bytes (lower rn0) (m_listp st) && negb (dmem rn0 (m_config st))) eqn:Ec; [|assumption].
    destruct Hinv as [HP [HC HU]]. split; [exact HP|]. split; [|exact HU].
    intros k' v' Hlt Hc. cbn [with_config m_config] in Hc. destruct (list_eq_dec ascii_dec rn0 k') as [E|E].
    - subst k'. rewrite dget_dset_same in Hc. inversion Hc. eauto.
    - rewrite dget_dset_other in Hc by assumption. eapply HC; eassumption. }
  destruct (dget rn0 (m_config stx)) as [v|] eqn:EV; [|discriminate].
  destruct v as [[s|z|b|t]|w l]; try (intros H; inversion H; subst; split; [exact Hx|intros v Hv; inversion Hv; subst; exact EV]).
  destruct (beqb s DEFAULT_VALUE); [destruct (dget rn0 (m_defaults stx))|]; intros H; inversion H; subst;
    (split; [exact Hx|intros v Hv; inversion Hv; subst; exact EV]).
Qed.

Lemma tracked_read st name st1 r : tracked_inv st -> m_read st name = Some (st1, r) -> tracked_inv st1.
Proof.
  intros Hinv. unfold m_read. destruct (m_getattr st name) as [[[s1 rn] g]|k|] eqn:E; intros H; inversion H; subst.
  - eapply tracked_getattr; eassumption.
  - assumption.
Qed.

Lemma tracked_snapshot names : forall st st1 rs, tracked_inv st -> m_snapshot st names = Some (st1, rs) -> tracked_inv st1.
Proof.
  induction names as [|n names IH]; intros st st1 rs Hinv H; cbn [m_snapshot] in H.
  - inversion H. subst. assumption.
  - destruct (m_read st n) as [[s1 r]|] eqn:E; [|discriminate].
    destruct (m_snapshot s1 names) as [[s2 rs']|] eqn:E2; [|discriminate].
    inversion H. subst. eapply IH; [|eassumption]. eapply tracked_read; eassumption.
Qed.

Lemma tracked_mark_unsaved st rn st1 :
  tracked_inv st -> mark_unsaved st rn = Ok st1 -> tracked_inv st1 /\ m_config st1 = m_config st.
Proof.
  intros Hinv E. unfold mark_unsaved in E.
  destruct (negb (beqb (find_real_name st rn) rn)); [discriminate|].
  destruct (dmem (find_real_name st rn) (m_config st) && negb (dmem (find_real_name st rn) (m_unsaved st)));
    inversion E; subst; [|split; [assumption|reflexivity]].
  split; [|reflexivity].
  destruct Hinv as [HP [HC HU]]. split; [exact HP|]. split; [exact HC|].
  intros k w l Hin Hlt. cbn [with_unsaved m_unsaved] in Hin.
  apply In_dset in Hin as [[E1 E2]|Hin]; [discriminate|]. eapply HU; eassumption.
Qed.

Lemma tracked_listop st name o st1 ex : tracked_inv st -> m_listop st name o = Ok (st1, ex) -> tracked_inv st1.
Proof.
  intros Hinv E. unfold m_listop in E.
  destruct (m_getattr st name) as [[[sg rn] g]|k|] eqn:EG; [|inversion E; subst; assumption|discriminate].
  destruct (tracked_getattr _ _ _ _ _ Hinv EG) as [Hsg Hg].
  destruct g as [[a|w l]|[ds|dl]]; try discriminate; try (inversion E; subst; assumption).
  destruct w; cbn [negb] in E; [|discriminate].
  destruct (negb on_modify_before_op); [discriminate|].
  pose proof (Hg _ eq_refl) as Hc.
  destruct (if is_wrapped o then mark_unsaved sg rn else Ok sg) as [s2|k|] eqn:EM; cbn [bind] in E; try discriminate.
  assert (tracked_inv s2 /\ m_config s2 = m_config sg) as [Hs2 Hcfg].
  { destruct (is_wrapped o); [eapply tracked_mark_unsaved; eassumption|inversion EM; subst; auto]. }
  destruct (py_list_op o l) as [l'|k]; inversion E; subst; [|assumption].
  eapply tracked_with_config_same; [assumption|]. rewrite Hcfg. exact Hc.
Qed.

Lemma tracked_setattr st name v st1 : tracked_inv st -> m_setattr st name v = Ok st1 -> tracked_inv st1.
Proof.
  intros [HP [HC HU]] E. unfold m_setattr in E.
  destruct (ci_eqb (find_real_name st name) hiddenservices_lc); [discriminate|].
  destruct (dget (find_real_name st name) (m_parsers st)) as [[[pk vk] il]|]; [|discriminate].
  destruct (validate vk v) as [v1|k|]; cbn [bind] in E; inversion E.
  split; [exact HP|]. split; [exact HC|].
  intros k w l Hin Hlt. cbn [with_unsaved m_unsaved] in Hin.
  apply In_dset in Hin as [[E1 E2]|Hin]; [|eapply HU; eassumption].
  destruct v1; cbn in E2; now inversion E2.
Qed.

(* the loop of save(): `items` is the snapshot of unsaved taken when the loop started *)
Lemma tracked_save_loop : forall items st acc st' args,
  tracked_inv st ->
  (forall k w l, In (k, UVal (CList w l)) items -> list_typed st k -> w = true) ->
  save_loop st items acc = Ok (st', args) -> tracked_inv st' /\ m_parsers st' = m_parsers st.
Proof.
  induction items as [|[key uv] rest IH]; intros st acc st' args Hinv Hit H; cbn [save_loop] in H.
  - inversion H. subst. auto.
  - destruct (beqb key (bs "HiddenServices")); [discriminate|].
    destruct (match uv with UAlias => dget key (m_config st) | UVal v => Some v end) as [value|] eqn:EV; [|discriminate].
    destruct (negb (beqb (find_real_name st key) key)) eqn:Hrn; [discriminate|].
    apply negb_false_iff, beqb_eq in Hrn.
    assert (forall st1, tracked_inv st1 -> m_parsers st1 = m_parsers st -> forall acc1,
              save_loop st1 rest acc1 = Ok (st', args) -> tracked_inv st' /\ m_parsers st' = m_parsers st) as Hgo.
    { intros st1 H1 HP1 acc1 Hl.
      destruct (IH st1 acc1 st' args H1) as [Ha Hb]; [|exact Hl|split; [exact Ha|congruence]].
      intros k w l Hin [pk [vk Hlt]]. apply (Hit k w l (or_intror Hin)). exists pk, vk. now rewrite <- HP1. }
    destruct value as [a|w l].
    + rewrite Hrn in H.
      destruct (dget key (m_parsers st)) as [[[pk vk] il]|] eqn:EP.
      * destruct (parse pk (PAtom a)) as [pv|e|] eqn:EPa; cbn [bind] in H; try discriminate.
        match type of H with save_loop ?s _ _ = _ => refine (Hgo s _ eq_refl _ H) end. apply tracked_set_config; [assumption|].
        intros [pk' [vk' Hp]]. rewrite EP in Hp. inversion Hp. subst pk' vk' il.
        destruct Hinv as [HP _].
        destruct (parse_list_kind pk _ _ (known_list_kind pk vk (HP _ _ EP)) EPa) as [l Hl]. subst pv. cbn. eauto.
      * match type of H with save_loop ?s _ _ = _ => refine (Hgo s _ eq_refl _ H) end. apply tracked_set_config; [assumption|].
        intros [pk' [vk' Hp]]. rewrite EP in Hp. discriminate.
    + destruct (existsb (fun x => match x with AStr s => beqb s DEFAULT_VALUE | _ => false end) l); [discriminate|].
      match type of H with save_loop ?s _ _ = _ => refine (Hgo s _ eq_refl _ H) end.
      destruct Hinv as [HP [HC HU]]. split; [exact HP|]. split; cbn [m_config m_unsaved m_parsers].
      * intros k' v' Hlt Hc. destruct (list_eq_dec ascii_dec key k') as [E|E].
        -- subst k'. rewrite dget_dset_same in Hc. inversion Hc. subst v'.
           destruct uv as [|v0].
           ++ eapply HC; eassumption.
           ++ inversion EV. subst v0. rewrite (Hit key w l (or_introl eq_refl) Hlt). eauto.
        -- rewrite dget_dset_other in Hc by assumption. eapply HC; eassumption.
      * intros k' w' l' Hin Hlt. apply In_dset in Hin as [[E1 E2]|Hin]; [discriminate|]. eapply HU; eassumption.
Qed.

Lemma tracked_save st rej st1 wrote r : tracked_inv st -> m_save st rej = Some (st1, wrote, r) -> tracked_inv st1.
Proof.
  intros Hinv H. unfold m_save in H. destruct (m_unsaved st) as [|it items] eqn:EU.
  - inversion H. subst. assumption.
  - rewrite <- EU in H.
    destruct (save_loop st (m_unsaved st) []) as [[sl args]|k|] eqn:EL; try discriminate.
    destruct (tracked_save_loop _ _ _ _ _ Hinv (proj2 (proj2 Hinv)) EL) as [Hsl HPsl].
    destruct (existsb (fun kv : bytes * bytes => key_refused (fst kv)) args); [inversion H; subst; assumption|].
    destruct rej; inversion H; subst; [assumption|].
    destruct Hsl as [HP [HC HU]]. split; [exact HP|]. split; [exact HC|]. intros k w l [].
Qed.

Lemma tracked_conf_changed : forall kvs st st1, tracked_inv st -> conf_changed_items st kvs = Ok st1 -> tracked_inv st1.
Proof.
  induction kvs as [|kv kvs IH]; intros st st1 Hinv H; cbn [conf_changed_items] in H.
  - inversion H. subst. assumption.
  - destruct (conf_changed_item st kv) as [s1|k|] eqn:E; cbn [bind] in H; try discriminate.
    eapply IH; [|eassumption].
    unfold conf_changed_item in E. destruct kv as [k v0].
    destruct (dget (find_real_name st k) (m_parsers st)) as [[[pk vk] il]|] eqn:EP.
    + match type of E with (match ?r with _ => _ end) = _ => destruct r as [cv|k'|] eqn:ER end.
      * inversion E. apply tracked_set_config; [assumption|].
        intros [pk' [vk' Hp]]. rewrite EP in Hp. inversion Hp. subst pk' vk' il.
        destruct (parse pk (pyval_of_kw v0)) as [parsed|e|]; cbn [bind] in ER; try discriminate.
        destruct parsed as [a|l]; [discriminate|]. inversion ER. eauto.
      * destruct ((k' =? E_Value) || (k' =? E_Type)); inversion E. subst. assumption.
      * discriminate.
    + inversion E. apply tracked_set_config; [assumption|].
      intros [pk' [vk' Hp]]. rewrite EP in Hp. discriminate.
Qed.

Lemma tracked_step names st o st' ob : m_step names st o = Some (st', ob) -> tracked_inv st -> tracked_inv st'.
Proof.
  intros H Hinv. destruct o; cbn [m_step] in H.
  - destruct (m_setattr st name v) as [s1|k|] eqn:E; inversion H; subst; [|assumption].
    eapply tracked_setattr; eassumption.
  - destruct (m_listop st name o) as [[s1 ex]|k|] eqn:E; [|discriminate|discriminate].
    assert (tracked_inv s1) by (eapply tracked_listop; eassumption).
    destruct ex; inversion H; subst; assumption.
  - destruct (m_save st reject) as [[[s1 wrote] r]|] eqn:E; [|discriminate].
    destruct (m_snapshot s1 names) as [[s2 snap]|] eqn:ES; [|discriminate].
    inversion H. subst. eapply tracked_snapshot; [|eassumption]. eapply tracked_save; eassumption.
  - destruct (m_read st name) as [[s1 [v|k]]|] eqn:E; inversion H; subst; eapply tracked_read; eassumption.
  - inversion H. subst. assumption.
  - destruct (m_conf_changed st items) as [s1|k|] eqn:E; try discriminate.
    destruct (m_snapshot s1 names) as [[s2 snap]|] eqn:ES; [|discriminate].
    inversion H. subst. eapply tracked_snapshot; [|eassumption]. eapply tracked_conf_changed; eassumption.
  - destruct (m_socks st) as [[s1 r]|] eqn:E; [|discriminate]. inversion H. subst.
    unfold m_socks in E.
    destruct (m_getattr st (bs "SocksPort")) as [[[sg rn] g]|k|] eqn:EG; [|inversion E; subst; assumption|discriminate].
    destruct (tracked_getattr _ _ _ _ _ Hinv EG) as [Hsg _].
    destruct g as [[a|w [|[line|z|b|t] l]]|d]; try discriminate; try (inversion E; subst; assumption).
    destruct (prefixb (bs "unix:") line); [inversion E; subst; assumption|].
    destruct (existsb (fun c => is_space c && negb (Ascii.eqb c SP)) line); [discriminate|].
    match type of E with (if ?c then _ else _) = _ => destruct c end.
    + destruct (split_on COLON _) as [|h rest]; [discriminate|].
      destruct (str_int _) as [[|p|p]|k|]; inversion E; subst; assumption.
    + destruct (str_int _) as [[|p|p]|k|]; inversion E; subst; assumption.
Qed.

Lemma reaches_tracked names st ops st' : reaches names st ops st' -> tracked_inv st -> tracked_inv st'.
Proof. induction 1; intros Hinv; [assumption|]. apply IHreaches. eapply tracked_step; eassumption. Qed.
