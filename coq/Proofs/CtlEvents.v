(* C02: delivery of a complete event to exactly the registered listeners; listener faults are
   isolated; an event leaves the command queue, the response accumulator and the FSM untouched. *)
From Coq Require Import List Bool Ascii Arith NArith ZArith Lia.
From TxVerif Require Import Lib.Bytes Spec.Ctl Model.CtlTypes Gen.CtlFsmTable Model.Framing Model.CtlProto
  Proofs.CtlParse Proofs.CtlText Proofs.CtlItem Proofs.CtlInv.
Import ListNotations.
Open Scope N_scope.

Definition no_evcb (os : list obs) : bool := forallb (fun o => negb (is_evcb o)) os.
Lemma no_evcb_app a b : no_evcb (a ++ b) = no_evcb a && no_evcb b.
Proof. apply forallb_app. Qed.

Lemma filter_evcb_none os : no_evcb os = true -> filter is_evcb os = [].
Proof.
  induction os as [|o os IH]; [reflexivity|]. cbn [no_evcb forallb filter]. intros H.
  apply andb_true_iff in H as [H1 H2]. destruct (is_evcb o); [discriminate|]. now apply IH.
Qed.

Lemma submit0_no_evcb s c : let '(_, o, _) := submit0 s c in no_evcb o = true.
Proof.
  unfold submit0, submit. destruct (p_lost s).
  - destruct (p_inflight s); [reflexivity|]. destruct (p_queue s); [|reflexivity].
    unfold resolve, andthen, emit, no_script. destruct (cscript c); reflexivity.
  - unfold maybe_issue. cbn [p_inflight upd_q p_queue p_lost]. destruct (p_inflight s); [reflexivity|].
    destruct (p_queue s ++ [c]); [reflexivity|]. destruct (p_lost s); reflexivity.
Qed.

Lemma rem_no_evcb s n l c : let '(_, o, _) := rem_listener submit0 s n l c in no_evcb o = true.
Proof.
  unfold rem_listener. destruct (find_ev (p_events s) n); [|reflexivity].
  destruct (remove_first l l0) as [[|x l']|]; [|reflexivity|reflexivity].
  apply submit0_no_evcb.
Qed.

Section Events.
  Variable lbehs : list (N * lbeh).

  Lemma run_removes_no_evcb s rs : no_evcb (snd (run_removes s rs)) = true.
  Proof.
    revert s. induction rs as [|[[n l] c] rs IH]; intros s; cbn [run_removes]; [reflexivity|].
    pose proof (rem_no_evcb s n l c) as H.
    destruct (rem_listener submit0 s n l c) as [[s1 o1] ok]. destruct ok; [|reflexivity].
    specialize (IH s1). destruct (run_removes s1 rs) as [s2 o2]. cbn [snd] in *.
    now rewrite no_evcb_app, H, IH.
  Qed.

  (* every listener registered when the event completes gets it exactly once, in registration
     order, whatever the listeners do (raise, unsubscribe themselves or others) *)
  Theorem got_update_delivers_all s lids payload :
    filter is_evcb (snd (got_update lbehs s lids payload)) = map (fun l => EventCb l payload) lids.
  Proof.
    revert s. induction lids as [|l ls IH]; intros s; cbn [got_update]; [reflexivity|].
    set (r1 := match beh lbehs l with LRemoves rs => run_removes s rs | _ => (s, []) end).
    assert (H1 : no_evcb (snd r1) = true).
    { unfold r1. destruct (beh lbehs l); try reflexivity. apply run_removes_no_evcb. }
    destruct r1 as [s1 o1]. specialize (IH s1). destruct (got_update lbehs s1 ls payload) as [s2 o2].
    cbn [snd] in *. cbn [filter is_evcb map]. f_equal.
    rewrite filter_app, (filter_evcb_none o1 H1). exact IH.
  Qed.

  (* nobody else: a name without listeners delivers nothing and changes nothing *)
  Lemma handle_notify_unsubscribed s text : take_word text <> [] ->
    find_ev (p_events s) (take_word text) = None -> handle_notify lbehs s text = ret s.
  Proof.
    intros Hn Hf. unfold handle_notify. destruct (take_word text) eqn:E; [congruence|]. now rewrite Hf.
  Qed.

  (* listeners that do not unsubscribe anybody: the protocol state is exactly what it was *)
  Definition passive (lids : list N) : bool :=
    forallb (fun l => match beh lbehs l with LRemoves _ => false | _ => true end) lids.

  Lemma got_update_passive s lids payload : passive lids = true ->
    got_update lbehs s lids payload = (s, map (fun l => EventCb l payload) lids).
  Proof.
    induction lids as [|l ls IH]; [reflexivity|]. cbn [passive forallb]. intros H.
    apply andb_true_iff in H as [H1 H2]. cbn [got_update map].
    destruct (beh lbehs l); try discriminate; rewrite (IH H2); reflexivity.
  Qed.

  Lemma rest_eta s : at_rest s -> set_line (upd_fsm (upd_fsm s (p_fsm s) (Some 0) []) IDLE None []) IDLE None = s.
  Proof. intros (H1 & H2 & H3 & H4). destruct s. cbn in *. subst. reflexivity. Qed.

  (* non-interference, state level: after a complete event whose listeners are passive, the
     protocol is in exactly the state it was in before the first byte of the event arrived:
     same command in flight, same queue, empty accumulator, and only listener calls were observed *)
  Theorem event_non_interference s i lids :
    at_rest s -> wf_item i = true -> is_6xx (icode i) = true -> item_fits i = true ->
    event_name i <> [] -> find_ev (p_events s) (event_name i) = Some lids -> passive lids = true ->
    lines_received lbehs s (render_lines i) = (s, map (fun l => EventCb l (event_payload i)) lids, true).
  Proof.
    intros R Hwf H6 Hfit Hn Hf Hp. rewrite event_item by assumption.
    unfold finish_event, handle_notify. fold (event_name i). unfold event_name in *.
    destruct (take_word (item_text i)) eqn:E; [congruence|].
    cbn [p_events upd_fsm]. rewrite Hf. rewrite got_update_passive by assumption.
    unfold andthen, ret. cbn [upd_fsm p_fsm p_code p_resp set_line]. rewrite !app_nil_r.
    f_equal. f_equal.
    - destruct R as (H1 & H2 & H3 & H4). destruct s. cbn in *. subst. reflexivity.
    - unfold event_payload, event_name. now rewrite E.
  Qed.

  Theorem event_unsubscribed_is_invisible s i :
    at_rest s -> wf_item i = true -> is_6xx (icode i) = true -> item_fits i = true ->
    event_name i <> [] -> find_ev (p_events s) (event_name i) = None ->
    lines_received lbehs s (render_lines i) = (s, [], true).
  Proof.
    intros R Hwf H6 Hfit Hn Hf. rewrite event_item by assumption.
    unfold finish_event. rewrite handle_notify_unsubscribed by assumption.
    unfold andthen, ret. cbn [upd_fsm p_fsm p_code p_resp set_line app].
    f_equal. f_equal. destruct R as (H1 & H2 & H3 & H4). destruct s. cbn in *. subst. reflexivity.
  Qed.
End Events.
